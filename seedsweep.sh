#!/usr/bin/env bash
# ./seedsweep.sh [ids...] — re-confirm every stored seeded change and run its property's check(s) on it.
# Writes seeded/RESULTS.txt. Uses only what is stored under /verif/seeded.
ROOT="$(cd "$(dirname "${BASH_SOURCE[0]}")" && pwd)"; cd "$ROOT"
IDS=("$@"); [ ${#IDS[@]} -eq 0 ] && IDS=($(ls seeded | grep -E '^C[0-9]+-[0-9]+$'))
: > seeded/RESULTS.txt
for id in "${IDS[@]}"; do
  P=${id%-*}; K=${id#*-}
  extra=(); [ "$P" = "C20" ] && [ "$K" = "2" ] && extra=(C20 C17)
  [ "$id" = "C14-6" ] && extra=(C14 C17 C20)   # independence of copies: the property of C17 / C20
  [ "$id" = "C18-6" ] && extra=(C18 C02)
  { [ "$id" = "C15-9" ] || [ "$id" = "C15-10" ]; } && extra=(C15 C16)   # script stores into typed containers / slice length histories: C16's workload
  ./seedcheck.sh "$P" "$K" "${extra[@]}" | tee -a seeded/RESULTS.txt
done
