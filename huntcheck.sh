#!/usr/bin/env bash
# ./huntcheck.sh — runs every reproducer under hunted/ (defects found by reading and probing the unmodified tree,
# see DESIGN.md 6.4) against a scratch copy of /repo; a reproducer PASSES once its defect is repaired.
# Writes hunted/RESULTS.txt. Development-time tool, never run by a registered check.
ROOT="$(cd "$(dirname "${BASH_SOURCE[0]}")" && pwd)"; cd "$ROOT"
export GOFLAGS=-mod=mod GOPROXY=off GOSUMDB=off GOTOOLCHAIN=local
S=/tmp/huntcheck.$$; mkdir -p $S; rsync -a --exclude .git /repo/ $S/otto/
: > hunted/RESULTS.tmp
for d in hunted/C*-*/; do
  id=$(basename "$d"); [ -f "$d/repro_test.go.txt" ] || continue
  cp "$d/repro_test.go.txt" $S/otto/zz_hunt_test.go
  if (cd $S/otto && go test -vet=off -run TestHunt -count=1 . >/dev/null 2>&1); then r="repaired (reproducer passes)"; else r="STILL FAILS"; fi
  rm -f $S/otto/zz_hunt_test.go
  disp=$(cat "$d/disposition.txt" 2>/dev/null | head -1)
  echo "$id: $r — $disp" | tee -a hunted/RESULTS.tmp
done
mv hunted/RESULTS.tmp hunted/RESULTS.txt; rm -rf $S
