#!/usr/bin/env python3
# Writes seeded/RESULTS.txt from the meta.json that seedcheck.sh left for every stored change
# (used after a sweep that ran the properties in parallel; seedsweep.sh writes the same lines serially).
import json, os, glob, re
ROOT = os.path.dirname(os.path.dirname(os.path.abspath(__file__)))
rows = []
for mp in glob.glob(os.path.join(ROOT, 'seeded', 'C*-*', 'meta.json')):
    m = json.load(open(mp)); i = os.path.basename(os.path.dirname(mp))
    P, k = i.split('-')
    rows.append((P, int(k), f"SEED {i} [{m['confirmation']}] {m['checks']}"))
rows.sort()
open(os.path.join(ROOT, 'seeded', 'RESULTS.txt'), 'w').write('\n'.join(r[2] for r in rows) + '\n')
missed = [r[2] for r in rows if 'CAUGHT' not in r[2]]
print(len(rows), 'changes;', len(missed), 'caught by no check', missed)
