#!/usr/bin/env bash
# runs every claimed check at the thorough tier, one after the other; logs under build/thorough/
cd "$(dirname "$0")/.." || exit 2
mkdir -p build/thorough
for c in "$@"; do
  s=$(date +%s)
  VERIF_SEED="${VERIF_SEED:-1}" ./check "$c" --tier thorough > "build/thorough/$c.log" 2>&1; rc=$?
  echo "$c exit=$rc wall=$(( $(date +%s)-s ))s $(tail -1 build/thorough/$c.log | cut -c1-200)" | tee -a build/thorough/SUMMARY.txt
done
