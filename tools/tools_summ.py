import json,glob,collections,sys,re
prop=sys.argv[1]
c=collections.Counter(); ex={}
for f in glob.glob(f'replay/{prop}/*.json'):
    r=json.load(open(f))
    d=r.get('detail','')
    k=re.sub(r'#\d+','#N',d)
    k=re.sub(r'"[A-Za-z]+\d+"','"ID"',k)[:230]
    c[k]+=1; ex.setdefault(k,f)
for k,n in c.most_common(int(sys.argv[2]) if len(sys.argv)>2 else 40):
    print(n,k,'\n     ',ex[k])
