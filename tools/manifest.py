#!/usr/bin/env python3
# Regenerates /verif/MANIFEST.json from the table below (kept valid at all times).
import json, os, sys
ROOT = os.path.dirname(os.path.dirname(os.path.abspath(__file__)))
props = [json.loads(l) for l in open(os.path.join(ROOT, 'properties.jsonl'))]
# id -> (technique, level text, level note)
CHECKS = {
 'C01': ('reference-model trace monitor (executable ES5.1 interpreter as oracle) over generated programs x 6 routes; known defects as deviation models',
         'Every generated program is executed by the real interpreter through each submission route and by an independent ES5.1 reference interpreter; host-call trace, completion value and uncaught-exception class must agree. Exploration: held on the programs generated for the seed; says nothing about programs outside the generator.',
         'trusted base: internal/refjs (written from the ES5.1 text), internal/pgen generator, insertion-order enumeration assumption; number formatting inside the model via strconv'),
 'C02': ('crash/hang monitor: recover() at the API boundary + child-process isolation with the call announced on disk before it is made; full built-in surface x receiver kinds x argument kinds (sampled pairs plus a fully crossed position/count boundary product on receivers with a length); hostile sources through every entry point; accessors on every produced value; stack-limit recursion shapes',
         'Every function reachable from the global object is called with every receiver kind and sampled argument tuples through call/new/apply/bind and the Go API; every result goes through all Value/Object accessors; mutated programs and junk go through Run/Eval/Compile/Call/Object/eval/Function; recursion shapes around configured limits (incl. host functions calling back through the Go API at the exact depth of refusal) must end in a catchable RangeError. A Go panic, a process death or a confirmed hang is a violation. Exploration over a finite product (sampled in quick).',
         'trusted base: none beyond the harness (no model needed); resource exhaustion (huge lengths / digit counts) excluded by construction'),
 'C03': ('generating-tree oracle: parser output compared node by node with the tree that produced the text, 6 renderings per tree',
         'The syntax tree that generated the source text is the oracle for the parser; exhaustive over ordered operator pairs, random over the rest of the grammar, with white-space/comment/ASI/parenthesis renderings. Exploration.',
         'trusted base: internal/gt renderer (ES5 precedence table, ASI rules 7.9.1) and canonical dumpers in internal/checks/c03'),
 'C05': ('reference-model monitor over the full product of a boundary operand set x all operators, valueOf/toString call order in the trace',
         'All 23 binary operators plus unary/logical/conditional forms and Number/String/Boolean are applied to every ordered pair of a ~300-value boundary set (quick: a seed-chosen third; thorough: full product + Go-kind injection + random doubles) and compared line by line with internal/refjs. Exploration over a dense finite set.',
         'trusted base: internal/refjs clauses 9 and 11'),
 'C06': ('reference-model monitor (math/big oracle for 9.8.1, 15.7.4, 9.3.1, 15.1.2.2-3) + round-trip law',
         'Number<->text conversions of boundary-directed doubles, digit counts, radixes and grammar-derived strings are compared with an exact big-number oracle that shares no code with strconv. Exploration.',
         'trusted base: internal/refnum (math/big only)'),
 'C07': ('history checker: operation histories replayed on an executable 8.12/15.2.3 object model, full observation after every step',
         'Random histories of property-model operations with arbitrary descriptors over linked objects; every observation after every step is compared with the model. Exploration.',
         'trusted base: internal/refobj; insertion-order enumeration assumption'),
 'C11': ('reference-model monitor: strict 15.12.1 recogniser/builder and 15.12.2-3 algorithms; exact text comparison and round-trip laws',
         'Generated and mutated JSON texts, value DSL x replacer/space/reviver families; parse results, exact stringify text and round trips are compared with internal/refjson. Exploration.',
         'trusted base: internal/refjson (no encoding/json in the oracle)'),
 'C04': ('totality and well-formedness monitors over hostile inputs: recover() around the parser, position and span assertions, reflective child discovery vs ast.Walk event stream, constructive-invalidity oracle, runtime no-effect relation',
         'Random bytes/token soup, truncations and token mutations of generated programs, valid programs with one provably invalid construct inserted, and nesting bombs are parsed in three modes; panics, out-of-range positions, accepted invalid programs, effects of rejected source on a runtime, ill-formed spans and Walk anomalies are reported. Exploration.',
         'trusted base: list of invalid constructs (each invalid at top level whatever precedes it); reflection-based child discovery over ast struct fields'),
 'C08': ('reference-model monitor: every 15.4.4 algorithm and the 15.4.5.1 length semantics executed step by step on a model object, callbacks defined twice (JS and Go); known defects as deviation models',
         'Array methods on arrays and array-likes of every shape x argument boundary values x callback family, plus index canonicalisation and length writes; return value, full receiver dump, callback log and error class are compared with internal/refarr. Exploration.',
         'trusted base: internal/refarr'),
 'C09': ('reference-model monitor over UTF-16 code units (15.5 algorithms on []uint16), two injection routes, results read back as code units; known defects as deviation models',
         'String methods x strings over ASCII/Latin-1/BMP/astral/lone-surrogate units x position boundary values x receiver kinds, compared exactly with internal/refstr. Exploration.',
         'trusted base: internal/refstr; simple case mapping table generated from Unicode data'),
 'C10': ('reference-model monitor: ES5 15.10.2 backtracking matcher in continuation style + protocol algorithms; translation soundness by compiling every accepted pattern; RE2-semantics regions as narrow known findings',
         'Patterns from the portable-subset grammar and mutations into unsupported/malformed ones x all subjects up to length 5 over a small alphabet x flags, and call histories on one RegExp carrying lastIndex, compared with internal/refre. Exploration.',
         'trusted base: internal/refre'),
 'C12': ('reference-model monitor: 15.9.1 time-value algebra in exact float64/integer arithmetic (no package time)',
         'Time values around every era/year/month/leap boundary, field tuples with overflow/negative/fractional/non-finite components and setter histories are compared with internal/refdate; ISO strings round-trip. Exploration.',
         'trusted base: internal/refdate; TZ=UTC'),
 'C13': ('reference-model / relational monitor: 15.8.2 special-case tables transcribed cell by cell, exact round, sign/monotonicity/inverse relations; 15.1.3 Encode/Decode model over code units',
         'Every Math function x boundary tuples; every code unit and astral pair through the URI functions and escape/unescape, with mutations of valid escapes. Exploration (thorough: exhaustive over single code units).',
         'trusted base: internal/refmath, internal/refuri'),
 'C15': ('relational round-trip monitor (Go value -> Set -> Get/Export/To*/MarshalJSON and script-side probes), no model',
         'Reflect-generated Go values of every supported kind at width boundaries and JS values from the boundary set; originals and read-backs must agree under the documented normal form; Go-API calls must equal in-language calls. Exploration.',
         'trusted base: internal/refbridge (exact rational comparison, documented Export contract)'),
 'C16': ('exact-or-loud relation + shadow-model history checker for bridged containers',
         'Go functions of every parameter type called with boundary JS values: the callee received exactly the denoted value or the script saw a TypeError/RangeError; histories of script and Go-side mutations on bridged slices/maps/structs compared with a shadow copy after every step; live histories on a pointer-bridged struct (embedded pointer, pointer field, slice, map, nested struct) in which Go re-points or writes in place and the script reads and writes, the Go struct being the ground truth after every step. Exploration.',
         'trusted base: internal/refbridge; otto README contract for bridged calls'),
 'C18': ('step-indexed fault injection through the product\'s own interrupt channel (self-re-arming function = step hook), dry-run prefix oracle, state-at-rest hook, follow-up probe; control-runtime promptness check; stack-limit threshold check',
         'Every polling step of generated programs (all k up to 300 per program) gets an interrupt panic; Run must unwind with exactly that panic, the host-call trace and global fuel counter must equal the dry-run prefix, scope depth and label count (verif hook) must be zero and a probe script must still work; the same for host-function panics, uncaught exceptions and stack-limit RangeErrors; poll-free loop shapes are interrupted from another goroutine against a control runtime; limit L admits exactly L-1 nested plain calls; a host function that calls back through Otto.Call / Value.Call at every depth around the limit and carries on after a refusal leaves every frame in its own context, an empty scope stack and the full limit. Fault enumeration over polling steps of the generated programs.',
         'trusted base: the interpreter polls deterministically (dry run and injected run number steps identically); hook verif_hooks.go (read-only)'),
 'C19': ('generator-known positions and classes: error class/shape observed in-script and through Run, every stack frame line compared with the call sites the generator placed, syntax error positions; known call-site defects as exact deviation models',
         'About 70 error-raising constructs x 12 nestings (class, prototype chain, message, String(e), Run text); chains of up to 12 frames of every call form with generated line/column positions x trace limits x file names; offending tokens at generated positions through ParseFile/Run/eval/Function. Exploration.',
         'trusted base: the call-site convention pinned by error_test.go/function_stack_test.go'),
 'C14': ('exhaustive table check of ES5 section 15 shape in 5 runtime contexts + distinguishing calls + recursive shape dumps',
         'A hand-transcribed table of every ES5.1 section 15 binding (kind, length, attributes, class, links) is evaluated exhaustively in fresh/second/underscore/Copy/Copy-of-Copy runtimes. Finite space enumerated completely (exhaustive: true).',
         'trusted base: internal/es5table transcription'),
 'C17': ('relational monitor: canonical heap dump (JS walker + host-side object-identity table) of a copy vs a freshly built equivalent and of the original before/after the copy is mutated; reflective walk of both runtimes for mutable Go heap nodes reachable from both',
         'A template runtime (fixed rich prelude + generated program) is copied; the copy must dump identically to the original and must behave like it under a mutation sequence and probes (equivalence to a runtime built by replaying the same sources), mutating either side must leave the other side\'s dump unchanged (isolation, both directions and copy-of-copy), and no mutable Go object other than an allow-listed set of immutable tables may be reachable from both runtimes. Exploration over generated templates and mutation sequences.',
         'trusted base: the JS dumper (uses only property-model built-ins checked by C07/C14), the allow-list of immutable shared nodes in internal/checks/c17'),
 'C20': ('Go race detector on a -race build of the harness + trace equality against a sequential baseline + deep hash of shared compiled artefacts',
         'N in {2,8,32} goroutines each drive their own runtime in six sharing modes (fresh runtimes, copies taken concurrently from one template, one compiled Script, one parsed Program, concurrent Compile, underscore registry) over generated programs, a built-in-heavy program touching every package-level table, a program exercising every per-call table of the compiled tree, and touch sequences over rich template state. Each new race-detector report is a violation; every runtime\'s trace must equal its sequential baseline; the shared Script/Program must hash identically before and after. Exploration: the detector sees only executed accesses.',
         'trusted base: Go race detector (happens-before, no false positives on instrumented code); harness-side shared state is a sync.Map and atomics'),
}
LEVEL = {k: 'exploration' for k in CHECKS}
LEVEL['C18'] = 'fault_enumeration'
REASONS = {}
checks = []
for p in props:
    pid = p['id']
    if pid in CHECKS and os.path.isdir(os.path.join(ROOT, 'harness/internal/checks', pid.lower())):
        tech, text, note = CHECKS[pid]
        checks.append({
            'property_id': pid,
            'quick_cmd': f'./check {pid} --tier quick',
            'thorough_cmd': f'./check {pid} --tier thorough',
            'evidence_file': f'evidence/{pid}.json',
            'replay_cmd_template': f'./check {pid} --replay {{path}}',
            'engine': 'ottocheck',
            'level_claimed': {'category': LEVEL[pid], 'text': text, 'design_ref': f'DESIGN.md section 5, {pid}'},
            'level_note': note,
            'technique': tech,
        })
claimed = {c['property_id'] for c in checks}
na = [{'property_id': p['id'], 'reason': REASONS.get(p['id'], 'check not yet registered (under construction); runtime monitoring applies, see DESIGN.md section 5')} for p in props if p['id'] not in claimed]
hooks_commits = []
hc = os.path.join(ROOT, 'hooks_commits.txt')
if os.path.exists(hc):
    hooks_commits = [l.split()[0] for l in open(hc) if l.strip()]
m = {
 'version': 1,
 'setup_cmd': './setup.sh',
 'hooks': {'guard': 'verif', 'enable': 'go build -tags verif (harness module: replace github.com/robertkrimen/otto => /repo)',
           'baseline_off_cmd': 'cd /repo && GOFLAGS=-mod=mod GOPROXY=off GOSUMDB=off go test -vet=off -count=1 -timeout 25m ./...',
           'source_commits': hooks_commits, 'add_only': True},
 'engines': [{'name': 'ottocheck', 'path': 'harness/', 'serves_properties': sorted(claimed),
              'kind_free_text': 'Go harness: per-property worker-process pools driving the real otto code; reference-model / relational / history monitors; known-findings classifier with deviation models; replay'}],
 'checks': checks,
 'notes': 'Known findings: known_findings/*.jsonl (one file per property; open = KNOWN-FINDING line, fixed = regression witness). See DESIGN.md section 4.',
 'not_applicable': na,
}
json.dump(m, open(os.path.join(ROOT, 'MANIFEST.json'), 'w'), indent=1)
print('claimed:', sorted(claimed))
