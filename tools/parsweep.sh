#!/usr/bin/env bash
# tools/parsweep.sh Cnn... — seed sweep with one worker per property (up to 5 at a time); lines land in build/parsweep/<Cnn>.txt, then run tools/seed_results.py (development-time tool)
cd "$(dirname "$0")/.." || exit 2; mkdir -p build/parsweep
work() { P=$1; : > build/parsweep/$P.txt
  for id in $(ls seeded | grep -E "^$P-[0-9]+$" | sort -t- -k2 -n); do K=${id#*-}
    extra=(); [ "$id" = "C20-2" ] && extra=(C20 C17); [ "$id" = "C14-6" ] && extra=(C14 C17 C20); [ "$id" = "C18-6" ] && extra=(C18 C02); { [ "$id" = "C15-9" ] || [ "$id" = "C15-10" ]; } && extra=(C15 C16)
    ./seedcheck.sh "$P" "$K" "${extra[@]}" | tail -1 >> build/parsweep/$P.txt
  done; }
for P in "$@"; do work $P & 
  while [ $(jobs -r | wc -l) -ge 5 ]; do sleep 2; done
done; wait; echo SWEEPDONE
