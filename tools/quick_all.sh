#!/usr/bin/env bash
# runs every claimed check at the quick tier for the given seeds (default 1); prints one line per check
cd "$(dirname "$0")/.." || exit 2
SEEDS="${*:-1}"
for s in $SEEDS; do
  for i in $(seq -w 1 20); do
    out=$(VERIF_SEED=$s timeout 1800 ./check C$i 2>&1); rc=$?
    echo "seed=$s C$i exit=$rc $(printf '%s\n' "$out" | grep "^C$i tier" | cut -c1-160) $(printf '%s\n' "$out" | grep -c '^VIOLATION') violation-lines"
  done
done
