#!/usr/bin/env python3
# usage: kf_add.py  (reads JSON objects, one per line, on stdin; appends each to known_findings/<property>.jsonl,
# replacing an entry with the same id). Development-time tool.
import json,sys,os
root=os.path.dirname(os.path.dirname(os.path.abspath(__file__)))
for line in sys.stdin.read().split('\n'):
    if not line.strip(): continue
    e=json.loads(line)
    p=os.path.join(root,'known_findings',e['property']+'.jsonl')
    rows=[l for l in open(p).read().split('\n') if l.strip()]
    out=[];done=False
    for l in rows:
        if json.loads(l)['id']==e['id']:
            out.append(json.dumps(e,ensure_ascii=False));done=True
        else: out.append(l)
    if not done: out.append(json.dumps(e,ensure_ascii=False))
    open(p,'w').write('\n'.join(out)+'\n')
    print(('replaced ' if done else 'added ')+e['id'])
