import json,sys
r=json.load(open(sys.argv[1]))
print(r['detail']); print(r['input']['src'])
def tr(s):
    a=s.split('trace=[')[1]
    t,rest=a.rsplit('] completion=',1)
    return t.split(' | '),rest
e,er=tr(r['expected']); a,ar=tr(r['actual'])
for i in range(max(len(e),len(a))):
    x=e[i] if i<len(e) else '-'; y=a[i] if i<len(a) else '-'
    print(('   ' if x==y else '!! '),x,'   ||   ',y)
print(er,'||',ar)
