#!/usr/bin/env python3
# Assembles /verif/DESIGN.md from notes/design/{00-head.md, C01..C20.md, 90-tail.md, appendix.md, seeded.md}
# (development-time; run tools/findings_index.py first).
import os, json, glob, subprocess
ROOT = os.path.dirname(os.path.dirname(os.path.abspath(__file__)))
D = os.path.join(ROOT, 'notes', 'design')
rd = lambda n: open(os.path.join(D, n)).read()
ents = [json.loads(l) for f in sorted(glob.glob(os.path.join(ROOT, 'known_findings', '*.jsonl'))) for l in open(f) if l.strip()]
nopen = sum(1 for e in ents if e['status'] == 'open')
nfix = sum(1 for l in subprocess.check_output(['git', '-C', '/repo', 'log', '--format=%s']).decode().splitlines() if l.startswith('fix:'))
out = rd('00-head.md')
for i in range(1, 21):
    out += rd(f'C{i:02d}.md').rstrip() + '\n\n'
out += rd('90-tail.md').replace('{{SEEDED_TABLE}}', rd('seeded.md'))
out += '\n' + rd('appendix.md')
for k, v in {'{{NTOTAL}}': len(ents), '{{NOPEN}}': nopen, '{{NFIXED}}': len(ents) - nopen, '{{NFIXCOMMITS}}': nfix}.items():
    out = out.replace(k, str(v))
open(os.path.join(ROOT, 'DESIGN.md'), 'w').write(out)
print('DESIGN.md', len(out.splitlines()), 'lines')
