#!/usr/bin/env python3
# Assembles /verif/DESIGN.md from notes/design/{00-head.md, C01..C20.md, 90-tail.md, appendix.md, seeded.md}
# (development-time; run tools/findings_index.py first).
import os, json, glob, subprocess
ROOT = os.path.dirname(os.path.dirname(os.path.abspath(__file__)))
D = os.path.join(ROOT, 'notes', 'design')
rd = lambda n: open(os.path.join(D, n)).read()
ents = [json.loads(l) for f in sorted(glob.glob(os.path.join(ROOT, 'known_findings', '*.jsonl'))) for l in open(f) if l.strip()]
nopen = sum(1 for e in ents if e['status'] == 'open')
nfix = sum(1 for l in subprocess.check_output(['git', '-C', '/repo', 'log', '--format=%s']).decode().splitlines() if l.startswith('fix:'))
out = rd('00-head.md')
import re
def wave(P, ks, label):
    lines = []
    for k in ks:
        d = os.path.join(ROOT, 'seeded', f'{P}-{k}')
        mp = os.path.join(d, 'meta.json')
        if not os.path.exists(mp):
            continue
        m = json.load(open(mp)); title = ''
        for l in open(os.path.join(d, 'notes.md')):
            if l.startswith('#'):
                title = re.sub(r'^#+\s*(Change|Seeded change)?\s*\d*\s*[—:-]*\s*', '', l.strip()); break
        t = f"* {P}-{k} ({label} wave) — {title}: first run {m.get('first_result', m.get('checks'))} → final {m.get('checks')}."
        if m.get('history'):
            t += ' ' + m['history'][0].upper() + m['history'][1:] + '.'
        lines.append(t)
    return '\n'.join(lines)
for i in range(1, 21):
    P = f'C{i:02d}'
    txt = rd(f'{P}.md').rstrip()
    add = []
    if f'{P}-3' not in txt:
        add.append(wave(P, (3, 4), 'second'))
    six_before = P in ('C01', 'C02', 'C03', 'C04', 'C05', 'C15', 'C17', 'C19', 'C20')
    if f'{P}-5' not in txt:
        add.append(wave(P, (5, 6), 'third' if six_before else 'fifth-round'))
    if f'{P}-7' not in txt:
        add.append(wave(P, (7, 8), 'fifth-round'))
    add = '\n'.join(a for a in add if a)
    if add and '**Differences from the plan.**' in txt:
        txt = txt.replace('**Differences from the plan.**', add + '\n\n**Differences from the plan.**', 1)
    out += txt + '\n\n'
out += rd('90-tail.md').replace('{{SEEDED_TABLE}}', rd('seeded.md'))
out += '\n' + rd('appendix.md')
# hunt statistics from the dispositions
import glob as _glob, re as _re
_disp = [open(f).read().strip().split('\n')[0].lower() for f in sorted(_glob.glob(os.path.join(ROOT, 'hunted', 'C*-*', 'disposition.txt')))]
_n = lambda *pre: sum(1 for d in _disp if any(d.startswith(x) for x in pre))
_hunt = {'{{HUNT_TOTAL}}': len(_disp), '{{HUNT_FIXED}}': _n('fixed', 'partly fixed'), '{{HUNT_OPEN}}': _n('open finding', 'known open'), '{{HUNT_DUP}}': _n('duplicate'),
         '{{HUNT_DISMISSED}}': _n('dismissed', 'not judged', 'not a finding', 'not a violation'), '{{HUNT2_COUNT}}': len(_disp) - 136}
_rest = len(_disp) - sum(v for k, v in _hunt.items() if k not in ('{{HUNT_TOTAL}}', '{{HUNT2_COUNT}}'))
if _rest:
    print('note: %d dispositions not classified' % _rest)
_tt = ''
_sp = os.path.join(ROOT, 'notes', 'design', 'thorough_summary.txt')
if os.path.exists(_sp):
    rows = []
    for l in open(_sp):
        m = _re.match(r'(C\d\d) exit=(\d+) wall=(\d+)s .*cases=(\d+) evaluations=(\d+) distinct_nontrivial=(\d+) violations=(\d+) known_hits=(\d+) inconclusive=(\d+)', l)
        if m:
            rows.append(m.groups())
    rows.sort()
    _tt = '| check | exit | wall s | cases | evaluations | distinct non-trivial | violations | known-finding hits | unjudged |\n|---|---|---|---|---|---|---|---|---|\n' + '\n'.join('| ' + ' | '.join(r) + ' |' for r in rows)
out = out.replace('{{THOROUGH_TABLE}}', _tt or '(see build/thorough/SUMMARY.txt)')
for k, v in _hunt.items():
    out = out.replace(k, str(v))
for k, v in {'{{NTOTAL}}': len(ents), '{{NOPEN}}': nopen, '{{NFIXED}}': len(ents) - nopen, '{{NFIXCOMMITS}}': nfix}.items():
    out = out.replace(k, str(v))
open(os.path.join(ROOT, 'DESIGN.md'), 'w').write(out)
print('DESIGN.md', len(out.splitlines()), 'lines')
