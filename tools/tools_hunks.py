#!/usr/bin/env python3
# usage: tools_hunks.py <repo> list | stage <file>:<n>[,<n>...] ...
import subprocess,sys,re
repo=sys.argv[1]
def diff(f=None):
    a=['git','-C',repo,'diff','-U3']+([f] if f else [])
    return subprocess.run(a,capture_output=True,text=True).stdout
def split(d):
    files=re.split(r'(?m)^(?=diff --git )',d); out=[]
    for fd in files:
        if not fd.strip(): continue
        parts=re.split(r'(?m)^(?=@@ )',fd)
        out.append((parts[0],parts[1:]))
    return out
if sys.argv[2]=='list':
    for hdr,hs in split(diff()):
        fn=hdr.split('\n')[0].split(' b/')[1]
        for i,h in enumerate(hs):
            print(f'{fn}:{i}', h.split('\n')[0], '|', [l for l in h.split('\n') if l.startswith('+') ][:2])
else:
    for spec in sys.argv[3:]:
        fn,ns=spec.split(':'); ns=[int(x) for x in ns.split(',')]
        (hdr,hs),=split(diff(fn))
        patch=hdr+''.join(hs[i] for i in ns)
        r=subprocess.run(['git','-C',repo,'apply','--cached','--recount','-'],input=patch,text=True,capture_output=True)
        print(spec,r.returncode,r.stderr)
