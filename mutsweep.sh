#!/usr/bin/env bash
# ./mutsweep.sh [Cnn ...] — runs every developer-written mutant of the named properties (default: all)
# through mutest.sh against its property's check; writes mutants/RESULTS.txt (one line per patch).
ROOT="$(cd "$(dirname "${BASH_SOURCE[0]}")" && pwd)"; cd "$ROOT"
PROPS=("$@"); [ ${#PROPS[@]} -eq 0 ] && PROPS=($(ls mutants/*.patch | sed 's#mutants/##; s/-.*//' | sort -u))
for P in "${PROPS[@]}"; do
  for f in mutants/$P-*.patch; do
    line=$(./mutest.sh "$f" "$P" 2>&1 | grep '^MUTEST' | head -1)
    echo "$line" | tee -a mutants/RESULTS.tmp
  done
done
sort -u mutants/RESULTS.tmp > mutants/RESULTS.txt; rm -f mutants/RESULTS.tmp
