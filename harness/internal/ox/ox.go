// Package ox holds small helpers for driving the real otto code at its
// public API boundary and for rendering observed values type-faithfully.
package ox

import (
	"fmt"
	"math"
	"strconv"
	"strings"
	"unicode/utf16"

	"github.com/robertkrimen/otto"

	"verif/internal/run"
)

// Num renders a double injectively: NaN, Infinity, -Infinity, -0, else the
// shortest round-trip decimal (only used as a label for a bit pattern; both
// sides of every comparison go through this same function).
func Num(f float64) string {
	switch {
	case f != f:
		return "NaN"
	case math.IsInf(f, 1):
		return "Infinity"
	case math.IsInf(f, -1):
		return "-Infinity"
	case f == 0 && math.Signbit(f):
		return "-0"
	}
	return strconv.FormatFloat(f, 'g', -1, 64)
}

// Units renders UTF-16 code units as a quoted, pure-ASCII string.
func Units(u []uint16) string {
	var b strings.Builder
	b.WriteByte('"')
	for _, c := range u {
		switch {
		case c == '"' || c == '\\':
			b.WriteByte('\\')
			b.WriteByte(byte(c))
		case c >= 0x20 && c < 0x7f:
			b.WriteByte(byte(c))
		default:
			fmt.Fprintf(&b, "\\u%04X", c)
		}
	}
	b.WriteByte('"')
	return b.String()
}

// Str renders a Go (UTF-8) string as UTF-16 units.
func Str(s string) string { return Units(utf16.Encode([]rune(s))) }

// JSStr renders a Go string as a JavaScript string literal (pure ASCII, every
// non-printable / non-ASCII code unit as \uXXXX), so that the source handed
// to otto does not depend on otto's handling of raw non-ASCII source.
func JSStr(s string) string { return Units(utf16.Encode([]rune(s))) }

// JSUnits renders code units as a JavaScript string literal.
func JSUnits(u []uint16) string { return Units(u) }

// JSNum renders a double as JavaScript source that evaluates to exactly that
// double without relying on otto's decimal literal parser for hard cases:
// integers below 2^53 and short decimals are written directly; everything
// else as an exact product m * 2^e computed with exact operations.
func JSNum(f float64) string {
	switch {
	case f != f:
		return "(0/0)"
	case math.IsInf(f, 1):
		return "(1/0)"
	case math.IsInf(f, -1):
		return "(-1/0)"
	case f == 0 && math.Signbit(f):
		return "(-0)"
	case f == 0:
		return "0"
	}
	if f == math.Trunc(f) && math.Abs(f) < 1<<53 {
		s := strconv.FormatFloat(f, 'f', 0, 64)
		if f < 0 {
			return "(" + s + ")"
		}
		return s
	}
	// exact: mantissa (53-bit integer) times a power of two, built by repeated
	// doubling/halving of exactly representable constants.
	fr, e := math.Frexp(f) // f = fr * 2^e, 0.5<=|fr|<1
	m := fr * (1 << 53)    // integer, |m| < 2^53
	e -= 53
	ms := strconv.FormatFloat(m, 'f', 0, 64)
	// 2^e as product of powers representable in literals: use Math.pow(2,e)?
	// Math.pow is otto code too; instead multiply by exact literals 2^±k built
	// from integer literals: 2^k for k<=52 is an integer literal; divisions by
	// 2^k are exact (unless subnormal rounding, which is still the exact value
	// because m*2^e is representable by construction).
	var b strings.Builder
	b.WriteString("(" + ms)
	// Scale in an order that avoids intermediate overflow/underflow: m is
	// ~2^53, so multiply up only while e > 0, divide while e < 0.
	for e > 0 {
		k := e
		if k > 52 {
			k = 52
		}
		b.WriteString("*" + strconv.FormatFloat(math.Ldexp(1, k), 'f', 0, 64))
		e -= k
	}
	for e < 0 {
		k := -e
		if k > 52 {
			k = 52
		}
		b.WriteString("/" + strconv.FormatFloat(math.Ldexp(1, k), 'f', 0, 64))
		e += k
	}
	b.WriteString(")")
	return b.String()
}

// Enc renders an otto value type-faithfully: tag + canonical payload.
func Enc(v otto.Value) string {
	switch {
	case v.IsUndefined():
		return "undefined"
	case v.IsNull():
		return "null"
	case v.IsBoolean():
		b, _ := v.ToBoolean()
		return "b:" + strconv.FormatBool(b)
	case v.IsNumber():
		f, _ := v.ToFloat()
		return "n:" + Num(f)
	case v.IsString():
		s, _ := v.ToString()
		return "s:" + Str(s)
	case v.IsObject():
		return "o:" + v.Class()
	}
	return "?:" + v.String()
}

// Outcome is what one API call produced.
type Outcome struct {
	Val   otto.Value
	Err   error
	Panic interface{}
	Stack string
}

// ErrClass extracts "TypeError" from "TypeError: msg" / *otto.Error.
func ErrClass(err error) string {
	if err == nil {
		return ""
	}
	s := err.Error()
	if i := strings.Index(s, ":"); i > 0 {
		return s[:i]
	}
	return s
}

// String renders the outcome for comparison: value encoding, "throw:Class" or
// "PANIC:...".
func (o Outcome) String() string {
	if o.Panic != nil {
		return fmt.Sprintf("PANIC:%v @ %s", o.Panic, o.Stack)
	}
	if o.Err != nil {
		return "throw:" + ErrClass(o.Err)
	}
	return Enc(o.Val)
}

// Run runs src on vm, guarding against escaping panics.
func Run(vm *otto.Otto, src interface{}) (out Outcome) {
	out.Panic, out.Stack = run.Guard(func() { out.Val, out.Err = vm.Run(src) })
	return
}

// Eval evals src on vm, guarding against escaping panics.
func Eval(vm *otto.Otto, src interface{}) (out Outcome) {
	out.Panic, out.Stack = run.Guard(func() { out.Val, out.Err = vm.Eval(src) })
	return
}

// Logger is a host function recording its arguments type-faithfully.
type Logger struct{ Events []string }

// Install registers the logger under the given global name.
func (l *Logger) Install(vm *otto.Otto, name string) {
	vm.Set(name, func(call otto.FunctionCall) otto.Value {
		parts := make([]string, len(call.ArgumentList))
		for i, a := range call.ArgumentList {
			parts[i] = Enc(a)
		}
		l.Events = append(l.Events, strings.Join(parts, ","))
		return otto.UndefinedValue()
	})
}

// Trace joins the events.
func (l *Logger) Trace() string { return strings.Join(l.Events, " | ") }
