package refjson

// ES5.1 15.12.3 JSON.stringify over model values.

import (
	"math"
	"math/big"
	"sort"
	"unicode/utf8"
)

// Dev is a set of *known deviations of otto* the model can reproduce on
// request. They are never part of the oracle (expected values are always
// computed with Dev == 0); finding matchers use them as deviation models.
type Dev uint32

const (
	// DevSortKeys: object members emitted sorted by UTF-8 bytes of the key (Go map marshalling).
	DevSortKeys Dev = 1 << iota
	// DevPropListIndex: replacer-array names stored at their source index, list cut to the count.
	DevPropListIndex
	// DevEscapeHTML: less-than, greater-than and ampersand are written as u003c, u003e, u0026 escapes.
	DevEscapeHTML
	// DevEscapeLS: U+2028 and U+2029 are written as u2028, u2029 escapes.
	DevEscapeLS
	// DevFFFD: unpaired surrogates in strings become U+FFFD.
	DevFFFD
	// DevGapBytes: a string gap is cut to 10 UTF-8 bytes instead of 10 code units.
	DevGapBytes
	// DevExactInt: integral values below 2^63 in magnitude are written with all their decimal digits.
	DevExactInt
	DevAllStringify = DevSortKeys | DevPropListIndex | DevEscapeHTML | DevEscapeLS | DevFFFD | DevGapBytes | DevExactInt
)

// NumSpan marks a Number rendering inside the output text.
type NumSpan struct {
	Start, End int
	F          float64
}

// Out is a piece of output text with the positions of its number tokens.
type Out struct {
	Units []uint16
	Nums  []NumSpan
}

func (o *Out) str(s string) {
	for i := 0; i < len(s); i++ {
		o.Units = append(o.Units, uint16(s[i]))
	}
}
func (o *Out) units(u []uint16) { o.Units = append(o.Units, u...) }
func (o *Out) out(x *Out) {
	off := len(o.Units)
	o.Units = append(o.Units, x.Units...)
	for _, n := range x.Nums {
		o.Nums = append(o.Nums, NumSpan{n.Start + off, n.End + off, n.F})
	}
}

// ResultKind of a stringify call.
type ResultKind int

const (
	RText ResultKind = iota
	RUndefined
	RTypeError
)

// Result of Stringify.
type Result struct {
	Kind ResultKind
	Out  Out
}

// Text returns the canonical text.
func (r Result) Text() []uint16 { return r.Out.Units }

// Matches reports whether actual is a text 15.12.3 permits: identical outside
// number tokens, and each number token a valid 9.8.1 rendering of its value.
func (r Result) Matches(actual []uint16) bool {
	if r.Kind != RText {
		return false
	}
	exp := r.Out.Units
	if EqUnits(exp, actual) {
		return true
	}
	i, j := 0, 0
	for _, n := range r.Out.Nums {
		// literal part before the number
		for i < n.Start {
			if j >= len(actual) || actual[j] != exp[i] {
				return false
			}
			i++
			j++
		}
		k := j
		for k < len(actual) && (isDigit(actual[k]) || actual[k] == '-' || actual[k] == '+' || actual[k] == '.' || actual[k] == 'e') {
			k++
		}
		tok := make([]byte, k-j)
		for x := range tok {
			tok[x] = byte(actual[j+x])
		}
		if !ValidNumberString(n.F, string(tok)) {
			return false
		}
		i, j = n.End, k
	}
	for i < len(exp) {
		if j >= len(actual) || actual[j] != exp[i] {
			return false
		}
		i++
		j++
	}
	return j == len(actual)
}

// Options of one stringify call.
type Options struct {
	ReplacerFn func(holder *Val, key []uint16, v *Val) *Val
	Replacer   *Val // the replacer argument when not a function (arrays are honoured)
	Space      *Val
	Dev        Dev
}

type cyclic struct{}

type sstate struct {
	opt      Options
	gap      []uint16
	indent   []uint16
	stack    []*Val
	propList [][]uint16
	hasList  bool
}

// ToInteger (9.4).
func ToInteger(f float64) float64 {
	if f != f {
		return 0
	}
	if f == 0 || math.IsInf(f, 0) {
		return f
	}
	return math.Trunc(f)
}

// Stringify is JSON.stringify(value, replacer, space).
func Stringify(value *Val, opt Options) (res Result) {
	st := &sstate{opt: opt}
	// step 4: replacer
	if r := opt.Replacer; r != nil && r.Kind == Array && opt.ReplacerFn == nil {
		st.hasList = true
		st.propList = [][]uint16{}
		if opt.Dev&DevPropListIndex != 0 {
			list := make([][]uint16, len(r.Elems))
			for i := range list {
				list[i] = []uint16{}
			}
			n := 0
			seen := map[string]bool{}
			for i, v := range r.Elems {
				item, ok := propListItem(v)
				if !ok || seen[string(rawKey(item))] {
					continue
				}
				seen[string(rawKey(item))] = true
				n++
				list[i] = item
			}
			st.propList = list[:n]
		} else {
			for _, v := range r.Elems {
				item, ok := propListItem(v)
				if !ok {
					continue
				}
				dup := false
				for _, x := range st.propList {
					if EqUnits(x, item) {
						dup = true
						break
					}
				}
				if !dup {
					st.propList = append(st.propList, item)
				}
			}
		}
	}
	// steps 5-8: space -> gap
	sp := opt.Space
	if sp != nil && sp.Kind == Object {
		switch sp.Class {
		case "Number":
			sp = NumV(sp.ToNum)
		case "String":
			sp = StrV(sp.ToStr)
		}
	}
	if sp != nil {
		switch sp.Kind {
		case Number:
			n := math.Min(10, ToInteger(sp.N))
			for i := 0; i < int(n); i++ { // n < 1 -> empty
				st.gap = append(st.gap, ' ')
			}
		case String:
			if opt.Dev&DevGapBytes != 0 {
				b := UTF8(sp.S)
				if len(b) > 10 {
					b = b[:10]
				}
				st.gap = U2(b)
			} else if len(sp.S) <= 10 {
				st.gap = sp.S
			} else {
				st.gap = sp.S[:10]
			}
		}
	}
	defer func() {
		if r := recover(); r != nil {
			if _, ok := r.(cyclic); ok {
				res = Result{Kind: RTypeError}
				return
			}
			panic(r)
		}
	}()
	wrapper := NewObject()
	wrapper.Define([]uint16{}, value)
	out, ok := st.str([]uint16{}, wrapper)
	if !ok {
		return Result{Kind: RUndefined}
	}
	return Result{Kind: RText, Out: *out}
}

// U2 decodes a possibly invalid UTF-8 byte string the way Go's []rune
// conversion does (each invalid byte -> U+FFFD) into code units.
func U2(b string) []uint16 {
	var out []uint16
	for len(b) > 0 {
		r, n := utf8.DecodeRuneInString(b)
		b = b[n:]
		if r >= 0x10000 {
			r -= 0x10000
			out = append(out, uint16(0xD800+(r>>10)), uint16(0xDC00+(r&0x3ff)))
		} else {
			out = append(out, uint16(r))
		}
	}
	return out
}

func propListItem(v *Val) ([]uint16, bool) {
	if v == nil {
		return nil, false
	}
	switch v.Kind {
	case String:
		return v.S, true
	case Number:
		return U(NumberToString(v.N)), true
	case Object:
		if v.Class == "String" || v.Class == "Number" {
			return v.ToStr, true
		}
	}
	return nil, false
}

var toJSONKey = U("toJSON")

// Str(key, holder)
func (st *sstate) str(key []uint16, holder *Val) (*Out, bool) {
	value := holder.Get(key)
	if value.IsObj() {
		if tj := value.Get(toJSONKey); tj.Kind == Function && tj.Fn != nil {
			value = tj.Fn(value, []*Val{StrV(key)})
		}
	}
	if st.opt.ReplacerFn != nil {
		value = st.opt.ReplacerFn(holder, key, value)
	}
	if value == nil {
		value = undefinedVal
	}
	if value.Kind == Object {
		switch value.Class {
		case "Number":
			value = NumV(value.ToNum)
		case "String":
			value = StrV(value.ToStr)
		case "Boolean":
			value = value.Prim
		}
	}
	o := &Out{}
	switch value.Kind {
	case Null:
		o.str("null")
		return o, true
	case Bool:
		if value.B {
			o.str("true")
		} else {
			o.str("false")
		}
		return o, true
	case String:
		st.quote(o, value.S)
		return o, true
	case Number:
		if value.N != value.N || math.IsInf(value.N, 0) {
			o.str("null")
			return o, true
		}
		s := NumberToString(value.N)
		if st.opt.Dev&DevExactInt != 0 && value.N == math.Trunc(value.N) && math.Abs(value.N) < 9223372036854775808 && value.N != 0 {
			bi, _ := new(big.Float).SetFloat64(value.N).Int(nil)
			s = bi.String()
		}
		o.Nums = append(o.Nums, NumSpan{0, len(s), value.N})
		o.str(s)
		return o, true
	case Object:
		return st.jo(value), true
	case Array:
		return st.ja(value), true
	}
	return nil, false // undefined, function
}

const hexdigits = "0123456789abcdef"

// Quote(value)
func (st *sstate) quote(o *Out, s []uint16) {
	if st.opt.Dev&DevFFFD != 0 {
		s = ReplaceLoneSurrogates(s)
	}
	o.Units = append(o.Units, '"')
	for _, c := range s {
		switch {
		case c == '"' || c == '\\':
			o.Units = append(o.Units, '\\', c)
		case c == 0x08:
			o.str(`\b`)
		case c == 0x0C:
			o.str(`\f`)
		case c == 0x0A:
			o.str(`\n`)
		case c == 0x0D:
			o.str(`\r`)
		case c == 0x09:
			o.str(`\t`)
		case c < 0x20,
			st.opt.Dev&DevEscapeHTML != 0 && (c == '<' || c == '>' || c == '&'),
			st.opt.Dev&DevEscapeLS != 0 && (c == 0x2028 || c == 0x2029):
			o.str(`\u`)
			o.Units = append(o.Units, uint16(hexdigits[c>>12&15]), uint16(hexdigits[c>>8&15]), uint16(hexdigits[c>>4&15]), uint16(hexdigits[c&15]))
		default:
			o.Units = append(o.Units, c)
		}
	}
	o.Units = append(o.Units, '"')
}

func (st *sstate) push(v *Val) {
	for _, x := range st.stack {
		if x == v {
			panic(cyclic{})
		}
	}
	st.stack = append(st.stack, v)
}

// JO(value)
func (st *sstate) jo(value *Val) *Out {
	st.push(value)
	stepback := st.indent
	st.indent = append(append([]uint16{}, st.indent...), st.gap...)
	var keys [][]uint16
	if st.hasList {
		keys = st.propList
	} else {
		keys = value.OwnEnumKeys()
	}
	type member struct {
		key []uint16
		out *Out
	}
	var partial []member
	for _, p := range keys {
		sp, ok := st.str(p, value)
		if !ok {
			continue
		}
		m := &Out{}
		st.quote(m, p)
		m.str(":")
		if len(st.gap) > 0 {
			m.str(" ")
		}
		m.out(sp)
		partial = append(partial, member{p, m})
	}
	if st.opt.Dev&DevSortKeys != 0 {
		// a Go map keyed by the UTF-8 name: later duplicates overwrite, output sorted by bytes
		idx := map[string]int{}
		var ded []member
		for _, m := range partial {
			k := UTF8(m.key)
			if i, ok := idx[k]; ok {
				ded[i] = m
			} else {
				idx[k] = len(ded)
				ded = append(ded, m)
			}
		}
		sort.SliceStable(ded, func(i, j int) bool { return UTF8(ded[i].key) < UTF8(ded[j].key) })
		partial = ded
	}
	o := &Out{}
	switch {
	case len(partial) == 0:
		o.str("{}")
	case len(st.gap) == 0:
		o.str("{")
		for i, m := range partial {
			if i > 0 {
				o.str(",")
			}
			o.out(m.out)
		}
		o.str("}")
	default:
		o.str("{\n")
		o.units(st.indent)
		for i, m := range partial {
			if i > 0 {
				o.str(",\n")
				o.units(st.indent)
			}
			o.out(m.out)
		}
		o.str("\n")
		o.units(stepback)
		o.str("}")
	}
	st.stack = st.stack[:len(st.stack)-1]
	st.indent = stepback
	return o
}

// JA(value)
func (st *sstate) ja(value *Val) *Out {
	st.push(value)
	stepback := st.indent
	st.indent = append(append([]uint16{}, st.indent...), st.gap...)
	var partial []*Out
	n := len(value.Elems)
	for i := 0; i < n; i++ {
		sp, ok := st.str(U(itoa(i)), value)
		if !ok {
			sp = &Out{}
			sp.str("null")
		}
		partial = append(partial, sp)
	}
	o := &Out{}
	switch {
	case len(partial) == 0:
		o.str("[]")
	case len(st.gap) == 0:
		o.str("[")
		for i, m := range partial {
			if i > 0 {
				o.str(",")
			}
			o.out(m)
		}
		o.str("]")
	default:
		o.str("[\n")
		o.units(st.indent)
		for i, m := range partial {
			if i > 0 {
				o.str(",\n")
				o.units(st.indent)
			}
			o.out(m)
		}
		o.str("\n")
		o.units(stepback)
		o.str("]")
	}
	st.stack = st.stack[:len(st.stack)-1]
	st.indent = stepback
	return o
}
