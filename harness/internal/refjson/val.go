package refjson

import (
	"fmt"
	"sort"
	"strings"
)

// Kind of a model value.
type Kind int

const (
	Undefined Kind = iota
	Null
	Bool
	Number
	String
	Object   // any non-array, non-callable object (Class tells wrappers/Date apart)
	Array    // [[Class]] "Array"
	Function // callable object
)

// Prop is one own property of a model object.
type Prop struct {
	Key        []uint16
	V          *Val
	Enumerable bool
}

// Val is a model ECMAScript value. Objects have identity (pointer).
type Val struct {
	Kind  Kind
	B     bool
	N     float64
	S     []uint16
	Props []*Prop // Object (and Function): ordered own properties
	Elems []*Val  // Array: nil = hole
	// Class is "" (plain), "Number", "String", "Boolean", "Date".
	Class string
	// ToNum / ToStr are what ToNumber(obj) / ToString(obj) yield for wrapper
	// objects (after any valueOf / toString override); Prim is [[PrimitiveValue]].
	ToNum float64
	ToStr []uint16
	Prim  *Val
	// Fn is the behaviour of a Function value (nil = a function the model never calls).
	Fn func(this *Val, args []*Val) *Val
}

// Convenience constructors.
var (
	undefinedVal = &Val{Kind: Undefined}
	nullVal      = &Val{Kind: Null}
)

func Undef() *Val            { return undefinedVal }
func NullV() *Val            { return nullVal }
func BoolV(b bool) *Val      { return &Val{Kind: Bool, B: b} }
func NumV(f float64) *Val    { return &Val{Kind: Number, N: f} }
func StrV(u []uint16) *Val   { return &Val{Kind: String, S: u} }
func StrS(s string) *Val     { return &Val{Kind: String, S: U(s)} }
func NewObject() *Val        { return &Val{Kind: Object} }
func NewArray(n int) *Val    { return &Val{Kind: Array, Elems: make([]*Val, n)} }
func (v *Val) IsObj() bool   { return v.Kind == Object || v.Kind == Array || v.Kind == Function }
func (v *Val) IsUndef() bool { return v == nil || v.Kind == Undefined }

// U converts a Go string to UTF-16 code units.
func U(s string) []uint16 {
	var out []uint16
	for _, r := range s {
		if r >= 0x10000 {
			r -= 0x10000
			out = append(out, uint16(0xD800+(r>>10)), uint16(0xDC00+(r&0x3ff)))
		} else {
			out = append(out, uint16(r))
		}
	}
	return out
}

// EqUnits compares two code-unit strings.
func EqUnits(a, b []uint16) bool {
	if len(a) != len(b) {
		return false
	}
	for i := range a {
		if a[i] != b[i] {
			return false
		}
	}
	return true
}

// arrayIndex parses a canonical array index ("0", "17"; not "01", not > 2^32-2).
func arrayIndex(key []uint16) (int, bool) {
	if len(key) == 0 || len(key) > 10 {
		return 0, false
	}
	if key[0] == '0' && len(key) > 1 {
		return 0, false
	}
	n := 0
	for _, c := range key {
		if c < '0' || c > '9' {
			return 0, false
		}
		n = n*10 + int(c-'0')
	}
	if n > 4294967294 {
		return 0, false
	}
	return n, true
}

var lengthKey = U("length")

// Get is [[Get]] restricted to what the model needs: own properties, array
// elements/length, and the inherited Date.prototype.toJSON.
func (v *Val) Get(key []uint16) *Val {
	switch v.Kind {
	case Array:
		if i, ok := arrayIndex(key); ok {
			if i < len(v.Elems) && v.Elems[i] != nil {
				return v.Elems[i]
			}
			return undefinedVal
		}
		if EqUnits(key, lengthKey) {
			return NumV(float64(len(v.Elems)))
		}
		return undefinedVal
	case Object, Function:
		for _, p := range v.Props {
			if EqUnits(p.Key, key) {
				return p.V
			}
		}
		if v.Class == "Date" && EqUnits(key, U("toJSON")) {
			return dateToJSON
		}
	}
	return undefinedVal
}

// DateISO is set by the user of the package (refdate.ISO) to avoid an import
// cycle concern; it formats a finite time value per 15.9.1.15.
var DateISO func(t float64) string

// Date.prototype.toJSON (15.9.5.44) for a genuine Date object: null for a
// non-finite time value, otherwise toISOString().
var dateToJSON = &Val{Kind: Function, Fn: func(this *Val, args []*Val) *Val {
	t := this.N
	if t != t || t > 8.64e15 || t < -8.64e15 {
		return nullVal
	}
	return StrS(DateISO(t))
}}

// Define is [[DefineOwnProperty]] with {writable, enumerable, configurable: true}:
// an existing property keeps its position, a new one is appended.
func (v *Val) Define(key []uint16, x *Val) {
	switch v.Kind {
	case Array:
		if i, ok := arrayIndex(key); ok {
			for len(v.Elems) <= i {
				v.Elems = append(v.Elems, nil)
			}
			v.Elems[i] = x
			return
		}
		panic("refjson: non-index property on model array")
	default:
		for _, p := range v.Props {
			if EqUnits(p.Key, key) {
				p.V = x
				p.Enumerable = true
				return
			}
		}
		v.Props = append(v.Props, &Prop{Key: key, V: x, Enumerable: true})
	}
}

// Delete is [[Delete]].
func (v *Val) Delete(key []uint16) {
	switch v.Kind {
	case Array:
		if i, ok := arrayIndex(key); ok && i < len(v.Elems) {
			v.Elems[i] = nil
		}
	default:
		for i, p := range v.Props {
			if EqUnits(p.Key, key) {
				v.Props = append(v.Props[:i:i], v.Props[i+1:]...)
				return
			}
		}
	}
}

// SetLength truncates or extends a model array.
func (v *Val) SetLength(n int) {
	for len(v.Elems) < n {
		v.Elems = append(v.Elems, nil)
	}
	v.Elems = v.Elems[:n]
}

// OwnEnumKeys lists own enumerable property names in enumeration order
// (array indices ascending; object properties in creation order).
func (v *Val) OwnEnumKeys() [][]uint16 {
	var out [][]uint16
	switch v.Kind {
	case Array:
		for i, e := range v.Elems {
			if e != nil {
				out = append(out, U(itoa(i)))
			}
		}
	default:
		for _, p := range v.Props {
			if p.Enumerable {
				out = append(out, p.Key)
			}
		}
	}
	return out
}

// QuoteASCII renders code units as a pure-ASCII quoted label.
func QuoteASCII(u []uint16) string {
	var b strings.Builder
	b.WriteByte('"')
	for _, c := range u {
		switch {
		case c == '"' || c == '\\':
			b.WriteByte('\\')
			b.WriteByte(byte(c))
		case c >= 0x20 && c < 0x7f:
			b.WriteByte(byte(c))
		default:
			const hx = "0123456789ABCDEF"
			b.WriteString("\\u")
			b.WriteByte(hx[c>>12&15])
			b.WriteByte(hx[c>>8&15])
			b.WriteByte(hx[c>>4&15])
			b.WriteByte(hx[c&15])
		}
	}
	b.WriteByte('"')
	return b.String()
}

// DumpOpts controls the canonical dump.
type DumpOpts struct {
	NumLabel func(float64) string // injective label of a double
	SortKeys bool                 // compare modulo key order
	ZeroSign bool                 // true: -0 and 0 are the same
	FFFD     bool                 // replace unpaired surrogates by U+FFFD before dumping
}

// Dump renders a model value canonically and type-faithfully. The same
// grammar is produced from otto values by the check (dumpOtto).
//
//	U N T F n:<label> "<units>" fn o:<Class> [len|i:v,...] {"k":v,...}
func Dump(v *Val, o DumpOpts) string {
	var b strings.Builder
	dump(&b, v, o, 0)
	return b.String()
}

func dump(b *strings.Builder, v *Val, o DumpOpts, depth int) {
	if v == nil {
		b.WriteString("U")
		return
	}
	if depth > 20000 {
		b.WriteString("<deep>")
		return
	}
	switch v.Kind {
	case Undefined:
		b.WriteString("U")
	case Null:
		b.WriteString("N")
	case Bool:
		if v.B {
			b.WriteString("T")
		} else {
			b.WriteString("F")
		}
	case Number:
		f := v.N
		if o.ZeroSign && f == 0 {
			f = 0
		}
		b.WriteString("n:" + o.NumLabel(f))
	case String:
		s := v.S
		if o.FFFD {
			s = ReplaceLoneSurrogates(s)
		}
		b.WriteString(QuoteASCII(s))
	case Function:
		b.WriteString("fn")
	case Array:
		fmt.Fprintf(b, "[%d|", len(v.Elems))
		first := true
		for i, e := range v.Elems {
			if e == nil {
				continue
			}
			if !first {
				b.WriteByte(',')
			}
			first = false
			b.WriteString(itoa(i))
			b.WriteByte(':')
			dump(b, e, o, depth+1)
		}
		b.WriteByte(']')
	case Object:
		if v.Class != "" {
			b.WriteString("o:" + v.Class)
			return
		}
		type kv struct {
			k string
			v *Val
		}
		var items []kv
		for _, p := range v.Props {
			if !p.Enumerable {
				continue
			}
			k := p.Key
			if o.FFFD {
				k = ReplaceLoneSurrogates(k)
			}
			items = append(items, kv{QuoteASCII(k), p.V})
		}
		if o.FFFD {
			// keys that collide after replacement: the later definition wins, first position kept
			var ded []kv
			for _, it := range items {
				hit := false
				for j := range ded {
					if ded[j].k == it.k {
						ded[j].v = it.v
						hit = true
					}
				}
				if !hit {
					ded = append(ded, it)
				}
			}
			items = ded
		}
		if o.SortKeys {
			sort.SliceStable(items, func(i, j int) bool { return items[i].k < items[j].k })
		}
		b.WriteByte('{')
		for i, it := range items {
			if i > 0 {
				b.WriteByte(',')
			}
			b.WriteString(it.k)
			b.WriteByte(':')
			dump(b, it.v, o, depth+1)
		}
		b.WriteByte('}')
	}
}

// ReplaceLoneSurrogates maps every unpaired surrogate code unit to U+FFFD
// (what a UTF-16 -> UTF-8 -> UTF-16 trip through Go strings does).
func ReplaceLoneSurrogates(u []uint16) []uint16 {
	out := make([]uint16, 0, len(u))
	for i := 0; i < len(u); i++ {
		c := u[i]
		switch {
		case c >= 0xD800 && c < 0xDC00 && i+1 < len(u) && u[i+1] >= 0xDC00 && u[i+1] < 0xE000:
			out = append(out, c, u[i+1])
			i++
		case c >= 0xD800 && c < 0xE000:
			out = append(out, 0xFFFD)
		default:
			out = append(out, c)
		}
	}
	return out
}

// HasLoneSurrogate reports whether u contains an unpaired surrogate.
func HasLoneSurrogate(u []uint16) bool {
	for i := 0; i < len(u); i++ {
		c := u[i]
		switch {
		case c >= 0xD800 && c < 0xDC00 && i+1 < len(u) && u[i+1] >= 0xDC00 && u[i+1] < 0xE000:
			i++
		case c >= 0xD800 && c < 0xE000:
			return true
		}
	}
	return false
}

// UTF8 encodes code units the way Go does (unpaired surrogates -> U+FFFD).
func UTF8(u []uint16) string {
	var b strings.Builder
	for i := 0; i < len(u); i++ {
		c := rune(u[i])
		switch {
		case c >= 0xD800 && c < 0xDC00 && i+1 < len(u) && u[i+1] >= 0xDC00 && u[i+1] < 0xE000:
			b.WriteRune(0x10000 + (c-0xD800)<<10 + (rune(u[i+1]) - 0xDC00))
			i++
		case c >= 0xD800 && c < 0xE000:
			b.WriteRune(0xFFFD)
		default:
			b.WriteRune(c)
		}
	}
	return b.String()
}
