package refjson

import "verif/internal/gen"

type genF = gen.F
