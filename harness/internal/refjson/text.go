package refjson

// Strict recogniser + value builder for the ES5.1 15.12.1 JSON grammar over
// UTF-16 code units. Written from the grammar productions; no encoding/json.

import "fmt"

// SyntaxError is the only error Parse returns.
type SyntaxError struct {
	Pos int
	Msg string
}

func (e *SyntaxError) Error() string { return fmt.Sprintf("SyntaxError at %d: %s", e.Pos, e.Msg) }

// MaxDepth bounds container nesting accepted by the recogniser (a harness
// resource bound, far above anything the workloads generate).
const MaxDepth = 200000

type parser struct {
	t   []uint16
	pos int
	// goSurrogates reproduces a KNOWN DEVIATION (never used by the oracle):
	// a \uXXXX surrogate escape only survives when an escaped high surrogate is
	// directly followed by an escaped low surrogate; otherwise it becomes U+FFFD.
	goSurrogates bool
	sawInf       bool // some JSONNumber token rounded to +-Infinity
}

func (p *parser) fail(msg string) {
	panic(&SyntaxError{Pos: p.pos, Msg: msg})
}

// JSONWhiteSpace :: <TAB> <CR> <LF> <SP>
func (p *parser) ws() {
	for p.pos < len(p.t) {
		switch p.t[p.pos] {
		case 0x09, 0x0A, 0x0D, 0x20:
			p.pos++
		default:
			return
		}
	}
}

// Parse recognises JSONText and builds the value it denotes (15.12.2 step 3:
// evaluate as an ECMAScript PrimaryExpression; objects are created by
// [[DefineOwnProperty]] in text order, so a repeated key keeps its first
// position and its last value).
func Parse(text []uint16) (v *Val, err error) { v, _, err = parse(text, false); return }

// ParseOverflow additionally reports whether any number token of a valid text
// has a value outside the double range (it denotes +-Infinity).
func ParseOverflow(text []uint16) (v *Val, overflow bool, err error) { return parse(text, false) }

// ParseGoSurrogates is the deviation model of a decoder that works on UTF-8:
// raw unpaired surrogates in the text and unpaired surrogate escapes both
// become U+FFFD. Only finding matchers call it.
func ParseGoSurrogates(text []uint16) (*Val, bool, error) {
	return parse(ReplaceLoneSurrogates(text), true)
}

func parse(text []uint16, goSur bool) (v *Val, overflow bool, err error) {
	p := &parser{t: text, goSurrogates: goSur}
	defer func() {
		if r := recover(); r != nil {
			if se, ok := r.(*SyntaxError); ok {
				v, overflow, err = nil, false, se
				return
			}
			panic(r)
		}
	}()
	p.ws()
	v = p.value(0)
	p.ws()
	if p.pos != len(p.t) {
		p.fail("unexpected token after JSONValue")
	}
	return v, p.sawInf, nil
}

func (p *parser) value(depth int) *Val {
	if depth > MaxDepth {
		p.fail("nesting too deep for the reference recogniser")
	}
	if p.pos >= len(p.t) {
		p.fail("unexpected end of text")
	}
	switch c := p.t[p.pos]; {
	case c == '{':
		return p.object(depth)
	case c == '[':
		return p.array(depth)
	case c == '"':
		return StrV(p.str())
	case c == '-' || (c >= '0' && c <= '9'):
		return NumV(p.number())
	case c == 'n':
		p.lit("null")
		return nullVal
	case c == 't':
		p.lit("true")
		return BoolV(true)
	case c == 'f':
		p.lit("false")
		return BoolV(false)
	}
	p.fail("unexpected character")
	return nil
}

func (p *parser) lit(s string) {
	for i := 0; i < len(s); i++ {
		if p.pos+i >= len(p.t) || p.t[p.pos+i] != uint16(s[i]) {
			p.fail("bad literal")
		}
	}
	p.pos += len(s)
}

func isDigit(c uint16) bool { return c >= '0' && c <= '9' }

// JSONNumber :: -opt DecimalIntegerLiteral JSONFraction_opt ExponentPart_opt
func (p *parser) number() float64 {
	neg := false
	if p.t[p.pos] == '-' {
		neg = true
		p.pos++
	}
	if p.pos >= len(p.t) || !isDigit(p.t[p.pos]) {
		p.fail("digit expected")
	}
	var digits []byte
	if p.t[p.pos] == '0' {
		digits = append(digits, '0')
		p.pos++ // DecimalIntegerLiteral :: 0  (no further digits)
	} else {
		for p.pos < len(p.t) && isDigit(p.t[p.pos]) {
			digits = append(digits, byte(p.t[p.pos]))
			p.pos++
		}
	}
	exp10 := 0
	if p.pos < len(p.t) && p.t[p.pos] == '.' {
		p.pos++
		if p.pos >= len(p.t) || !isDigit(p.t[p.pos]) {
			p.fail("digit expected after '.'")
		}
		for p.pos < len(p.t) && isDigit(p.t[p.pos]) {
			digits = append(digits, byte(p.t[p.pos]))
			exp10--
			p.pos++
		}
	}
	if p.pos < len(p.t) && (p.t[p.pos] == 'e' || p.t[p.pos] == 'E') {
		p.pos++
		eneg := false
		if p.pos < len(p.t) && (p.t[p.pos] == '+' || p.t[p.pos] == '-') {
			eneg = p.t[p.pos] == '-'
			p.pos++
		}
		if p.pos >= len(p.t) || !isDigit(p.t[p.pos]) {
			p.fail("digit expected in exponent")
		}
		e := 0
		for p.pos < len(p.t) && isDigit(p.t[p.pos]) {
			if e < 100000000 {
				e = e*10 + int(p.t[p.pos]-'0')
			}
			p.pos++
		}
		if eneg {
			e = -e
		}
		exp10 += e
	}
	f := DecimalToDouble(neg, string(digits), exp10)
	if f > 1.7976931348623157e308 || f < -1.7976931348623157e308 {
		p.sawInf = true
	}
	return f
}

func hexVal(c uint16) (uint16, bool) {
	switch {
	case c >= '0' && c <= '9':
		return c - '0', true
	case c >= 'a' && c <= 'f':
		return c - 'a' + 10, true
	case c >= 'A' && c <= 'F':
		return c - 'A' + 10, true
	}
	return 0, false
}

// JSONString :: " JSONStringCharacters_opt "
func (p *parser) str() []uint16 {
	p.pos++ // opening quote
	out := []uint16{}
	var esc []bool
	for {
		if p.pos >= len(p.t) {
			p.fail("unterminated string")
		}
		c := p.t[p.pos]
		switch {
		case c == '"':
			p.pos++
			if p.goSurrogates {
				for len(esc) < len(out) {
					esc = append(esc, false)
				}
				for i := 0; i < len(out); i++ {
					if !esc[i] || out[i] < 0xD800 || out[i] >= 0xE000 {
						continue
					}
					if out[i] < 0xDC00 && i+1 < len(out) && esc[i+1] && out[i+1] >= 0xDC00 && out[i+1] < 0xE000 {
						i++
						continue
					}
					out[i] = 0xFFFD
				}
			}
			return out
		case c < 0x20:
			p.fail("control character in string")
		case c == '\\':
			p.pos++
			if p.pos >= len(p.t) {
				p.fail("unterminated escape")
			}
			e := p.t[p.pos]
			p.pos++
			switch e {
			case '"', '/', '\\':
				out = append(out, e)
			case 'b':
				out = append(out, 0x08)
			case 'f':
				out = append(out, 0x0C)
			case 'n':
				out = append(out, 0x0A)
			case 'r':
				out = append(out, 0x0D)
			case 't':
				out = append(out, 0x09)
			case 'u':
				if p.pos+4 > len(p.t) {
					p.fail("short \\u escape")
				}
				var u uint16
				for i := 0; i < 4; i++ {
					h, ok := hexVal(p.t[p.pos+i])
					if !ok {
						p.pos += i
						p.fail("bad hex digit in \\u escape")
					}
					u = u<<4 | h
				}
				p.pos += 4
				out = append(out, u)
				for len(esc) < len(out)-1 {
					esc = append(esc, false)
				}
				esc = append(esc, true)
			default:
				p.pos--
				p.fail("bad escape")
			}
		default:
			out = append(out, c)
			p.pos++
		}
	}
}

func (p *parser) array(depth int) *Val {
	p.pos++
	a := &Val{Kind: Array, Elems: []*Val{}}
	p.ws()
	if p.pos < len(p.t) && p.t[p.pos] == ']' {
		p.pos++
		return a
	}
	for {
		p.ws()
		a.Elems = append(a.Elems, p.value(depth+1))
		p.ws()
		if p.pos >= len(p.t) {
			p.fail("unterminated array")
		}
		switch p.t[p.pos] {
		case ',':
			p.pos++
		case ']':
			p.pos++
			return a
		default:
			p.fail("',' or ']' expected")
		}
	}
}

func (p *parser) object(depth int) *Val {
	p.pos++
	o := NewObject()
	p.ws()
	if p.pos < len(p.t) && p.t[p.pos] == '}' {
		p.pos++
		return o
	}
	var index map[string]*Prop
	for {
		p.ws()
		if p.pos >= len(p.t) || p.t[p.pos] != '"' {
			p.fail("string key expected")
		}
		key := p.str()
		p.ws()
		if p.pos >= len(p.t) || p.t[p.pos] != ':' {
			p.fail("':' expected")
		}
		p.pos++
		p.ws()
		v := p.value(depth + 1)
		// [[DefineOwnProperty]]: existing key keeps position, takes the new value
		if len(o.Props) < 16 {
			o.Define(key, v)
		} else {
			if index == nil {
				index = map[string]*Prop{}
				for _, pr := range o.Props {
					index[string(rawKey(pr.Key))] = pr
				}
			}
			rk := string(rawKey(key))
			if pr, ok := index[rk]; ok {
				pr.V = v
			} else {
				pr := &Prop{Key: key, V: v, Enumerable: true}
				o.Props = append(o.Props, pr)
				index[rk] = pr
			}
		}
		p.ws()
		if p.pos >= len(p.t) {
			p.fail("unterminated object")
		}
		switch p.t[p.pos] {
		case ',':
			p.pos++
		case '}':
			p.pos++
			return o
		default:
			p.fail("',' or '}' expected")
		}
	}
}

func rawKey(u []uint16) []byte {
	b := make([]byte, 2*len(u))
	for i, c := range u {
		b[2*i] = byte(c >> 8)
		b[2*i+1] = byte(c)
	}
	return b
}

// Revive is the 15.12.2 reviver pass: root object with the single property
// "" holding v, then Walk(root, "").
func Revive(v *Val, reviver func(holder *Val, key []uint16, val *Val) *Val) *Val {
	root := NewObject()
	root.Define([]uint16{}, v)
	return walk(root, []uint16{}, reviver, false)
}

// ReviveLiveEnumeration is a DEVIATION MODEL (used by finding matchers only):
// object keys are not snapshotted; the walk indexes 0..n-1 into the live,
// in-place-compacted key array, so deleting a key makes the walk skip the
// next one and re-read stale tail slots.
func ReviveLiveEnumeration(v *Val, reviver func(holder *Val, key []uint16, val *Val) *Val) *Val {
	root := NewObject()
	root.Define([]uint16{}, v)
	return walk(root, []uint16{}, reviver, true)
}

func walk(holder *Val, name []uint16, reviver func(holder *Val, key []uint16, val *Val) *Val, live bool) *Val {
	val := holder.Get(name)
	if val.IsObj() {
		if val.Kind == Array {
			n := len(val.Elems) // [[Get]] "length" once
			for i := 0; i < n; i++ {
				k := U(itoa(i))
				ne := walk(val, k, reviver, live)
				if ne.IsUndef() {
					val.Delete(k)
				} else {
					val.Define(k, ne)
				}
			}
		} else if live {
			backing := make([][]uint16, len(val.Props))
			for i, p := range val.Props {
				backing[i] = p.Key
			}
			n, length := len(backing), len(backing)
			for i := 0; i < n; i++ {
				k := backing[i]
				exists := false
				for _, p := range val.Props {
					if EqUnits(p.Key, k) && p.Enumerable {
						exists = true
					}
				}
				if !exists {
					continue
				}
				ne := walk(val, k, reviver, live)
				if ne.IsUndef() {
					val.Delete(k)
					for j := 0; j < length; j++ {
						if EqUnits(backing[j], k) {
							copy(backing[j:length-1], backing[j+1:length])
							length--
							break
						}
					}
				} else {
					val.Define(k, ne)
				}
			}
		} else {
			for _, k := range val.OwnEnumKeys() { // snapshot
				ne := walk(val, k, reviver, live)
				if ne.IsUndef() {
					val.Delete(k)
				} else {
					val.Define(k, ne)
				}
			}
		}
	}
	return reviver(holder, name, val)
}
