package refjson

// Exact decimal <-> double conversions written with math/big only (no
// strconv float parsing/formatting, no encoding/json): the JSON oracle needs
// (a) the Number value of a JSONNumber (ES5.1 15.12.2 -> 7.8.3 MV, rounded per
// 8.5 round-to-nearest-even) and (b) ToString(Number) (9.8.1) for
// JSON.stringify.

import (
	"math"
	"math/big"
)

var bigTen = big.NewInt(10)

var pow10cache = map[int]*big.Int{}

func pow10(n int) *big.Int {
	if p, ok := pow10cache[n]; ok {
		return p
	}
	p := new(big.Int).Exp(bigTen, big.NewInt(int64(n)), nil)
	if len(pow10cache) < 4096 {
		pow10cache[n] = p
	}
	return p
}

// DecimalToDouble returns the double nearest (ties to even) to
// (-1)^neg * digits * 10^exp10, where digits is a string of ASCII decimal
// digits (possibly with leading zeros, possibly empty = 0).
func DecimalToDouble(neg bool, digits string, exp10 int) float64 {
	sign := 1.0
	if neg {
		sign = -1
	}
	// strip leading zeros
	i := 0
	for i < len(digits) && digits[i] == '0' {
		i++
	}
	digits = digits[i:]
	// strip trailing zeros
	for len(digits) > 0 && digits[len(digits)-1] == '0' {
		digits = digits[:len(digits)-1]
		exp10++
	}
	if len(digits) == 0 {
		return math.Copysign(0, sign)
	}
	// A halfway point between two doubles has at most 767 significant
	// decimal digits; beyond 800 digits only "non-zero or not" matters.
	if len(digits) > 800 {
		exp10 += len(digits) - 800
		digits = digits[:800] + "1" // sticky (the stripped tail was non-zero: no trailing zeros)
		exp10--
	}
	adj := exp10 + len(digits) // value = 0.d1d2.. * 10^adj
	if adj > 310 {
		return math.Inf(int(sign))
	}
	if adj < -330 {
		return math.Copysign(0, sign)
	}
	m, ok := new(big.Int).SetString(digits, 10)
	if !ok {
		panic("refjson: bad digits " + digits)
	}
	num, den := m, big.NewInt(1)
	if exp10 >= 0 {
		num = new(big.Int).Mul(m, pow10(exp10))
	} else {
		den = pow10(-exp10)
	}
	return sign * ratToDouble(num, den)
}

// ratToDouble rounds the positive rational num/den to the nearest double.
func ratToDouble(num, den *big.Int) float64 {
	// e = floor(log2(num/den))
	est := num.BitLen() - den.BitLen()
	geq := func(k int) bool { // num/den >= 2^k ?
		if k >= 0 {
			return num.Cmp(new(big.Int).Lsh(den, uint(k))) >= 0
		}
		return new(big.Int).Lsh(num, uint(-k)).Cmp(den) >= 0
	}
	e := est
	if !geq(est) {
		e = est - 1
	}
	u := e - 52
	if u < -1074 {
		u = -1074
	}
	n, d := num, den
	if u >= 0 {
		d = new(big.Int).Lsh(den, uint(u))
	} else {
		n = new(big.Int).Lsh(num, uint(-u))
	}
	q, r := new(big.Int).QuoRem(n, d, new(big.Int))
	r.Lsh(r, 1)
	switch c := r.Cmp(d); {
	case c > 0:
		q.Add(q, big.NewInt(1))
	case c == 0:
		if q.Bit(0) == 1 {
			q.Add(q, big.NewInt(1))
		}
	}
	if u > 1100 {
		return math.Inf(1)
	}
	return math.Ldexp(float64(q.Uint64()), u) // q <= 2^53: exact; Ldexp exact or +Inf
}

// ShortestDigits returns, for a finite f > 0, the digit string s (no leading
// or trailing zeros) and n of ES5.1 9.8.1 step 5: f is the Number value of
// 0.s * 10^n, len(s) as small as possible; among several candidates the one
// closest to f (ties to even) as recommended by the NOTE of 9.8.1.
func ShortestDigits(f float64) (string, int) {
	if !(f > 0) || math.IsInf(f, 0) {
		panic("refjson: ShortestDigits needs finite f > 0")
	}
	fr, e2 := math.Frexp(f)
	mant := new(big.Int).SetUint64(uint64(fr * (1 << 53)))
	e2 -= 53 // f = mant * 2^e2
	vn, vd := mant, big.NewInt(1)
	if e2 >= 0 {
		vn = new(big.Int).Lsh(mant, uint(e2))
	} else {
		vd = new(big.Int).Lsh(vd, uint(-e2))
	}
	// n: 10^(n-1) <= f < 10^n
	n := int(math.Floor(math.Log10(f))) + 1
	cmpPow := func(k int) int { // compare f with 10^k
		if k >= 0 {
			return vn.Cmp(new(big.Int).Mul(vd, pow10(k)))
		}
		return new(big.Int).Mul(vn, pow10(-k)).Cmp(vd)
	}
	for cmpPow(n) >= 0 {
		n++
	}
	for cmpPow(n-1) < 0 {
		n--
	}
	type cand struct {
		s string
		n int
	}
	try := func(k int) (cand, bool) {
		// t = f * 10^(k-n) = N/D
		N, D := vn, vd
		if k-n >= 0 {
			N = new(big.Int).Mul(vn, pow10(k-n))
		} else {
			D = new(big.Int).Mul(vd, pow10(n-k))
		}
		lo, r := new(big.Int).QuoRem(N, D, new(big.Int))
		okLo := DecimalToDouble(false, lo.String(), n-k) == f
		if r.Sign() == 0 {
			return cand{lo.String(), n}, true
		}
		hi := new(big.Int).Add(lo, big.NewInt(1))
		okHi := DecimalToDouble(false, hi.String(), n-k) == f
		pick := func(x *big.Int) cand {
			s := x.String()
			nn := n + (len(s) - k) // hi may be 10^k
			for len(s) > 1 && s[len(s)-1] == '0' {
				s = s[:len(s)-1]
			}
			return cand{s, nn}
		}
		switch {
		case okLo && okHi:
			r2 := new(big.Int).Lsh(r, 1)
			c := r2.Cmp(D)
			if c < 0 || (c == 0 && lo.Bit(0) == 0) {
				return pick(lo), true
			}
			return pick(hi), true
		case okLo:
			return pick(lo), true
		case okHi:
			return pick(hi), true
		}
		return cand{}, false
	}
	// the set of k admitting a candidate is upward closed: binary search
	loK, hiK := 1, 17
	best, ok := try(17)
	if !ok {
		panic("refjson: 17 digits do not round-trip")
	}
	for loK < hiK {
		mid := (loK + hiK) / 2
		if c, ok := try(mid); ok {
			best, hiK = c, mid
		} else {
			loK = mid + 1
		}
	}
	s := best.s
	for len(s) > 1 && s[len(s)-1] == '0' {
		s = s[:len(s)-1]
	}
	return s, best.n
}

func itoa(n int) string {
	if n == 0 {
		return "0"
	}
	neg := n < 0
	if neg {
		n = -n
	}
	var b [24]byte
	i := len(b)
	for n > 0 {
		i--
		b[i] = byte('0' + n%10)
		n /= 10
	}
	if neg {
		i--
		b[i] = '-'
	}
	return string(b[i:])
}

func zeros(n int) string {
	b := make([]byte, n)
	for i := range b {
		b[i] = '0'
	}
	return string(b)
}

// FormatDigits lays out digits s (k = len(s)) and exponent n per 9.8.1 steps 6-10.
func FormatDigits(s string, n int) string {
	k := len(s)
	switch {
	case k <= n && n <= 21:
		return s + zeros(n-k)
	case 0 < n && n <= 21:
		return s[:n] + "." + s[n:]
	case -6 < n && n <= 0:
		return "0." + zeros(-n) + s
	}
	sign := "+"
	e := n - 1
	if e < 0 {
		sign = "-"
		e = -e
	}
	if k == 1 {
		return s + "e" + sign + itoa(e)
	}
	return s[:1] + "." + s[1:] + "e" + sign + itoa(e)
}

// NumberToString is ES5.1 9.8.1 ToString applied to a Number.
func NumberToString(f float64) string {
	switch {
	case f != f:
		return "NaN"
	case f == 0:
		return "0"
	case f < 0:
		return "-" + NumberToString(-f)
	case math.IsInf(f, 1):
		return "Infinity"
	}
	// fast path: integers below 2^53 print as their digits (k <= n <= 21)
	if f < 1<<53 && f == math.Trunc(f) {
		return itoa(int(f))
	}
	s, n := ShortestDigits(f)
	return FormatDigits(s, n)
}

// ValidNumberString reports whether text is *a* result 9.8.1 permits for
// finite f: the layout of steps 6-10 applied to some digit string s of the
// minimal length k whose Number value is f (the spec leaves the last digit
// open when several k-digit strings qualify).
func ValidNumberString(f float64, text string) bool {
	if f != f || math.IsInf(f, 0) {
		return false
	}
	if f == 0 {
		return text == "0"
	}
	if f < 0 {
		if len(text) == 0 || text[0] != '-' {
			return false
		}
		return ValidNumberString(-f, text[1:])
	}
	if text == NumberToString(f) {
		return true
	}
	// recover (s, n) from the layout
	mant, exp, hasExp := text, 0, false
	for i := 0; i < len(text); i++ {
		if text[i] == 'e' {
			mant = text[:i]
			rest := text[i+1:]
			if len(rest) < 2 || (rest[0] != '+' && rest[0] != '-') {
				return false
			}
			for _, c := range rest[1:] {
				if c < '0' || c > '9' {
					return false
				}
				exp = exp*10 + int(c-'0')
				if exp > 100000 {
					return false
				}
			}
			if rest[0] == '-' {
				exp = -exp
			}
			hasExp = true
			break
		}
	}
	intPart, fracPart := mant, ""
	for i := 0; i < len(mant); i++ {
		if mant[i] == '.' {
			intPart, fracPart = mant[:i], mant[i+1:]
			break
		}
	}
	for _, c := range intPart + fracPart {
		if c < '0' || c > '9' {
			return false
		}
	}
	digits := intPart + fracPart
	n := len(intPart)
	if hasExp {
		n += exp
	}
	lead := 0
	for lead < len(digits) && digits[lead] == '0' {
		lead++
	}
	digits = digits[lead:]
	n -= lead
	for len(digits) > 0 && digits[len(digits)-1] == '0' {
		digits = digits[:len(digits)-1]
	}
	if len(digits) == 0 {
		return false
	}
	ref, _ := ShortestDigits(f)
	if len(digits) != len(ref) {
		return false
	}
	if FormatDigits(digits, n) != text {
		return false
	}
	return DecimalToDouble(false, digits, n-len(digits)) == f
}

// ExactDecimal returns the exact decimal expansion of finite f >= 0 as
// (digits, exp10): f == digits * 10^exp10.
func ExactDecimal(f float64) (string, int) {
	if f == 0 {
		return "0", 0
	}
	fr, e2 := math.Frexp(f)
	mant := new(big.Int).SetUint64(uint64(fr * (1 << 53)))
	e2 -= 53
	if e2 >= 0 {
		return new(big.Int).Lsh(mant, uint(e2)).String(), 0
	}
	// mant / 2^-e2 = mant * 5^-e2 / 10^-e2
	p5 := new(big.Int).Exp(big.NewInt(5), big.NewInt(int64(-e2)), nil)
	return new(big.Int).Mul(mant, p5).String(), e2
}
