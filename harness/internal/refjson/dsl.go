package refjson

// A small description language for ECMAScript values used as JSON.stringify
// inputs. A Node tree (with back-references for cycles) can be BOTH rendered
// to JavaScript source that builds the value in the implementation under test
// (done by the check) AND instantiated as a model value graph (here).

import (
	"fmt"
	"math"
	"strings"

	"verif/internal/gen"
)

// U16 is a code-unit string that survives JSON (lone surrogates included):
// it is written as a JSON string using only ASCII and \uXXXX escapes and read
// back by its own decoder (encoding/json would replace lone surrogates).
type U16 []uint16

func (u U16) MarshalJSON() ([]byte, error) {
	var b strings.Builder
	b.WriteByte('"')
	for _, c := range u {
		switch {
		case c == '"' || c == '\\':
			b.WriteByte('\\')
			b.WriteByte(byte(c))
		case c >= 0x20 && c < 0x7f:
			b.WriteByte(byte(c))
		default:
			fmt.Fprintf(&b, "\\u%04X", c)
		}
	}
	b.WriteByte('"')
	return []byte(b.String()), nil
}

func (u *U16) UnmarshalJSON(b []byte) error {
	if string(b) == "null" {
		*u = nil
		return nil
	}
	units := make([]uint16, len(b))
	for i, c := range b {
		units[i] = uint16(c)
	}
	v, err := Parse(units)
	if err != nil || v.Kind != String {
		return fmt.Errorf("refjson.U16: not a JSON string: %s", b)
	}
	*u = U16(v.S)
	return nil
}

// NProp is one property of an "obj" node.
type NProp struct {
	Key    U16   `json:"key"`
	V      *Node `json:"v"`
	Hidden bool  `json:"hidden,omitempty"` // enumerable: false
	Getter bool  `json:"getter,omitempty"` // accessor property whose getter returns V
}

// Node kinds: undef null bool num str arr obj fn boxnum boxstr boxbool date ref.
type Node struct {
	K string  `json:"k"`
	B bool    `json:"b,omitempty"`
	N gen.F   `json:"n"`           // num, boxnum, date (time value)
	S U16     `json:"s,omitempty"` // str, boxstr
	E []*Node `json:"e,omitempty"` // arr elements; a nil entry is a hole
	P []NProp `json:"p,omitempty"` // obj properties in creation order
	// obj: toJSON method added after P. "val": returns TJV; "key": returns typeof k+":"+k.
	TJ  string `json:"tj,omitempty"`
	TJV *Node  `json:"tjv,omitempty"`
	// boxnum: valueOf override (returns OvN); boxnum/boxstr: toString override (returns OvS).
	HasOvN bool  `json:"hasovn,omitempty"`
	OvN    gen.F `json:"ovn"`
	HasOvS bool  `json:"hasovs,omitempty"`
	OvS    U16   `json:"ovs,omitempty"`
	// ref: the Up-th enclosing container (1 = innermost).
	Up int `json:"up,omitempty"`
}

// Hooks observe calls the model makes into described functions.
type Hooks struct {
	ToJSON func(key []uint16) // a described toJSON method was called with key
}

// TimeClip (15.9.1.14).
func TimeClip(t float64) float64 {
	if t != t || math.IsInf(t, 0) || math.Abs(t) > 8.64e15 {
		return math.NaN()
	}
	return math.Trunc(t) + 0
}

// Instantiate builds the model value graph described by n.
func Instantiate(n *Node, h *Hooks) *Val {
	return inst(n, nil, h)
}

func inst(n *Node, anc []*Val, h *Hooks) *Val {
	if n == nil {
		return undefinedVal
	}
	switch n.K {
	case "undef":
		return undefinedVal
	case "null":
		return nullVal
	case "bool":
		return BoolV(n.B)
	case "num":
		return NumV(float64(n.N))
	case "str":
		return StrV(append([]uint16{}, n.S...))
	case "fn":
		return &Val{Kind: Function, Fn: func(*Val, []*Val) *Val { return undefinedVal }}
	case "boxnum":
		v := &Val{Kind: Object, Class: "Number", Prim: NumV(float64(n.N)), ToNum: float64(n.N), ToStr: U(NumberToString(float64(n.N)))}
		if n.HasOvN {
			v.ToNum = float64(n.OvN)
		}
		if n.HasOvS {
			v.ToStr = n.OvS
		}
		return v
	case "boxstr":
		v := &Val{Kind: Object, Class: "String", Prim: StrV(n.S), ToStr: n.S}
		if n.HasOvS {
			v.ToStr = n.OvS
		}
		return v
	case "boxbool":
		return &Val{Kind: Object, Class: "Boolean", Prim: BoolV(n.B)}
	case "date":
		return &Val{Kind: Object, Class: "Date", N: TimeClip(float64(n.N))}
	case "ref":
		if n.Up < 1 || n.Up > len(anc) {
			return nullVal // dangling reference: both renderers agree on null
		}
		return anc[len(anc)-n.Up]
	case "arr":
		a := &Val{Kind: Array, Elems: make([]*Val, len(n.E))}
		anc2 := append(append([]*Val{}, anc...), a)
		for i, e := range n.E {
			if e == nil {
				continue
			}
			a.Elems[i] = inst(e, anc2, h)
		}
		return a
	case "obj":
		o := NewObject()
		anc2 := append(append([]*Val{}, anc...), o)
		for _, p := range n.P {
			o.Define(p.Key, inst(p.V, anc2, h))
			if p.Hidden {
				for _, q := range o.Props {
					if EqUnits(q.Key, p.Key) {
						q.Enumerable = false
					}
				}
			}
		}
		switch n.TJ {
		case "val":
			ret := inst(n.TJV, anc2, h)
			o.Define(toJSONKey, &Val{Kind: Function, Fn: func(this *Val, args []*Val) *Val {
				if h != nil && h.ToJSON != nil {
					h.ToJSON(args[0].S)
				}
				return ret
			}})
		case "key":
			o.Define(toJSONKey, &Val{Kind: Function, Fn: func(this *Val, args []*Val) *Val {
				if h != nil && h.ToJSON != nil {
					h.ToJSON(args[0].S)
				}
				return StrV(append(U("string:"), args[0].S...))
			}})
		}
		return o
	}
	panic("refjson: unknown node kind " + n.K)
}
