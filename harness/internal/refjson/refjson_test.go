package refjson

import (
	"math"
	"strconv"
	"testing"
)

func label(f float64) string {
	if f == 0 && math.Signbit(f) {
		return "-0"
	}
	return strconv.FormatFloat(f, 'g', -1, 64)
}

var dopt = DumpOpts{NumLabel: label}

func TestDecimalToDouble(t *testing.T) {
	cases := []struct {
		neg  bool
		d    string
		e    int
		want float64
	}{
		{false, "0", 0, 0}, {false, "1", 0, 1}, {false, "15", -1, 1.5}, {false, "1", 21, 1e21},
		{false, "17976931348623157", 292, math.MaxFloat64},
		{false, "17976931348623158", 292, math.MaxFloat64}, // below the halfway point to 2^1024
		{false, "179769313486231580793", 288, math.MaxFloat64},
		{false, "17976931348623159", 292, math.Inf(1)},
		{false, "1", 400, math.Inf(1)}, {true, "1", 400, math.Inf(-1)}, {false, "1", -400, 0},
		{false, "5", -324, 5e-324}, {false, "24703282292062327", -340, 0}, // just below half of min subnormal
		{false, "24703282292062328", -340, 5e-324},
		{false, "22250738585072014", -324, 2.2250738585072014e-308},
		{false, "9007199254740993", 0, 9007199254740992}, // tie -> even
		{false, "9007199254740995", 0, 9007199254740996},
		{false, "90071992547409930000000000000000000000001", -25, 9007199254740994},
		{false, "1", -1, 0.1}, {false, "3", -1, 0.3}, {false, "123456789012345678", 0, 123456789012345680},
	}
	for _, c := range cases {
		got := DecimalToDouble(c.neg, c.d, c.e)
		if got != c.want || math.Signbit(got) != math.Signbit(c.want) {
			t.Errorf("DecimalToDouble(%v,%s,%d) = %v want %v", c.neg, c.d, c.e, got, c.want)
		}
	}
	if !math.Signbit(DecimalToDouble(true, "0", 0)) {
		t.Errorf("-0 lost")
	}
	// cross-check against strconv on a sweep (the oracle itself never calls strconv)
	x := uint64(88172645463325252)
	for i := 0; i < 20000; i++ {
		x ^= x << 13
		x ^= x >> 7
		x ^= x << 17
		f := math.Float64frombits(x)
		if f != f || math.IsInf(f, 0) {
			continue
		}
		s := strconv.FormatFloat(math.Abs(f), 'e', 16+int(x%3), 64)
		// s = d.ddddde+-xx
		mant, exp := s, 0
		for j := 0; j < len(s); j++ {
			if s[j] == 'e' {
				mant = s[:j]
				exp, _ = strconv.Atoi(s[j+1:])
			}
		}
		digits := mant[:1] + mant[2:]
		want, _ := strconv.ParseFloat(s, 64)
		if got := DecimalToDouble(false, digits, exp-(len(digits)-1)); got != want {
			t.Fatalf("sweep %s: got %v want %v", s, got, want)
		}
		if got, want := NumberToString(f), jsFormat(f); got != want {
			t.Fatalf("NumberToString(%v) = %s want %s", f, got, want)
		}
		if !ValidNumberString(f, NumberToString(f)) {
			t.Fatalf("ValidNumberString rejects canonical %s", NumberToString(f))
		}
	}
}

// jsFormat lays out strconv's shortest digits per 9.8.1 (test-only cross-check).
func jsFormat(f float64) string {
	if f < 0 {
		return "-" + jsFormat(-f)
	}
	if f == 0 {
		return "0"
	}
	s := strconv.FormatFloat(f, 'e', -1, 64)
	mant, exp := s, 0
	for j := 0; j < len(s); j++ {
		if s[j] == 'e' {
			mant = s[:j]
			exp, _ = strconv.Atoi(s[j+1:])
		}
	}
	digits := mant[:1]
	if len(mant) > 2 {
		digits += mant[2:]
	}
	return FormatDigits(digits, exp+1)
}

func TestNumberToString(t *testing.T) {
	cases := map[float64]string{
		0: "0", 1: "1", -1: "-1", 1.5: "1.5", 1e21: "1e+21", 1e20: "100000000000000000000", 1e-6: "0.000001", 1e-7: "1e-7",
		123456789012345680000: "123456789012345680000", 0.1: "0.1", 5e-324: "5e-324", math.MaxFloat64: "1.7976931348623157e+308",
		1.2e-7: "1.2e-7", 123e-20: "1.23e-18", 2251799813685248.5: "2251799813685248.5", 0.30000000000000004: "0.30000000000000004",
		9223372036854775808: "9223372036854776000", 100: "100", 2.2250738585072014e-308: "2.2250738585072014e-308",
	}
	for f, want := range cases {
		if got := NumberToString(f); got != want {
			t.Errorf("NumberToString(%v) = %q want %q", f, got, want)
		}
	}
	if NumberToString(math.NaN()) != "NaN" || NumberToString(math.Inf(-1)) != "-Infinity" || NumberToString(math.Copysign(0, -1)) != "0" {
		t.Errorf("specials")
	}
	// 5e-324: any of 3..7e-324 has minimal k=1 and the right Number value
	for _, s := range []string{"3e-324", "4e-324", "5e-324", "6e-324", "7e-324"} {
		if !ValidNumberString(5e-324, s) {
			t.Errorf("ValidNumberString(5e-324,%s) should hold", s)
		}
	}
	for _, s := range []string{"2e-324", "8e-324", "4.9e-324", "5.0e-324", "5E-324", "5e-0324", "05e-324", "0.5e-323"} {
		if ValidNumberString(5e-324, s) {
			t.Errorf("ValidNumberString(5e-324,%s) should not hold", s)
		}
	}
	if ValidNumberString(100, "1e2") || ValidNumberString(100, "100.0") || ValidNumberString(1e21, "1000000000000000000000") || !ValidNumberString(-1.5, "-1.5") {
		t.Errorf("layout checks")
	}
}

func parseS(s string) (*Val, error) { return Parse(U(s)) }

func TestParseGrammar(t *testing.T) {
	good := map[string]string{
		`null`: "N", ` true `: "T", "\t\r\n false": "F", `0`: "n:0", `-0`: "n:-0", `1E+2`: "n:100", `0.1e-7`: "n:1e-08", `-1.5e0`: "n:-1.5", `1e007`: "n:1e+07",
		`""`: `""`, `"a\/b"`: `"a/b"`, `"\"\\\b\f\n\r\t"`: `"\"\\\u0008\u000C\u000A\u000D\u0009"`, "\"\u00e9\\uD800x\U0010FFFF\"": `"\u00E9\uD800x\uDBFF\uDFFF"`,
		"\"\u2028\u2029\u007f\"": `"\u2028\u2029\u007F"`,
		`[]`:                     "[0|]", `[1,[2,[]],"x"]`: `[3|0:n:1,1:[2|0:n:2,1:[0|]],2:"x"]`, `{}`: "{}", `{"b":1,"a":{"c":[null]}}`: `{"b":n:1,"a":{"c":[1|0:N]}}`,
		`{"a":1,"b":2,"a":3}`: `{"a":n:3,"b":n:2}`, `{"__proto__":1,"":2}`: `{"__proto__":n:1,"":n:2}`, `1e400`: "n:+Inf", `-1e400`: "n:-Inf",
		` [ 1 , 2 ] `: "[2|0:n:1,1:n:2]", `{ "a" : 1 }`: `{"a":n:1}`,
	}
	for in, want := range good {
		v, err := parseS(in)
		if err != nil {
			t.Errorf("Parse(%q): %v", in, err)
			continue
		}
		if got := Dump(v, dopt); got != want {
			t.Errorf("Parse(%q) = %s want %s", in, got, want)
		}
	}
	bad := []string{``, ` `, `01`, `+1`, `.5`, `1.`, `1e`, `1e+`, `-`, `--1`, `0x10`, `1 2`, `[1,]`, `[,1]`, `[1,,2]`, `{"a":1,}`, `{,}`, `{a:1}`, `{'a':1}`, `'a'`,
		`[1 2]`, `{"a" 1}`, `{"a":}`, `{"a"}`, `[1}`, `{"a":1]`, `NaN`, `Infinity`, `-Infinity`, `undefined`, `nul`, `nulll`, `True`, `TRUE`, `/**/1`, `1//x`, `[1,/**/2]`,
		"\"\t\"", "\"\n\"", "\"\x00\"", "\"\x1f\"", `"\x41"`, `"\u12"`, `"\u12G4"`, `"\v"`, `"\'"`, `"\a"`, `"\0"`, `"\`, `"\"`, `"\U0041"`, `"abc`, `"a"b"`,
		"\u00a01", "\ufeff1", "1\u2028", "\u20291", "\v1", "\f1", "1\u0085", "\u30001", "\u200b1", `[`, `{`, `[1`, `{"a"`, `{"a":`, `{"a":1`, `]`, `}`, `:`, `,`,
		`[1]x`, `1.e5`, `1e5.5`, `1.5.5`, `-01`, `- 1`, `1 e5`, "\uff11"}
	for _, in := range bad {
		if v, err := parseS(in); err == nil {
			t.Errorf("Parse(%q) accepted: %s", in, Dump(v, dopt))
		}
	}
	// deep nesting
	deep := ""
	for i := 0; i < 5000; i++ {
		deep += "["
	}
	for i := 0; i < 5000; i++ {
		deep += "]"
	}
	if _, err := parseS(deep); err != nil {
		t.Errorf("deep: %v", err)
	}
}

func TestRevive(t *testing.T) {
	v, _ := parseS(`{"a":[1,{"b":2}],"c":3}`)
	var log []string
	r := Revive(v, func(h *Val, k []uint16, x *Val) *Val {
		log = append(log, QuoteASCII(k)+"="+Dump(x, dopt))
		return x
	})
	want := `"0"=n:1|"b"=n:2|"1"={"b":n:2}|"a"=[2|0:n:1,1:{"b":n:2}]|"c"=n:3|""={"a":[2|0:n:1,1:{"b":n:2}],"c":n:3}`
	got := ""
	for i, l := range log {
		if i > 0 {
			got += "|"
		}
		got += l
	}
	if got != want {
		t.Errorf("order:\n got %s\nwant %s", got, want)
	}
	if Dump(r, dopt) != `{"a":[2|0:n:1,1:{"b":n:2}],"c":n:3}` {
		t.Errorf("identity reviver changed the value: %s", Dump(r, dopt))
	}
	v, _ = parseS(`[1,2,3,4,{"x":2,"y":5}]`)
	r = Revive(v, func(h *Val, k []uint16, x *Val) *Val {
		if x.Kind == Number && math.Mod(x.N, 2) == 0 {
			return Undef()
		}
		return x
	})
	if got := Dump(r, dopt); got != `[5|0:n:1,2:n:3,4:{"y":n:5}]` {
		t.Errorf("delete evens: %s", got)
	}
	v, _ = parseS(`1`)
	r = Revive(v, func(h *Val, k []uint16, x *Val) *Val {
		if len(k) != 0 || h.Kind != Object || len(h.Props) != 1 {
			t.Errorf("root holder wrong")
		}
		return Undef()
	})
	if !r.IsUndef() {
		t.Errorf("top-level undefined expected")
	}
}

func strf(v *Val, o Options) string {
	r := Stringify(v, o)
	switch r.Kind {
	case RUndefined:
		return "<undefined>"
	case RTypeError:
		return "<TypeError>"
	}
	return UTF8(r.Text())
}

func n(k string) *Node { return &Node{K: k} }

func TestStringify(t *testing.T) {
	DateISO = func(t float64) string { return "1970-01-01T00:00:00.000Z" }
	obj := func(kv ...interface{}) *Node {
		o := &Node{K: "obj"}
		for i := 0; i < len(kv); i += 2 {
			o.P = append(o.P, NProp{Key: U16(U(kv[i].(string))), V: kv[i+1].(*Node)})
		}
		return o
	}
	arr := func(e ...*Node) *Node { return &Node{K: "arr", E: e} }
	num := func(f float64) *Node { return &Node{K: "num", N: gen_(f)} }
	str := func(s string) *Node { return &Node{K: "str", S: U16(U(s))} }
	I := func(x *Node) *Val { return Instantiate(x, nil) }

	v := obj("b", num(1), "a", arr(num(-0.0), num(math.NaN()), n("undef"), n("fn"), n("null"), &Node{K: "bool", B: true}), "u", n("undef"), "f", n("fn"))
	if got := strf(I(v), Options{}); got != `{"b":1,"a":[0,null,null,null,null,true]}` {
		t.Errorf("basic: %s", got)
	}
	if got := strf(I(num(math.Copysign(0, -1))), Options{}); got != "0" {
		t.Errorf("-0: %s", got)
	}
	if got := strf(I(n("undef")), Options{}); got != "<undefined>" {
		t.Errorf("undefined: %s", got)
	}
	if got := strf(I(n("fn")), Options{}); got != "<undefined>" {
		t.Errorf("fn: %s", got)
	}
	if got := strf(I(str("\x00\x08\x09\x0a\x0c\x0d\x1f\"\\/<>&\u007f\u2028\u00e9")), Options{}); got != `"\u0000\b\t\n\f\r\u001f\"\\/<>&`+"\u007f\u2028\u00e9\"" {
		t.Errorf("quote: %q", got)
	}
	// ES5.1 15.12.3 gap examples
	nested := obj("a", arr(num(1), obj("b", num(2))), "e", arr(), "o", obj())
	want3 := "{\n   \"a\": [\n      1,\n      {\n         \"b\": 2\n      }\n   ],\n   \"e\": [],\n   \"o\": {}\n}"
	if got := strf(I(nested), Options{Space: NumV(3)}); got != want3 {
		t.Errorf("space 3:\n%s", got)
	}
	if got := strf(I(nested), Options{Space: NumV(3.9)}); got != want3 {
		t.Errorf("space 3.9")
	}
	if got := strf(I(arr(num(1))), Options{Space: NumV(11)}); got != "[\n          1\n]" {
		t.Errorf("space 11: %q", got)
	}
	if got := strf(I(arr(num(1))), Options{Space: NumV(math.Inf(1))}); got != "[\n          1\n]" {
		t.Errorf("space inf: %q", got)
	}
	for _, sp := range []*Val{NumV(0), NumV(-1), NumV(0.5), NumV(math.NaN()), StrS(""), BoolV(true), NullV(), NewObject(), nil} {
		if got := strf(I(arr(num(1))), Options{Space: sp}); got != "[1]" {
			t.Errorf("no gap expected: %q", got)
		}
	}
	if got := strf(I(arr(num(1))), Options{Space: StrS("abcdefghijkl")}); got != "[\nabcdefghij1\n]" {
		t.Errorf("space string: %q", got)
	}
	if got := strf(I(arr(num(1))), Options{Space: I(&Node{K: "boxnum", N: 2})}); got != "[\n  1\n]" {
		t.Errorf("boxed space: %q", got)
	}
	if got := strf(I(arr(num(1))), Options{Space: I(&Node{K: "boxstr", S: U16(U("-"))})}); got != "[\n-1\n]" {
		t.Errorf("boxed space str: %q", got)
	}
	// replacer array
	o4 := obj("a", num(1), "1", num(2), "2", num(3), "b", num(4), "c", num(5))
	repl := I(arr(str("b"), str("a"), str("a"), num(1), &Node{K: "boxnum", N: 2}, &Node{K: "bool", B: true}, n("null"), obj(), &Node{K: "boxstr", S: U16(U("zz"))}))
	if got := strf(I(o4), Options{Replacer: repl}); got != `{"b":4,"a":1,"1":2,"2":3}` {
		t.Errorf("replacer array: %s", got)
	}
	if got := strf(I(obj("a", num(1), "", num(3))), Options{Replacer: I(arr(&Node{K: "bool", B: true}, str("a"))), Dev: DevPropListIndex}); got != `{"":3}` {
		t.Errorf("proplist dev: %s", got)
	}
	if got := strf(I(o4), Options{Dev: DevSortKeys}); got != `{"1":2,"2":3,"a":1,"b":4,"c":5}` {
		t.Errorf("sort dev: %s", got)
	}
	// wrappers, Date, toJSON
	w := arr(&Node{K: "boxnum", N: 1, HasOvN: true, OvN: 42}, &Node{K: "boxstr", S: U16(U("s")), HasOvS: true, OvS: U16(U("t"))}, &Node{K: "boxbool", B: false}, &Node{K: "date", N: 0}, &Node{K: "date", N: gen_(math.NaN())},
		&Node{K: "obj", TJ: "key"}, obj("k", &Node{K: "obj", TJ: "val", TJV: arr(num(7))}))
	if got := strf(I(w), Options{}); got != `[42,"t",false,"1970-01-01T00:00:00.000Z",null,"string:5",{"k":[7]}]` {
		t.Errorf("wrappers: %s", got)
	}
	// replacer function: holder/this, key, post-toJSON value
	var log []string
	fn := func(h *Val, k []uint16, x *Val) *Val {
		log = append(log, QuoteASCII(k)+":"+Dump(x, dopt))
		if x.Kind == Number {
			return Undef()
		}
		return x
	}
	if got := strf(I(obj("a", num(1), "b", arr(num(2), str("x")))), Options{ReplacerFn: fn}); got != `{"b":[null,"x"]}` {
		t.Errorf("replacer fn: %s", got)
	}
	if len(log) != 5 || log[0] != `"":{"a":n:1,"b":[2|0:n:2,1:"x"]}` || log[3] != `"0":n:2` {
		t.Errorf("replacer log: %v", log)
	}
	// cycles
	for _, c := range []*Node{
		obj("a", &Node{K: "ref", Up: 1}),
		arr(&Node{K: "ref", Up: 1}),
		obj("a", arr(obj("b", &Node{K: "ref", Up: 3}))),
		obj("a", &Node{K: "obj", TJ: "val", TJV: &Node{K: "ref", Up: 2}}),
	} {
		if got := strf(I(c), Options{}); got != "<TypeError>" {
			t.Errorf("cycle: %s", got)
		}
	}
	// shared (non-cyclic) substructure and toJSON returning this are fine
	if got := strf(I(obj("a", &Node{K: "obj", TJ: "val", TJV: &Node{K: "ref", Up: 1}, P: []NProp{{Key: U16(U("x")), V: num(1)}}})), Options{}); got != `{"a":{"x":1}}` {
		t.Errorf("toJSON this: %s", got)
	}
	// hidden property: skipped by enumeration, visible through a property list
	h := &Node{K: "obj", P: []NProp{{Key: U16(U("h")), V: num(1), Hidden: true}, {Key: U16(U("v")), V: num(2)}}}
	if got := strf(I(h), Options{}); got != `{"v":2}` {
		t.Errorf("hidden: %s", got)
	}
	if got := strf(I(h), Options{Replacer: I(arr(str("v"), str("h")))}); got != `{"v":2,"h":1}` {
		t.Errorf("hidden+list: %s", got)
	}
	// number tolerance
	r := Stringify(I(arr(num(5e-324), str("5e-324"))), Options{})
	if !r.Matches(U(`[4e-324,"5e-324"]`)) || r.Matches(U(`[4e-324,"4e-324"]`)) || r.Matches(U(`[5e-324,"5e-324"] `)) || r.Matches(U(`[4.9e-324,"5e-324"]`)) {
		t.Errorf("Matches tolerance wrong")
	}
}

func gen_(f float64) (g genF) { return genF(f) }

func TestU16JSON(t *testing.T) {
	u := U16{0x41, 0xD800, 0x22, 0x5c, 0x0a, 0xFFFD, 0x7f}
	b, _ := u.MarshalJSON()
	var back U16
	if err := back.UnmarshalJSON(b); err != nil || !EqUnits(u, back) {
		t.Errorf("U16 round trip: %s -> %v (%v)", b, back, err)
	}
}

// The deviation models (used only by known-finding matchers) reproduce what
// was observed on otto; pin them so a matcher cannot drift silently.
func TestDeviationModels(t *testing.T) {
	for in, want := range map[string]string{
		`"\uD800"`:              `"\uFFFD"`,
		"\"\U0001F600\"":        `"\uD83D\uDE00"`,
		`"\uD83D\uDE00"`:        `"\uD83D\uDE00"`,
		`"\uDE00\uD83D"`:        `"\uFFFD\uFFFD"`,
		`"\uD83Dx"`:             `"\uFFFDx"`,
		"\"\\uD83D\U0001F600\"": `"\uFFFD\uD83D\uDE00"`,
	} {
		v, _, err := ParseGoSurrogates(U(in))
		if err != nil || Dump(v, dopt) != want {
			t.Errorf("ParseGoSurrogates(%s) = %v %v want %s", in, Dump(v, dopt), err, want)
		}
	}
	// escaped high surrogate followed by a RAW low surrogate: both are lost
	mixed := append(U(`"\uD83D`), 0xDE00, '"')
	if v, _, _ := ParseGoSurrogates(mixed); Dump(v, dopt) != `"\uFFFD\uFFFD"` {
		t.Errorf("mixed escape/raw pair: %s", Dump(v, dopt))
	}
	if v, _ := Parse(mixed); Dump(v, dopt) != `"\uD83D\uDE00"` {
		t.Errorf("oracle must keep the pair: %s", Dump(v, dopt))
	}
	_, overflow, _ := ParseOverflow(U(`{"k":-1e999,"k":1}`))
	if !overflow {
		t.Errorf("overflow of an overwritten member not reported")
	}
	del := func(h *Val, k []uint16, x *Val) *Val {
		if x.Kind == Null {
			return Undef()
		}
		return x
	}
	v, _ := parseS(`{"a":null,"b":null,"c":null}`)
	if got := Dump(ReviveLiveEnumeration(v, del), dopt); got != `{"b":N}` {
		t.Errorf("live enumeration: %s", got)
	}
	v, _ = parseS(`{"a":null,"b":null,"c":null}`)
	if got := Dump(Revive(v, del), dopt); got != `{}` {
		t.Errorf("snapshot enumeration: %s", got)
	}
	// a stale tail slot is visited a second time: [a,b,c] - delete a -> visits a, c, c
	calls := ""
	v, _ = parseS(`{"a":null,"b":1,"c":2}`)
	ReviveLiveEnumeration(v, func(h *Val, k []uint16, x *Val) *Val { calls += UTF8(k) + ","; return del(h, k, x) })
	if calls != "a,c,c,," {
		t.Errorf("live enumeration call order: %s", calls)
	}
	if got := strf(Instantiate(&Node{K: "num", N: 1444328876570029824}, nil), Options{Dev: DevExactInt}); got != "1444328876570029824" {
		t.Errorf("exact int: %s", got)
	}
	if got := strf(Instantiate(&Node{K: "num", N: 1444328876570029824}, nil), Options{}); got != "1444328876570029800" {
		t.Errorf("9.8.1 int: %s", got)
	}
	if got := strf(Instantiate(&Node{K: "arr", E: []*Node{{K: "num", N: 1}}}, nil), Options{Space: StrS("a\u00e9\u00e9\u00e9\u00e9\u00e9\u00e9"), Dev: DevGapBytes}); got != "[\na\u00e9\u00e9\u00e9\u00e9\ufffd1\n]" {
		t.Errorf("gap bytes: %q", got)
	}
}
