package refdate

import (
	"math"
	"testing"
)

// Facts below are derived by hand from ES5.1 15.9.1 or are well-known calendar
// constants (none computed with package time).

func TestDayFromYearConstants(t *testing.T) {
	for _, c := range []struct{ y, d float64 }{
		{1970, 0}, {1971, 365}, {1972, 730}, {1973, 1096}, // 1972 is leap
		{1969, -365}, {1968, -731},
		{2000, 10957},   // 30 years, 7 leap days (72,76,80,84,88,92,96)
		{1601, -134774}, // FILETIME epoch: 11644473600 s before 1970
		{1, -719162},    // days from 0001-01-01 to 1970-01-01
		{0, -719528},    // year 0 is leap: 719162+366
		{-1, -719893},
	} {
		if got := DayFromYear(c.y); got != c.d {
			t.Errorf("DayFromYear(%v)=%v want %v", c.y, got, c.d)
		}
	}
	if TimeFromYear(2000) != 946684800000 {
		t.Errorf("TimeFromYear(2000)")
	}
	if TimeFromYear(0) != -62167219200000 {
		t.Errorf("TimeFromYear(0)")
	}
	if TimeFromYear(10000) != 253402300800000 {
		t.Errorf("TimeFromYear(10000)=%v", TimeFromYear(10000))
	}
}

func TestLeapRule(t *testing.T) {
	for _, c := range []struct{ y, n float64 }{
		{1900, 365}, {2000, 366}, {2100, 365}, {2004, 366}, {2001, 365}, {1600, 366}, {1700, 365},
		{0, 366}, {-4, 366}, {-1, 365}, {-100, 365}, {-400, 366}, {-271821, 365}, {275760, 366},
	} {
		if got := DaysInYear(c.y); got != c.n {
			t.Errorf("DaysInYear(%v)=%v want %v", c.y, got, c.n)
		}
	}
}

func TestRangeEnds(t *testing.T) {
	// 15.9.1.1: exactly +-100,000,000 days around the epoch.
	if Day(8.64e15) != 1e8 || Day(-8.64e15) != -1e8 {
		t.Fatal("Day of range ends")
	}
	if got := ISO(8.64e15); got != "+275760-09-13T00:00:00.000Z" {
		t.Errorf("ISO(max)=%s", got)
	}
	if got := ISO(-8.64e15); got != "-271821-04-20T00:00:00.000Z" {
		t.Errorf("ISO(min)=%s", got)
	}
	if WeekDay(8.64e15) != 6 { // (1e8+4) mod 7 = (2+4) = 6, Saturday
		t.Errorf("WeekDay(max)=%v", WeekDay(8.64e15))
	}
	if WeekDay(-8.64e15) != 2 { // (-1e8+4) mod 7 = (5+4) mod 7 = 2, Tuesday
		t.Errorf("WeekDay(min)=%v", WeekDay(-8.64e15))
	}
	if got := ISO(8.64e15 - 1); got != "+275760-09-12T23:59:59.999Z" {
		t.Errorf("ISO(max-1)=%s", got)
	}
}

func TestISOKnown(t *testing.T) {
	for _, c := range []struct {
		t float64
		s string
	}{
		{0, "1970-01-01T00:00:00.000Z"},
		{-1, "1969-12-31T23:59:59.999Z"},
		{946684800000, "2000-01-01T00:00:00.000Z"},
		{951782400000, "2000-02-29T00:00:00.000Z"}, // 946684800000 + 59 days
		{253402300799999, "9999-12-31T23:59:59.999Z"},
		{253402300800000, "+010000-01-01T00:00:00.000Z"},
		{-62167219200000, "0000-01-01T00:00:00.000Z"},
		{-62167219200001, "-000001-12-31T23:59:59.999Z"},
		{1e12, "2001-09-09T01:46:40.000Z"},
		{-2208988800000, "1900-01-01T00:00:00.000Z"}, // NTP epoch: 2208988800 s
		{-11644473600000, "1601-01-01T00:00:00.000Z"},
		{1234567890123, "2009-02-13T23:31:30.123Z"},
	} {
		if got := ISO(c.t); got != c.s {
			t.Errorf("ISO(%v)=%s want %s", c.t, got, c.s)
		}
		if got, ok := ParseISO(c.s); !ok || got != c.t {
			t.Errorf("ParseISO(%s)=%v,%v want %v", c.s, got, ok, c.t)
		}
	}
	if WeekDay(0) != 4 || WeekDay(946684800000) != 6 || WeekDay(-1) != 3 {
		t.Error("WeekDay")
	}
}

// An independent day-by-day calendar walk (increment date, month, year using
// only the leap rule) from year -2400 to year 3200.
func TestCalendarWalk(t *testing.T) {
	isLeap := func(y int) bool { return y%4 == 0 && (y%100 != 0 || y%400 == 0) }
	mlen := []int{31, 28, 31, 30, 31, 30, 31, 31, 30, 31, 30, 31}
	// walk forward from 1970-01-01
	y, m, d, wd := 1970, 0, 1, 4
	for day := 0.0; y < 3200; day++ {
		for _, off := range []float64{0, MsPerDay - 1} {
			tv := day*MsPerDay + off
			if YearFromTime(tv) != float64(y) || MonthFromTime(tv) != float64(m) || DateFromTime(tv) != float64(d) || WeekDay(tv) != float64(wd) {
				t.Fatalf("day %v: got %v-%v-%v wd %v want %d-%d-%d wd %d", day, YearFromTime(tv), MonthFromTime(tv), DateFromTime(tv), WeekDay(tv), y, m, d, wd)
			}
		}
		if MakeDay(float64(y), float64(m), float64(d)) != day {
			t.Fatalf("MakeDay(%d,%d,%d)=%v want %v", y, m, d, MakeDay(float64(y), float64(m), float64(d)), day)
		}
		wd = (wd + 1) % 7
		d++
		l := mlen[m]
		if m == 1 && isLeap(y) {
			l = 29
		}
		if d > l {
			d = 1
			m++
			if m == 12 {
				m = 0
				y++
			}
		}
	}
	// walk backward from 1969-12-31
	y, m, d, wd = 1969, 11, 31, 3
	for day := -1.0; y > -2400; day-- {
		for _, off := range []float64{0, MsPerDay - 1} {
			tv := day*MsPerDay + off
			if YearFromTime(tv) != float64(y) || MonthFromTime(tv) != float64(m) || DateFromTime(tv) != float64(d) || WeekDay(tv) != float64(wd) {
				t.Fatalf("day %v: got %v-%v-%v wd %v want %d-%d-%d wd %d", day, YearFromTime(tv), MonthFromTime(tv), DateFromTime(tv), WeekDay(tv), y, m, d, wd)
			}
		}
		if MakeDay(float64(y), float64(m), float64(d)) != day {
			t.Fatalf("MakeDay(%d,%d,%d)=%v want %v", y, m, d, MakeDay(float64(y), float64(m), float64(d)), day)
		}
		wd = (wd + 6) % 7
		d--
		if d == 0 {
			m--
			if m < 0 {
				m = 11
				y--
			}
			d = mlen[m]
			if m == 1 && isLeap(((y%400)+400)%400) {
				d = 29
			}
		}
	}
}

// civil-from-days (era/400-year-cycle arithmetic in integers, after Hinnant):
// independent of the 15.9.1.3 formulas; sampled over the full range.
func civil(z int64) (y int64, m, d int) {
	z += 719468
	era := z / 146097
	if z < 0 {
		era = (z - 146096) / 146097
	}
	doe := z - era*146097
	yoe := (doe - doe/1460 + doe/36524 - doe/146096) / 365
	y = yoe + era*400
	doy := doe - (365*yoe + yoe/4 - yoe/100)
	mp := (5*doy + 2) / 153
	d = int(doy - (153*mp+2)/5 + 1)
	m = int(mp) + 3
	if m > 12 {
		m -= 12
	}
	if m <= 2 {
		y++
	}
	return y, m - 1, d
}

func TestAgainstCivilFullRange(t *testing.T) {
	var s uint64 = 12345
	next := func() uint64 { s ^= s << 13; s ^= s >> 7; s ^= s << 17; return s }
	check := func(day int64) {
		y, m, d := civil(day)
		tv := float64(day)*MsPerDay + float64(next()%86400000)
		if YearFromTime(tv) != float64(y) || MonthFromTime(tv) != float64(m) || DateFromTime(tv) != float64(d) {
			t.Fatalf("day %d: got %v-%v-%v want %d-%d-%d", day, YearFromTime(tv), MonthFromTime(tv), DateFromTime(tv), y, m, d)
		}
		if MakeDay(float64(y), float64(m), float64(d)) != float64(day) {
			t.Fatalf("MakeDay inverse at day %d", day)
		}
	}
	for i := 0; i < 400000; i++ {
		check(int64(next()%200000001) - 100000000)
	}
	for day := int64(-100000000); day < -100000000+800; day++ {
		check(day)
	}
	for day := int64(100000000 - 800); day < 100000000; day++ {
		check(day)
	}
	// every year boundary of the range
	for y := -271820.0; y <= 275760; y++ {
		t0 := TimeFromYear(y)
		if YearFromTime(t0) != y || YearFromTime(t0-1) != y-1 || MonthFromTime(t0) != 0 || DateFromTime(t0) != 1 || MonthFromTime(t0-1) != 11 || DateFromTime(t0-1) != 31 {
			t.Fatalf("year boundary %v", y)
		}
	}
}

func TestTimeFields(t *testing.T) {
	tv := -1.0
	if HourFromTime(tv) != 23 || MinFromTime(tv) != 59 || SecFromTime(tv) != 59 || MsFromTime(tv) != 999 || Day(tv) != -1 || TimeWithinDay(tv) != MsPerDay-1 {
		t.Error("negative epoch fields")
	}
	tv = 3*MsPerHour + 4*MsPerMinute + 5*MsPerSecond + 6
	if HourFromTime(tv) != 3 || MinFromTime(tv) != 4 || SecFromTime(tv) != 5 || MsFromTime(tv) != 6 {
		t.Error("fields")
	}
}

func TestMake(t *testing.T) {
	nan := math.NaN()
	if MakeTime(-1, 0, 0, 0) != -3600000 || MakeTime(1.9, -1.9, 0.5, -0.5) != 3600000-60000 {
		t.Error("MakeTime ToInteger")
	}
	if v := MakeTime(1, nan, 0, 0); v == v {
		t.Error("MakeTime NaN")
	}
	if v := MakeTime(1, 0, math.Inf(1), 0); v == v {
		t.Error("MakeTime Inf")
	}
	if MakeDay(1970, 12, 1) != 365 || MakeDay(1970, -1, 1) != -31 || MakeDay(1970, 0, 0) != -1 || MakeDay(2000, 1, 30) != 11017 || MakeDay(1999, 13, 29) != 11016 {
		t.Error("MakeDay overflow")
	}
	if MakeDay(1970.9, 0.9, 1.9) != 0 || MakeDay(-0.5, 0, 1) != -719528 {
		t.Error("MakeDay ToInteger")
	}
	if v := MakeDay(nan, 0, 1); v == v {
		t.Error("MakeDay NaN")
	}
	if MakeDate(1, 5) != MsPerDay+5 {
		t.Error("MakeDate")
	}
	if v := MakeDate(math.Inf(1), 0); v == v {
		t.Error("MakeDate Inf")
	}
	if TimeClip(8.64e15) != 8.64e15 || TimeClip(-8.64e15) != -8.64e15 {
		t.Error("TimeClip ends")
	}
	for _, x := range []float64{8.64e15 + 1, -8.64e15 - 1, nan, math.Inf(1), math.Inf(-1), 1e300} {
		if v := TimeClip(x); v == v {
			t.Errorf("TimeClip(%v)=%v", x, v)
		}
	}
	if TimeClip(1.9) != 1 || TimeClip(-1.9) != -1 {
		t.Error("TimeClip ToInteger")
	}
	if z := TimeClip(math.Copysign(0, -1)); math.Signbit(z) {
		t.Error("TimeClip(-0) must be +0")
	}
	if z := TimeClip(-0.5); z != 0 || math.Signbit(z) {
		t.Error("TimeClip(-0.5) must be +0")
	}
}

func TestParseISO(t *testing.T) {
	good := []struct {
		s string
		t float64
	}{
		{"1970", 0}, {"1970-01", 0}, {"1970-01-01", 0}, {"2000", 946684800000}, {"2000-03", 946684800000 + 60*MsPerDay},
		{"1970-01-01T00:00", 0}, {"1970-01-01T00:00Z", 0}, {"1970T00:01", 60000}, {"1970-02T00:00:01", 31*MsPerDay + 1000},
		{"1970-01-01T00:00:00.001", 1}, {"1970-01-01T01:00:00+01:00", 0}, {"1970-01-01T00:00:00-01:30", 5400000},
		{"1970-01-01T24:00:00", MsPerDay}, {"1970-01-01T24:00", MsPerDay}, {"1970-01-01T24:00:00.000Z", MsPerDay},
		{"1969-12-31T23:59:59.999Z", -1},
		{"+275760-09-13T00:00:00.000Z", 8.64e15}, {"-271821-04-20T00:00:00.000Z", -8.64e15},
		{"+001970-01-01T00:00:00.000Z", 0}, {"+000000-01-01T00:00:00Z", -62167219200000},
		{"2000-02-29", 951782400000},
	}
	for _, c := range good {
		if got, ok := ParseISO(c.s); !ok || got != c.t {
			t.Errorf("ParseISO(%q)=%v,%v want %v", c.s, got, ok, c.t)
		}
	}
	illegal := []string{"1970-00", "1970-13", "1970-01-00", "1970-01-32", "1999-02-29", "1900-02-29", "1970-04-31",
		"1970-01-01T25:00", "1970-01-01T24:01", "1970-01-01T24:00:01", "1970-01-01T24:00:00.001", "1970-01-01T00:60", "1970-01-01T00:00:60",
		"1970-01-01T00:00+25:00", "1970-01-01T00:00+00:60", "1970-01-01T00:00-24:60",
		"+275760-09-13T00:00:00.001Z", "-271821-04-19T23:59:59.999Z"}
	for _, s := range illegal {
		if got, ok := ParseISO(s); !ok || got == got {
			t.Errorf("ParseISO(%q)=%v,%v want NaN,true", s, got, ok)
		}
	}
	notFormat := []string{"", "70", "1970-1", "1970-01-1", "1970-01-01T", "1970-01-01T1:00", "1970-01-01T00", "1970-01-01T00:00:0", "1970-01-01T00:00:00.5",
		"1970-01-01T00:00:00.0001", "1970-01-01 00:00", "1970-01-01Z", "1970-01-01T00:00z", "1970-01-01T00:00+0100", "1970-01-01T00:00+01", "+1970-01-01", "+0019700-01-01",
		"1970-01-01T00:00:00.000Zx", "1970-01-01T00:00+24:00", "Thu, 01 Jan 1970 00:00:00 GMT", "1970/01/01"}
	for _, s := range notFormat {
		if _, ok := ParseISO(s); ok {
			t.Errorf("ParseISO(%q) recognised", s)
		}
	}
}

// Day/HourFromTime/MinFromTime/SecFromTime are written in a rounding-safe
// form; inside the ES5 range they must equal the literal formulas of
// 15.9.1.2 / 15.9.1.10.
func TestLiteralFormulas(t *testing.T) {
	var s uint64 = 99
	next := func() uint64 { s ^= s << 13; s ^= s >> 7; s ^= s << 17; return s }
	for i := 0; i < 2000000; i++ {
		tv := float64(int64(next()%17280000000000001) - 8640000000000000)
		if i%4 == 0 { // hug day boundaries
			tv = float64(int64(next()%200000001)-100000000)*MsPerDay + float64(int64(next()%5)-2)
			if math.Abs(tv) > 8.64e15 {
				continue
			}
		}
		if Day(tv) != math.Floor(tv/MsPerDay) || HourFromTime(tv) != mod(math.Floor(tv/MsPerHour), 24) ||
			MinFromTime(tv) != mod(math.Floor(tv/MsPerMinute), 60) || SecFromTime(tv) != mod(math.Floor(tv/MsPerSecond), 60) {
			t.Fatalf("literal formula differs at %v", tv)
		}
	}
}
