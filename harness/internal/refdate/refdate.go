// Package refdate is the ES5.1 15.9.1 time-value algebra, written from the
// specification text. It does not use package time.
package refdate

import (
	"fmt"
	"math"
)

const (
	MsPerDay    = 86400000.0
	MsPerHour   = 3600000.0
	MsPerMinute = 60000.0
	MsPerSecond = 1000.0
)

var NaN = math.NaN()

func finite(x float64) bool { return !math.IsNaN(x) && !math.IsInf(x, 0) }

// ToInteger is ES5 9.4 on a number.
func ToInteger(x float64) float64 {
	if x != x {
		return 0
	}
	if x == 0 || math.IsInf(x, 0) {
		return x
	}
	return math.Trunc(x)
}

func mod(a, b float64) float64 {
	r := math.Mod(a, b)
	if r < 0 {
		r += b
	}
	return r
}

// Day 15.9.1.2: floor(t / msPerDay), computed as (t - t mod msPerDay) / msPerDay
// so that no rounding of the quotient can move it across an integer (fmod is
// exact, the difference is an exact multiple of msPerDay).
func Day(t float64) float64 { return (t - mod(t, MsPerDay)) / MsPerDay }

// TimeWithinDay 15.9.1.2
func TimeWithinDay(t float64) float64 { return mod(t, MsPerDay) }

// DaysInYear 15.9.1.3
func DaysInYear(y float64) float64 {
	if mod(y, 4) != 0 {
		return 365
	}
	if mod(y, 100) != 0 {
		return 366
	}
	if mod(y, 400) != 0 {
		return 365
	}
	return 366
}

// DayFromYear 15.9.1.3
func DayFromYear(y float64) float64 {
	return 365*(y-1970) + math.Floor((y-1969)/4) - math.Floor((y-1901)/100) + math.Floor((y-1601)/400)
}

// TimeFromYear 15.9.1.3
func TimeFromYear(y float64) float64 { return MsPerDay * DayFromYear(y) }

// YearFromTime 15.9.1.3: the largest integer y such that TimeFromYear(y) <= t.
func YearFromTime(t float64) float64 {
	// estimate then correct (exact for |t| within the range where doubles hold
	// integers exactly; callers stay within +-1e17).
	y := math.Floor(t/(MsPerDay*365.2425)) + 1970
	for TimeFromYear(y) > t {
		y--
	}
	for TimeFromYear(y+1) <= t {
		y++
	}
	return y
}

// InLeapYear 15.9.1.3
func InLeapYear(t float64) float64 {
	if DaysInYear(YearFromTime(t)) == 366 {
		return 1
	}
	return 0
}

// DayWithinYear 15.9.1.4
func DayWithinYear(t float64) float64 { return Day(t) - DayFromYear(YearFromTime(t)) }

// MonthFromTime 15.9.1.4
func MonthFromTime(t float64) float64 {
	d := DayWithinYear(t)
	l := InLeapYear(t)
	switch {
	case d < 31:
		return 0
	case d < 59+l:
		return 1
	case d < 90+l:
		return 2
	case d < 120+l:
		return 3
	case d < 151+l:
		return 4
	case d < 181+l:
		return 5
	case d < 212+l:
		return 6
	case d < 243+l:
		return 7
	case d < 273+l:
		return 8
	case d < 304+l:
		return 9
	case d < 334+l:
		return 10
	}
	return 11
}

// DateFromTime 15.9.1.5
func DateFromTime(t float64) float64 {
	d := DayWithinYear(t)
	l := InLeapYear(t)
	switch MonthFromTime(t) {
	case 0:
		return d + 1
	case 1:
		return d - 30
	case 2:
		return d - 58 - l
	case 3:
		return d - 89 - l
	case 4:
		return d - 119 - l
	case 5:
		return d - 150 - l
	case 6:
		return d - 180 - l
	case 7:
		return d - 211 - l
	case 8:
		return d - 242 - l
	case 9:
		return d - 272 - l
	case 10:
		return d - 303 - l
	}
	return d - 333 - l
}

// WeekDay 15.9.1.6
func WeekDay(t float64) float64 { return mod(Day(t)+4, 7) }

// HourFromTime etc. 15.9.1.10
// floor(t/msPerHour) modulo 24 etc. depend only on t modulo msPerDay (24, 60
// and 60 divide the day evenly), and on that residue (< 8.64e7) the quotients
// are far from any rounding hazard.
func HourFromTime(t float64) float64 { return math.Floor(TimeWithinDay(t) / MsPerHour) }
func MinFromTime(t float64) float64 {
	return mod(math.Floor(TimeWithinDay(t)/MsPerMinute), 60)
}
func SecFromTime(t float64) float64 {
	return mod(math.Floor(TimeWithinDay(t)/MsPerSecond), 60)
}
func MsFromTime(t float64) float64 { return mod(t, MsPerSecond) }

// MakeTime 15.9.1.11
func MakeTime(hour, min, sec, ms float64) float64 {
	if !finite(hour) || !finite(min) || !finite(sec) || !finite(ms) {
		return NaN
	}
	h, m, s, milli := ToInteger(hour), ToInteger(min), ToInteger(sec), ToInteger(ms)
	return h*MsPerHour + m*MsPerMinute + s*MsPerSecond + milli
}

var cumDays = [2][12]float64{
	{0, 31, 59, 90, 120, 151, 181, 212, 243, 273, 304, 334},
	{0, 31, 60, 91, 121, 152, 182, 213, 244, 274, 305, 335},
}

// MakeDay 15.9.1.12
func MakeDay(year, month, date float64) float64 {
	if !finite(year) || !finite(month) || !finite(date) {
		return NaN
	}
	y, m, dt := ToInteger(year), ToInteger(month), ToInteger(date)
	ym := y + math.Floor(m/12)
	mn := mod(m, 12)
	if math.Abs(ym) > 1e9 { // far outside any representable time value
		return NaN
	}
	leap := 0
	if DaysInYear(ym) == 366 {
		leap = 1
	}
	day := DayFromYear(ym) + cumDays[leap][int(mn)]
	return day + dt - 1
}

// MakeDate 15.9.1.13
func MakeDate(day, time float64) float64 {
	if !finite(day) || !finite(time) {
		return NaN
	}
	return day*MsPerDay + time
}

// TimeClip 15.9.1.14
func TimeClip(t float64) float64 {
	if !finite(t) || math.Abs(t) > 8.64e15 {
		return NaN
	}
	return ToInteger(t) + 0
}

// ISO is 15.9.1.15 as produced by 15.9.5.43 toISOString: YYYY-MM-DDTHH:mm:ss.sssZ
// with the expanded-year form (15.9.1.15.1) +-YYYYYY outside 0..9999.
func ISO(t float64) string {
	y := YearFromTime(t)
	var ys string
	switch {
	case y >= 0 && y <= 9999:
		ys = fmt.Sprintf("%04d", int64(y))
	case y < 0:
		ys = fmt.Sprintf("-%06d", int64(-y))
	default:
		ys = fmt.Sprintf("+%06d", int64(y))
	}
	return fmt.Sprintf("%s-%02d-%02dT%02d:%02d:%02d.%03dZ", ys, int(MonthFromTime(t))+1, int(DateFromTime(t)),
		int(HourFromTime(t)), int(MinFromTime(t)), int(SecFromTime(t)), int(MsFromTime(t)))
}

// ------------------------------------------------------------------ parsing

func digits(s string, i, n int) (int, bool) {
	if i+n > len(s) {
		return 0, false
	}
	v := 0
	for k := 0; k < n; k++ {
		c := s[i+k]
		if c < '0' || c > '9' {
			return 0, false
		}
		v = v*10 + int(c-'0')
	}
	return v, true
}

// ParseISO recognises exactly the ES5.1 15.9.1.15 Date Time String Format
// (date-only forms YYYY, YYYY-MM, YYYY-MM-DD, each optionally followed by
// THH:mm, THH:mm:ss or THH:mm:ss.sss and then an optional Z or +-HH:mm; years
// either YYYY or the expanded form +-YYYYYY of 15.9.1.15.1).
//
// recognised is false when the text is not of that format at all (15.9.4.2
// then allows implementation-specific fallbacks: callers must not compare).
// When the text is of the format but an element is out of its legal range
// (month 00/13, day 00/32 or beyond the month's length, hour 25, 24 with a
// non-zero rest, minute/second 60, offset hour > 23 or minute > 59) t is NaN
// (15.9.1.15 "illegal values ... means that the format String is not a valid
// instance"; 15.9.4.2 "shall cause Date.parse to return NaN"). An absent time
// zone offset is "Z" (ES5.1 15.9.1.15). The result is TimeClip'd.
func ParseISO(s string) (t float64, recognised bool) {
	i := 0
	sign := 1.0
	var year int
	var ok bool
	if len(s) > 0 && (s[0] == '+' || s[0] == '-') {
		if s[0] == '-' {
			sign = -1
		}
		if year, ok = digits(s, 1, 6); !ok {
			return NaN, false
		}
		i = 7
	} else {
		if year, ok = digits(s, 0, 4); !ok {
			return NaN, false
		}
		i = 4
	}
	month, day := 1, 1
	if i < len(s) && s[i] == '-' {
		if month, ok = digits(s, i+1, 2); !ok {
			return NaN, false
		}
		i += 3
		if i < len(s) && s[i] == '-' {
			if day, ok = digits(s, i+1, 2); !ok {
				return NaN, false
			}
			i += 3
		}
	}
	hour, min, sec, ms := 0, 0, 0, 0
	offSign, offH, offM := 1.0, 0, 0
	if i < len(s) {
		if s[i] != 'T' {
			return NaN, false
		}
		if hour, ok = digits(s, i+1, 2); !ok {
			return NaN, false
		}
		if i+3 >= len(s) || s[i+3] != ':' {
			return NaN, false
		}
		if min, ok = digits(s, i+4, 2); !ok {
			return NaN, false
		}
		i += 6
		if i < len(s) && s[i] == ':' {
			if sec, ok = digits(s, i+1, 2); !ok {
				return NaN, false
			}
			i += 3
			if i < len(s) && s[i] == '.' {
				if ms, ok = digits(s, i+1, 3); !ok {
					return NaN, false
				}
				i += 4
			}
		}
		if i < len(s) {
			switch s[i] {
			case 'Z':
				i++
			case '+', '-':
				if s[i] == '-' {
					offSign = -1
				}
				if offH, ok = digits(s, i+1, 2); !ok {
					return NaN, false
				}
				if i+3 >= len(s) || s[i+3] != ':' {
					return NaN, false
				}
				if offM, ok = digits(s, i+4, 2); !ok {
					return NaN, false
				}
				i += 6
			}
		}
		if i != len(s) {
			return NaN, false
		}
	}
	y := sign * float64(year)
	if month < 1 || month > 12 || day < 1 {
		return NaN, true
	}
	leap := 0
	if DaysInYear(y) == 366 {
		leap = 1
	}
	mlen := [2][12]int{
		{31, 28, 31, 30, 31, 30, 31, 31, 30, 31, 30, 31},
		{31, 29, 31, 30, 31, 30, 31, 31, 30, 31, 30, 31},
	}
	if day > mlen[leap][month-1] {
		return NaN, true
	}
	if hour > 24 || min > 59 || sec > 59 || (hour == 24 && (min != 0 || sec != 0 || ms != 0)) {
		return NaN, true
	}
	if offH == 24 && offM <= 59 {
		// HH is "00 to 24" as an element; whether a 24-hour offset is a valid
		// instance is not decided by the text: not compared.
		return NaN, false
	}
	if offH > 24 || offM > 59 {
		return NaN, true
	}
	tv := MakeDate(MakeDay(y, float64(month-1), float64(day)), MakeTime(float64(hour), float64(min), float64(sec), float64(ms)))
	tv -= offSign * (float64(offH)*MsPerHour + float64(offM)*MsPerMinute)
	return TimeClip(tv), true
}
