package refbridge

import (
	"math"
	"reflect"
	"testing"
)

func TestStringToNumber(t *testing.T) {
	// ES5.1 9.3.1 examples and grammar corners
	cases := []struct {
		s string
		f float64
	}{
		{"", 0}, {"   ", 0}, {"12", 12}, {" 12 ", 12}, {"\t\n12\r\n", 12}, {"\u00a012\ufeff", 12}, {"\u20281\u2029", 1},
		{"-1.5", -1.5}, {"+7", 7}, {".5", 0.5}, {"5.", 5}, {"1e3", 1000}, {"1E-2", 0.01}, {"+.5e-3", 0.0005},
		{"0x10", 16}, {"0X1f", 31}, {"Infinity", math.Inf(1)}, {"-Infinity", math.Inf(-1)}, {"+Infinity", math.Inf(1)},
		{"1e1000", math.Inf(1)}, {"-1e1000", math.Inf(-1)}, {"1e-1000", 0}, {"00", 0}, {"010", 10},
		{"9007199254740993", 9007199254740992}, {"0.1", 0.1}, {"123456789012345680000", 123456789012345680000},
		{"4.9e-324", 5e-324}, {"2.4703282292062328e-324", 5e-324}, {"2.4703282292062327e-324", 0},
		{"1.7976931348623157e308", math.MaxFloat64}, {"1.7976931348623159e308", math.Inf(1)},
	}
	for _, c := range cases {
		if got := StringToNumber(c.s); got != c.f {
			t.Errorf("StringToNumber(%q) = %v, want %v", c.s, got, c.f)
		}
	}
	if g := StringToNumber("-0"); g != 0 || !math.Signbit(g) {
		t.Errorf("-0 sign lost")
	}
	if g := StringToNumber("-1e-1000"); g != 0 || !math.Signbit(g) {
		t.Errorf("-1e-1000 should be -0")
	}
	for _, s := range []string{"abc", "12abc", "1 2", "0x", "e5", ".", "+", "-", "infinity", "inf", "1_0", "0x1_0", "-0x10", "+0x10", "1e", "1e+", "NaN", "true", "\u3000x", "1.2.3", "0b11", "0o7", "Infinityx", "0x1p3"} {
		if g := StringToNumber(s); g == g {
			t.Errorf("StringToNumber(%q) = %v, want NaN", s, g)
		}
	}
}

func TestVerifyNumberToString(t *testing.T) {
	good := []struct {
		s string
		f float64
	}{
		{"NaN", math.NaN()}, {"0", 0}, {"0", math.Copysign(0, -1)}, {"Infinity", math.Inf(1)}, {"-Infinity", math.Inf(-1)},
		{"1", 1}, {"-1", -1}, {"123", 123}, {"100", 100}, {"0.5", 0.5}, {"1.5", 1.5}, {"0.1", 0.1}, {"0.000001", 0.000001}, {"1e-7", 1e-7}, {"1.5e-7", 1.5e-7},
		{"1e+21", 1e21}, {"100000000000000000000", 1e20}, {"123456789012345680000", 123456789012345680000}, {"1.2345678901234568e+21", 1.2345678901234568e21},
		{"5e-324", 5e-324}, {"1.7976931348623157e+308", math.MaxFloat64}, {"9007199254740992", 1 << 53}, {"0.30000000000000004", 0.30000000000000004},
		{"18446744073709552000", 18446744073709551616}, {"4294967296", 4294967296}, {"-2147483648", -2147483648},
		// 9.8.1 step 5 allows any s with the right Number value and minimal k
		{"9007199254740993", 9007199254740992},
	}
	for _, c := range good {
		if err := VerifyNumberToString(c.s, c.f); err != nil {
			t.Errorf("VerifyNumberToString(%q, %v): unexpected %v", c.s, c.f, err)
		}
	}
	bad := []struct {
		s string
		f float64
	}{
		{"-0", math.Copysign(0, -1)}, {"+Inf", math.Inf(1)}, {"1e21", 1e21}, {"1e+021", 1e21}, {"1.0", 1}, {"1e-07", 1e-7}, {"0.0000001", 1e-7}, {"1e-6", 0.000001},
		{"1000000000000000000000", 1e21}, {"18446744073709551615", 18446744073709551616}, {"0.10000000000000001", 0.1}, {"0.1", 0.2}, {"1", -1}, {"-1", 1},
		{"9.999999999999999e+20", 999999999999999900000}, {"01", 1}, {".5", 0.5}, {"5.", 5}, {"1.50", 1.5}, {"4.51e+02", 451}, {"1E+21", 1e21},
		{"9223372036854775807", 9223372036854775808},
	}
	for _, c := range bad {
		if err := VerifyNumberToString(c.s, c.f); err == nil {
			t.Errorf("VerifyNumberToString(%q, %v): accepted", c.s, c.f)
		}
	}
}

func TestToIntegerClamp(t *testing.T) {
	cases := []struct {
		f float64
		i int64
	}{{math.NaN(), 0}, {1.9, 1}, {-1.9, -1}, {math.Inf(1), math.MaxInt64}, {math.Inf(-1), math.MinInt64}, {9223372036854775808, math.MaxInt64}, {-9223372036854775808, math.MinInt64}, {9223372036854774784, 9223372036854774784}, {1e300, math.MaxInt64}, {-0.5, 0}}
	for _, c := range cases {
		if g := ToIntegerClamp(c.f); g != c.i {
			t.Errorf("ToIntegerClamp(%v)=%d want %d", c.f, g, c.i)
		}
	}
}

func TestRoundFloat32(t *testing.T) {
	for _, f := range []float64{0.1, 16777217, 1e-46, 3.4028235677973366e38, 3.4028234663852886e38, 1e39, 1.401298464324817e-45, 7.006492321624085e-46, 7.006492321624087e-46, -0.3, 1e-40} {
		if g, w := RoundFloat32(f), float32(f); g != w {
			t.Errorf("RoundFloat32(%v)=%v want %v", f, g, w)
		}
	}
	if g := RoundFloat32(math.Copysign(0, -1)); !math.Signbit(float64(g)) {
		t.Error("-0")
	}
	if g := RoundFloat32(-1e-60); g != 0 || !math.Signbit(float64(g)) {
		t.Error("-tiny must round to -0")
	}
}

func TestJSON(t *testing.T) {
	n, err := ParseJSON(` {"a":[1,-0,2.5e3,"x\u00e9\ud83d\ude00\n",null,true,false,{}],"b":{"c":[]}} `)
	if err != nil {
		t.Fatal(err)
	}
	if n.Kind != 'o' || len(n.Keys) != 2 || n.Vals[0].Arr[3].Str != "x\u00e9\U0001F600\n" {
		t.Fatalf("bad parse %+v", n)
	}
	r, neg := n.Vals[0].Arr[1].Rat()
	if r.Sign() != 0 || !neg {
		t.Error("-0")
	}
	r, _ = n.Vals[0].Arr[2].Rat()
	if r.Num().Int64() != 2500 || !r.IsInt() {
		t.Error("2.5e3")
	}
	for _, bad := range []string{"", "undefined", "{a:1}", "[1,]", "01", "1.", ".5", "'a'", "[1 2]", "\"\\x\"", "nul", "1e", "-", "{\"a\":1,}", "[1]x", "\"\x01\""} {
		if _, err := ParseJSON(bad); err == nil {
			t.Errorf("ParseJSON(%q) accepted", bad)
		}
	}
}

func TestBuildCanonMatch(t *testing.T) {
	g := GV{T: "S1", E: []GV{
		GInt64("int", 5), GStr("string", "x"), GInt64("int", 9),
		{T: "Inner", E: []GV{GInt64("int", 3), GStr("string", "w")}},
		GPtr("*Inner", GV{T: "Inner", E: []GV{GInt64("int", 1), GStr("string", "")}}),
		GFloat("float32", 0.5), GInt64("uint8", 255), GUint64("uint64", math.MaxUint64),
		GSeq("[]int", GInt64("int", 1)), GMap("map[string]int", []string{"k"}, []GV{GInt64("int", 2)}),
		GStr("string", "dyn"), GInt64("int", 4), GFloat("float64", 0),
	}}
	v, err := Build(g)
	if err != nil {
		t.Fatal(err)
	}
	s := v.Interface().(S1)
	if s.A != 5 || s.B != "x" || s.c != 9 || s.Z != 3 || s.P.Z != 1 || s.F != 0.5 || s.U64 != math.MaxUint64 || s.L[0] != 1 || s.M["k"] != 2 || s.X != "dyn" || s.H != 4 {
		t.Fatalf("bad build %+v", s)
	}
	want := `S1{A:int:5,B:string:"x",c:int:9,Inner:Inner{Z:int:3,W:string:"w"},P:&Inner{Z:int:1,W:string:""},F:float32:0.5,U8:uint8:255,U64:uint64:18446744073709551615,L:[]int[int:1],M:map[string]int{string:"k"=>int:2},X:string:"dyn",H:int:4,N:float64:0}`
	if c := Canon(s); c != want {
		t.Errorf("Canon = %s", c)
	}
	n, err := ParseJSON(`{"A":5,"bee":"x","Z":3,"w":"w","P":{"Z":1,"w":""},"F":0.5,"U8":255,"U64":18446744073709551615,"L":[1],"M":{"k":2},"X":"dyn"}`)
	if err != nil {
		t.Fatal(err)
	}
	if err := MatchJSON(n, reflect.ValueOf(s), "$"); err != nil {
		t.Error(err)
	}
	n2, _ := ParseJSON(`{"A":5,"bee":"x","Z":3,"w":"w","P":{"Z":1,"w":""},"F":0.5,"U8":255,"U64":18446744073709551616,"L":[1],"M":{"k":2},"X":"dyn"}`)
	if err := MatchJSON(n2, reflect.ValueOf(s), "$"); err == nil {
		t.Error("U64 off by one accepted")
	}
	if Canon([]int(nil)) == Canon([]int{}) || Canon(math.Copysign(0, -1)) == Canon(0.0) || Canon(int8(1)) == Canon(int16(1)) {
		t.Error("Canon not injective enough")
	}
	if Canon(math.NaN()) != Canon(math.NaN()) {
		t.Error("NaN")
	}
	if ValCanon([]int64{1, 2}) != ValCanon([]interface{}{1.0, uint8(2)}) {
		t.Error("ValCanon must ignore numeric types")
	}
	if ValCanon([]interface{}{nil, map[string]interface{}{"a": "b"}}) != JArr(JNull(), JObj([]string{"a"}, []JV{JStr("b")})).ValCanon() {
		t.Error("ValCanon/JV mismatch")
	}
}

func TestJSSource(t *testing.T) {
	if JSNum(0.1) != "(3602879701896397/4503599627370496/8)" {
		t.Errorf("JSNum(0.1)=%s", JSNum(0.1))
	}
	if JSNum(-5) != "(-5)" || JSNum(math.Copysign(0, -1)) != "(-0)" || JSNum(1<<53) != "(1*4503599627370496*2)" {
		t.Errorf("JSNum ints: %s %s", JSNum(-5), JSNum(1<<53))
	}
	if JSStr("a\"\\\x00\u00e9\U0001F600") != "\"a\\\"\\\\\\u0000\\u00E9\U0001F600\"" {
		t.Errorf("JSStr: %s", JSStr("a\"\\\x00\u00e9\U0001F600"))
	}
	if s := JArr(JNum(1), JV{K: "hole"}, JNum(3)).Src(); s != "[1,,3]" {
		t.Error(s)
	}
	if s := JArr(JNum(1), JV{K: "hole"}).Src(); s != "[1,,]" {
		t.Error(s)
	}
}

func TestGVOfRoundTrip(t *testing.T) {
	s := S1{A: 5, B: "x", c: 2, Inner: Inner{Z: 1, W: "w"}, P: &Inner{Z: 2}, F: 0.5, U8: 9, U64: 1 << 63, L: []int{1}, M: map[string]int{"k": 1}, X: []interface{}{1.5, nil, "s"}, H: 3}
	g := GVOf(reflect.ValueOf(s))
	v, err := Build(g)
	if err != nil {
		t.Fatal(err)
	}
	if Canon(v.Interface()) != Canon(s) {
		t.Errorf("%s != %s", Canon(v.Interface()), Canon(s))
	}
	m := map[int]string{3: "a", -1: "b"}
	v2, _ := Build(GVOf(reflect.ValueOf(m)))
	if Canon(v2.Interface()) != Canon(m) {
		t.Error("map[int]")
	}
}
