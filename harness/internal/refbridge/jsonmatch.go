package refbridge

import (
	"encoding/base64"
	"fmt"
	"math"
	"math/big"
	"reflect"
	"sort"
	"strings"
)

// MatchJSON checks that a parsed JSON text denotes the Go value v under Go's
// documented JSON conventions (struct tags, promoted embedded fields,
// unexported fields hidden, "-" and omitempty, []byte as base64, nil
// slice/map/pointer as null, integer map keys as decimal strings). Numbers
// must be exact for integer types and must round to the same value at the
// precision of the Go type for floats. Nil slices and maps may also be
// written [] / {} (the script-visible form of an empty container).
func MatchJSON(n JNode, v reflect.Value, path string) error {
	if !v.IsValid() {
		if n.Kind != 'z' {
			return fmt.Errorf("%s: want null", path)
		}
		return nil
	}
	switch v.Kind() {
	case reflect.Interface, reflect.Ptr:
		if v.IsNil() {
			if n.Kind != 'z' {
				return fmt.Errorf("%s: want null for nil", path)
			}
			return nil
		}
		return MatchJSON(n, v.Elem(), path)
	case reflect.Bool:
		if (n.Kind == 't') != v.Bool() || (n.Kind != 't' && n.Kind != 'f') {
			return fmt.Errorf("%s: want %v", path, v.Bool())
		}
		return nil
	case reflect.Int, reflect.Int8, reflect.Int16, reflect.Int32, reflect.Int64,
		reflect.Uint, reflect.Uint8, reflect.Uint16, reflect.Uint32, reflect.Uint64:
		if n.Kind != '#' {
			return fmt.Errorf("%s: want a number", path)
		}
		var want *big.Int
		if v.CanInt() {
			want = big.NewInt(v.Int())
		} else {
			want = new(big.Int).SetUint64(v.Uint())
		}
		r, _ := n.Rat()
		if !r.IsInt() || r.Num().Cmp(want) != 0 {
			return fmt.Errorf("%s: want %s, JSON has %s", path, want, n.Raw)
		}
		return nil
	case reflect.Float32, reflect.Float64:
		f := v.Float()
		if f != f || math.IsInf(f, 0) {
			return fmt.Errorf("%s: non-finite float has no JSON form (got %s)", path, n.Raw)
		}
		if n.Kind != '#' {
			return fmt.Errorf("%s: want a number", path)
		}
		r, _ := n.Rat()
		var got float64
		if v.Kind() == reflect.Float32 {
			got = float64(NearestFloat32(r))
		} else {
			got = NearestFloat64(r)
		}
		if got != f {
			return fmt.Errorf("%s: want %v, JSON %s denotes %v", path, f, n.Raw, got)
		}
		return nil
	case reflect.String:
		if n.Kind != 's' || n.Str != v.String() {
			return fmt.Errorf("%s: want string %q, got %q", path, v.String(), n.Str)
		}
		return nil
	case reflect.Slice:
		if v.IsNil() {
			if n.Kind == 'z' || (n.Kind == 'a' && len(n.Arr) == 0) {
				return nil
			}
			return fmt.Errorf("%s: want null or [] for a nil slice", path)
		}
		if v.Type().Elem().Kind() == reflect.Uint8 && n.Kind == 's' {
			b, err := base64.StdEncoding.DecodeString(n.Str)
			if err != nil || string(b) != string(v.Bytes()) {
				return fmt.Errorf("%s: base64 text does not denote the bytes", path)
			}
			return nil
		}
		fallthrough
	case reflect.Array:
		if n.Kind != 'a' || len(n.Arr) != v.Len() {
			return fmt.Errorf("%s: want an array of %d elements", path, v.Len())
		}
		for i := 0; i < v.Len(); i++ {
			if err := MatchJSON(n.Arr[i], v.Index(i), fmt.Sprintf("%s[%d]", path, i)); err != nil {
				return err
			}
		}
		return nil
	case reflect.Map:
		if v.IsNil() {
			if n.Kind == 'z' || (n.Kind == 'o' && len(n.Keys) == 0) {
				return nil
			}
			return fmt.Errorf("%s: want null or {} for a nil map", path)
		}
		want := map[string]reflect.Value{}
		it := v.MapRange()
		for it.Next() {
			var k string
			if it.Key().Kind() == reflect.String {
				k = it.Key().String()
			} else if it.Key().CanInt() {
				k = big.NewInt(it.Key().Int()).String()
			} else {
				return fmt.Errorf("%s: unsupported key kind", path)
			}
			want[k] = it.Value()
		}
		return matchObject(n, want, path)
	case reflect.Struct:
		want := map[string]reflect.Value{}
		structFields(v, want)
		return matchObject(n, want, path)
	}
	return fmt.Errorf("%s: unsupported kind %s", path, v.Kind())
}

func matchObject(n JNode, want map[string]reflect.Value, path string) error {
	if n.Kind != 'o' {
		return fmt.Errorf("%s: want an object", path)
	}
	seen := map[string]bool{}
	for i, k := range n.Keys {
		if seen[k] {
			return fmt.Errorf("%s: duplicate key %q", path, k)
		}
		seen[k] = true
		w, ok := want[k]
		if !ok {
			return fmt.Errorf("%s: unexpected key %q", path, k)
		}
		if err := MatchJSON(n.Vals[i], w, path+"."+k); err != nil {
			return err
		}
	}
	var missing []string
	for k := range want {
		if !seen[k] {
			missing = append(missing, k)
		}
	}
	if len(missing) > 0 {
		sort.Strings(missing)
		return fmt.Errorf("%s: missing keys %v", path, missing)
	}
	return nil
}

func isZero(v reflect.Value) bool {
	switch v.Kind() {
	case reflect.Slice, reflect.Map, reflect.String, reflect.Array:
		return v.Len() == 0
	case reflect.Bool:
		return !v.Bool()
	case reflect.Int, reflect.Int8, reflect.Int16, reflect.Int32, reflect.Int64:
		return v.Int() == 0
	case reflect.Uint, reflect.Uint8, reflect.Uint16, reflect.Uint32, reflect.Uint64:
		return v.Uint() == 0
	case reflect.Float32, reflect.Float64:
		return v.Float() == 0
	case reflect.Interface, reflect.Ptr:
		return v.IsNil()
	}
	return false
}

// structFields collects the JSON-visible fields of a struct (Go's documented
// rules; no name-conflict resolution is needed for the fixed struct family).
func structFields(v reflect.Value, out map[string]reflect.Value) {
	t := v.Type()
	for i := 0; i < t.NumField(); i++ {
		f := t.Field(i)
		tag := f.Tag.Get("json")
		if tag == "-" {
			continue
		}
		name, opts, _ := strings.Cut(tag, ",")
		if f.Anonymous && name == "" && f.Type.Kind() == reflect.Struct {
			structFields(v.Field(i), out)
			continue
		}
		if f.PkgPath != "" {
			continue
		}
		if name == "" {
			name = f.Name
		}
		if strings.Contains(opts, "omitempty") && isZero(v.Field(i)) {
			continue
		}
		out[name] = v.Field(i)
	}
}
