// Package refbridge is the otto-free side of the C15/C16 monitors: a
// JSON-serialisable description of Go values (GV) and JavaScript values (JV),
// builders that turn a description into the real Go value / JavaScript source,
// canonical renderings used for comparison, exact (math/big) numeric
// conversions written from ES5.1 clause 9, a verifier for ES5 9.8.1
// Number-to-String results, and a tiny JSON reader. It does not import otto
// and does not use strconv float formatting/parsing or encoding/json for any
// oracle decision.
package refbridge

import (
	"fmt"
	"reflect"
	"strconv"
	"strings"
)

// Inner is embedded in S1.
type Inner struct {
	Z int
	W string `json:"w"`
}

// S1 is the struct family member used by both checks: plain field, json tag,
// unexported field, embedded struct, pointer field, narrow numeric fields,
// slice/map/interface fields, a json:"-" field and an omitempty field.
type S1 struct {
	A int
	B string `json:"bee"`
	c int
	Inner
	P   *Inner
	F   float32
	U8  uint8
	U64 uint64
	L   []int
	M   map[string]int
	X   interface{}
	H   int     `json:"-"`
	N   float64 `json:"n,omitempty"`
}

// Get is a value-receiver method.
func (s S1) Get() int { return s.A }

// Add is a value-receiver method with a narrow parameter.
func (s S1) Add(d int8) int { return s.A + int(d) }

// Inc is a pointer-receiver method mutating the struct.
func (s *S1) Inc() int { s.A++; return s.A }

// Hidden returns the unexported field (Go-side observation only).
func Hidden(s *S1) int { return s.c }

// Named scalar types.
type (
	MyInt  int
	MyI8   int8
	MyU16  uint16
	MyStr  string
	MyF32  float32
	MyF64  float64
	MyBool bool
)

var baseTypes = map[string]reflect.Type{
	"bool":    reflect.TypeOf(false),
	"int":     reflect.TypeOf(int(0)),
	"int8":    reflect.TypeOf(int8(0)),
	"int16":   reflect.TypeOf(int16(0)),
	"int32":   reflect.TypeOf(int32(0)),
	"int64":   reflect.TypeOf(int64(0)),
	"uint":    reflect.TypeOf(uint(0)),
	"uint8":   reflect.TypeOf(uint8(0)),
	"uint16":  reflect.TypeOf(uint16(0)),
	"uint32":  reflect.TypeOf(uint32(0)),
	"uint64":  reflect.TypeOf(uint64(0)),
	"float32": reflect.TypeOf(float32(0)),
	"float64": reflect.TypeOf(float64(0)),
	"string":  reflect.TypeOf(""),
	"any":     reflect.TypeOf((*interface{})(nil)).Elem(),
	"S1":      reflect.TypeOf(S1{}),
	"Inner":   reflect.TypeOf(Inner{}),
	"MyInt":   reflect.TypeOf(MyInt(0)),
	"MyI8":    reflect.TypeOf(MyI8(0)),
	"MyU16":   reflect.TypeOf(MyU16(0)),
	"MyStr":   reflect.TypeOf(MyStr("")),
	"MyF32":   reflect.TypeOf(MyF32(0)),
	"MyF64":   reflect.TypeOf(MyF64(0)),
	"MyBool":  reflect.TypeOf(MyBool(false)),
}

// IntKinds lists the ten integer type names.
var IntKinds = []string{"int", "int8", "int16", "int32", "int64", "uint", "uint8", "uint16", "uint32", "uint64"}

// ParseType turns a type expression ("[]int8", "[3]string", "map[string]any",
// "*S1", "map[int]string", ...) into a reflect.Type.
func ParseType(expr string) (reflect.Type, error) {
	if t, ok := baseTypes[expr]; ok {
		return t, nil
	}
	switch {
	case strings.HasPrefix(expr, "[]"):
		e, err := ParseType(expr[2:])
		if err != nil {
			return nil, err
		}
		return reflect.SliceOf(e), nil
	case strings.HasPrefix(expr, "*"):
		e, err := ParseType(expr[1:])
		if err != nil {
			return nil, err
		}
		return reflect.PointerTo(e), nil
	case strings.HasPrefix(expr, "map["):
		i := strings.Index(expr, "]")
		if i < 0 {
			break
		}
		k, err := ParseType(expr[4:i])
		if err != nil {
			return nil, err
		}
		e, err := ParseType(expr[i+1:])
		if err != nil {
			return nil, err
		}
		return reflect.MapOf(k, e), nil
	case strings.HasPrefix(expr, "["):
		i := strings.Index(expr, "]")
		if i < 0 {
			break
		}
		n, err := strconv.Atoi(expr[1:i])
		if err != nil {
			return nil, err
		}
		e, err := ParseType(expr[i+1:])
		if err != nil {
			return nil, err
		}
		return reflect.ArrayOf(n, e), nil
	}
	return nil, fmt.Errorf("refbridge: unknown type expression %q", expr)
}

// MustType is ParseType that panics.
func MustType(expr string) reflect.Type {
	t, err := ParseType(expr)
	if err != nil {
		panic(err)
	}
	return t
}

// ElemExpr returns the element type expression of "[]T", "[N]T", "map[K]T", "*T".
func ElemExpr(expr string) string {
	switch {
	case strings.HasPrefix(expr, "[]"):
		return expr[2:]
	case strings.HasPrefix(expr, "*"):
		return expr[1:]
	case strings.HasPrefix(expr, "map["), strings.HasPrefix(expr, "["):
		return expr[strings.Index(expr, "]")+1:]
	}
	return ""
}

// KeyExpr returns K of "map[K]T".
func KeyExpr(expr string) string {
	if strings.HasPrefix(expr, "map[") {
		return expr[4:strings.Index(expr, "]")]
	}
	return ""
}

// ArrayLen returns N of "[N]T" (-1 if not an array expression).
func ArrayLen(expr string) int {
	if strings.HasPrefix(expr, "[") && !strings.HasPrefix(expr, "[]") {
		n, err := strconv.Atoi(expr[1:strings.Index(expr, "]")])
		if err == nil {
			return n
		}
	}
	return -1
}
