package refbridge

import (
	"math"
	"math/big"

	"verif/internal/gen"
)

// IntRange returns the inclusive range of an integer type name (int and uint
// are 64 bits wide on the platforms the harness runs on).
func IntRange(t string) (lo, hi *big.Int) {
	two := big.NewInt(2)
	p := func(n int64) *big.Int { return new(big.Int).Exp(two, big.NewInt(n), nil) }
	switch t {
	case "int8", "MyI8":
		return new(big.Int).Neg(p(7)), new(big.Int).Sub(p(7), big.NewInt(1))
	case "int16":
		return new(big.Int).Neg(p(15)), new(big.Int).Sub(p(15), big.NewInt(1))
	case "int32":
		return new(big.Int).Neg(p(31)), new(big.Int).Sub(p(31), big.NewInt(1))
	case "int", "int64", "MyInt":
		return new(big.Int).Neg(p(63)), new(big.Int).Sub(p(63), big.NewInt(1))
	case "uint8":
		return big.NewInt(0), new(big.Int).Sub(p(8), big.NewInt(1))
	case "uint16", "MyU16":
		return big.NewInt(0), new(big.Int).Sub(p(16), big.NewInt(1))
	case "uint32":
		return big.NewInt(0), new(big.Int).Sub(p(32), big.NewInt(1))
	case "uint", "uint64":
		return big.NewInt(0), new(big.Int).Sub(p(64), big.NewInt(1))
	}
	return nil, nil
}

// IsIntType reports whether t names an integer type of the family.
func IsIntType(t string) bool { lo, _ := IntRange(t); return lo != nil }

// IsFloatType reports whether t names a float type of the family.
func IsFloatType(t string) bool {
	switch t {
	case "float32", "float64", "MyF32", "MyF64":
		return true
	}
	return false
}

// IsFloat32Type reports whether t is a 32-bit float type.
func IsFloat32Type(t string) bool { return t == "float32" || t == "MyF32" }

// GenIntIn draws a boundary-directed integer of the named type.
func GenIntIn(r *gen.Rand, t string) *big.Int {
	lo, hi := IntRange(t)
	clampOK := func(x *big.Int) bool { return x.Cmp(lo) >= 0 && x.Cmp(hi) <= 0 }
	two := big.NewInt(2)
	p := func(n int64) *big.Int { return new(big.Int).Exp(two, big.NewInt(n), nil) }
	for {
		var x *big.Int
		switch r.Intn(14) {
		case 0:
			x = big.NewInt(0)
		case 1:
			x = big.NewInt(1)
		case 2:
			x = big.NewInt(-1)
		case 3:
			x = new(big.Int).Set(lo)
		case 4:
			x = new(big.Int).Set(hi)
		case 5:
			x = new(big.Int).Sub(hi, big.NewInt(int64(r.Range(1, 2))))
		case 6:
			x = new(big.Int).Add(lo, big.NewInt(int64(r.Range(1, 2))))
		case 7: // around 2^53
			x = new(big.Int).Add(p(53), big.NewInt(int64(r.Range(-2, 3))))
			if r.Bool() {
				x.Neg(x)
			}
		case 8: // around a power of two
			x = new(big.Int).Add(p(int64([]int{7, 8, 15, 16, 31, 32, 52, 62, 63}[r.Intn(9)])), big.NewInt(int64(r.Range(-2, 2))))
			if r.Chance(1, 3) {
				x.Neg(x)
			}
		case 9: // large odd values not representable as doubles
			x = new(big.Int).Add(p(int64(r.Range(54, 63))), big.NewInt(int64(2*r.Range(0, 500)+1)))
			if r.Chance(1, 3) {
				x.Neg(x)
			}
		case 10:
			x = big.NewInt(int64(r.Range(-300, 300)))
		default:
			x = new(big.Int).SetUint64(r.Uint64() >> uint(r.Intn(64)))
			if r.Bool() {
				x.Neg(x)
			}
		}
		if clampOK(x) {
			return x
		}
	}
}

var float64Boundary = []float64{
	0, math.Copysign(0, -1), 1, -1, 0.5, -0.5, 1.5, -1.5, 0.1, -0.1, 2.5, 1e-7, 1e-6, 0.000001234, 1e21, 1e20, 123456789012345680000, 999999999999999900000,
	math.MaxFloat64, -math.MaxFloat64, math.SmallestNonzeroFloat64, -math.SmallestNonzeroFloat64, 2.2250738585072014e-308, 2.225073858507201e-308,
	1 << 53, 1<<53 + 2, -(1 << 53), 1<<53 - 1, 9223372036854775808, -9223372036854775808, 9223372036854774784, 18446744073709551616, 18446744073709549568, 9223372036854777856,
	2147483647, 2147483648, -2147483648, -2147483649, 4294967295, 4294967296, 255, 256, -129, 127, 128, 65535, 65536, 32767, -32769,
	16777216, 16777217, 3.4028234663852886e38, 3.4028235677973366e38, 1e39, 1e-46, 1e-45, 1.401298464324817e-45, 1e-40, 1.1754943508222875e-38,
	0.30000000000000004, 5e-324, 1.7976931348623157e308, 4.35, 0.000035, 1e300, -1e300, 100, 1e15, 123456.789,
}

// GenFloat64 draws a double from the boundary set, the special values or a
// random bit pattern.
func GenFloat64(r *gen.Rand) float64 {
	switch r.Intn(10) {
	case 0:
		return math.NaN()
	case 1:
		if r.Bool() {
			return math.Inf(1)
		}
		return math.Inf(-1)
	case 2, 3:
		f := r.Bits()
		if f != f {
			return 0.75
		}
		return f
	case 4:
		return float64(r.Range(-1000, 1000)) + []float64{0, 0.5, 0.25, -0.5, 0.1}[r.Intn(5)]
	}
	return float64Boundary[r.Intn(len(float64Boundary))]
}

// GenFloat32 draws a float32 (returned widened).
func GenFloat32(r *gen.Rand) float64 {
	switch r.Intn(8) {
	case 0:
		return math.NaN()
	case 1:
		if r.Bool() {
			return math.Inf(1)
		}
		return math.Inf(-1)
	case 2, 3:
		f := math.Float32frombits(uint32(r.Uint64()))
		if f != f {
			return 0.75
		}
		return float64(f)
	}
	b := []float32{0, float32(math.Copysign(0, -1)), 1, -1, 0.5, 0.1, -0.1, 1.5, 16777216, 16777215, math.MaxFloat32, -math.MaxFloat32, math.SmallestNonzeroFloat32, 1e-40, 1.17549435e-38, 3.14159, 1e10, 1e21, 1e-7, 255, 65536, 2147483648, 0.3}
	return float64(b[r.Intn(len(b))])
}

var stringBoundary = []string{
	"", "a", "abc", "Nothing happens.", "12", " 12 ", "-1.5", "+7", "0x10", "0X1f", "1e3", "1E-2", ".5", "5.", "Infinity", "-Infinity", "+Infinity", "NaN", "true", "false", "null", "undefined",
	"0", "-0", "00", "1e1000", "-1e-1000", "9007199254740993", "12abc", "1 2", "0x", "e5", ".", "+", "-", "\t\n12\r\n", "\u00a012\ufeff", "\u20281\u2029",
	"\u00e9", "\u65e5\u672c\u8a9e", "\U0001F600", "a\U0001F600b", "\U00010000", "\U0010FFFF", "a\x00b", "\x00", "\"quoted\"", "back\\slash", "line\nbreak", "tab\there", "\u2028\u2029", "<>&", "\x7f", "\uffff", "\ufffd",
	"length", "__proto__", "toString", "constructor", "01", "1.0", "4294967295", "-1",
}

// GenString draws a valid UTF-8 string.
func GenString(r *gen.Rand) string {
	switch r.Intn(8) {
	case 0:
		n := r.Range(1, 12)
		rs := make([]rune, n)
		for i := range rs {
			switch r.Intn(6) {
			case 0:
				rs[i] = rune(r.Range(0, 0x7f))
			case 1:
				rs[i] = rune(r.Range(0x80, 0x7ff))
			case 2:
				rs[i] = rune(r.Range(0x800, 0xd7ff))
			case 3:
				rs[i] = rune(r.Range(0xe000, 0xffff))
			case 4:
				rs[i] = rune(r.Range(0x10000, 0x10ffff))
			default:
				rs[i] = rune(r.Range('a', 'z'))
			}
		}
		return string(rs)
	case 1:
		n := r.Range(1, 40)
		b := make([]byte, n)
		for i := range b {
			b[i] = byte(r.Range(' ', '~'))
		}
		return string(b)
	}
	return stringBoundary[r.Intn(len(stringBoundary))]
}

// SafeKey draws an object key that is not an array index, not a reserved
// property of Object.prototype and not empty.
func SafeKey(r *gen.Rand) string {
	keys := []string{"a", "b", "c", "key", "x1", "Z", "alpha", "\u00e9", "k_2", "with space", "$", "\U0001F600", "A", "bee", "n"}
	return keys[r.Intn(len(keys))]
}
