package refbridge

import (
	"math/big"
	"reflect"
	"strings"
)

// Counterpart returns the double a Go number (described by g) denotes in
// JavaScript: the value itself for floats, the nearest double for integers.
func Counterpart(g GV) float64 {
	if IsIntType(g.T) {
		return NearestFloat64(new(big.Rat).SetInt(g.Int()))
	}
	return g.Float()
}

// JSLit renders the JavaScript value a bridged Go value is expected to look
// like to scripts, as source text built from exact literals: numbers as their
// double counterpart, nil (interface, pointer) as null, slices/arrays as array
// literals (nil slice = []), maps as object literals, pointers as their
// pointee, structs as an object literal of the exported Go field names marked
// __struct:1 (strict: any other enumerable key must be a method) or
// __struct:2 (lenient: other keys are ignored).
func JSLit(g GV, lenientStructs bool) string {
	switch {
	case g.T == "nil" || g.Nil && g.Kind() == reflect.Ptr:
		return "null"
	case g.T == "bool" || g.T == "MyBool":
		if g.B {
			return "true"
		}
		return "false"
	case IsIntType(g.T) || IsFloatType(g.T):
		return JSNum(Counterpart(g))
	case g.T == "string" || g.T == "MyStr":
		return JSStr(g.S)
	}
	switch g.Kind() {
	case reflect.Slice, reflect.Array:
		p := make([]string, len(g.E))
		for i, e := range g.E {
			p[i] = JSLit(e, lenientStructs)
		}
		return "[" + strings.Join(p, ",") + "]"
	case reflect.Map:
		p := make([]string, len(g.E))
		for i, e := range g.E {
			p[i] = JSStr(g.K[i]) + ":" + JSLit(e, lenientStructs)
		}
		return "({" + strings.Join(p, ",") + "})"
	case reflect.Ptr:
		return JSLit(g.E[0], lenientStructs)
	case reflect.Struct:
		t := MustType(g.T)
		p := []string{"__struct:1"}
		if lenientStructs {
			p[0] = "__struct:2"
		}
		for i, e := range g.E {
			f := t.Field(i)
			if f.PkgPath != "" && !f.Anonymous || f.Name == "H" {
				continue
			}
			p = append(p, f.Name+":"+JSLit(e, lenientStructs))
		}
		return "({" + strings.Join(p, ",") + "})"
	}
	return "null"
}

// Prologue defines the in-language helpers shared by the C15/C16 monitors:
// __eq(a, literal) deep strict equality (NaN equal to NaN, -0 distinct from 0,
// undefined and null both match a null literal, bridged slices/arrays match
// array literals), __desc(v) a type-faithful description, __cls(e) the class
// of a caught exception.
const Prologue = `
var __global = this;
function __isSeq(v){ var c = Object.prototype.toString.call(v); return c === "[object Array]" || c === "[object GoSlice]" || c === "[object GoArray]"; }
function __eqn(a,b){ return (a!==a && b!==b) || (a===b && (a!==0 || 1/a===1/b)); }
function __eq(a,b){
  if (b === null) return a === null || a === undefined;
  if (typeof b === "number") return typeof a === "number" && __eqn(a,b);
  if (typeof b !== "object") return a === b;
  if (typeof a !== "object" || a === null) return false;
  var i, k;
  if (Object.prototype.toString.call(b) === "[object Array]") {
    if (!__isSeq(a) || a.length !== b.length) return false;
    for (i=0;i<b.length;i++) if (!__eq(a[i], b[i])) return false;
    return Object.keys(a).length === b.length;
  }
  if (__isSeq(a)) return false;
  var st = b.__struct, kb = Object.keys(b), ka = Object.keys(a);
  for (i=0;i<kb.length;i++){ k = kb[i]; if (k === "__struct") continue; if (!(k in a)) return false; if (!__eq(a[k], b[k])) return false; }
  if (st === 2) return true;
  for (i=0;i<ka.length;i++){ k = ka[i]; if (!Object.prototype.hasOwnProperty.call(b,k)) { if (st === 1 && (typeof a[k] === "function" || k === "H")) continue; return false; } }
  return true;
}
function __desc(v, d){
  d = d||0; if (d>6) return "<deep>";
  var t = typeof v;
  if (v === undefined) return "undefined"; if (v === null) return "null";
  if (t === "number") return v!==v ? "NaN" : (v===0 ? (1/v<0?"-0":"0") : "n" + v);
  if (t === "string") return JSON.stringify(v);
  if (t === "boolean") return String(v);
  if (t === "function") return "function";
  var c = Object.prototype.toString.call(v), i, p=[];
  if (v === __global) return "global";
  if (__isSeq(v)) { for(i=0;i<v.length;i++) p.push(__desc(v[i],d+1)); return c.slice(8,-1)+"["+p.join(",")+"]"; }
  if (c === "[object Number]" || c==="[object String]" || c==="[object Boolean]" || c==="[object Date]") return c.slice(8,-1)+"("+__desc(v.valueOf(),d+1)+")";
  var ks = Object.keys(v).sort(); for(i=0;i<ks.length;i++) p.push(ks[i]+":"+__desc(v[ks[i]],d+1));
  return c.slice(8,-1)+"{"+p.join(",")+"}";
}
function __cls(e){ return (e instanceof TypeError) ? "TypeError" : (e instanceof RangeError) ? "RangeError" : (e instanceof Error) ? ("Error:" + e.name) : ("nonerror:" + (typeof e) + ":" + String(e)); }
`
