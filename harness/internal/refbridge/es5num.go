package refbridge

import (
	"errors"
	"fmt"
	"math"
	"math/big"
	"strings"
)

// ---------------------------------------------------------------- exact numbers

// RatOfFloat returns the exact rational value of a finite double.
func RatOfFloat(f float64) *big.Rat {
	r := new(big.Rat)
	if r.SetFloat64(f) == nil {
		return nil
	}
	return r
}

// pow10 returns 10^n as a big.Int (n >= 0).
func pow10(n int) *big.Int {
	return new(big.Int).Exp(big.NewInt(10), big.NewInt(int64(n)), nil)
}

// decimalToRat returns digits * 10^exp exactly (digits is a non-empty string of
// decimal digits). ok is false when the magnitude of exp is beyond anything a
// double can distinguish; in that case huge reports whether the value is
// astronomically large (else astronomically small or zero).
func decimalToRat(digits string, exp int) (r *big.Rat, ok bool, huge bool) {
	m, good := new(big.Int).SetString(digits, 10)
	if !good {
		return nil, false, false
	}
	if m.Sign() == 0 {
		return new(big.Rat), true, false
	}
	// magnitude estimate: number of digits + exp
	mag := len(strings.TrimLeft(digits, "0")) + exp
	if mag > 400 {
		return nil, false, true
	}
	if mag < -400 {
		return nil, false, false
	}
	r = new(big.Rat).SetInt(m)
	if exp >= 0 {
		r.Mul(r, new(big.Rat).SetInt(pow10(exp)))
	} else {
		r.Quo(r, new(big.Rat).SetInt(pow10(-exp)))
	}
	return r, true, false
}

// NearestFloat64 is the "Number value for x" of ES5 8.5: round to nearest,
// ties to even, overflow to infinity (math/big software rounding).
func NearestFloat64(r *big.Rat) float64 {
	f, _ := r.Float64()
	return f
}

// NearestFloat32 rounds a rational to the nearest float32 (ties to even).
func NearestFloat32(r *big.Rat) float32 {
	f, _ := r.Float32()
	return f
}

// RoundFloat32 rounds a double to float32 with math/big (not the hardware
// conversion). NaN and infinities map to themselves.
func RoundFloat32(d float64) float32 {
	switch {
	case d != d:
		return float32(math.NaN())
	case math.IsInf(d, 1):
		return float32(math.Inf(1))
	case math.IsInf(d, -1):
		return float32(math.Inf(-1))
	case d == 0:
		if math.Signbit(d) {
			return float32(math.Copysign(0, -1))
		}
		return 0
	}
	f := NearestFloat32(RatOfFloat(d))
	if f == 0 && math.Signbit(d) {
		return float32(math.Copysign(0, -1))
	}
	return f
}

// ---------------------------------------------------------------- ES5 9.3.1

func isStrWhiteSpace(r rune) bool {
	switch r {
	case 0x09, 0x0B, 0x0C, 0x20, 0xA0, 0xFEFF, 0x0A, 0x0D, 0x2028, 0x2029,
		0x1680, 0x180E, 0x2000, 0x2001, 0x2002, 0x2003, 0x2004, 0x2005, 0x2006, 0x2007, 0x2008, 0x2009, 0x200A, 0x202F, 0x205F, 0x3000:
		return true
	}
	return false
}

func allDigits(s string) bool {
	if s == "" {
		return false
	}
	for i := 0; i < len(s); i++ {
		if s[i] < '0' || s[i] > '9' {
			return false
		}
	}
	return true
}

// StringToNumber implements ToNumber applied to the String type (ES5.1 9.3.1).
func StringToNumber(s string) float64 {
	s = strings.TrimFunc(s, isStrWhiteSpace)
	if s == "" {
		return 0
	}
	if len(s) > 2 && s[0] == '0' && (s[1] == 'x' || s[1] == 'X') {
		h := s[2:]
		for i := 0; i < len(h); i++ {
			c := h[i]
			if !(c >= '0' && c <= '9' || c >= 'a' && c <= 'f' || c >= 'A' && c <= 'F') {
				return math.NaN()
			}
		}
		m, ok := new(big.Int).SetString(h, 16)
		if !ok {
			return math.NaN()
		}
		return NearestFloat64(new(big.Rat).SetInt(m))
	}
	neg := false
	switch s[0] {
	case '+':
		s = s[1:]
	case '-':
		neg = true
		s = s[1:]
	}
	sign := func(f float64) float64 {
		if neg {
			return -f
		}
		return f
	}
	if s == "Infinity" {
		return sign(math.Inf(1))
	}
	// StrUnsignedDecimalLiteral
	mant := s
	exp := 0
	if i := strings.IndexAny(s, "eE"); i >= 0 {
		mant = s[:i]
		e := s[i+1:]
		eneg := false
		if e != "" && (e[0] == '+' || e[0] == '-') {
			eneg = e[0] == '-'
			e = e[1:]
		}
		if !allDigits(e) {
			return math.NaN()
		}
		e = strings.TrimLeft(e, "0")
		if len(e) > 6 {
			exp = 1000000
		} else {
			for i := 0; i < len(e); i++ {
				exp = exp*10 + int(e[i]-'0')
			}
		}
		if eneg {
			exp = -exp
		}
	}
	ip, fp := mant, ""
	if i := strings.IndexByte(mant, '.'); i >= 0 {
		ip, fp = mant[:i], mant[i+1:]
		if ip == "" && fp == "" {
			return math.NaN()
		}
		if ip != "" && !allDigits(ip) || fp != "" && !allDigits(fp) {
			return math.NaN()
		}
	} else if !allDigits(ip) {
		return math.NaN()
	}
	digits := ip + fp
	r, ok, huge := decimalToRat(digits, exp-len(fp))
	if !ok {
		if huge {
			return sign(math.Inf(1))
		}
		return sign(0)
	}
	return sign(NearestFloat64(r))
}

// ToIntegerClamp is ES5 9.4 ToInteger followed by saturation to the int64
// range (the behaviour otto documents in value_number.go: "Infinity =>
// 2**63-1", "NaN => 0").
func ToIntegerClamp(d float64) int64 {
	switch {
	case d != d:
		return 0
	case d >= 9223372036854775808.0:
		return math.MaxInt64
	case d <= -9223372036854775808.0:
		return math.MinInt64
	}
	r := RatOfFloat(d)
	q := new(big.Int).Quo(r.Num(), r.Denom()) // truncates toward zero
	return q.Int64()
}

// ---------------------------------------------------------------- ES5 9.8.1 verifier

// VerifyNumberToString checks that text is a result permitted by ES5.1 9.8.1
// for the Number value m: right special-case spelling, right layout for (n, k,
// s), s*10^(n-k) has Number value m, and k is as small as possible. It does not
// generate the digits itself.
func VerifyNumberToString(text string, m float64) error {
	switch {
	case m != m:
		if text != "NaN" {
			return fmt.Errorf("NaN must convert to \"NaN\"")
		}
		return nil
	case m == 0:
		if text != "0" {
			return fmt.Errorf("zero must convert to \"0\"")
		}
		return nil
	case math.IsInf(m, 1):
		if text != "Infinity" {
			return fmt.Errorf("+Infinity must convert to \"Infinity\"")
		}
		return nil
	case math.IsInf(m, -1):
		if text != "-Infinity" {
			return fmt.Errorf("-Infinity must convert to \"-Infinity\"")
		}
		return nil
	}
	t := text
	if m < 0 {
		if !strings.HasPrefix(t, "-") {
			return errors.New("negative number without '-'")
		}
		t = t[1:]
		m = -m
	} else if strings.HasPrefix(t, "-") {
		return errors.New("positive number with '-'")
	}
	// extract (s digits, n)
	var digits string
	var n int
	if i := strings.IndexByte(t, 'e'); i >= 0 {
		mant, e := t[:i], t[i+1:]
		if len(e) < 2 || (e[0] != '+' && e[0] != '-') || !allDigits(e[1:]) || e[1] == '0' {
			return fmt.Errorf("bad exponent part %q", e)
		}
		ev := 0
		for j := 1; j < len(e); j++ {
			ev = ev*10 + int(e[j]-'0')
			if ev > 100000 {
				return errors.New("exponent too large")
			}
		}
		if e[0] == '-' {
			ev = -ev
		}
		if j := strings.IndexByte(mant, '.'); j >= 0 {
			if j != 1 || !allDigits(mant[:1]) || !allDigits(mant[2:]) {
				return fmt.Errorf("bad mantissa %q", mant)
			}
			digits = mant[:1] + mant[2:]
		} else {
			if len(mant) != 1 || !allDigits(mant) {
				return fmt.Errorf("bad mantissa %q", mant)
			}
			digits = mant
		}
		n = ev + 1
	} else if i := strings.IndexByte(t, '.'); i >= 0 {
		ip, fp := t[:i], t[i+1:]
		if !allDigits(ip) || !allDigits(fp) {
			return fmt.Errorf("bad decimal %q", t)
		}
		if ip == "0" {
			z := len(fp) - len(strings.TrimLeft(fp, "0"))
			digits = fp[z:]
			n = -z
		} else {
			digits = ip + fp
			n = len(ip)
		}
	} else {
		if !allDigits(t) {
			return fmt.Errorf("bad integer %q", t)
		}
		digits = strings.TrimRight(t, "0")
		n = len(t)
	}
	if digits == "" || digits[0] == '0' {
		return fmt.Errorf("digit string %q of %q is not normalised", digits, text)
	}
	k := len(digits)
	// regenerate the layout (steps 6-10)
	var want string
	switch {
	case k <= n && n <= 21:
		want = digits + strings.Repeat("0", n-k)
	case 0 < n && n <= 21:
		want = digits[:n] + "." + digits[n:]
	case -6 < n && n <= 0:
		want = "0." + strings.Repeat("0", -n) + digits
	default:
		e := n - 1
		sg := "+"
		if e < 0 {
			sg = "-"
			e = -e
		}
		if k == 1 {
			want = digits + "e" + sg + fmt.Sprint(e)
		} else {
			want = digits[:1] + "." + digits[1:] + "e" + sg + fmt.Sprint(e)
		}
	}
	if want != t {
		return fmt.Errorf("layout: digits=%s n=%d should be written %q", digits, n, want)
	}
	r, ok, huge := decimalToRat(digits, n-k)
	if !ok {
		return fmt.Errorf("magnitude out of range (huge=%v)", huge)
	}
	if got := NearestFloat64(r); got != m {
		return fmt.Errorf("digits denote %v, not the value", got)
	}
	if k > 1 {
		// minimality: neither neighbour with k-1 digits may have Number value m
		exact := RatOfFloat(m)
		scale := n - (k - 1) // candidate value = s' * 10^scale
		q := new(big.Rat).Set(exact)
		if scale >= 0 {
			q.Quo(q, new(big.Rat).SetInt(pow10(scale)))
		} else {
			q.Mul(q, new(big.Rat).SetInt(pow10(-scale)))
		}
		lo := new(big.Int).Quo(q.Num(), q.Denom())
		for d := int64(0); d <= 1; d++ {
			c := new(big.Int).Add(lo, big.NewInt(d))
			cr := new(big.Rat).SetInt(c)
			if scale >= 0 {
				cr.Mul(cr, new(big.Rat).SetInt(pow10(scale)))
			} else {
				cr.Quo(cr, new(big.Rat).SetInt(pow10(-scale)))
			}
			if c.Sign() > 0 && NearestFloat64(cr) == m {
				return fmt.Errorf("not the shortest: %d digits suffice (%s*10^%d)", k-1, c.String(), scale)
			}
		}
	}
	return nil
}
