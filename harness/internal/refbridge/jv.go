package refbridge

import (
	"math"
	"sort"
	"strconv"
	"strings"
	"unicode/utf16"

	"verif/internal/gen"
)

// JV describes one JavaScript value.
//
//	K: undef | null | bool | num | str | arr | obj          (JSON-like + undefined)
//	   hole (only as an element of arr: an elision)
//	   date (N = time value) | regexp (S = source) | func | error (S = constructor name)
//	   boxnum (N) | boxstr (S) | boxbool (B)
//	   args (Arguments object holding E) | arraylike ({length:n, 0:.., ...})
//	   getterarr (Array whose element 0 is an accessor returning E[0])
type JV struct {
	K    string   `json:"k"`
	B    bool     `json:"b,omitempty"`
	N    *gen.F   `json:"n,omitempty"`
	S    string   `json:"s,omitempty"`
	E    []JV     `json:"e,omitempty"`
	Keys []string `json:"keys,omitempty"`
}

func JUndef() JV        { return JV{K: "undef"} }
func JNull() JV         { return JV{K: "null"} }
func JBool(b bool) JV   { return JV{K: "bool", B: b} }
func JNum(f float64) JV { x := gen.F(f); return JV{K: "num", N: &x} }
func JStr(s string) JV  { return JV{K: "str", S: s} }
func JArr(e ...JV) JV   { return JV{K: "arr", E: append([]JV{}, e...)} }
func JObj(k []string, e []JV) JV {
	return JV{K: "obj", Keys: append([]string{}, k...), E: append([]JV{}, e...)}
}

// Num returns the number payload.
func (j JV) Num() float64 {
	if j.N == nil {
		return 0
	}
	return float64(*j.N)
}

// JSNum renders a double as JavaScript source evaluating to exactly that
// double using only integer literals below 2^53 and exact scaling by powers of
// two (so the source does not depend on the decimal literal parser).
func JSNum(f float64) string {
	switch {
	case f != f:
		return "(0/0)"
	case math.IsInf(f, 1):
		return "(1/0)"
	case math.IsInf(f, -1):
		return "(-1/0)"
	case f == 0 && math.Signbit(f):
		return "(-0)"
	case f == 0:
		return "0"
	}
	if f == math.Trunc(f) && math.Abs(f) < 1<<53 {
		s := strconv.FormatInt(int64(f), 10)
		if f < 0 {
			return "(" + s + ")"
		}
		return s
	}
	fr, e := math.Frexp(f)
	m := int64(fr * (1 << 53))
	e -= 53
	for m%2 == 0 {
		m /= 2
		e++
	}
	var b strings.Builder
	b.WriteString("(" + strconv.FormatInt(m, 10))
	for e > 0 {
		k := e
		if k > 52 {
			k = 52
		}
		b.WriteString("*" + strconv.FormatInt(1<<uint(k), 10))
		e -= k
	}
	for e < 0 {
		k := -e
		if k > 52 {
			k = 52
		}
		b.WriteString("/" + strconv.FormatInt(1<<uint(k), 10))
		e += k
	}
	b.WriteString(")")
	return b.String()
}

// JSStr renders a Go (valid UTF-8) string as a JavaScript string literal:
// BMP code units outside printable ASCII as \uXXXX escapes; supplementary
// characters as raw UTF-8 (otto's lexer turns an escaped surrogate pair
// "\uD83D\uDE00" into two replacement characters - a lexer defect outside
// C15/C16 - while raw UTF-8 source is decoded correctly).
func JSStr(s string) string {
	var b strings.Builder
	b.WriteByte('"')
	for _, r := range s {
		switch {
		case r == '"' || r == '\\':
			b.WriteByte('\\')
			b.WriteByte(byte(r))
		case r >= 0x20 && r < 0x7f:
			b.WriteByte(byte(r))
		case r >= 0x10000:
			b.WriteRune(r)
		default:
			b.WriteString("\\u")
			h := strconv.FormatUint(uint64(r), 16)
			b.WriteString(strings.Repeat("0", 4-len(h)) + strings.ToUpper(h))
		}
	}
	b.WriteByte('"')
	return b.String()
}

// UTF16Len is the number of UTF-16 code units of a Go string.
func UTF16Len(s string) int { return len(utf16.Encode([]rune(s))) }

// Src renders the JavaScript source expression producing the value.
func (j JV) Src() string {
	switch j.K {
	case "undef":
		return "(void 0)"
	case "null":
		return "null"
	case "bool":
		if j.B {
			return "true"
		}
		return "false"
	case "num":
		// S selects the internal representation the number is produced in
		// (the value is the same): "i32" via |0, "u32" via >>>0.
		switch j.S {
		case "i32":
			return "(" + JSNum(j.Num()) + "|0)"
		case "u32":
			return "(" + JSNum(j.Num()) + ">>>0)"
		}
		return JSNum(j.Num())
	case "str":
		return JSStr(j.S)
	case "arr":
		if j.S == "shared" && len(j.E) > 0 {
			// every element is the SAME object (aliasing, not a cycle)
			return "((function(){var s=" + j.E[0].Src() + ";return [" + strings.TrimSuffix(strings.Repeat("s,", len(j.E)), ",") + "]})())"
		}
		var p []string
		for _, e := range j.E {
			if e.K == "hole" {
				p = append(p, "")
			} else {
				p = append(p, e.Src())
			}
		}
		s := strings.Join(p, ",")
		if n := len(j.E); n > 0 && j.E[n-1].K == "hole" {
			s += ","
		}
		return "[" + s + "]"
	case "obj":
		var p []string
		if j.S == "shared" && len(j.E) > 0 {
			for _, k := range j.Keys {
				p = append(p, JSStr(k)+":s")
			}
			return "((function(){var s=" + j.E[0].Src() + ";return ({" + strings.Join(p, ",") + "})})())"
		}
		for i, k := range j.Keys {
			p = append(p, JSStr(k)+":"+j.E[i].Src())
		}
		return "({" + strings.Join(p, ",") + "})"
	case "date":
		return "(new Date(" + JSNum(j.Num()) + "))"
	case "regexp":
		return "(new RegExp(" + JSStr(j.S) + "))"
	case "func":
		return "(function(a,b){return 7})"
	case "error":
		return "(new " + j.S + "(\"m\"))"
	case "boxnum":
		return "(new Number(" + JSNum(j.Num()) + "))"
	case "boxstr":
		return "(new String(" + JSStr(j.S) + "))"
	case "boxbool":
		if j.B {
			return "(new Boolean(true))"
		}
		return "(new Boolean(false))"
	case "args":
		var p []string
		for _, e := range j.E {
			p = append(p, e.Src())
		}
		return "((function(){return arguments})(" + strings.Join(p, ",") + "))"
	case "arraylike":
		p := []string{"length:" + strconv.Itoa(len(j.E))}
		for i, e := range j.E {
			p = append(p, strconv.Itoa(i)+":"+e.Src())
		}
		return "({" + strings.Join(p, ",") + "})"
	case "getterarr":
		var p []string
		for i, e := range j.E {
			if i == 0 {
				p = append(p, "0")
			} else {
				p = append(p, e.Src())
			}
		}
		return "((function(){var a=[" + strings.Join(p, ",") + "];Object.defineProperty(a,\"0\",{get:function(){return " + j.E[0].Src() + "},enumerable:true,configurable:true});return a})())"
	}
	return "(void 0)"
}

// IsPrimitive reports whether the value is undefined/null/boolean/number/string.
func (j JV) IsPrimitive() bool {
	switch j.K {
	case "undef", "null", "bool", "num", "str":
		return true
	}
	return false
}

// IsJSONLike reports whether the value is built from null, booleans, finite
// numbers, strings, dense arrays and plain objects only.
func (j JV) IsJSONLike() bool {
	switch j.K {
	case "null", "bool", "str":
		return true
	case "num":
		f := j.Num()
		return f == f && !math.IsInf(f, 0)
	case "arr", "obj":
		for _, e := range j.E {
			if !e.IsJSONLike() {
				return false
			}
		}
		return true
	}
	return false
}

// TypeOf is the ES5 11.4.3 typeof result.
func (j JV) TypeOf() string {
	switch j.K {
	case "undef":
		return "undefined"
	case "null":
		return "object"
	case "bool":
		return "boolean"
	case "num":
		return "number"
	case "str":
		return "string"
	case "func":
		return "function"
	}
	return "object"
}

// Class is the [[Class]] of an object value ("" for primitives).
func (j JV) Class() string {
	switch j.K {
	case "arr", "getterarr":
		return "Array"
	case "obj", "arraylike":
		return "Object"
	case "date":
		return "Date"
	case "regexp":
		return "RegExp"
	case "func":
		return "Function"
	case "error":
		return "Error"
	case "boxnum":
		return "Number"
	case "boxstr":
		return "String"
	case "boxbool":
		return "Boolean"
	case "args":
		return "Arguments"
	}
	return ""
}

// ToNumber is ES5 9.3 for primitive values (ok=false for objects).
func (j JV) ToNumber() (float64, bool) {
	switch j.K {
	case "undef":
		return math.NaN(), true
	case "null":
		return 0, true
	case "bool":
		if j.B {
			return 1, true
		}
		return 0, true
	case "num":
		return j.Num(), true
	case "str":
		return StringToNumber(j.S), true
	}
	return 0, false
}

// ToBoolean is ES5 9.2.
func (j JV) ToBoolean() bool {
	switch j.K {
	case "undef", "null":
		return false
	case "bool":
		return j.B
	case "num":
		f := j.Num()
		return !(f != f || f == 0)
	case "str":
		return j.S != ""
	}
	return true
}

// ValCanon renders JSON-like data (plus undefined, exported as null) in the
// same structural form as ValCanon of a Go value. Properties whose value is
// undefined are omitted from objects (the pinned behaviour of Export).
func (j JV) ValCanon() string {
	switch j.K {
	case "undef", "null", "hole":
		return "null"
	case "bool":
		if j.B {
			return "true"
		}
		return "false"
	case "num":
		return "n:" + FloatValueLabel(j.Num())
	case "str":
		return strconv.QuoteToASCII(j.S)
	case "arr":
		var p []string
		for _, e := range j.E {
			p = append(p, e.ValCanon())
		}
		return "[" + strings.Join(p, ",") + "]"
	case "obj":
		type kv struct{ k, v string }
		var kvs []kv
		for i, k := range j.Keys {
			if j.E[i].K == "undef" {
				continue
			}
			kvs = append(kvs, kv{strconv.QuoteToASCII(k), j.E[i].ValCanon()})
		}
		sort.Slice(kvs, func(a, b int) bool { return kvs[a].k < kvs[b].k })
		var p []string
		for _, e := range kvs {
			p = append(p, e.k+":"+e.v)
		}
		return "{" + strings.Join(p, ",") + "}"
	}
	return "?" + j.K
}
