package refbridge

import (
	"fmt"
	"math"
	"math/big"
	"reflect"
	"sort"
	"strconv"
	"strings"
	"unsafe"

	"verif/internal/gen"
)

// GV describes one Go value (JSON-serialisable, self-contained).
//
//	T    type expression (see ParseType); "nil" = nil interface
//	B    bool payload
//	I    integer payload (decimal)
//	F    float payload (exact double; for float32 the widened value)
//	S    string payload
//	E    elements: slice/array elements, map values (parallel to K), the
//	     pointee (one element), struct fields in declaration order
//	K    map keys (as text; decimal for integer-keyed maps)
//	Nil  nil slice / map / pointer
type GV struct {
	T   string   `json:"t"`
	B   bool     `json:"b,omitempty"`
	I   string   `json:"i,omitempty"`
	F   *gen.F   `json:"f,omitempty"`
	S   string   `json:"s,omitempty"`
	E   []GV     `json:"e,omitempty"`
	K   []string `json:"k,omitempty"`
	Nil bool     `json:"nil,omitempty"`
}

// Constructors.
func GBool(t string, b bool) GV     { return GV{T: t, B: b} }
func GInt(t string, i *big.Int) GV  { return GV{T: t, I: i.String()} }
func GInt64(t string, i int64) GV   { return GV{T: t, I: strconv.FormatInt(i, 10)} }
func GUint64(t string, u uint64) GV { return GV{T: t, I: strconv.FormatUint(u, 10)} }
func GFloat(t string, f float64) GV { x := gen.F(f); return GV{T: t, F: &x} }
func GStr(t string, s string) GV    { return GV{T: t, S: s} }
func GNil() GV                      { return GV{T: "nil"} }
func GNilOf(t string) GV            { return GV{T: t, Nil: true} }
func GSeq(t string, e ...GV) GV     { return GV{T: t, E: append([]GV{}, e...)} }
func GPtr(t string, e GV) GV        { return GV{T: t, E: []GV{e}} }
func GMap(t string, k []string, e []GV) GV {
	return GV{T: t, K: append([]string{}, k...), E: append([]GV{}, e...)}
}

// Float returns the float payload.
func (g GV) Float() float64 {
	if g.F == nil {
		return 0
	}
	return float64(*g.F)
}

// Int returns the integer payload.
func (g GV) Int() *big.Int {
	i, ok := new(big.Int).SetString(g.I, 10)
	if !ok {
		return new(big.Int)
	}
	return i
}

// Kind returns the reflect kind of the described type (Invalid for "nil").
func (g GV) Kind() reflect.Kind {
	if g.T == "nil" {
		return reflect.Invalid
	}
	t, err := ParseType(g.T)
	if err != nil {
		return reflect.Invalid
	}
	return t.Kind()
}

// Build constructs the described Go value. For T=="nil" it returns the zero
// reflect.Value. The result is addressable (it is the Elem of a fresh pointer).
func Build(g GV) (reflect.Value, error) {
	if g.T == "nil" {
		return reflect.Value{}, nil
	}
	t, err := ParseType(g.T)
	if err != nil {
		return reflect.Value{}, err
	}
	v := reflect.New(t).Elem()
	if err := buildInto(v, g); err != nil {
		return reflect.Value{}, err
	}
	return v, nil
}

// BuildInterface returns Build(g) as interface{} (nil for "nil").
func BuildInterface(g GV) (interface{}, error) {
	v, err := Build(g)
	if err != nil {
		return nil, err
	}
	if !v.IsValid() {
		return nil, nil
	}
	return v.Interface(), nil
}

func settable(v reflect.Value) reflect.Value {
	if v.CanSet() {
		return v
	}
	// unexported struct field of an addressable struct
	return reflect.NewAt(v.Type(), unsafe.Pointer(v.UnsafeAddr())).Elem()
}

func buildInto(dst reflect.Value, g GV) error {
	dst = settable(dst)
	t := dst.Type()
	if t.Kind() == reflect.Interface {
		if g.T == "nil" {
			dst.Set(reflect.Zero(t))
			return nil
		}
		v, err := Build(g)
		if err != nil {
			return err
		}
		dst.Set(v)
		return nil
	}
	switch t.Kind() {
	case reflect.Bool:
		dst.SetBool(g.B)
	case reflect.Int, reflect.Int8, reflect.Int16, reflect.Int32, reflect.Int64:
		i := g.Int()
		if !i.IsInt64() || dst.OverflowInt(i.Int64()) {
			return fmt.Errorf("refbridge: %s does not fit %s", g.I, t)
		}
		dst.SetInt(i.Int64())
	case reflect.Uint, reflect.Uint8, reflect.Uint16, reflect.Uint32, reflect.Uint64:
		i := g.Int()
		if !i.IsUint64() || dst.OverflowUint(i.Uint64()) {
			return fmt.Errorf("refbridge: %s does not fit %s", g.I, t)
		}
		dst.SetUint(i.Uint64())
	case reflect.Float32:
		f := g.Float()
		if f == f && !math.IsInf(f, 0) && float64(float32(f)) != f {
			return fmt.Errorf("refbridge: %v is not a float32", f)
		}
		dst.SetFloat(f)
	case reflect.Float64:
		dst.SetFloat(g.Float())
	case reflect.String:
		dst.SetString(g.S)
	case reflect.Slice:
		if g.Nil {
			dst.Set(reflect.Zero(t))
			return nil
		}
		s := reflect.MakeSlice(t, len(g.E), len(g.E))
		for i := range g.E {
			if err := buildInto(s.Index(i), g.E[i]); err != nil {
				return err
			}
		}
		dst.Set(s)
	case reflect.Array:
		if len(g.E) != t.Len() {
			return fmt.Errorf("refbridge: %d elements for %s", len(g.E), t)
		}
		for i := range g.E {
			if err := buildInto(dst.Index(i), g.E[i]); err != nil {
				return err
			}
		}
	case reflect.Map:
		if g.Nil {
			dst.Set(reflect.Zero(t))
			return nil
		}
		if len(g.K) != len(g.E) {
			return fmt.Errorf("refbridge: map keys/values mismatch")
		}
		m := reflect.MakeMap(t)
		for i := range g.K {
			k := reflect.New(t.Key()).Elem()
			switch t.Key().Kind() {
			case reflect.String:
				k.SetString(g.K[i])
			case reflect.Int, reflect.Int8, reflect.Int16, reflect.Int32, reflect.Int64:
				n, ok := new(big.Int).SetString(g.K[i], 10)
				if !ok {
					return fmt.Errorf("refbridge: bad int key %q", g.K[i])
				}
				k.SetInt(n.Int64())
			default:
				return fmt.Errorf("refbridge: unsupported key type %s", t.Key())
			}
			e := reflect.New(t.Elem()).Elem()
			if err := buildInto(e, g.E[i]); err != nil {
				return err
			}
			m.SetMapIndex(k, e)
		}
		dst.Set(m)
	case reflect.Ptr:
		if g.Nil {
			dst.Set(reflect.Zero(t))
			return nil
		}
		if len(g.E) != 1 {
			return fmt.Errorf("refbridge: pointer needs one element")
		}
		p := reflect.New(t.Elem())
		if err := buildInto(p.Elem(), g.E[0]); err != nil {
			return err
		}
		dst.Set(p)
	case reflect.Struct:
		if len(g.E) != t.NumField() {
			return fmt.Errorf("refbridge: %d fields for %s (want %d)", len(g.E), t, t.NumField())
		}
		for i := range g.E {
			if err := buildInto(dst.Field(i), g.E[i]); err != nil {
				return err
			}
		}
	default:
		return fmt.Errorf("refbridge: unsupported kind %s", t.Kind())
	}
	return nil
}

// numLabel renders a double injectively (label only; both sides of every
// comparison are rendered by this same function).
func numLabel(f float64, bits int) string {
	switch {
	case f != f:
		return "NaN"
	case math.IsInf(f, 1):
		return "Infinity"
	case math.IsInf(f, -1):
		return "-Infinity"
	case f == 0 && math.Signbit(f):
		return "-0"
	}
	return strconv.FormatFloat(f, 'g', -1, bits)
}

// Canon renders a Go value with its types: two values have the same Canon iff
// they have the same dynamic types and contents (NaN equal to NaN, -0 distinct
// from +0, nil slices/maps distinct from empty ones, unexported fields
// included).
func Canon(x interface{}) string {
	if x == nil {
		return "nil"
	}
	return CanonValue(reflect.ValueOf(x))
}

// CanonValue is Canon for a reflect.Value (which may be unexported-field
// derived; only kind-specific getters are used).
func CanonValue(v reflect.Value) string {
	var b strings.Builder
	canon(&b, v, 0)
	return b.String()
}

func canon(b *strings.Builder, v reflect.Value, depth int) {
	if !v.IsValid() {
		b.WriteString("nil")
		return
	}
	if depth > 40 {
		b.WriteString("<deep>")
		return
	}
	t := v.Type()
	tn := strings.ReplaceAll(t.String(), "refbridge.", "")
	tn = strings.ReplaceAll(tn, "interface {}", "any")
	switch v.Kind() {
	case reflect.Interface:
		if v.IsNil() {
			b.WriteString("nil")
			return
		}
		canon(b, v.Elem(), depth+1)
	case reflect.Bool:
		fmt.Fprintf(b, "%s:%v", tn, v.Bool())
	case reflect.Int, reflect.Int8, reflect.Int16, reflect.Int32, reflect.Int64:
		fmt.Fprintf(b, "%s:%d", tn, v.Int())
	case reflect.Uint, reflect.Uint8, reflect.Uint16, reflect.Uint32, reflect.Uint64, reflect.Uintptr:
		fmt.Fprintf(b, "%s:%d", tn, v.Uint())
	case reflect.Float32:
		fmt.Fprintf(b, "%s:%s", tn, numLabel(v.Float(), 32))
	case reflect.Float64:
		fmt.Fprintf(b, "%s:%s", tn, numLabel(v.Float(), 64))
	case reflect.String:
		fmt.Fprintf(b, "%s:%s", tn, strconv.QuoteToASCII(v.String()))
	case reflect.Slice:
		if v.IsNil() {
			b.WriteString(tn + "(nil)")
			return
		}
		fallthrough
	case reflect.Array:
		b.WriteString(tn + "[")
		for i := 0; i < v.Len(); i++ {
			if i > 0 {
				b.WriteByte(',')
			}
			canon(b, v.Index(i), depth+1)
		}
		b.WriteByte(']')
	case reflect.Map:
		if v.IsNil() {
			b.WriteString(tn + "(nil)")
			return
		}
		type kv struct{ k, v string }
		var kvs []kv
		it := v.MapRange()
		for it.Next() {
			kvs = append(kvs, kv{CanonValue(it.Key()), CanonValue(it.Value())})
		}
		sort.Slice(kvs, func(i, j int) bool { return kvs[i].k < kvs[j].k })
		b.WriteString(tn + "{")
		for i, e := range kvs {
			if i > 0 {
				b.WriteByte(',')
			}
			b.WriteString(e.k + "=>" + e.v)
		}
		b.WriteByte('}')
	case reflect.Ptr:
		if v.IsNil() {
			b.WriteString(tn + "(nil)")
			return
		}
		b.WriteString("&")
		canon(b, v.Elem(), depth+1)
	case reflect.Struct:
		b.WriteString(tn + "{")
		for i := 0; i < v.NumField(); i++ {
			if i > 0 {
				b.WriteByte(',')
			}
			b.WriteString(t.Field(i).Name + ":")
			canon(b, v.Field(i), depth+1)
		}
		b.WriteByte('}')
	case reflect.Func:
		b.WriteString(tn + "(func)")
	default:
		fmt.Fprintf(b, "%s(?%s)", tn, v.Kind())
	}
}

// CanonGV is Canon of the value a GV describes, computed from the description
// alone (without building it).
func CanonGV(g GV) string {
	v, err := Build(g)
	if err != nil {
		return "!build:" + err.Error()
	}
	return CanonValue(v)
}

// ratLabel renders an exact rational.
func ratLabel(r *big.Rat) string {
	if r.IsInt() {
		return r.Num().String()
	}
	return r.String()
}

// NumValueLabel renders the exact numeric value of a Go number of any kind:
// "NaN", "Infinity", "-Infinity", "-0" or an exact rational.
func NumValueLabel(v reflect.Value) (string, bool) {
	switch v.Kind() {
	case reflect.Int, reflect.Int8, reflect.Int16, reflect.Int32, reflect.Int64:
		return big.NewInt(v.Int()).String(), true
	case reflect.Uint, reflect.Uint8, reflect.Uint16, reflect.Uint32, reflect.Uint64, reflect.Uintptr:
		return new(big.Int).SetUint64(v.Uint()).String(), true
	case reflect.Float32, reflect.Float64:
		return FloatValueLabel(v.Float()), true
	}
	return "", false
}

// FloatValueLabel is the exact-value label of a double.
func FloatValueLabel(f float64) string {
	switch {
	case f != f:
		return "NaN"
	case math.IsInf(f, 1):
		return "Infinity"
	case math.IsInf(f, -1):
		return "-Infinity"
	case f == 0 && math.Signbit(f):
		return "-0"
	}
	return ratLabel(RatOfFloat(f))
}

// ValCanon renders a Go value type-free ("structural" form): numbers by exact
// value, any slice/array as a sequence, any string-keyed map as an object, nil
// interface / nil pointer as null. Used where the documented contract fixes
// the shape but not the Go types.
func ValCanon(x interface{}) string {
	if x == nil {
		return "null"
	}
	var b strings.Builder
	valCanon(&b, reflect.ValueOf(x), 0)
	return b.String()
}

func valCanon(b *strings.Builder, v reflect.Value, depth int) {
	if !v.IsValid() {
		b.WriteString("null")
		return
	}
	if depth > 40 {
		b.WriteString("<deep>")
		return
	}
	if l, ok := NumValueLabel(v); ok {
		b.WriteString("n:" + l)
		return
	}
	switch v.Kind() {
	case reflect.Interface, reflect.Ptr:
		if v.IsNil() {
			b.WriteString("null")
			return
		}
		valCanon(b, v.Elem(), depth+1)
	case reflect.Bool:
		fmt.Fprintf(b, "%v", v.Bool())
	case reflect.String:
		b.WriteString(strconv.QuoteToASCII(v.String()))
	case reflect.Slice, reflect.Array:
		b.WriteByte('[')
		for i := 0; i < v.Len(); i++ {
			if i > 0 {
				b.WriteByte(',')
			}
			valCanon(b, v.Index(i), depth+1)
		}
		b.WriteByte(']')
	case reflect.Map:
		type kv struct{ k, v string }
		var kvs []kv
		it := v.MapRange()
		for it.Next() {
			var kb, vb strings.Builder
			if it.Key().Kind() == reflect.String {
				kb.WriteString(strconv.QuoteToASCII(it.Key().String()))
			} else {
				valCanon(&kb, it.Key(), depth+1)
			}
			valCanon(&vb, it.Value(), depth+1)
			kvs = append(kvs, kv{kb.String(), vb.String()})
		}
		sort.Slice(kvs, func(i, j int) bool { return kvs[i].k < kvs[j].k })
		b.WriteByte('{')
		for i, e := range kvs {
			if i > 0 {
				b.WriteByte(',')
			}
			b.WriteString(e.k + ":" + e.v)
		}
		b.WriteByte('}')
	case reflect.Struct:
		b.WriteString("struct{")
		for i := 0; i < v.NumField(); i++ {
			if i > 0 {
				b.WriteByte(',')
			}
			b.WriteString(v.Type().Field(i).Name + ":")
			valCanon(b, v.Field(i), depth+1)
		}
		b.WriteByte('}')
	default:
		b.WriteString("?" + CanonValue(v))
	}
}

// TypeExpr renders a reflect.Type of the family as a type expression
// accepted by ParseType.
func TypeExpr(t reflect.Type) string {
	s := strings.ReplaceAll(t.String(), "refbridge.", "")
	return strings.ReplaceAll(s, "interface {}", "any")
}

// GVOf describes an existing Go value (the inverse of Build). Unexported
// struct fields are read with kind-specific getters.
func GVOf(v reflect.Value) GV {
	if !v.IsValid() {
		return GNil()
	}
	t := TypeExpr(v.Type())
	switch v.Kind() {
	case reflect.Interface:
		if v.IsNil() {
			return GNil()
		}
		return GVOf(v.Elem())
	case reflect.Bool:
		return GBool(t, v.Bool())
	case reflect.Int, reflect.Int8, reflect.Int16, reflect.Int32, reflect.Int64:
		return GInt64(t, v.Int())
	case reflect.Uint, reflect.Uint8, reflect.Uint16, reflect.Uint32, reflect.Uint64:
		return GUint64(t, v.Uint())
	case reflect.Float32, reflect.Float64:
		return GFloat(t, v.Float())
	case reflect.String:
		return GStr(t, v.String())
	case reflect.Slice:
		if v.IsNil() {
			return GNilOf(t)
		}
		fallthrough
	case reflect.Array:
		g := GV{T: t, E: []GV{}}
		for i := 0; i < v.Len(); i++ {
			g.E = append(g.E, GVOf(v.Index(i)))
		}
		return g
	case reflect.Map:
		if v.IsNil() {
			return GNilOf(t)
		}
		type kv struct {
			k string
			v GV
		}
		var kvs []kv
		it := v.MapRange()
		for it.Next() {
			var k string
			if it.Key().Kind() == reflect.String {
				k = it.Key().String()
			} else {
				k = strconv.FormatInt(it.Key().Int(), 10)
			}
			kvs = append(kvs, kv{k, GVOf(it.Value())})
		}
		sort.Slice(kvs, func(i, j int) bool { return kvs[i].k < kvs[j].k })
		g := GV{T: t, K: []string{}, E: []GV{}}
		for _, e := range kvs {
			g.K = append(g.K, e.k)
			g.E = append(g.E, e.v)
		}
		return g
	case reflect.Ptr:
		if v.IsNil() {
			return GNilOf(t)
		}
		return GPtr(t, GVOf(v.Elem()))
	case reflect.Struct:
		g := GV{T: t}
		for i := 0; i < v.NumField(); i++ {
			g.E = append(g.E, GVOf(v.Field(i)))
		}
		return g
	}
	return GNil()
}
