package refbridge

import (
	"fmt"
	"math/big"
	"strings"
	"unicode/utf16"
	"unicode/utf8"
)

// JNode is a parsed JSON text (RFC 4627 / ES5 15.12.1 grammar), numbers kept
// exactly.
type JNode struct {
	Kind byte // 'z' null, 't' true, 'f' false, '#' number, 's' string, 'a' array, 'o' object
	Raw  string
	Str  string
	Arr  []JNode
	Keys []string
	Vals []JNode
}

// Rat returns the exact value of a number node and whether it is spelled with
// a leading minus.
func (n JNode) Rat() (*big.Rat, bool) {
	raw := n.Raw
	neg := strings.HasPrefix(raw, "-")
	if neg {
		raw = raw[1:]
	}
	mant, exp := raw, 0
	if i := strings.IndexAny(raw, "eE"); i >= 0 {
		mant = raw[:i]
		e := raw[i+1:]
		eneg := false
		if e[0] == '+' || e[0] == '-' {
			eneg = e[0] == '-'
			e = e[1:]
		}
		for i := 0; i < len(e) && exp < 100000; i++ {
			exp = exp*10 + int(e[i]-'0')
		}
		if eneg {
			exp = -exp
		}
	}
	ip, fp := mant, ""
	if i := strings.IndexByte(mant, '.'); i >= 0 {
		ip, fp = mant[:i], mant[i+1:]
	}
	r, ok, huge := decimalToRat(ip+fp, exp-len(fp))
	if !ok {
		if huge {
			r = new(big.Rat).SetInt(pow10(400))
		} else {
			r = new(big.Rat)
		}
	}
	if neg {
		r.Neg(r)
	}
	return r, neg
}

type jparser struct {
	s string
	i int
}

// ParseJSON parses a complete JSON text.
func ParseJSON(s string) (JNode, error) {
	p := &jparser{s: s}
	p.ws()
	n, err := p.value(0)
	if err != nil {
		return n, err
	}
	p.ws()
	if p.i != len(p.s) {
		return n, fmt.Errorf("json: trailing data at %d", p.i)
	}
	return n, nil
}

func (p *jparser) ws() {
	for p.i < len(p.s) {
		switch p.s[p.i] {
		case ' ', '\t', '\n', '\r':
			p.i++
		default:
			return
		}
	}
}

func (p *jparser) value(depth int) (JNode, error) {
	if depth > 200 {
		return JNode{}, fmt.Errorf("json: too deep")
	}
	if p.i >= len(p.s) {
		return JNode{}, fmt.Errorf("json: unexpected end")
	}
	c := p.s[p.i]
	switch {
	case c == 'n' && strings.HasPrefix(p.s[p.i:], "null"):
		p.i += 4
		return JNode{Kind: 'z'}, nil
	case c == 't' && strings.HasPrefix(p.s[p.i:], "true"):
		p.i += 4
		return JNode{Kind: 't'}, nil
	case c == 'f' && strings.HasPrefix(p.s[p.i:], "false"):
		p.i += 5
		return JNode{Kind: 'f'}, nil
	case c == '"':
		s, err := p.str()
		return JNode{Kind: 's', Str: s}, err
	case c == '[':
		p.i++
		n := JNode{Kind: 'a'}
		p.ws()
		if p.i < len(p.s) && p.s[p.i] == ']' {
			p.i++
			return n, nil
		}
		for {
			p.ws()
			e, err := p.value(depth + 1)
			if err != nil {
				return n, err
			}
			n.Arr = append(n.Arr, e)
			p.ws()
			if p.i >= len(p.s) {
				return n, fmt.Errorf("json: unterminated array")
			}
			if p.s[p.i] == ',' {
				p.i++
				continue
			}
			if p.s[p.i] == ']' {
				p.i++
				return n, nil
			}
			return n, fmt.Errorf("json: unexpected %q in array at %d", p.s[p.i], p.i)
		}
	case c == '{':
		p.i++
		n := JNode{Kind: 'o'}
		p.ws()
		if p.i < len(p.s) && p.s[p.i] == '}' {
			p.i++
			return n, nil
		}
		for {
			p.ws()
			if p.i >= len(p.s) || p.s[p.i] != '"' {
				return n, fmt.Errorf("json: object key expected at %d", p.i)
			}
			k, err := p.str()
			if err != nil {
				return n, err
			}
			p.ws()
			if p.i >= len(p.s) || p.s[p.i] != ':' {
				return n, fmt.Errorf("json: ':' expected at %d", p.i)
			}
			p.i++
			p.ws()
			e, err := p.value(depth + 1)
			if err != nil {
				return n, err
			}
			n.Keys = append(n.Keys, k)
			n.Vals = append(n.Vals, e)
			p.ws()
			if p.i >= len(p.s) {
				return n, fmt.Errorf("json: unterminated object")
			}
			if p.s[p.i] == ',' {
				p.i++
				continue
			}
			if p.s[p.i] == '}' {
				p.i++
				return n, nil
			}
			return n, fmt.Errorf("json: unexpected %q in object at %d", p.s[p.i], p.i)
		}
	case c == '-' || (c >= '0' && c <= '9'):
		st := p.i
		if c == '-' {
			p.i++
		}
		if p.i >= len(p.s) {
			return JNode{}, fmt.Errorf("json: bad number")
		}
		if p.s[p.i] == '0' {
			p.i++
		} else if p.s[p.i] >= '1' && p.s[p.i] <= '9' {
			for p.i < len(p.s) && p.s[p.i] >= '0' && p.s[p.i] <= '9' {
				p.i++
			}
		} else {
			return JNode{}, fmt.Errorf("json: bad number at %d", p.i)
		}
		if p.i < len(p.s) && p.s[p.i] == '.' {
			p.i++
			d := p.i
			for p.i < len(p.s) && p.s[p.i] >= '0' && p.s[p.i] <= '9' {
				p.i++
			}
			if p.i == d {
				return JNode{}, fmt.Errorf("json: digits expected after '.'")
			}
		}
		if p.i < len(p.s) && (p.s[p.i] == 'e' || p.s[p.i] == 'E') {
			p.i++
			if p.i < len(p.s) && (p.s[p.i] == '+' || p.s[p.i] == '-') {
				p.i++
			}
			d := p.i
			for p.i < len(p.s) && p.s[p.i] >= '0' && p.s[p.i] <= '9' {
				p.i++
			}
			if p.i == d {
				return JNode{}, fmt.Errorf("json: digits expected in exponent")
			}
		}
		return JNode{Kind: '#', Raw: p.s[st:p.i]}, nil
	}
	return JNode{}, fmt.Errorf("json: unexpected %q at %d", c, p.i)
}

func hexv(c byte) int {
	switch {
	case c >= '0' && c <= '9':
		return int(c - '0')
	case c >= 'a' && c <= 'f':
		return int(c-'a') + 10
	case c >= 'A' && c <= 'F':
		return int(c-'A') + 10
	}
	return -1
}

// str parses a string token into a Go string; surrogate pairs are combined,
// lone surrogates become U+FFFD.
func (p *jparser) str() (string, error) {
	p.i++ // opening quote
	var units []uint16
	flush := func(b *strings.Builder) {
		if len(units) > 0 {
			b.WriteString(string(utf16.Decode(units)))
			units = units[:0]
		}
	}
	var b strings.Builder
	for p.i < len(p.s) {
		c := p.s[p.i]
		switch {
		case c == '"':
			flush(&b)
			p.i++
			return b.String(), nil
		case c < 0x20:
			return "", fmt.Errorf("json: control character in string at %d", p.i)
		case c == '\\':
			if p.i+1 >= len(p.s) {
				return "", fmt.Errorf("json: bad escape")
			}
			e := p.s[p.i+1]
			p.i += 2
			switch e {
			case '"', '\\', '/':
				flush(&b)
				b.WriteByte(e)
			case 'b':
				flush(&b)
				b.WriteByte(8)
			case 'f':
				flush(&b)
				b.WriteByte(12)
			case 'n':
				flush(&b)
				b.WriteByte(10)
			case 'r':
				flush(&b)
				b.WriteByte(13)
			case 't':
				flush(&b)
				b.WriteByte(9)
			case 'u':
				if p.i+4 > len(p.s) {
					return "", fmt.Errorf("json: bad \\u escape")
				}
				v := 0
				for k := 0; k < 4; k++ {
					h := hexv(p.s[p.i+k])
					if h < 0 {
						return "", fmt.Errorf("json: bad \\u escape")
					}
					v = v*16 + h
				}
				p.i += 4
				units = append(units, uint16(v))
			default:
				return "", fmt.Errorf("json: bad escape \\%c", e)
			}
		default:
			flush(&b)
			r, sz := utf8.DecodeRuneInString(p.s[p.i:])
			if r == utf8.RuneError && sz == 1 {
				return "", fmt.Errorf("json: invalid UTF-8 at %d", p.i)
			}
			b.WriteString(p.s[p.i : p.i+sz])
			p.i += sz
		}
	}
	return "", fmt.Errorf("json: unterminated string")
}
