package refbridge

import (
	"math"

	"verif/internal/gen"
)

var ScalarTypes = []string{
	"bool", "int", "int8", "int16", "int32", "int64", "uint", "uint8", "uint16", "uint32", "uint64",
	"float32", "float64", "string",
}
var NamedTypes = []string{"MyInt", "MyI8", "MyU16", "MyStr", "MyF32", "MyF64", "MyBool"}

// GenScalar draws a scalar of the given type name.
func GenScalar(r *gen.Rand, t string) GV {
	switch t {
	case "bool", "MyBool":
		return GBool(t, r.Bool())
	case "string", "MyStr":
		return GStr(t, GenString(r))
	case "float32", "MyF32":
		return GFloat(t, GenFloat32(r))
	case "float64", "MyF64":
		return GFloat(t, GenFloat64(r))
	}
	return GInt(t, GenIntIn(r, t))
}

func GenAnyScalar(r *gen.Rand) GV {
	if r.Chance(1, 12) {
		return GNil()
	}
	if r.Chance(1, 10) {
		return GenScalar(r, NamedTypes[r.Intn(len(NamedTypes))])
	}
	return GenScalar(r, ScalarTypes[r.Intn(len(ScalarTypes))])
}

func GenKeys(r *gen.Rand, n int) []string {
	seen := map[string]bool{}
	var ks []string
	for len(ks) < n {
		k := SafeKey(r)
		if seen[k] {
			k = k + string(rune('a'+len(ks)))
			if seen[k] {
				continue
			}
		}
		seen[k] = true
		ks = append(ks, k)
	}
	return ks
}

// GenAny draws a value for an interface{} position: scalar, nil, nested
// []interface{} / map[string]interface{}, occasionally a typed container.
func GenAny(r *gen.Rand, depth int) GV {
	if depth <= 0 {
		return GenAnyScalar(r)
	}
	switch r.Intn(10) {
	case 0, 1:
		n := r.Range(0, 4)
		e := make([]GV, n)
		for i := range e {
			e[i] = GenAny(r, depth-1)
		}
		return GSeq("[]any", e...)
	case 2, 3:
		n := r.Range(0, 4)
		ks := GenKeys(r, n)
		e := make([]GV, n)
		for i := range e {
			e[i] = GenAny(r, depth-1)
		}
		return GMap("map[string]any", ks, e)
	case 4:
		return GenTyped(r, depth-1)
	}
	return GenAnyScalar(r)
}

var ElemTypes = []string{"int", "int8", "int64", "uint8", "uint16", "uint64", "float32", "float64", "string", "bool", "any", "[]int", "map[string]int", "MyInt"}

func GenOfType(r *gen.Rand, t string, depth int) GV {
	switch {
	case t == "any":
		return GenAny(r, depth)
	case t == "S1":
		return GenS1(r)
	case t == "Inner":
		return GV{T: "Inner", E: []GV{GInt("int", GenIntIn(r, "int")), GStr("string", GenString(r))}}
	case len(t) > 2 && t[:2] == "[]":
		if r.Chance(1, 8) {
			return GNilOf(t)
		}
		n := r.Range(0, 4)
		e := make([]GV, n)
		for i := range e {
			e[i] = GenOfType(r, t[2:], depth-1)
		}
		return GSeq(t, e...)
	case t[0] == '*':
		if r.Chance(1, 4) {
			return GNilOf(t)
		}
		return GPtr(t, GenOfType(r, t[1:], depth-1))
	case len(t) > 4 && t[:4] == "map[":
		if r.Chance(1, 8) {
			return GNilOf(t)
		}
		n := r.Range(0, 4)
		var ks []string
		if KeyExpr(t) == "string" {
			ks = GenKeys(r, n)
		} else {
			seen := map[int]bool{}
			for len(ks) < n {
				k := r.Range(-3, 40)
				if !seen[k] {
					seen[k] = true
					ks = append(ks, GInt64("int", int64(k)).I)
				}
			}
		}
		e := make([]GV, n)
		for i := range e {
			e[i] = GenOfType(r, ElemExpr(t), depth-1)
		}
		return GMap(t, ks, e)
	case t[0] == '[':
		n := ArrayLen(t)
		e := make([]GV, n)
		for i := range e {
			e[i] = GenOfType(r, ElemExpr(t), depth-1)
		}
		return GSeq(t, e...)
	}
	return GenScalar(r, t)
}

func GenTyped(r *gen.Rand, depth int) GV {
	et := ElemTypes[r.Intn(len(ElemTypes))]
	switch r.Intn(6) {
	case 0, 1, 2:
		return GenOfType(r, "[]"+et, depth)
	case 3:
		return GenOfType(r, []string{"[3]", "[2]", "[1]", "[0]"}[r.Intn(4)]+et, depth)
	case 4:
		return GenOfType(r, "map[string]"+et, depth)
	}
	return GenOfType(r, "map[int]"+[]string{"string", "int", "float64", "bool"}[r.Intn(4)], depth)
}

func GenS1(r *gen.Rand) GV {
	p := GNilOf("*Inner")
	if r.Bool() {
		p = GPtr("*Inner", GenOfType(r, "Inner", 0))
	}
	n := 0.0
	if r.Bool() {
		n = GenFloat64(r)
		if n != n || math.IsInf(n, 0) {
			n = 2.5
		}
	}
	return GV{T: "S1", E: []GV{
		GInt("int", GenIntIn(r, "int")),
		GStr("string", GenString(r)),
		GInt64("int", int64(r.Range(-5, 5))),
		GenOfType(r, "Inner", 0),
		p,
		GFloat("float32", GenFloat32(r)),
		GInt("uint8", GenIntIn(r, "uint8")),
		GInt("uint64", GenIntIn(r, "uint64")),
		GenOfType(r, "[]int", 1),
		GenOfType(r, "map[string]int", 1),
		GenAny(r, 1),
		GInt64("int", int64(r.Range(0, 9))),
		GFloat("float64", n),
	}}
}
