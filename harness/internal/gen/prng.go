// Package gen holds the deterministic PRNG and shared value sets used by all
// workloads. Case i of a run is a pure function of (seed, property, i).
package gen

import "math"

// Rand is splitmix64.
type Rand struct{ s uint64 }

func mix(z uint64) uint64 {
	z += 0x9e3779b97f4a7c15
	z = (z ^ (z >> 30)) * 0xbf58476d1ce4e5b9
	z = (z ^ (z >> 27)) * 0x94d049bb133111eb
	return z ^ (z >> 31)
}

// HashString is FNV-1a 64.
func HashString(s string) uint64 {
	h := uint64(14695981039346656037)
	for i := 0; i < len(s); i++ {
		h ^= uint64(s[i])
		h *= 1099511628211
	}
	return h
}

// New derives a generator from a seed, a label and an index.
func New(seed uint64, label string, idx int) *Rand {
	return &Rand{s: mix(mix(seed)^HashString(label)) ^ mix(uint64(idx)*0x9e3779b97f4a7c15+1)}
}

func (r *Rand) Uint64() uint64 {
	r.s += 0x9e3779b97f4a7c15
	z := r.s
	z = (z ^ (z >> 30)) * 0xbf58476d1ce4e5b9
	z = (z ^ (z >> 27)) * 0x94d049bb133111eb
	return z ^ (z >> 31)
}

// Intn returns a value in [0,n). n must be > 0.
func (r *Rand) Intn(n int) int { return int(r.Uint64() % uint64(n)) }

// Range returns a value in [lo,hi].
func (r *Rand) Range(lo, hi int) int { return lo + r.Intn(hi-lo+1) }

func (r *Rand) Bool() bool { return r.Uint64()&1 == 1 }

// Chance is true with probability num/den.
func (r *Rand) Chance(num, den int) bool { return r.Intn(den) < num }

func (r *Rand) Float64() float64 { return float64(r.Uint64()>>11) / (1 << 53) }

// Bits returns a double with a random bit pattern.
func (r *Rand) Bits() float64 { return math.Float64frombits(r.Uint64()) }

// Pick returns a random element of a string slice.
func (r *Rand) Pick(xs []string) string { return xs[r.Intn(len(xs))] }

// Weighted picks an index with the given integer weights.
func (r *Rand) Weighted(w []int) int {
	t := 0
	for _, x := range w {
		t += x
	}
	n := r.Intn(t)
	for i, x := range w {
		if n < x {
			return i
		}
		n -= x
	}
	return len(w) - 1
}

// Perm returns a permutation of 0..n-1.
func (r *Rand) Perm(n int) []int {
	p := make([]int, n)
	for i := range p {
		p[i] = i
	}
	for i := n - 1; i > 0; i-- {
		j := r.Intn(i + 1)
		p[i], p[j] = p[j], p[i]
	}
	return p
}
