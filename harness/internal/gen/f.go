package gen

import (
	"encoding/json"
	"math"
	"strconv"
)

// F is a float64 that survives JSON (NaN, infinities, -0).
type F float64

func (f F) MarshalJSON() ([]byte, error) {
	x := float64(f)
	switch {
	case x != x:
		return []byte(`"NaN"`), nil
	case math.IsInf(x, 1):
		return []byte(`"Infinity"`), nil
	case math.IsInf(x, -1):
		return []byte(`"-Infinity"`), nil
	case x == 0 && math.Signbit(x):
		return []byte(`"-0"`), nil
	}
	return []byte(`"` + strconv.FormatFloat(x, 'g', -1, 64) + `"`), nil
}

func (f *F) UnmarshalJSON(b []byte) error {
	var s string
	if err := json.Unmarshal(b, &s); err != nil {
		var x float64
		if err2 := json.Unmarshal(b, &x); err2 != nil {
			return err
		}
		*f = F(x)
		return nil
	}
	switch s {
	case "NaN":
		*f = F(math.NaN())
	case "Infinity":
		*f = F(math.Inf(1))
	case "-Infinity":
		*f = F(math.Inf(-1))
	case "-0":
		*f = F(math.Copysign(0, -1))
	default:
		x, err := strconv.ParseFloat(s, 64)
		if err != nil {
			return err
		}
		*f = F(x)
	}
	return nil
}
