// Package es5table is a hand transcription of the shape of the ECMAScript 5.1
// standard library (ECMA-262 5.1 edition, clauses 15.1 - 15.12, plus the
// informative Annex B.2 additions, flagged AnnexB): every specified property
// with its owner, kind, function length, attribute triple, [[Class]],
// [[Prototype]] link, identity links (X.prototype.constructor === X), initial
// values of constants, and one distinguishing call per function.
//
// Sources of the defaults (clause 15, introductory text):
//   - "Every built-in Function object ... has a length property ... Unless
//     otherwise specified ... the largest number of named arguments shown in
//     the subclause headings for the function description, including optional
//     parameters."  The length property has the attributes
//     { [[Writable]]: false, [[Enumerable]]: false, [[Configurable]]: false }.
//   - "Every other property described in this clause has the attributes
//     { [[Writable]]: true, [[Enumerable]]: false, [[Configurable]]: true }
//     unless otherwise specified."
//   - "None of the built-in functions described in this clause that are not
//     constructors shall implement the [[Construct]] internal method unless
//     otherwise specified ... None of the built-in functions described in this
//     clause shall have a prototype property unless otherwise specified."
//   - every built-in function and constructor has Function.prototype as its
//     [[Prototype]]; every built-in prototype object has Object.prototype
//     (except Object.prototype itself: null); [[Extensible]] is true.
//
// The package does not import otto. Expected setter results are computed with
// internal/refdate (ES5.1 15.9.1 algebra, no package time).
package es5table

import (
	"fmt"
	"math"
	"strconv"

	"verif/internal/refdate"
)

// Kind of a property value.
type Kind string

const (
	Function    Kind = "function"    // built-in function that is not a constructor
	Constructor Kind = "constructor" // built-in constructor
	Value       Kind = "value"       // primitive value
	Object      Kind = "object"      // non-primitive that is specified as an object (prototype objects, Math, JSON)
	Accessor    Kind = "accessor"    // accessor property (none among the clause-15 named properties; used for bound-function poison pills)
)

// Attr is an attribute triple.
type Attr struct{ W, E, C bool }

func (a Attr) String() string {
	b := func(x bool, c string) string {
		if x {
			return c
		}
		return "-"
	}
	return b(a.W, "w") + b(a.E, "e") + b(a.C, "c")
}

var (
	// Dflt is the clause-15 default for data properties.
	Dflt = Attr{true, false, true}
	// None is all-false (constants, prototype links, length).
	None = Attr{false, false, false}
)

// Val is an expected primitive value.
type Val struct {
	T string // number | string | boolean | undefined
	N float64
	S string
	B bool
}

// Num renders a double injectively (a label only).
func Num(f float64) string {
	switch {
	case f != f:
		return "NaN"
	case math.IsInf(f, 1):
		return "Infinity"
	case math.IsInf(f, -1):
		return "-Infinity"
	case f == 0 && math.Signbit(f):
		return "-0"
	}
	return strconv.FormatFloat(f, 'g', -1, 64)
}

// Enc renders the value in the "tag:payload" form used by the harness.
func (v Val) Enc() string {
	switch v.T {
	case "number":
		return "n:" + Num(v.N)
	case "string":
		return "s:" + strconv.QuoteToASCII(v.S)
	case "boolean":
		return "b:" + strconv.FormatBool(v.B)
	}
	return "undefined"
}

// Spot is one input/output pair: Expr (over F, or V for non-function values; helpers RT, TH, J, K, CL) must
// evaluate to the value encoded by Want ("b:true", "n:42", `s:"x"`, "null",
// "undefined"; RT(fn) yields "throw:<ErrorName>" when fn throws).
type Spot struct{ Expr, Want string }

func (r *Row) also(expr, want string) *Row {
	r.Also = append(r.Also, Spot{expr, want})
	return r
}

// Row is one specified property.
type Row struct {
	Owner  string // JS path of the owner object; "global" for the global object
	Name   string
	Kind   Kind
	Clause string
	Attr   Attr
	Length int    // function / constructor: value of the own "length" property
	Class  string // expected [[Class]] of the value (function, constructor, object)
	Typeof string // expected typeof of the value
	Proto  string // expected [[Prototype]] of the value: a JS path or "null"
	Is     string // value must be identical (===) to this JS path
	Val    *Val   // kind value
	Pred   string // extra predicate over V (the value), must evaluate to true
	Call   string // distinguishing call: expression over F (the function), must evaluate to true
	// Also lists further input/output pairs of the same operation (error cases,
	// generic receivers). They are asserted one by one, separately from the
	// distinguishing call, so that a known semantic deviation of the operation
	// never hides a change of the binding itself.
	Also []Spot
	// Agree lists sibling names (same owner) that ES5.1 allows to satisfy the
	// same distinguishing call (extensionally equal or implementation-defined
	// results); the discrimination self-test skips them.
	Agree  []string
	TZ     int  // local zone offset in seconds east of UTC the call assumes (0: DefaultTZ)
	AnnexB bool // specified only by the informative Annex B.2: absence is not a deviation
	// NotCallable: an object that is neither function nor constructor (Math, JSON).
	NotCallable bool
}

// DefaultTZ is the local time zone offset (seconds east) assumed by the Date
// rows: +05:45:20, so that every local field differs from its UTC sibling.
const DefaultTZ = 5*3600 + 45*60 + 20

// Key identifies a row.
func (r *Row) Key() string { return r.Owner + "." + r.Name }

// OwnerExpr is the JS expression that evaluates to the owner at global level.
func (r *Row) OwnerExpr() string {
	if r.Owner == "global" {
		return "this"
	}
	return r.Owner
}

// AttrAssertions is the number of attribute assertions the row carries.
func (r *Row) AttrAssertions() int {
	n := 3
	if r.Kind == Function || r.Kind == Constructor {
		n += 3 // attributes of the own length property
	}
	return n
}

// Time values used by the Date rows.
const (
	// T1 = 2000-12-31T23:30:15.123Z (a Sunday); local (+05:45:20) 2001-01-01T05:15:35.123.
	T1 = 978305415123
	// T2 = 2001-07-31T22:40:50.123Z (a Tuesday); local (+05:45:20) 2001-08-01T04:26:10.123 (a Wednesday).
	T2 = 996619250123
)

// Rows is the table.
var Rows []Row

var byKey = map[string]*Row{}

// Lookup finds a row by key.
func Lookup(key string) *Row { return byKey[key] }

// ---------------------------------------------------------------- builders

func add(r Row) *Row {
	Rows = append(Rows, r)
	return &Rows[len(Rows)-1]
}

func fn(owner, name string, length int, clause, call string, agree ...string) *Row {
	return add(Row{Owner: owner, Name: name, Kind: Function, Clause: clause, Attr: Dflt, Length: length,
		Class: "Function", Typeof: "function", Proto: "Function.prototype", Call: call, Agree: agree})
}

func ctor(owner, name string, length int, clause, call string) *Row {
	return add(Row{Owner: owner, Name: name, Kind: Constructor, Clause: clause, Attr: Dflt, Length: length,
		Class: "Function", Typeof: "function", Proto: "Function.prototype", Call: call})
}

func num(owner, name string, v float64, clause string, a Attr) *Row {
	return add(Row{Owner: owner, Name: name, Kind: Value, Clause: clause, Attr: a, Val: &Val{T: "number", N: v}})
}

func str(owner, name string, v string, clause string, a Attr) *Row {
	return add(Row{Owner: owner, Name: name, Kind: Value, Clause: clause, Attr: a, Val: &Val{T: "string", S: v}})
}

func boolean(owner, name string, v bool, clause string, a Attr) *Row {
	return add(Row{Owner: owner, Name: name, Kind: Value, Clause: clause, Attr: a, Val: &Val{T: "boolean", B: v}})
}

// proto adds the row "<C>.prototype".
func proto(c, clause, class, parent, pred string) *Row {
	t := "object"
	if class == "Function" {
		t = "function"
	}
	return add(Row{Owner: c, Name: "prototype", Kind: Object, Clause: clause, Attr: None, Class: class, Typeof: t, Proto: parent, Pred: pred})
}

// constructorLink adds the row "<C>.prototype.constructor".
func constructorLink(c, clause string, length int) *Row {
	return add(Row{Owner: c + ".prototype", Name: "constructor", Kind: Constructor, Clause: clause, Attr: Dflt, Length: length,
		Class: "Function", Typeof: "function", Proto: "Function.prototype", Is: c})
}

func f64(x float64) string { return strconv.FormatFloat(x, 'f', 0, 64) }

// setExp computes the ES5.1 result of Date.prototype.<setter>(args...) applied
// to a Date with time value t, for a fixed LocalTZA (15.9.5.27-41).
func setExp(t float64, method string, local bool, args ...float64) float64 {
	tza := float64(DefaultTZ) * 1000
	if !local {
		tza = 0
	}
	lt := t + tza
	y, mo, d := refdate.YearFromTime(lt), refdate.MonthFromTime(lt), refdate.DateFromTime(lt)
	h, mi, s, ms := refdate.HourFromTime(lt), refdate.MinFromTime(lt), refdate.SecFromTime(lt), refdate.MsFromTime(lt)
	a := args[0]
	switch method {
	case "ms":
		ms = a
	case "s":
		s = a
	case "min":
		mi = a
	case "h":
		h = a
	case "date":
		d = a
	case "month":
		mo = a
	case "year":
		y = a
	default:
		panic(method)
	}
	nd := refdate.MakeDate(refdate.MakeDay(y, mo, d), refdate.MakeTime(h, mi, s, ms))
	return refdate.TimeClip(nd - tza)
}

func getter(name string, t float64, exp float64, clause string, agree ...string) *Row {
	return fn("Date.prototype", name, 0, clause,
		fmt.Sprintf(`F.call(new Date(%s))===%s && TH(function(){F.call({})})==="TypeError" && (function(){var x=F.call(new Date(0/0));return x!==x})()`, f64(t), f64(exp)), agree...)
}

func setter(name string, length int, clause string, method string, local bool, arg float64, agree ...string) *Row {
	return setterAt(T2, name, length, clause, method, local, arg, agree...)
}

func setterAt(base float64, name string, length int, clause string, method string, local bool, arg float64, agree ...string) *Row {
	exp := setExp(base, method, local, arg)
	return fn("Date.prototype", name, length, clause,
		fmt.Sprintf(`(function(){var d=new Date(%s);var r=F.call(d,%s);return r===%s&&d.getTime()===%s&&TH(function(){F.call({},1)})==="TypeError"})()`,
			f64(base), f64(arg), f64(exp), f64(exp)), agree...)
}

// NativeErrors in the order of 15.1.4.10-15.
var NativeErrors = []string{"EvalError", "RangeError", "ReferenceError", "SyntaxError", "TypeError", "URIError"}

// Constructors in the order of 15.1.4.
var Constructors = []string{"Object", "Function", "Array", "String", "Boolean", "Number", "Date", "RegExp", "Error",
	"EvalError", "RangeError", "ReferenceError", "SyntaxError", "TypeError", "URIError"}

func init() {
	build()
	for i := range Rows {
		r := &Rows[i]
		if _, dup := byKey[r.Key()]; dup {
			panic("es5table: duplicate row " + r.Key())
		}
		byKey[r.Key()] = r
	}
}

func build() {
	const g = "global"

	// ------------------------------------------------------------ 15.1 global object
	num(g, "NaN", math.NaN(), "15.1.1.1", None)
	num(g, "Infinity", math.Inf(1), "15.1.1.2", None)
	add(Row{Owner: g, Name: "undefined", Kind: Value, Clause: "15.1.1.3", Attr: None, Val: &Val{T: "undefined"}})

	fn(g, "eval", 1, "15.1.2.1", `F("1+2")===3 && F(5)===5`)
	fn(g, "parseInt", 2, "15.1.2.2", `F("11",2)===3 && F("1.5e1")===1 && F("0x1F")===31`)
	fn(g, "parseFloat", 1, "15.1.2.3", `F("1.5e1x")===15 && F("0x1F")===0`)
	fn(g, "isNaN", 1, "15.1.2.4", `F("x")===true && F("1")===false && F(1/0)===false`)
	fn(g, "isFinite", 1, "15.1.2.5", `F("1")===true && F("x")===false && F(1/0)===false`)
	fn(g, "decodeURI", 1, "15.1.3.1", `F("%41%2F")==="A%2F"`)
	fn(g, "decodeURIComponent", 1, "15.1.3.2", `F("%41%2F")==="A/" && F("%C4%80")==="\u0100"`)
	fn(g, "encodeURI", 1, "15.1.3.3", `F("a b/")==="a%20b/" && F("\u0100")==="%C4%80"`)
	fn(g, "encodeURIComponent", 1, "15.1.3.4", `F("a b/")==="a%20b%2F"`)

	ctorCalls := map[string]string{
		"Object":   `typeof F()==="object" && F(1) instanceof Number && new F("s") instanceof String && (function(){var o={};return F(o)===o&&new F(o)===o})()`,
		"Function": `F("a","b","return a+b")(1,2)===3 && new F("return 7")()===7 && TH(function(){F("(")})==="SyntaxError"`,
		"Array":    `J(F(3))==="_,_,_" && J(F(1,2))==="1,2" && J(new F("3"))==="3" && TH(function(){F(-1)})==="RangeError"`,
		"String":   `F(12)==="12" && F()==="" && typeof new F("ab")==="object" && new F("ab").length===2`,
		"Boolean":  `F(1)===true && F()===false && typeof new F(0)==="object" && new F(0).valueOf()===false`,
		"Number":   `F("12")===12 && F()===0 && typeof new F(1)==="object" && new F(5).valueOf()===5`,
		"Date": `typeof F(0)==="string" && new F(` + f64(T2) + `).getTime()===` + f64(T2) + ` && new F(2001,7,1,4,26,10,123).getTime()===` + f64(T2) +
			` && new F("2001-07-31T22:40:50.123Z").getTime()===` + f64(T2),
		"RegExp": `(function(){var r=F("a+","g");return r.source==="a+"&&r.global===true&&r.ignoreCase===false&&r.lastIndex===0&&r.test("caat")&&new F(r)!==r&&F(r)===r})()`,
	}
	errCall := func(name string) string {
		return `(function(){var e=F("m"),n=new F();return e instanceof F&&e instanceof Error&&e.message==="m"&&CL(e)==="[object Error]"&&Object.getPrototypeOf(e)===F.prototype` +
			`&&Object.getOwnPropertyDescriptor(n,"message")===undefined&&n.message===""&&new F(5).message==="5"&&e.name==="` + name + `"&&e.toString()==="` + name + `: m"})()`
	}
	ctorLen := map[string]int{"Object": 1, "Function": 1, "Array": 1, "String": 1, "Boolean": 1, "Number": 1, "Date": 7, "RegExp": 2, "Error": 1}
	for i, c := range Constructors {
		call, ok := ctorCalls[c]
		if !ok {
			call = errCall(c)
		}
		l, ok := ctorLen[c]
		if !ok {
			l = 1
		}
		row := ctor(g, c, l, fmt.Sprintf("15.1.4.%d", i+1), call)
		if c == "RegExp" {
			row.also(`RT(function(){return F("(")})`, `s:"throw:SyntaxError"`) // 15.10.4.1
		}
	}
	add(Row{Owner: g, Name: "Math", Kind: Object, Clause: "15.1.5.1", Attr: Dflt, Class: "Math", Typeof: "object", Proto: "Object.prototype", NotCallable: true})
	add(Row{Owner: g, Name: "JSON", Kind: Object, Clause: "15.1.5.2", Attr: Dflt, Class: "JSON", Typeof: "object", Proto: "Object.prototype", NotCallable: true})

	// Annex B.2.1, B.2.2
	fn(g, "escape", 1, "B.2.1", `F("a b/\u0100")==="a%20b/%u0100"`).AnnexB = true
	fn(g, "unescape", 1, "B.2.2", `F("%u0100%41")==="\u0100A"`).AnnexB = true

	// ------------------------------------------------------------ 15.2 Object
	proto("Object", "15.2.3.1", "Object", "null", ``)
	fn("Object", "getPrototypeOf", 1, "15.2.3.2", `F([])===Array.prototype && F(Object.prototype)===null && TH(function(){F(1)})==="TypeError"`)
	fn("Object", "getOwnPropertyDescriptor", 2, "15.2.3.3",
		`(function(){var d=F({a:1},"a");return d.value===1&&d.writable===true&&d.enumerable===true&&d.configurable===true&&F({},"a")===undefined&&TH(function(){F(1,"a")})==="TypeError"})()`)
	fn("Object", "getOwnPropertyNames", 1, "15.2.3.4", `J(F([5]).sort())==="0,length"`).
		also(`RT(function(){return F(1)})`, `s:"throw:TypeError"`) // step 1
	fn("Object", "create", 2, "15.2.3.5",
		`(function(){var p={x:1};var o=F(p,{y:{value:2}});return Object.getPrototypeOf(o)===p&&o.y===2&&o.x===1&&K(o)==="x"&&Object.getPrototypeOf(F(null))===null&&TH(function(){F(1)})==="TypeError"})()`)
	fn("Object", "defineProperty", 3, "15.2.3.6",
		`(function(){var o={};var r=F(o,"a",{value:1});return r===o&&o.a===1&&K(o)===""&&TH(function(){F(1,"a",{})})==="TypeError"})()`)
	fn("Object", "defineProperties", 2, "15.2.3.7",
		`(function(){var o={};var r=F(o,{a:{value:1,enumerable:true},b:{value:2}});return r===o&&o.a===1&&o.b===2&&K(o)==="a"})()`)
	fn("Object", "seal", 1, "15.2.3.8",
		`(function(){var o={a:1};var r=F(o);o.a=2;o.b=1;var d=delete o.a;return r===o&&o.a===2&&d===false&&!("b" in o)})()`)
	fn("Object", "freeze", 1, "15.2.3.9",
		`(function(){var o={a:1};var r=F(o);o.a=2;o.b=1;var d=delete o.a;return r===o&&o.a===1&&d===false&&!("b" in o)})()`)
	fn("Object", "preventExtensions", 1, "15.2.3.10",
		`(function(){var o={a:1};var r=F(o);o.b=1;var d=delete o.a;return r===o&&d===true&&!("a" in o)&&!("b" in o)})()`)
	fn("Object", "isSealed", 1, "15.2.3.11",
		`F({})===false && F(Object.seal({a:1}))===true && F(Object.preventExtensions({a:1}))===false && F(Object.preventExtensions({}))===true`)
	fn("Object", "isFrozen", 1, "15.2.3.12",
		`F({})===false && F(Object.freeze({a:1}))===true && F(Object.seal({a:1}))===false && F(Object.preventExtensions({}))===true`)
	fn("Object", "isExtensible", 1, "15.2.3.13", `F({})===true && F(Object.preventExtensions({}))===false && TH(function(){F(1)})==="TypeError"`)
	fn("Object", "keys", 1, "15.2.3.14", `J(F([5]))==="0" && J(F({a:1}))==="a" && TH(function(){F(1)})==="TypeError"`)

	constructorLink("Object", "15.2.4.1", 1)
	fn("Object.prototype", "toString", 0, "15.2.4.2",
		`F.call([])==="[object Array]" && F.call(null)==="[object Null]" && F.call({toString:function(){return "x"}})==="[object Object]" && F.call(1)==="[object Number]"`).
		also(`F.call(undefined)`, `s:"[object Undefined]"`) // step 1
	fn("Object.prototype", "toLocaleString", 0, "15.2.4.3", `F.call({toString:function(){return "x"}})==="x" && TH(function(){F.call({toString:1})})==="TypeError"`)
	fn("Object.prototype", "valueOf", 0, "15.2.4.4", `(function(){var o={};return F.call(o)===o && F.call(1) instanceof Number && TH(function(){F.call(null)})==="TypeError"})()`)
	fn("Object.prototype", "hasOwnProperty", 1, "15.2.4.5", `F.call({a:1},"a")===true && F.call({a:1},"toString")===false && F.call([],"length")===true`)
	fn("Object.prototype", "isPrototypeOf", 1, "15.2.4.6", `F.call(Object.prototype,{})===true && F.call({},{})===false && F.call(Object.prototype,1)===false`)
	fn("Object.prototype", "propertyIsEnumerable", 1, "15.2.4.7", `F.call({a:1},"a")===true && F.call([],"length")===false && F.call({},"toString")===false`)

	// ------------------------------------------------------------ 15.3 Function
	// 15.3.3.2 Function.length is carried by the constructor row (Length 1).
	proto("Function", "15.3.3.1", "Function", "Object.prototype", `V()===undefined && V(1,2)===undefined && GOPD(V,"valueOf")===undefined`)
	constructorLink("Function", "15.3.4.1", 1)
	// 15.3.4: "The length property of the Function prototype object is 0"; it is a Function object, so 15.3.5.1 gives the attributes.
	num("Function.prototype", "length", 0, "15.3.4", None)
	fn("Function.prototype", "toString", 0, "15.3.4.2", `typeof F.call(function(){})==="string" && TH(function(){F.call({})})==="TypeError"`)
	fn("Function.prototype", "apply", 2, "15.3.4.3",
		`F.call(function(a,b){return this.x+a+b},{x:1},[2,3])===6 && TH(function(){F.call(function(){},null,1)})==="TypeError" && TH(function(){F.call({},null,[])})==="TypeError"`)
	fn("Function.prototype", "call", 1, "15.3.4.4", `F.call(function(a,b){return this.x+a+b},{x:1},2,3)===6 && TH(function(){F.call({},null)})==="TypeError"`)
	fn("Function.prototype", "bind", 1, "15.3.4.5",
		`(function(){var g=F.call(function(a,b){return this.x+a+b},{x:1},2);return typeof g==="function"&&g(3)===6&&TH(function(){F.call({},null)})==="TypeError"})()`)

	// ------------------------------------------------------------ 15.4 Array
	proto("Array", "15.4.3.1", "Array", "Object.prototype", `V.length===0`)
	fn("Array", "isArray", 1, "15.4.3.2", `F([])===true && F({length:0})===false && F(Array.prototype)===true && F()===false`)
	constructorLink("Array", "15.4.4.1", 1)
	// Array.prototype is an Array (15.4.4): its own length is 0 with the attributes of 15.4.5.2.
	num("Array.prototype", "length", 0, "15.4.4", Attr{true, false, false})
	const ap = "Array.prototype"
	fn(ap, "toString", 0, "15.4.4.2", `F.call([1,[2,3]])==="1,2,3" && F.call({join:function(){return "j"}})==="j" && F.call({})==="[object Object]"`).
		also(`F.call([1,2],"-")`, `s:"1,2"`) // step 4: join is called with an empty argument list
	fn(ap, "toLocaleString", 0, "15.4.4.3", `F.call([{toLocaleString:function(){return "L"},toString:function(){return "S"}}])==="L" && F.call([null])==="" && F.call([])===""`)
	fn(ap, "concat", 1, "15.4.4.4", `J(F.call([1],[2,3],4))==="1,2,3,4"`)
	fn(ap, "join", 1, "15.4.4.5", `F.call([1,null,undefined,2],"-")==="1---2" && F.call([1,2])==="1,2" && F.call({length:2,0:"a",1:"b"},"+")==="a+b"`)
	fn(ap, "pop", 0, "15.4.4.6", `(function(){var a=[1,2,3];var r=F.call(a);return r===3&&J(a)==="1,2"})()`)
	fn(ap, "push", 1, "15.4.4.7", `(function(){var a=[1];var r=F.call(a,2,3);return r===3&&J(a)==="1,2,3"})()`)
	fn(ap, "reverse", 0, "15.4.4.8", `(function(){var a=[1,2,3];var r=F.call(a);return r===a&&J(a)==="3,2,1"})()`)
	fn(ap, "shift", 0, "15.4.4.9", `(function(){var a=[1,2,3];var r=F.call(a);return r===1&&J(a)==="2,3"})()`)
	fn(ap, "slice", 2, "15.4.4.10", `(function(){var a=[1,2,3,4];var r=F.call(a,1,-1);return J(r)==="2,3"&&J(a)==="1,2,3,4"})()`)
	fn(ap, "sort", 1, "15.4.4.11", `(function(){var a=[3,1,10,2];var r=F.call(a);return r===a&&J(a)==="1,10,2,3"&&J(F.call([3,1,10,2],function(x,y){return x-y}))==="1,2,3,10"})()`)
	fn(ap, "splice", 2, "15.4.4.12", `(function(){var a=[1,2,3,4];var r=F.call(a,1,2,9);return J(r)==="2,3"&&J(a)==="1,9,4"})()`)
	fn(ap, "unshift", 1, "15.4.4.13", `(function(){var a=[3];var r=F.call(a,1,2);return r===3&&J(a)==="1,2,3"})()`)
	fn(ap, "indexOf", 1, "15.4.4.14", `F.call([1,2,1,2],2)===1 && F.call([1,2,1,2],2,2)===3 && F.call([0/0],0/0)===-1`)
	fn(ap, "lastIndexOf", 1, "15.4.4.15", `F.call([1,2,1,2],2)===3 && F.call([1,2,1,2],2,2)===1`)
	fn(ap, "every", 1, "15.4.4.16", `F.call([1,2,3],function(x){return x<3})===false && F.call([1,2],function(x){return x<3})===true && F.call([],function(){return false})===true && TH(function(){F.call([],1)})==="TypeError"`)
	fn(ap, "some", 1, "15.4.4.17", `F.call([1,2,3],function(x){return x>2})===true && F.call([1],function(x){return x>2})===false && F.call([],function(){return true})===false`)
	fn(ap, "forEach", 1, "15.4.4.18", `(function(){var s=0;var r=F.call([1,2,3],function(x,i,a){s+=x*i+a.length});return r===undefined&&s===17})()`)
	fn(ap, "map", 1, "15.4.4.19", `J(F.call([1,2,3],function(x){return x*2}))==="2,4,6"`)
	fn(ap, "filter", 1, "15.4.4.20", `J(F.call([1,2,3],function(x){return x!==2}))==="1,3"`)
	fn(ap, "reduce", 1, "15.4.4.21", `F.call(["a","b","c"],function(p,c){return p+c})==="abc" && F.call([],function(){},7)===7 && TH(function(){F.call([],function(){})})==="TypeError"`)
	fn(ap, "reduceRight", 1, "15.4.4.22", `F.call(["a","b","c"],function(p,c){return p+c})==="cba" && TH(function(){F.call([],function(){})})==="TypeError"`)

	// ------------------------------------------------------------ 15.5 String
	proto("String", "15.5.3.1", "String", "Object.prototype", `V.length===0 && String.prototype.valueOf.call(V)===""`)
	fn("String", "fromCharCode", 1, "15.5.3.2", `F(97,0x10062)==="ab" && F()===""`)
	constructorLink("String", "15.5.4.1", 1)
	// String.prototype is a String object whose value is "" (15.5.4): 15.5.5.1 length.
	num("String.prototype", "length", 0, "15.5.4", None)
	const sp = "String.prototype"
	fn(sp, "toString", 0, "15.5.4.2", `F.call("ab")==="ab" && F.call(new String("ab"))==="ab" && TH(function(){F.call(1)})==="TypeError"`, "valueOf")
	fn(sp, "valueOf", 0, "15.5.4.3", `F.call("ab")==="ab" && F.call(new String("ab"))==="ab" && TH(function(){F.call(1)})==="TypeError"`, "toString")
	fn(sp, "charAt", 1, "15.5.4.4", `F.call(new String("abc"),1)==="b" && F.call(new String("abc"),5)===""`).
		also(`RT(function(){return F.call("abc",1)})`, `s:"b"`) // CheckObjectCoercible + ToString of a primitive receiver
	fn(sp, "charCodeAt", 1, "15.5.4.5", `(function(){var o=new String("abc");return F.call(o,1)===98 && F.call(o,5)!==F.call(o,5)})()`).
		also(`RT(function(){return F.call("abc",1)})`, `n:98`)
	fn(sp, "concat", 1, "15.5.4.6", `F.call("a","b",1)==="ab1"`)
	fn(sp, "indexOf", 1, "15.5.4.7", `F.call("abab","b")===1 && F.call("abab","b",2)===3`)
	fn(sp, "lastIndexOf", 1, "15.5.4.8", `F.call("abab","b")===3 && F.call("abab","b",2)===1`)
	fn(sp, "localeCompare", 1, "15.5.4.9", `F.call("a","a")===0 && F.call("a","b")<0 && F.call("b","a")>0`)
	fn(sp, "match", 1, "15.5.4.10", `(function(){var m=F.call("abcabc",/b(c)/);return m.index===1&&m[0]==="bc"&&m[1]==="c"&&J(F.call("abcabc",/b/g))==="b,b"&&F.call("a",/x/)===null})()`)
	fn(sp, "replace", 2, "15.5.4.11", `F.call("abcabc","b","X")==="aXcabc" && F.call("abcabc",/b/g,"$&$&")==="abbcabbc"`)
	fn(sp, "search", 1, "15.5.4.12", `F.call("abcabc",/c/)===2 && F.call("abc",/x/)===-1`)
	fn(sp, "slice", 2, "15.5.4.13", `F.call("abcdef",1,-1)==="bcde" && F.call("abcdef",4,1)===""`)
	fn(sp, "split", 2, "15.5.4.14", `(function(){var r=F.call("a,b,c",",");return r.length===3&&J(r)==="a,b,c"&&F.call("a,b,c",",",2).length===2&&J(F.call("ab",""))==="a,b"})()`)
	fn(sp, "substring", 2, "15.5.4.15", `F.call("abcdef",4,1)==="bcd" && F.call("abcdef",1,-1)==="a"`)
	fn(sp, "toLowerCase", 0, "15.5.4.16", `F.call("aB")==="ab"`, "toLocaleLowerCase")
	fn(sp, "toLocaleLowerCase", 0, "15.5.4.17", `F.call("aB")==="ab"`, "toLowerCase")
	fn(sp, "toUpperCase", 0, "15.5.4.18", `F.call("aB")==="AB"`, "toLocaleUpperCase")
	fn(sp, "toLocaleUpperCase", 0, "15.5.4.19", `F.call("aB")==="AB"`, "toUpperCase")
	fn(sp, "trim", 0, "15.5.4.20", `F.call(" \t\n\u00a0\ufeffa b\u2028 ")==="a b"`)
	fn(sp, "substr", 2, "B.2.3", `F.call("abcdef",1,2)==="bc" && F.call("abcdef",-2)==="ef"`).AnnexB = true

	// ------------------------------------------------------------ 15.6 Boolean
	proto("Boolean", "15.6.3.1", "Boolean", "Object.prototype", `Boolean.prototype.valueOf.call(V)===false`)
	constructorLink("Boolean", "15.6.4.1", 1)
	fn("Boolean.prototype", "toString", 0, "15.6.4.2", `F.call(true)==="true" && F.call(new Boolean(false))==="false" && TH(function(){F.call(1)})==="TypeError"`)
	fn("Boolean.prototype", "valueOf", 0, "15.6.4.3", `F.call(true)===true && F.call(new Boolean(false))===false && TH(function(){F.call(1)})==="TypeError"`)

	// ------------------------------------------------------------ 15.7 Number
	proto("Number", "15.7.3.1", "Number", "Object.prototype", `Number.prototype.valueOf.call(V)===0 && 1/Number.prototype.valueOf.call(V)===1/0`)
	num("Number", "MAX_VALUE", 1.7976931348623157e308, "15.7.3.2", None)
	num("Number", "MIN_VALUE", 5e-324, "15.7.3.3", None)
	num("Number", "NaN", math.NaN(), "15.7.3.4", None)
	num("Number", "NEGATIVE_INFINITY", math.Inf(-1), "15.7.3.5", None)
	num("Number", "POSITIVE_INFINITY", math.Inf(1), "15.7.3.6", None)
	constructorLink("Number", "15.7.4.1", 1)
	const np = "Number.prototype"
	fn(np, "toString", 1, "15.7.4.2", `F.call(255,16)==="ff" && F.call(new Number(5))==="5" && TH(function(){F.call("1")})==="TypeError" && TH(function(){F.call(1,1)})==="RangeError"`)
	fn(np, "toLocaleString", 0, "15.7.4.3", `typeof F.call(1)==="string" && TH(function(){F.call("1")})==="TypeError"`, "toString", "toFixed", "toExponential", "toPrecision")
	fn(np, "valueOf", 0, "15.7.4.4", `F.call(5)===5 && F.call(new Number(5))===5 && TH(function(){F.call("1")})==="TypeError"`)
	fn(np, "toFixed", 1, "15.7.4.5", `F.call(1.5,2)==="1.50" && F.call(1000,0)==="1000" && TH(function(){F.call(1,21)})==="RangeError"`)
	fn(np, "toExponential", 1, "15.7.4.6", `F.call(1.5e10,2)==="1.50e+10"`).
		also(`F.call(1.5,2)`, `s:"1.50e+0"`).also(`F.call(0,0)`, `s:"0e+0"`)
	fn(np, "toPrecision", 1, "15.7.4.7", `F.call(1.25,3)==="1.25" && F.call(1.5e10,2)==="1.5e+10" && TH(function(){F.call(1,0)})==="RangeError"`).
		also(`F.call(1.5,3)`, `s:"1.50"`).also(`F.call(123456,2)`, `s:"1.2e+5"`)

	// ------------------------------------------------------------ 15.8 Math
	const m = "Math"
	num(m, "E", 2.718281828459045, "15.8.1.1", None)
	num(m, "LN10", 2.302585092994046, "15.8.1.2", None)
	num(m, "LN2", 0.6931471805599453, "15.8.1.3", None)
	num(m, "LOG2E", 1.4426950408889634, "15.8.1.4", None)
	num(m, "LOG10E", 0.4342944819032518, "15.8.1.5", None)
	num(m, "PI", 3.141592653589793, "15.8.1.6", None)
	num(m, "SQRT1_2", 0.7071067811865476, "15.8.1.7", None)
	num(m, "SQRT2", 1.4142135623730951, "15.8.1.8", None)
	fn(m, "abs", 1, "15.8.2.1", `F(-2)===2 && 1/F(-0)===1/0 && F(-1/0)===1/0`)
	fn(m, "acos", 1, "15.8.2.2", `F(1)===0 && 1/F(1)===1/0 && F(2)!==F(2)`)
	fn(m, "asin", 1, "15.8.2.3", `F(0)===0 && 1/F(-0)===-1/0 && F(2)!==F(2)`)
	fn(m, "atan", 1, "15.8.2.4", `1/F(-0)===-1/0 && F(1/0)>1.5 && F(1/0)<1.6`)
	fn(m, "atan2", 2, "15.8.2.5", `F(0,1)===0 && F(1,0)>1.5 && F(1,0)<1.6 && F(0,-1)>3.1 && F(0,-1)<3.2 && 1/F(-0,1)===-1/0`)
	fn(m, "ceil", 1, "15.8.2.6", `F(0.25)===1 && 1/F(-0.5)===-1/0 && F(1.5)===2`)
	fn(m, "cos", 1, "15.8.2.7", `F(0)===1 && F(1/0)!==F(1/0)`)
	fn(m, "exp", 1, "15.8.2.8", `F(0)===1 && F(-1/0)===0 && F(1/0)===1/0`)
	fn(m, "floor", 1, "15.8.2.9", `F(0.5)===0 && F(-0.5)===-1 && F(1.5)===1`)
	fn(m, "log", 1, "15.8.2.10", `F(1)===0 && F(0)===-1/0 && F(-1)!==F(-1)`)
	fn(m, "max", 2, "15.8.2.11", `F(1,3,2)===3 && F()===-1/0 && 1/F(-0,0)===1/0 && F(1,0/0)!==F(1,0/0)`)
	fn(m, "min", 2, "15.8.2.12", `F(1,3,2)===1 && F()===1/0 && 1/F(0,-0)===-1/0 && F(1,0/0)!==F(1,0/0)`)
	fn(m, "pow", 2, "15.8.2.13", `F(2,10)===1024 && F(2,-1)===0.5 && F(7,0)===1 && F(0/0,0)===1`)
	fn(m, "random", 0, "15.8.2.14", `(function(){for(var i=0;i<20;i++){var x=F();if(!(typeof x==="number"&&x>=0&&x<1))return false}return true})()`)
	fn(m, "round", 1, "15.8.2.15", `F(0.5)===1 && F(0.25)===0 && F(-0.5)===0 && 1/F(-0.5)===-1/0 && F(2.5)===3 && F(-2.5)===-2`)
	fn(m, "sin", 1, "15.8.2.16", `1/F(-0)===-1/0 && F(1/0)!==F(1/0) && F(2)>0.9 && F(2)<0.92`)
	fn(m, "sqrt", 1, "15.8.2.17", `F(4)===2 && F(-1)!==F(-1) && 1/F(-0)===-1/0`)
	fn(m, "tan", 1, "15.8.2.18", `1/F(-0)===-1/0 && F(1/0)!==F(1/0) && F(2)<-2.1 && F(2)>-2.2`)

	// ------------------------------------------------------------ 15.9 Date
	// 15.9.5: "The Date prototype object is itself a Date object (its [[Class]] is "Date") whose [[PrimitiveValue]] is NaN."
	proto("Date", "15.9.4.1", "Date", "Object.prototype", `typeof Date.prototype.getTime.call(V)==="number"`).
		also(`Date.prototype.getTime.call(V)`, "n:NaN")
	fn("Date", "parse", 1, "15.9.4.2", `F("2001-07-31T22:40:50.123Z",0)===`+f64(T2)+` && F("x",0)!==F("x",0)`)
	fn("Date", "UTC", 7, "15.9.4.3", `F(2001,6,31,22,40,50,123)===`+f64(T2)+` && F(99,0)===915148800000`)
	fn("Date", "now", 0, "15.9.4.4", `(function(){var a=F("x");return typeof a==="number"&&a===a&&a-a===0&&a%1===0})()`)
	constructorLink("Date", "15.9.5.1", 7)
	const dp = "Date.prototype"
	roundTrip := `(function(){var t=` + f64(T2-123) + `;return typeof F.call(new Date(t))==="string"&&Date.parse(F.call(new Date(t)))===t&&TH(function(){F.call({toISOString:function(){return "x"}})})==="TypeError"})()`
	strOnly := `typeof F.call(new Date(` + f64(T2) + `))==="string" && TH(function(){F.call({toISOString:function(){return "x"}})})==="TypeError"`
	textual := []string{"toString", "toDateString", "toTimeString", "toLocaleString", "toLocaleDateString", "toLocaleTimeString", "toUTCString", "toISOString", "toGMTString"}
	without := func(xs []string, x string) []string {
		var o []string
		for _, y := range xs {
			if y != x {
				o = append(o, y)
			}
		}
		return o
	}
	parseable := []string{"toUTCString", "toISOString", "toGMTString"}
	// 15.9.4.2 requires Date.parse(x.toString()) to round-trip, but the text is implementation-dependent and here depends on
	// the name the harness gave the zone; the round trip is asserted only for the UTC forms.
	fn(dp, "toString", 0, "15.9.5.2", strOnly, without(textual, "toString")...)
	fn(dp, "toDateString", 0, "15.9.5.3", strOnly, without(textual, "toDateString")...)
	fn(dp, "toTimeString", 0, "15.9.5.4", strOnly, without(textual, "toTimeString")...)
	fn(dp, "toLocaleString", 0, "15.9.5.5", strOnly, without(textual, "toLocaleString")...)
	fn(dp, "toLocaleDateString", 0, "15.9.5.6", strOnly, without(textual, "toLocaleDateString")...)
	fn(dp, "toLocaleTimeString", 0, "15.9.5.7", strOnly, without(textual, "toLocaleTimeString")...)
	getter("valueOf", T2, T2, "15.9.5.8", "getTime")
	getter("getTime", T2, T2, "15.9.5.9", "valueOf")
	getter("getFullYear", T1, 2001, "15.9.5.10")
	getter("getUTCFullYear", T1, 2000, "15.9.5.11")
	getter("getMonth", T2, 7, "15.9.5.12")
	getter("getUTCMonth", T2, 6, "15.9.5.13")
	getter("getDate", T2, 1, "15.9.5.14")
	getter("getUTCDate", T2, 31, "15.9.5.15")
	getter("getDay", T2, 3, "15.9.5.16")
	getter("getUTCDay", T2, 2, "15.9.5.17")
	getter("getHours", T2, 4, "15.9.5.18")
	getter("getUTCHours", T2, 22, "15.9.5.19")
	getter("getMinutes", T2, 26, "15.9.5.20")
	getter("getUTCMinutes", T2, 40, "15.9.5.21")
	getter("getSeconds", T2, 10, "15.9.5.22")
	getter("getUTCSeconds", T2, 50, "15.9.5.23")
	getter("getMilliseconds", T2, 123, "15.9.5.24", "getUTCMilliseconds")
	getter("getUTCMilliseconds", T2, 123, "15.9.5.25", "getMilliseconds")
	getter("getTimezoneOffset", T2, -345, "15.9.5.26").TZ = 5*3600 + 45*60
	fn(dp, "setTime", 1, "15.9.5.27", `(function(){var d=new Date(`+f64(T2)+`);var r=F.call(d,5);return r===5&&d.getTime()===5&&TH(function(){F.call({},1)})==="TypeError"})()`)
	setter("setMilliseconds", 1, "15.9.5.28", "ms", true, 7, "setUTCMilliseconds")
	setter("setUTCMilliseconds", 1, "15.9.5.29", "ms", false, 7, "setMilliseconds")
	setter("setSeconds", 2, "15.9.5.30", "s", true, 7)
	setter("setUTCSeconds", 2, "15.9.5.31", "s", false, 7)
	setter("setMinutes", 3, "15.9.5.32", "min", true, 7)
	setter("setUTCMinutes", 3, "15.9.5.33", "min", false, 7)
	setter("setHours", 4, "15.9.5.34", "h", true, 7)
	setter("setUTCHours", 4, "15.9.5.35", "h", false, 7)
	setter("setDate", 1, "15.9.5.36", "date", true, 7)
	setter("setUTCDate", 1, "15.9.5.37", "date", false, 7)
	setter("setMonth", 2, "15.9.5.38", "month", true, 0)
	setter("setUTCMonth", 2, "15.9.5.39", "month", false, 0)
	// the year setters start from T1, where the local and the UTC year differ
	setterAt(T1, "setFullYear", 3, "15.9.5.40", "year", true, 98)
	setterAt(T1, "setUTCFullYear", 3, "15.9.5.41", "year", false, 98)
	fn(dp, "toUTCString", 0, "15.9.5.42", roundTrip, without(parseable, "toUTCString")...)
	fn(dp, "toISOString", 0, "15.9.5.43", `F.call(new Date(`+f64(T2)+`))==="2001-07-31T22:40:50.123Z" && TH(function(){F.call({toISOString:function(){return "x"}})})==="TypeError"`).
		also(`RT(function(){return F.call(new Date(0/0))})`, `s:"throw:RangeError"`)
	fn(dp, "toJSON", 1, "15.9.5.44", `F.call(new Date(`+f64(T2)+`))==="2001-07-31T22:40:50.123Z" && F.call(new Date(0/0))===null`).
		also(`RT(function(){return F.call({toISOString:function(){return 42}})})`, `n:42`) // generic: steps 2-6
	// Annex B.2.4-B.2.6
	getter("getYear", T1, 101, "B.2.4").AnnexB = true
	{
		exp := setExp(T2, "year", true, 1998)
		r := fn(dp, "setYear", 1, "B.2.5", fmt.Sprintf(`(function(){var d=new Date(%s);var r=F.call(d,98);return r===%s&&d.getTime()===%s})()`, f64(T2), f64(exp), f64(exp)))
		r.AnnexB = true
	}
	fn(dp, "toGMTString", 0, "B.2.6", roundTrip, without(parseable, "toGMTString")...).AnnexB = true

	// ------------------------------------------------------------ 15.10 RegExp
	// 15.10.6: RegExp.prototype is itself a RegExp whose data properties are those of new RegExp().
	proto("RegExp", "15.10.5.1", "RegExp", "Object.prototype", ``).
		also(`RT(function(){return RegExp.prototype.test.call(V,"")})`, "b:true").
		also(`RT(function(){return RegExp.prototype.exec.call(V,"abc").index})`, "n:0")
	constructorLink("RegExp", "15.10.6.1", 2)
	const rp = "RegExp.prototype"
	fn(rp, "exec", 1, "15.10.6.2", `(function(){var m=F.call(/b(c)?/,"abd");return m.index===1&&m[0]==="b"&&m[1]===undefined&&m.input==="abd"&&m.length===2&&F.call(/x/,"a")===null&&TH(function(){F.call({},"a")})==="TypeError"})()`)
	fn(rp, "test", 1, "15.10.6.3", `F.call(/b/,"abc")===true && F.call(/x/,"abc")===false && TH(function(){F.call({},"a")})==="TypeError"`)
	fn(rp, "toString", 0, "15.10.6.4", `F.call(/a+/gim)==="/a+/gim" && F.call(/a\/b/)==="/a\\/b/"`).
		also(`RT(function(){return F.call({})})`, `s:"throw:TypeError"`)
	add(Row{Owner: rp, Name: "source", Kind: Value, Clause: "15.10.7.1", Attr: None, Pred: `typeof V==="string" && new RegExp(V).test("")===true`})
	boolean(rp, "global", false, "15.10.7.2", None)
	boolean(rp, "ignoreCase", false, "15.10.7.3", None)
	boolean(rp, "multiline", false, "15.10.7.4", None)
	num(rp, "lastIndex", 0, "15.10.7.5", Attr{true, false, false})

	// ------------------------------------------------------------ 15.11 Error
	proto("Error", "15.11.3.1", "Error", "Object.prototype", `V.toString()==="Error"`)
	constructorLink("Error", "15.11.4.1", 1)
	str("Error.prototype", "name", "Error", "15.11.4.2", Dflt)
	str("Error.prototype", "message", "", "15.11.4.3", Dflt)
	fn("Error.prototype", "toString", 0, "15.11.4.4",
		`F.call({name:"N",message:"m"})==="N: m" && F.call({})==="Error" && F.call({name:"N"})==="N" && F.call({message:"m"})==="Error: m" && F.call({name:"",message:"m"})==="m"`).
		also(`RT(function(){return F.call(1)})`, `s:"throw:TypeError"`) // step 2
	for _, ne := range NativeErrors {
		proto(ne, "15.11.7.6", "Error", "Error.prototype", `V.toString.call({name:"N",message:"m"})==="N: m"`)
		constructorLink(ne, "15.11.7.8", 1)
		str(ne+".prototype", "name", ne, "15.11.7.9", Dflt)
		str(ne+".prototype", "message", "", "15.11.7.10", Dflt)
	}

	// ------------------------------------------------------------ 15.12 JSON
	fn("JSON", "parse", 2, "15.12.2",
		`(function(){var o=F('{"a":[1,2,{"b":null}]}');return o.a[2].b===null&&o.a.length===3&&F("1",function(k,v){return v+1})===2&&TH(function(){F("{a:1}")})==="SyntaxError"})()`)
	fn("JSON", "stringify", 3, "15.12.3",
		`F({a:[1,"x",null,undefined],b:undefined})==='{"a":[1,"x",null,null]}' && F([1],null,1)==="[\n 1\n]" && F(undefined)===undefined`)
}

// Owners lists the distinct owner paths in table order.
func Owners() []string {
	var out []string
	seen := map[string]bool{}
	for i := range Rows {
		if !seen[Rows[i].Owner] {
			seen[Rows[i].Owner] = true
			out = append(out, Rows[i].Owner)
		}
	}
	return out
}

// Siblings returns the function/constructor rows sharing r's owner (r excluded).
func Siblings(r *Row) []*Row {
	var out []*Row
	for i := range Rows {
		s := &Rows[i]
		if s.Owner == r.Owner && s.Name != r.Name && (s.Kind == Function || s.Kind == Constructor) && s.Is == "" {
			out = append(out, s)
		}
	}
	return out
}

// GlobalNames lists the names the table puts on the global object.
func GlobalNames() []string {
	var out []string
	for i := range Rows {
		if Rows[i].Owner == "global" {
			out = append(out, Rows[i].Name)
		}
	}
	return out
}
