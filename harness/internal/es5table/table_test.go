package es5table

import (
	"fmt"
	"math/big"
	"sort"
	"strconv"
	"strings"
	"testing"

	"verif/internal/refdate"
)

// The subclause numbering of ES5.1 is itself a completeness oracle for the
// transcription: each of these clause families must be covered contiguously.
func TestClauseNumberingIsContiguous(t *testing.T) {
	families := map[string]int{
		"15.1.1": 3, "15.1.2": 5, "15.1.3": 4, "15.1.4": 15, "15.1.5": 2,
		"15.2.3": 14, "15.2.4": 7,
		"15.3.4": 5,
		"15.4.3": 2, "15.4.4": 22,
		"15.5.3": 2, "15.5.4": 20,
		"15.6.4": 3,
		"15.7.3": 6, "15.7.4": 7,
		"15.8.1": 8, "15.8.2": 18,
		"15.9.4": 4, "15.9.5": 44,
		"15.10.6": 4, "15.10.7": 5,
		"15.11.4": 4,
	}
	got := map[string]map[int]string{}
	for i := range Rows {
		r := &Rows[i]
		j := strings.LastIndex(r.Clause, ".")
		fam, last := r.Clause[:j], r.Clause[j+1:]
		if _, ok := families[fam]; !ok {
			continue
		}
		n, err := strconv.Atoi(last)
		if err != nil {
			t.Fatalf("%s: clause %q", r.Key(), r.Clause)
		}
		if got[fam] == nil {
			got[fam] = map[int]string{}
		}
		if prev, dup := got[fam][n]; dup {
			t.Errorf("clause %s.%d used by %s and %s", fam, n, prev, r.Key())
		}
		got[fam][n] = r.Key()
	}
	for fam, n := range families {
		for k := 1; k <= n; k++ {
			if _, ok := got[fam][k]; !ok {
				t.Errorf("clause %s.%d has no row", fam, k)
			}
		}
		if len(got[fam]) != n {
			var ks []int
			for k := range got[fam] {
				ks = append(ks, k)
			}
			sort.Ints(ks)
			t.Errorf("family %s: %d rows, want %d (%v)", fam, len(got[fam]), n, ks)
		}
	}
}

func TestRowsAreWellFormed(t *testing.T) {
	for i := range Rows {
		r := &Rows[i]
		if r.Clause == "" {
			t.Errorf("%s: no clause", r.Key())
		}
		switch r.Kind {
		case Function:
			if r.Call == "" {
				t.Errorf("%s: function without distinguishing call", r.Key())
			}
			if !strings.Contains(r.Call, "F") {
				t.Errorf("%s: call does not use F", r.Key())
			}
		case Constructor:
			if r.Call == "" && r.Is == "" {
				t.Errorf("%s: constructor without call or identity", r.Key())
			}
		case Value:
			if r.Val == nil && r.Pred == "" {
				t.Errorf("%s: value without expectation", r.Key())
			}
		case Object:
			if r.Class == "" || r.Proto == "" {
				t.Errorf("%s: object without class/proto", r.Key())
			}
		}
		for _, c := range r.Call + r.Pred {
			if c > 126 {
				t.Errorf("%s: non-ASCII JS source", r.Key())
			}
		}
		for _, a := range r.Agree {
			s := Lookup(r.Owner + "." + a)
			if s == nil {
				t.Errorf("%s: agree with unknown sibling %s", r.Key(), a)
				continue
			}
			ok := false
			for _, b := range s.Agree {
				if b == r.Name {
					ok = true
				}
			}
			if !ok && r.Call == s.Call {
				t.Errorf("%s: agree relation with %s is not symmetric", r.Key(), a)
			}
		}
	}
	if len(Rows) < 243 {
		t.Errorf("table has only %d rows", len(Rows))
	}
}

// Every constructor has a prototype row, a constructor back link, and the
// global binding.
func TestConstructorTriples(t *testing.T) {
	for _, c := range Constructors {
		for _, k := range []string{"global." + c, c + ".prototype", c + ".prototype.constructor"} {
			if Lookup(k) == nil {
				t.Errorf("missing row %s", k)
			}
		}
		if r := Lookup(c + ".prototype"); r != nil && r.Attr != None {
			t.Errorf("%s.prototype attributes %v", c, r.Attr)
		}
		if g, l := Lookup("global."+c), Lookup(c+".prototype.constructor"); g != nil && l != nil && g.Length != l.Length {
			t.Errorf("%s: length %d vs %d", c, g.Length, l.Length)
		}
	}
}

// The hand-computed field values used by the Date getter rows agree with the
// 15.9.1 algebra.
func TestDateFieldValues(t *testing.T) {
	tza := float64(DefaultTZ) * 1000
	type f struct {
		name string
		fn   func(float64) float64
		t    float64
		want float64
	}
	for _, c := range []f{
		{"getFullYear", refdate.YearFromTime, T1 + tza, 2001},
		{"getUTCFullYear", refdate.YearFromTime, T1, 2000},
		{"getMonth", refdate.MonthFromTime, T2 + tza, 7},
		{"getUTCMonth", refdate.MonthFromTime, T2, 6},
		{"getDate", refdate.DateFromTime, T2 + tza, 1},
		{"getUTCDate", refdate.DateFromTime, T2, 31},
		{"getDay", refdate.WeekDay, T2 + tza, 3},
		{"getUTCDay", refdate.WeekDay, T2, 2},
		{"getHours", refdate.HourFromTime, T2 + tza, 4},
		{"getUTCHours", refdate.HourFromTime, T2, 22},
		{"getMinutes", refdate.MinFromTime, T2 + tza, 26},
		{"getUTCMinutes", refdate.MinFromTime, T2, 40},
		{"getSeconds", refdate.SecFromTime, T2 + tza, 10},
		{"getUTCSeconds", refdate.SecFromTime, T2, 50},
		{"getMilliseconds", refdate.MsFromTime, T2 + tza, 123},
	} {
		if got := c.fn(c.t); got != c.want {
			t.Errorf("%s: table says %v, 15.9.1 says %v", c.name, c.want, got)
		}
		if r := Lookup("Date.prototype." + c.name); r == nil || !strings.Contains(r.Call, fmt.Sprintf("===%v ", c.want)) {
			t.Errorf("%s: row call does not assert %v", c.name, c.want)
		}
	}
	if refdate.ISO(T2) != "2001-07-31T22:40:50.123Z" || refdate.ISO(T1) != "2000-12-31T23:30:15.123Z" {
		t.Errorf("T1/T2: %s %s", refdate.ISO(T1), refdate.ISO(T2))
	}
	// all getter results at T2 are pairwise distinct except the declared agreements
	seen := map[float64]string{}
	for _, c := range []struct {
		n string
		v float64
	}{{"getMonth", 7}, {"getUTCMonth", 6}, {"getDate", 1}, {"getUTCDate", 31}, {"getDay", 3}, {"getUTCDay", 2}, {"getHours", 4}, {"getUTCHours", 22},
		{"getMinutes", 26}, {"getUTCMinutes", 40}, {"getSeconds", 10}, {"getUTCSeconds", 50}, {"getMilliseconds", 123}, {"getFullYear", 2001}, {"getYear", 101}, {"getTimezoneOffset", -345}} {
		if p, dup := seen[c.v]; dup {
			t.Errorf("%s and %s both yield %v", p, c.n, c.v)
		}
		seen[c.v] = c.n
	}
	if got := setExp(T2, "ms", true, 7); got != T2-123+7 {
		t.Errorf("setMilliseconds model: %v", got)
	}
	if got := setExp(T2, "h", false, 7); got != T2-15*3600000 {
		t.Errorf("setUTCHours model: %v", got)
	}
	if got := setExp(T2, "h", true, 7); got != T2+3*3600000 {
		t.Errorf("setHours model: %v", got)
	}
}

// The constants are the doubles nearest to the values ES5.1 prints
// (15.8.1.x "approximately ...", 15.7.3.2/3).
func TestConstants(t *testing.T) {
	spec := map[string]string{
		"Math.E":           "2.7182818284590452354",
		"Math.LN10":        "2.302585092994046",
		"Math.LN2":         "0.6931471805599453",
		"Math.LOG2E":       "1.4426950408889634",
		"Math.LOG10E":      "0.4342944819032518",
		"Math.PI":          "3.1415926535897932",
		"Math.SQRT1_2":     "0.7071067811865476",
		"Math.SQRT2":       "1.4142135623730951",
		"Number.MAX_VALUE": "1.7976931348623157e308",
		"Number.MIN_VALUE": "5e-324",
	}
	for k, s := range spec {
		bf, _, err := big.ParseFloat(s, 10, 400, big.ToNearestEven)
		if err != nil {
			t.Fatal(err)
		}
		want, _ := bf.Float64()
		r := Lookup(k)
		if r == nil || r.Val == nil || r.Val.N != want {
			t.Errorf("%s: table %v, spec text %s -> %v", k, r.Val, s, want)
		}
		if r.Attr != None {
			t.Errorf("%s: attributes %v", k, r.Attr)
		}
	}
}
