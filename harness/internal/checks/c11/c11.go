// Package c11 monitors JSON.parse / JSON.stringify (and the Go-side
// MarshalJSON) against the ES5.1 15.12 reference model in internal/refjson.
package c11

import (
	"encoding/json"
	"fmt"
	"math"
	"math/big"
	"sort"
	"strings"
	"time"

	"github.com/robertkrimen/otto"

	"verif/internal/gen"
	"verif/internal/ox"
	"verif/internal/refdate"
	"verif/internal/refjson"
	"verif/internal/run"
)

// Input is one self-contained case.
type Input struct {
	Op string `json:"op"` // parse | revive | stringify | parsearg
	// parse / revive
	Text    refjson.U16 `json:"text,omitempty"`
	Mut     string      `json:"mut,omitempty"`
	Reviver string      `json:"reviver,omitempty"`
	// stringify
	V      *refjson.Node `json:"v,omitempty"`
	ReplFn string        `json:"replfn,omitempty"`
	Repl   *refjson.Node `json:"repl,omitempty"`
	Space  *refjson.Node `json:"space,omitempty"`
	Plain  bool          `json:"plain,omitempty"` // value drawn from the JSON-representable subset
	PE     bool          `json:"pe,omitempty"`    // during the call Object.prototype has an accessor property named ""
	// go: index into goCases (bridged Go values: Marshalers, cycles)
	Go int `json:"go,omitempty"`
	// parsearg
	Arg int `json:"arg,omitempty"`
}

func init() {
	refjson.DateISO = refdate.ISO
	run.Register(&run.Check{
		ID:   "C11",
		Rule: "cases are (JSON text = generated valid text x one of ~120 mutation operators) for parse, (text, reviver from a family of 6) for revive, (described value x replacer {none, 4 functions, array/ignored value} x space family of ~45) for stringify; a case is non-trivial when the oracle outcome is a value/text/SyntaxError/TypeError (never vacuous) and it is distinct by (operation, mutation or argument family member, oracle outcome class, exact input)",
		Assumptions: []string{
			"oracle: internal/refjson (15.12.1 recogniser over UTF-16 code units, decimal->double with math/big, 15.12.2 reviver walk, 15.12.3 Str/JO/JA/Quote, 9.8.1 ToString(Number) with the permitted last-digit freedom); no encoding/json, no strconv float code in the oracle",
			"property enumeration order is creation order (otto defines one for for-in; 15.12.3 then requires it for JO, and 15.12.2 creates properties in text order)",
			"nesting depth <= 3000 in generated texts (ES5.1 states no limit; Go's decoder stops at 10000)",
			"observed values are read through otto's public Go API (Class/Keys/Get/ToFloat/ToString): String.prototype.charCodeAt answers NaN for U+FFFD in otto, so a JS-side dumper would be unreliable",
		},
		Floor: func(tier string) int {
			if tier == "thorough" {
				return 1000000
			}
			return 20000
		},
		Cases: func(tier string, seed uint64) int {
			if tier == "thorough" {
				return 16000000
			}
			return 60000
		},
		// every case takes milliseconds; the generous watchdog only avoids false
		// "hang" reports when the machine is heavily oversubscribed
		CaseTimeoutS: 900,
		Exec:         func(c *run.Ctx, i int) { checkOne(c, generate(c.Rng, i)) },
		Replay:       func(c *run.Ctx, raw json.RawMessage) { var in Input; mustUnmarshal(raw, &in); checkOne(c, in) },
	})
	registerMatchers()
}

func mustUnmarshal(raw json.RawMessage, v interface{}) {
	if err := json.Unmarshal(raw, v); err != nil {
		panic(err)
	}
}

// ------------------------------------------------------------ generation

func generate(r *gen.Rand, i int) Input {
	switch r.Weighted([]int{40, 15, 44, 1}) {
	case 0:
		lone := r.Chance(1, 12)
		ts := genTokens(r, lone)
		mut := mutations[r.Intn(len(mutations))]
		return Input{Op: "parse", Text: mutate(r, ts, mut), Mut: mut}
	case 1:
		ts := genTokensSmall(r)
		mut := "none"
		if r.Chance(1, 8) {
			mut = mutations[r.Intn(len(mutations))]
			if strings.HasPrefix(mut, "deep-") {
				mut = "none" // the call log dumps value and holder at every call: quadratic in depth
			}
		}
		return Input{Op: "revive", Text: mutate(r, ts, mut), Mut: mut, Reviver: revivers[r.Intn(len(revivers))]}
	case 2:
		plain := r.Chance(2, 5)
		in := Input{Op: "stringify", Plain: plain}
		in.V = genValue(r, !plain, !plain && r.Chance(1, 4), r.Chance(1, 12))
		switch r.Intn(10) {
		case 0, 1, 2, 3:
		case 4, 5, 6:
			in.ReplFn = replFns[r.Intn(len(replFns))]
		default:
			in.Repl = genReplArr(r, in.V)
		}
		in.Space = genSpace(r)
		// (not with a property list: a list naming "" would legitimately [[Get]] the inherited accessor)
		in.PE = in.Repl == nil && r.Chance(1, 30)
		return in
	}
	if r.Chance(1, 3) {
		return Input{Op: "go", Go: r.Intn(len(goCases))}
	}
	return Input{Op: "parsearg", Arg: r.Intn(len(parseArgs))}
}

// ------------------------------------------------------------ driving otto

var (
	vm          *otto.Otto
	events      []string // call log, exact
	eventsCanon []string // reviver calls as "key,value" with sorted keys (order-insensitive form)
)

var sortedOpts = refjson.DumpOpts{NumLabel: ox.Num, SortKeys: true}

const prelude = `
function __attrs(v){
  if (v===null || typeof v!=="object") return true;
  var isA = Object.prototype.toString.call(v)==="[object Array]";
  if (Object.getPrototypeOf(v) !== (isA ? Array.prototype : Object.prototype)) return false;
  if (!Object.isExtensible(v)) return false;
  var ks = Object.getOwnPropertyNames(v);
  for (var i=0;i<ks.length;i++){
    var k = ks[i];
    if (isA && k==="length") continue;
    var d = Object.getOwnPropertyDescriptor(v,k);
    if (!d || !("value" in d) || d.writable!==true || d.enumerable!==true || d.configurable!==true) return false;
    if (!__attrs(d.value)) return false;
  }
  return true;
}
var __revivers = {
  identity: function(k,v){ __rlog(k,v,this); return v },
  delEven:  function(k,v){ __rlog(k,v,this); return (typeof v==="number" && v%2===0) ? undefined : v },
  replace:  function(k,v){ __rlog(k,v,this); if (typeof v==="string") return 7; if (typeof v==="number") return {x:[]}; if (v===null) return undefined; return v },
  keydel:   function(k,v){ __rlog(k,v,this); return (k==="a"||k==="1") ? undefined : v },
  mutArr:   function(k,v){ __rlog(k,v,this); if (k==="0" && Object.prototype.toString.call(this)==="[object Array]") { this.length=1; this[3]="new" } return v },
  noncallable: {call:1}
};
var __replacers = {
  log:     function(k,v){ __plog(k,v,this); return v },
  filter:  function(k,v){ __plog(k,v,this); if (k==="a"||k==="1") return undefined; if (typeof v==="number" && v<0) return undefined; return v },
  replace: function(k,v){ __plog(k,v,this); if (typeof v==="number") return "num"; if (v===null) return [true,1.5]; if (typeof v==="boolean") return "B"; return v },
  thisget: function(k,v){ __plog(k,v,this); return this[k] },
  mutate:  function(k,v){ __plog(k,v,this); if (Object.prototype.toString.call(this)==="[object Array]") { if (k==="0") delete this[1]; } else if (k==="b"||k==="0"||k==="x") { delete this.a; delete this.c; this.zz=1 } return v }
};
`

func theVM() *otto.Otto {
	if vm != nil {
		return vm
	}
	vm = otto.New()
	// reviver log: key, deep dump of value, deep dump of holder (at call time)
	vm.Set("__rlog", func(call otto.FunctionCall) otto.Value {
		events = append(events, "r:"+dumpOtto(call.Argument(0), dumpOpts)+","+dumpOtto(call.Argument(1), dumpOpts)+","+dumpOtto(call.Argument(2), dumpOpts))
		eventsCanon = append(eventsCanon, "r:"+dumpOtto(call.Argument(0), dumpOpts)+","+dumpOtto(call.Argument(1), sortedOpts))
		return otto.UndefinedValue()
	})
	// replacer log: shallow (values may be cyclic)
	vm.Set("__plog", func(call otto.FunctionCall) otto.Value {
		events = append(events, "p:"+shallowOtto(call.Argument(0))+","+shallowOtto(call.Argument(1))+","+shallowOtto(call.Argument(2)))
		return otto.UndefinedValue()
	})
	vm.Set("__tj", func(call otto.FunctionCall) otto.Value {
		events = append(events, "tj:"+shallowOtto(call.Argument(0)))
		return otto.UndefinedValue()
	})
	if _, err := vm.Run(prelude); err != nil {
		panic(err)
	}
	return vm
}

// model counterparts of the JS families ---------------------------------

func modelReviver(name string, log, canon *[]string) func(h *refjson.Val, k []uint16, v *refjson.Val) *refjson.Val {
	rec := func(h *refjson.Val, k []uint16, v *refjson.Val) {
		*log = append(*log, "r:"+refjson.QuoteASCII(k)+","+refjson.Dump(v, dumpOpts)+","+refjson.Dump(h, dumpOpts))
		*canon = append(*canon, "r:"+refjson.QuoteASCII(k)+","+refjson.Dump(v, sortedOpts))
	}
	switch name {
	case "identity":
		return func(h *refjson.Val, k []uint16, v *refjson.Val) *refjson.Val { rec(h, k, v); return v }
	case "delEven":
		return func(h *refjson.Val, k []uint16, v *refjson.Val) *refjson.Val {
			rec(h, k, v)
			if v.Kind == refjson.Number && math.Mod(v.N, 2) == 0 {
				return refjson.Undef()
			}
			return v
		}
	case "replace":
		return func(h *refjson.Val, k []uint16, v *refjson.Val) *refjson.Val {
			rec(h, k, v)
			switch v.Kind {
			case refjson.String:
				return refjson.NumV(7)
			case refjson.Number:
				o := refjson.NewObject()
				o.Define(refjson.U("x"), refjson.NewArray(0))
				return o
			case refjson.Null:
				return refjson.Undef()
			}
			return v
		}
	case "keydel":
		return func(h *refjson.Val, k []uint16, v *refjson.Val) *refjson.Val {
			rec(h, k, v)
			if refjson.EqUnits(k, refjson.U("a")) || refjson.EqUnits(k, refjson.U("1")) {
				return refjson.Undef()
			}
			return v
		}
	case "mutArr":
		return func(h *refjson.Val, k []uint16, v *refjson.Val) *refjson.Val {
			rec(h, k, v)
			if refjson.EqUnits(k, refjson.U("0")) && h.Kind == refjson.Array {
				h.SetLength(1)
				h.Define(refjson.U("3"), refjson.StrS("new"))
			}
			return v
		}
	}
	return nil // noncallable: no reviver pass
}

func modelReplacer(name string, log *[]string, sh func(*refjson.Val) string) func(h *refjson.Val, k []uint16, v *refjson.Val) *refjson.Val {
	rec := func(h *refjson.Val, k []uint16, v *refjson.Val) {
		*log = append(*log, "p:"+refjson.QuoteASCII(k)+","+sh(v)+","+sh(h))
	}
	switch name {
	case "log":
		return func(h *refjson.Val, k []uint16, v *refjson.Val) *refjson.Val { rec(h, k, v); return v }
	case "filter":
		return func(h *refjson.Val, k []uint16, v *refjson.Val) *refjson.Val {
			rec(h, k, v)
			if refjson.EqUnits(k, refjson.U("a")) || refjson.EqUnits(k, refjson.U("1")) {
				return refjson.Undef()
			}
			if v.Kind == refjson.Number && v.N < 0 {
				return refjson.Undef()
			}
			return v
		}
	case "replace":
		return func(h *refjson.Val, k []uint16, v *refjson.Val) *refjson.Val {
			rec(h, k, v)
			switch v.Kind {
			case refjson.Number:
				return refjson.StrS("num")
			case refjson.Null:
				a := refjson.NewArray(2)
				a.Elems[0], a.Elems[1] = refjson.BoolV(true), refjson.NumV(1.5)
				return a
			case refjson.Bool:
				return refjson.StrS("B")
			}
			return v
		}
	case "thisget":
		return func(h *refjson.Val, k []uint16, v *refjson.Val) *refjson.Val { rec(h, k, v); return h.Get(k) }
	case "mutate":
		// deletes and adds members of the holder while it is being walked: the key list K of
		// 15.12.3 JO step 5/6 is fixed before the first member is serialised
		return func(h *refjson.Val, k []uint16, v *refjson.Val) *refjson.Val {
			rec(h, k, v)
			switch {
			case h.Kind == refjson.Array:
				if refjson.EqUnits(k, refjson.U("0")) {
					h.Delete(refjson.U("1"))
				}
			case h.Kind == refjson.Object && (refjson.EqUnits(k, refjson.U("b")) || refjson.EqUnits(k, refjson.U("0")) || refjson.EqUnits(k, refjson.U("x"))):
				h.Delete(refjson.U("a"))
				h.Delete(refjson.U("c"))
				h.Define(refjson.U("zz"), refjson.NumV(1))
			}
			return v
		}
	}
	return nil
}

// ------------------------------------------------------------ the check

func valueClass(v *refjson.Val) string {
	switch v.Kind {
	case refjson.Object:
		return "object"
	case refjson.Array:
		return "array"
	case refjson.String:
		return "string"
	case refjson.Number:
		return "number"
	case refjson.Undefined:
		return "undefined"
	}
	return "literal"
}

func hasInf(v *refjson.Val) bool {
	if v == nil {
		return false
	}
	switch v.Kind {
	case refjson.Number:
		return math.IsInf(v.N, 0)
	case refjson.Array:
		for _, e := range v.Elems {
			if hasInf(e) {
				return true
			}
		}
	case refjson.Object:
		for _, p := range v.Props {
			if hasInf(p.V) {
				return true
			}
		}
	}
	return false
}

func textDepth(u []uint16) int {
	d, m := 0, 0
	for _, c := range u {
		switch c {
		case '[', '{':
			d++
			if d > m {
				m = d
			}
		case ']', '}':
			d--
		}
	}
	return m
}

// jsText renders a JSON text as the JS expression handed to JSON.parse.
func jsText(u []uint16) string { return jsStr(u) }

type caseRun struct {
	c  *run.Ctx
	in Input
	v  *otto.Otto
}

func (cr *caseRun) js(site, src string) (ox.Outcome, bool) {
	out := ox.Run(cr.v, src)
	if out.Panic != nil {
		cr.c.Fail("panic", site, cr.in, "no Go panic", fmt.Sprint(out.Panic), out.Stack)
		vm = nil
		return out, false
	}
	return out, true
}

func checkOne(c *run.Ctx, in Input) {
	cr := &caseRun{c: c, in: in, v: theVM()}
	events = nil
	c.Announce(in)
	switch in.Op {
	case "parse":
		cr.parse()
	case "revive":
		cr.revive()
	case "stringify":
		cr.stringify()
	case "parsearg":
		cr.parsearg()
	case "go":
		cr.goCase()
	default:
		panic("c11: unknown op " + in.Op)
	}
}

func outcomeString(out ox.Outcome) string {
	if out.Err != nil {
		return "throw:" + ox.ErrClass(out.Err)
	}
	return dumpOtto(out.Val, dumpOpts)
}

func (cr *caseRun) parse() {
	c, in := cr.c, cr.in
	ex := expectParse(in.Text, 0)
	out, ok := cr.js("JSON.parse", "var __r=JSON.parse("+jsText(in.Text)+");__r")
	if !ok {
		return
	}
	c.Eval(1)
	actual := outcomeString(out)
	c.Feature("parse:mut:" + in.Mut)
	if ex.err != nil {
		c.Feature("parse:oracle:SyntaxError")
		if actual != ex.result {
			c.Fail("mismatch", "JSON.parse", in, ex.result+" ("+ex.err.Error()+")", actual, "sorted="+sortedOutcome(out))
		}
		c.Nontrivial("parse|" + in.Mut + "|err|" + string(refjson.QuoteASCII(in.Text)))
		c.Sample(in)
		return
	}
	c.Feature("parse:oracle:" + valueClass(ex.model))
	if strings.Contains(ex.result, "\\uD") {
		c.Feature("parse:value-has-surrogate")
	}
	if actual != ex.result {
		c.Fail("mismatch", "JSON.parse", in, ex.result, actual, "sorted="+sortedOutcome(out))
	}
	c.Nontrivial("parse|" + in.Mut + "|" + valueClass(ex.model) + "|" + string(refjson.QuoteASCII(in.Text)))
	c.Sample(in)
	if out.Err != nil {
		return
	}
	if textDepth(in.Text) <= 200 {
		// 15.12.2: every property is created writable, enumerable, configurable; plain prototypes
		if a, ok := cr.js("JSON.parse:attributes", "__attrs(__r)"); ok {
			c.Eval(1)
			if s := outcomeString(a); s != "T" {
				c.Fail("mismatch", "JSON.parse:attributes", in, "T", s, "")
			}
		}
	}
	// law: stringify(parse(t)) denotes the same value as t (structural: key order and the sign of zero aside)
	if hasInf(ex.model) {
		c.Feature("law:sp:skipped-infinity")
		return
	}
	o2, ok := cr.js("law:stringify(parse(t))", "JSON.stringify(__r)")
	if !ok {
		return
	}
	c.Eval(1)
	want := expectLawSP(in.Text, 0)
	if o2.Err != nil || !o2.Val.IsString() {
		c.Fail("mismatch", "law:stringify(parse(t))", in, want, outcomeString(o2), "stringify did not return a string")
		return
	}
	back, perr := refjson.Parse(unitsOf(o2.Val))
	if perr != nil {
		c.Fail("mismatch", "law:stringify(parse(t))", in, want, "invalid JSON: "+perr.Error(), refjson.QuoteASCII(unitsOf(o2.Val)))
		return
	}
	if got := refjson.Dump(back, lawOpts); got != want {
		c.Fail("mismatch", "law:stringify(parse(t))", in, want, got, refjson.QuoteASCII(unitsOf(o2.Val)))
	}
	c.Feature("law:sp:checked")
}

func sortedOutcome(out ox.Outcome) string {
	if out.Err != nil {
		return "throw:" + ox.ErrClass(out.Err)
	}
	return dumpOtto(out.Val, sortedOpts)
}

func canonLog(ev []string) string {
	s := append([]string{}, ev...)
	sort.Strings(s)
	return strings.Join(s, " | ")
}

func (cr *caseRun) revive() {
	c, in := cr.c, cr.in
	ex := expectRevive(in, 0, nil)
	events, eventsCanon = nil, nil
	out, ok := cr.js("JSON.parse+reviver", "var __r=JSON.parse("+jsText(in.Text)+",__revivers."+in.Reviver+");__r")
	if !ok {
		return
	}
	c.Eval(1)
	actual := outcomeString(out)
	c.Feature("revive:" + in.Reviver)
	if actual != ex.result {
		c.Fail("mismatch", "JSON.parse+reviver", in, ex.result, actual, "sorted="+sortedOutcome(out))
	}
	if acLog := strings.Join(events, " | "); ex.log != acLog {
		c.Fail("mismatch", "JSON.parse+reviver:calls", in, ex.log, acLog, "sorted="+canonLog(eventsCanon))
	}
	if out.Err == nil && out.Val.IsObject() && textDepth(in.Text) <= 200 {
		// 15.12.2 Walk: revived properties are (re)defined writable, enumerable, configurable
		if a, ok := cr.js("JSON.parse+reviver:attributes", "__attrs(__r)"); ok {
			c.Eval(1)
			if s := outcomeString(a); s != "T" {
				c.Fail("mismatch", "JSON.parse+reviver:attributes", in, "T", s, "")
			}
		}
	}
	c.FeatureN("revive:calls", ex.ncalls)
	if ex.multiKey {
		c.Feature("revive:text-has-multi-key-object")
	} else {
		c.Feature("revive:text-without-multi-key-object")
	}
	if ex.err == nil {
		c.Nontrivial("revive|" + in.Reviver + "|" + string(refjson.QuoteASCII(in.Text)))
	} else {
		c.Nontrivial("revive|err|" + in.Reviver + "|" + string(refjson.QuoteASCII(in.Text)))
	}
	c.Sample(in)
}

func (cr *caseRun) parsearg() {
	c, in := cr.c, cr.in
	pa := parseArgs[in.Arg%len(parseArgs)]
	ex := expectParse(refjson.U(pa.text), 0)
	out, ok := cr.js("JSON.parse(non-string)", "JSON.parse("+pa.expr+")")
	if !ok {
		return
	}
	c.Eval(1)
	if actual := outcomeString(out); actual != ex.result {
		c.Fail("mismatch", "JSON.parse(non-string)", in, ex.result, actual, pa.expr)
	}
	c.Feature("parsearg")
	c.Nontrivial("parsearg|" + pa.expr)
}

func (cr *caseRun) stringify() {
	c, in := cr.c, cr.in
	res, mlog := modelStringify(in, 0)
	expected := resultString(res)

	// build the arguments in otto
	repl := "void 0"
	switch {
	case in.ReplFn != "":
		repl = "__replacers." + in.ReplFn
	case in.Repl != nil:
		repl = jsBuild(in.Repl)
	}
	src := "var __v=" + jsBuild(in.V) + ";var __repl=" + repl + ";"
	call := "JSON.stringify(__v,__repl)"
	if in.Space != nil {
		src += "var __space=" + jsBuild(in.Space) + ";"
		call = "JSON.stringify(__v,__repl,__space)"
	} else if in.ReplFn == "" && in.Repl == nil {
		call = "JSON.stringify(__v)"
	}
	if out, ok := cr.js("JSON.stringify:setup", src); !ok {
		return
	} else if out.Err != nil {
		c.Inconclusive("could not build the described value in otto: " + out.Err.Error())
		return
	}
	if in.PE {
		// 15.12.3 step 10 creates the wrapper's member with [[DefineOwnProperty]]: nothing inherited interferes
		call = "(function(){ Object.defineProperty(Object.prototype,'',{get:function(){return 42},set:function(){},configurable:true}); try { return " + call + " } finally { delete Object.prototype[''] } })()"
		c.Feature("stringify:prototype-has-empty-name-accessor")
	}
	events = nil
	out, ok := cr.js("JSON.stringify", call)
	if !ok {
		return
	}
	c.Eval(1)
	var actual string
	var actualUnits []uint16
	switch {
	case out.Err != nil:
		actual = "throw:" + ox.ErrClass(out.Err)
	case out.Val.IsString():
		actualUnits = unitsOf(out.Val)
		actual = refjson.QuoteASCII(actualUnits)
	default:
		actual = dumpOtto(out.Val, dumpOpts)
	}
	textOK := actual == expected || (res.Kind == refjson.RText && actualUnits != nil && res.Matches(actualUnits))
	if !textOK {
		c.Fail("mismatch", "JSON.stringify", in, expected, actual, "")
	}
	if exLog, acLog := strings.Join(mlog, " | "), strings.Join(events, " | "); exLog != acLog {
		c.Fail("mismatch", "JSON.stringify:calls", in, exLog, acLog, "toJSON / replacer call sequence (key, value, holder)")
	}
	// features
	replKind := "none"
	switch {
	case in.ReplFn != "":
		replKind = "fn:" + in.ReplFn
	case in.Repl != nil:
		replKind = "nonfn:" + in.Repl.K
	}
	c.Feature("stringify:replacer:" + replKind)
	spaceKind := "absent"
	if in.Space != nil {
		spaceKind = in.Space.K
	}
	c.Feature("stringify:space:" + spaceKind)
	c.Feature("stringify:oracle:" + []string{"text", "undefined", "TypeError"}[res.Kind])
	if in.Plain {
		c.Feature("stringify:plain-value")
	}
	c.FeatureN("stringify:calls", len(mlog))
	raw, _ := json.Marshal(in)
	c.Nontrivial("stringify|" + replKind + "|" + spaceKind + "|" + string(raw))
	c.Sample(in)

	// the emitted text re-read by the independent reader
	if res.Kind == refjson.RText && actualUnits != nil && gapIsJSONWhiteSpace(in) {
		c.Eval(1)
		want, wok := expectReread(res)
		got, perr := refjson.Parse(actualUnits)
		switch {
		case !wok:
			c.Inconclusive("model text is not valid JSON: " + expected)
		case perr != nil:
			c.Fail("mismatch", "JSON.stringify:reread", in, want, "invalid JSON: "+perr.Error(), actual)
		case refjson.Dump(got, sortedOpts) != want:
			c.Fail("mismatch", "JSON.stringify:reread", in, want, refjson.Dump(got, sortedOpts), actual)
		}
		c.Feature("stringify:reread")
	}

	if in.ReplFn != "" || in.Repl != nil || in.Space != nil {
		return
	}
	// law: parse(stringify(v)) is structurally equal to v's JSON projection
	if res.Kind == refjson.RText {
		if want, wok := expectReread(res); wok {
			events = nil
			o2, ok := cr.js("law:parse(stringify(v))", "JSON.parse(JSON.stringify(__v))")
			if !ok {
				return
			}
			c.Eval(1)
			got := "throw:" + ox.ErrClass(o2.Err)
			if o2.Err == nil {
				got = dumpOtto(o2.Val, sortedOpts)
			}
			if got != want {
				c.Fail("mismatch", "law:parse(stringify(v))", in, want, got, "")
			}
			c.Feature("law:ps:checked")
		}
	}
	// Go side: Value.MarshalJSON / Object.MarshalJSON
	cr.marshal(res)
}

func (cr *caseRun) marshal(res refjson.Result) {
	c, in := cr.c, cr.in
	val, err := cr.v.Get("__v")
	if err != nil {
		return
	}
	if res.Kind == refjson.RUndefined {
		return // undefined / function: not JSON-representable
	}
	do := func(site string, f func() ([]byte, error)) {
		var b []byte
		var e error
		events = nil
		pv, stack := run.Guard(func() { b, e = f() })
		if pv != nil {
			c.Fail("panic", site, in, "no Go panic", fmt.Sprint(pv), stack)
			vm = nil
			return
		}
		c.Eval(1)
		if res.Kind == refjson.RTypeError {
			if e == nil {
				c.Fail("mismatch", site, in, "error (cyclic structure)", string(b), "")
			}
			c.Feature("marshal:cycle")
			return
		}
		want, wok := expectMarshal(res)
		if !wok {
			return
		}
		if e != nil {
			c.Fail("mismatch", site, in, want, "error: "+e.Error(), "")
			return
		}
		got, perr := refjson.Parse(refjson.U2(string(b)))
		if perr != nil {
			c.Fail("mismatch", site, in, want, "invalid JSON: "+perr.Error(), string(b))
			return
		}
		if g := refjson.Dump(got, lawOpts); g != want {
			c.Fail("mismatch", site, in, want, g, string(b))
		}
		c.Feature("marshal:checked")
	}
	do("Value.MarshalJSON", val.MarshalJSON)
	if vm != nil && val.IsObject() {
		do("Object.MarshalJSON", val.Object().MarshalJSON)
	}
}

// ------------------------------------------------------------ bridged Go values

type goLeaf struct{ V int }
type goNode struct {
	Next *goNode
	V    int
}
type goTwo struct{ A, B *goLeaf }
type goPtrM struct{ X int }

func (p *goPtrM) MarshalJSON() ([]byte, error) { return []byte(fmt.Sprintf(`"P%d"`, p.X)), nil }

type goTags []string

func (t goTags) MarshalJSON() ([]byte, error) { return json.Marshal(strings.Join(t, "+")) }

type goSet map[string]bool

func (s goSet) MarshalJSON() ([]byte, error) {
	ks := []string{}
	for k := range s {
		ks = append(ks, k)
	}
	sort.Strings(ks)
	return json.Marshal(ks)
}

type goDoc struct {
	Raw  json.RawMessage
	Tags goTags
	Set  goSet
}

type goOuter struct {
	In goPtrM
	N  *big.Int
}

// goCases: JSON.stringify over values bridged from Go. A json.Marshaler member is serialised as
// its MarshalJSON text, but it is a member like any other: the replacer function is called for it
// (15.12.3 Str step 3) and a cycle is a TypeError (JO/JA step 1) whatever the objects are made of.
// want is a JSON text (compared as the value it denotes), "undefined" or "throw:<Class>".
var goCases = []struct {
	name string
	set  func(vm *otto.Otto)
	call string
	want string
}{
	{"marshaler-member", func(vm *otto.Otto) { vm.Set("t", time.Unix(0, 0).UTC()) }, `JSON.stringify({a:t,b:1})`, `{"a":"1970-01-01T00:00:00Z","b":1}`},
	{"replacer-drops-marshaler-member", func(vm *otto.Otto) { vm.Set("t", time.Unix(0, 0).UTC()) }, `JSON.stringify({secret:t,b:1}, function(k,v){ return k==="secret" ? undefined : v })`, `{"b":1}`},
	{"replacer-replaces-marshaler-member", func(vm *otto.Otto) { vm.Set("t", time.Unix(0, 0).UTC()) }, `JSON.stringify({secret:t,b:1}, function(k,v){ return k==="secret" ? "X" : v })`, `{"secret":"X","b":1}`},
	{"replacer-called-for-marshaler-member", func(vm *otto.Otto) { vm.Set("t", time.Unix(0, 0).UTC()) }, `(function(){ var ks=[]; JSON.stringify({s:t,b:[t]}, function(k,v){ ks.push(k); return v }); return JSON.stringify(ks) })()`, `["","s","b","0"]`},
	{"replacer-drops-marshaler-root", func(vm *otto.Otto) { vm.Set("t", time.Unix(0, 0).UTC()) }, `String(JSON.stringify(t, function(k,v){ return undefined }))`, `undefined`},
	{"pointer-receiver-root", func(vm *otto.Otto) { vm.Set("big", big.NewInt(5)) }, `JSON.stringify(big)`, `5`},
	{"pointer-receiver-member", func(vm *otto.Otto) { vm.Set("big", big.NewInt(5)) }, `JSON.stringify({n:big,a:[big]})`, `{"n":5,"a":[5]}`},
	{"pointer-receiver-field", func(vm *otto.Otto) { vm.Set("o", &goOuter{In: goPtrM{7}, N: big.NewInt(12)}) }, `JSON.stringify(o)`, `{"In":"P7","N":12}`},
	{"go-cycle-struct", func(vm *otto.Otto) { n := &goNode{V: 1}; n.Next = n; vm.Set("ring", n) }, `JSON.stringify(ring)`, `throw:TypeError`},
	{"go-cycle-struct-2", func(vm *otto.Otto) {
		a, b := &goNode{V: 1}, &goNode{V: 2}
		a.Next, b.Next = b, a
		vm.Set("ring", a)
	}, `JSON.stringify({r:ring})`, `throw:TypeError`},
	{"go-cycle-map", func(vm *otto.Otto) { m := map[string]interface{}{"v": 1}; m["self"] = m; vm.Set("m", m) }, `JSON.stringify(m)`, `throw:TypeError`},
	{"go-cycle-slice", func(vm *otto.Otto) { s := make([]interface{}, 2); s[0] = 1; s[1] = s; vm.Set("s", s) }, `JSON.stringify(s)`, `throw:TypeError`},
	{"go-shared-not-cyclic", func(vm *otto.Otto) { l := &goLeaf{3}; vm.Set("two", &goTwo{l, l}) }, `JSON.stringify(two)`, `{"A":{"V":3},"B":{"V":3}}`},
	{"marshaler-raw-message-field", func(vm *otto.Otto) { vm.Set("doc", &goDoc{Raw: json.RawMessage(`{"x":1}`), Tags: goTags{"a", "b"}, Set: goSet{"k": true}}) }, `JSON.stringify(doc)`, `{"Raw":{"x":1},"Tags":"a+b","Set":["k"]}`},
	{"marshaler-named-slice-member", func(vm *otto.Otto) { vm.Set("doc", &goDoc{Raw: json.RawMessage(`[1]`), Tags: goTags{"a", "b"}, Set: goSet{}}) }, `JSON.stringify({t: doc.Tags, r: doc.Raw})`, `{"t":"a+b","r":[1]}`},
	{"marshaler-named-slice-root", func(vm *otto.Otto) { vm.Set("tags", goTags{"x", "y", "z"}) }, `JSON.stringify(tags)`, `"x+y+z"`},
	{"go-marshal-values", func(vm *otto.Otto) {
		vm.Set("goMarshal", func(call otto.FunctionCall) otto.Value {
			b, err := json.Marshal(map[string]otto.Value{"x": call.Argument(0), "y": call.Argument(1)})
			if err != nil {
				panic(call.Otto.MakeTypeError(err.Error()))
			}
			v, _ := otto.ToValue(string(b))
			return v
		})
	}, `goMarshal(0/0, [1/0, -1/0, new Number(NaN)])`, `{"x":null,"y":[null,null,null]}`},
}

func (cr *caseRun) goCase() {
	c, in := cr.c, cr.in
	gc := goCases[in.Go]
	v := otto.New()
	gc.set(v)
	out := ox.Run(v, gc.call)
	c.Eval(1)
	if out.Panic != nil {
		c.Fail("panic", "JSON.stringify:go:"+gc.name, in, "no Go panic", fmt.Sprint(out.Panic), out.Stack)
		return
	}
	var actual string
	switch {
	case out.Err != nil:
		actual = "throw:" + ox.ErrClass(out.Err)
	case out.Val.IsString():
		actual, _ = out.Val.ToString()
	default:
		actual = "not a string: " + out.String()
	}
	ok := actual == gc.want
	if !ok && !strings.HasPrefix(gc.want, "throw:") && gc.want != "undefined" {
		w, werr := refjson.Parse(refjson.U2(gc.want))
		g, gerr := refjson.Parse(refjson.U2(actual))
		ok = werr == nil && gerr == nil && refjson.Dump(w, sortedOpts) == refjson.Dump(g, sortedOpts)
	}
	if !ok {
		c.Fail("mismatch", "JSON.stringify:go:"+gc.name, in, gc.want, actual, gc.call)
	}
	c.Feature("go:" + gc.name)
	c.Nontrivial("go|" + gc.name)
	c.Sample(in)
}
