package c11

import (
	"fmt"
	"strings"

	"github.com/robertkrimen/otto"

	"verif/internal/ox"
	"verif/internal/refjson"
)

// ---------------------------------------------------------------- DSL -> JS

type renderer struct {
	b strings.Builder
	n int
}

func (r *renderer) fresh() string {
	r.n++
	return fmt.Sprintf("v%d", r.n)
}

// jsStr renders code units as a JS expression: a pure-ASCII literal with
// \uXXXX escapes, except that strings containing any surrogate code unit are
// built with String.fromCharCode so that they reach JSON intact (otto's lexer
// turns every \uD800-\uDFFF escape, paired or not, into U+FFFD; that is a
// lexer matter outside this property).
func jsStr(u []uint16) string {
	sur := false
	for _, c := range u {
		if c >= 0xD800 && c < 0xE000 {
			sur = true
			break
		}
	}
	if !sur {
		return ox.JSUnits(u)
	}
	parts := make([]string, len(u))
	for i, c := range u {
		parts[i] = fmt.Sprintf("%d", c)
	}
	return "String.fromCharCode(" + strings.Join(parts, ",") + ")"
}

// expr emits the statements building n and returns an expression naming it.
func (r *renderer) expr(n *refjson.Node, anc []string) string {
	if n == nil {
		return "void 0"
	}
	switch n.K {
	case "undef":
		return "void 0"
	case "null":
		return "null"
	case "bool":
		if n.B {
			return "true"
		}
		return "false"
	case "num":
		return ox.JSNum(float64(n.N))
	case "str":
		return jsStr(n.S)
	case "fn":
		return "(function(){})"
	case "boxnum":
		v := r.fresh()
		fmt.Fprintf(&r.b, "var %s=new Number(%s);", v, ox.JSNum(float64(n.N)))
		if n.HasOvN {
			fmt.Fprintf(&r.b, "%s.valueOf=function(){return %s};", v, ox.JSNum(float64(n.OvN)))
		}
		if n.HasOvS {
			fmt.Fprintf(&r.b, "%s.toString=function(){return %s};", v, jsStr(n.OvS))
		}
		return v
	case "boxstr":
		v := r.fresh()
		fmt.Fprintf(&r.b, "var %s=new String(%s);", v, jsStr(n.S))
		if n.HasOvS {
			fmt.Fprintf(&r.b, "%s.toString=function(){return %s};", v, jsStr(n.OvS))
		}
		return v
	case "boxbool":
		if n.B {
			return "new Boolean(true)"
		}
		return "new Boolean(false)"
	case "date":
		return "new Date(" + ox.JSNum(float64(n.N)) + ")"
	case "ref":
		if n.Up < 1 || n.Up > len(anc) {
			return "null"
		}
		return anc[len(anc)-n.Up]
	case "arr":
		v := r.fresh()
		fmt.Fprintf(&r.b, "var %s=[];", v)
		anc2 := append(append([]string{}, anc...), v)
		for i, e := range n.E {
			if e == nil {
				continue
			}
			x := r.expr(e, anc2)
			fmt.Fprintf(&r.b, "%s[%d]=%s;", v, i, x)
		}
		fmt.Fprintf(&r.b, "%s.length=%d;", v, len(n.E))
		return v
	case "obj":
		v := r.fresh()
		fmt.Fprintf(&r.b, "var %s={};", v)
		anc2 := append(append([]string{}, anc...), v)
		for _, p := range n.P {
			x := r.expr(p.V, anc2)
			k := jsStr(p.Key)
			switch {
			case p.Getter:
				fmt.Fprintf(&r.b, "Object.defineProperty(%s,%s,{get:function(){return %s},enumerable:%v,configurable:true});", v, k, x, !p.Hidden)
			case p.Hidden:
				fmt.Fprintf(&r.b, "Object.defineProperty(%s,%s,{value:%s,enumerable:false,writable:true,configurable:true});", v, k, x)
			default:
				fmt.Fprintf(&r.b, "%s[%s]=%s;", v, k, x)
			}
		}
		switch n.TJ {
		case "val":
			x := r.expr(n.TJV, anc2)
			fmt.Fprintf(&r.b, "%s.toJSON=function(k){__tj(k);return %s};", v, x)
		case "key":
			fmt.Fprintf(&r.b, "%s.toJSON=function(k){__tj(k);return typeof k+':'+k};", v)
		}
		return v
	}
	panic("c11: unknown node kind " + n.K)
}

// jsBuild returns a JS expression (an IIFE) evaluating to the described value.
func jsBuild(n *refjson.Node) string {
	r := &renderer{}
	x := r.expr(n, nil)
	return "(function(){" + r.b.String() + "return " + x + "})()"
}

// -------------------------------------------------------- otto value -> dump

var dumpOpts = refjson.DumpOpts{NumLabel: ox.Num}

func unitsOf(v otto.Value) []uint16 {
	s, _ := v.ToString()
	return refjson.U2(s)
}

type dumper struct {
	b strings.Builder
	o refjson.DumpOpts
}

// dumpOtto renders an otto value in the grammar of refjson.Dump, walking it
// through otto's public API (Class, Keys, Get, ToFloat, ToString).
func dumpOtto(v otto.Value, o refjson.DumpOpts) string {
	d := &dumper{o: o}
	d.dump(v, 0)
	return d.b.String()
}

func (d *dumper) dump(v otto.Value, depth int) {
	b := &d.b
	if depth > 20000 {
		b.WriteString("<deep>")
		return
	}
	switch {
	case v.IsUndefined():
		b.WriteString("U")
	case v.IsNull():
		b.WriteString("N")
	case v.IsBoolean():
		if x, _ := v.ToBoolean(); x {
			b.WriteString("T")
		} else {
			b.WriteString("F")
		}
	case v.IsNumber():
		f, _ := v.ToFloat()
		if d.o.ZeroSign && f == 0 {
			f = 0
		}
		b.WriteString("n:" + d.o.NumLabel(f))
	case v.IsString():
		b.WriteString(refjson.QuoteASCII(unitsOf(v)))
	case v.IsObject():
		obj := v.Object()
		switch v.Class() {
		case "Function":
			b.WriteString("fn")
		case "Array":
			lv, _ := obj.Get("length")
			lf, _ := lv.ToFloat()
			fmt.Fprintf(b, "[%d|", int64(lf))
			for i, k := range obj.Keys() {
				if i > 0 {
					b.WriteByte(',')
				}
				b.WriteString(k) // index keys print as themselves; anything else shows up as a difference
				b.WriteByte(':')
				e, _ := obj.Get(k)
				d.dump(e, depth+1)
			}
			b.WriteByte(']')
		case "Object":
			type kv struct {
				k string
				v otto.Value
			}
			var items []kv
			for _, k := range obj.Keys() {
				e, _ := obj.Get(k)
				items = append(items, kv{refjson.QuoteASCII(refjson.U2(k)), e})
			}
			if d.o.SortKeys {
				sortKV(len(items), func(i, j int) bool { return items[i].k < items[j].k }, func(i, j int) { items[i], items[j] = items[j], items[i] })
			}
			b.WriteByte('{')
			for i, it := range items {
				if i > 0 {
					b.WriteByte(',')
				}
				b.WriteString(it.k)
				b.WriteByte(':')
				d.dump(it.v, depth+1)
			}
			b.WriteByte('}')
		default:
			b.WriteString("o:" + v.Class())
		}
	default:
		b.WriteString("?")
	}
}

// sortKV is a stable insertion sort (object member lists are short).
func sortKV(n int, less func(i, j int) bool, swap func(i, j int)) {
	for i := 1; i < n; i++ {
		for j := i; j > 0 && less(j, j-1); j-- {
			swap(j, j-1)
		}
	}
}

// shallow renders a value without descending (used in call logs, where the
// value may be cyclic).
func shallowOtto(v otto.Value) string {
	if v.IsObject() {
		return "o:" + v.Class()
	}
	return dumpOtto(v, dumpOpts)
}

func shallowVal(v *refjson.Val) string {
	if v == nil {
		return "U"
	}
	switch v.Kind {
	case refjson.Object:
		if v.Class != "" {
			return "o:" + v.Class
		}
		return "o:Object"
	case refjson.Array:
		return "o:Array"
	case refjson.Function:
		return "o:Function"
	}
	return refjson.Dump(v, dumpOpts)
}
