package c11

import (
	"math/bits"
	"strings"

	"verif/internal/refjson"
	"verif/internal/run"
)

// Known-finding matchers are deviation models: a failing case belongs to a
// finding iff the observed output equals what the reference model yields with
// a minimal set of known deviations switched on, and that set contains the
// finding's deviation. A failure no such set reproduces is a VIOLATION.

var devNames = []struct {
	name string
	bit  refjson.Dev
}{
	{"c11.stringifySortedKeys", refjson.DevSortKeys},
	{"c11.replacerArrayIndex", refjson.DevPropListIndex},
	{"c11.stringifyEscapeHTML", refjson.DevEscapeHTML},
	{"c11.stringifyEscapeLS", refjson.DevEscapeLS},
	{"c11.loneSurrogate", devFFFD},
	{"c11.gapByteTruncation", refjson.DevGapBytes},
	{"c11.parseKeyOrder", devKeyOrder},
	{"c11.parseNumberOverflow", devOverflow},
	{"c11.reviverLiveEnumeration", devLiveEnum},
	{"c11.stringifyExactInteger", refjson.DevExactInt},
}

func registerMatchers() {
	for _, d := range devNames {
		bit := d.bit
		run.RegisterMatcher(d.name, func(f *run.Failure) bool {
			set, ok := explain(f)
			return ok && set&bit != 0
		})
	}
}

// one-entry cache: every matcher of the finding list asks about the same failure
var (
	lastKey string
	lastSet refjson.Dev
	lastOK  bool
)

func sortedDetail(f *run.Failure) (string, bool) {
	if strings.HasPrefix(f.Detail, "sorted=") {
		return strings.TrimPrefix(f.Detail, "sorted="), true
	}
	return "", false
}

// same reports whether the model text equals the observed one (the framework
// hands matchers unclipped texts; a clipped comparison is kept for robustness).
func same(model, observed string) bool { return model == observed || clip(model) == observed }

func clip(s string) string { // mirrors run.Ctx.Fail
	if len(s) > 4000 {
		return s[:4000] + "…(clipped)"
	}
	return s
}

// reproduces reports whether the model with deviation set dev yields what was observed.
func reproduces(f *run.Failure, in Input, dev refjson.Dev) bool {
	switch f.Site {
	case "JSON.parse":
		ex := expectParse(in.Text, dev)
		if dev&devKeyOrder != 0 {
			s, ok := sortedDetail(f)
			return ok && same("sorted="+ex.sorted, "sorted="+s)
		}
		return same(ex.result, f.Actual)
	case "law:stringify(parse(t))":
		return same(expectLawSP(in.Text, dev), f.Actual)
	case "JSON.parse+reviver", "JSON.parse+reviver:calls":
		calls := f.Site == "JSON.parse+reviver:calls"
		if dev&devKeyOrder == 0 {
			ex := expectRevive(in, dev, nil)
			if calls {
				return same(ex.log, f.Actual)
			}
			return same(ex.result, f.Actual)
		}
		// properties created in an arbitrary order: compare modulo key order; the
		// call log as a multiset of (key, value) - holder snapshots and sibling
		// order follow the (random) creation order and are not compared. With
		// live enumeration the outcome depends on the creation order: search it.
		s, ok := sortedDetail(f)
		if !ok {
			return false
		}
		match := func(a []int) bool {
			ex := expectRevive(in, dev, a)
			if calls {
				return same("sorted="+ex.logCanon, "sorted="+s)
			}
			return same("sorted="+ex.sorted, "sorted="+s)
		}
		if dev&devLiveEnum == 0 {
			return match(nil)
		}
		found := false
		reviveAssignments(in, dev, func(a []int) bool { found = match(a); return found })
		return found
	case "JSON.stringify":
		res, _ := modelStringify(in, dev)
		return same(resultString(res), f.Actual)
	case "JSON.stringify:calls":
		_, log := modelStringify(in, dev)
		return same(strings.Join(log, " | "), f.Actual)
	case "JSON.stringify:reread", "law:parse(stringify(v))":
		res, _ := modelStringify(in, dev)
		if res.Kind != refjson.RText {
			return false
		}
		want, ok := expectReread(res)
		return ok && same(want, f.Actual)
	case "Value.MarshalJSON", "Object.MarshalJSON":
		res, _ := modelStringify(in, dev)
		if res.Kind != refjson.RText {
			return false
		}
		want, ok := expectMarshal(res)
		return ok && same(want, f.Actual)
	}
	return false
}

func candidateBits(f *run.Failure, in Input) []refjson.Dev {
	switch in.Op {
	case "parse", "revive":
		if f.Site == "law:stringify(parse(t))" {
			return []refjson.Dev{devFFFD}
		}
		if in.Op == "revive" {
			return []refjson.Dev{devFFFD, devKeyOrder, devOverflow, devLiveEnum}
		}
		return []refjson.Dev{devFFFD, devKeyOrder, devOverflow}
	case "stringify":
		switch f.Site {
		case "JSON.stringify":
			return []refjson.Dev{refjson.DevSortKeys, refjson.DevPropListIndex, refjson.DevEscapeHTML, refjson.DevEscapeLS, devFFFD, refjson.DevGapBytes, refjson.DevExactInt}
		case "JSON.stringify:calls":
			return []refjson.Dev{devFFFD, refjson.DevPropListIndex}
		default:
			return []refjson.Dev{devFFFD, refjson.DevPropListIndex}
		}
	}
	return nil
}

// explain finds a smallest deviation set that reproduces the observation.
func explain(f *run.Failure) (refjson.Dev, bool) {
	key := f.Site + "\x00" + f.Actual + "\x00" + f.Detail + "\x00" + string(f.Input)
	if key == lastKey {
		return lastSet, lastOK
	}
	lastKey, lastSet, lastOK = key, 0, false
	in, ok := f.In.(Input)
	if !ok || f.Kind != "mismatch" {
		return 0, false
	}
	cand := candidateBits(f, in)
	n := len(cand)
	for size := 1; size <= n; size++ {
		for mask := 1; mask < 1<<n; mask++ {
			if bits.OnesCount(uint(mask)) != size {
				continue
			}
			var dev refjson.Dev
			for i := 0; i < n; i++ {
				if mask&(1<<i) != 0 {
					dev |= cand[i]
				}
			}
			if reproduces(f, in, dev) {
				lastSet, lastOK = dev, true
				return dev, true
			}
		}
	}
	return 0, false
}
