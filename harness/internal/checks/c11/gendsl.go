package c11

import (
	"math"

	"verif/internal/gen"
	"verif/internal/refjson"
)

// ------------------------------------------------ value DSL generator (stringify)

func genNumber(r *gen.Rand) float64 {
	switch r.Intn(10) {
	case 0:
		return []float64{math.NaN(), math.Inf(1), math.Inf(-1), math.Copysign(0, -1), 0}[r.Intn(5)]
	case 1, 2:
		return float64(r.Range(-1000, 1000))
	case 3:
		return float64(r.Range(-1000000, 1000000)) / 8
	}
	f := interestingDouble(r)
	if r.Chance(1, 3) {
		f = -f
	}
	return f
}

// genStrValue returns a string value as code units. lone permits unpaired surrogates.
func genStrValue(r *gen.Rand, maxLen int, lone bool) refjson.U16 {
	n := r.Range(0, maxLen)
	out := refjson.U16{}
	for i := 0; i < n; i++ {
		out = append(out, genChar(r, lone)...)
	}
	return out
}

var dslKeys = []string{"a", "b", "c", "", "0", "1", "10", "2", "x", "y", "length", "k k", "A", "aa", "é", "z", "<k>", "q\"q", "n\nl", " ", "\U0001F600", "�", "ÿ", "valueOf", "toString"}

func genKey(r *gen.Rand) refjson.U16 {
	if r.Chance(5, 6) {
		return refjson.U16(refjson.U(dslKeys[r.Intn(len(dslKeys))]))
	}
	return genStrValue(r, 3, false)
}

// Date values stay within years 0..9999: toISOString outside that range and
// TimeClip at the range limit are Date matters (C12), not JSON ones.
var interestingTimes = []float64{0, -1, 1, 86399999, 951782400000, -62167219200000, 253402300799999, 1e12, 1.5, -0.5, 1234567890123, 946684799999, 946684800000}

type dslGen struct {
	r      *gen.Rand
	lone   bool
	exotic bool // undefined / functions / wrappers / Date / toJSON / getters / hidden
	cycles bool
	budget int
}

func (g *dslGen) node(depth, level int) *refjson.Node {
	r := g.r
	g.budget--
	w := []int{2, 2, 10, 10, 8, 8, 0, 0, 0, 0, 0, 0, 0}
	if g.exotic {
		w = []int{2, 2, 8, 8, 8, 8, 2, 2, 3, 2, 3, 0, 1}
	}
	if depth <= 0 || g.budget <= 0 {
		w[4], w[5], w[10] = 0, 0, 0
	}
	if g.cycles && level > 0 {
		w[11] = 1
	}
	switch r.Weighted(w) {
	case 0:
		return &refjson.Node{K: "null"}
	case 1:
		return &refjson.Node{K: "bool", B: r.Bool()}
	case 2:
		return &refjson.Node{K: "num", N: gen.F(genNumber(r))}
	case 3:
		return &refjson.Node{K: "str", S: genStrValue(r, 8, g.lone)}
	case 4:
		n := r.Range(0, 4)
		a := &refjson.Node{K: "arr", E: make([]*refjson.Node, n)}
		for i := range a.E {
			if g.exotic && r.Chance(1, 12) {
				continue // hole
			}
			a.E[i] = g.node(depth-1, level+1)
		}
		return a
	case 5:
		return g.object(depth, level)
	case 6:
		return &refjson.Node{K: "undef"}
	case 7:
		return &refjson.Node{K: "fn"}
	case 8:
		switch r.Intn(3) {
		case 0:
			n := &refjson.Node{K: "boxnum", N: gen.F(genNumber(r))}
			if r.Chance(1, 4) {
				n.HasOvN, n.OvN = true, gen.F(genNumber(r))
			}
			if r.Chance(1, 6) {
				n.HasOvS, n.OvS = true, genStrValue(r, 3, false)
			}
			return n
		case 1:
			n := &refjson.Node{K: "boxstr", S: genStrValue(r, 5, false)}
			if r.Chance(1, 4) {
				n.HasOvS, n.OvS = true, genStrValue(r, 3, false)
			}
			return n
		}
		return &refjson.Node{K: "boxbool", B: r.Bool()}
	case 9:
		t := interestingTimes[r.Intn(len(interestingTimes))]
		switch r.Intn(4) {
		case 0:
			t = math.NaN()
		case 1:
			t = math.Trunc(-62167219200000 + r.Float64()*(253402300799999+62167219200000))
		}
		return &refjson.Node{K: "date", N: gen.F(t)}
	case 10:
		o := g.object(depth, level)
		if r.Bool() {
			o.TJ = "key"
		} else {
			o.TJ = "val"
			// the toJSON result is described in the scope of the object itself
			o.TJV = g.node(depth-1, level+1)
		}
		return o
	case 11:
		return &refjson.Node{K: "ref", Up: r.Range(1, level)}
	case 12:
		// a property literally named toJSON that is not callable
		o := g.object(depth, level)
		o.P = append(o.P, refjson.NProp{Key: refjson.U16(refjson.U("toJSON")), V: &refjson.Node{K: "num", N: 5}})
		return o
	}
	return &refjson.Node{K: "null"}
}

func (g *dslGen) object(depth, level int) *refjson.Node {
	r := g.r
	n := r.Range(0, 5)
	o := &refjson.Node{K: "obj"}
	for i := 0; i < n; i++ {
		k := genKey(r)
		dup := false
		for _, p := range o.P {
			if refjson.EqUnits(p.Key, k) {
				dup = true
			}
		}
		if dup || refjson.EqUnits(k, refjson.U("toJSON")) {
			continue
		}
		p := refjson.NProp{Key: k, V: g.node(depth-1, level+1)}
		if g.exotic {
			p.Hidden = r.Chance(1, 12)
			p.Getter = r.Chance(1, 12)
		}
		o.P = append(o.P, p)
	}
	return o
}

// genValue describes one stringify input.
func genValue(r *gen.Rand, exotic, cycles, lone bool) *refjson.Node {
	g := &dslGen{r: r, exotic: exotic, cycles: cycles, lone: lone, budget: 30}
	d := r.Range(0, 4)
	if r.Chance(3, 4) {
		// mostly containers at the top
		if r.Bool() {
			return g.object(d, 0)
		}
		n := r.Range(0, 4)
		a := &refjson.Node{K: "arr", E: make([]*refjson.Node, n)}
		for i := range a.E {
			a.E[i] = g.node(d-1, 1)
		}
		return a
	}
	return g.node(d, 0)
}

// ---------------------------------------------------------------- families

func numNode(f float64) *refjson.Node { return &refjson.Node{K: "num", N: gen.F(f)} }
func strNode(s string) *refjson.Node  { return &refjson.Node{K: "str", S: refjson.U16(refjson.U(s))} }

// genSpace picks the third argument (nil = not passed).
func genSpace(r *gen.Rand) *refjson.Node {
	switch r.Intn(26) {
	case 0, 1, 2, 3, 4, 5:
		return nil
	case 6:
		return numNode([]float64{0, 3, 10, 11, -1, 0.5, 1, 2, 9, 9.9, 10.5, 1e30, 4294967297}[r.Intn(13)])
	case 7:
		return numNode(3)
	case 8:
		return numNode(10)
	case 9:
		return numNode(11)
	case 10:
		return numNode([]float64{-1, 0.5, math.NaN(), math.Inf(1), math.Inf(-1), math.Copysign(0, -1), 1.9}[r.Intn(7)])
	case 11:
		return strNode("")
	case 12:
		return strNode("ab")
	case 13:
		return strNode("abcdefghijkl") // 12 characters
	case 14:
		return strNode([]string{"\t", " ", "  ", "\n", "--", "0123456789", "0123456789X"}[r.Intn(7)])
	case 15:
		return strNode([]string{"éé", "éééééé", "aéééééé", "ééééééééééé", "    ", "a    ", "\U0001F600\U0001F600\U0001F600", "\U0001F600\U0001F600\U0001F600\U0001F600\U0001F600\U0001F600", "日本語日本語日本語日本語"}[r.Intn(9)])
	case 16:
		n := &refjson.Node{K: "boxnum", N: gen.F([]float64{3, 11, 0, -2, 2.5}[r.Intn(5)])}
		if r.Chance(1, 3) {
			n.HasOvN, n.OvN = true, gen.F(r.Range(0, 12))
		}
		return n
	case 17:
		n := &refjson.Node{K: "boxstr", S: refjson.U16(refjson.U([]string{"ab", "", "abcdefghijkl", "\t"}[r.Intn(4)]))}
		if r.Chance(1, 3) {
			n.HasOvS, n.OvS = true, refjson.U16(refjson.U([]string{"zz", "", "0123456789ABC"}[r.Intn(3)]))
		}
		return n
	case 18:
		return &refjson.Node{K: "bool", B: true}
	case 19:
		return &refjson.Node{K: "null"}
	case 20:
		return &refjson.Node{K: "obj"}
	case 21:
		return &refjson.Node{K: "undef"}
	case 22:
		return &refjson.Node{K: "arr", E: []*refjson.Node{numNode(2)}}
	case 23:
		return &refjson.Node{K: "boxbool", B: true}
	}
	return numNode(float64(r.Range(1, 4)))
}

var replFns = []string{"log", "filter", "replace", "thisget", "mutate"}

// genReplArr builds a replacer that is not a function: mostly arrays of
// candidate property names with duplicates / numbers / boxed / ineligible
// entries, sometimes another ignored value.
func genReplArr(r *gen.Rand, v *refjson.Node) *refjson.Node {
	if r.Chance(1, 8) {
		switch r.Intn(5) {
		case 0:
			return &refjson.Node{K: "obj"}
		case 1:
			return strNode("a")
		case 2:
			return numNode(1)
		case 3:
			return &refjson.Node{K: "null"}
		}
		return &refjson.Node{K: "bool", B: true}
	}
	// collect keys used by the value so the list is likely to hit
	var pool []refjson.U16
	var walk func(n *refjson.Node)
	walk = func(n *refjson.Node) {
		if n == nil {
			return
		}
		for _, p := range n.P {
			pool = append(pool, p.Key)
			walk(p.V)
		}
		for _, e := range n.E {
			walk(e)
		}
		walk(n.TJV)
	}
	walk(v)
	for _, k := range []string{"a", "b", "1", "0", ""} {
		pool = append(pool, refjson.U16(refjson.U(k)))
	}
	n := r.Range(0, 7)
	a := &refjson.Node{K: "arr", E: make([]*refjson.Node, n)}
	for i := range a.E {
		switch r.Intn(12) {
		case 0:
			a.E[i] = numNode([]float64{0, 1, 2, 10, math.Copysign(0, -1), 1.5, 1e21, math.NaN()}[r.Intn(8)])
		case 1:
			nn := &refjson.Node{K: "boxnum", N: gen.F(r.Range(0, 2))}
			if r.Chance(1, 3) {
				nn.HasOvS, nn.OvS = true, pool[r.Intn(len(pool))]
			}
			if r.Chance(1, 3) {
				nn.HasOvN, nn.OvN = true, 7
			}
			a.E[i] = nn
		case 2:
			nn := &refjson.Node{K: "boxstr", S: pool[r.Intn(len(pool))]}
			if r.Chance(1, 3) {
				nn.HasOvS, nn.OvS = true, pool[r.Intn(len(pool))]
			}
			a.E[i] = nn
		case 3:
			a.E[i] = []*refjson.Node{{K: "bool", B: true}, {K: "null"}, {K: "undef"}, {K: "obj"}, {K: "arr"}, {K: "fn"}, {K: "boxbool", B: true}, {K: "date", N: 0}}[r.Intn(8)]
		case 4:
			// hole
		default:
			a.E[i] = &refjson.Node{K: "str", S: pool[r.Intn(len(pool))]}
		}
	}
	return a
}

var revivers = []string{"identity", "delEven", "replace", "keydel", "mutArr", "noncallable"}

// parse-argument family: JS expression, the text ToString gives.
var parseArgs = []struct{ expr, text string }{
	{"null", "null"}, {"void 0", "undefined"}, {"", "undefined"}, {"12", "12"}, {"-0", "0"}, {"true", "true"}, {"[1,2]", "1,2"}, {"[1]", "1"}, {"[]", ""},
	{`{toString:function(){return "[1, 2]"}}`, "[1, 2]"}, {`new String("{}")`, "{}"}, {"1e21", "1e+21"}, {"0.5", "0.5"}, {"1/0", "Infinity"}, {"0/0", "NaN"},
	{`{}`, "[object Object]"}, {`[[]]`, ""}, {`["[]"]`, "[]"}, {"new Number(5)", "5"}, {`" 7 "`, " 7 "}, {"false", "false"},
}
