package c11

import (
	"strings"

	"verif/internal/ox"
	"verif/internal/refjson"
)

// Deviation bits beyond refjson's stringify ones (parse side). Expected values
// are always computed with dev == 0; non-zero sets are only used by the
// known-finding matchers as deviation models.
const (
	devFFFD     = refjson.DevFFFD // unpaired surrogates become U+FFFD (parse and stringify)
	devKeyOrder = refjson.Dev(1 << 16)
	devOverflow = refjson.Dev(1 << 17)
	devLiveEnum = refjson.Dev(1 << 18) // reviver walk enumerates the live key array (skips after a delete)
)

var lawOpts = refjson.DumpOpts{NumLabel: ox.Num, SortKeys: true, ZeroSign: true}

type parseExp struct {
	result, sorted string
	model          *refjson.Val
	err            error
}

// parseModel is the oracle (dev == 0) or, for matchers, the deviation model.
func parseModel(text []uint16, dev refjson.Dev) (*refjson.Val, bool, error) {
	if dev&devFFFD != 0 {
		return refjson.ParseGoSurrogates(text)
	}
	return refjson.ParseOverflow(text)
}

func expectParse(text []uint16, dev refjson.Dev) parseExp {
	m, overflow, err := parseModel(text, dev)
	if err != nil {
		return parseExp{result: "throw:SyntaxError", sorted: "throw:SyntaxError", err: err}
	}
	if dev&devOverflow != 0 && overflow {
		return parseExp{result: "throw:SyntaxError", sorted: "throw:SyntaxError", model: m}
	}
	return parseExp{result: refjson.Dump(m, dumpOpts), sorted: refjson.Dump(m, sortedOpts), model: m}
}

func expectLawSP(text []uint16, dev refjson.Dev) string {
	m, _, err := parseModel(text, dev)
	if err != nil {
		return "throw:SyntaxError"
	}
	return refjson.Dump(m, lawOpts)
}

type reviveExp struct {
	result, sorted string
	log, logCanon  string
	ncalls         int
	multiKey       bool
	err            error
}

// multiKeyObjects lists the objects with more than one property (DFS order).
func multiKeyObjects(v *refjson.Val, out *[]*refjson.Val) {
	switch v.Kind {
	case refjson.Array:
		for _, e := range v.Elems {
			if e != nil {
				multiKeyObjects(e, out)
			}
		}
	case refjson.Object:
		if len(v.Props) > 1 {
			*out = append(*out, v)
		}
		for _, p := range v.Props {
			multiKeyObjects(p.V, out)
		}
	}
}

func factorial(n int) int {
	f := 1
	for i := 2; i <= n; i++ {
		f *= i
	}
	return f
}

// permute reorders props into the idx-th permutation (factorial number system).
func permute(props []*refjson.Prop, idx int) []*refjson.Prop {
	pool := append([]*refjson.Prop{}, props...)
	out := make([]*refjson.Prop, 0, len(props))
	for n := len(pool); n > 0; n-- {
		f := factorial(n - 1)
		k := idx / f
		idx %= f
		out = append(out, pool[k])
		pool = append(pool[:k:k], pool[k+1:]...)
	}
	return out
}

// expectRevive computes the oracle (dev == 0, assignment nil). For matchers,
// assignment gives for every multi-key object (DFS order) the permutation in
// which its properties were created.
func expectRevive(in Input, dev refjson.Dev, assignment []int) reviveExp {
	m, overflow, err := parseModel(in.Text, dev)
	if err != nil {
		return reviveExp{result: "throw:SyntaxError", sorted: "throw:SyntaxError", err: err}
	}
	if dev&devOverflow != 0 && overflow {
		return reviveExp{result: "throw:SyntaxError", sorted: "throw:SyntaxError"}
	}
	var multi []*refjson.Val
	multiKeyObjects(m, &multi)
	ex := reviveExp{multiKey: len(multi) > 0}
	for i, o := range multi {
		if i < len(assignment) {
			o.Props = permute(o.Props, assignment[i])
		}
	}
	var log, canon []string
	if rv := modelReviver(in.Reviver, &log, &canon); rv != nil {
		if dev&devLiveEnum != 0 {
			m = refjson.ReviveLiveEnumeration(m, rv)
		} else {
			m = refjson.Revive(m, rv)
		}
	}
	ex.result, ex.sorted = refjson.Dump(m, dumpOpts), refjson.Dump(m, sortedOpts)
	ex.log, ex.logCanon, ex.ncalls = strings.Join(log, " | "), canonLog(canon), len(log)
	return ex
}

// reviveAssignments enumerates creation-order assignments for the multi-key
// objects of the text (bounded; ok=false when there are too many).
func reviveAssignments(in Input, dev refjson.Dev, each func(a []int) bool) (ok bool) {
	m, _, err := parseModel(in.Text, dev)
	if err != nil {
		return each(nil) || true
	}
	var multi []*refjson.Val
	multiKeyObjects(m, &multi)
	total := 1
	radix := make([]int, len(multi))
	for i, o := range multi {
		radix[i] = factorial(len(o.Props))
		if len(o.Props) > 8 || total*radix[i] > 60000 {
			return false
		}
		total *= radix[i]
	}
	a := make([]int, len(multi))
	for n := 0; n < total; n++ {
		x := n
		for i := range a {
			a[i] = x % radix[i]
			x /= radix[i]
		}
		if each(a) {
			return true
		}
	}
	return true
}

func resultString(r refjson.Result) string {
	switch r.Kind {
	case refjson.RUndefined:
		return "U"
	case refjson.RTypeError:
		return "throw:TypeError"
	}
	return refjson.QuoteASCII(r.Text())
}

// modelStringify runs the model on a fresh instantiation of the input.
func modelStringify(in Input, dev refjson.Dev) (refjson.Result, []string) {
	var log []string
	lop := dumpOpts
	lop.FFFD = dev&devFFFD != 0
	sh := func(v *refjson.Val) string {
		if v != nil && v.Kind == refjson.String {
			return refjson.Dump(v, lop)
		}
		return shallowVal(v)
	}
	hooks := &refjson.Hooks{ToJSON: func(k []uint16) { log = append(log, "tj:"+refjson.QuoteASCII(k)) }}
	opt := refjson.Options{Dev: dev & refjson.DevAllStringify}
	if in.ReplFn != "" {
		opt.ReplacerFn = modelReplacer(in.ReplFn, &log, sh)
	} else if in.Repl != nil {
		opt.Replacer = refjson.Instantiate(in.Repl, nil)
	}
	if in.Space != nil {
		opt.Space = refjson.Instantiate(in.Space, nil)
	}
	return refjson.Stringify(refjson.Instantiate(in.V, hooks), opt), log
}

// expectReread: the value the (model) text denotes, key order aside.
func expectReread(res refjson.Result) (string, bool) {
	v, err := refjson.Parse(res.Text())
	if err != nil {
		return "", false
	}
	return refjson.Dump(v, sortedOpts), true
}

func expectMarshal(res refjson.Result) (string, bool) {
	v, err := refjson.Parse(res.Text())
	if err != nil {
		return "", false
	}
	return refjson.Dump(v, lawOpts), true
}

// gapIsJSONWhiteSpace: a gap made of anything else makes the output
// deliberately non-JSON, so it is not re-read.
func gapIsJSONWhiteSpace(in Input) bool {
	if in.Space == nil {
		return true
	}
	probe := &refjson.Val{Kind: refjson.Array, Elems: []*refjson.Val{refjson.NullV()}}
	g := refjson.Stringify(probe, refjson.Options{Space: refjson.Instantiate(in.Space, nil)})
	for _, u := range g.Text() {
		switch u {
		case '[', ']', 'n', 'u', 'l', ' ', '\t', '\n', '\r':
		default:
			return false
		}
	}
	return true
}
