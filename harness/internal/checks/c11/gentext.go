package c11

import (
	"math"
	"math/big"

	"verif/internal/gen"
	"verif/internal/refjson"
)

// ------------------------------------------------------------ JSON text generator
//
// Texts are generated as token lists so that the mutation operators can aim at
// a number, a string, a key or a token boundary. Whether a (mutated) text is
// valid and what it denotes is decided by refjson.Parse alone.

type tok struct {
	kind byte // n number, s string value, k key, l literal, [ ] { } , : and w white space
	u    []uint16
}

func a2u(s string) []uint16 {
	u := make([]uint16, len(s))
	for i := 0; i < len(s); i++ {
		u[i] = uint16(s[i])
	}
	return u
}

func flatten(ts []tok) []uint16 {
	var out []uint16
	for _, t := range ts {
		out = append(out, t.u...)
	}
	return out
}

func digitsN(r *gen.Rand, n int) string {
	b := make([]byte, n)
	for i := range b {
		b[i] = byte('0' + r.Intn(10))
	}
	return string(b)
}

func interestingDouble(r *gen.Rand) float64 {
	switch r.Intn(9) {
	case 8: // integers between 2^53 and 2^64: more than 17 significant digits when written out
		return math.Ldexp(float64(uint64(1)<<52|r.Uint64()>>12), r.Range(1, 11))
	case 0:
		return float64(r.Range(-100, 100))
	case 1:
		xs := []float64{1e21, 1e21 - 65536*2, 1e20, 1e-6, 1e-7, 1.5e-7, 9007199254740992, 9007199254740993 - 1, 9007199254740994, 4294967296, 2147483648, 1e15 + 0.5, 0.1, 0.2, 0.30000000000000004,
			math.MaxFloat64, math.SmallestNonzeroFloat64, 2.2250738585072014e-308, 2.225073858507201e-308, 123456789012345680000, 1e300, 1e-300, 9223372036854775808, 18446744073709551616, 0.000001234, 100, 1e5, 25, 1.7976931348623157e308 / 2}
		return xs[r.Intn(len(xs))]
	case 2:
		return math.Ldexp(1, r.Range(-1074, 1023))
	case 3:
		return math.Ldexp(float64(r.Range(1, 1<<20)), r.Range(-1090, 1000))
	case 4:
		return float64(r.Range(-1000000, 1000000)) / []float64{10, 100, 1000, 8, 3}[r.Intn(5)]
	case 5:
		return math.Pow(10, float64(r.Range(-323, 308)))
	}
	f := r.Bits()
	if f != f || math.IsInf(f, 0) {
		return float64(r.Range(0, 1000))
	}
	return f
}

// sciText lays digits out as d.ddd(e|E)(+|-|)xx with optional exponent leading zeros.
func sciText(r *gen.Rand, digits string, exp10 int) string {
	// value = digits * 10^exp10 ; place the point after the first digit
	e := exp10 + len(digits) - 1
	s := digits[:1]
	if len(digits) > 1 {
		s += "." + digits[1:]
	}
	es := "e"
	if r.Bool() {
		es = "E"
	}
	switch {
	case e < 0:
		es += "-"
		e = -e
	case r.Bool():
		es += "+"
	}
	if r.Chance(1, 6) {
		es += "00"
	}
	return s + es + itoa(e)
}

func itoa(n int) string { return refjson.NumberToString(float64(n)) }

var hugeNumbers = []string{"1e400", "-1e400", "1e309", "1.7976931348623158e308", "1.7976931348623159e308", "-1.7976931348623159e308", "1.797693134862315807e308",
	"179769313486231580793728971405303415079934132710037826936173778980444968292764750946649017977587207096330286416692887910946555547851940402630657488671505820681908902000708383676273854845817711531764475730270069855571366959622842914819860834936475292719074168444365510704342711559699508093042880177904174497791.9999",
	"179769313486231580793728971405303415079934132710037826936173778980444968292764750946649017977587207096330286416692887910946555547851940402630657488671505820681908902000708383676273854845817711531764475730270069855571366959622842914819860834936475292719074168444365510704342711559699508093042880177904174497792",
	"2e-324", "2.4703282292062327e-324", "2.4703282292062328e-324", "1e-400", "-1e-400", "4.9e-324", "1e99999999999", "-1e99999999999", "1e-99999999999", "0e99999999999", "0.0e-5", "-0.0", "-0e5",
	"1e308", "1E+308", "9e999", "123456789012345678901234567890", "0.1e-999", "1e+0000000000000000000000000000000000000003"}

func genNumText(r *gen.Rand) string {
	switch r.Intn(14) {
	case 0:
		return itoa(r.Range(-1000, 1000))
	case 1:
		return []string{"0", "-0", "0.0", "-0.0", "0e0", "0E-0", "-0e+5", "1", "-1", "10", "0.5", "1.0", "1.50", "100", "1e2", "1E2", "1e+2", "1e-2", "12.5e1"}[r.Intn(19)]
	case 2:
		return itoa(r.Range(0, 100000)) + "." + digitsN(r, r.Range(1, 22))
	case 3:
		m := itoa(r.Range(1, 99999))
		if r.Bool() {
			m += "." + digitsN(r, r.Range(1, 6))
		}
		if r.Bool() {
			m = "-" + m
		}
		return m + []string{"e", "E"}[r.Intn(2)] + []string{"", "+", "-"}[r.Intn(3)] + []string{"", "0", "00"}[r.Intn(3)] + itoa(r.Range(0, 330))
	case 4, 5:
		f := interestingDouble(r)
		s := refjson.NumberToString(math.Abs(f))
		if math.Signbit(f) {
			s = "-" + s
		}
		return s
	case 6: // 17..25 significant digits of the exact expansion
		f := math.Abs(interestingDouble(r))
		if f == 0 {
			return "0"
		}
		d, e := refjson.ExactDecimal(f)
		k := r.Range(15, 25)
		if k < len(d) {
			e += len(d) - k
			d = d[:k]
		}
		return sciText(r, d, e)
	case 7: // full exact expansion
		f := math.Abs(interestingDouble(r))
		if f == 0 {
			return "0.000"
		}
		d, e := refjson.ExactDecimal(f)
		if e == 0 {
			return d
		}
		if len(d) > -e {
			return d[:len(d)+e] + "." + d[len(d)+e:]
		}
		return sciText(r, d, e)
	case 8, 9: // halfway between two adjacent doubles, and just off it
		f := math.Abs(interestingDouble(r))
		if math.IsInf(f, 0) || f == 0 {
			f = 1
		}
		g := math.Nextafter(f, math.Inf(1))
		if math.IsInf(g, 0) {
			f, g = math.Nextafter(f, 0), f
		}
		d1, e1 := refjson.ExactDecimal(f)
		d2, e2 := refjson.ExactDecimal(g)
		// align to the smaller exponent, add, halve (times 5, exponent - 1)
		e := e1
		if e2 < e {
			e = e2
		}
		b1, _ := new(big.Int).SetString(d1+zerosStr(e1-e), 10)
		b2, _ := new(big.Int).SetString(d2+zerosStr(e2-e), 10)
		mid := new(big.Int).Add(b1, b2)
		mid.Mul(mid, big.NewInt(5))
		e--
		d := mid.String()
		switch r.Intn(3) {
		case 1: // just above
			d += "0000000000000000000001"
			e -= 22
		case 2: // just below
			mid.Sub(mid, big.NewInt(1))
			d = mid.String() + "9999999999999999999999"
			e -= 22
		}
		return sciText(r, d, e)
	case 10:
		return hugeNumbers[r.Intn(len(hugeNumbers))]
	case 11: // long forms
		switch r.Intn(4) {
		case 0:
			return "0." + zerosStr(r.Range(300, 420)) + digitsN(r, r.Range(1, 20))
		case 1:
			return itoa(r.Range(1, 9)) + digitsN(r, r.Range(20, 60)) + zerosStr(r.Range(0, 300))
		case 2:
			return itoa(r.Range(1, 9)) + zerosStr(r.Range(280, 420))
		}
		return digitsN(r, 1) + "." + digitsN(r, r.Range(700, 1200)) + "e" + itoa(r.Range(-340, 300))
	}
	f := math.Abs(interestingDouble(r))
	if f == 0 {
		return "-0"
	}
	d, n := refjson.ShortestDigits(f)
	s := sciText(r, d, n-len(d))
	if r.Bool() {
		s = "-" + s
	}
	return s
}

func zerosStr(n int) string {
	b := make([]byte, n)
	for i := range b {
		b[i] = '0'
	}
	return string(b)
}

func hex4(c uint16, upper bool) []uint16 {
	const lo, up = "0123456789abcdef", "0123456789ABCDEF"
	h := lo
	if upper {
		h = up
	}
	return []uint16{'\\', 'u', uint16(h[c>>12&15]), uint16(h[c>>8&15]), uint16(h[c>>4&15]), uint16(h[c&15])}
}

// genChar picks a code point class; returns the code units of one character.
func genChar(r *gen.Rand, lone bool) []uint16 {
	switch r.Weighted([]int{30, 6, 6, 4, 4, 4, 6, 5, 3, 2, 2}) {
	case 0:
		return []uint16{uint16(r.Range(0x20, 0x7e))}
	case 1:
		return []uint16{uint16(r.Range(0, 0x1f))}
	case 2:
		return []uint16{[]uint16{'"', '\\', '/', '<', '>', '&', '\'', 0x7f}[r.Intn(8)]}
	case 3:
		return []uint16{uint16(r.Range(0x80, 0xff))}
	case 4:
		return []uint16{[]uint16{0x2028, 0x2029, 0xFEFF, 0xFFFD, 0xFFFE, 0xFFFF, 0x00A0, 0x200B, 0x0085}[r.Intn(9)]}
	case 5:
		return []uint16{uint16(r.Range(0x100, 0xD7FF))}
	case 6:
		return []uint16{uint16(r.Range(0xD800, 0xDBFF)), uint16(r.Range(0xDC00, 0xDFFF))}
	case 7:
		return []uint16{uint16(r.Range(0xE000, 0xFFFF))}
	case 8:
		return []uint16{[]uint16{'b', 'f', 'n', 'r', 't', 'u', 'x', '0'}[r.Intn(8)]} // letters that look like escapes
	case 9:
		if lone {
			return []uint16{uint16(r.Range(0xD800, 0xDFFF))}
		}
	}
	return []uint16{uint16(r.Range(0x30, 0x39))}
}

// encodeChar writes one code unit into a JSON string body, choosing among the
// representations the grammar allows.
func encodeChar(r *gen.Rand, c uint16) []uint16 {
	short := map[uint16]uint16{'"': '"', '\\': '\\', '/': '/', 8: 'b', 12: 'f', 10: 'n', 13: 'r', 9: 't'}
	must := c < 0x20 || c == '"' || c == '\\'
	if !must && !r.Chance(1, 5) {
		return []uint16{c}
	}
	if s, ok := short[c]; ok && r.Chance(3, 4) {
		return []uint16{'\\', s}
	}
	return hex4(c, r.Bool())
}

// genStrBody returns the text between the quotes of a valid JSONString.
func genStrBody(r *gen.Rand, maxLen int, lone bool) []uint16 {
	n := r.Range(0, maxLen)
	var out []uint16
	for i := 0; i < n; i++ {
		for _, c := range genChar(r, lone) {
			out = append(out, encodeChar(r, c)...)
		}
	}
	return out
}

var keyPool = []string{"a", "b", "c", "", "0", "1", "10", "2", "x", "y", "length", "__proto__", "toString", "constructor", "hasOwnProperty", "valueOf", "toJSON", "A", "aa", "é", "z"}

func quoted(body []uint16) []uint16 {
	return append(append([]uint16{'"'}, body...), '"')
}

func genWS(r *gen.Rand) []uint16 {
	if !r.Chance(1, 4) {
		return nil
	}
	n := r.Range(1, 3)
	out := make([]uint16, n)
	for i := range out {
		out[i] = []uint16{' ', '\t', '\n', '\r'}[r.Intn(4)]
	}
	return out
}

type textGen struct {
	r       *gen.Rand
	ts      []tok
	lone    bool // may emit unpaired surrogates
	budget  int
	maxKeys int
}

func (g *textGen) emit(kind byte, u []uint16) { g.ts = append(g.ts, tok{kind, u}) }
func (g *textGen) ws() {
	if w := genWS(g.r); w != nil {
		g.emit('w', w)
	}
}

func (g *textGen) value(depth int) {
	r := g.r
	g.budget--
	w := []int{3, 8, 8, 5, 5}
	if depth <= 0 || g.budget <= 0 {
		w = []int{3, 8, 8, 0, 0}
	}
	switch r.Weighted(w) {
	case 0:
		g.emit('l', a2u([]string{"null", "true", "false"}[r.Intn(3)]))
	case 1:
		g.emit('n', a2u(genNumText(r)))
	case 2:
		g.emit('s', quoted(genStrBody(r, 8, g.lone)))
	case 3:
		g.emit('[', a2u("["))
		n := r.Range(0, 4)
		for i := 0; i < n; i++ {
			if i > 0 {
				g.emit(',', a2u(","))
			}
			g.ws()
			g.value(depth - 1)
			g.ws()
		}
		if n == 0 {
			g.ws()
		}
		g.emit(']', a2u("]"))
	case 4:
		g.emit('{', a2u("{"))
		n := r.Range(0, g.maxKeys)
		for i := 0; i < n; i++ {
			if i > 0 {
				g.emit(',', a2u(","))
			}
			g.ws()
			var body []uint16
			if r.Chance(4, 5) {
				for _, c := range refjson.U(keyPool[r.Intn(len(keyPool))]) {
					if r.Chance(1, 10) {
						body = append(body, hex4(c, r.Bool())...)
					} else {
						body = append(body, c)
					}
				}
			} else {
				body = genStrBody(r, 4, g.lone)
			}
			g.emit('k', quoted(body))
			g.ws()
			g.emit(':', a2u(":"))
			g.ws()
			g.value(depth - 1)
			g.ws()
		}
		if n == 0 {
			g.ws()
		}
		g.emit('}', a2u("}"))
	}
}

// genTokens produces a valid JSON text as tokens.
func genTokens(r *gen.Rand, lone bool) []tok {
	g := &textGen{r: r, lone: lone, budget: 40, maxKeys: 5}
	g.ws()
	g.value(r.Range(0, 4))
	g.ws()
	return g.ts
}

// genTokensSmall: texts for the reviver family. Objects have at most 3 keys
// and the text at most 16 values, so that the creation-order search of the
// key-order deviation model stays small.
func genTokensSmall(r *gen.Rand) []tok {
	for try := 0; ; try++ {
		g := &textGen{r: r, budget: 16, maxKeys: 3}
		g.ws()
		g.value(r.Range(1, 4))
		g.ws()
		// mostly containers at the top: a reviver over a lone primitive says little
		for _, t := range g.ts {
			if t.kind == 'w' {
				continue
			}
			if t.kind == '[' || t.kind == '{' || try >= 3 {
				return g.ts
			}
			break
		}
	}
}

// --------------------------------------------------------------- mutations

var mutations = []string{
	"none", "none", "none", "none", "none", "none", "none", "none", "none", "none", "none", "none",
	"lead0", "plus", "dotlead", "dottrail", "exp-empty", "exp-sign", "minus-only", "double-minus", "hex", "underscore", "arabic-digit", "fullwidth-digit",
	"minus-space", "NaN", "Infinity", "-Infinity", "undefined", "octal", "dot-exp", "exp-only", "exp-frac", "num-suffix", "num-join",
	"lit-upper", "lit-title", "lit-short", "lit-long", "lit-join",
	"trail-comma", "lead-comma", "double-comma", "missing-comma", "missing-colon", "colon-in-array", "swap-close", "unclosed", "extra-close", "empty-member",
	"key-number", "key-unquoted", "key-single", "str-single", "key-literal",
	"comment-block", "comment-line", "comment-hash", "comment-html",
	"raw-ctl", "bad-esc-x", "bad-esc-u-short", "bad-esc-u-nonhex", "bad-esc-v", "bad-esc-squote", "bad-esc-a", "bad-esc-0", "bad-esc-U", "bad-esc-end", "bad-esc-u-brace", "unescaped-quote",
	"esc-lone-hi", "esc-lone-lo", "esc-reversed-pair", "raw-lone-hi", "raw-lone-lo",
	"valid-del", "valid-ls", "valid-c1", "valid-solidus", "valid-nul-escape", "valid-fffd", "valid-bom-in-string", "valid-pair-escape", "valid-ws", "valid-dup-key",
	"ws-nbsp", "ws-bom", "ws-ls", "ws-ps", "ws-vt", "ws-ff", "ws-nel", "ws-ogham", "ws-enquad", "ws-ideographic", "ws-zwsp", "ws-nul", "bom-start",
	"trunc", "trunc", "extra-value", "extra-garbage", "extra-comma", "two-values", "nul-at-end",
	"empty", "ws-only",
	"deep-arr", "deep-obj", "deep-mixed", "deep-unbalanced",
	"flip-unit", "del-unit", "ins-unit", "dup-token", "del-token", "swap-tokens", "uesc-outside",
	"big-number", "big-number",
}

func findTok(r *gen.Rand, ts []tok, kinds string) int {
	var idx []int
	for i, t := range ts {
		for j := 0; j < len(kinds); j++ {
			if t.kind == kinds[j] {
				idx = append(idx, i)
			}
		}
	}
	if len(idx) == 0 {
		return -1
	}
	return idx[r.Intn(len(idx))]
}

func cloneToks(ts []tok) []tok {
	out := make([]tok, len(ts))
	for i, t := range ts {
		out[i] = tok{t.kind, append([]uint16{}, t.u...)}
	}
	return out
}

func insertTok(ts []tok, at int, t tok) []tok {
	out := append([]tok{}, ts[:at]...)
	out = append(out, t)
	return append(out, ts[at:]...)
}

// ensure makes sure a token of one of the kinds exists by wrapping the text
// into an array/object together with a fresh one.
func ensure(r *gen.Rand, ts []tok, kind byte) ([]tok, int) {
	if i := findTok(r, ts, string(kind)); i >= 0 {
		return ts, i
	}
	switch kind {
	case 'n':
		out := append([]tok{{'[', a2u("[")}, {'n', a2u(genNumText(r))}, {',', a2u(",")}}, ts...)
		return append(out, tok{']', a2u("]")}), 1
	case 's':
		out := append([]tok{{'[', a2u("[")}, {'s', quoted(genStrBody(r, 6, false))}, {',', a2u(",")}}, ts...)
		return append(out, tok{']', a2u("]")}), 1
	case 'l':
		out := append([]tok{{'[', a2u("[")}, {'l', a2u("true")}, {',', a2u(",")}}, ts...)
		return append(out, tok{']', a2u("]")}), 1
	case 'k', '{', '}':
		out := append([]tok{{'{', a2u("{")}, {'k', a2u(`"k"`)}, {':', a2u(":")}}, ts...)
		out = append(out, tok{'}', a2u("}")})
		switch kind {
		case 'k':
			return out, 1
		case '{':
			return out, 0
		}
		return out, len(out) - 1
	case '[', ']', ',':
		out := append([]tok{{'[', a2u("[")}, {'l', a2u("null")}, {',', a2u(",")}}, ts...)
		out = append(out, tok{']', a2u("]")})
		switch kind {
		case '[':
			return out, 0
		case ',':
			return out, 2
		}
		return out, len(out) - 1
	}
	return ts, 0
}

// strInsert inserts units at a random position inside the body of string token i.
func strInsert(r *gen.Rand, ts []tok, i int, ins []uint16) {
	u := ts[i].u
	// candidate positions: not inside an escape sequence
	var pos []int
	for p := 1; p < len(u); {
		pos = append(pos, p)
		if u[p] == '\\' && p+1 < len(u) {
			if u[p+1] == 'u' {
				p += 6
			} else {
				p += 2
			}
		} else {
			p++
		}
	}
	at := 1
	if len(pos) > 0 {
		at = pos[r.Intn(len(pos))]
	}
	if at > len(u)-1 {
		at = len(u) - 1
	}
	nu := append([]uint16{}, u[:at]...)
	nu = append(nu, ins...)
	ts[i].u = append(nu, u[at:]...)
}

func deepText(r *gen.Rand, kind string) []uint16 {
	d := []int{20, 100, 500, 1500, 3000}[r.Intn(5)]
	var out []uint16
	switch kind {
	case "deep-arr":
		for i := 0; i < d; i++ {
			out = append(out, '[')
		}
		if r.Bool() {
			out = append(out, a2u(genNumText(r))...)
		}
		for i := 0; i < d; i++ {
			out = append(out, ']')
		}
	case "deep-obj":
		for i := 0; i < d; i++ {
			out = append(out, a2u(`{"a":`)...)
		}
		out = append(out, a2u("null")...)
		for i := 0; i < d; i++ {
			out = append(out, '}')
		}
	case "deep-mixed":
		var close []uint16
		for i := 0; i < d; i++ {
			if r.Bool() {
				out = append(out, a2u(`[1,`)...)
				close = append(close, ']')
			} else {
				out = append(out, a2u(`{"k":0,"a":`)...)
				close = append(close, '}')
			}
		}
		out = append(out, a2u(`"x"`)...)
		for i := len(close) - 1; i >= 0; i-- {
			out = append(out, close[i])
		}
	case "deep-unbalanced":
		for i := 0; i < d; i++ {
			out = append(out, '[')
		}
		for i := 0; i < d-1+2*r.Intn(2); i++ {
			out = append(out, ']')
		}
	}
	return out
}

// mutate applies the named operator to a valid token list.
func mutate(r *gen.Rand, ts []tok, name string) []uint16 {
	ts = cloneToks(ts)
	replaceNum := func(f func(s string) string) []uint16 {
		var i int
		ts, i = ensure(r, ts, 'n')
		s := make([]byte, len(ts[i].u))
		for k, c := range ts[i].u {
			s[k] = byte(c)
		}
		ts[i].u = a2u(f(string(s)))
		return flatten(ts)
	}
	setNum := func(s string) []uint16 { return replaceNum(func(string) string { return s }) }
	intoStr := func(ins []uint16) []uint16 {
		var i int
		kind := byte('s')
		if r.Chance(1, 4) {
			kind = 'k'
		}
		ts, i = ensure(r, ts, kind)
		strInsert(r, ts, i, ins)
		return flatten(ts)
	}
	atBoundary := func(ins []uint16) []uint16 {
		at := r.Intn(len(ts) + 1)
		return flatten(insertTok(ts, at, tok{'w', ins}))
	}
	replaceLit := func(f func(s string) string) []uint16 {
		var i int
		ts, i = ensure(r, ts, 'l')
		s := make([]byte, len(ts[i].u))
		for k, c := range ts[i].u {
			s[k] = byte(c)
		}
		ts[i].u = a2u(f(string(s)))
		return flatten(ts)
	}
	switch name {
	case "none":
		return flatten(ts)
	case "lead0":
		return replaceNum(func(s string) string {
			if s[0] == '-' {
				return "-0" + s[1:]
			}
			return "0" + s
		})
	case "plus":
		return replaceNum(func(s string) string {
			if s[0] == '-' {
				return "+" + s[1:]
			}
			return "+" + s
		})
	case "dotlead":
		return setNum([]string{".5", "-.5", ".0", ".5e1"}[r.Intn(4)])
	case "dottrail":
		return setNum([]string{"1.", "-1.", "0.", "10.e2"}[r.Intn(4)])
	case "exp-empty":
		return setNum([]string{"1e", "1E", "1.5e", "0e"}[r.Intn(4)])
	case "exp-sign":
		return setNum([]string{"1e+", "1e-", "1E+", "1.5e-"}[r.Intn(4)])
	case "minus-only":
		return setNum("-")
	case "double-minus":
		return replaceNum(func(s string) string { return "-" + "-" + s })
	case "hex":
		return setNum([]string{"0x10", "0X1A", "0xff", "-0x1"}[r.Intn(4)])
	case "underscore":
		return setNum("1_000")
	case "arabic-digit":
		var i int
		ts, i = ensure(r, ts, 'n')
		ts[i].u = []uint16{0x0661, 0x0662}
		return flatten(ts)
	case "fullwidth-digit":
		var i int
		ts, i = ensure(r, ts, 'n')
		ts[i].u = []uint16{0xFF11}
		return flatten(ts)
	case "minus-space":
		return setNum("- 1")
	case "NaN", "Infinity", "-Infinity", "undefined":
		return setNum(name)
	case "octal":
		return setNum([]string{"010", "-010", "00", "-00", "007.5", "00e1"}[r.Intn(6)])
	case "dot-exp":
		return setNum("1.e3")
	case "exp-only":
		return setNum([]string{"e5", ".e5", "E1"}[r.Intn(3)])
	case "exp-frac":
		return setNum([]string{"1e5.5", "1e1e1", "1.2.3"}[r.Intn(3)])
	case "num-suffix":
		return replaceNum(func(s string) string { return s + []string{"f", "L", "n", "d", "px", "%"}[r.Intn(6)] })
	case "num-join":
		return replaceNum(func(s string) string { return s + " " + itoa(r.Range(0, 9)) })
	case "lit-upper":
		return replaceLit(func(s string) string { return map[string]string{"null": "NULL", "true": "TRUE", "false": "FALSE"}[s] })
	case "lit-title":
		return replaceLit(func(s string) string { return map[string]string{"null": "Null", "true": "True", "false": "False"}[s] })
	case "lit-short":
		return replaceLit(func(s string) string { return s[:len(s)-1] })
	case "lit-long":
		return replaceLit(func(s string) string { return s + s[len(s)-1:] })
	case "lit-join":
		return replaceLit(func(s string) string { return s + "false" })
	case "trail-comma":
		var i int
		ts, i = ensure(r, ts, []byte{']', '}'}[r.Intn(2)])
		return flatten(insertTok(ts, i, tok{',', a2u(",")}))
	case "lead-comma":
		var i int
		ts, i = ensure(r, ts, []byte{'[', '{'}[r.Intn(2)])
		return flatten(insertTok(ts, i+1, tok{',', a2u(",")}))
	case "double-comma":
		var i int
		ts, i = ensure(r, ts, ',')
		return flatten(insertTok(ts, i, tok{',', a2u(",")}))
	case "missing-comma":
		var i int
		ts, i = ensure(r, ts, ',')
		ts[i].u = a2u(" ")
		return flatten(ts)
	case "missing-colon":
		var i int
		ts, i = ensure(r, ts, 'k')
		for j := i; j < len(ts); j++ {
			if ts[j].kind == ':' {
				ts[j].u = a2u(" ")
				break
			}
		}
		return flatten(ts)
	case "colon-in-array":
		var i int
		ts, i = ensure(r, ts, ',')
		ts[i].u = a2u(":")
		return flatten(ts)
	case "swap-close":
		var i int
		ts, i = ensure(r, ts, []byte{']', '}'}[r.Intn(2)])
		if ts[i].kind == ']' {
			ts[i].u = a2u("}")
		} else {
			ts[i].u = a2u("]")
		}
		return flatten(ts)
	case "unclosed":
		var i int
		ts, i = ensure(r, ts, []byte{']', '}'}[r.Intn(2)])
		ts[i].u = nil
		return flatten(ts)
	case "extra-close":
		var i int
		ts, i = ensure(r, ts, []byte{']', '}'}[r.Intn(2)])
		return flatten(insertTok(ts, i, tok{ts[i].kind, ts[i].u}))
	case "empty-member":
		var i int
		ts, i = ensure(r, ts, '{')
		return flatten(insertTok(ts, i+1, tok{'w', a2u([]string{",", ":", `"a"`, `"a":`, `:1`}[r.Intn(5)])}))
	case "key-number":
		var i int
		ts, i = ensure(r, ts, 'k')
		ts[i].u = a2u(itoa(r.Range(0, 20)))
		return flatten(ts)
	case "key-unquoted":
		var i int
		ts, i = ensure(r, ts, 'k')
		ts[i].u = a2u([]string{"a", "abc", "$", "_x", "key1"}[r.Intn(5)])
		return flatten(ts)
	case "key-single":
		var i int
		ts, i = ensure(r, ts, 'k')
		ts[i].u[0], ts[i].u[len(ts[i].u)-1] = '\'', '\''
		return flatten(ts)
	case "str-single":
		var i int
		ts, i = ensure(r, ts, 's')
		ts[i].u[0], ts[i].u[len(ts[i].u)-1] = '\'', '\''
		return flatten(ts)
	case "key-literal":
		var i int
		ts, i = ensure(r, ts, 'k')
		ts[i].u = a2u([]string{"null", "true", "[]", "{}"}[r.Intn(4)])
		return flatten(ts)
	case "comment-block":
		return atBoundary(a2u([]string{"/**/", "/* c */", "/*\n*/"}[r.Intn(3)]))
	case "comment-line":
		return atBoundary(a2u("// c\n"))
	case "comment-hash":
		return atBoundary(a2u("# c\n"))
	case "comment-html":
		return atBoundary(a2u("<!-- c -->"))
	case "raw-ctl":
		return intoStr([]uint16{uint16(r.Range(0, 0x1f))})
	case "bad-esc-x":
		return intoStr(a2u(`\x41`))
	case "bad-esc-u-short":
		return intoStr(a2u([]string{`\u12`, `\u`, `\u1`, `\u123`}[r.Intn(4)]))
	case "bad-esc-u-nonhex":
		return intoStr(a2u([]string{`\u12G4`, `\uZZZZ`, `\u 123`, `\u-123`, `\u+123`, `\u00g0`}[r.Intn(6)]))
	case "bad-esc-v":
		return intoStr(a2u(`\v`))
	case "bad-esc-squote":
		return intoStr(a2u(`\'`))
	case "bad-esc-a":
		return intoStr(a2u([]string{`\a`, `\e`, `\z`, `\N`, `\B`, `\T`, `\ `, "\\\n"}[r.Intn(8)]))
	case "bad-esc-0":
		return intoStr(a2u([]string{`\0`, `\1`, `\012`}[r.Intn(3)]))
	case "bad-esc-U":
		return intoStr(a2u(`\U00000041`))
	case "bad-esc-u-brace":
		return intoStr(a2u(`\u{41}`))
	case "bad-esc-end":
		var i int
		ts, i = ensure(r, ts, 's')
		u := ts[i].u
		ts[i].u = append(append([]uint16{}, u[:len(u)-1]...), '\\', '"')
		// only invalid if that leaves the string unterminated; the oracle decides
		return flatten(ts)
	case "unescaped-quote":
		return intoStr(a2u(`"`))
	case "esc-lone-hi":
		return intoStr(hex4(uint16(r.Range(0xD800, 0xDBFF)), r.Bool()))
	case "esc-lone-lo":
		return intoStr(hex4(uint16(r.Range(0xDC00, 0xDFFF)), r.Bool()))
	case "esc-reversed-pair":
		return intoStr(append(hex4(uint16(r.Range(0xDC00, 0xDFFF)), false), hex4(uint16(r.Range(0xD800, 0xDBFF)), false)...))
	case "raw-lone-hi":
		return intoStr([]uint16{uint16(r.Range(0xD800, 0xDBFF))})
	case "raw-lone-lo":
		return intoStr([]uint16{uint16(r.Range(0xDC00, 0xDFFF))})
	case "valid-del":
		return intoStr([]uint16{0x7f})
	case "valid-ls":
		return intoStr([]uint16{uint16(0x2028 + r.Intn(2))})
	case "valid-c1":
		return intoStr([]uint16{uint16(r.Range(0x80, 0x9f))})
	case "valid-solidus":
		return intoStr(a2u(`\/`))
	case "valid-nul-escape":
		return intoStr(a2u(`\u0000`))
	case "valid-fffd":
		return intoStr([]uint16{0xFFFD})
	case "valid-bom-in-string":
		return intoStr([]uint16{0xFEFF})
	case "valid-pair-escape":
		return intoStr(append(hex4(uint16(r.Range(0xD800, 0xDBFF)), r.Bool()), hex4(uint16(r.Range(0xDC00, 0xDFFF)), r.Bool())...))
	case "valid-ws":
		n := r.Range(1, 6)
		w := make([]uint16, n)
		for i := range w {
			w[i] = []uint16{' ', '\t', '\n', '\r'}[r.Intn(4)]
		}
		return atBoundary(w)
	case "valid-dup-key":
		var i int
		ts, i = ensure(r, ts, '}')
		k := a2u(`"a"`)
		if j := findTok(r, ts[:i], "k"); j >= 0 {
			k = ts[j].u
		}
		ins := []tok{{'k', k}, {':', a2u(":")}, {'n', a2u(itoa(r.Range(0, 99)))}}
		if i > 0 && ts[i-1].kind != '{' {
			// need a comma unless the object is empty so far (white space aside)
			empty := true
			for j := i - 1; j >= 0; j-- {
				if ts[j].kind == 'w' {
					continue
				}
				empty = ts[j].kind == '{'
				break
			}
			if !empty {
				ins = append([]tok{{',', a2u(",")}}, ins...)
			}
		}
		out := append([]tok{}, ts[:i]...)
		out = append(out, ins...)
		return flatten(append(out, ts[i:]...))
	case "ws-nbsp":
		return atBoundary([]uint16{0xA0})
	case "ws-bom":
		return atBoundary([]uint16{0xFEFF})
	case "ws-ls":
		return atBoundary([]uint16{0x2028})
	case "ws-ps":
		return atBoundary([]uint16{0x2029})
	case "ws-vt":
		return atBoundary([]uint16{0x0B})
	case "ws-ff":
		return atBoundary([]uint16{0x0C})
	case "ws-nel":
		return atBoundary([]uint16{0x85})
	case "ws-ogham":
		return atBoundary([]uint16{0x1680})
	case "ws-enquad":
		return atBoundary([]uint16{uint16(r.Range(0x2000, 0x200A))})
	case "ws-ideographic":
		return atBoundary([]uint16{[]uint16{0x3000, 0x202F, 0x205F, 0x180E}[r.Intn(4)]})
	case "ws-zwsp":
		return atBoundary([]uint16{0x200B})
	case "ws-nul":
		return atBoundary([]uint16{0})
	case "bom-start":
		return append([]uint16{0xFEFF}, flatten(ts)...)
	case "trunc":
		u := flatten(ts)
		if len(u) == 0 {
			return u
		}
		return u[:r.Intn(len(u))]
	case "extra-value":
		return append(flatten(ts), a2u([]string{" 1", " null", "[]", "{}", `""`, " true", "0"}[r.Intn(7)])...)
	case "extra-garbage":
		return append(flatten(ts), a2u([]string{"x", ";", ")", "=", "\\", "'"}[r.Intn(6)])...)
	case "extra-comma":
		return append(flatten(ts), a2u([]string{",", ", ", ":", "]", "}"}[r.Intn(5)])...)
	case "two-values":
		return append(append(flatten(ts), ' '), flatten(ts)...)
	case "nul-at-end":
		return append(flatten(ts), 0)
	case "empty":
		return nil
	case "ws-only":
		return a2u([]string{" ", "\n", "\t\r\n ", "  "}[r.Intn(4)])
	case "deep-arr", "deep-obj", "deep-mixed", "deep-unbalanced":
		return deepText(r, name)
	case "flip-unit":
		u := flatten(ts)
		if len(u) == 0 {
			return u
		}
		u[r.Intn(len(u))] = genChar(r, true)[0]
		return u
	case "del-unit":
		u := flatten(ts)
		if len(u) == 0 {
			return u
		}
		i := r.Intn(len(u))
		return append(u[:i:i], u[i+1:]...)
	case "ins-unit":
		u := flatten(ts)
		i := r.Intn(len(u) + 1)
		c := a2u(`{}[],:"\-+.eE0123456789ntf/ `)
		out := append([]uint16{}, u[:i]...)
		out = append(out, c[r.Intn(len(c))])
		return append(out, u[i:]...)
	case "dup-token":
		i := r.Intn(len(ts))
		return flatten(insertTok(ts, i, ts[i]))
	case "del-token":
		i := r.Intn(len(ts))
		ts[i].u = nil
		return flatten(ts)
	case "swap-tokens":
		i, j := r.Intn(len(ts)), r.Intn(len(ts))
		ts[i], ts[j] = ts[j], ts[i]
		return flatten(ts)
	case "uesc-outside":
		u := flatten(ts)
		if len(u) == 0 {
			return a2u(`1`)
		}
		i := r.Intn(len(u))
		out := append([]uint16{}, u[:i]...)
		out = append(out, hex4(u[i], false)...)
		return append(out, u[i+1:]...)
	case "big-number":
		return setNum(hugeNumbers[r.Intn(len(hugeNumbers))])
	}
	panic("c11: unknown mutation " + name)
}
