package c10

import (
	"fmt"
	"testing"
	"time"

	"verif/internal/gen"
	"verif/internal/refre"
)

func TestProbeTiming(t *testing.T) {
	var tGen, tOtto, tTok, tRef time.Duration
	n := 0
	for i := 0; i < 300; i++ {
		r := gen.New(7, "probe", i)
		t0 := time.Now()
		p, _ := genPortable(r, 3)
		_, pat, _ := refre.Classify(p)
		tGen += time.Since(t0)
		v := theVM()
		t0 = time.Now()
		val, err := v.Run("(function(){ var re; try{ re=new RegExp(" + fmt.Sprintf("%q", p) + "); }catch(e){ return ['throw', String(e.name)]; } return __runAll(re,__STD4); })()")
		tOtto += time.Since(t0)
		if err != nil {
			continue
		}
		t0 = time.Now()
		toks, _ := tokens(val)
		tTok += time.Since(t0)
		_ = toks
		t0 = time.Now()
		spec := refre.Compile(pat, "", refre.Options{})
		for _, s := range std4 {
			o := refre.NewObject(spec)
			o.Exec(refre.Units(s))
		}
		tRef += time.Since(t0)
		n++
	}
	fmt.Println(n, "gen", tGen, "otto", tOtto, "tokens", tTok, "refre", tRef)
}
