package c10

import (
	"fmt"
	"strings"
	"unicode/utf8"

	"verif/internal/ox"
	"verif/internal/refre"
	"verif/internal/run"
)

// Matchers for known findings. Deviation models recompute what the known
// defect yields for the failing input and match only if otto's actual output
// equals it (and, being a failure, differs from the specification); input
// regions are predicates on the input text only and are kept as narrow as the
// defect allows.

func input(f *run.Failure) (Input, bool) {
	in, ok := f.In.(Input)
	return in, ok
}

// ------------------------------------------------------------ matcher-semantics deviation models

var devNames = []string{"reset", "emptyiter", "dot", "space", "anchors", "fold"}

func devOptions(mask int) refre.Options {
	return refre.Options{
		NoCaptureReset: mask&1 != 0,
		EmptyIterOnce:  mask&2 != 0,
		GoDot:          mask&4 != 0,
		GoSpace:        mask&8 != 0,
		GoLineAnchors:  mask&16 != 0,
		GoFold:         mask&32 != 0,
	}
}

// relevantMask restricts the deviation toggles to those that can matter for
// this pattern/flags (keeps the search small and the attribution narrow).
func relevantMask(pat *refre.Pattern, flags string) int {
	info := analyse(pat)
	m := 0
	if info.captureInLoop {
		m |= 1
	}
	if info.nullableLoop {
		m |= 2
	}
	if info.hasDot {
		m |= 4
	}
	if info.hasSpace {
		m |= 8
	}
	if strings.Contains(flags, "m") && (hasKind(pat.Root, refre.KBegin) || hasKind(pat.Root, refre.KEnd)) {
		m |= 16
	}
	if strings.Contains(flags, "i") {
		m |= 32
	}
	return m
}

// isExecSite: a disagreement on the result of exec (not on lastIndex).
func isExecSite(site string) bool {
	return strings.HasSuffix(site, "exec:index") || strings.HasSuffix(site, "exec:span") || strings.HasSuffix(site, "exec:captures")
}

func parseFor(in Input) *refre.Pattern {
	cls, pat, _ := refre.Classify(in.P)
	if cls == refre.Malformed {
		return nil
	}
	return pat
}

// execUnder renders exec (lastIndex 0) of the case's single subject under the
// deviation mask.
func execUnder(pat *refre.Pattern, in Input, mask int) (res string, li string, ok bool) {
	if len(in.Subjects) != 1 {
		return "", "", false
	}
	obj := refre.NewObject(refre.Compile(pat, in.F, devOptions(mask)))
	r, err := obj.Exec(refre.Units(in.Subjects[0]))
	if err != nil {
		return "", "", false
	}
	return showExec(r), showLI(obj.LastIndex), true
}

// explainingMasks returns the minimal deviation masks that reproduce actual.
func explainingMasks(f *run.Failure) []int {
	in, ok := input(f)
	if !ok || (in.Op != "match" && in.Op != "class") {
		return nil
	}
	if !isExecSite(f.Site) {
		return nil
	}
	pat := parseFor(in)
	if pat == nil {
		return nil
	}
	rel := relevantMask(pat, in.F)
	var hits []int
	for mask := 1; mask < 64; mask++ {
		if mask&^rel != 0 {
			continue
		}
		minimal := true
		for _, h := range hits {
			if mask&h == h {
				minimal = false
			}
		}
		if !minimal {
			continue
		}
		if res, _, ok := execUnder(pat, in, mask); ok && res == f.Actual {
			hits = append(hits, mask)
		}
	}
	return hits
}

// devMatcher matches a failure that is reproduced by a minimal set of
// deviations containing bit and whose lowest bit is bit (so that each failure
// is attributed to exactly one finding).
func devMatcher(bit int) run.Matcher {
	return func(f *run.Failure) bool {
		for _, h := range explainingMasks(f) {
			if h&bit != 0 && h&(bit-1) == 0 {
				return true
			}
		}
		return false
	}
}

// ------------------------------------------------------------ protocol deviation models

// goFindAll is the iteration of Go's regexp.(*Regexp).allMatches expressed on
// the reference matcher: successive leftmost matches; an empty match abutting
// the previous match is dropped; after an empty match the position advances
// by one.
func goFindAll(re *refre.Regexp, s []uint16, n int) ([][]int, error) {
	var out [][]int
	end := len(s)
	for pos, i, prevEnd := 0, 0, -1; (n < 0 || i < n) && pos <= end; {
		var caps []int
		for j := pos; j <= end; j++ {
			c, ok, err := re.MatchAt(s, j)
			if err != nil {
				return nil, err
			}
			if ok {
				caps = c
				break
			}
		}
		if caps == nil {
			break
		}
		accept := true
		if caps[1] == pos {
			if caps[0] == prevEnd {
				accept = false
			}
			pos++
		} else {
			pos = caps[1]
		}
		prevEnd = caps[1]
		if accept {
			out = append(out, caps)
			i++
		}
	}
	return out, nil
}

func capsOf(s []uint16, c []int) []refre.Cap {
	var out []refre.Cap
	for k := 0; k+1 < len(c); k += 2 {
		if c[k] < 0 {
			out = append(out, refre.Cap{})
		} else {
			out = append(out, refre.Cap{Def: true, S: s[c[k]:c[k+1]]})
		}
	}
	return out
}

// ottoExpand is the replacement-template expansion otto performs: the pattern
// \$(?:[$&'`1-9]|0[1-9]|[1-9][0-9]) tried leftmost-first, so "$12" is always
// "$1" followed by "2".
func ottoExpand(tpl, s []uint16, pos int, matched []uint16, caps []refre.Cap) []uint16 {
	var out []uint16
	m := len(caps)
	capture := func(n int) {
		if n <= m && caps[n-1].Def {
			out = append(out, caps[n-1].S...)
		}
	}
	for i := 0; i < len(tpl); i++ {
		c := tpl[i]
		if c != '$' || i+1 >= len(tpl) {
			out = append(out, c)
			continue
		}
		n := tpl[i+1]
		switch {
		case n == '$':
			out = append(out, '$')
			i++
		case n == '&':
			out = append(out, matched...)
			i++
		case n == '`':
			out = append(out, s[:pos]...)
			i++
		case n == '\'':
			out = append(out, s[pos+len(matched):]...)
			i++
		case n >= '1' && n <= '9':
			capture(int(n - '0'))
			i++
		case n == '0' && i+2 < len(tpl) && tpl[i+2] >= '1' && tpl[i+2] <= '9':
			capture(int(tpl[i+2] - '0'))
			i += 2
		default:
			out = append(out, c)
		}
	}
	return out
}

// protoDev selects the protocol deviations of the model of otto's string-side code.
type protoDev struct {
	findAll bool // global match/replace iterate like Go's FindAll
	dollar  bool // ottoExpand instead of Table 22
}

// histState replays the specification model over all steps but the last and
// returns the object in the state before the last step.
func histState(in Input) (*refre.Object, Step, bool) {
	cls, pat, _ := refre.Classify(in.P)
	if cls != refre.Portable || len(in.Steps) == 0 {
		return nil, Step{}, false
	}
	obj := refre.NewObject(refre.Compile(pat, in.F, refre.Options{}))
	for _, st := range in.Steps[:len(in.Steps)-1] {
		su := refre.Units(st.S)
		var err error
		switch st.Op {
		case "exec", "test":
			_, err = obj.Exec(su)
		case "setli":
			obj.LastIndex = parseLI(st.LI)
		case "match":
			_, _, err = obj.Match(su)
		case "replace":
			_, err = obj.Replace(su, refre.Replacer{Template: refre.Units(st.Tpl)})
		case "replacefn":
			_, err = obj.Replace(su, refre.Replacer{Fn: func([]uint16, []refre.Cap, int, []uint16) []uint16 { return nil }})
		}
		if err != nil {
			return nil, Step{}, false
		}
	}
	return obj, in.Steps[len(in.Steps)-1], true
}

func histInput(f *run.Failure, sites ...string) (Input, bool) {
	in, ok := input(f)
	if !ok || in.Op != "hist" {
		return in, false
	}
	for _, s := range sites {
		if f.Site == s {
			return in, true
		}
	}
	return in, false
}

// hasPair reports whether s contains a supplementary character (a surrogate pair in UTF-16).
func hasPair(s string) bool {
	for _, r := range s {
		if r > 0xFFFF {
			return true
		}
	}
	return false
}

func asciiOnly(s string) bool {
	for i := 0; i < len(s); i++ {
		if s[i] >= 0x80 {
			return false
		}
	}
	return true
}

// modelReplace renders what otto's replace yields: matches enumerated like
// Go's FindAll (n = 1 for a non-global expression), replacement by function,
// by otto's template expansion (dev.dollar) or by Table 22.
func modelReplace(obj *refre.Object, st Step, dev protoDev) (string, bool) {
	if !dev.findAll {
		return "", false
	}
	s := refre.Units(st.S)
	n := 1
	if obj.Re.Global {
		n = -1
	}
	ms, err := goFindAll(obj.Re, s, n)
	if err != nil {
		return "", false
	}
	var out []uint16
	last := 0
	var log []refre.Cap
	for _, c := range ms {
		out = append(out, s[last:c[0]]...)
		caps := capsOf(s, c)
		matched := caps[0].S
		switch {
		case st.Op == "replacefn":
			out = append(out, fnReplacer(&log)(matched, caps[1:], c[0], s)...)
		case dev.dollar:
			out = append(out, ottoExpand(refre.Units(st.Tpl), s, c[0], matched, caps[1:])...)
		default:
			var impl bool
			out = append(out, specExpand(refre.Units(st.Tpl), s, c[0], matched, caps[1:], &impl)...)
			if impl {
				return "", false
			}
		}
		last = c[1]
	}
	out = append(out, s[last:]...)
	if st.Op == "replacefn" {
		return ox.Units(out) + " calls=" + showCaps(log), true
	}
	return ox.Units(out), true
}

// specExpand expands a template per Table 22 through the reference model.
func specExpand(tpl, s []uint16, pos int, matched []uint16, caps []refre.Cap, impl *bool) []uint16 {
	r := refre.ExpandTemplate(tpl, s, pos, matched, caps)
	*impl = r.ImplDefined
	return r.Out
}

// fnReplacer is the oracle-side twin of the JS __fn replacer.
func fnReplacer(log *[]refre.Cap) func(m []uint16, caps []refre.Cap, pos int, s []uint16) []uint16 {
	return func(m []uint16, caps []refre.Cap, pos int, s []uint16) []uint16 {
		enc := func(cp refre.Cap) refre.Cap {
			if !cp.Def {
				return refre.Cap{Def: true, S: refre.Units("U")}
			}
			return refre.Cap{Def: true, S: append(refre.Units("S"), cp.S...)}
		}
		*log = append(*log, refre.Cap{Def: true, S: refre.Units(fmt.Sprintf("C%d", len(caps)+3))})
		*log = append(*log, enc(refre.Cap{Def: true, S: m}))
		for _, cp := range caps {
			*log = append(*log, enc(cp))
		}
		*log = append(*log, refre.Cap{Def: true, S: refre.Units(fmt.Sprintf("n%d", pos))})
		*log = append(*log, enc(refre.Cap{Def: true, S: s}))
		// the text a function returns is inserted as it is: Table 22 applies to a string replaceValue only (15.5.4.11)
		return refre.Units(fmt.Sprintf("<%d>$&$1$$$`$'$01", len(*log)))
	}
}

// ottoSplit is otto's builtinStringSplit for a RegExp separator expressed on
// the reference matcher (FindAll-based, with its special cases).
func ottoSplit(re *refre.Regexp, s []uint16, limit *float64) (string, bool) {
	lim := -1
	if limit != nil {
		lim = int(refre.ToUint32(*limit))
	}
	if lim == 0 {
		return "[]", true
	}
	ms, err := goFindAll(re, s, -1)
	if err != nil {
		return "", false
	}
	var arr []refre.Cap
	last, found := 0, 0
	n := len(s)
	str := func(a, b int) refre.Cap { return refre.Cap{Def: true, S: s[a:b]} }
	done := false
outer:
	for _, m := range ms {
		if m[0] == m[1] && (m[0] == 0 || m[0] == n) {
			continue
		}
		if last != m[0] {
			arr = append(arr, str(last, m[0]))
		} else {
			arr = append(arr, refre.Cap{Def: true})
		}
		found++
		last = m[1]
		if found == lim {
			done = true
			break
		}
		for k := 2; k+1 < len(m); k += 2 {
			if m[k] < 0 {
				arr = append(arr, refre.Cap{})
			} else {
				arr = append(arr, str(m[k], m[k+1]))
			}
			found++
			if found == lim {
				done = true
				break outer
			}
		}
	}
	if !done && found != lim {
		arr = append(arr, str(last, n))
	}
	return showCaps(arr), true
}

// ------------------------------------------------------------ text predicates (input regions)

// scanPattern walks a pattern text calling f for every unescaped character
// outside (inClass=false) or inside a character class.
func scanPattern(p string, f func(i int, c byte, inClass bool, classStart bool)) {
	inClass := false
	start := false
	for i := 0; i < len(p); i++ {
		c := p[i]
		if c == '\\' {
			i++
			start = false
			continue
		}
		if inClass {
			f(i, c, true, start)
			if c == ']' && !start {
				inClass = false
			}
			if !(start && c == '^' && p[i-1] == '[') {
				start = false
			}
			continue
		}
		f(i, c, false, false)
		if c == '[' {
			inClass, start = true, true
		}
	}
}

// hasGoGroup: "(?" followed by anything but = ! : outside a class.
func hasGoGroup(p string) bool {
	found := false
	scanPattern(p, func(i int, c byte, inClass, _ bool) {
		if !inClass && c == '(' && i+1 < len(p) && p[i+1] == '?' {
			if i+2 >= len(p) || !strings.ContainsRune("=!:", rune(p[i+2])) {
				found = true
			}
		}
	})
	return found
}

// hasLeadingBracketClass: a class whose first member position holds ']' ("[]", "[^]", "[]a]").
func hasLeadingBracketClass(p string) bool {
	for i := 0; i+1 < len(p); i++ {
		if p[i] == '\\' {
			i++
			continue
		}
		if p[i] == '[' {
			j := i + 1
			if j < len(p) && p[j] == '^' {
				j++
			}
			if j < len(p) && p[j] == ']' {
				return true
			}
			// skip to the end of this class (ES5 reading)
			for j < len(p) && p[j] != ']' {
				if p[j] == '\\' {
					j++
				}
				j++
			}
			i = j
		}
	}
	return false
}

// hasBareControlEscape: \c not followed by an ASCII letter.
func hasBareControlEscape(p string) bool {
	for i := 0; i+1 < len(p); i++ {
		if p[i] != '\\' {
			continue
		}
		if p[i+1] == 'c' {
			if i+2 >= len(p) || !(p[i+2] >= 'a' && p[i+2] <= 'z' || p[i+2] >= 'A' && p[i+2] <= 'Z') {
				return true
			}
		}
		i++
	}
	return false
}

// hasNestedNullableLoop: a quantified atom with optional iterations whose body
// can match the empty string and contains another quantifier; optionally the
// body must contain a capturing group / a lazy quantifier.
func hasNestedNullableLoop(p *refre.Pattern, needCapture, needLazy bool) bool {
	found := false
	walk(p.Root, func(n *refre.Node) {
		if n.Kind != refre.KRepeat || !(n.Max == -1 || n.Max > n.Min) || !nullable(n.Sub) || !hasKind(n.Sub, refre.KRepeat) {
			return
		}
		if needCapture && n.ParenCount == 0 {
			return
		}
		if needLazy {
			lazy := false
			walk(n.Sub, func(x *refre.Node) {
				if x.Kind == refre.KRepeat && !x.Greedy {
					lazy = true
				}
			})
			if !lazy {
				return
			}
		}
		found = true
	})
	return found
}

func perrOf(in Input) string {
	_, _, err := refre.Classify(in.P)
	if err == nil {
		return ""
	}
	return err.Error()
}

func utf8Offset(s string, units int) int {
	n, b := 0, 0
	for _, r := range s {
		if n >= units {
			break
		}
		if r >= 0x10000 {
			n += 2
		} else {
			n++
		}
		b += utf8.RuneLen(r)
	}
	return b
}

func registerMatchers() {
	// --- RE2 matcher semantics (deviation models on exec results)
	run.RegisterMatcher("c10.capture-reset", devMatcher(1))
	run.RegisterMatcher("c10.empty-iteration", devMatcher(2))
	run.RegisterMatcher("c10.dot-line-terminators", devMatcher(4))
	run.RegisterMatcher("c10.space-class", devMatcher(8))
	run.RegisterMatcher("c10.multiline-anchors", devMatcher(16))
	run.RegisterMatcher("c10.case-fold-orbits", devMatcher(32))

	// --- residual RE2 difference: nested quantifiers with a nullable body. RE2 never
	// revisits a (program counter, position) pair, so an outer iteration that would
	// start where the inner loop just stopped is merged into the inner loop. Both
	// engines accept the same language, so whether and where the leftmost match starts
	// (site exec:index) is never matched here and must agree. Captures may differ when
	// the loop contains a group; the matched substring may differ only when the loop
	// contains a lazy quantifier (/(?:c?a*?)+/ on "ca": RE2 "c", ES5 "ca").
	run.RegisterMatcher("c10.nested-nullable-loop", func(f *run.Failure) bool {
		in, ok := input(f)
		if !ok {
			return false
		}
		pat := parseFor(in)
		if pat == nil {
			return false
		}
		if !isExecSite(f.Site) || len(in.Subjects) != 1 {
			return false
		}
		lazy := hasNestedNullableLoop(pat, false, true)
		if !lazy && !hasNestedNullableLoop(pat, true, false) {
			return false
		}
		if len(explainingMasks(f)) > 0 {
			return false // fully explained by the deviation models: belongs to those findings
		}
		// The subject-dependent deviations ('.', \s, multiline anchors, fold orbits) change
		// the language; under one combination of them (possibly none) the model must agree
		// with otto on the start index, and on the matched substring too unless a lazy
		// quantifier sits in the loop. What remains is the nested-loop difference.
		rel := relevantMask(pat, in.F) &^ 3
		for mask := 0; mask < 64; mask += 4 {
			if mask&^rel != 0 {
				continue
			}
			res, _, ok := execUnder(pat, in, mask)
			if !ok || indexOf(res) != indexOf(f.Actual) {
				continue
			}
			if lazy || spanOf(res) == spanOf(f.Actual) {
				return true
			}
		}
		return false
	})

	// --- lastIndex kept as a UTF-8 byte offset
	run.RegisterMatcher("c10.lastindex-bytes", func(f *run.Failure) bool {
		in, ok := input(f)
		if !ok {
			return false
		}
		switch {
		case (in.Op == "match" || in.Op == "class") && strings.HasSuffix(f.Site, "exec:lastIndex") && len(in.Subjects) == 1:
			// deviation model: the reported lastIndex is the byte offset of the expected one
			s := in.Subjects[0]
			return !asciiOnly(s) && f.Actual == fmt.Sprint(utf8Offset(s, atoi(f.Expected)))
		case in.Op == "hist" && strings.HasPrefix(f.Site, "hist:"):
			// region: a call of a global expression on a non-ASCII subject; search(): deviation model
			last := in.Steps[len(in.Steps)-1]
			if last.Op == "search" && f.Site == "hist:search" && !asciiOnly(last.S) {
				return f.Actual == fmt.Sprint(utf8Offset(last.S, atoi(f.Expected)))
			}
			if !in.has('g') || strings.HasSuffix(last.Op, "Str") || strings.HasSuffix(last.Op, "StrFn") || last.Op == "split" || last.Op == "search" {
				return false
			}
			// (after a lastIndex disagreement the history is resynchronised, so only the call on
			// the non-ASCII subject itself can be affected)
			return !asciiOnly(last.S)
		}
		return false
	})

	// --- construction
	run.RegisterMatcher("c10.typeerror-for-syntaxerror", func(f *run.Failure) bool {
		return strings.HasPrefix(f.Site, "new RegExp:malformed") && strings.HasPrefix(f.Expected, "throw:SyntaxError") && f.Actual == "throw:TypeError"
	})
	run.RegisterMatcher("c10.flags-unchecked", func(f *run.Failure) bool {
		in, ok := input(f)
		return ok && f.Site == "new RegExp:flags" && f.Actual == "accepted" && strings.Trim(in.F, "gim") != ""
	})
	run.RegisterMatcher("c10.go-group-syntax", func(f *run.Failure) bool {
		in, ok := input(f)
		return ok && f.Site == "new RegExp:malformed" && f.Actual == "accepted" && hasGoGroup(in.P) && strings.Contains(perrOf(in), "invalid group")
	})
	run.RegisterMatcher("c10.quantified-assertion", func(f *run.Failure) bool {
		in, ok := input(f)
		return ok && f.Site == "new RegExp:malformed" && f.Actual == "accepted" && strings.Contains(perrOf(in), "quantified assertion")
	})
	run.RegisterMatcher("c10.posix-class", func(f *run.Failure) bool {
		in, ok := input(f)
		if !ok || !strings.Contains(in.P, "[:") {
			return false
		}
		return isExecSite(f.Site) || f.Site == "new RegExp:portable-rejected" && f.Actual == "throw:SyntaxError"
	})
	run.RegisterMatcher("c10.leading-bracket-class", func(f *run.Failure) bool {
		in, ok := input(f)
		if !ok || !hasLeadingBracketClass(in.P) {
			return false
		}
		return isExecSite(f.Site) || f.Site == "new RegExp:portable-rejected" && f.Actual == "throw:SyntaxError"
	})
	run.RegisterMatcher("c10.bare-control-escape", func(f *run.Failure) bool {
		in, ok := input(f)
		return ok && in.Op == "class" && strings.HasPrefix(f.Site, "ext:exec:") && hasBareControlEscape(in.P)
	})
	run.RegisterMatcher("c10.repeat-limit-1000", func(f *run.Failure) bool {
		in, ok := input(f)
		if !ok || f.Site != "new RegExp:portable-rejected" || f.Actual != "throw:SyntaxError" {
			return false
		}
		pat := parseFor(in)
		return pat != nil && analyse(pat).bigRepeat
	})

	// --- exec on the suffix loses the left context
	run.RegisterMatcher("c10.exec-slice-context", func(f *run.Failure) bool {
		in, ok := histInput(f, "hist:exec", "hist:test", "hist:exec:lastIndex", "hist:test:lastIndex", "hist:match", "hist:match:lastIndex")
		if !ok {
			return false
		}
		obj, st, ok := histState(in)
		if !ok || !asciiOnly(st.S) || (st.Op == "match" && obj.Re.Global) {
			return false
		}
		obj.SliceContext = true
		r, err := obj.Exec(refre.Units(st.S))
		if err != nil {
			return false
		}
		if strings.HasSuffix(f.Site, ":lastIndex") {
			return showLI(obj.LastIndex) == f.Actual
		}
		if st.Op == "test" {
			return fmt.Sprint(r != nil) == f.Actual
		}
		return showExec(r) == f.Actual
	})

	// --- String.prototype.match, global
	run.RegisterMatcher("c10.match-global-undefined", func(f *run.Failure) bool {
		in, ok := histInput(f, "hist:match")
		return ok && in.has('g') && f.Expected == "null" && f.Actual == "undefined"
	})
	lastEnd := func(f *run.Failure, ops ...string) (string, bool) {
		in, ok := input(f)
		if !ok {
			return "", false
		}
		obj, st, ok := histState(in)
		if !ok || !obj.Re.Global {
			return "", false
		}
		okOp := false
		for _, o := range ops {
			okOp = okOp || st.Op == o
		}
		if !okOp {
			return "", false
		}
		ms, err := goFindAll(obj.Re, refre.Units(st.S), -1)
		if err != nil {
			return "", false
		}
		if len(ms) == 0 {
			if st.Op == "match" {
				return "0", true
			}
			return showLI(obj.LastIndex), true // replace: untouched
		}
		return fmt.Sprint(ms[len(ms)-1][1]), true
	}
	run.RegisterMatcher("c10.match-global-lastindex", func(f *run.Failure) bool {
		if _, ok := histInput(f, "hist:match:lastIndex"); !ok {
			return false
		}
		v, ok := lastEnd(f, "match")
		return ok && v == f.Actual && f.Expected == "0"
	})
	run.RegisterMatcher("c10.replace-lastindex", func(f *run.Failure) bool {
		in, ok := histInput(f, "hist:replace:lastIndex", "hist:replacefn:lastIndex")
		if !ok || f.Expected != "0" {
			return false
		}
		if in.has('g') {
			v, ok := lastEnd(f, "replace", "replacefn")
			return ok && v == f.Actual
		}
		// non-global without a match: exec's failure must reset lastIndex; otto leaves it untouched
		obj, _, ok := histState(in)
		return ok && showLI(obj.LastIndex) == f.Actual
	})
	run.RegisterMatcher("c10.findall-drops-empty-match", func(f *run.Failure) bool {
		in, ok := histInput(f, "hist:match", "hist:replace", "hist:replacefn")
		if !ok || !in.has('g') {
			return false
		}
		obj, st, ok := histState(in)
		if !ok {
			return false
		}
		if st.Op == "match" {
			ms, err := goFindAll(obj.Re, refre.Units(st.S), -1)
			if err != nil || len(ms) == 0 {
				return false
			}
			parts := make([]string, len(ms))
			for i, m := range ms {
				parts[i] = ox.Units(refre.Units(st.S)[m[0]:m[1]])
			}
			return "["+strings.Join(parts, ",")+"]" == f.Actual
		}
		v, ok := modelReplace(obj, st, protoDev{findAll: true})
		return ok && v == f.Actual
	})
	run.RegisterMatcher("c10.replace-two-digit-dollar", func(f *run.Failure) bool {
		in, ok := histInput(f, "hist:replace")
		if !ok {
			return false
		}
		obj, st, ok := histState(in)
		if !ok || obj.Re.Pat.NCaps < 10 {
			return false
		}
		v, ok := modelReplace(obj, st, protoDev{findAll: true, dollar: true})
		return ok && v == f.Actual
	})
	// --- split never separates the two code units of a surrogate pair (deviation model)
	run.RegisterMatcher("c10.split-whole-pairs", func(f *run.Failure) bool {
		in, ok := histInput(f, "hist:split", "hist:splitStr")
		if !ok {
			return false
		}
		obj, st, ok := histState(in)
		if !ok || asciiOnly(st.S) {
			return false
		}
		var lim *float64
		if st.Lim != nil {
			x := float64(*st.Lim)
			lim = &x
		}
		// (the same engine also matches code points: see c10.code-point-matching)
		sep := refre.Separator{Re: refre.Compile(obj.Re.Pat, in.F, refre.Options{CodePoints: true}), WholePairs: true}
		if st.Op == "splitStr" {
			sep = refre.Separator{Str: refre.Units(st.Q), WholePairs: true}
		}
		r, err := refre.Split(refre.Units(st.S), sep, lim)
		return err == nil && showCaps(r) == f.Actual
	})
	// --- the engine walks code points, not code units: a class, '.', \W \D \S consume a whole surrogate pair
	run.RegisterMatcher("c10.code-point-matching", func(f *run.Failure) bool {
		in, ok := input(f)
		if !ok {
			return false
		}
		if (in.Op == "match" || in.Op == "class") && isExecSite(f.Site) && len(in.Subjects) == 1 && hasPair(in.Subjects[0]) {
			// deviation model on one exec from lastIndex 0
			pat := parseFor(in)
			if pat == nil {
				return false
			}
			obj := refre.NewObject(refre.Compile(pat, in.F, refre.Options{CodePoints: true}))
			r, err := obj.Exec(refre.Units(in.Subjects[0]))
			return err == nil && !strings.HasSuffix(f.Site, ":lastIndex") && (showExec(r) == f.Actual || spanOf(showExec(r)) == f.Actual || indexOf(showExec(r)) == f.Actual)
		}
		if in.Op != "hist" || !strings.HasPrefix(f.Site, "hist:") {
			return false
		}
		obj, st, ok := histState(in)
		if !ok || !hasPair(st.S) || strings.HasSuffix(st.Op, "Str") || strings.HasSuffix(st.Op, "StrFn") {
			return false
		}
		cp := *obj
		cp.Re = refre.Compile(obj.Re.Pat, in.F, refre.Options{CodePoints: true})
		su := refre.Units(st.S)
		switch {
		case (st.Op == "exec" || st.Op == "test") && !strings.HasSuffix(f.Site, ":lastIndex"):
			r, err := cp.Exec(su)
			if err != nil {
				return false
			}
			if st.Op == "test" {
				return fmt.Sprint(r != nil) == f.Actual
			}
			return showExec(r) == f.Actual
		case st.Op == "search" && f.Site == "hist:search":
			r, err := cp.Search(su)
			return err == nil && fmt.Sprint(r) == f.Actual
		case st.Op == "split":
			return false // c10.split-whole-pairs models both halves
		}
		// match / replace / function replacers and the lastIndex they leave: region (the failing call is a
		// call on a subject with a surrogate pair and the code-point model disagrees with the specification
		// model on the first match of that call)
		r1, e1 := cp.Exec(su)
		o2 := *obj
		r2, e2 := o2.Exec(su)
		return e1 == nil && e2 == nil && showExec(r1) != showExec(r2)
	})
	run.RegisterMatcher("c10.split-findall", func(f *run.Failure) bool {
		in, ok := histInput(f, "hist:split")
		if !ok {
			return false
		}
		obj, st, ok := histState(in)
		if !ok {
			return false
		}
		var lim *float64
		if st.Lim != nil {
			x := float64(*st.Lim)
			lim = &x
		}
		v, ok := ottoSplit(obj.Re, refre.Units(st.S), lim)
		return ok && v == f.Actual
	})
}
