package c10

import (
	"fmt"
	"testing"

	"verif/internal/gen"
	"verif/internal/refre"
	"verif/internal/run"
)

func TestProbeModels(t *testing.T) {
	_ = run.Guard
	combos := []refre.Options{{NoCaptureReset: true}, {EmptyIterOnce: true}, {NoCaptureReset: true, EmptyIterOnce: true}}
	stats := map[string]int{}
	shown := 0
	for i := 0; i < 6000; i++ {
		r := gen.New(7, "probe", i)
		p, _ := genPortable(r, 3)
		_, pat, _ := refre.Classify(p)
		info := analyse(pat)
		if !info.captureInLoop && !info.nullableLoop {
			continue
		}
		if info.hasDot || info.hasSpace || info.emptyClass {
			continue
		}
		v := theVM()
		val, err := v.Run("(function(){ var re; try{ re=new RegExp(" + fmt.Sprintf("%q", p) + "); }catch(e){ return ['throw', String(e.name)]; } return __runAll(re,__STD4); })()")
		if err != nil {
			continue
		}
		toks, _ := tokens(val)
		if len(toks) == 2 {
			continue
		}
		cur := &cursor{t: toks}
		spec := refre.Compile(pat, "", refre.Options{})
		for _, s := range std4 {
			act := cur.match()
			cur.value()
			cur.next()
			o := refre.NewObject(spec)
			r, e := o.Exec(refre.Units(s))
			if e != nil {
				break
			}
			exp := showExec(r)
			if exp == act {
				stats["agree"]++
				continue
			}
			kind := "captures"
			if spanOf(exp) != spanOf(act) {
				kind = "span"
			}
			found := ""
			for ci, opt := range combos {
				o2 := refre.NewObject(refre.Compile(pat, "", opt))
				r2, _ := o2.Exec(refre.Units(s))
				if showExec(r2) == act {
					found = fmt.Sprint(ci)
					break
				}
			}
			stats[kind+":model="+found]++
			if found == "" && shown < 40 {
				shown++
				fmt.Printf("UNMODELLED %s /%s/ on %q: spec %s otto %s\n", kind, p, s, exp, act)
			}
		}
	}
	fmt.Println(stats)
}
