package c10

import (
	"fmt"
	"strings"

	"verif/internal/gen"
	"verif/internal/refre"
)

// ------------------------------------------------------------ portable patterns

type pgen struct {
	r        *gen.Rand
	maxDepth int
	feats    map[string]bool
}

func (g *pgen) feat(f string) { g.feats[f] = true }

var plainChars = []string{"a", "b", "c", "a", "b", "c", "a", "b", "-", "A", "B", "1", "_", " ", "a", "b", "c", "a", "b", "c", "a", "b", "-", "A", "B", "1", "_", " ", "/"}

var otherEscapes = []string{`\x61`, `\x62`, `a`, `c`, `\cJ`, `\cj`, `\0`, `\t`, `\v`, `\f`, `\r`, `\x0A`, `\u000a`,
	`\.`, `\-`, `\*`, `\/`, `\$`, `\|`, `\(`, `\)`, `\[`, `\]`, `\{`, `\}`, `\\`, `\^`, `\+`, `\?`, `\x2d`, `é`, `\xE9`, `\cI`, `\cP`, `\cp`, `\cZ`, `\cA`, `\x1f`, `\x7F`,
	// IdentityEscape of characters outside ASCII that are not IdentifierPart (15.10.1)
	"\\\u2014", "\\\u20ac", "\\\u00a7", "\u2014",
	// an escaped line terminator (constructor route only): matches that line terminator, and the source has to say so
	"\\\n", "\\\r", "\\\u2028"}

var classEscapes = []string{`\d`, `\D`, `\w`, `\W`, `\s`, `\S`}

func (g *pgen) disjunction(depth int) string {
	n := 1 + g.r.Weighted([]int{70, 22, 8})
	parts := make([]string, n)
	for i := range parts {
		parts[i] = g.alternative(depth)
	}
	if n > 1 {
		g.feat("alternation")
	}
	return strings.Join(parts, "|")
}

func (g *pgen) alternative(depth int) string {
	n := g.r.Weighted([]int{4, 30, 34, 22, 10})
	if n == 0 {
		g.feat("empty-alternative")
	}
	var b strings.Builder
	for i := 0; i < n; i++ {
		b.WriteString(g.term(depth))
	}
	return b.String()
}

func (g *pgen) term(depth int) string {
	if g.r.Chance(1, 9) {
		a := []string{"^", "$", `\b`, `\B`}[g.r.Intn(4)]
		g.feat("assert:" + a)
		return a
	}
	atom := g.atom(depth)
	if !g.r.Chance(35, 100) {
		return atom
	}
	var q string
	switch g.r.Intn(8) {
	case 0, 1:
		q = "*"
	case 2, 3:
		q = "+"
	case 4:
		q = "?"
	case 5:
		q = fmt.Sprintf("{%s}", g.count(g.r.Intn(4)))
	case 6:
		q = fmt.Sprintf("{%s,}", g.count(g.r.Intn(3)))
	default:
		lo := g.r.Intn(3)
		q = fmt.Sprintf("{%s,%s}", g.count(lo), g.count(lo+g.r.Intn(3)))
	}
	if q[0] == '{' {
		g.feat("quant:{}")
	} else {
		g.feat("quant:" + q)
	}
	if g.r.Chance(3, 10) {
		q += "?"
		g.feat("lazy")
	}
	return atom + q
}

// count writes a repeat count; DecimalDigits (15.10.1) may have leading zeros.
func (g *pgen) count(n int) string {
	if g.r.Chance(1, 5) {
		g.feat("quant:leading-zero")
		return strings.Repeat("0", g.r.Range(1, 2)) + fmt.Sprint(n)
	}
	return fmt.Sprint(n)
}

func (g *pgen) atom(depth int) string {
	w := []int{52, 5, 6, 6, 7, 10, 8, 6}
	if depth >= g.maxDepth {
		w[6], w[7] = 0, 0
	}
	switch g.r.Weighted(w) {
	case 0:
		g.feat("char")
		return g.r.Pick(plainChars)
	case 1:
		g.feat(`esc:\n`)
		return `\n`
	case 2:
		g.feat("dot")
		return "."
	case 3:
		e := g.r.Pick(classEscapes)
		g.feat("esc:" + e)
		return e
	case 4:
		e := g.r.Pick(otherEscapes)
		switch {
		case strings.HasPrefix(e, `\x`):
			g.feat(`esc:\xHH`)
		case strings.HasPrefix(e, `\u`):
			g.feat(`esc:\uHHHH`)
		case strings.HasPrefix(e, `\c`):
			g.feat(`esc:\cX`)
		case e == `\0`:
			g.feat(`esc:\0`)
		case strings.Contains(`\t\v\f\r`, e):
			g.feat("esc:control")
		default:
			g.feat("esc:identity")
		}
		return e
	case 5:
		return g.class()
	case 6:
		g.feat("group:capturing")
		return "(" + g.disjunction(depth+1) + ")"
	default:
		g.feat("group:non-capturing")
		return "(?:" + g.disjunction(depth+1) + ")"
	}
}

var classItems = []string{"a", "b", "c", "a", "b", "c", "-", "A", "1", "_", " ", "^", ".", "*", "(", ")", "[", "$", "|", "/", "?", "+", "{", "}"}
var classEscItems = []string{`\d`, `\w`, `\s`, `\D`, `\W`, `\S`, `\n`, `\b`, `\x61`, `\-`, `\]`, `\\`, `\t`, `b`, `\cJ`, `\0`, `\^`, `\r`, `\v`}
var classRanges = []string{"a-c", "a-b", "b-c", "A-C", "0-9", "a-a", "A-c", `\x61-c`, `a-\x63`, "--a", " -c", `\t-\r`}

func (g *pgen) class() string {
	g.feat("class")
	var b strings.Builder
	b.WriteString("[")
	if g.r.Chance(1, 4) {
		b.WriteString("^")
		g.feat("class:negated")
	}
	n := g.r.Weighted([]int{1, 30, 35, 24, 10})
	if n == 0 {
		g.feat("class:empty")
	}
	for i := 0; i < n; i++ {
		switch g.r.Weighted([]int{50, 22, 28}) {
		case 0:
			it := g.r.Pick(classItems)
			if it == "^" && i == 0 && !strings.HasSuffix(b.String(), "^") {
				it = "a" // a leading ^ would negate
			}
			if it == "-" {
				g.feat("class:dash")
			}
			b.WriteString(it)
		case 1:
			e := g.r.Pick(classEscItems)
			g.feat("class:escape")
			if e == `\b` {
				g.feat(`class:\b`)
			}
			b.WriteString(e)
			// a following item that starts a range with a class escape would be malformed; '-' is only
			// appended as the last item (see below)
		default:
			g.feat("class:range")
			s := b.String()
			// "x-" + range would merge into a different range; separate with a plain char when needed
			if strings.HasSuffix(s, "-") && !strings.HasSuffix(s, `\-`) {
				b.WriteString("a")
			}
			b.WriteString(g.r.Pick(classRanges))
		}
	}
	if g.r.Chance(1, 10) {
		b.WriteString("-")
		g.feat("class:dash")
	}
	b.WriteString("]")
	return b.String()
}

// genPortable generates a pattern of the portable subset together with the
// set of constructs it uses. The text is re-classified by refre; a text that
// is (by accident of concatenation) not portable is regenerated.
func genPortable(r *gen.Rand, maxDepth int) (string, []string) {
	for try := 0; ; try++ {
		g := &pgen{r: r, maxDepth: maxDepth, feats: map[string]bool{}}
		p := g.disjunction(0)
		if cls, _, _ := refre.Classify(p); cls != refre.Portable {
			if try > 50 {
				return "a", []string{"char"}
			}
			continue
		}
		var fs []string
		for f := range g.feats {
			fs = append(fs, f)
		}
		return p, fs
	}
}

// allFlagOrders lists every ordering of every subset of {g,i,m} (16 strings):
// the flags argument is a string, and the order in which its characters are
// written must not matter (15.10.4.1).
var allFlagOrders = []string{"", "g", "i", "m", "gi", "ig", "gm", "mg", "im", "mi",
	"gim", "gmi", "igm", "img", "mgi", "mig"}

// genFlags draws a subset of {g,i,m} (each flag with probability 1/3) in a
// uniformly random order.
func genFlags(r *gen.Rand) string {
	var fs []byte
	for _, c := range []byte("gim") {
		if r.Chance(1, 3) {
			fs = append(fs, c)
		}
	}
	p := r.Perm(len(fs))
	out := make([]byte, len(fs))
	for i, j := range p {
		out[i] = fs[j]
	}
	return string(out)
}

// ------------------------------------------------------------ subjects

var smallAlphabet = []string{"a", "b", "c", "\n"}

// allStrings returns every string over alpha of length <= n (shortlex order).
func allStrings(alpha []string, n int) []string {
	out := []string{""}
	prev := []string{""}
	for l := 1; l <= n; l++ {
		var cur []string
		for _, p := range prev {
			for _, a := range alpha {
				cur = append(cur, p+a)
			}
		}
		out = append(out, cur...)
		prev = cur
	}
	return out
}

var std4 = allStrings(smallAlphabet, 4) // 341
var std5 = allStrings(smallAlphabet, 5) // 1365

var wideAlphabet = []string{"a", "b", "c", "\n", "a", "b", "c", "-", "A", "B", "C", " ", "1", "_", "\r", "\t", "\v", "é", " ", "/", ".", "\x00", "]", "\x10", "\x1a", "\x01", "\x1f", "\x7f", "\u2014", "\u20ac"}

func randString(r *gen.Rand, alpha []string, lo, hi int) string {
	n := r.Range(lo, hi)
	var b strings.Builder
	for i := 0; i < n; i++ {
		b.WriteString(alpha[r.Intn(len(alpha))])
	}
	return b.String()
}

// ------------------------------------------------------------ static analysis of a parsed pattern

// nullable reports whether the node can match the empty string.
func nullable(n *refre.Node) bool {
	switch n.Kind {
	case refre.KEmpty, refre.KBegin, refre.KEnd, refre.KWordB, refre.KNotWordB, refre.KLookahead, refre.KBackref:
		return true
	case refre.KChar, refre.KDot, refre.KClass:
		return false
	case refre.KGroup, refre.KNCGroup:
		return nullable(n.Sub)
	case refre.KRepeat:
		return n.Min == 0 || nullable(n.Sub)
	case refre.KSeq:
		for _, s := range n.Subs {
			if !nullable(s) {
				return false
			}
		}
		return true
	case refre.KAlt:
		for _, s := range n.Subs {
			if nullable(s) {
				return true
			}
		}
		return false
	}
	return true
}

func walk(n *refre.Node, f func(*refre.Node)) {
	if n == nil {
		return
	}
	f(n)
	walk(n.Sub, f)
	for _, s := range n.Subs {
		walk(s, f)
	}
}

func hasKind(n *refre.Node, k refre.Kind) bool {
	found := false
	walk(n, func(x *refre.Node) {
		if x.Kind == k {
			found = true
		}
	})
	return found
}

// patInfo is the static description of a pattern used by region predicates
// and coverage features.
type patInfo struct {
	// a capturing group inside an atom quantified with max > 1
	captureInLoop bool
	// a quantified atom with optional iterations (max > min) whose body can match the empty string
	nullableLoop bool
	// [] or [^]
	emptyClass bool
	hasDot     bool
	hasSpace   bool // \s or \S, also inside a class
	// a quantifier directly applied to a quantified atom is impossible in ES5; counted
	// repetition with a bound > 1000 is rejected by RE2
	bigRepeat bool
	// lazy quantifier somewhere
	lazy bool
	// case-sensitive constructs whose ES5 Canonicalize differs from Unicode simple folding
	ncaps int
}

func analyse(p *refre.Pattern) patInfo {
	var in patInfo
	in.ncaps = p.NCaps
	walk(p.Root, func(n *refre.Node) {
		switch n.Kind {
		case refre.KRepeat:
			if !n.Greedy {
				in.lazy = true
			}
			if n.Max > 1000 || n.Min > 1000 {
				in.bigRepeat = true
			}
			if (n.Max == -1 || n.Max > 1) && n.ParenCount > 0 {
				in.captureInLoop = true
			}
			// the empty check of RepeatMatcher applies to iterations run with min = 0
			if (n.Max == -1 || n.Max > n.Min) && nullable(n.Sub) {
				in.nullableLoop = true
			}
		case refre.KDot:
			in.hasDot = true
		case refre.KClass:
			if n.GoSet != nil {
				in.hasSpace = true
			}
			if len(n.Set.Ranges()) == 0 {
				in.emptyClass = true
			}
		}
	})
	return in
}

// litSafe reports whether /p/ can be written as a regular expression literal
// (7.8.5): printable ASCII only, no line terminator, every '/' escaped or
// inside a class, not starting with '*', non-empty.
func litSafe(p string) bool {
	if p == "" || p[0] == '*' {
		return false
	}
	inClass := false
	for i := 0; i < len(p); i++ {
		c := p[i]
		if c < 0x20 || c > 0x7e {
			return false
		}
		switch {
		case c == '\\':
			i++
			if i >= len(p) || p[i] < 0x20 || p[i] > 0x7e {
				return false
			}
		case c == '[':
			inClass = true
		case c == ']':
			inClass = false
		case c == '/' && !inClass:
			return false
		}
	}
	return !inClass
}

// ------------------------------------------------------------ hostile patterns

// directedHostile are texts that are not portable ES5 patterns: Go/RE2-only
// syntax, unsupported constructs, malformed texts and web-compat extensions.
var directedHostile = []string{
	// RE2 flag groups and named groups
	`(?i)a`, `(?i)A`, `(?s)a.b`, `(?s:a.b)`, `(?m)^b`, `(?U)a+`, `(?i:a)b`, `(?-i)a`, `(?P<n>a)`, `(?P<n>a)b`, `(?<n>a)`, `(?is)a.B`, `a(?i)b`, `(?#c)a`, `(?|a)`, `(?>a)`, `(?<=a)b`, `(?<!a)b`,
	// RE2 escapes and classes
	`\pL`, `\p{Greek}`, `\PL`, `\pN`, `[\pL]`, `[\PL]`, `[[:alpha:]]`, `[[:^alpha:]]`, `[[:word:]]`, `[[:digit:]]+`, `[[:space:]]`, `[a[:alpha:]]`, `[[:alpha:]`,
	`\Qa.b\E`, `\Q.\E`, `\Q`, `\Qa`, `a\z`, `\Aa`, `\C`, `a\Z`, `\G`, `\h`, `\R`, `\X`, `\K`, `\e`, `\a`, `[\a]`, `[\z]`, `[\Q]`, `[\A-\z]`, `\x{61}`, `\x{10FFFF}`, `\123`, `\_`, `\ya`, `\E`, `a\Eb`, `\Q\E`,
	// look-ahead and back-references
	`(?=a)`, `(?!a)`, `a(?=b)`, `a(?!b)`, `(a)\1`, `\1(a)`, `(a)(b)\2`, `((a))\2`, `(?=(a))\1`, `(?:(?=a))`,
	`\1`, `\2`, `\8`, `\9`, `\10`, `(a)\2`, `(a)\8`, `\00`, `\01`, `\08`, `\1a`, `[\1]`, `[\8]`, `[\01]`,
	// malformed
	`(`, `)`, `[`, `a)`, `(a`, `((a)`, `(a))`, `[a`, `a[`, `[^`, `(?:a`, `(?`, `(?:`, `(?=`, `(?!`, `(?=a`, `a|(`, `a|)`, `[\]`, `\`, `a\`, `[\`,
	`*`, `+`, `?`, `*a`, `+a`, `?a`, `a**`, `a+*`, `a*+`, `a++`, `a?*`, `a???`, `a*??`, `a+?*`, `a{1}{2}`, `a{1}*`, `a{1}+`, `a*{2}`, `|*`, `a|+`, `(*)`, `(+a)`, `(?:*)`, `(?:?)`, `()*?+`,
	`a{2,1}`, `a{3,0}`, `a{10,9}?`, `(a){2,1}`, `{1}`, `{1,2}a`, `a|{2}`, `({1})`,
	`[c-a]`, `[z-a]`, `[b-a-c]`, `[\d-a]`, `[a-\d]`, `[\w-\d]`, `[\s-z]`, `[a-\W]`,
	`^*`, `^+a`, `$*`, `$?a`, `a$+`, `\b*`, `\b+a`, `\B?`, `\b{2}`, `^{1}`, `a\b*`,
	// web-compat extensions
	`]`, `}`, `{`, `a{`, `a}`, `a]`, `{a}`, `a{,2}`, `a{1`, `a{1,`, `a{1,2`, `a{a}`, `a{-1}`, `[]a]`, `[^]a]`, `[]]`, `[]-a]`,
	`\c`, `\c1`, `\c_`, `\c-`, `[\c]`, `[\c1]`, `[\c_]`, `[\c-]`, `\x`, `\x1`, `\xg1`, `\x1g`, `\u`, `\u1`, `\u12`, `\u123`, `\u00g1`, `[\x]`, `[\u12]`,
	`\z`, `\A`, `\m`, `\j`, `\N`, `\-`, `\%`, `\ `, `\@`, `\<`, `\>`, `\'`, `\"`, `\~`, `\!`, `\#`, `\&`, `\,`, `\:`, `\;`, `\=`, `\q\y`,
	`(?=a)*`, `(?=a)+b`, `(?!a){2}`, `(?=a)?b`,
}

// goTokens are inserted into portable patterns as mutations.
var goTokens = []string{`(?i)`, `(?s)`, `(?m)`, `(?U)`, `(?i:`, `(?P<x>`, `(?<x>`, `\pL`, `\PL`, `[[:alpha:]]`, `[[:^digit:]]`, `\Q`, `\E`, `\z`, `\A`, `\C`, `\Z`, `\a`, `\x{61}`, `\G`, `\K`}

// mutate turns a portable pattern into a (probably) non-portable one.
func mutate(r *gen.Rand, p string) (string, string) {
	pos := func() int { return r.Intn(len(p) + 1) }
	switch r.Intn(12) {
	case 0: // look-ahead in place of a group opener
		if i := strings.Index(p, "(?:"); i >= 0 {
			return p[:i] + []string{"(?=", "(?!"}[r.Intn(2)] + p[i+3:], "lookahead"
		}
		if i := strings.Index(p, "("); i >= 0 && (i == 0 || p[i-1] != '\\') {
			return p[:i] + []string{"(?=", "(?!"}[r.Intn(2)] + p[i+1:], "lookahead"
		}
		return []string{"(?=", "(?!"}[r.Intn(2)] + p + ")", "lookahead"
	case 1: // back-reference
		if r.Chance(1, 3) {
			// a two-digit reference to a group that exists (15.10.2.9), not an octal escape
			n := r.Range(10, 12)
			return strings.Repeat("(a)", n) + p + fmt.Sprintf(`\%d`, r.Range(10, n)), "backref"
		}
		return p + fmt.Sprintf(`\%d`, r.Range(1, 9)), "backref"
	case 2: // drop a closer
		for _, ch := range []string{")", "]"} {
			if i := strings.LastIndex(p, ch); i > 0 && p[i-1] != '\\' {
				return p[:i] + p[i+1:], "drop-closer"
			}
		}
		return p + "(", "drop-closer"
	case 3: // extra closer / opener
		return p[:pos()] + []string{")", "(", "["}[r.Intn(3)] + p, "stray-bracket"
	case 4: // dangling quantifier at the start, after ( or after |
		q := []string{"*", "+", "?", "{2}", "{1,2}"}[r.Intn(5)]
		if i := strings.Index(p, "|"); i >= 0 && r.Bool() && (i == 0 || p[i-1] != '\\') && !strings.Contains(p[:i], "[") {
			return p[:i+1] + q + p[i+1:], "dangling-quantifier"
		}
		return q + p, "dangling-quantifier"
	case 5: // doubled quantifier
		return p + "a" + []string{"**", "+*", "*+", "{2}{3}", "???", "+?+", "{1}*"}[r.Intn(7)], "double-quantifier"
	case 6: // {n,m} out of order
		return p + fmt.Sprintf("b{%d,%d}", r.Range(2, 5), r.Range(0, 1)), "brace-order"
	case 7: // reversed class range
		return p + []string{"[c-a]", "[b-a]", "[9-0]", `[\d-a]`, `[a-\w]`}[r.Intn(5)], "class-range"
	case 8: // quantified assertion
		return p + []string{"^*", "$+", `\b?`, `\B*`, "^{2}", "$*?"}[r.Intn(6)], "quantified-assertion"
	case 9, 10: // Go-only token somewhere
		t := r.Pick(goTokens)
		if strings.HasSuffix(t, ":") || strings.HasSuffix(t, ">") {
			return t + p + ")", "go-group"
		}
		if r.Bool() {
			return t + p, "go-token"
		}
		return p + t, "go-token"
	default: // unknown (?x group
		return "(?" + []string{"i", "s", "m", "U", "x", "<", "P", "#", "'"}[r.Intn(9)] + p + ")", "go-group"
	}
}

// selfSubjects derives subjects from the text of a pattern: the text, the text
// without backslashes, every prefix and suffix of that, and its characters.
func selfSubjects(p string) []string {
	seen := map[string]bool{}
	var out []string
	add := func(s string) {
		if !seen[s] && len(s) <= 24 {
			seen[s] = true
			out = append(out, s)
		}
	}
	add(p)
	q := strings.ReplaceAll(p, `\`, "")
	add(q)
	rs := []rune(q)
	for i := 0; i <= len(rs) && i < 12; i++ {
		add(string(rs[:i]))
		add(string(rs[i:]))
	}
	for _, c := range rs {
		add(string(c))
		add("a" + string(c))
		add(string(c) + "a")
	}
	for _, s := range []string{"", "a", "b", "ab", "ba", "aa", "abc", "A", "a\n", "\na", "x", "xa", "ax", "a]", "L", "1", "\x01", "\x07", "é"} {
		add(s)
	}
	return out
}
