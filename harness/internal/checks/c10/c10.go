// Package c10 monitors otto's regular expressions: the pattern translation
// (parser.TransformRegExp + Go regexp) against the ES5.1 15.10 matcher, the
// rejection of unsupported / malformed / RE2-only syntax, and the exec / test /
// match / replace / search / split protocol including lastIndex state.
package c10

import (
	"encoding/json"
	"fmt"
	"regexp"
	"sort"
	"strings"

	"github.com/robertkrimen/otto"
	"github.com/robertkrimen/otto/parser"

	"verif/internal/gen"
	"verif/internal/ox"
	"verif/internal/refre"
	"verif/internal/run"
)

// Step is one call in a history on a single RegExp object.
type Step struct {
	Op  string `json:"op"`            // exec test setli match replace replacefn search split | replaceStr replaceStrFn splitStr
	S   string `json:"s,omitempty"`   // subject string
	LI  string `json:"li,omitempty"`  // setli: JS source of the value: -1 0 3 "2" NaN 1.5 Infinity
	Tpl string `json:"tpl,omitempty"` // replace: replacement template
	Q   string `json:"q,omitempty"`   // replaceStr / splitStr: the string searchValue / separator
	Lim *gen.F `json:"lim,omitempty"` // split: limit (absent = undefined)
}

// Input is one self-contained case.
type Input struct {
	Op       string   `json:"op"` // match | class | hist
	P        string   `json:"p"`
	F        string   `json:"f"`
	Route    string   `json:"route"`              // ctor | lit
	Subjects []string `json:"subjects,omitempty"` // match/class: explicit subjects (empty = the standard set of the tier)
	Extra    []string `json:"extra,omitempty"`    // match: additional generated subjects
	Steps    []Step   `json:"steps,omitempty"`
	Mut      string   `json:"mut,omitempty"` // class: how the text was produced (informational)
}

func init() {
	run.Register(&run.Check{
		ID: "C10",
		Rule: "a case is (pattern, flags, route) x subjects [op match: portable-subset pattern from the grammar generator, exec compared on every subject], " +
			"(hostile pattern text) [op class: look-ahead / back-reference / malformed / RE2-only / web-compat texts: must throw, or match the ES5/Annex-B reading], or " +
			"(pattern, flags, call history <= 6 on one RegExp) [op hist]; non-trivial = the pattern uses >= 2 distinct constructs (match), the text is not a plain portable pattern (class), " +
			"or the history has >= 2 calls of which one reads or writes lastIndex state (hist); distinct by (op, pattern, flags[, history])",
		Assumptions: []string{
			"oracle: internal/refre (ES5.1 15.10.1 grammar + early errors, 15.10.2 continuation matcher, 15.10.6.2-3, 15.5.4.10-12, 15.5.4.14), on UTF-16 code units; no use of Go regexp in the oracle",
			"Canonicalize (15.10.2.8) is modelled exactly for ASCII, Latin-1 and the listed extra code units only; the workload alphabet stays inside that set",
			"global match/replace calls where ES5.1 15.5.4.10 step 8.f (previousLastIndex) and the ES3/ES2015 reading (advance after an empty match) differ are not compared (counted in notes as es5-8f-ambiguous)",
			"$n / $nn with n greater than the number of captures is implementation-defined (15.5.4.11 Table 22): result not compared",
			"texts outside the ES5.1 grammar but inside the de-facto web-compatibility grammar (ES2015 B.1.4) may either throw SyntaxError or match as that grammar says (ES5.1 clause 16 permits extending pattern syntax)",
			"matcher step budget 2000000 per [[Match]] call; exceeded = inconclusive for that case",
		},
		Floor: func(tier string) int {
			if tier == "thorough" {
				return 40000
			}
			return 3000
		},
		Cases: func(tier string, seed uint64) int {
			if tier == "thorough" {
				return len(directedCases()) + 100000
			}
			return len(directedCases()) + 7600
		},
		// generous: the machine may be heavily shared; a genuine hang is still caught
		CaseTimeoutS: 900,
		Exec:         func(c *run.Ctx, i int) { checkOne(c, generate(c.Rng, i, c.Thorough())) },
		Replay:       func(c *run.Ctx, raw json.RawMessage) { var in Input; mustUnmarshal(raw, &in); checkOne(c, in) },
	})
	registerMatchers()
}

func mustUnmarshal(raw json.RawMessage, v interface{}) {
	if err := json.Unmarshal(raw, v); err != nil {
		panic(err)
	}
}

// ------------------------------------------------------------ generation

var directedOnce []Input

// directedCases are fixed cases run at the start of every tier.
func directedCases() []Input {
	if directedOnce != nil {
		return directedOnce
	}
	var out []Input
	for _, p := range directedHostile {
		out = append(out, Input{Op: "class", P: p, Route: "ctor", Mut: "directed"})
		if litSafe(p) {
			out = append(out, Input{Op: "class", P: p, Route: "lit", Mut: "directed"})
		}
	}
	// flags (15.10.4.1)
	for _, f := range []string{"x", "gg", "ii", "mm", "gimg", "G", "gi ", "y", "u", "s", "gx"} {
		out = append(out, Input{Op: "class", P: "a", F: f, Route: "ctor", Mut: "flags"})
		if strings.Trim(f, "abcdefghijklmnopqrstuvwxyzABCDEFGHIJKLMNOPQRSTUVWXYZ") == "" {
			out = append(out, Input{Op: "class", P: "a", F: f, Route: "lit", Mut: "flags"})
		}
	}
	// portable patterns from the specification text and boundary constructs
	for _, pf := range [][2]string{
		{`a|ab`, ""}, {`((a)|(ab))((c)|(bc))`, ""}, {`a[a-z]{2,4}`, ""}, {`a[a-z]{2,4}?`, ""}, {`(aa|aabaac|ba|b|c)*`, ""},
		{`(z)((a+)?(b+)?(c))*`, ""}, {`(a*)*`, ""}, {`(a*)*b`, ""}, {`(?:a|ab)(?:c|bcd)(?:d*)`, ""}, {`(a|ab)(c|bcd)(d*)`, ""},
		{`[]`, ""}, {`[^]`, ""}, {`a[]`, ""}, {`a[^]b`, ""}, {`a{1001}`, ""}, {`a{0,1001}`, ""}, {`(?:a{1000})`, ""}, {`a{0}`, ""}, {`(a){0}b`, ""},
		{`a.c`, ""}, {`\s`, ""}, {`\S`, ""}, {`[\s]`, ""}, {`[^\s]`, ""}, {`[^\S]`, ""}, {`.`, "g"}, {`^.$`, "m"}, {`^`, "gm"}, {`$`, "gm"}, {`\b`, "g"}, {`\B`, "g"},
		{`[E-F]`, "i"}, {`[E-f]`, "i"}, {`[a-z]`, "i"}, {`\w`, "i"}, {`s`, "i"}, {`k`, "i"}, {`é`, "i"}, {`ß`, "i"}, {`[^a]`, "i"}, {`[^\W]`, "i"},
		{`[\b]`, ""}, {`\cJ`, ""}, {`\cj`, ""}, {`\0`, ""}, {`[\0]`, ""}, {`\x41`, ""}, {`A`, ""}, {`\/`, ""}, {`[/]`, ""}, {`\$`, ""}, {`[$]`, ""}, {`(?:)`, ""}, {`()`, ""}, {`|`, ""}, {`a||b`, ""},
		{`(a)(b)(c)(d)(e)(f)(g)(h)(i)(j)(k)(l)`, ""},
	} {
		out = append(out, Input{Op: "match", P: pf[0], F: pf[1], Route: "ctor",
			Extra: []string{"abc", "zaacbbbcac", "aabaac", "abcdefghi", "abcd", "b", "a\rc", "a\u2028c", "a\u2029c", "a\nc", "\v", "\u00a0", "\ufeff", "\u2028", "x y", "\r", "\t",
				"e", "E", "g", "Z", "^", "\u017f", "\u212a", "S", "K", "\u00c9", "\u00e9", "SS", "\u00df", "\b", "\x00", "A", "/", "$", "abcdefghijkl", "a\nb", strings.Repeat("a", 12)}})
	}
	// every ordering of every flag subset, on patterns where each flag is observable
	// (i: case, m: anchors at line terminators, g: lastIndex), both routes
	for _, fl := range allFlagOrders {
		for _, p := range []string{`^b`, `a$`, `^B.|c$`} {
			for _, route := range []string{"ctor", "lit"} {
				out = append(out, Input{Op: "match", P: p, F: fl, Route: route,
					Extra: []string{"a\nB", "A\nb", "a\nb", "B\na", "ba", "AB", "a\nBa\nc", "C\nbA\nA"}})
			}
		}
	}
	// protocol histories with known interesting shapes
	f := func(x float64) *gen.F { g := gen.F(x); return &g }
	hist := func(p, fl string, steps ...Step) {
		out = append(out, Input{Op: "hist", P: p, F: fl, Route: "ctor", Steps: steps})
	}
	hist(`b`, "g", Step{Op: "match", S: "abcb"}, Step{Op: "exec", S: "abcb"})
	hist(`x`, "g", Step{Op: "setli", LI: "2"}, Step{Op: "match", S: "abc"})
	hist(`b`, "g", Step{Op: "replace", S: "abcb", Tpl: "x"}, Step{Op: "exec", S: "abcb"})
	hist(`b`, "", Step{Op: "setli", LI: "3"}, Step{Op: "replace", S: "ac", Tpl: "x"})
	hist(`b`, "", Step{Op: "setli", LI: "3"}, Step{Op: "match", S: "ac"})
	hist(`a`, "g", Step{Op: "setli", LI: `"2"`}, Step{Op: "test", S: "aaa"}, Step{Op: "test", S: "aaa"}, Step{Op: "test", S: "aaa"})
	hist(`a`, "", Step{Op: "setli", LI: `"2"`}, Step{Op: "test", S: "aaa"}, Step{Op: "exec", S: "b"})
	hist(`a`, "g", Step{Op: "setli", LI: "NaN"}, Step{Op: "exec", S: "aaa"}, Step{Op: "setli", LI: "-1"}, Step{Op: "exec", S: "aaa"}, Step{Op: "setli", LI: "4"}, Step{Op: "exec", S: "aaa"})
	hist(`a`, "g", Step{Op: "setli", LI: "3"}, Step{Op: "exec", S: "aaa"}, Step{Op: "setli", LI: "1.5"}, Step{Op: "exec", S: "aaa"}, Step{Op: "setli", LI: "Infinity"}, Step{Op: "exec", S: "aaa"})
	hist(`(?:)`, "g", Step{Op: "exec", S: "ab"}, Step{Op: "exec", S: "ab"}, Step{Op: "setli", LI: "2"}, Step{Op: "exec", S: "ab"}, Step{Op: "setli", LI: "3"}, Step{Op: "exec", S: "ab"})
	hist(`a`, "g", Step{Op: "setli", LI: "2"}, Step{Op: "search", S: "xxa"}, Step{Op: "split", S: "xaxa"}, Step{Op: "exec", S: "xxaa"})
	hist(`(?:)`, "", Step{Op: "split", S: ""}, Step{Op: "split", S: "abc"}, Step{Op: "split", S: "abc", Lim: f(2)})
	hist(`a*?`, "", Step{Op: "split", S: "ab"})
	hist(`a*`, "", Step{Op: "split", S: "ab"}, Step{Op: "split", S: ""})
	hist(`<(\/)?([^<>]+)>`, "", Step{Op: "split", S: "A<B>bold</B>and<CODE>coded</CODE>"}, Step{Op: "split", S: "A<B>bold</B>and<CODE>coded</CODE>", Lim: f(4)},
		Step{Op: "split", S: "A<B>bold</B>and<CODE>coded</CODE>", Lim: f(-1)}, Step{Op: "split", S: "A<B>bold</B>and<CODE>coded</CODE>", Lim: f(4294967298)})
	hist(`(\$(\d))`, "g", Step{Op: "replace", S: "$1,$2", Tpl: "$$1-$1$2"})
	hist(`b`, "", Step{Op: "replace", S: "abc", Tpl: "[$&|$`|$'|$$|$0|$00|$|$a]"}, Step{Op: "replacefn", S: "abcb"})
	hist(`(b)(x)?`, "g", Step{Op: "replace", S: "abcb", Tpl: "<$1|$2|$01|$02>"}, Step{Op: "replacefn", S: "abcb"})
	hist(`(a)(b)(c)(d)(e)(f)(g)(h)(i)(j)(k)(l)`, "", Step{Op: "replace", S: "abcdefghijkl", Tpl: "$12|$1|$10|$011"})
	hist(`x*`, "g", Step{Op: "replace", S: "abc", Tpl: "-"}, Step{Op: "match", S: "abc"}, Step{Op: "match", S: "xxaxx"})
	hist(`b*`, "g", Step{Op: "match", S: "abc"}, Step{Op: "replace", S: "abbc", Tpl: "[$&]"})
	hist(`a`, "g", Step{Op: "exec", S: "éa"}, Step{Op: "exec", S: "éa"}, Step{Op: "search", S: "é-a"}, Step{Op: "setli", LI: "1"}, Step{Op: "exec", S: "éaéa"})
	hist(`a`, "", Step{Op: "replaceStr", S: "a.c a.c", Q: ".", Tpl: "[$&$`$']"}, Step{Op: "replaceStr", S: "abc", Q: "", Tpl: "x"}, Step{Op: "replaceStrFn", S: "a(b)c", Q: "(b)"},
		Step{Op: "splitStr", S: "a,b,c", Q: ","}, Step{Op: "splitStr", S: "abc", Q: ""}, Step{Op: "splitStr", S: "", Q: ""})
	hist(`a`, "", Step{Op: "splitStr", S: "", Q: "a"}, Step{Op: "splitStr", S: "a,b,c", Q: ",", Lim: f(2)}, Step{Op: "splitStr", S: "a,b,c", Q: ",", Lim: f(0)}, Step{Op: "splitStr", S: "aXbxc", Q: "x"})
	directedOnce = out
	return out
}

var tplTokens = []string{"$$", "$&", "$`", "$'", "$1", "$2", "$01", "$02", "$10", "$0", "$00", "$", "x", "-", "$a", "[", "]", "$3", "\\", "$&$&"}

func genTemplate(r *gen.Rand) string {
	n := r.Range(0, 4)
	var b strings.Builder
	for i := 0; i < n; i++ {
		b.WriteString(r.Pick(tplTokens))
	}
	return b.String()
}

var limits = []float64{0, 1, 2, 3, 5, -1, 4294967297, 4294967296, 1.9}

func genHistory(r *gen.Rand) Input {
	// a pattern outside every matcher-semantics region, so that what is compared is the protocol
	var p string
	for try := 0; ; try++ {
		p, _ = genPortable(r, 2)
		_, pat, _ := refre.Classify(p)
		in := analyse(pat)
		if !in.captureInLoop && !in.nullableLoop && !in.emptyClass && !in.hasDot && !in.hasSpace && !strings.Contains(p, "é") && !strings.Contains(p, `\xE9`) {
			break
		}
		if try > 40 {
			p = []string{"a", "b|c", "(a)(b)?", "a+", "[ab]", "a|", "(?:)", "^", "$", "a$", `\b`}[r.Intn(11)]
			break
		}
	}
	in := Input{Op: "hist", P: p, F: genFlags(r), Route: "ctor"}
	if r.Chance(2, 3) && !in.has('g') { // global expressions carry the state: make them the majority
		pos := r.Intn(len(in.F) + 1) // any position: the order of flag characters is part of the input space
		in.F = in.F[:pos] + "g" + in.F[pos:]
	}
	if litSafe(p) && r.Bool() {
		in.Route = "lit"
	}
	alpha := smallAlphabet
	if r.Chance(1, 12) {
		alpha = []string{"a", "b", "c", "\n", "é", "a", "b"}
	} else if r.Chance(1, 12) {
		// one code point, two code units, four bytes: tells the three ways of counting apart
		alpha = []string{"a", "b", "c", "\U0001F600", "a", "b"}
	}
	base := randString(r, alpha, 0, 6)
	subj := func() string {
		if r.Chance(3, 4) {
			return base
		}
		return randString(r, alpha, 0, 6)
	}
	n := r.Range(2, 6)
	for k := 0; k < n; k++ {
		s := subj()
		var st Step
		switch r.Weighted([]int{22, 12, 18, 10, 9, 5, 7, 9, 3, 1, 4}) {
		case 0:
			st = Step{Op: "exec", S: s}
		case 1:
			st = Step{Op: "test", S: s}
		case 2:
			l := len(refre.Units(s))
			st = Step{Op: "setli", LI: []string{"-1", "0", fmt.Sprint(l), fmt.Sprint(l + 1), `"2"`, "NaN", "1", "2", "1.5", "Infinity"}[r.Intn(10)]}
		case 3:
			st = Step{Op: "match", S: s}
		case 4:
			st = Step{Op: "replace", S: s, Tpl: genTemplate(r)}
		case 5:
			st = Step{Op: "replacefn", S: s}
		case 6:
			st = Step{Op: "search", S: s}
		case 7:
			st = Step{Op: "split", S: s}
			if r.Chance(1, 3) {
				l := gen.F(limits[r.Intn(len(limits))])
				st.Lim = &l
			}
		case 8:
			st = Step{Op: "replaceStr", S: s, Q: randString(r, []string{"a", "b", ".", "$", "(", "*", "\n"}, 0, 2), Tpl: genTemplate(r)}
		case 9:
			st = Step{Op: "replaceStrFn", S: s, Q: randString(r, []string{"a", "b", ".", "["}, 0, 2)}
		default:
			st = Step{Op: "splitStr", S: s, Q: randString(r, []string{"a", "b", ".", "|", "\n"}, 0, 2)}
			if r.Chance(1, 3) {
				l := gen.F(limits[r.Intn(len(limits))])
				st.Lim = &l
			}
		}
		in.Steps = append(in.Steps, st)
	}
	return in
}

func (in Input) has(f byte) bool { return strings.IndexByte(in.F, f) >= 0 }

func generate(r *gen.Rand, i int, thorough bool) Input {
	d := directedCases()
	if i < len(d) {
		return d[i]
	}
	switch r.Weighted([]int{50, 18, 32}) {
	case 0:
		depth := r.Weighted([]int{10, 30, 35, 25})
		p, _ := genPortable(r, depth)
		in := Input{Op: "match", P: p, F: genFlags(r), Route: "ctor"}
		if litSafe(p) && r.Bool() {
			in.Route = "lit"
		}
		n := 24
		for k := 0; k < n; k++ {
			in.Extra = append(in.Extra, randString(r, wideAlphabet, 5, 12))
		}
		if in.has('i') {
			for k := 0; k < 40; k++ {
				in.Extra = append(in.Extra, randString(r, []string{"a", "b", "A", "B", "\n", "c"}, 1, 5))
			}
		}
		for k := 0; k < 8; k++ {
			in.Extra = append(in.Extra, randString(r, smallAlphabet, 6, 9))
		}
		if !thorough {
			// quick tier: all strings of length <= 4 are always used; sample length 5
			for k := 0; k < 120; k++ {
				in.Extra = append(in.Extra, std5[341+r.Intn(1024)])
			}
		}
		return in
	case 1:
		if r.Chance(1, 5) {
			p := r.Pick(directedHostile)
			return Input{Op: "class", P: p, F: genFlags(r), Route: "ctor", Mut: "directed+flags"}
		}
		base, _ := genPortable(r, r.Intn(3))
		p, how := mutate(r, base)
		in := Input{Op: "class", P: p, F: genFlags(r), Route: "ctor", Mut: how}
		if litSafe(p) && r.Chance(1, 3) {
			in.Route = "lit"
		}
		return in
	}
	return genHistory(r)
}

// ------------------------------------------------------------ driving otto

const jsHelpers = `
function __pushV(out,v){ if(v===undefined) out.push("U"); else if(v===null) out.push("N"); else if(typeof v==="string") out.push("S"+v); else if(typeof v==="number") out.push("n"+String(v)); else if(typeof v==="boolean") out.push("b"+v); else out.push("?"+typeof v); }
function __pushM(out,m){ if(m===null){out.push("null");return} if(m===undefined){out.push("undefined");return} if(typeof m!=="object"){out.push("?"+typeof m);return}
  out.push("M"); out.push(String(m.index)); out.push(String(m.length)); for(var k=0;k<m.length;k++) __pushV(out,m[k]); }
function __pushA(out,a){ if(a===null){out.push("null");return} if(a===undefined){out.push("undefined");return} if(typeof a!=="object"){out.push("?"+typeof a);return}
  out.push("A"); out.push(String(a.length)); for(var k=0;k<a.length;k++) __pushV(out,a[k]); }
function __runAll(re,subs){ var out=[]; for(var i=0;i<subs.length;i++){ var s=subs[i]; re.lastIndex=0; var m=re.exec(s); __pushM(out,m); __pushV(out,re.lastIndex); out.push(m&&m.input!==s?"!input":"ok"); } out.push(__srcTrip(re,subs)); return out; }
function __srcTrip(re,subs){ var t,re2; try{ t=String(re); re2=eval(t); }catch(e){ return "src:throws "+e.name+" for "+t; }
  if(Object.prototype.toString.call(re2)!=="[object RegExp]") return "src:not a RegExp: "+t;
  if(re2.source!==re.source||re2.global!==re.global||re2.ignoreCase!==re.ignoreCase||re2.multiline!==re.multiline) return "src:changed "+t+" to "+String(re2);
  var n=subs.length<60?subs.length:60; for(var i=0;i<n;i++){ re.lastIndex=0; re2.lastIndex=0; var a=re.exec(subs[i]), b=re2.exec(subs[i]);
    if((a===null)!==(b===null)||(a!==null&&(a.index!==b.index||a.length!==b.length||a.join("\u0000")!==b.join("\u0000")))) return "src:"+t+" behaves differently on subject "+i; }
  re.lastIndex=0; return "src:ok"; }
var __fnlog=[];
function __fn(){ __fnlog.push("C"+arguments.length); for(var i=0;i<arguments.length;i++) __pushV(__fnlog,arguments[i]); return "<"+__fnlog.length+">$&$1$$$\x60$'$01"; }
`

var vm *otto.Otto

func jsArray(ss []string) string {
	var b strings.Builder
	b.WriteString("[")
	for i, s := range ss {
		if i > 0 {
			b.WriteString(",")
		}
		b.WriteString(ox.JSStr(s))
	}
	b.WriteString("]")
	return b.String()
}

func theVM() *otto.Otto {
	if vm == nil {
		vm = otto.New()
		if _, err := vm.Run(jsHelpers + "var __STD4=" + jsArray(std4) + ";var __STD5=" + jsArray(std5) + ";"); err != nil {
			panic(err)
		}
	}
	return vm
}

// tokens exports the flat array of strings a driver script returned.
func tokens(v otto.Value) ([]string, bool) {
	e, err := v.Export()
	if err != nil {
		return nil, false
	}
	switch x := e.(type) {
	case []string:
		return x, true
	case []interface{}:
		out := make([]string, len(x))
		for i, it := range x {
			s, ok := it.(string)
			if !ok {
				return nil, false
			}
			out[i] = s
		}
		return out, true
	}
	return nil, false
}

// cursor decodes the token stream into canonical display strings.
type cursor struct {
	t   []string
	pos int
	bad bool
}

func (c *cursor) next() string {
	if c.pos >= len(c.t) {
		c.bad = true
		return "<eof>"
	}
	s := c.t[c.pos]
	c.pos++
	return s
}

func showV(tok string) string {
	if tok == "" {
		return "<empty-token>"
	}
	switch tok[0] {
	case 'U':
		return "undefined"
	case 'N':
		return "null"
	case 'S':
		return ox.Str(tok[1:])
	case 'n':
		return tok[1:]
	case 'b':
		return tok[1:]
	}
	return tok
}

func (c *cursor) value() string { return showV(c.next()) }

func atoi(s string) int {
	n := 0
	for _, ch := range s {
		if ch < '0' || ch > '9' {
			return -1
		}
		n = n*10 + int(ch-'0')
		if n > 1<<20 {
			return -1
		}
	}
	if s == "" {
		return -1
	}
	return n
}

// match decodes an exec-style result: "null" | "@index[cap,...]".
func (c *cursor) match() string {
	switch t := c.next(); t {
	case "M":
		idx := c.next()
		n := atoi(c.next())
		if n < 0 {
			c.bad = true
			return "<bad>"
		}
		parts := make([]string, n)
		for i := range parts {
			parts[i] = c.value()
		}
		return "@" + idx + "[" + strings.Join(parts, ",") + "]"
	default:
		return t
	}
}

func (c *cursor) array() string {
	switch t := c.next(); t {
	case "A":
		n := atoi(c.next())
		if n < 0 {
			c.bad = true
			return "<bad>"
		}
		parts := make([]string, n)
		for i := range parts {
			parts[i] = c.value()
		}
		return "[" + strings.Join(parts, ",") + "]"
	default:
		return t
	}
}

// oracle-side renderers producing the same display strings

func showCap(cp refre.Cap) string {
	if !cp.Def {
		return "undefined"
	}
	return ox.Units(cp.S)
}

func showExec(r *refre.ExecResult) string {
	if r == nil {
		return "null"
	}
	parts := make([]string, len(r.Caps))
	for i, cp := range r.Caps {
		parts[i] = showCap(cp)
	}
	return fmt.Sprintf("@%d[%s]", r.Index, strings.Join(parts, ","))
}

func showCaps(cs []refre.Cap) string {
	parts := make([]string, len(cs))
	for i, cp := range cs {
		parts[i] = showCap(cp)
	}
	return "[" + strings.Join(parts, ",") + "]"
}

func showLI(v refre.JSVal) string {
	if v.IsStr {
		return ox.Str(v.S)
	}
	return jsNum(v.N)
}

func jsNum(f float64) string {
	if f == 0 {
		return "0"
	}
	return ox.Num(f)
}

func parseLI(src string) refre.JSVal {
	switch {
	case src == "NaN":
		var z float64
		return refre.Num(z / z)
	case src == "Infinity":
		return refre.Num(1 / zero)
	case strings.HasPrefix(src, `"`):
		return refre.JSVal{IsStr: true, S: strings.Trim(src, `"`)}
	case src == "1.5":
		return refre.Num(1.5)
	}
	neg := strings.HasPrefix(src, "-")
	n := atoi(strings.TrimPrefix(src, "-"))
	if n < 0 {
		panic("bad lastIndex source " + src)
	}
	if neg {
		n = -n
	}
	return refre.Num(float64(n))
}

var zero float64

// errName classifies what a Run error is: the JS error class, or a parse error.
func errName(err error) string {
	if err == nil {
		return ""
	}
	if _, ok := err.(*parser.ErrorList); ok {
		return "SyntaxError"
	}
	if e, ok := err.(*otto.Error); ok {
		s := e.Error()
		if i := strings.Index(s, ":"); i > 0 {
			return s[:i]
		}
		return s
	}
	return ox.ErrClass(err)
}

// newRE is the JS source constructing the expression by the chosen route.
func newRE(in Input) string {
	if in.Route == "lit" {
		return "/" + in.P + "/" + in.F
	}
	return "new RegExp(" + ox.JSStr(in.P) + "," + ox.JSStr(in.F) + ")"
}

func checkOne(c *run.Ctx, in Input) {
	c.Announce(in)
	switch in.Op {
	case "match":
		checkMatch(c, in)
	case "class":
		checkClass(c, in)
	case "hist":
		checkHist(c, in)
	default:
		panic("unknown op " + in.Op)
	}
}

// transformStage observes the translation stage directly: a text accepted by
// parser.TransformRegExp must compile with Go's regexp (the engine otto uses).
func transformStage(c *run.Ctx, in Input) (accepted bool) {
	var pat string
	var err error
	pv, st := run.Guard(func() { pat, err = parser.TransformRegExp(in.P) })
	c.Eval(1)
	if pv != nil {
		c.Fail("panic", "parser.TransformRegExp", in, "no Go panic", fmt.Sprint(pv), st)
		return false
	}
	if err != nil {
		c.Feature("transform:rejected")
		return false
	}
	c.Feature("transform:accepted")
	if _, cerr := regexp.Compile(pat); cerr != nil {
		c.Feature("transform:accepted-but-does-not-compile")
		// reported by the caller in the light of what ES5 says about the text
		return false
	}
	return true
}

// subjectsOf lists the subjects of a match/class case.
func subjectsOf(c *run.Ctx, in Input) (list []string, std string) {
	if len(in.Subjects) > 0 {
		return in.Subjects, ""
	}
	if in.Op == "class" {
		return selfSubjects(in.P), ""
	}
	if c.Thorough() {
		return append(append([]string{}, std5...), in.Extra...), "__STD5"
	}
	return append(append([]string{}, std4...), in.Extra...), "__STD4"
}

// runAll builds the expression in otto and execs it on every subject.
// outcome: "ok" with per-subject results, or "throw:<Name>".
func runAll(c *run.Ctx, in Input, subs []string, std string) (results []string, lis []string, thrown string, ok bool) {
	v := theVM()
	arr := jsArray(subs)
	if std != "" {
		arr = std + ".concat(" + jsArray(in.Extra) + ")"
	}
	var src string
	if in.Route == "lit" {
		// the literal is parsed with the script: a malformed literal is an early error of the whole script
		src = "(function(){ var re=" + newRE(in) + "; return __runAll(re," + arr + "); })()"
	} else {
		src = "(function(){ var re; try{ re=" + newRE(in) + "; }catch(e){ return ['throw', String(e.name)]; } return __runAll(re," + arr + "); })()"
	}
	out := ox.Run(v, src)
	if out.Panic != nil {
		c.Fail("panic", "RegExp:"+in.Op, in, "no Go panic", fmt.Sprint(out.Panic), out.Stack)
		vm = nil
		return nil, nil, "", false
	}
	if out.Err != nil {
		return nil, nil, "throw:" + errName(out.Err), true
	}
	toks, good := tokens(out.Val)
	if !good {
		c.Fail("mismatch", "RegExp:driver", in, "array of strings", out.String(), "")
		return nil, nil, "", false
	}
	if len(toks) == 2 && toks[0] == "throw" {
		return nil, nil, "throw:" + toks[1], true
	}
	cur := &cursor{t: toks}
	for range subs {
		m := cur.match()
		li := cur.value()
		if flag := cur.next(); flag != "ok" {
			m += flag
		}
		results = append(results, m)
		lis = append(lis, li)
	}
	if trip := cur.next(); trip != "src:ok" {
		// 15.10.4.1: the source property, written between slashes with the flags, reads back as an
		// expression that behaves identically (this is also what RegExp.prototype.toString returns, 15.10.6.4)
		c.Fail("mismatch", "RegExp:source-roundtrip", single(in, ""), "eval(String(re)) is a RegExp with the same source, flags and behaviour (15.10.4.1, 15.10.6.4)", trip, "")
	} else {
		c.Feature("source:reads-back")
	}
	if cur.bad || cur.pos != len(toks) {
		c.Fail("mismatch", "RegExp:driver", in, "well-formed result stream", fmt.Sprintf("%d tokens for %d subjects", len(toks), len(subs)), "")
		return nil, nil, "", false
	}
	return results, lis, "", true
}

func single(in Input, s string) Input {
	return Input{Op: in.Op, P: in.P, F: in.F, Route: in.Route, Subjects: []string{s}, Mut: in.Mut}
}

// spanOf extracts the overall match from a rendered exec result: "null" or
// "@index[m0" (index and matched substring, without the captures).
func spanOf(r string) string {
	if !strings.HasPrefix(r, "@") {
		return r
	}
	i := strings.Index(r, "[")
	if i < 0 {
		return r
	}
	rest := r[i+1:]
	if strings.HasPrefix(rest, `"`) {
		return r[:i+1+quotedEnd(rest)]
	}
	if j := strings.IndexAny(rest, ",]"); j >= 0 {
		return r[:i+1+j]
	}
	return r
}

// indexOf extracts "null" or "@index" from a rendered exec result.
func indexOf(r string) string {
	if i := strings.Index(r, "["); i >= 0 && strings.HasPrefix(r, "@") {
		return r[:i]
	}
	return r
}

// quotedEnd returns the index just after the quoted string r starts with.
func quotedEnd(r string) int {
	for j := 1; j < len(r); j++ {
		if r[j] == '\\' {
			j++
			continue
		}
		if r[j] == '"' {
			return j + 1
		}
	}
	return len(r)
}

// compareExec compares otto's exec results with the model on every subject.
func compareExec(c *run.Ctx, in Input, re *refre.Regexp, subs, results, lis []string, sitePrefix string) (matched int) {
	reported := 0
	for k, s := range subs {
		obj := refre.NewObject(re)
		r, err := obj.Exec(refre.Units(s))
		c.Eval(1)
		if err != nil {
			c.Inconclusive(fmt.Sprintf("model: %v on /%s/%s %q", err, in.P, in.F, s))
			return matched
		}
		if r != nil {
			matched++
		}
		exp, act := showExec(r), results[k]
		expLI, actLI := showLI(obj.LastIndex), lis[k]
		if exp == act && expLI == actLI {
			continue
		}
		if reported >= 40 {
			continue
		}
		reported++
		switch {
		case indexOf(exp) != indexOf(act):
			// whether and where the leftmost match starts
			c.Fail("mismatch", sitePrefix+"exec:index", single(in, s), exp, act, "")
		case spanOf(exp) != spanOf(act):
			c.Fail("mismatch", sitePrefix+"exec:span", single(in, s), exp, act, "")
		case exp != act:
			c.Fail("mismatch", sitePrefix+"exec:captures", single(in, s), exp, act, "")
		default:
			c.Fail("mismatch", sitePrefix+"exec:lastIndex", single(in, s), expLI, actLI, "after exec with lastIndex=0: "+exp)
		}
	}
	return matched
}

func checkMatch(c *run.Ctx, in Input) {
	cls, pat, perr := refre.Classify(in.P)
	if cls != refre.Portable {
		panic(fmt.Sprintf("match case with non-portable pattern %q: %v %v", in.P, cls, perr))
	}
	if !refre.ValidFlags(in.F) {
		panic("match case with invalid flags")
	}
	info := analyse(pat)
	accepted := transformStage(c, in)
	subs, std := subjectsOf(c, in)
	results, lis, thrown, ok := runAll(c, in, subs, std)
	if !ok {
		return
	}
	c.Sample(in)
	c.Feature("op:match")
	c.Feature("route:" + in.Route)
	c.Feature("flags:" + in.F)
	if thrown != "" {
		// (i) a pattern of the portable subset must be accepted and its translation must compile
		detail := "TransformRegExp accepted the text and Go regexp.Compile rejected the translation"
		if !accepted {
			detail = "rejected"
		}
		c.Fail("mismatch", "new RegExp:portable-rejected", single(in, ""), "a RegExp object (15.10.4.1: the text is a Pattern)", thrown, detail)
		return
	}
	if !accepted {
		c.Fail("mismatch", "TransformRegExp", single(in, ""), "accepted and compiling", "constructor succeeded but the direct translation is rejected or does not compile", "")
	}
	re := refre.Compile(pat, in.F, refre.Options{})
	matched := compareExec(c, in, re, subs, results, lis, "")
	// coverage
	_, feats := patternFeatures(pat, in.P)
	for _, f := range feats {
		c.Feature("construct:" + f)
	}
	if matched > 0 {
		c.Feature("subjects:some-matched")
	} else {
		c.Feature("subjects:none-matched")
	}
	inRegion := false
	for _, rg := range []struct {
		name string
		in   bool
	}{{"capture-in-loop", info.captureInLoop}, {"nullable-loop", info.nullableLoop}, {"empty-class", info.emptyClass}, {"repeat>1000", info.bigRepeat}} {
		if rg.in {
			c.Feature("region:in:" + rg.name)
			inRegion = true
		}
	}
	if inRegion {
		c.Feature("region:inside-some")
	} else {
		c.Feature("region:outside-all")
	}
	if len(feats) >= 2 {
		c.Nontrivial("match|" + in.P + "|" + in.F)
	}
}

// patternFeatures lists the distinct constructs of a parsed pattern.
func patternFeatures(p *refre.Pattern, src string) (map[string]bool, []string) {
	fs := map[string]bool{}
	walk(p.Root, func(n *refre.Node) {
		switch n.Kind {
		case refre.KChar:
			fs["char"] = true
		case refre.KDot:
			fs["dot"] = true
		case refre.KClass:
			fs["class"] = true
			if n.Invert {
				fs["class-negated"] = true
			}
		case refre.KGroup:
			fs["group"] = true
		case refre.KNCGroup:
			fs["nc-group"] = true
		case refre.KLookahead:
			fs["lookahead"] = true
		case refre.KBackref:
			fs["backref"] = true
		case refre.KBegin:
			fs["^"] = true
		case refre.KEnd:
			fs["$"] = true
		case refre.KWordB:
			fs[`\b`] = true
		case refre.KNotWordB:
			fs[`\B`] = true
		case refre.KAlt:
			fs["alternation"] = true
		case refre.KRepeat:
			if n.Greedy {
				fs["quantifier"] = true
			} else {
				fs["lazy-quantifier"] = true
			}
			if n.Max > 1 && n.Max != n.Min || n.Min > 1 {
				fs["counted"] = true
			}
		}
	})
	for _, e := range []string{`\d`, `\D`, `\w`, `\W`, `\s`, `\S`, `\x`, `\u`, `\c`, `\0`, `\n`, `\t`, `\v`, `\f`, `\r`} {
		if strings.Contains(src, e) {
			fs["esc:"+e] = true
		}
	}
	var out []string
	for f := range fs {
		out = append(out, f)
	}
	sort.Strings(out)
	return fs, out
}

// ------------------------------------------------------------ class: hostile texts

func checkClass(c *run.Ctx, in Input) {
	cls, pat, perr := refre.Classify(in.P)
	flagsOK := refre.ValidFlags(in.F)
	transformStage(c, in)
	subs, _ := subjectsOf(c, in)
	if in.Route == "lit" && (!litSafe(in.P) && !litParsable(in.P)) {
		in.Route = "ctor"
	}
	results, lis, thrown, ok := runAll(c, in, subs, "")
	if !ok {
		return
	}
	c.Sample(in)
	c.Feature("op:class")
	c.Feature("class:" + cls.String())
	c.Feature("mutation:" + in.Mut)
	if cls != refre.Portable || !flagsOK {
		c.Nontrivial("class|" + in.P + "|" + in.F + "|" + in.Route)
	}
	what := cls.String()
	if !flagsOK {
		what = "invalid-flags"
	}
	c.Feature("outcome:" + what + ":" + map[bool]string{true: "throws", false: "accepted"}[thrown != ""])
	switch {
	case !flagsOK:
		// 15.10.4.1: "If F contains any character other than "g", "i", or "m", or if it contains
		// the same character more than once, then throw a SyntaxError exception."
		if thrown != "throw:SyntaxError" {
			c.Fail("mismatch", "new RegExp:flags", in, "throw:SyntaxError (15.10.4.1)", orAccepted(thrown), "")
		}
	case cls == refre.Malformed:
		// 15.10.4.1: "If the characters of P do not have the syntactic form Pattern, then throw a SyntaxError"
		if thrown != "throw:SyntaxError" {
			c.Fail("mismatch", "new RegExp:malformed", in, "throw:SyntaxError (15.10.4.1 / 15.10.2 early error: "+perr.Error()+")", orAccepted(thrown), "")
		}
	case cls == refre.Unsupported:
		// valid ES5; otto documents look-ahead and back-references as unsupported: any error, never a mistranslation
		if thrown == "" {
			c.Fail("mismatch", "new RegExp:unsupported-accepted", in, "an error (documented limitation)", "accepted", "")
		}
	case cls == refre.Extension:
		if thrown != "" {
			if thrown != "throw:SyntaxError" {
				c.Fail("mismatch", "new RegExp:malformed", in, "throw:SyntaxError (not an ES5.1 Pattern: "+perr.Error()+") or web-compat matching", thrown, "")
			}
			return
		}
		if pat.HasLookahead || pat.HasBackref {
			c.Fail("mismatch", "new RegExp:unsupported-accepted", in, "an error", "accepted", "")
			return
		}
		re := refre.Compile(pat, in.F, refre.Options{})
		compareExec(c, in, re, subs, results, lis, "ext:")
	default: // portable (a mutation that happened to stay portable)
		if thrown != "" {
			c.Fail("mismatch", "new RegExp:portable-rejected", in, "a RegExp object", thrown, "")
			return
		}
		re := refre.Compile(pat, in.F, refre.Options{})
		compareExec(c, in, re, subs, results, lis, "")
	}
}

// litParsable: hostile texts may still be written as literals when they have
// no raw '/' and no line terminators (unbalanced brackets are the point).
func litParsable(p string) bool {
	if p == "" || p[0] == '*' || strings.HasSuffix(p, `\`) {
		return false
	}
	for i := 0; i < len(p); i++ {
		if p[i] < 0x20 || p[i] > 0x7e || p[i] == '/' || p[i] == '[' {
			return false
		}
	}
	return true
}

func orAccepted(thrown string) string {
	if thrown == "" {
		return "accepted"
	}
	return thrown
}

// ------------------------------------------------------------ histories

func limSrc(l *gen.F) string {
	if l == nil {
		return ""
	}
	return "," + ox.JSNum(float64(*l))
}

func checkHist(c *run.Ctx, in Input) {
	cls, pat, _ := refre.Classify(in.P)
	if cls != refre.Portable || !refre.ValidFlags(in.F) {
		panic("hist case needs a portable pattern and valid flags")
	}
	v := theVM()
	var b strings.Builder
	b.WriteString("(function(){ var out=[]; var re; try{ re=" + newRE(in) + "; }catch(e){ return ['throw', String(e.name)]; }\n")
	for _, st := range in.Steps {
		s := ox.JSStr(st.S)
		var op string
		switch st.Op {
		case "exec":
			op = "__pushM(out, re.exec(" + s + "))"
		case "test":
			op = "__pushV(out, re.test(" + s + "))"
		case "setli":
			op = "re.lastIndex=" + st.LI + "; out.push('set')"
		case "match":
			op = "var r=" + s + ".match(re); if(re.global) __pushA(out,r); else __pushM(out,r)"
		case "replace":
			op = "__pushV(out, " + s + ".replace(re," + ox.JSStr(st.Tpl) + "))"
		case "replacefn":
			op = "__fnlog=[]; __pushV(out, " + s + ".replace(re,__fn)); __pushA(out,__fnlog)"
		case "search":
			op = "__pushV(out, " + s + ".search(re))"
		case "split":
			op = "__pushA(out, " + s + ".split(re" + limSrc(st.Lim) + "))"
		case "replaceStr":
			op = "__pushV(out, " + s + ".replace(" + ox.JSStr(st.Q) + "," + ox.JSStr(st.Tpl) + "))"
		case "replaceStrFn":
			op = "__fnlog=[]; __pushV(out, " + s + ".replace(" + ox.JSStr(st.Q) + ",__fn)); __pushA(out,__fnlog)"
		case "splitStr":
			op = "__pushA(out, " + s + ".split(" + ox.JSStr(st.Q) + limSrc(st.Lim) + "))"
		default:
			panic("unknown step " + st.Op)
		}
		b.WriteString("out.push('#'); try{ " + op + "; }catch(e){ out.push('throw'); out.push(String(e.name)); } __pushV(out, re.lastIndex);\n")
	}
	b.WriteString("return out; })()")
	out := ox.Run(v, b.String())
	if out.Panic != nil {
		c.Fail("panic", "RegExp:hist", in, "no Go panic", fmt.Sprint(out.Panic), out.Stack)
		vm = nil
		return
	}
	if out.Err != nil {
		c.Fail("mismatch", "new RegExp:portable-rejected", in, "script completes", "throw:"+errName(out.Err), fmt.Sprint(out.Err))
		return
	}
	toks, good := tokens(out.Val)
	if !good {
		c.Fail("mismatch", "RegExp:driver", in, "array of strings", out.String(), "")
		return
	}
	if len(toks) == 2 && toks[0] == "throw" {
		c.Fail("mismatch", "new RegExp:portable-rejected", in, "a RegExp object", "throw:"+toks[1], "")
		return
	}
	c.Sample(in)
	c.Feature("op:hist")
	c.Feature("flags:" + in.F)
	c.Feature(fmt.Sprintf("hist:len:%d", len(in.Steps)))

	obj := refre.NewObject(refre.Compile(pat, in.F, refre.Options{}))
	cur := &cursor{t: toks}
	stateful := false
	var eff []Step // the steps so far, plus resynchronisation writes
	for k, st := range in.Steps {
		if cur.next() != "#" {
			c.Fail("mismatch", "RegExp:driver", in, "step marker", "desynchronised result stream", "")
			return
		}
		c.Eval(1)
		c.Feature("step:" + st.Op)
		su := refre.Units(st.S)
		var exp, act string
		compare := true
		var merr error
		switch st.Op {
		case "exec":
			r, err := obj.Exec(su)
			merr = err
			exp, act = showExec(r), peekThrow(cur, cur.match)
			stateful = true
		case "test":
			r, err := obj.Test(su)
			merr = err
			exp, act = fmt.Sprint(r), peekThrow(cur, cur.value)
			stateful = true
		case "setli":
			obj.LastIndex = parseLI(st.LI)
			exp, act = "set", cur.next()
			stateful = true
		case "match":
			one, all, err := obj.Match(su)
			merr = err
			if obj.Re.Global {
				exp = "null"
				if all != nil {
					parts := make([]string, len(all))
					for i, a := range all {
						parts[i] = ox.Units(a)
					}
					exp = "[" + strings.Join(parts, ",") + "]"
				}
				act = peekThrow(cur, cur.array)
			} else {
				exp, act = showExec(one), peekThrow(cur, cur.match)
			}
			compare = !obj.Ambiguous
		case "replace":
			r, err := obj.Replace(su, refre.Replacer{Template: refre.Units(st.Tpl)})
			merr = err
			exp, act = ox.Units(r), peekThrow(cur, cur.value)
			compare = !obj.Ambiguous && !obj.ImplDefined
			if obj.ImplDefined {
				c.Note("replace-$n-implementation-defined")
			}
		case "replacefn", "replaceStrFn":
			var log []refre.Cap
			fn := fnReplacer(&log)
			var r []uint16
			if st.Op == "replacefn" {
				r, merr = obj.Replace(su, refre.Replacer{Fn: fn})
				compare = !obj.Ambiguous
			} else {
				r, _ = refre.ReplaceString(su, refre.Units(st.Q), refre.Replacer{Fn: fn})
			}
			exp = ox.Units(r) + " calls=" + showCaps(log)
			act = peekThrow(cur, func() string { return cur.value() + " calls=" + cur.array() })
		case "search":
			r, err := obj.Search(su)
			merr = err
			exp, act = fmt.Sprint(r), peekThrow(cur, cur.value)
		case "split", "splitStr":
			var lim *float64
			if st.Lim != nil {
				f := float64(*st.Lim)
				lim = &f
			}
			sep := refre.Separator{Re: obj.Re}
			if st.Op == "splitStr" {
				sep = refre.Separator{Str: refre.Units(st.Q)}
			}
			r, err := refre.Split(su, sep, lim)
			merr = err
			exp, act = showCaps(r), peekThrow(cur, cur.array)
		case "replaceStr":
			r, impl := refre.ReplaceString(su, refre.Units(st.Q), refre.Replacer{Template: refre.Units(st.Tpl)})
			exp, act = ox.Units(r), peekThrow(cur, cur.value)
			compare = !impl
		}
		actLI := cur.value()
		if merr != nil {
			c.Inconclusive(fmt.Sprintf("model: %v in history on /%s/%s", merr, in.P, in.F))
			return
		}
		if cur.bad {
			c.Fail("mismatch", "RegExp:driver", in, "well-formed result stream", "truncated", "")
			return
		}
		site := "hist:" + st.Op
		eff = append(eff, st)
		prefix := in
		prefix.Steps = append([]Step(nil), eff...)
		if !compare {
			// the result is not comparable (ES5.1 8.f ambiguity / implementation-defined $n);
			// the state afterwards is
			c.Note("es5-8f-ambiguous-or-impl-defined")
		} else if exp != act {
			c.Fail("mismatch", site, prefix, exp, act, fmt.Sprintf("step %d result", k))
		}
		if expLI := showLI(obj.LastIndex); expLI != actLI {
			c.Fail("mismatch", site+":lastIndex", prefix, expLI, actLI, fmt.Sprintf("lastIndex after step %d (result %s)", k, exp))
			// resynchronise the model with the observed state so that the rest of the history is
			// still checked: in otto "re.lastIndex = <its current value>" is a no-op, in the model
			// it adopts the observed state; the inserted step keeps reported inputs self-contained
			v, ok := parseObservedLI(actLI)
			if !ok {
				return
			}
			obj.LastIndex = v
			eff = append(eff, Step{Op: "setli", LI: liSource(v)})
			c.Feature("hist:resynchronised")
		}
	}
	if cur.pos != len(toks) {
		c.Fail("mismatch", "RegExp:driver", in, "well-formed result stream", "trailing tokens", "")
	}
	if len(in.Steps) >= 2 && stateful {
		b, _ := json.Marshal(in.Steps)
		c.Nontrivial("hist|" + in.P + "|" + in.F + "|" + string(b))
	}
}

// parseObservedLI reads back a rendered lastIndex value.
func parseObservedLI(s string) (refre.JSVal, bool) {
	if strings.HasPrefix(s, `"`) && strings.HasSuffix(s, `"`) && len(s) >= 2 {
		body := s[1 : len(s)-1]
		if strings.ContainsAny(body, `\"`) {
			return refre.JSVal{}, false
		}
		return refre.JSVal{IsStr: true, S: body}, true
	}
	switch s {
	case "NaN", "Infinity", "1.5":
		return parseLI(s), true
	}
	if n := atoi(strings.TrimPrefix(s, "-")); n >= 0 {
		return parseLI(s), true
	}
	return refre.JSVal{}, false
}

// liSource is the JS source (in the setli language) of a lastIndex value.
func liSource(v refre.JSVal) string {
	if v.IsStr {
		return `"` + v.S + `"`
	}
	return jsNum(v.N)
}

// peekThrow renders "throw:Name" if the step threw, else decodes with f.
func peekThrow(cur *cursor, f func() string) string {
	if cur.pos < len(cur.t) && cur.t[cur.pos] == "throw" {
		cur.pos++
		return "throw:" + cur.next()
	}
	return f()
}
