// Package c17 monitors Otto.Copy(): the copy must be observationally
// equivalent to the original (and to a fresh runtime that replayed the same
// history), and afterwards the two must be isolated in both directions, also
// for copies of copies. The oracle is a canonical heap dump written in
// JavaScript (identical program on every runtime) plus a reflection walk that
// looks for mutable Go heap nodes reachable from both runtimes.
package c17

import (
	"encoding/json"
	"fmt"
	"reflect"
	"sort"
	"strings"

	"github.com/robertkrimen/otto"

	"verif/internal/gen"
	"verif/internal/gt"
	"verif/internal/ox"
	"verif/internal/pgen"
	"verif/internal/run"
)

// Input is one self-contained case.
type Input struct {
	H  []string `json:"h"`  // setup programs
	M  []string `json:"m"`  // mutation applied to the copy
	M2 []string `json:"m2"` // mutation applied to the original afterwards
	M3 []string `json:"m3"` // mutation applied to the copy of the copy
}

func init() {
	run.Register(&run.Check{
		ID:   "C17",
		Rule: "each case builds a heap with a fixed rich prelude (closures over counters, accessors closing over state, frozen/sealed/non-extensible objects, bound functions, a stored arguments object aliasing parameters, a closure created inside with, named function expressions, Date/RegExp with lastIndex/Error/boxed primitives, modified built-ins) plus a generated program, then: dump(orig) = dump(Copy) = dump(fresh runtime replaying H); after mutation M on the copy: dump(orig) unchanged and dump(copy) = dump(fresh replaying H;M); after M2 on the original: dump(copy) unchanged; the same one level down for a copy of the copy; plus a reflection walk of both runtimes whose shared pointers must all be of immutable types. Non-trivial = M changed the dump of the side it ran on; distinct by (H, M, M2, M3)",
		Assumptions: []string{
			"observation = a canonical breadth-first dump (own property names in order, full descriptors, prototype identity, extensibility, class, function length/source, probe-closure results) computed by the same JavaScript on every runtime",
			"closure environments of Go native functions are invisible to reflection; they are covered only behaviourally (f.caller, e.stack are not dumped)",
			"bridged Go values are shared by design and are not part of the workload",
		},
		Floor: func(tier string) int {
			if tier == "thorough" {
				return 15000
			}
			return 200
		},
		Cases: func(tier string, seed uint64) int {
			if tier == "thorough" {
				return 30000
			}
			return 320
		},
		Exec: func(c *run.Ctx, i int) { checkOne(c, generate(c.Rng)) },
		Replay: func(c *run.Ctx, raw json.RawMessage) {
			var in Input
			if err := json.Unmarshal(raw, &in); err != nil {
				panic(err)
			}
			checkOne(c, in)
		},
	})
	registerMatchers()
}

const dumper = `
var $log = [];
function log(){ $log.push(Array.prototype.slice.call(arguments).join(",")) }
var $probes = [];
var $dump = (function(){
  var gopn = Object.getOwnPropertyNames, gopd = Object.getOwnPropertyDescriptor, gpo = Object.getPrototypeOf,
      isExt = Object.isExtensible, cls = Object.prototype.toString, fts = Function.prototype.toString, call = Function.prototype.call,
      dateValue = Date.prototype.valueOf, numValue = Number.prototype.valueOf, strValue = String.prototype.valueOf, boolValue = Boolean.prototype.valueOf;
  return function(root){
    var seen = [], out = [];
    $idreset();
    function ref(v){
      var t = typeof v;
      if (v === null) return "null";
      if (t === "undefined") return "undefined";
      if (t === "number") return v !== v ? "n:NaN" : (v === 0 && 1/v < 0) ? "n:-0" : "n:" + v;
      if (t === "string") return "s:" + JSON.stringify(v);
      if (t === "boolean") return "b:" + v;
      var i = $id(v);            // host-side identity table: ordinal of first visit, O(1)
      if (i === seen.length) seen.push(v);
      return "#" + i;
    }
    ref(root);
    for (var p = 0; p < $probes.length; p++) {
      var r; try { r = ref($probes[p]()) } catch (e) { r = "throw:" + (e && e.name) }
      out.push("probe" + p + "=" + r);
    }
    for (var i = 0; i < seen.length; i++) {
      var o = seen[i], line = "#" + i + " " + cls.call(o) + (isExt(o) ? " ext" : " noext") + " proto=" + ref(gpo(o));
      if (typeof o === "function") { var src; try { src = fts.call(o) } catch (e) { src = "?" } line += " fn=" + (src.length > 80 ? src.length + ":" + src.slice(0, 80) : src) }
      var c = cls.call(o);
      try {
        if (c === "[object Date]") line += " date=" + ref(dateValue.call(o));
        if (c === "[object Number]") line += " prim=" + ref(numValue.call(o));
        if (c === "[object String]") line += " prim=" + ref(strValue.call(o));
        if (c === "[object Boolean]") line += " prim=" + ref(boolValue.call(o));
      } catch (e) { line += " prim=throw" }
      var names = gopn(o);
      for (var k = 0; k < names.length; k++) {
        var n = names[k];
        if (n === "caller" || n === "stack") continue;
        var d = gopd(o, n);
        if (!d) { line += " " + JSON.stringify(n) + ":missing"; continue }
        line += " " + JSON.stringify(n) + ":" + (d.enumerable ? "e" : "-") + (d.configurable ? "c" : "-");
        if ("value" in d) line += (d.writable ? "w" : "-") + "=" + ref(d.value);
        else line += " get=" + ref(d.get) + " set=" + ref(d.set);
      }
      out.push(line);
    }
    return out.join("\n");
  };
})();
`

// intrinsics: objects the runtime creates by itself (literals, results of
// built-ins, errors it raises) must get the prototypes of THIS runtime, i.e.
// the objects its own constructors show. A copy keeps a second, internal table
// of these prototypes; it must match the script-visible one slot by slot.
const intrinsics = `
$probes.push((function(){
  var gpo = Object.getPrototypeOf, ev = eval, dec = decodeURIComponent, parse = JSON.parse, exec = RegExp.prototype.exec, bind = Function.prototype.bind,
      ctor = { Object: Object, Array: Array, Function: Function, RegExp: RegExp, Date: Date, String: String, Number: Number, Boolean: Boolean, Error: Error,
               TypeError: TypeError, ReferenceError: ReferenceError, RangeError: RangeError, SyntaxError: SyntaxError, URIError: URIError, EvalError: EvalError };
  function raised(f){ try { f() } catch (e) { return e } return null }
  var made = [
    ["Object", function(){ return {} }], ["Array", function(){ return [] }], ["Function", function(){ return function(){} }], ["RegExp", function(){ return /x/ }],
    ["Object", function(){ return parse('{"a":[1]}') }], ["Array", function(){ return parse('[1]') }], ["Array", function(){ return exec.call(/a/, "a") }],
    ["Array", function(){ return "a,b".split(",") }], ["Array", function(){ return [1].concat([2]) }], ["Array", function(){ return Object.keys({a:1}) }],
    ["Function", function(){ return bind.call(function(){}, null) }], ["Function", function(){ return Function("return 1") }], ["Object", function(){ return (function(){ return arguments })() }],
    ["Object", function(){ return Object.getOwnPropertyDescriptor({a:1}, "a") }], ["Object", function(){ return new (function F(){}) && Object.create(Object.prototype) }],
    ["String", function(){ return Object("s") }], ["Number", function(){ return Object(1) }], ["Boolean", function(){ return Object(true) }], ["Date", function(){ return new Date(0) }],
    ["TypeError", function(){ return raised(function(){ null.x }) }], ["TypeError", function(){ return raised(function(){ undefined() }) }],
    ["ReferenceError", function(){ return raised(function(){ undeclared$variable }) }], ["RangeError", function(){ return raised(function(){ new Array(-1) }) }],
    ["RangeError", function(){ return raised(function(){ (1).toFixed(101) }) }], ["SyntaxError", function(){ return raised(function(){ ev("(") }) }],
    ["SyntaxError", function(){ return raised(function(){ Function("(") }) }], ["SyntaxError", function(){ return raised(function(){ parse("{") }) }],
    ["SyntaxError", function(){ return raised(function(){ new RegExp("(") }) }], ["URIError", function(){ return raised(function(){ dec("%") }) }],
    ["Error", function(){ return new Error("e") }], ["EvalError", function(){ return new EvalError("e") }], ["TypeError", function(){ return TypeError("t") }], ["URIError", function(){ return new URIError("u") }]
  ];
  return function(){
    var out = [];
    for (var i = 0; i < made.length; i++) {
      var r; try { var o = made[i][1](); r = o === null || o === undefined ? "none" : (gpo(o) === ctor[made[i][0]].prototype ? "ok" : "FOREIGN-PROTOTYPE") } catch (e) { r = "throw:" + (e && e.name) }
      out.push(i + ":" + made[i][0] + ":" + r);
    }
    return out.join(" ");
  };
})());
`

const prelude = `
var counter = (function(){ var n = 0; return { inc: function(){ return ++n }, get: function(){ return n } } })();
$probes.push(counter.get);
var state = 1;
var acc = { get x(){ return state }, set x(v){ state = v }, plain: 1 };
var setOnly = Object.defineProperty({ hits: 0, set lit(v){ this.hits += v } }, "viaDefine", { set: function(v){ this.hits += 2 * v }, enumerable: true, configurable: true });
var getOnly = Object.defineProperty({ get g(){ return state + 1 } }, "viaDefine", { get: function(){ return state + 2 }, configurable: true });
$probes.push(function(){ return state });
var frozen = Object.freeze({ a: 1, inner: { b: 2 } });
var sealed = Object.seal({ x: 1 });
var noext = Object.preventExtensions({ y: 1 });
var holder = { p: 1, q: 2 };
Object.defineProperty(holder, "hidden", { value: [1, 2], enumerable: false, writable: false, configurable: true });
function target(a, b){ return [this && this.tag, a, b].join("/") }
var bound = target.bind({ tag: "T" }, "A");
$probes.push(function(){ return bound("B") });
var args = (function(a, b){ return arguments })(1, 2);
var argsFn = (function(a, b){ var ar = arguments; return { set: function(v){ a = v }, get: function(){ return ar[0] }, setArg: function(v){ ar[1] = v }, getB: function(){ return b }, del: function(i){ return delete ar[i] }, getA: function(){ return a } } })(10, 20);
$probes.push(argsFn.get); $probes.push(argsFn.getB); $probes.push(argsFn.getA); $probes.push(function(){ return argsFn.get() + "/" + argsFn.getA() });
var evalScope = (function(){ eval("var ex = 41; function ef(){ return 'h' }"); var plainLocal = 1; return { del: function(){ return [delete ex, delete plainLocal].join() }, delF: function(){ return delete ef }, get: function(){ return typeof ex + "," + typeof ef + "," + typeof plainLocal } } })();
$probes.push(evalScope.get);
var withFn; with ({ w: 5 }) { withFn = function(){ return w++ } }
$probes.push(function(){ return withFn() - 1 === undefined ? 0 : 0 });
var nfe = function fact(n){ return n <= 1 ? 1 : n * fact(n - 1) };
var date = new Date(86400000);
var re = /a(b)?/g; re.lastIndex = 1;
var err = new TypeError("te"); err.extra = { deep: [1, { x: 2 }] };
var boxed = new String("boxed"); boxed.prop = 1;
var num = new Number(7), bool = new Boolean(false);
var protoParent = { inherited: 1, shadowed: 1 };
var child = Object.create(protoParent, { own: { value: 1, enumerable: true, writable: true, configurable: true } }); child.shadowed = 2;
var nested = { a: { b: { c: [1, 2, { d: 3 }] } } };
var arr = [1, , 3]; arr.extra = "x";
var cyc = { name: "cyc" }; cyc.self = cyc; cyc.list = [cyc];
var removable = 1;
var argParam = (function(arguments){ return function(){ return typeof arguments + ":" + arguments } })(5);
$probes.push(argParam);
function calleeC(){ return [calleeC.caller === outerC, typeof calleeC.caller, calleeC.arguments === null || typeof calleeC.arguments].join() }
function outerC(){ return calleeC() }
$probes.push(outerC); $probes.push(function(){ return calleeC.caller === null });
$probes.push(function(){ return [typeof eval, (0, eval)("1+1"), (function(){ var loc = 3; return eval("loc") })()].join() });
Array.prototype.extra = function(){ return "extra" };
delete String.prototype.trim;
Object.keys = function(o){ return ["patched"] };
Math.custom = 42;
`

var mutations = []string{
	"counter.inc();", "counter.inc(); counter.inc();", "acc.x = 5;", "acc.plain = 2;", "frozen.a = 9;", "frozen.inner.b = 3;", "sealed.x = 2;", "sealed.z = 1;", "noext.y = 2;",
	"delete holder.p;", "holder.r = {n: 1};", "Object.defineProperty(holder, 'q', {value: 1, enumerable: false});", "Object.defineProperty(holder, 'hidden', {value: 'v2'});", "Object.freeze(holder);",
	"bound.extra = 1;", "target.prototype.m = 1;", "args[0] = 'changed';", "argsFn.set('S');", "argsFn.setArg('T');", "argsFn.del(0);", "argsFn.del(1);", "argsFn.del(0); argsFn.set('U');", "evalScope.del();", "evalScope.delF();", "log(evalScope.del(), evalScope.get());", "delete args[0];", "delete args[1]; args[1] = 'readded';", "withFn();", "nfe.memo = nfe(4);",
	"date.setTime(5);", "re.lastIndex = 2;", "re.exec('abab');", "err.message = 'm2';", "err.extra.deep[1].x = 3;", "boxed.prop = 2;", "num.tag = 1;",
	"protoParent.inherited = 2;", "protoParent.added = 1;", "child.own = 2;", "delete child.shadowed;", "Object.getPrototypeOf(child).viaChild = 1;",
	"nested.a.b.c[2].d = 4;", "nested.a.b = null;", "arr.length = 1;", "arr.push(9);", "arr[1] = 2;", "cyc.name = 'renamed';", "cyc.list.push(1);",
	"delete removable;", "G2 = 5;", "var declaredLater = {k: 1};", "state = 99;",
	"Array.prototype.extra = 1;", "delete Array.prototype.extra;", "Array.prototype.second = function(){};", "String.prototype.trim = function(){ return 't' };", "Object.keys = 3;", "Math.custom = 43;", "delete Math.custom;", "Object.prototype.polluted = 1;",
	"Object.defineProperty(Object.prototype, 'acc2', {get: function(){ return 1 }, configurable: true});", "Function.prototype.fp = 1;", "JSON.extra = [1];", "Error.prototype.name = 'Renamed';",
	"delete eval;", "eval = function(){ return 'fake' };", "var keepEval = eval; delete eval; log(keepEval('2+2'));", "Function.prototype.call = function(){ return 'patched' };", "delete Function.prototype.bind;",
	"$probes.push(function(){ return 123 });", "log('mutated', state);", "counter = null;", "acc = {replaced: true};",
	"setOnly.lit = 1; setOnly.viaDefine = 2; log(setOnly.hits, setOnly.lit, getOnly.g, getOnly.viaDefine);", "Object.defineProperty(setOnly, 'lit', {get: function(){ return 1 }}); getOnly.g = 5; log(setOnly.lit, getOnly.g);", "Object.defineProperty(getOnly, 'viaDefine', {set: function(v){ state = v }}); getOnly.viaDefine = 7;",
}

func generate(r *gen.Rand) Input {
	pick := func(n int) []string {
		var out []string
		for i := 0; i < n; i++ {
			out = append(out, mutations[r.Intn(len(mutations))])
		}
		return out
	}
	in := Input{H: []string{prelude}}
	if r.Chance(2, 3) {
		g := pgen.NewG(r)
		g.NoEval = r.Bool()
		p := g.Program()
		src, _ := gt.RenderStyle(p, gt.Style{})
		in.H = append(in.H, src)
	}
	in.M = pick(r.Range(1, 4))
	in.M2 = pick(r.Range(1, 3))
	in.M3 = pick(r.Range(1, 3))
	return in
}

// identity table shared by all runtimes of this worker: object pointer ->
// ordinal of first visit within the current dump.
var idTable = map[uintptr]int{}

func objectPointer(v otto.Value) uintptr {
	// Value{kind, value interface{}}: the payload of an object value is a
	// pointer to the internal object; reading a pointer through reflection is
	// allowed on unexported fields.
	f := reflect.ValueOf(v).FieldByName("value")
	if f.Kind() == reflect.Interface && !f.IsNil() && f.Elem().Kind() == reflect.Ptr {
		return f.Elem().Pointer()
	}
	return 0
}

func newVM() *otto.Otto {
	vm := otto.New()
	vm.Set("$idreset", func(call otto.FunctionCall) otto.Value {
		idTable = map[uintptr]int{}
		return otto.UndefinedValue()
	})
	vm.Set("$id", func(call otto.FunctionCall) otto.Value {
		p := objectPointer(call.Argument(0))
		if p == 0 {
			panic("c17: $id of a non-object")
		}
		i, ok := idTable[p]
		if !ok {
			i = len(idTable)
			idTable[p] = i
		}
		v, _ := otto.ToValue(i)
		return v
	})
	if _, err := vm.Run(dumper + intrinsics); err != nil {
		panic("dumper does not load: " + err.Error())
	}
	return vm
}

func runAll(vm *otto.Otto, progs []string) {
	for _, p := range progs {
		// programs may end in an uncaught exception: that is part of the history
		ox.Run(vm, p)
	}
}

func dump(vm *otto.Otto) string {
	out := ox.Run(vm, "$dump(this)")
	if out.Panic != nil {
		return "DUMP-PANIC: " + fmt.Sprint(out.Panic)
	}
	if out.Err != nil {
		return "DUMP-ERROR: " + out.Err.Error()
	}
	return out.Val.String()
}

func fresh(progs ...[]string) string {
	vm := newVM()
	for _, p := range progs {
		runAll(vm, p)
	}
	return dump(vm)
}

func diff(a, b string) string {
	x, y := strings.Split(a, "\n"), strings.Split(b, "\n")
	for i := 0; i < len(x) || i < len(y); i++ {
		var l, m string
		if i < len(x) {
			l = x[i]
		}
		if i < len(y) {
			m = y[i]
		}
		if l != m {
			j := 0
			for j < len(l) && j < len(m) && l[j] == m[j] {
				j++
			}
			lo := j - 60
			if lo < 0 {
				lo = 0
			}
			cut := func(s string) string {
				hi := j + 80
				if hi > len(s) {
					hi = len(s)
				}
				if lo > len(s) {
					return ""
				}
				return s[lo:hi]
			}
			return fmt.Sprintf("line %d col %d: expected …%s… got …%s…", i, j, cut(l), cut(m))
		}
	}
	return ""
}

func checkOne(c *run.Ctx, in Input) {
	c.Announce(in)
	fail := func(site, exp, act string) {
		c.Fail("mismatch", site, in, clipD(exp), clipD(act), diff(exp, act))
	}
	orig := newVM()
	runAll(orig, in.H)
	d0 := dump(orig)
	if strings.HasPrefix(d0, "DUMP-") {
		c.Inconclusive("dump of the original failed: " + d0)
		return
	}
	var cp *otto.Otto
	if pv, st := run.Guard(func() { cp = orig.Copy() }); pv != nil {
		c.Fail("panic", "Copy", in, "a copy", fmt.Sprint(pv), st)
		return
	}
	c.Eval(8)
	// equivalence
	if d := dump(cp); d != d0 {
		fail("equivalence:copy", d0, d)
		return
	}
	if d := fresh(in.H); d != d0 {
		// the workload itself is not deterministic: cannot judge
		c.Inconclusive("replay of H on a fresh runtime differs from the original: " + diff(d0, d))
		return
	}
	if d := dump(orig); d != d0 {
		fail("isolation:copy-disturbs-original", d0, d)
	}
	// mutate the copy
	runAll(cp, in.M)
	dCopy := dump(cp)
	if d := dump(orig); d != d0 {
		fail("isolation:copy->original", d0, d)
	}
	if want := fresh(in.H, in.M); dCopy != want {
		fail("equivalence:copy-after-mutation", want, dCopy)
	}
	// mutate the original
	runAll(orig, in.M2)
	if d := dump(cp); d != dCopy {
		fail("isolation:original->copy", dCopy, d)
	}
	if want, got := fresh(in.H, in.M2), dump(orig); got != want {
		fail("equivalence:original-after-mutation", want, got)
	}
	// copy of the copy
	var cc *otto.Otto
	if pv, st := run.Guard(func() { cc = cp.Copy() }); pv != nil {
		c.Fail("panic", "Copy(copy)", in, "a copy", fmt.Sprint(pv), st)
		return
	}
	if d := dump(cc); d != dCopy {
		fail("equivalence:copy-of-copy", dCopy, d)
	}
	runAll(cc, in.M3)
	if d := dump(cp); d != dCopy {
		fail("isolation:copy-of-copy->copy", dCopy, d)
	}
	if want, got := fresh(in.H, in.M, in.M3), dump(cc); got != want {
		fail("equivalence:copy-of-copy-after-mutation", want, got)
	}
	// structural sharing
	if shared := sharedMutable(orig, cp); len(shared) > 0 {
		c.Fail("mismatch", "sharing:orig/copy", in, "no mutable heap node reachable from both runtimes", strings.Join(shared, "; "), "")
	}
	if shared := sharedMutable(cp, cc); len(shared) > 0 {
		c.Fail("mismatch", "sharing:copy/copy-of-copy", in, "no mutable heap node reachable from both runtimes", strings.Join(shared, "; "), "")
	}
	if dCopy != d0 {
		b, _ := json.Marshal([][]string{in.M, in.M2, in.M3})
		c.Nontrivial(fmt.Sprintf("%x|%s", gen.HashString(strings.Join(in.H, "\n")), b))
	}
	c.FeatureN("dump-lines", strings.Count(d0, "\n")+1)
	if c.Index%53 == 0 {
		c.Sample(map[string]interface{}{"m": in.M, "m2": in.M2, "m3": in.M3, "h_programs": len(in.H), "dump_lines": strings.Count(d0, "\n") + 1})
	}
}

func clipD(s string) string {
	if len(s) > 600 {
		return s[:600] + "…"
	}
	return s
}

// ---------------------------------------------------------------- reflection walk

// immutable: types whose instances may be shared between runtimes.
func immutableType(t string) bool {
	switch {
	case strings.HasPrefix(t, "*otto.node"), strings.HasPrefix(t, "[]otto.node"), strings.HasPrefix(t, "*file."), strings.HasPrefix(t, "*regexp."), strings.HasPrefix(t, "*syntax."), strings.HasPrefix(t, "[]*syntax."),
		strings.HasPrefix(t, "*otto.objectClass"), t == "[]otto.frame" /* an Error's recorded trace is never modified after construction */, strings.HasPrefix(t, "*sync."), strings.HasPrefix(t, "*time."), strings.HasPrefix(t, "[]time."), strings.HasPrefix(t, "*sourcemap."),
		strings.HasPrefix(t, "[]syntax."), strings.HasPrefix(t, "[]regexp."), strings.HasPrefix(t, "*ast."), strings.HasPrefix(t, "[]uint8"), strings.HasPrefix(t, "[]uint32"), strings.HasPrefix(t, "[]uint16"), strings.HasPrefix(t, "[]rune"), strings.HasPrefix(t, "[]int32"):
		return true
	}
	return false
}

func reach(root interface{}) map[uintptr]string {
	seen := map[uintptr]string{}
	var walk func(v reflect.Value, depth int)
	walk = func(v reflect.Value, depth int) {
		if depth > 4000 {
			return
		}
		switch v.Kind() {
		case reflect.Ptr:
			if v.IsNil() {
				return
			}
			p := v.Pointer()
			t := v.Type().String()
			if _, ok := seen[p]; ok {
				return
			}
			seen[p] = t
			if immutableType(t) {
				return // leaf: do not descend into shared immutable structures
			}
			walk(v.Elem(), depth+1)
		case reflect.Interface:
			if !v.IsNil() {
				walk(v.Elem(), depth+1)
			}
		case reflect.Struct:
			for i := 0; i < v.NumField(); i++ {
				walk(v.Field(i), depth+1)
			}
		case reflect.Map:
			if v.IsNil() {
				return
			}
			p := v.Pointer()
			if _, ok := seen[p]; ok {
				return
			}
			seen[p] = v.Type().String()
			it := v.MapRange()
			for it.Next() {
				walk(it.Key(), depth+1)
				walk(it.Value(), depth+1)
			}
		case reflect.Slice:
			if v.IsNil() || v.Len() == 0 {
				return
			}
			p := v.Pointer()
			t := v.Type().String()
			if _, ok := seen[p]; !ok {
				seen[p] = t
			}
			if immutableType(t) {
				return
			}
			for i := 0; i < v.Len(); i++ {
				walk(v.Index(i), depth+1)
			}
		case reflect.Array:
			for i := 0; i < v.Len(); i++ {
				walk(v.Index(i), depth+1)
			}
		}
	}
	walk(reflect.ValueOf(root), 0)
	return seen
}

// sharedMutable lists the types of mutable nodes reachable from both runtimes.
func sharedMutable(a, b *otto.Otto) []string {
	ra, rb := reach(a), reach(b)
	types := map[string]int{}
	for p, t := range ra {
		if _, ok := rb[p]; ok && !immutableType(t) {
			types[t]++
		}
	}
	var out []string
	for t, n := range types {
		out = append(out, fmt.Sprintf("%s x%d", t, n))
	}
	sort.Strings(out)
	return out
}
