package c17

func registerMatchers() {}
