// Package c15 monitors the Go -> JavaScript -> Go value round trip (Set/Get,
// Export, ToInteger/ToFloat/ToString/ToBoolean, MarshalJSON), the agreement
// of the Value predicates/conversions with the in-language operators, and the
// Value.Call / Object.Call / Otto.Call paths. Model-free: every expectation
// is either computed from the generated description of the value
// (internal/refbridge, exact math/big arithmetic, ES5.1 clause 9) or is a
// relation between two otto code paths on the same runtime.
package c15

import (
	"encoding/json"
	"fmt"
	"math"
	"math/big"
	"reflect"
	"strconv"
	"strings"
	"unicode/utf16"

	"github.com/robertkrimen/otto"

	"verif/internal/gen"
	"verif/internal/ox"
	rb "verif/internal/refbridge"
	"verif/internal/run"
)

// Input is one self-contained case.
type Input struct {
	Op   string    `json:"op"`            // go | js | call
	Via  string    `json:"via,omitempty"` // go: set | objset | tovalue
	G    *rb.GV    `json:"g,omitempty"`
	J    *rb.JV    `json:"j,omitempty"`
	Call *CallCase `json:"call,omitempty"`
}

func init() {
	run.Register(&run.Check{
		ID:   "C15",
		Rule: "cases are (a) Go values drawn by a reflect-driven boundary generator (every int/uint width at 0, +-1, min, max, max-1, 2^53+-k, 2^63+-k; float32/64 classes incl. -0, subnormals, NaN, infinities; UTF-8 strings empty/ASCII/BMP/astral/NUL; nil; nested []interface{} / map[string]interface{} to depth 3; typed slices/arrays/maps; struct S1 by value and pointer; pointers; named types) injected with Otto.Set, Object.Set or Otto.ToValue, (b) JavaScript values (boundary primitives, JSON-like containers to depth 3, Date/RegExp/function/Error/boxed/Arguments objects) and (c) Value.Call/Object.Call/Otto.Call invocations of fixture functions; a case is non-trivial when all its observations were made and the value is not the zero value of its type (go), not undefined (js), or the callee was reached or an error surfaced (call); distinct by the full serialised input",
		Assumptions: []string{
			"strings are valid UTF-8 / well-formed UTF-16 (the API documents UTF-8); lone surrogates are out of scope",
			"Export's doc comment is the contract: undefined/null -> nil, boolean -> bool, number -> some Go number type (compared by exact value), string -> string, Array -> a slice (element type not compared: the pinned suite asserts []int64 / []string for homogeneous arrays), Object -> a string-keyed map; bridged Go containers come back as the identical Go value",
			"ToInteger of NaN is 0 and of values beyond the int64 range saturates (value_number.go documents 'Infinity => 2**63-1'); within range it is ES5 9.4 truncation; for Go integers it is the exact integer",
			"ToString / String(x) / JSON.stringify(x) of numbers are verified against ES5.1 9.8.1 (value, layout, minimal digit count) by internal/refbridge, not generated; x|0 and x>>>0 are compared with ES5 9.5/9.6 computed with math/big over the whole range",
			"MarshalJSON is re-read with the harness's own JSON reader and compared under Go's JSON conventions for bridged values; non-finite floats may be an error or null",
			"numeric strings understood by Go but not by ES5 9.3.1 (\"inf\", \"1_0\", hex floats, hex beyond 2^63) are not generated: C05/C06 own them",
		},
		Floor: func(tier string) int {
			if tier == "thorough" {
				return 300000
			}
			return 8000
		},
		Cases: func(tier string, seed uint64) int {
			if tier == "thorough" {
				return 12000000
			}
			return 40000
		},
		Exec:   func(c *run.Ctx, i int) { checkOne(c, generate(c.Rng, i)) },
		Replay: func(c *run.Ctx, raw json.RawMessage) { var in Input; mustUnmarshal(raw, &in); checkOne(c, in) },
	})
	registerMatchers()
}

func mustUnmarshal(raw json.RawMessage, v interface{}) {
	if err := json.Unmarshal(raw, v); err != nil {
		panic(err)
	}
}

func generate(r *gen.Rand, i int) Input {
	switch r.Weighted([]int{55, 30, 15}) {
	case 0:
		g := genGV(r)
		return Input{Op: "go", Via: []string{"set", "set", "objset", "tovalue"}[r.Intn(4)], G: &g}
	case 1:
		j := genJV(r)
		return Input{Op: "js", J: &j}
	}
	cc := genCall(r)
	return Input{Op: "call", Call: &cc}
}

// ---------------------------------------------------------------- runtime

const prologue = rb.Prologue + `
function __trace(){ var t=this, s=[typeof t, t===__global, t===__o, __desc(t)]; for (var i=0;i<arguments.length;i++) s.push(__desc(arguments[i])); s.push(arguments.length); return s.join("|"); }
function __thrower(k){
  if (k===1) throw new TypeError("t"); if (k===2) throw "str"; if (k===3) throw new RangeError("r"); if (k===4) null.x;
  if (k===5) __undefinedName; if (k===6) throw {custom:1}; if (k===7) throw 42; if (k===8) throw new Error("e");
  return __desc(k);
}
function __retv(a){ return a; }
function __Ctor(a,b){ this.a = a; this.n = arguments.length; }
var __nf = 5;
var __o = { m: __trace, thr: __thrower, retv: __retv, nf: 5, inner: { m: __trace }, toString: function(){ return "O" } };
function __err(e){ return (e instanceof Error) ? ("throw:E:" + e.name) : ("throw:V:" + String(e)); }
var __h = {};
`

var (
	vm     *otto.Otto
	logger *ox.Logger
)

func theVM() *otto.Otto {
	if vm == nil {
		vm = otto.New()
		logger = &ox.Logger{}
		logger.Install(vm, "log")
		if _, err := vm.Run(prologue); err != nil {
			panic("c15 prologue: " + err.Error())
		}
	}
	return vm
}

func resetVM() { vm = nil }

func checkOne(c *run.Ctx, in Input) {
	c.Announce(in)
	switch in.Op {
	case "go":
		checkGo(c, in)
	case "js":
		checkJS(c, in)
	case "call":
		checkCall(c, in)
	}
}

func inputKey(in Input) string {
	b, _ := json.Marshal(in)
	return string(b)
}

// ---------------------------------------------------------------- helpers

func intOf(g rb.GV) *big.Int { return g.Int() }

func counterpart(g rb.GV) float64 { return rb.Counterpart(g) }

func toInt32(d float64) int32 {
	if d != d || math.IsInf(d, 0) {
		return 0
	}
	r := rb.RatOfFloat(d)
	q := new(big.Int).Quo(r.Num(), r.Denom())
	m := new(big.Int).Mod(q, new(big.Int).Lsh(big.NewInt(1), 32)) // Euclidean: 0 <= m < 2^32
	u := m.Uint64()
	return int32(uint32(u))
}

func isZeroGV(g rb.GV) bool {
	switch {
	case g.T == "nil" || g.Nil:
		return true
	case rb.IsIntType(g.T):
		return intOf(g).Sign() == 0
	case rb.IsFloatType(g.T):
		return g.Float() == 0 && !math.Signbit(g.Float())
	case g.T == "string" || g.T == "MyStr":
		return g.S == ""
	case g.T == "bool" || g.T == "MyBool":
		return !g.B
	}
	return len(g.E) == 0
}

func hasNonFinite(g rb.GV) bool {
	if rb.IsFloatType(g.T) {
		f := g.Float()
		return f != f || math.IsInf(f, 0)
	}
	for _, e := range g.E {
		if hasNonFinite(e) {
			return true
		}
	}
	return false
}

type checker struct {
	c     *run.Ctx
	in    Input
	stage string
	fails int
}

func (k *checker) fail(site, exp, act, detail string) {
	k.fails++
	k.c.Fail("mismatch", site, k.in, exp, act, detail)
}

func (k *checker) eqs(site, exp, act string) bool {
	if exp != act {
		k.fail(site, exp, act, "")
		return false
	}
	return true
}

// runLog runs src and returns the logger events, failing on error/panic.
func (k *checker) runLog(site, src string, want int) ([]string, bool) {
	v := theVM()
	logger.Events = nil
	k.stage = site
	out := ox.Run(v, src)
	if out.Panic != nil {
		k.fails++
		k.c.Fail("panic", site, k.in, "no Go panic", fmt.Sprint(out.Panic), out.Stack)
		resetVM()
		return nil, false
	}
	if out.Err != nil || len(logger.Events) != want {
		k.fail(site, fmt.Sprintf("script completes with %d observations", want), fmt.Sprintf("err=%v events=%d", out.Err, len(logger.Events)), src)
		return nil, false
	}
	ev := logger.Events
	logger.Events = nil
	return ev, true
}

// ---------------------------------------------------------------- Go -> JS -> Go

func inject(v *otto.Otto, via string, x interface{}) (otto.Value, error) {
	switch via {
	case "objset":
		hv, err := v.Get("__h")
		if err != nil {
			return otto.Value{}, err
		}
		ho := hv.Object()
		if err := ho.Set("p", x); err != nil {
			return otto.Value{}, err
		}
		val, err := ho.Get("p")
		if err != nil {
			return otto.Value{}, err
		}
		// make it visible to scripts under the common name
		if _, err := v.Run("x = __h.p"); err != nil {
			return otto.Value{}, err
		}
		return val, nil
	case "tovalue":
		val, err := v.ToValue(x)
		if err != nil {
			return otto.Value{}, err
		}
		if err := v.Set("x", val); err != nil {
			return otto.Value{}, err
		}
		return v.Get("x")
	}
	if err := v.Set("x", x); err != nil {
		return otto.Value{}, err
	}
	return v.Get("x")
}

func checkGo(c *run.Ctx, in Input) {
	g := *in.G
	bv, err := rb.Build(g)
	if err != nil {
		c.Inconclusive("build: " + err.Error())
		return
	}
	var orig interface{}
	if bv.IsValid() {
		orig = bv.Interface()
	}
	k := &checker{c: c, in: in}
	pv, st := run.Guard(func() { k.goChecks(g, bv, orig) })
	if pv != nil {
		k.fails++
		c.Fail("panic", "go:"+k.stage, in, "no Go panic", fmt.Sprint(pv), st)
		resetVM()
	}
	c.Feature("op:go")
	c.Feature("via:" + in.Via)
	c.Feature("gotype:" + typeClass(g))
	c.Sample(in)
	if k.fails == 0 && !isZeroGV(g) {
		c.Nontrivial(inputKey(in))
	}
}

func typeClass(g rb.GV) string {
	switch g.Kind() {
	case reflect.Invalid:
		return "nil"
	case reflect.Slice:
		if g.Nil {
			return "nil-slice"
		}
		return "slice:" + rb.ElemExpr(g.T)
	case reflect.Array:
		return "array"
	case reflect.Map:
		if g.Nil {
			return "nil-map"
		}
		return "map[" + rb.KeyExpr(g.T) + "]"
	case reflect.Ptr:
		if g.Nil {
			return "nil-ptr"
		}
		return "ptr:" + g.T[1:]
	case reflect.Struct:
		return "struct"
	}
	return g.T
}

func (k *checker) goChecks(g rb.GV, bv reflect.Value, orig interface{}) {
	v := theVM()
	k.stage = "inject:" + k.in.Via
	val, err := inject(v, k.in.Via, orig)
	if err != nil {
		k.fail("go:inject", "no error", err.Error(), "")
		return
	}
	// a pointer to a scalar is dereferenced by the bridge: the value seen is the pointee
	eff := g
	effv := bv
	for eff.Kind() == reflect.Ptr && !eff.Nil {
		ek := eff.E[0].Kind()
		if ek == reflect.Struct || ek == reflect.Array {
			break
		}
		eff = eff.E[0]
		if effv.Kind() == reflect.Ptr {
			effv = effv.Elem()
		}
	}
	switch {
	case eff.T == "nil" || eff.Nil && eff.Kind() == reflect.Ptr:
		k.goNil(val)
	case rb.IsIntType(eff.T) || rb.IsFloatType(eff.T):
		k.goNumber(eff, effv, val)
	case eff.T == "string" || eff.T == "MyStr":
		k.goString(eff, effv, val)
	case eff.T == "bool" || eff.T == "MyBool":
		k.goBool(eff, effv, val)
	default:
		k.goContainer(eff, effv, val, eff.T == g.T)
	}
}

func (k *checker) conv(val otto.Value) (i int64, f float64, s string, b bool, ok bool) {
	var e1, e2, e3, e4 error
	k.stage = "ToInteger"
	i, e1 = val.ToInteger()
	k.stage = "ToFloat"
	f, e2 = val.ToFloat()
	k.stage = "ToString"
	s, e3 = val.ToString()
	k.stage = "ToBoolean"
	b, e4 = val.ToBoolean()
	k.c.Eval(4)
	for _, e := range []error{e1, e2, e3, e4} {
		if e != nil {
			k.fail("go:conversions", "no error", e.Error(), "")
			return i, f, s, b, false
		}
	}
	return i, f, s, b, true
}

func (k *checker) marshal(val otto.Value, bv reflect.Value, nonFinite bool) {
	k.stage = "MarshalJSON"
	js, err := val.MarshalJSON()
	k.c.Eval(1)
	if err != nil {
		if nonFinite {
			k.c.Feature("marshal:nonfinite-error")
			return
		}
		k.fail("go:MarshalJSON", "JSON text", "error: "+err.Error(), "")
		return
	}
	n, perr := rb.ParseJSON(string(js))
	if perr != nil {
		k.fail("go:MarshalJSON", "well-formed JSON", string(js), perr.Error())
		return
	}
	if err := matchJSONLoose(n, bv); err != nil {
		k.fail("go:MarshalJSON", "JSON denoting "+rb.CanonValue(bv), string(js), err.Error())
	}
}

// matchJSONLoose is MatchJSON where non-finite floats may appear as null.
func matchJSONLoose(n rb.JNode, v reflect.Value) error {
	if v.IsValid() && (v.Kind() == reflect.Float32 || v.Kind() == reflect.Float64) {
		if f := v.Float(); (f != f || math.IsInf(f, 0)) && n.Kind == 'z' {
			return nil
		}
	}
	return rb.MatchJSON(n, v, "$")
}

func (k *checker) goNil(val otto.Value) {
	k.stage = "predicates"
	if !(val.IsUndefined() || val.IsNull()) || val.IsObject() || val.IsNumber() || val.IsString() || val.IsBoolean() {
		k.fail("go:predicates", "undefined or null", ox.Enc(val), "")
	}
	k.stage = "Export"
	if e, _ := val.Export(); e != nil {
		k.fail("go:Export", "nil", rb.Canon(e), "")
	}
	i, f, s, b, ok := k.conv(val)
	if ok {
		wantS, wantF := "undefined", math.NaN()
		if val.IsNull() {
			wantS, wantF = "null", 0
		}
		k.eqs("go:ToString", wantS, s)
		k.eqs("go:ToFloat", ox.Num(wantF), ox.Num(f))
		k.eqs("go:ToInteger", "0", fmt.Sprint(i))
		k.eqs("go:ToBoolean", "false", fmt.Sprint(b))
	}
	k.marshal(val, reflect.Value{}, false)
	if ev, ok := k.runLog("go:script", `log(x == null); log(typeof x === "undefined" || x === null); log(JSON.stringify([x]))`, 3); ok {
		k.c.Eval(3)
		k.eqs("go:script:x==null", "b:true", ev[0])
		k.eqs("go:script:typeof", "b:true", ev[1])
		k.eqs("go:script:JSON.stringify", "s:"+ox.Str("[null]"), ev[2])
	}
}

func (k *checker) goNumber(g rb.GV, bv reflect.Value, val otto.Value) {
	d := counterpart(g)
	isInt := rb.IsIntType(g.T)
	k.stage = "predicates"
	if !val.IsNumber() || val.IsString() || val.IsObject() || val.IsBoolean() || val.IsUndefined() || val.IsNull() || !val.IsPrimitive() || !val.IsDefined() || val.Class() != "" || val.IsFunction() {
		k.fail("go:predicates", "a number primitive", ox.Enc(val), "")
	}
	if val.IsNaN() != (d != d) {
		k.fail("go:IsNaN", fmt.Sprint(d != d), fmt.Sprint(val.IsNaN()), "")
	}
	k.c.Eval(2)
	// Export: some Go number with exactly the original value
	k.stage = "Export"
	e, _ := val.Export()
	wantLabel, _ := rb.NumValueLabel(bv)
	if e == nil {
		k.fail("go:Export", "number "+wantLabel, "nil", "")
	} else if got, ok := rb.NumValueLabel(reflect.ValueOf(e)); !ok || got != wantLabel {
		k.fail("go:Export", "number "+wantLabel, rb.Canon(e), "")
	} else if reflect.TypeOf(e) == bv.Type() && rb.Canon(e) != rb.CanonValue(bv) {
		k.fail("go:Export", rb.CanonValue(bv), rb.Canon(e), "")
	} else {
		k.c.Feature("export-numtype:" + bv.Type().Kind().String() + "->" + reflect.TypeOf(e).Kind().String())
	}
	i, f, s, b, ok := k.conv(val)
	if ok {
		var wantI int64
		if isInt {
			x := intOf(g)
			switch {
			case x.IsInt64():
				wantI = x.Int64()
			case x.Sign() > 0:
				wantI = math.MaxInt64
			default:
				wantI = math.MinInt64
			}
		} else {
			wantI = rb.ToIntegerClamp(d)
		}
		k.eqs("go:ToInteger", fmt.Sprint(wantI), fmt.Sprint(i))
		k.eqs("go:ToFloat", ox.Num(d), ox.Num(f))
		if isInt {
			// the exact decimal is the string that equals the original integer
			k.eqs("go:ToString", intOf(g).String(), s)
		} else if err := rb.VerifyNumberToString(s, d); err != nil {
			k.fail("go:ToString", "ES5 9.8.1 string of "+ox.Num(d), s, err.Error())
		}
		k.eqs("go:ToBoolean", fmt.Sprint(!(d != d || d == 0)), fmt.Sprint(b))
	}
	k.marshal(val, bv, d != d || math.IsInf(d, 0))
	// script side
	lit := rb.JSNum(d)
	idt := "(x === " + lit + ")"
	if d != d {
		idt = "(x !== x)"
	}
	src := `log(typeof x); log(` + idt + `); log(x === 0 ? 1/x : 0); log(String(x)); log(JSON.stringify(x)); log(x + 0); log(x|0, x>>>0); log(-x); log(x == ` + lit + ` || x !== x)`
	ev, ok := k.runLog("go:script", src, 9)
	if !ok {
		return
	}
	k.c.Eval(9)
	k.eqs("go:script:typeof", "s:"+ox.Str("number"), ev[0])
	k.eqs("go:script:x===literal", "b:true", ev[1])
	wantSign := 0.0
	if d == 0 {
		wantSign = math.Inf(1)
		if math.Signbit(d) {
			wantSign = math.Inf(-1)
		}
	}
	k.eqs("go:script:1/x", "n:"+ox.Num(wantSign), ev[2])
	if str, ok := unStr(ev[3]); !ok {
		k.fail("go:script:String(x)", "a string", ev[3], "")
	} else if err := rb.VerifyNumberToString(str, d); err != nil {
		k.fail("go:script:String(x)", "ES5 9.8.1 string of "+ox.Num(d), str, err.Error())
	}
	if str, ok := unStr(ev[4]); !ok {
		k.fail("go:script:JSON.stringify", "a string", ev[4], "")
	} else if d != d || math.IsInf(d, 0) {
		k.eqs("go:script:JSON.stringify", "null", str)
	} else if err := rb.VerifyNumberToString(str, d); err != nil {
		k.fail("go:script:JSON.stringify", "ES5 9.8.1 string of "+ox.Num(d), str, err.Error())
	}
	k.eqs("go:script:x+0", "n:"+ox.Num(d+0), ev[5])
	i32 := toInt32(d) // ES5 9.5 / 9.6 over the whole double range
	k.eqs("go:script:x|0,x>>>0", "n:"+ox.Num(float64(i32))+",n:"+ox.Num(float64(uint32(i32))), ev[6])
	k.eqs("go:script:-x", "n:"+ox.Num(-d), ev[7])
	k.eqs("go:script:x==literal", "b:true", ev[8])
}

// unStr decodes an ox.Enc string event ("s:\"...\"") back to UTF-8.
func unStr(ev string) (string, bool) {
	if !strings.HasPrefix(ev, `s:"`) || !strings.HasSuffix(ev, `"`) || len(ev) < 4 {
		return "", false
	}
	body := ev[3 : len(ev)-1]
	var units []uint16
	for i := 0; i < len(body); i++ {
		c := body[i]
		if c != '\\' {
			units = append(units, uint16(c))
			continue
		}
		if i+1 >= len(body) {
			return "", false
		}
		if body[i+1] == 'u' {
			if i+6 > len(body) {
				return "", false
			}
			v, err := strconv.ParseUint(body[i+2:i+6], 16, 16)
			if err != nil {
				return "", false
			}
			units = append(units, uint16(v))
			i += 5
			continue
		}
		units = append(units, uint16(body[i+1]))
		i++
	}
	return string(utf16.Decode(units)), true
}

func (k *checker) goString(g rb.GV, bv reflect.Value, val otto.Value) {
	s0 := g.S
	k.stage = "predicates"
	if !val.IsString() || val.IsNumber() || val.IsObject() || !val.IsPrimitive() || val.Class() != "" {
		k.fail("go:predicates", "a string primitive", ox.Enc(val), "")
	}
	num := rb.StringToNumber(s0)
	if val.IsNaN() != (num != num) {
		k.fail("go:IsNaN", fmt.Sprint(num != num), fmt.Sprint(val.IsNaN()), "")
	}
	k.stage = "Export"
	e, _ := val.Export()
	if es, ok := e.(string); !ok || es != s0 {
		k.fail("go:Export", rb.Canon(s0), rb.Canon(e), "")
	}
	i, f, s, b, ok := k.conv(val)
	if ok {
		k.eqs("go:ToString", ox.Str(s0), ox.Str(s))
		k.eqs("go:ToFloat", ox.Num(num), ox.Num(f))
		k.eqs("go:ToInteger", fmt.Sprint(rb.ToIntegerClamp(num)), fmt.Sprint(i))
		k.eqs("go:ToBoolean", fmt.Sprint(s0 != ""), fmt.Sprint(b))
	}
	k.marshal(val, bv, false)
	ev, ok := k.runLog("go:script", `log(typeof x); log(x === `+rb.JSStr(s0)+`); log(x.length); log(JSON.stringify(x)); log(+x); log(x + "")`, 6)
	if !ok {
		return
	}
	k.c.Eval(6)
	k.eqs("go:script:typeof", "s:"+ox.Str("string"), ev[0])
	k.eqs("go:script:x===literal", "b:true", ev[1])
	k.eqs("go:script:length", "n:"+fmt.Sprint(rb.UTF16Len(s0)), ev[2])
	if js, ok := unStr(ev[3]); !ok {
		k.fail("go:script:JSON.stringify", "a string", ev[3], "")
	} else if n, err := rb.ParseJSON(js); err != nil || n.Kind != 's' || n.Str != s0 {
		k.fail("go:script:JSON.stringify", "JSON string denoting "+ox.Str(s0), js, fmt.Sprint(err))
	}
	k.eqs("go:script:+x", "n:"+ox.Num(num), ev[4])
	k.eqs("go:script:x+\"\"", "s:"+ox.Str(s0), ev[5])
}

func (k *checker) goBool(g rb.GV, bv reflect.Value, val otto.Value) {
	k.stage = "predicates"
	if !val.IsBoolean() || val.IsNumber() || val.IsString() || val.IsObject() || !val.IsPrimitive() {
		k.fail("go:predicates", "a boolean primitive", ox.Enc(val), "")
	}
	k.stage = "Export"
	e, _ := val.Export()
	if eb, ok := e.(bool); !ok || eb != g.B {
		k.fail("go:Export", fmt.Sprint(g.B), rb.Canon(e), "")
	}
	i, f, s, b, ok := k.conv(val)
	if ok {
		w := 0
		if g.B {
			w = 1
		}
		k.eqs("go:ToInteger", fmt.Sprint(w), fmt.Sprint(i))
		k.eqs("go:ToFloat", fmt.Sprint(w), ox.Num(f))
		k.eqs("go:ToString", fmt.Sprint(g.B), s)
		k.eqs("go:ToBoolean", fmt.Sprint(g.B), fmt.Sprint(b))
	}
	k.marshal(val, bv, false)
	if ev, ok := k.runLog("go:script", `log(typeof x); log(x === `+fmt.Sprint(g.B)+`); log(JSON.stringify(x))`, 3); ok {
		k.c.Eval(3)
		k.eqs("go:script:typeof", "s:"+ox.Str("boolean"), ev[0])
		k.eqs("go:script:x===literal", "b:true", ev[1])
		k.eqs("go:script:JSON.stringify", "s:"+ox.Str(fmt.Sprint(g.B)), ev[2])
	}
}

func sameIdentity(a, b reflect.Value) bool {
	if a.Kind() != b.Kind() {
		return false
	}
	switch a.Kind() {
	case reflect.Slice:
		return a.Len() == b.Len() && (a.Len() == 0 && a.IsNil() == b.IsNil() || a.Len() > 0 && a.Pointer() == b.Pointer())
	case reflect.Map, reflect.Ptr:
		return a.Pointer() == b.Pointer()
	}
	return true
}

func (k *checker) goContainer(g rb.GV, bv reflect.Value, val otto.Value, identity bool) {
	k.stage = "predicates"
	if !val.IsObject() || val.IsPrimitive() || val.IsNumber() || val.IsString() || val.IsUndefined() || val.IsNull() || val.IsFunction() {
		k.fail("go:predicates", "an object", ox.Enc(val), "")
		return
	}
	k.stage = "Export"
	e, _ := val.Export()
	k.c.Eval(1)
	if rb.Canon(e) != rb.CanonValue(bv) {
		k.fail("go:Export", rb.CanonValue(bv), rb.Canon(e), "")
	} else if identity && !sameIdentity(reflect.ValueOf(e), bv) {
		k.fail("go:Export:identity", "the same Go object", "a copy", "")
	}
	k.goBack(bv)
	i, f, s, b, ok := k.conv(val)
	k.marshal(val, bv, hasNonFinite(g))
	src := `log(typeof x); log(__eq(x, ` + rb.JSLit(g, false) + `)); log(__desc(x)); log(String(x)); log(Number(x)); log(Boolean(x))`
	ev, ok2 := k.runLog("go:script", src, 6)
	if !ok2 {
		return
	}
	k.c.Eval(6)
	k.eqs("go:script:typeof", "s:"+ox.Str("object"), ev[0])
	if ev[1] != "b:true" {
		k.fail("go:script:contents", "script sees "+rb.JSLit(g, false), ev[2], "")
	}
	if ok {
		k.eqs("go:ToString~String(x)", ev[3], "s:"+ox.Str(s))
		k.eqs("go:ToFloat~Number(x)", ev[4], "n:"+ox.Num(f))
		k.eqs("go:ToBoolean~Boolean(x)", ev[5], "b:"+fmt.Sprint(b))
		if fl, okf := unNum(ev[4]); okf {
			k.eqs("go:ToInteger~Number(x)", fmt.Sprint(rb.ToIntegerClamp(fl)), fmt.Sprint(i))
		}
	}
	if g.Kind() == reflect.Struct || g.Kind() == reflect.Ptr && g.E[0].Kind() == reflect.Struct && g.E[0].T == "S1" {
		k.goStruct(g)
	}
}

// goBack: the third leg of the round trip. The script hands the bridged container, untouched, to
// a Go function whose parameter has exactly the container's type (and to a struct field of that
// type): what arrives is equal to the original, whatever the key and element types are.
func (k *checker) goBack(bv reflect.Value) {
	switch bv.Kind() {
	case reflect.Map, reflect.Slice, reflect.Array, reflect.Struct:
	default:
		return
	}
	v := theVM()
	k.stage = "back"
	var got reflect.Value
	fn := reflect.MakeFunc(reflect.FuncOf([]reflect.Type{bv.Type()}, nil, false), func(args []reflect.Value) []reflect.Value {
		got = args[0]
		return nil
	})
	if err := v.Set("__back", fn.Interface()); err != nil {
		k.fail("go:back", "Set of a Go function succeeds", err.Error(), bv.Type().String())
		return
	}
	out := ox.Run(v, "__back(x)")
	k.c.Eval(1)
	switch {
	case out.Panic != nil:
		k.fails++
		k.c.Fail("panic", "go:back", k.in, "no Go panic", fmt.Sprint(out.Panic), out.Stack)
		resetVM()
	case out.Err != nil:
		k.fail("go:back", "func("+bv.Type().String()+") receives the value", out.Err.Error(), "")
	case !got.IsValid():
		k.fail("go:back", "the function is called", "not called", "")
	case rb.CanonValue(got) != rb.CanonValue(bv):
		k.fail("go:back", rb.CanonValue(bv), rb.CanonValue(got), "parameter type "+bv.Type().String())
	default:
		k.c.Feature("back:" + bv.Kind().String())
	}
}

func unNum(ev string) (float64, bool) {
	if !strings.HasPrefix(ev, "n:") {
		return 0, false
	}
	switch ev[2:] {
	case "NaN":
		return math.NaN(), true
	case "Infinity":
		return math.Inf(1), true
	case "-Infinity":
		return math.Inf(-1), true
	case "-0":
		return math.Copysign(0, -1), true
	}
	var f float64
	if _, err := fmt.Sscan(ev[2:], &f); err != nil {
		return 0, false
	}
	return f, true
}

// goStruct checks the struct-specific script view of S1: json-tag aliases,
// hidden unexported field, promoted embedded fields, methods.
func (k *checker) goStruct(g rb.GV) {
	sg := g
	ptr := false
	if g.Kind() == reflect.Ptr {
		sg = g.E[0]
		ptr = true
	}
	if sg.T != "S1" {
		return
	}
	a := counterpart(sg.E[0])
	src := `log(x.bee === x.B && x.B === ` + rb.JSStr(sg.E[1].S) + `); log(x.c === undefined); log(x.Z === x.Inner.Z && x.w === x.Inner.W && x.Inner.w === x.Inner.W); log(typeof x.Get === "function" ? x.Get() : "no Get"); log(typeof x.Inc); log(x.n === x.N)`
	ev, ok := k.runLog("go:script:struct", src, 6)
	if !ok {
		return
	}
	k.c.Eval(6)
	k.eqs("go:struct:json-tag alias", "b:true", ev[0])
	k.eqs("go:struct:unexported hidden", "b:true", ev[1])
	k.eqs("go:struct:embedded promoted", "b:true", ev[2])
	k.eqs("go:struct:method Get()", "n:"+ox.Num(a), ev[3])
	wantInc := "undefined"
	if ptr {
		wantInc = "function"
	}
	k.eqs("go:struct:typeof Inc", "s:"+ox.Str(wantInc), ev[4])
	k.eqs("go:struct:omitempty tag alias", "b:true", ev[5])
}
