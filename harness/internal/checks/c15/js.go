package c15

import (
	"errors"
	"fmt"
	"math"
	"reflect"
	"strings"

	"github.com/robertkrimen/otto"

	"verif/internal/ox"
	rb "verif/internal/refbridge"
	"verif/internal/run"
)

// ---------------------------------------------------------------- JS value -> Go

func checkJS(c *run.Ctx, in Input) {
	k := &checker{c: c, in: in}
	pv, st := run.Guard(func() { k.jsChecks(*in.J) })
	if pv != nil {
		k.fails++
		c.Fail("panic", "js:"+k.stage, in, "no Go panic", fmt.Sprint(pv), st)
		resetVM()
	}
	c.Feature("op:js")
	c.Feature("jskind:" + in.J.K)
	if in.J.IsJSONLike() && !in.J.IsPrimitive() {
		c.Feature("js:json-like-container")
	}
	c.Sample(in)
	if k.fails == 0 && in.J.K != "undef" {
		c.Nontrivial(inputKey(in))
	}
}

func (k *checker) jsChecks(j rb.JV) {
	v := theVM()
	k.stage = "Run"
	logger.Events = nil
	out := ox.Run(v, "__v = "+j.Src()+"; __v")
	if out.Panic != nil {
		panic(out.Panic)
	}
	if out.Err != nil {
		k.fail("js:Run", "value", "error: "+out.Err.Error(), j.Src())
		return
	}
	val := out.Val
	// in-language observations on the same runtime
	src := `log(typeof __v); log((typeof __v === "object" && __v !== null) || typeof __v === "function" ? Object.prototype.toString.call(__v) : ""); log(isNaN(__v)); log(Number(__v)); log(String(__v)); log(Boolean(__v))`
	ev, ok := k.runLog("js:inlang", src, 6)
	if !ok {
		return
	}
	typ, _ := unStr(ev[0])
	cls, _ := unStr(ev[1])
	cls = strings.TrimSuffix(strings.TrimPrefix(cls, "[object "), "]")
	// (1) in-language results agree with the description of the value
	k.eqs("js:typeof~descriptor", j.TypeOf(), typ)
	k.eqs("js:class~descriptor", j.Class(), cls)
	k.eqs("js:Boolean~descriptor", "b:"+fmt.Sprint(j.ToBoolean()), ev[5])
	if n, isPrim := j.ToNumber(); isPrim {
		k.eqs("js:Number~descriptor", "n:"+ox.Num(n), ev[3])
	}
	// (2) Value predicates agree with typeof / [[Class]]
	k.stage = "predicates"
	k.c.Eval(12)
	pred := func(name string, got, want bool) {
		if got != want {
			k.fail("js:"+name, fmt.Sprint(want), fmt.Sprint(got), "typeof="+typ+" class="+cls)
		}
	}
	isObj := typ == "function" || (typ == "object" && j.K != "null")
	pred("IsUndefined", val.IsUndefined(), typ == "undefined")
	pred("IsDefined", val.IsDefined(), typ != "undefined")
	pred("IsNull", val.IsNull(), j.K == "null")
	pred("IsBoolean", val.IsBoolean(), typ == "boolean")
	pred("IsNumber", val.IsNumber(), typ == "number")
	pred("IsString", val.IsString(), typ == "string")
	pred("IsObject", val.IsObject(), isObj)
	pred("IsPrimitive", val.IsPrimitive(), !isObj)
	pred("IsFunction", val.IsFunction(), typ == "function")
	pred("IsNaN", val.IsNaN(), ev[2] == "b:true")
	k.eqs("js:Class", cls, val.Class())
	if o := val.Object(); (o != nil) != isObj {
		k.fail("js:Object()", fmt.Sprint(isObj), fmt.Sprint(o != nil), "")
	} else if o != nil {
		k.eqs("js:Object.Class", cls, o.Class())
	}
	// (3) conversions agree with Number()/String()/Boolean()
	i, f, s, b, okc := k.conv(val)
	if okc {
		k.eqs("js:ToFloat~Number(v)", ev[3], "n:"+ox.Num(f))
		k.eqs("js:ToString~String(v)", ev[4], "s:"+ox.Str(s))
		k.eqs("js:ToBoolean~Boolean(v)", ev[5], "b:"+fmt.Sprint(b))
		if fl, okf := unNum(ev[3]); okf {
			k.eqs("js:ToInteger~Number(v)", fmt.Sprint(rb.ToIntegerClamp(fl)), fmt.Sprint(i))
		}
		k.stage = "String()"
		k.eqs("js:String()~ToString", ox.Str(s), ox.Str(val.String()))
	}
	if j.K == "num" {
		// number -> string is additionally verified against ES5 9.8.1
		if err := rb.VerifyNumberToString(s, j.Num()); err != nil {
			k.fail("js:ToString(number)", "ES5 9.8.1 string of "+ox.Num(j.Num()), s, err.Error())
		}
	}
	// (4) Export
	k.stage = "Export"
	e, err := val.Export()
	k.c.Eval(1)
	if err != nil {
		k.fail("js:Export", "nil error (documented)", err.Error(), "")
	}
	switch {
	case j.K == "undef" || j.K == "null":
		if e != nil {
			k.fail("js:Export", "nil", rb.Canon(e), "")
		}
	case j.K == "bool":
		if eb, ok := e.(bool); !ok || eb != j.B {
			k.fail("js:Export", fmt.Sprint(j.B), rb.Canon(e), "")
		}
	case j.K == "str":
		if es, ok := e.(string); !ok || es != j.S {
			k.fail("js:Export", rb.Canon(j.S), rb.Canon(e), "")
		}
	case j.K == "num":
		if e == nil {
			k.fail("js:Export", "a number", "nil", "")
		} else if l, ok := rb.NumValueLabel(reflect.ValueOf(e)); !ok || l != rb.FloatValueLabel(j.Num()) {
			k.fail("js:Export", "number "+rb.FloatValueLabel(j.Num()), rb.Canon(e), "")
		} else {
			k.c.Feature("js-export-numtype:" + reflect.TypeOf(e).Kind().String())
		}
	case j.IsJSONLike():
		if got, want := rb.ValCanon(e), j.ValCanon(); got != want {
			k.fail("js:Export", want, got, rb.Canon(e))
		} else {
			k.c.Feature("js-export-type:" + exportShape(e))
			// documented shapes: Array -> slice, Object -> map[string]interface{}
			if j.K == "arr" && reflect.TypeOf(e).Kind() != reflect.Slice {
				k.fail("js:Export:shape", "a slice", reflect.TypeOf(e).String(), "")
			}
			if j.K == "obj" {
				if _, ok := e.(map[string]interface{}); !ok {
					k.fail("js:Export:shape", "map[string]interface{}", reflect.TypeOf(e).String(), "")
				}
			}
			k.reinject(e)
		}
	}
	// (5) MarshalJSON of JSON-like data and primitives
	if j.IsJSONLike() || j.K == "undef" {
		k.stage = "MarshalJSON"
		js, err := val.MarshalJSON()
		k.c.Eval(1)
		if err != nil {
			k.fail("js:MarshalJSON", "JSON text", "error: "+err.Error(), "")
		} else if n, perr := rb.ParseJSON(string(js)); perr != nil {
			k.fail("js:MarshalJSON", "well-formed JSON", string(js), perr.Error())
		} else if err := matchJV(n, j, "$"); err != nil {
			k.fail("js:MarshalJSON", "JSON denoting "+j.ValCanon(), string(js), err.Error())
		}
	}
}

func exportShape(e interface{}) string {
	t := reflect.TypeOf(e)
	if t == nil {
		return "nil"
	}
	s := t.String()
	if len(s) > 40 {
		s = s[:40]
	}
	return strings.ReplaceAll(s, "interface {}", "any")
}

// reinject sets the exported Go value back into the runtime and checks that
// scripts see a value structurally equal to the one exported.
func (k *checker) reinject(e interface{}) {
	v := theVM()
	k.stage = "reinject:Set"
	if err := v.Set("__y", e); err != nil {
		k.fail("js:reinject", "Set succeeds", err.Error(), "")
		return
	}
	if ev, ok := k.runLog("js:reinject", `log(__eq(__y, __v)); log(__desc(__y)); log(__desc(__v))`, 3); ok {
		k.c.Eval(1)
		if ev[0] != "b:true" {
			k.fail("js:reinject", ev[2], ev[1], "Export() followed by Set() must be structurally the same value")
		}
	}
}

// matchJV compares parsed JSON with a JSON-like JV (undefined -> null).
func matchJV(n rb.JNode, j rb.JV, path string) error {
	switch j.K {
	case "undef", "null":
		if n.Kind != 'z' {
			return fmt.Errorf("%s: want null", path)
		}
	case "bool":
		if n.Kind != 't' && n.Kind != 'f' || (n.Kind == 't') != j.B {
			return fmt.Errorf("%s: want %v", path, j.B)
		}
	case "num":
		f := j.Num()
		if n.Kind != '#' {
			return fmt.Errorf("%s: want number", path)
		}
		r, _ := n.Rat()
		if got := rb.NearestFloat64(r); got != f {
			return fmt.Errorf("%s: want %v, JSON %s denotes %v", path, f, n.Raw, got)
		}
	case "str":
		if n.Kind != 's' || n.Str != j.S {
			return fmt.Errorf("%s: want string %q got %q", path, j.S, n.Str)
		}
	case "arr":
		if n.Kind != 'a' || len(n.Arr) != len(j.E) {
			return fmt.Errorf("%s: want array of %d", path, len(j.E))
		}
		for i := range j.E {
			if err := matchJV(n.Arr[i], j.E[i], fmt.Sprintf("%s[%d]", path, i)); err != nil {
				return err
			}
		}
	case "obj":
		if n.Kind != 'o' || len(n.Keys) != len(j.Keys) {
			return fmt.Errorf("%s: want object with %d keys", path, len(j.Keys))
		}
		for i, key := range j.Keys {
			found := false
			for q, nk := range n.Keys {
				if nk == key {
					found = true
					if err := matchJV(n.Vals[q], j.E[i], path+"."+key); err != nil {
						return err
					}
				}
			}
			if !found {
				return fmt.Errorf("%s: missing key %q", path, key)
			}
		}
	default:
		return fmt.Errorf("%s: not JSON-like (%s)", path, j.K)
	}
	return nil
}

// ---------------------------------------------------------------- calls

func checkCall(c *run.Ctx, in Input) {
	k := &checker{c: c, in: in}
	reached := false
	pv, st := run.Guard(func() { reached = k.callChecks(*in.Call) })
	if pv != nil {
		k.fails++
		c.Fail("panic", "call:"+in.Call.API+":"+k.stage, in, "an error value, never a Go panic", fmt.Sprint(pv), st)
		resetVM()
	}
	c.Feature("op:call")
	c.Feature("call:" + in.Call.API)
	c.Sample(in)
	if k.fails == 0 && reached {
		c.Nontrivial(inputKey(in))
	}
}

// thisValue builds the otto.Value for a described `this`.
func thisValue(v *otto.Otto, j *rb.JV) (otto.Value, string) {
	if j == nil {
		return otto.UndefinedValue(), "(void 0)"
	}
	switch j.K {
	case "undef":
		return otto.UndefinedValue(), "(void 0)"
	case "null":
		return otto.NullValue(), "null"
	case "bool":
		val, _ := otto.ToValue(j.B)
		return val, j.Src()
	case "num":
		val, _ := otto.ToValue(j.Num())
		return val, j.Src()
	case "str":
		val, _ := otto.ToValue(j.S)
		return val, j.Src()
	}
	val, _ := v.Get("__o")
	return val, "__o"
}

func thisGo(v *otto.Otto, j *rb.JV) interface{} {
	if j == nil {
		return nil
	}
	switch j.K {
	case "bool":
		return j.B
	case "num":
		return j.Num()
	case "str":
		return j.S
	}
	val, _ := v.Get("__o")
	return val
}

func (k *checker) callChecks(cc CallCase) bool {
	v := theVM()
	// arguments: the same Go values are (a) passed through the API and (b) set
	// as globals for the equivalent in-language call
	args := make([]interface{}, len(cc.Args))
	names := make([]string, len(cc.Args))
	for i, a := range cc.Args {
		x, err := rb.BuildInterface(a)
		if err != nil {
			k.c.Inconclusive("build: " + err.Error())
			return false
		}
		args[i] = x
		names[i] = fmt.Sprintf("__a%d", i)
		k.stage = "Set arg"
		if err := v.Set(names[i], x); err != nil {
			k.fail("call:Set", "no error", err.Error(), "")
			return false
		}
	}
	al := strings.Join(names, ",")
	var res otto.Value
	var err error
	var equiv string
	switch cc.API {
	case "value":
		k.stage = "Get fn"
		fv, gerr := v.Get(cc.Fn)
		if gerr != nil {
			k.fail("call:Get", "no error", gerr.Error(), "")
			return false
		}
		tv, tsrc := thisValue(v, cc.This)
		k.stage = "Value.Call"
		res, err = fv.Call(tv, args...)
		equiv = cc.Fn + ".call(" + strings.Join(append([]string{tsrc}, names...), ",") + ")"
	case "object":
		ov, _ := v.Get("__o")
		k.stage = "Object.Call"
		res, err = ov.Object().Call(cc.Fn, args...)
		equiv = "__o[" + rb.JSStr(cc.Fn) + "](" + al + ")"
	case "otto":
		k.stage = "Otto.Call"
		res, err = v.Call(cc.Fn, thisGo(v, cc.This), args...)
		switch {
		case strings.HasPrefix(cc.Fn, "new "):
			equiv = "new (" + cc.Fn[4:] + ")(" + al + ")"
		case cc.This == nil:
			equiv = cc.Fn + "(" + al + ")"
		default:
			_, tsrc := thisValue(v, cc.This)
			equiv = "(" + cc.Fn + ").call(" + strings.Join(append([]string{tsrc}, names...), ",") + ")"
		}
	}
	k.c.Eval(1)
	if !res.IsDefined() && err == nil {
		// fine: undefined result
	}
	// API outcome
	var api string
	if err != nil {
		var oe *otto.Error
		if errors.As(err, &oe) {
			api = "throw:E:" + ox.ErrClass(err)
		} else {
			api = "throw:V:" + err.Error()
		}
		if res.IsDefined() {
			k.fail("call:"+cc.API, "undefined value with an error", ox.Enc(res), "")
		}
	} else {
		k.stage = "Set result"
		if serr := v.Set("__r", res); serr != nil {
			k.fail("call:Set result", "no error", serr.Error(), "")
			return false
		}
		ev, ok := k.runLog("call:desc", `log(__desc(__r))`, 1)
		if !ok {
			return false
		}
		api = ev[0]
	}
	// in-language equivalent
	ev, ok := k.runLog("call:equiv", `var __q; try { __q = __desc(`+equiv+`) } catch (e) { __q = __err(e) } log(__q)`, 1)
	if !ok {
		return false
	}
	want := ev[0]
	if w, isStr := unStr(want); isStr && strings.HasPrefix(w, "throw:") {
		want = w
	}
	if err != nil {
		if api != want {
			k.fail("call:"+cc.API, want, api, equiv)
		}
	} else if api != want {
		k.fail("call:"+cc.API, want, api, equiv)
	}
	if strings.HasPrefix(want, "throw:") {
		k.c.Feature("call-outcome:throw")
		cls := strings.SplitN(strings.TrimPrefix(want, "throw:"), ":", 2)[0]
		if len(cls) < 20 {
			k.c.Feature("call-throw:" + cls)
		}
	} else {
		k.c.Feature("call-outcome:value")
	}
	_ = math.NaN
	return true
}
