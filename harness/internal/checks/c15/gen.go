package c15

import (
	"math"

	"verif/internal/gen"
	rb "verif/internal/refbridge"
)

// genGV is the top-level Go value generator for the Go->JS->Go direction.
func genGV(r *gen.Rand) rb.GV {
	switch r.Weighted([]int{50, 6, 10, 10, 12, 5, 4, 3}) {
	case 0:
		return rb.GenScalar(r, rb.ScalarTypes[r.Intn(len(rb.ScalarTypes))])
	case 1:
		return rb.GenScalar(r, rb.NamedTypes[r.Intn(len(rb.NamedTypes))])
	case 2:
		n := r.Range(0, 4)
		e := make([]rb.GV, n)
		for i := range e {
			e[i] = rb.GenAny(r, 2)
		}
		return rb.GSeq("[]any", e...)
	case 3:
		n := r.Range(0, 4)
		e := make([]rb.GV, n)
		for i := range e {
			e[i] = rb.GenAny(r, 2)
		}
		return rb.GMap("map[string]any", rb.GenKeys(r, n), e)
	case 4:
		return rb.GenTyped(r, 2)
	case 5:
		switch r.Intn(3) {
		case 0:
			return rb.GenS1(r)
		case 1:
			return rb.GPtr("*S1", rb.GenS1(r))
		}
		return rb.GNilOf("*S1")
	case 6:
		// (pointers to slices, maps and pointers included: "pointers" are a supported kind whatever they point to)
		t := []string{"*int", "*string", "*float64", "*uint64", "*bool", "*[3]int", "*[2]string", "*Inner", "*[]int", "*[]string", "*map[string]int", "**int", "**Inner", "*[]any", "***string"}[r.Intn(15)]
		return rb.GenOfType(r, t, 1)
	}
	return rb.GNil()
}

// ---------------------------------------------------------------- JS values

var jsNumBoundary = []float64{2147483648, 4294967296, 9007199254740992, 1e21, 2147483647, -2147483648, 4294967295, 0.5, 1e-7, 255}

func genJNum(r *gen.Rand) rb.JV {
	var f float64
	if r.Chance(1, 4) {
		f = jsNumBoundary[r.Intn(len(jsNumBoundary))]
	} else {
		f = rb.GenFloat64(r)
	}
	j := rb.JNum(f)
	if f == math.Trunc(f) && f != 0 && r.Chance(1, 5) {
		// exercise the int32 / uint32 internal representations
		if f >= -2147483648 && f <= 2147483647 && r.Bool() {
			j.S = "i32"
		} else if f >= 0 && f <= 4294967295 {
			j.S = "u32"
		}
	}
	return j
}

func genJPrim(r *gen.Rand) rb.JV {
	switch r.Intn(10) {
	case 0:
		return rb.JUndef()
	case 1:
		return rb.JNull()
	case 2:
		return rb.JBool(r.Bool())
	case 3, 4, 5:
		return genJNum(r)
	}
	return rb.JStr(rb.GenString(r))
}

func genJSONLike(r *gen.Rand, depth int) rb.JV {
	if depth > 0 && r.Chance(1, 10) {
		// the same sub-object referenced several times (a DAG, not a cycle):
		// Export / MarshalJSON must emit it at every place
		inner := genJSONLike(r, depth-1)
		if !r.Chance(1, 4) {
			// containers are what Export keeps a visited set for
			e := []rb.JV{genJSONLike(r, depth-1), genJSONLike(r, depth-1)}
			switch r.Intn(3) {
			case 0:
				inner = rb.JArr(e[:r.Intn(3)]...)
			case 1:
				inner = rb.JArr(e[0], sameShape(r, e[0], depth-1))
			default:
				inner = rb.JObj(rb.GenKeys(r, 2), e)
			}
		}
		n := r.Range(2, 3)
		e := make([]rb.JV, n)
		for i := range e {
			e[i] = inner
		}
		var out rb.JV
		if r.Bool() {
			out = rb.JArr(e...)
		} else {
			out = rb.JObj(rb.GenKeys(r, n), e)
		}
		out.S = "shared"
		return out
	}
	if depth > 0 && r.Chance(1, 2) {
		n := r.Range(0, 4)
		e := make([]rb.JV, n)
		homog := r.Chance(1, 2) // homogeneous arrays exercise Export's common-type path
		var proto rb.JV
		for i := range e {
			if homog && i > 0 {
				e[i] = sameShape(r, proto, depth-1)
			} else {
				e[i] = genJSONLike(r, depth-1)
				proto = e[i]
			}
		}
		if r.Bool() {
			return rb.JArr(e...)
		}
		return rb.JObj(rb.GenKeys(r, n), e)
	}
	for {
		j := genJPrim(r)
		if j.K == "undef" {
			continue
		}
		if j.K == "num" {
			f := j.Num()
			if f != f || math.IsInf(f, 0) {
				continue
			}
		}
		return j
	}
}

// sameShape draws a value of the same kind as p (so that arrays of arrays of
// numbers / strings / objects occur often).
func sameShape(r *gen.Rand, p rb.JV, depth int) rb.JV {
	switch p.K {
	case "num":
		for {
			j := genJNum(r)
			if f := j.Num(); f == f && !math.IsInf(f, 0) {
				return j
			}
		}
	case "str":
		return rb.JStr(rb.GenString(r))
	case "bool":
		return rb.JBool(r.Bool())
	case "arr":
		n := r.Range(0, 3)
		e := make([]rb.JV, n)
		for i := range e {
			switch {
			case len(p.E) > 0 && r.Chance(1, 3):
				e[i] = sameShape(r, p.E[0], depth-1)
			case len(p.E) > 0 && r.Chance(1, 2):
				// same nesting, different leaf kind: the arrays then export to
				// slices of the same kind and element kind but different types
				e[i] = swapLeaves(r, sameShape(r, p.E[0], depth-1))
			default:
				e[i] = genJSONLike(r, depth-1)
			}
		}
		return rb.JArr(e...)
	case "obj":
		n := r.Range(0, 3)
		e := make([]rb.JV, n)
		for i := range e {
			e[i] = genJSONLike(r, depth-1)
		}
		return rb.JObj(rb.GenKeys(r, n), e)
	}
	return p
}

// swapLeaves replaces number leaves by strings and vice versa.
func swapLeaves(r *gen.Rand, j rb.JV) rb.JV {
	switch j.K {
	case "num":
		return rb.JStr(rb.GenString(r))
	case "str":
		return rb.JNum(float64(r.Range(-9, 9)))
	case "bool":
		return rb.JNum(float64(r.Range(0, 1)))
	case "arr":
		e := make([]rb.JV, len(j.E))
		for i := range e {
			e[i] = swapLeaves(r, j.E[i])
		}
		return rb.JArr(e...)
	}
	return j
}

func genExotic(r *gen.Rand) rb.JV {
	switch r.Intn(10) {
	case 0:
		t := rb.JNum([]float64{0, 1e12, -1, 8.64e15, math.NaN(), 86400000}[r.Intn(6)])
		t.K = "date"
		return t
	case 1:
		return rb.JV{K: "regexp", S: []string{"a", "a+b", "^x$", "[0-9]"}[r.Intn(4)]}
	case 2:
		return rb.JV{K: "func"}
	case 3:
		return rb.JV{K: "error", S: []string{"Error", "TypeError", "RangeError", "SyntaxError", "ReferenceError", "EvalError", "URIError"}[r.Intn(7)]}
	case 4:
		j := genJNum(r)
		j.K, j.S = "boxnum", ""
		return j
	case 5:
		return rb.JV{K: "boxstr", S: rb.GenString(r)}
	case 6:
		return rb.JV{K: "boxbool", B: r.Bool()}
	case 7:
		return rb.JV{K: "args", E: []rb.JV{genJPrim(r), genJPrim(r)}}
	case 8:
		return rb.JV{K: "arraylike", E: []rb.JV{genJPrim(r), genJPrim(r)}}
	}
	// array with undefined / holes
	return rb.JArr(genJPrim(r), rb.JUndef(), genJPrim(r))
}

// genNested draws an array whose elements are arrays nested to the same
// depth, each with its own leaf kind (numbers, strings, booleans, objects):
// Export's common-type detection sees equal kinds and element kinds.
func genNested(r *gen.Rand) rb.JV {
	depth := r.Range(1, 2)
	var build func(d int, leaf int) rb.JV
	build = func(d int, leaf int) rb.JV {
		if d == 0 {
			switch leaf {
			case 0:
				return rb.JNum(float64(r.Range(-100, 100)))
			case 1:
				return rb.JStr(rb.GenString(r))
			case 2:
				return rb.JBool(r.Bool())
			case 3:
				return rb.JNum(float64(r.Range(-100, 100)) + 0.5)
			}
			return rb.JObj([]string{"a"}, []rb.JV{rb.JNum(1)})
		}
		n := r.Range(1, 3)
		e := make([]rb.JV, n)
		for i := range e {
			e[i] = build(d-1, leaf)
		}
		return rb.JArr(e...)
	}
	n := r.Range(2, 3)
	e := make([]rb.JV, n)
	for i := range e {
		e[i] = build(depth, r.Intn(5))
	}
	return rb.JArr(e...)
}

func genJV(r *gen.Rand) rb.JV {
	switch r.Weighted([]int{42, 38, 15, 5}) {
	case 0:
		return genJPrim(r)
	case 1:
		return genJSONLike(r, 3)
	case 2:
		return genExotic(r)
	}
	return genNested(r)
}

// ---------------------------------------------------------------- calls

// CallCase describes one use of Value.Call / Object.Call / Otto.Call.
type CallCase struct {
	API  string  `json:"api"` // value | object | otto
	Fn   string  `json:"fn"`  // fixture function / source
	This *rb.JV  `json:"this,omitempty"`
	Args []rb.GV `json:"args,omitempty"`
}

var valueFns = []string{"__trace", "__thrower", "__retv", "__nf", "__o"}
var objectFns = []string{"m", "thr", "retv", "nf", "missing"}
var ottoSrcs = []string{"__trace", "__o.m", "__thrower", "__o.thr", "__retv", "__nf", "__nodef", "__o.missing", "new __Ctor", "[1,2,3].concat", "Object", "new Object", "__o.inner.m", "(function(a){return typeof this + ':' + a})"}

func genCall(r *gen.Rand) CallCase {
	var cc CallCase
	cc.API = []string{"value", "object", "otto"}[r.Intn(3)]
	switch cc.API {
	case "value":
		cc.Fn = valueFns[r.Weighted([]int{6, 4, 3, 1, 1})]
		var th rb.JV
		switch r.Intn(7) {
		case 0:
			th = rb.JUndef()
		case 1:
			th = rb.JNull()
		case 2:
			th = rb.JBool(r.Bool())
		case 3:
			th = genJNum(r)
			th.S = ""
		case 4:
			th = rb.JStr(rb.GenString(r))
		default:
			th = rb.JV{K: "obj"} // the fixture object __o
		}
		cc.This = &th
	case "object":
		cc.Fn = objectFns[r.Weighted([]int{6, 4, 3, 1, 1})]
	case "otto":
		cc.Fn = ottoSrcs[r.Intn(len(ottoSrcs))]
		if r.Chance(1, 2) {
			var th rb.JV
			switch r.Intn(5) {
			case 0:
				th = rb.JBool(r.Bool())
			case 1:
				th = rb.JNum(float64(r.Range(-5, 5)))
			case 2:
				th = rb.JStr(rb.GenString(r))
			default:
				th = rb.JV{K: "obj"}
			}
			cc.This = &th
		}
	}
	n := r.Range(0, 3)
	for i := 0; i < n; i++ {
		if r.Chance(1, 4) {
			cc.Args = append(cc.Args, rb.GenAny(r, 2))
		} else {
			cc.Args = append(cc.Args, rb.GenAnyScalar(r))
		}
	}
	if cc.Fn == "__thrower" || cc.Fn == "thr" || cc.Fn == "__o.thr" {
		k := rb.GInt64("int", int64(r.Range(0, 8)))
		if len(cc.Args) == 0 {
			cc.Args = []rb.GV{k}
		} else {
			cc.Args[0] = k
		}
	}
	return cc
}
