package c15

import (
	"math"
	"math/big"
	"reflect"
	"strings"

	rb "verif/internal/refbridge"
	"verif/internal/run"
)

func inputOf(f *run.Failure) (Input, bool) {
	in, ok := f.In.(Input)
	return in, ok
}

func anyGV(g rb.GV, pred func(rb.GV) bool) bool {
	if pred(g) {
		return true
	}
	for _, e := range g.E {
		if anyGV(e, pred) {
			return true
		}
	}
	return false
}

func inputHasGV(in Input, pred func(rb.GV) bool) bool {
	if in.G != nil && anyGV(*in.G, pred) {
		return true
	}
	if in.Call != nil {
		for _, a := range in.Call.Args {
			if anyGV(a, pred) {
				return true
			}
		}
	}
	return false
}

// effective dereferences pointers to scalars (what the bridge does).
func effective(g rb.GV) rb.GV {
	for g.Kind() == reflect.Ptr && !g.Nil && len(g.E) == 1 {
		g = g.E[0]
	}
	return g
}

var two53 = new(big.Int).Lsh(big.NewInt(1), 53)

func beyond53(i *big.Int) bool { return new(big.Int).Abs(i).Cmp(two53) > 0 }

// exactIntegerOfDouble returns the exact decimal of an integral double.
func exactIntegerOfDouble(d float64) (string, bool) {
	if d != d || math.IsInf(d, 0) || d != math.Trunc(d) {
		return "", false
	}
	r := rb.RatOfFloat(d)
	return r.Num().String(), true
}

// predictedExportType mimics the types Value.Export assigns to JSON-like data
// (value.go export): used only to recognise the input region of the
// nested-array panic.
func predictedExportType(j rb.JV) (typ string, clash bool) {
	switch j.K {
	case "null", "undef":
		return "nil", false
	case "bool":
		return "bool", false
	case "str":
		return "string", false
	case "num":
		f := j.Num()
		switch {
		case j.S == "i32":
			return "int32", false
		case j.S == "u32":
			return "uint32", false
		case f == math.Trunc(f) && f >= 0 && f < 1<<53 && !math.Signbit(f):
			return "int64", false // integer literal; negative literals are unary minus -> float64
		}
		return "float64", false
	case "obj":
		for _, e := range j.E {
			if _, c := predictedExportType(e); c {
				return "", true
			}
		}
		return "map[string]any", false
	case "arr":
		if len(j.E) == 0 {
			return "[]any", false
		}
		var types []string
		for _, e := range j.E {
			t, c := predictedExportType(e)
			if c {
				return "", true
			}
			types = append(types, t)
		}
		shape := func(t string) string { // (kind, elem kind) as compared by export()
			switch {
			case strings.HasPrefix(t, "[][]"):
				return "slice-of-slice"
			case strings.HasPrefix(t, "[]map"):
				return "slice-of-map"
			case strings.HasPrefix(t, "[]"):
				return "slice-of-" + t[2:]
			}
			return t
		}
		same, sameShape := true, true
		for _, t := range types[1:] {
			if t != types[0] {
				same = false
			}
			if shape(t) != shape(types[0]) {
				sameShape = false
			}
		}
		last := types[len(types)-1]
		switch {
		case same && last != "nil" && last != "any":
			return "[]" + last, false
		case sameShape && !same:
			return "", true // equal kinds, different types: reflect.Set panics
		}
		return "[]any", false
	}
	return "any", false
}

func registerMatchers() {
	// A named float32 type (type MyF32 float32) reaches the runtime as a raw
	// float32, which Value.float64 has no case for: panic(fmt.Errorf("toFloat(%T)")).
	run.RegisterMatcher("c15.namedFloat32Panic", func(f *run.Failure) bool {
		in, ok := inputOf(f)
		return ok && f.Kind == "panic" && f.Actual == "toFloat(float32)" &&
			inputHasGV(in, func(g rb.GV) bool { return g.T == "MyF32" })
	})
	// ToInteger of a Go uint/uint64 goes through float64: values above 2^53 are
	// rounded (int64 and int keep their exact value).
	run.RegisterMatcher("c15.toIntegerUintRounded", func(f *run.Failure) bool {
		in, ok := inputOf(f)
		if !ok || f.Site != "go:ToInteger" || f.Kind != "mismatch" || in.G == nil {
			return false
		}
		g := effective(*in.G)
		if g.T != "uint" && g.T != "uint64" || !beyond53(g.Int()) {
			return false
		}
		d := rb.NearestFloat64(new(big.Rat).SetInt(g.Int()))
		return f.Actual == big.NewInt(rb.ToIntegerClamp(d)).String() && f.Actual != f.Expected
	})
	// A Go integer beyond 2^53 stays an exact int64/uint64 inside the runtime;
	// String(x) prints all its digits, which ES5 9.8.1 allows for no double.
	run.RegisterMatcher("c15.bigIntString", func(f *run.Failure) bool {
		in, ok := inputOf(f)
		if !ok || f.Site != "go:script:String(x)" || in.G == nil {
			return false
		}
		g := effective(*in.G)
		return rb.IsIntType(g.T) && beyond53(g.Int()) && f.Actual == g.Int().String()
	})
	// JSON.stringify serialises integral numbers below 2^63 as exact int64
	// digits instead of ToString(number) (ES5 15.12.3 Str step 9).
	run.RegisterMatcher("c15.jsonIntegralExact", func(f *run.Failure) bool {
		in, ok := inputOf(f)
		if !ok || f.Site != "go:script:JSON.stringify" || in.G == nil {
			return false
		}
		g := effective(*in.G)
		if rb.IsIntType(g.T) && beyond53(g.Int()) && f.Actual == g.Int().String() {
			// the exact Go integer (signed types; unsigned ones too once ToInteger keeps them exact)
			return true
		}
		var d float64
		switch {
		case rb.IsIntType(g.T):
			d = rb.NearestFloat64(new(big.Rat).SetInt(g.Int()))
		case rb.IsFloatType(g.T):
			d = g.Float()
		default:
			return false
		}
		s, integral := exactIntegerOfDouble(d)
		return integral && math.Abs(d) > 1<<53 && math.Abs(d) < 9223372036854775808.0 && f.Actual == s
	})
	// floatToString picks the exponent layout from math.Log10, which rounds up
	// to 21 for the doubles just below 1e21 (C06 owns the mechanism).
	run.RegisterMatcher("c15.toString1e21", func(f *run.Failure) bool {
		if f.Site != "go:ToString" && f.Site != "go:script:String(x)" && f.Site != "js:ToString(number)" {
			return false
		}
		a := strings.TrimPrefix(f.Actual, "-")
		if !strings.HasSuffix(a, "e+20") {
			return false
		}
		d := rb.StringToNumber(a)
		return d >= 9.5e20 && d < 1e21 && math.Log10(d) >= 21
	})
	// Export of an Array whose elements are slices of equal kind and element
	// kind but different types ([][]int64 vs [][]string): reflect.Set panics.
	run.RegisterMatcher("c15.exportNestedPanic", func(f *run.Failure) bool {
		in, ok := inputOf(f)
		if !ok || f.Kind != "panic" || f.Site != "js:Export" || in.J == nil || !strings.HasPrefix(f.Actual, "reflect.Set: value of type ") {
			return false
		}
		_, clash := predictedExportType(*in.J)
		return clash
	})
}
