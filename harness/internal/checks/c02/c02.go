// Package c02 monitors that nothing a script does can crash or wedge the
// embedding Go program: every public API call returns a value or an error.
// Workloads: (1) the complete reachable built-in surface x receiver kinds x
// argument kinds, (2) hostile source text through every source-taking entry
// point, (3) the Value/Object accessors on every value produced, (4)
// recursion around configured stack limits.
package c02

import (
	"encoding/json"
	"fmt"
	"os"
	"regexp"
	"strings"
	"time"

	"github.com/robertkrimen/otto"

	"verif/internal/gen"
	"verif/internal/gt"
	"verif/internal/litfuzz"
	"verif/internal/ox"
	"verif/internal/pgen"
	"verif/internal/run"
)

// Input is one self-contained case.
type Input struct {
	Kind string `json:"kind"` // surface | source | stack
	// surface
	Fn   string `json:"fn,omitempty"`   // path expression of the built-in, e.g. String.prototype.charAt
	This int    `json:"this,omitempty"` // receiver kind index (-1 = all)
	A    int    `json:"a,omitempty"`
	B    int    `json:"b,omitempty"`
	C    int    `json:"c,omitempty"`
	Via  string `json:"via,omitempty"` // call | new | apply | bind | gocall
	All  bool   `json:"all,omitempty"` // whole batch for Fn (driver cases)
	// source
	Src string `json:"src,omitempty"`
	Hex string `json:"hex,omitempty"`
	API string `json:"api,omitempty"`
	// stack
	Limit int    `json:"limit,omitempty"`
	Depth int    `json:"depth,omitempty"`
	Shape string `json:"shape,omitempty"`
}

// valueKinds are JavaScript expressions producing a fresh value each time.
var valueKinds = []string{
	"undefined", "null", "true", "0", "-0", "NaN", "1", "-1", "1.5", "255", "65536", "2147483648", "4294967295", "4294967296", "9007199254740992", "1e21", "Infinity", "-Infinity",
	`""`, `"a"`, `"a\u00e9\ud83d\ude00"`, `"12"`, `"length"`, `"__proto__"`, `new String("ab")`, `new Number(5)`, `new Boolean(false)`,
	"[]", "[1,2,3]", "[1,,3]", "[[1],[2]]", `({length:3,0:"a",2:"c"})`, "({length:3000})", `({length:"2",0:1,1:2})`, "({length:2.7,0:1})", "({})", `({a:1,b:{c:2}})`,
	"Object.freeze({a:1})", "Object.freeze([1,2])", "Object.create(null)",
	"function(){return 1}", "function(a,b){return this}", "function(){throw new Error('cb')}", "function(){return {}}", "Object", "Array.prototype.push", "eval",
	"new Date(0)", "new Date(NaN)", "/a/g", "/(a)|b/", "(function(){var r=/a/g; r.lastIndex=-1; return r})()", "(function(){var r=/a|/g; r.lastIndex=-Infinity; return r})()", "(function(){var r=/a/g; r.lastIndex=1e21; return r})()", "(function(){var r=/a/gm; r.lastIndex={valueOf:function(){return -2}}; return r})()", "new Error('e')", "new TypeError('t')", "(function(){return arguments})(1,2)",
	`({valueOf:function(){throw new RangeError("v")},toString:function(){throw new RangeError("s")}})`,
	`({valueOf:function(){return {}},toString:function(){return {}}})`,
	`({valueOf:function(){return 3},toString:function(){return "x"}})`,
	`({toString:function(){return "a"},length:2})`,
	`({get a(){throw new Error("g")},set a(v){throw new Error("s")}})`,
	"this", "Math", "JSON", "Object.prototype", "Array.prototype", "Function.prototype",
	"goStruct", "goMap", "goSlice", "goArray", "goFunc", "goPtr",
	// strings that are not valid UTF-8: handed in by the host, or cut out of a character by a byte offset
	"hostBytes", `(function(){var r=/./g; r.lastIndex=1; var m=r.exec("\u00e9"); return m ? m[0] : "none"})()`,
	// conversions to Go parameter types: a toString that returns its own object, an object that contains
	// itself (for a recursive Go struct type), arrays for Go array elements
	`({toString:function(){return this}})`, `(function(){var o={V:1}; o.Next=o; return o})()`, "[1.5]", "goStr", "goNode", "goPoints", "goNilFunc",
	// values produced by multi-step reflective sequences (appended: witnesses refer to kinds by index)
	"(function(){var o={x:1};Object.defineProperty(o,'x',{get:undefined,set:function(v){}});return Object.getOwnPropertyDescriptor(o,'x').get})()",
	"(function(){var o={x:1};Object.defineProperty(o,'x',{get:function(){return 1},set:undefined});return Object.getOwnPropertyDescriptor(o,'x')})()",
	"(function(){var o={};Object.defineProperty(o,'x',{get:undefined});Object.defineProperty(o,'x',{set:undefined});return Object.getOwnPropertyDescriptor(o,'x').set})()",
	"Object.getOwnPropertyDescriptor((function(a){return arguments})(1),'0')",
	"(function(){return 1}).bind({t:1},2)", "/(a)(b)?/.exec('ab')", `JSON.parse('{"a":[1,{"b":null}],"__proto__":{"c":1}}')`,
	"(function(){var a=[1,2,3];Object.defineProperty(a,'1',{get:function(){a.length=0;return 9},enumerable:true,configurable:true});return a})()",
	"(function(){var p={};Object.defineProperty(p,'inh',{get:function(){return this},set:function(v){throw new TypeError('s')},enumerable:true});return Object.create(p,{own:{value:1}})})()",
	"(function(){try{null.x}catch(e){return e}})()", "Object.create(new Error('p'))", "(function(){function M(){} M.prototype=new RangeError('p'); return new M()})()", "Object.create((function(){try{undefinedFn()}catch(e){return e}})())", "Object.create(/x/g)", "Object.create(new Date(0))", "Object.create([1,2])", "Object.create(function(a,b){})", "Object.create((function(){return arguments})(1,2))", "Object.create(new String('ab'))", "Object.preventExtensions([1,2])", "Object.seal({a:{}})", "(function(){var f=function(){};f.prototype=null;return f})()",
	// numeric boundaries for the position/count product (appended)
	`"abcdefgh"`, "2", "-3", "9223372036854775807", "-9223372036854775808", "1e300", "-1e300", "[1,2,3,4,5,6]",
}

// boundary product: index and count arguments around 0, inside the receiver,
// and beyond every integer width, fully crossed on receivers that have a
// length. Position arithmetic (start + count, size - start) fails on pairs,
// not on single values, so sampling pairs from the whole kind list seldom
// meets the ones that matter.
var boundaryNums = kindIndexes("undefined", "0", "NaN", "1", "-1", "1.5", "-3", "2147483648", "4294967296", "9007199254740992", "9223372036854775807", "1e21", "-1e300", "Infinity", "-Infinity")
var boundaryFirst = kindIndexes("undefined", "1", "[1,2,3,4,5,6]")
var boundaryRecv = kindIndexes(`"abcdefgh"`, `"a\u00e9\ud83d\ude00"`, "[1,2,3,4,5,6]", `({length:3,0:"a",2:"c"})`, "goSlice")

func kindIndexes(names ...string) []int {
	var out []int
	for _, n := range names {
		found := false
		for i, k := range valueKinds {
			if k == n {
				out = append(out, i)
				found = true
				break
			}
		}
		if !found {
			panic("c02: no value kind " + n)
		}
	}
	return out
}

// excluded: (function suffix, reason). Resource exhaustion is outside the
// statement of C02 (DESIGN.md section 8): these take a digit count from an
// argument and allocate that many bytes.
var bigDigitFns = map[string]bool{"toPrecision": true, "toExponential": true, "toFixed": true}

func init() {
	run.Register(&run.Check{
		ID:   "C02",
		Rule: "surface cases: every function reachable from the global object (discovered at run time by walking own property names, accessors included) x every receiver kind x pairs/triples of argument kinds (quick: all receivers x a seed-chosen 3x3 slice of argument-kind pairs; thorough: all receivers x a seed-chosen 12x12 slice, plus sampled third arguments and new/apply/bind/Go-API routes), each result and each caught exception passed through every Value/Object accessor; source cases: junk and mutated programs through Run/Eval/Compile/Call/Object/eval/Function; stack cases: recursion shapes x limits x depths around the limit; non-trivial = distinct (function, receiver kind, argument kinds) triples whose call reached the built-in (returned or threw a JS error), distinct hostile sources, distinct (shape, limit, depth)",
		Assumptions: []string{
			"resource exhaustion is out of scope: array-like lengths are capped at 65536, and digit-count arguments above 3000 are not passed to toFixed/toExponential/toPrecision (they allocate that many bytes)",
			"a worker process death or a hang (driver watchdog, confirmed alone) is attributed to the announced call",
			"host interrupt functions are not used here (C18)",
		},
		CaseTimeoutS: 300,
		Floor: func(tier string) int {
			if tier == "thorough" {
				return 500000
			}
			return 30000
		},
		Cases: func(tier string, seed uint64) int {
			if tier == "thorough" {
				return 30000
			}
			return 1500
		},
		Exec: exec,
		Replay: func(c *run.Ctx, raw json.RawMessage) {
			var in Input
			if err := json.Unmarshal(raw, &in); err != nil {
				panic(err)
			}
			replay(c, in)
		},
	})
	registerMatchers()
}

// ---------------------------------------------------------------- go values for bridging

type goS struct {
	A int
	B string `json:"bee"`
	c int
	D []int
	E map[string]int
}

func (g goS) Method(x int) int { return x + g.A }

// goNode is a recursive Go type (a cyclic JavaScript object has no finite conversion to it).
type goNode struct {
	Next *goNode
	V    int
}

// goCB has callback fields that are not set.
type goCB struct {
	OnChange func(string) string
	Name     string
}

func newVM() *otto.Otto {
	vm := otto.New()
	vm.SetStackDepthLimit(300)
	vm.Set("goStruct", goS{A: 1, B: "b", D: []int{1}, E: map[string]int{"k": 1}})
	vm.Set("goPtr", &goS{A: 2})
	vm.Set("goMap", map[string]interface{}{"a": 1, "b": []int{1, 2}})
	vm.Set("goSlice", []int{1, 2, 3})
	vm.Set("goArray", [2]string{"x", "y"})
	vm.Set("goFunc", func(a int, b string) (int, error) { return a + len(b), nil })
	vm.Set("hostBytes", "caf\xe9\xff")
	vm.Set("goStr", func(s string) string { return s })
	vm.Set("goNode", func(n *goNode) int {
		if n == nil {
			return 0
		}
		return n.V
	})
	vm.Set("goPoints", [][2]float64{{1, 2}})
	vm.Set("goNilFunc", (func(int) int)(nil))
	vm.Set("goCallbacks", &goCB{})
	return vm
}

const discoverJS = `(function(){
  var seen=[], out=[], q=[[this,"this",0]];
  // objects the runtime creates carry functions of their own (accessors such as an error's stack getter)
  var inst=['new Error("x")','(function(){try{null.x}catch(e){return e}})()','[]','(function(){})','(function(){}).bind(null)','/x/g','new Date(0)','(function(){return arguments})(1)','Object("s")','Object(1)','JSON.parse("{}")','/a/.exec("a")'];
  for(var ii=0;ii<inst.length;ii++){ try{ q.push([eval(inst[ii]),"("+inst[ii]+")",3]) }catch(e){} }
  function idx(o){for(var i=0;i<seen.length;i++)if(seen[i]===o)return i;return -1}
  while(q.length){
    var it=q.shift(), o=it[0], path=it[1], d=it[2];
    if((typeof o!=="object"&&typeof o!=="function")||o===null) continue;
    if(idx(o)>=0) continue; seen.push(o);
    if(typeof o==="function"&&path!=="this") out.push(path);
    if(d>=4) continue;
    var names; try{names=Object.getOwnPropertyNames(o)}catch(e){continue}
    for(var i=0;i<names.length;i++){
      var n=names[i], desc; try{desc=Object.getOwnPropertyDescriptor(o,n)}catch(e){continue}
      if(!desc) continue;
      var p=(path==="this"?"":path+".")+n;
      if(!/^[A-Za-z_$][A-Za-z0-9_$]*$/.test(n)) p=(path==="this"?"this":path)+"["+JSON.stringify(n)+"]";
      if("value" in desc) q.push([desc.value,p,d+1]);
      if(desc.get) q.push([desc.get,"Object.getOwnPropertyDescriptor("+(path==="this"?"this":path)+","+JSON.stringify(n)+").get",d+1]);
      if(desc.set) q.push([desc.set,"Object.getOwnPropertyDescriptor("+(path==="this"?"this":path)+","+JSON.stringify(n)+").set",d+1]);
    }
  }
  return out.join("\n");
})()`

var surface []string

// Surface discovers the reachable built-in functions of a fresh runtime.
func Surface() []string {
	if surface != nil {
		return surface
	}
	vm := otto.New()
	v, err := vm.Run(discoverJS)
	if err != nil {
		panic("surface discovery failed: " + err.Error())
	}
	for _, p := range strings.Split(v.String(), "\n") {
		if p == "" || strings.HasPrefix(p, "console") {
			continue
		}
		surface = append(surface, p)
	}
	return surface
}

// ---------------------------------------------------------------- accessors

// touch runs every public accessor on a value; any Go panic propagates.
func touch(v otto.Value) {
	if o := v.Object(); o != nil {
		// resource-exhaustion exclusion: nothing is done with objects whose
		// length is beyond the 65536 cap (e.g. new Array(4294967295)): even
		// String() would join billions of holes
		if l, err := o.Get("length"); err == nil && l.IsNumber() {
			if f, _ := l.ToFloat(); f > 70000 {
				return
			}
		}
	}
	_ = v.String()
	_, _ = v.ToString()
	_, _ = v.ToFloat()
	_, _ = v.ToInteger()
	_, _ = v.ToBoolean()
	_ = v.IsDefined() && v.IsUndefined() && v.IsNull() && v.IsPrimitive() && v.IsBoolean() && v.IsNumber() && v.IsNaN() && v.IsString() && v.IsObject() && v.IsFunction()
	_ = v.Class()
	if o := v.Object(); o != nil && len(o.Keys()) > 24 {
		// large graphs (the global object, prototypes) are exported by a
		// dedicated case only; skipping them here keeps the product affordable
		_ = o.Class()
		_, _ = o.Get("length")
		return
	}
	if o := v.Object(); o != nil {
		// inherited accessors run with this object as receiver
		for _, k := range []string{"stack", "message", "name", "caller", "arguments", "callee", "lastIndex", "source", "prototype", "constructor", "0", "length"} {
			_, _ = o.Get(k)
		}
	}
	_, _ = v.Export()
	_, _ = v.MarshalJSON()
	if o := v.Object(); o != nil {
		_ = o.Class()
		ks := o.Keys()
		_ = o.KeysByParent()
		_ = o.Value()
		_, _ = o.MarshalJSON()
		for i, k := range ks {
			if i > 3 {
				break
			}
			_, _ = o.Get(k)
		}
		_, _ = o.Get("length")
		_, _ = o.Get("no such property")
	}
}

// ---------------------------------------------------------------- surface batches

type mark struct{ t, a, b, c int }

// runBatch calls fn with the given receiver/argument index lists inside one
// runtime; returns the number of calls that reached the built-in.
func runBatch(c *run.Ctx, fn string, via string, ts, as, bs, cs []int) {
	vm := newVM()
	var cur mark
	reached := 0
	vm.Set("$mark", func(call otto.FunctionCall) otto.Value {
		t, _ := call.Argument(0).ToInteger()
		a, _ := call.Argument(1).ToInteger()
		b, _ := call.Argument(2).ToInteger()
		cc, _ := call.Argument(3).ToInteger()
		cur = mark{int(t), int(a), int(b), int(cc)}
		if os.Getenv("C02_TRACE") != "" {
			fmt.Fprintf(os.Stderr, "mark %s via=%s this=%s a=%s b=%s c=%s\n", fn, via, valueKinds[cur.t], valueKinds[cur.a], valueKinds[cur.b], valueKinds[cur.c])
		}
		// written to disk before the call: a fatal error or a hang leaves the culprit identified
		c.Announce(Input{Kind: "surface", Fn: fn, Via: via, This: cur.t, A: cur.a, B: cur.b, C: cur.c})
		return otto.UndefinedValue()
	})
	vm.Set("$touch", func(call otto.FunctionCall) otto.Value {
		reached++
		touch(call.Argument(0))
		c.Nontrivial(fmt.Sprintf("%s|%s|%d|%d|%d|%d", fn, via, cur.t, cur.a, cur.b, cur.c))
		return otto.UndefinedValue()
	})
	vm.Set("$caught", func(call otto.FunctionCall) otto.Value {
		reached++
		goRuntimeError(c, fn, via, cur.t, cur.a, cur.b, cur.c, call.Argument(0))
		touch(call.Argument(0))
		c.Nontrivial(fmt.Sprintf("%s|%s|%d|%d|%d|%d", fn, via, cur.t, cur.a, cur.b, cur.c))
		return otto.UndefinedValue()
	})
	var kinds strings.Builder
	kinds.WriteString("var $K=[")
	for i, k := range valueKinds {
		if i > 0 {
			kinds.WriteString(",")
		}
		kinds.WriteString("function(){return " + k + "}")
	}
	kinds.WriteString("];")
	call := "$f.call($K[t](),$K[a](),$K[b](),$K[c]())"
	switch via {
	case "new":
		call = "new $f($K[a](),$K[b](),$K[c]())"
	case "apply":
		call = "$f.apply($K[t](),[$K[a](),$K[b](),$K[c]()])"
	case "bind":
		call = "$f.bind($K[t](),$K[a]())($K[b](),$K[c]())"
	case "newbind":
		call = "new ($f.bind($K[t](),$K[a]()))($K[b](),$K[c]())"
	case "bindbind":
		call = "$f.bind($K[t]()).bind($K[a](),$K[b]())($K[c]())"
	case "callcall":
		call = "$f.call.call($f,$K[t](),$K[a](),$K[b]())"
	case "applyapply":
		call = "$f.apply.apply($f,[$K[t](),[$K[a](),$K[b](),$K[c]()]])"
	case "call1":
		call = "$f.call($K[t](),$K[a]())"
	case "call0":
		call = "$f.call($K[t]())"
	}
	lim := ""
	if i := strings.LastIndex(fn, "."); i >= 0 && bigDigitFns[fn[i+1:]] {
		// resource-exhaustion exclusion: digit counts above 3000
		lim = "if(typeof $K[a]()==='number'&&$K[a]()>3000)continue;"
	}
	ints := func(xs []int) string {
		s := make([]string, len(xs))
		for i, x := range xs {
			s[i] = fmt.Sprint(x)
		}
		return "[" + strings.Join(s, ",") + "]"
	}
	driver := kinds.String() + fmt.Sprintf(`
var $sane = (function(){
  // Calls of one batch share a runtime. An earlier call may have given a shared
  // object (a standard prototype, the global object) an own "length" of 2^32-1;
  // every later array method on anything inheriting it then loops 2^32 times,
  // which ES5 itself prescribes (resource exhaustion, outside the property).
  var hop = Object.prototype.hasOwnProperty, G = this,
      shared = [Object.prototype, Number.prototype, Boolean.prototype, Date.prototype, RegExp.prototype, Error.prototype, TypeError.prototype, RangeError.prototype, Math, JSON, G, Function.prototype];
  return function(){
    for (var i = 0; i < shared.length; i++) {
      try { if (hop.call(shared[i], "length") && !(shared[i].length <= 70000)) { if (!delete shared[i].length) shared[i].length = 0 } } catch (e) {}
    }
    try { if (!(Array.prototype.length <= 70000)) Array.prototype.length = 0 } catch (e) {}
    try { if (hop.call(String.prototype, "length") && !(String.prototype.length <= 70000)) delete String.prototype.length } catch (e) {}
  };
})();
var $f; try { $f = %s } catch (e) { $f = undefined }
var $T=%s,$A=%s,$B=%s,$C=%s,$start=%%d,$n=0;
if (typeof $f === "function") {
for (var ti=0;ti<$T.length;ti++) for (var ai=0;ai<$A.length;ai++) for (var bi=0;bi<$B.length;bi++) for (var ci=0;ci<$C.length;ci++) {
  if ($n++ < $start) continue;
  var t=$T[ti],a=$A[ai],b=$B[bi],c=$C[ci];
  %s
  $sane();
  $mark(t,a,b,c);
  try { $touch(%s) } catch (e) { $caught(e) }
}}
$n`, fn, ints(ts), ints(as), ints(bs), ints(cs), lim, call)
	start := 0
	total := len(ts) * len(as) * len(bs) * len(cs)
	for attempts := 0; attempts < 50 && start < total; attempts++ {
		in := Input{Kind: "surface", Fn: fn, Via: via, All: true}
		c.Announce(in)
		var out ox.Outcome
		src := fmt.Sprintf(driver, start)
		out = ox.Run(vm, src)
		c.Eval(reached)
		reached = 0
		if out.Panic == nil {
			if out.Err != nil {
				// the driver itself failed (e.g. a call replaced Array.prototype methods the driver needs)
				c.Note("driver-aborted")
			}
			break
		}
		one := Input{Kind: "surface", Fn: fn, Via: via, This: cur.t, A: cur.a, B: cur.b, C: cur.c}
		c.Fail("panic", fn, one, "value or error", fmt.Sprint(out.Panic), fmt.Sprintf("this=%s a=%s b=%s c=%s via=%s @ %s", valueKinds[cur.t], valueKinds[cur.a], valueKinds[cur.b], valueKinds[cur.c], via, out.Stack))
		// continue after the culprit on a fresh runtime
		pos := 0
	find:
		for _, t := range ts {
			for _, a := range as {
				for _, b := range bs {
					for _, cc := range cs {
						pos++
						if t == cur.t && a == cur.a && b == cur.b && cc == cur.c && pos > start {
							break find
						}
					}
				}
			}
		}
		start = pos
		vm = newVM()
		vm.Set("$mark", func(call otto.FunctionCall) otto.Value {
			t, _ := call.Argument(0).ToInteger()
			a, _ := call.Argument(1).ToInteger()
			b, _ := call.Argument(2).ToInteger()
			cc, _ := call.Argument(3).ToInteger()
			cur = mark{int(t), int(a), int(b), int(cc)}
			return otto.UndefinedValue()
		})
		vm.Set("$touch", func(call otto.FunctionCall) otto.Value {
			reached++
			touch(call.Argument(0))
			return otto.UndefinedValue()
		})
		vm.Set("$caught", func(call otto.FunctionCall) otto.Value {
			reached++
			goRuntimeError(c, fn, via, cur.t, cur.a, cur.b, cur.c, call.Argument(0))
			touch(call.Argument(0))
			return otto.UndefinedValue()
		})
	}
	c.Feature("via:" + via)
}

var goErrRe = regexp.MustCompile(`runtime error:|\(runtime\.\w+\)|interface conversion:|reflect: |nil pointer dereference|index out of range|slice bounds out of range|^(strings|bytes|sort|time|math/big|unicode/utf8|unicode/utf16|sync): `)

// goRuntimeError reports a Go run-time error (nil dereference, index out of
// range, failed type assertion) inside a built-in. Inside a script's try block
// the interpreter hands such an error to the script as a TypeError, so the
// batch driver's catch sees it instead of the API boundary; outside a try block
// the very same call brings Run down with a Go panic.
func goRuntimeError(c *run.Ctx, fn, via string, t, a, b, cc int, e otto.Value) {
	msg := ""
	if e.IsString() {
		msg = e.String() // older trees hand the bare text of the run-time error to the script
	} else if e.IsObject() {
		if m, err := e.Object().Get("message"); err == nil && m.IsString() {
			msg = m.String()
		}
	}
	if goErrRe.MatchString(msg) {
		in := Input{Kind: "surface", Fn: fn, Via: via, This: t, A: a, B: b, C: cc}
		c.Fail("panic", fn, in, "value or JavaScript exception", "Go run-time error surfaced as a catchable TypeError: "+msg, fmt.Sprintf("receiver=%s args=%s,%s,%s via=%s (the same call outside try/catch escapes Run as a Go panic)", kindName(t), kindName(a), kindName(b), kindName(cc), via))
	}
}

func kindName(i int) string {
	if i >= 0 && i < len(valueKinds) {
		return valueKinds[i]
	}
	return fmt.Sprint(i)
}

func seq(n int) []int {
	out := make([]int, n)
	for i := range out {
		out[i] = i
	}
	return out
}

func sample(r *gen.Rand, n, k int) []int {
	if k >= n {
		return seq(n)
	}
	p := r.Perm(n)[:k]
	return p
}

func exec(c *run.Ctx, i int) {
	start := time.Now()
	defer func() {
		if d := time.Since(start); d > 8*time.Second {
			c.Note(fmt.Sprintf("slow-case:%d:%ds", i, int(d.Seconds())))
		}
	}()
	fns := Surface()
	nk := len(valueKinds)
	r := c.Rng
	switch {
	case i < len(fns):
		// every function: all receivers x pairwise-sampled arguments
		fn := fns[i]
		na := 3
		if c.Thorough() {
			na = 12
		}
		runBatch(c, fn, "call", seq(nk), sample(r, nk, na), sample(r, nk, na), []int{0})
		runBatch(c, fn, "new", []int{0}, sample(r, nk, na+2), sample(r, nk, na), sample(r, nk, 2))
		runBatch(c, fn, "newbind", sample(r, nk, 2), sample(r, nk, 2), sample(r, nk, 2), []int{0})
		runBatch(c, fn, "call", boundaryRecv, boundaryNums, boundaryNums, []int{0})
		// the same boundary values as third argument (counts, gaps, limits), and every receiver with no argument at all
		runBatch(c, fn, "call", boundaryRecv[:3], boundaryFirst, boundaryFirst, boundaryNums)
		runBatch(c, fn, "call0", seq(nk), []int{0}, []int{0}, []int{0})
		if c.Index%7 == 0 {
			c.Sample(map[string]interface{}{"fn": fn, "receivers": nk, "arg_kinds": na})
		}
	case i < 2*len(fns) && c.Thorough():
		fn := fns[i-len(fns)]
		runBatch(c, fn, "apply", sample(r, nk, 12), sample(r, nk, 12), sample(r, nk, 12), sample(r, nk, 6))
		runBatch(c, fn, "bind", sample(r, nk, 12), sample(r, nk, 12), sample(r, nk, 12), sample(r, nk, 3))
		goAPI(c, fn, r)
	default:
		switch r.Intn(3) {
		case 0:
			fn := fns[r.Intn(len(fns))]
			runBatch(c, fn, []string{"apply", "bind", "call1", "call0", "newbind", "bindbind", "callcall", "applyapply"}[r.Intn(8)], sample(r, nk, 10), sample(r, nk, 10), sample(r, nk, 6), sample(r, nk, 2))
			goAPI(c, fn, r)
		case 1:
			sourceCase(c, r)
		default:
			stackCase(c, r)
		}
	}
}

// goAPI calls a built-in through Otto.Call / Value.Call / Object.Call.
func goAPI(c *run.Ctx, fn string, r *gen.Rand) {
	pairs := make([][2]int, 12)
	for k := range pairs {
		pairs[k] = [2]int{r.Intn(len(valueKinds)), r.Intn(len(valueKinds))}
	}
	goAPIPairs(c, fn, pairs)
}

func goAPIPairs(c *run.Ctx, fn string, pairs [][2]int) {
	vm := newVM()
	for _, pr := range pairs {
		t, a := pr[0], pr[1]
		in := Input{Kind: "surface", Fn: fn, Via: "gocall", This: t, A: a}
		c.Announce(in)
		pv, st := run.Guard(func() {
			tv, _ := vm.Run("(" + valueKinds[t] + ")")
			av, _ := vm.Run("(" + valueKinds[a] + ")")
			v, err := vm.Call(fn, tv, av, 1, "s", nil, []int{1}, map[string]interface{}{"k": 1.5})
			touch(v)
			_ = err
			if fv, err := vm.Run(fn); err == nil {
				v2, _ := fv.Call(tv, av)
				touch(v2)
				if o := fv.Object(); o != nil {
					v3, _ := o.Call("call", tv, av)
					touch(v3)
					_ = o.Set("x", av)
				}
			}
			v4, _ := vm.Call("new "+fn, nil, av)
			touch(v4)
		})
		c.Eval(4)
		if pv != nil {
			c.Fail("panic", fn, in, "value or error", fmt.Sprint(pv), fmt.Sprintf("via Go API this=%s a=%s @ %s", valueKinds[t], valueKinds[a], st))
			vm = newVM()
		}
	}
	c.Feature("via:gocall")
}

// ---------------------------------------------------------------- hostile sources

var apis = []string{"Run", "Eval", "Compile", "Call", "Object", "eval", "Function", "Set-Get"}

// hostileThrows: the value that reaches the API boundary uncaught has to be
// described (name, message, toString), which runs script code again.
var hostileThrows = []string{
	// conversions for Go parameters that have no end by themselves (a fatal stack overflow kills the worker)
	"goStr({toString:function(){return this}})", "var o={V:1}; o.Next=o; goNode(o)", "goStruct.B = {toString:function(){return this}}", "goCallbacks.OnChange('x')", "goNilFunc(1)",
	"goPoints[0] = [1.5]", "goPoints.push([7.5])", "'abc'.replace(hostBytes, 'x')", "hostBytes.replace(hostBytes, function(){ return hostBytes })",
	"throw {toString: function(){ throw 1 }}",
	"throw {toString: function(){ throw new RangeError('inner') }}",
	"throw {toString: function(){ throw {toString: function(){ throw 3 }} }}",
	"throw {toString: function(){ return {} }, valueOf: function(){ return {} }}",
	"throw {toString: function(){ return this }}",
	"var e = new Error('x'); Object.defineProperty(e, 'message', {get: function(){ throw 2 }}); throw e",
	"var e = new TypeError('x'); Object.defineProperty(e, 'name', {get: function(){ throw new Error('n') }}); throw e",
	"var e = new Error('x'); e.name = {toString: function(){ throw 4 }}; e.message = {toString: function(){ throw 5 }}; throw e",
	"var e = new Error('x'); e.toString = function(){ throw 6 }; throw e",
	"var e = Object.create(new RangeError('p')); e.message = 7; throw e",
	"Error.prototype.toString = function(){ throw 8 }; null.x",
	"Object.prototype.toString = function(){ throw 9 }; throw {}",
	"Object.defineProperty(Error.prototype, 'name', {get: function(){ throw 10 }}); undefinedFunction()",
	"throw function(){ throw 11 }",
	"throw Object.create(null)",
	"throw [{toString: function(){ throw 12 }}]",
	"throw new (function F(){ this.toString = function(){ return F() } })()",
	"(function f(){ throw {toString: f} })()",
}

// sourceMaps: base64 bodies of inline source map comments (a map with mappings into a source it does not list,
// ordinary maps, sectioned and malformed ones). The parser reads such a comment on the last line of any source.
var sourceMaps = []string{"eyJ2ZXJzaW9uIjozLCJzb3VyY2VzIjpbXSwibmFtZXMiOltdLCJtYXBwaW5ncyI6IkFBQUEifQ==", "eyJ2ZXJzaW9uIjozLCJzb3VyY2VzIjpbImEuanMiXSwibmFtZXMiOltdLCJtYXBwaW5ncyI6IkFBQUE7QUFDQTs7QUFFQSJ9", "eyJ2ZXJzaW9uIjozLCJzb3VyY2VzIjpbImEuanMiXSwibmFtZXMiOlsibiJdLCJtYXBwaW5ncyI6IkFBQUFBLENBQUMsQ0FBQyJ9", "eyJ2ZXJzaW9uIjozLCJzb3VyY2VzIjpbXSwibmFtZXMiOltdLCJtYXBwaW5ncyI6IkFBQ0E7QUNBQTtBRUFBIn0=", "eyJ2ZXJzaW9uIjozLCJzb3VyY2VSb290IjoiL3IiLCJzb3VyY2VzIjpbIngiXSwibWFwcGluZ3MiOiI7Ozs7QUFBQSJ9", "e30=", "eyJ2ZXJzaW9uIjozLCJzb3VyY2VzIjpudWxsLCJtYXBwaW5ncyI6IkFBQUEifQ==", "eyJ2ZXJzaW9uIjozLCJzb3VyY2VzIjpbImEiXSwibWFwcGluZ3MiOiIhISEhIn0=", "WzEsMl0=", "eyJ2ZXJzaW9uIjozLCJzZWN0aW9ucyI6W3sib2Zmc2V0Ijp7ImxpbmUiOjAsImNvbHVtbiI6MH0sIm1hcCI6eyJ2ZXJzaW9uIjozLCJzb3VyY2VzIjpbXSwibWFwcGluZ3MiOiJBQUFBIn19XX0=", "e30", "!!!", ""}

func hostileSource(r *gen.Rand) string {
	if r.Chance(1, 12) {
		prog := []string{"new Error('x').stack", "throw new Error('y')", "null.x", "(function f(){ return g() })()", "var e; try { undefinedFn() } catch (x) { e = x } [e.stack, String(e)].join()", "1"}[r.Intn(6)]
		return prog + "\n//# sourceMappingURL=data:application/json;base64," + sourceMaps[r.Intn(len(sourceMaps))]
	}
	if r.Chance(1, 6) {
		if r.Bool() {
			return hostileThrows[r.Intn(len(hostileThrows))]
		}
		return "throw " + valueKinds[r.Intn(len(valueKinds))]
	}
	switch r.Intn(8) {
	case 0:
		return litfuzz.Source(r)
	case 1:
		// the same fragments reach the pattern translator through the constructor and the string methods
		pat, _ := json.Marshal(litfuzz.Pattern(r))
		fl := []string{"", "g", "gi", "m", "x", "gg"}[r.Intn(6)]
		re := "new RegExp(" + string(pat) + ", \"" + fl + "\")"
		return []string{re + ".exec('aab\\n/')", "'aab'.match(" + string(pat) + ")", "'a/b'.split(" + re + ")", "'aab'.replace(" + re + ", '$1$&')", "'aab'.search(" + string(pat) + ")", "RegExp(" + string(pat) + ").toString()"}[r.Intn(6)]
	}
	g := pgen.NewG(r)
	p := g.Program()
	toks := gt.Tokens(p)
	if len(toks) > 300 {
		toks = toks[:300]
	}
	soup := []string{"&^", "&^=", "\\u", "\x00", "\xff", "'", "\"", "/", "/*", "0x", "1e", "@", "#", "`", "=>", "...", "**", "?.", "??", "class", "let", "const", "yield", "await", "enum", "super", "import", "export", "{", "}", "(", ")", "[", "]", "get", "set", "in", "new", "delete", "typeof", "void", "++", "--", ";", ",", ".", "\n", "\u2028", "0", "09", "08.5", "1_0", ".e1", "\\", "\\x", "\\u00", "/(/", "/[/", "/a/gg", "/(?<n>a)/", "\"\\u12\"", "'\\x1'", "'\\", "function", "return", "break", "continue", "L:", "case", "default", "catch", "finally", "else", "with", "debugger", "this", "null", "arguments", "eval"}
	n := r.Range(1, 4)
	for k := 0; k < n; k++ {
		j := r.Intn(len(toks))
		switch r.Intn(4) {
		case 0:
			toks = append(toks[:j], toks[j+1:]...)
		case 1:
			toks = append(toks[:j], append([]string{soup[r.Intn(len(soup))]}, toks[j:]...)...)
		case 2:
			toks[j] = soup[r.Intn(len(soup))]
		default:
			k2 := r.Intn(len(toks))
			toks[j], toks[k2] = toks[k2], toks[j]
		}
	}
	src := strings.Join(toks, " ")
	if r.Chance(1, 5) {
		src = src[:r.Intn(len(src)+1)]
	}
	if r.Chance(1, 8) {
		b := make([]byte, r.Range(1, 80))
		for i := range b {
			b[i] = byte(r.Intn(256))
		}
		src = string(b)
	}
	return src
}

func mkSrc(src, api string) Input {
	in := Input{Kind: "source", API: api}
	if b, err := json.Marshal(src); err == nil {
		var back string
		if json.Unmarshal(b, &back) == nil && back == src {
			in.Src = src
			return in
		}
	}
	in.Hex = fmt.Sprintf("%x", src)
	return in
}

func (in Input) source() string {
	if in.Hex != "" {
		b := make([]byte, len(in.Hex)/2)
		fmt.Sscanf(in.Hex, "%x", &b)
		return string(b)
	}
	return in.Src
}

func sourceCase(c *run.Ctx, r *gen.Rand) {
	for k := 0; k < 20; k++ {
		src := hostileSource(r)
		for _, api := range apis {
			runSource(c, mkSrc(src, api))
		}
		c.Nontrivial("src|" + src)
	}
	c.Feature("kind:source")
}

func runSource(c *run.Ctx, in Input) {
	src := in.source()
	c.Announce(in)
	c.Eval(1)
	vm := newVM()
	lg := &ox.Logger{}
	lg.Install(vm, "log")
	// bound the run: generated programs carry a fuel counter, mutated ones may loop
	vm.Interrupt = make(chan func(), 1)
	type halt struct{}
	steps := 0
	var tick func()
	tick = func() {
		steps++
		if steps > 200000 {
			panic(halt{})
		}
		select {
		case vm.Interrupt <- tick:
		default:
		}
	}
	vm.Interrupt <- tick
	pv, st := run.Guard(func() {
		var v otto.Value
		var rerr error
		switch in.API {
		case "Run":
			v, rerr = vm.Run(src)
		case "Eval":
			v, rerr = vm.Eval(src)
		case "Compile":
			s, err := vm.Compile("f.js", src)
			rerr = err
			if err == nil {
				v, rerr = vm.Run(s)
				_ = s.String()
			}
		case "Call":
			v, rerr = vm.Call(src, nil, 1, "a")
		case "Object":
			o, err := vm.Object(src)
			if err == nil && o != nil {
				v = o.Value()
			}
		case "eval":
			vm.Set("$src", src)
			v, _ = vm.Run("eval($src)")
		case "Function":
			vm.Set("$src", src)
			v, _ = vm.Run("Function('a', $src)(1)")
		case "Set-Get":
			_ = vm.Set(src, src)
			v, _ = vm.Get(src)
		}
		touch(v)
		// the error is a value of the API as well: its texts resolve positions (through a source map, if the source named one)
		if rerr != nil {
			_ = rerr.Error()
			if oe, ok := rerr.(*otto.Error); ok {
				_ = oe.String()
			}
		}
	})
	if pv != nil {
		if _, ok := pv.(halt); ok {
			c.Note("source-run-halted-by-step-budget")
			return
		}
		c.Fail("panic", "api:"+in.API, in, "value or error", fmt.Sprint(pv), st)
	}
}

// ---------------------------------------------------------------- stack limit

var stackShapes = map[string]string{
	"direct":                  "function f(n){return n<=0?0:1+f(n-1)} f(D)",
	"mutual":                  "function a(n){return n<=0?0:1+b(n-1)} function b(n){return n<=0?0:1+a(n-1)} a(D)",
	"apply":                   "function f(n){return n<=0?0:1+f.apply(null,[n-1])} f(D)",
	"getter":                  "var o={n:D,get g(){return this.n--<=0?0:1+this.g}}; o.g",
	"toString":                "var n=D; var o={toString:function(){return n--<=0?'':'x'+o}}; ''+o",
	"map":                     "function f(n){return n<=0?0:[n-1].map(f)[0]+1} f(D)",
	"eval":                    "function f(n){return n<=0?0:1+eval('f(n-1)')} f(D)",
	"new":                     "function F(n){this.d=n<=0?0:1+new F(n-1).d} new F(D).d",
	"indirect-eval":           "var g=eval; function f(n){return n<=0?0:1+g('f('+(n-1)+')')} f(D)",
	"reenter":                 "function f(n){return n<=0?0:1+reenter('f('+(n-1)+')')} f(D)",
	// a host function that calls back through the Go API near the limit and carries on when the call is refused
	"hostcall":                "function leaf(){return 'leaf'} function f(n){var mine='L'+n; if(n<=0){var got=hostcall(leaf); return (mine==='L0'&&(got==='leaf'||got==='refused'))?0:NaN} var r=1+f(n-1); return mine==='L'+n?r:NaN} f(D)",
	"hostvcall":               "function leaf(){return 'leaf'} function f(n){var mine='L'+n; if(n<=0){var got=hostvcall(leaf); return (mine==='L0'&&(got==='leaf'||got==='refused'))?0:NaN} var r=1+f(n-1); return mine==='L'+n?r:NaN} f(D)",
	"unbounded-indirect-eval": "var g=eval; function f(){return g('f()')} f()",
	"unbounded-reenter":       "function f(){return reenter('f()')} f()",
	"unbounded-call-eval":     "function f(){return eval.call(null,'f()')} f()",
	"unbounded":               "function f(){return f()} f()",
	// recursion that goes through something other than a script function call
	"unbounded-eval-self":     "var s='eval(s)'; eval(s)",
	"unbounded-eval-fn":       "function f(){return eval('f()')} f()",
	"unbounded-function-ctor": "var f=Function('return f()'); f()",
	"unbounded-tojson":        "var o={toJSON:function(){return JSON.stringify(o)}}; JSON.stringify(o)",
	"unbounded-reviver":       `JSON.parse('{"a":1,"b":2}', function(k,v){ if (k==='a') this.b={a:1,b:2}; return v })`,
	"unbounded-reviver-array": `JSON.parse('[1,2]', function(k,v){ if (k==='0') this[1]=[1,2]; return v })`,
	"unbounded-sort":          "function c(){[2,1].sort(c); return 0} c()",
	"unbounded-replace":       "function r(){return 'x'.replace(/x/,r)} r()",
	"unbounded-valueof":       "var o={valueOf:function(){return o+1}}; o+1",
	"unbounded-getter":        "var o={get g(){return this.g}}; o.g",
	"unbounded-bound":         "var b=function(){return b()}.bind(null); b()",
	"unbounded-callcall":      "function f(){return f.call.call(f)} f()",
	"unbounded-new":           "function F(){return new F()} new F()",
	"unbounded-foreach":       "function f(){[1].forEach(f)} f()",
	"unbounded-reduce":        "function f(){return [1,2].reduce(f)} f()",
	"unbounded-define-getter": "var o={}; Object.defineProperty(o,'g',{get:function(){return o.g}}); o.g",
	"unbounded-tostring-join": "var a=[]; a[0]=a; a.toString=function(){return this.join()}; ''+a === '' || 1",
	"unbounded-catch":         "function f(){try{return f()}catch(e){return e instanceof RangeError?'R':'other:'+e}} f()",
	"unbounded-finally":       "var k=0; function f(){try{return f()}finally{k++}} try{f()}catch(e){e instanceof RangeError}",
}

// exportBig exports the large object graphs touch() skips.
func exportBig(c *run.Ctx) {
	vm := newVM()
	for _, e := range []string{"this", "Object.prototype", "Array.prototype", "Math", "JSON", "goStruct", "goMap", "(function(){return arguments})(1,[2],{a:3})"} {
		in := Input{Kind: "surface", Fn: e, Via: "export"}
		c.Announce(in)
		pv, st := run.Guard(func() {
			v, _ := vm.Run("(" + e + ")")
			_, _ = v.Export()
			_, _ = v.MarshalJSON()
			if o := v.Object(); o != nil {
				_, _ = o.MarshalJSON()
				_ = o.KeysByParent()
			}
		})
		c.Eval(1)
		if pv != nil {
			c.Fail("panic", "export:"+e, in, "value or error", fmt.Sprint(pv), st)
		}
	}
}

func stackCase(c *run.Ctx, r *gen.Rand) {
	if r.Chance(1, 10) {
		exportBig(c)
	}
	shapes := make([]string, 0, len(stackShapes))
	for k := range stackShapes {
		shapes = append(shapes, k)
	}
	// deterministic order
	for i := range shapes {
		for j := i + 1; j < len(shapes); j++ {
			if shapes[j] < shapes[i] {
				shapes[i], shapes[j] = shapes[j], shapes[i]
			}
		}
	}
	for k := 0; k < 30; k++ {
		L := []int{1, 2, 3, 5, 10, 100, 1000}[r.Intn(7)]
		d := []int{L - 2, L - 1, L, L + 1, L + 2, 10 * L}[r.Intn(6)]
		if d < 0 {
			d = 0
		}
		shape := shapes[r.Intn(len(shapes))]
		if r.Chance(1, 8) {
			// the depth at which the host function still fits and its call back does not is one exact value below the limit
			shape = []string{"hostcall", "hostvcall"}[r.Intn(2)]
			d = L - r.Intn(9) + 2
			if d < 0 {
				d = 0
			}
		}
		runStack(c, Input{Kind: "stack", Limit: L, Depth: d, Shape: shape})
	}
	c.Feature("kind:stack")
}

func runStack(c *run.Ctx, in Input) {
	c.Announce(in)
	c.Eval(1)
	src := strings.ReplaceAll(stackShapes[in.Shape], "D", fmt.Sprint(in.Depth))
	vm := otto.New()
	vm.SetStackDepthLimit(in.Limit)
	// a host function that re-enters the runtime (nested Run from a callback)
	reentries := 0
	vm.Set("reenter", func(call otto.FunctionCall) otto.Value {
		reentries++
		if reentries > 20000 {
			// far beyond every configured limit: the limit is not enforced across
			// re-entry; stop before the Go stack is exhausted
			panic(call.Otto.MakeCustomError("HarnessStop", "re-entry ceiling"))
		}
		v, err := call.Otto.Run(call.Argument(0).String())
		if err != nil {
			if oe, ok := err.(*otto.Error); ok {
				panic(call.Otto.MakeCustomError(ox.ErrClass(oe), "nested"))
			}
			panic(call.Otto.MakeCustomError("Error", err.Error()))
		}
		return v
	})
	refused := func(call otto.FunctionCall, v otto.Value, err error) otto.Value {
		if err != nil {
			if oe, ok := err.(*otto.Error); !ok || ox.ErrClass(oe) != "RangeError" {
				panic(call.Otto.MakeCustomError("Error", "call back failed with "+err.Error()))
			}
			r, _ := otto.ToValue("refused")
			return r
		}
		return v
	}
	vm.Set("hostcall", func(call otto.FunctionCall) otto.Value {
		v, err := call.Otto.Call("leaf", nil)
		return refused(call, v, err)
	})
	vm.Set("hostvcall", func(call otto.FunctionCall) otto.Value {
		v, err := call.Argument(0).Call(otto.UndefinedValue())
		return refused(call, v, err)
	})
	out := ox.Run(vm, src)
	if (in.Shape == "hostcall" || in.Shape == "hostvcall") && out.Panic == nil && out.Err == nil && out.Val.String() != fmt.Sprint(in.Depth) {
		c.Fail("mismatch", "stack:"+in.Shape, in, "every frame continues in its own execution context after the host function returns: "+fmt.Sprint(in.Depth), out.String(), src)
		return
	}
	if out.Panic != nil {
		c.Fail("panic", "stack:"+in.Shape, in, "value or catchable RangeError", fmt.Sprint(out.Panic), out.Stack)
		return
	}
	if out.Err != nil && ox.ErrClass(out.Err) == "HarnessStop" {
		c.Fail("mismatch", "stack:"+in.Shape, in, "RangeError at the configured limit", "more than 20000 nested re-entries admitted under limit "+fmt.Sprint(in.Limit), src)
		return
	}
	if out.Err != nil && ox.ErrClass(out.Err) != "RangeError" {
		c.Fail("mismatch", "stack:"+in.Shape, in, "value or RangeError", out.Err.Error(), src)
		return
	}
	if (in.Shape == "unbounded" || in.Shape == "unbounded-catch" || in.Shape == "unbounded-indirect-eval" || in.Shape == "unbounded-reenter" || in.Shape == "unbounded-call-eval") && in.Limit == 1 {
		// a limit of 1 admits no call at all: the RangeError is raised at the
		// top-level call site, outside the function's own try
		if out.Err == nil {
			c.Fail("mismatch", "stack:"+in.Shape, in, "RangeError", out.String(), src)
		}
	} else if strings.HasPrefix(in.Shape, "unbounded") {
		switch in.Shape {
		case "unbounded", "unbounded-indirect-eval", "unbounded-reenter", "unbounded-call-eval":
			if out.Err == nil {
				c.Fail("mismatch", "stack:"+in.Shape, in, "RangeError", out.String(), src)
			}
		case "unbounded-catch":
			if out.Err != nil || out.Val.String() != "R" {
				c.Fail("mismatch", "stack:"+in.Shape, in, "RangeError catchable inside the script (instanceof RangeError)", out.String(), src)
			}
		}
	}
	// the runtime stays usable, with the full limit available again
	after := ox.Run(vm, "(function(){return 1+1})()")
	if in.Limit >= 2 && (after.Panic != nil || after.Err != nil || after.Val.String() != "2") {
		c.Fail("mismatch", "stack-after:"+in.Shape, in, "runtime usable after the RangeError", after.String(), src)
	}
	c.Nontrivial(fmt.Sprintf("stack|%s|%d|%d", in.Shape, in.Limit, in.Depth))
}

// ---------------------------------------------------------------- replay

func replay(c *run.Ctx, in Input) {
	switch in.Kind {
	case "surface":
		if in.All {
			runBatch(c, in.Fn, in.Via, seq(len(valueKinds)), seq(len(valueKinds)), seq(len(valueKinds)), []int{0})
			return
		}
		if in.Via == "gocall" {
			goAPIPairs(c, in.Fn, [][2]int{{in.This, in.A}})
			return
		}
		runBatch(c, in.Fn, in.Via, []int{in.This}, []int{in.A}, []int{in.B}, []int{in.C})
	case "source":
		runSource(c, in)
	case "stack":
		runStack(c, in)
	}
}
