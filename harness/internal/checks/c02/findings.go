package c02

func registerMatchers() {}
