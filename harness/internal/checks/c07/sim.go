package c07

import (
	"sort"
	"strconv"
	"strings"

	"verif/internal/refobj"
)

// sim drives the reference model through a history and renders what the JS
// dumper renders, line by line.
type sim struct {
	w    *refobj.World
	objs []*refobj.Obj
	fns  []*refobj.Obj // G1 G2 S1 S2
	// counters for the non-triviality rule and the evidence
	redefs, rejects int
}

var fnNames = []string{"G1", "G2", "S1", "S2"}

func newSim(q refobj.Quirks) *sim {
	s := &sim{w: refobj.NewWorld()}
	s.w.Q = q
	s.fns = []*refobj.Obj{
		s.w.NewFunction("G1", func(w *refobj.World, this refobj.Value, args []refobj.Value) (refobj.Value, *refobj.Throw) {
			return refobj.Str("g1"), nil
		}),
		s.w.NewFunction("G2", func(w *refobj.World, this refobj.Value, args []refobj.Value) (refobj.Value, *refobj.Throw) {
			return w.Slot, nil
		}),
		s.w.NewFunction("S1", func(w *refobj.World, this refobj.Value, args []refobj.Value) (refobj.Value, *refobj.Throw) {
			if len(args) > 0 {
				w.Slot = args[0]
			} else {
				w.Slot = refobj.Undef()
			}
			return refobj.Undef(), nil
		}),
		s.w.NewFunction("S2", nil),
	}
	return s
}

// fork deep-copies the model state and switches the deviation models to q.
func (s *sim) fork(q refobj.Quirks) *sim {
	roots := append(append([]*refobj.Obj(nil), s.objs...), s.fns...)
	w2, r := refobj.CloneWorld(s.w, roots)
	w2.Q = q
	w2.Log = nil
	return &sim{w: w2, objs: r[:len(s.objs):len(s.objs)], fns: r[len(s.objs):], redefs: s.redefs, rejects: s.rejects}
}

func (s *sim) val(t Tok) refobj.Value {
	switch t {
	case "u", "":
		return refobj.Undef()
	case "null":
		return refobj.NullV()
	case "true":
		return refobj.Bool(true)
	case "false":
		return refobj.Bool(false)
	case "0":
		return refobj.Num(0)
	case "-0":
		return refobj.Num(negZero)
	case "NaN":
		return refobj.Num(nan)
	case "1":
		return refobj.Num(1)
	case "OP":
		return refobj.ObjV(s.w.ObjectPrototype)
	case "G1":
		return refobj.ObjV(s.fns[0])
	case "G2":
		return refobj.ObjV(s.fns[1])
	case "S1":
		return refobj.ObjV(s.fns[2])
	case "S2":
		return refobj.ObjV(s.fns[3])
	}
	if t[0] == '\'' {
		return refobj.Str(t[1:])
	}
	if t[0] == 'o' {
		k, _ := strconv.Atoi(t[1:])
		return refobj.ObjV(s.objs[k])
	}
	panic("bad token " + t)
}

// rv renders a model value exactly like the dumper's __v.
func rv(v refobj.Value) string {
	switch v.Kind {
	case refobj.Undefined:
		return "u"
	case refobj.Null:
		return "null"
	case refobj.Boolean:
		if v.B {
			return "true"
		}
		return "false"
	case refobj.Number:
		switch {
		case v.N != v.N:
			return "NaN"
		case v.N == 0:
			if 1/v.N < 0 {
				return "-0"
			}
			return "0"
		case v.N == 1:
			return "1"
		}
		return "n" + strconv.FormatFloat(v.N, 'g', -1, 64)
	case refobj.String:
		return "'" + v.S
	}
	if v.O.Tag != "" {
		return v.O.Tag
	}
	if v.O.Fn != nil {
		return "fn"
	}
	return "obj?"
}

func renderLog(log []refobj.Call) string {
	parts := make([]string, len(log))
	for i, c := range log {
		as := make([]string, len(c.Args))
		for k, a := range c.Args {
			as[k] = rv(a)
		}
		this := rv(c.This)
		if c.This.Kind == refobj.Object && c.ThisTag == "" && c.This.O.Fn == nil {
			this = "obj?" // labelled only after the call (object under construction)
		}
		parts[i] = c.Fn + "@" + this + "(" + strings.Join(as, ",") + ")"
	}
	return strings.Join(parts, ",")
}

func (s *sim) register(o *refobj.Obj) refobj.Value {
	o.Tag = "o" + strconv.Itoa(len(s.objs))
	s.objs = append(s.objs, o)
	return refobj.ObjV(o)
}

// descValue builds the model object (or primitive) for a descriptor literal.
func (s *sim) descValue(d Desc) refobj.Value {
	off := s.w.NotesOff
	s.w.NotesOff = true
	defer func() { s.w.NotesOff = off }()
	if d.Prim != "" {
		return s.val(d.Prim)
	}
	lit := func(fs []Field) *refobj.Obj {
		var ps []refobj.LiteralProp
		for _, f := range fs {
			ps = append(ps, refobj.LiteralProp{Name: f.F, Kind: "value", V: s.val(f.V)})
		}
		return s.w.ObjectLiteral(ps)
	}
	if len(d.Inh) == 0 {
		if d.Rd {
			var ps []refobj.LiteralProp
			for _, f := range d.Own {
				v := s.val(f.V)
				fn := s.w.NewFunction("Rd:"+f.F, func(w *refobj.World, this refobj.Value, args []refobj.Value) (refobj.Value, *refobj.Throw) {
					return v, nil
				})
				fn.Tag = "fn"
				ps = append(ps, refobj.LiteralProp{Name: f.F, Kind: "get", V: refobj.ObjV(fn)})
			}
			return refobj.ObjV(s.w.ObjectLiteral(ps))
		}
		return refobj.ObjV(lit(d.Own))
	}
	// __inh(p, own): d = Object.create(p); for (k in own) d[k] = own[k]
	p := lit(d.Inh)
	dv, _ := s.w.Create(refobj.ObjV(p), false, refobj.Undef())
	own := lit(d.Own)
	for _, k := range own.OwnNames() {
		v, _ := s.w.Get(own, k)
		s.w.Assign(dv.O, k, v)
	}
	return dv
}

func (s *sim) propsValue(op Op) refobj.Value {
	if op.PO != "" {
		return s.val(op.PO)
	}
	var ps []refobj.LiteralProp
	for _, p := range op.P {
		ps = append(ps, refobj.LiteralProp{Name: p.N, Kind: "value", V: s.descValue(p.D)})
	}
	off := s.w.NotesOff
	s.w.NotesOff = true
	defer func() { s.w.NotesOff = off }()
	return refobj.ObjV(s.w.ObjectLiteral(ps))
}

func okv(v refobj.Value, t *refobj.Throw) string {
	if t != nil {
		return "throw:" + t.Class
	}
	return "ok:" + rv(v)
}

// apply executes one resolved step on the model and returns the R value
// ("ok:<value>" / "throw:TypeError").  For forindel under the specification
// the result is not a function of the state alone; see forInDelSpec.
func (s *sim) apply(op Op) string {
	w := s.w
	existed := func(t Tok, n string) bool {
		v := s.val(t)
		return v.Kind == refobj.Object && v.O.HasOwnProperty(n)
	}
	count := func(res string, redef bool) string {
		if strings.HasPrefix(res, "throw:") {
			s.rejects++
		}
		if redef {
			s.redefs++
		}
		return res
	}
	switch op.K {
	case "create":
		v, t := w.Create(s.val(op.Proto), op.HasP || op.PO != "", s.propsValueIf(op))
		if t != nil {
			return count(okv(v, t), false)
		}
		return okv(s.register(v.O), nil)
	case "literal":
		var ps []refobj.LiteralProp
		redef := false
		seen := map[string]bool{}
		for _, l := range op.L {
			lp := refobj.LiteralProp{Name: l.N, Kind: l.K}
			switch l.K {
			case "get":
				f := w.NewFunction("Lg:"+l.N, func(w *refobj.World, this refobj.Value, args []refobj.Value) (refobj.Value, *refobj.Throw) {
					return refobj.Str("lg"), nil
				})
				f.Tag = "fn"
				lp.V = refobj.ObjV(f)
			case "set":
				f := w.NewFunction("Ls:"+l.N, nil)
				f.Tag = "fn"
				lp.V = refobj.ObjV(f)
			default:
				lp.V = s.val(l.V)
			}
			if seen[l.N] {
				redef = true
			}
			seen[l.N] = true
			ps = append(ps, lp)
		}
		return count(okv(s.register(w.ObjectLiteral(ps)), nil), redef)
	case "construct":
		var proto refobj.Value
		if op.Proto == "" {
			c := w.NewFunction("C", nil)
			c.Tag = "fn"
			proto = refobj.ObjV(w.DefaultFunctionPrototype(c))
		} else {
			proto = s.val(op.Proto)
		}
		var body []refobj.Assignment
		for _, a := range op.A {
			body = append(body, refobj.Assignment{Name: a.N, V: s.val(a.V)})
		}
		o, t := w.Construct(proto, body)
		if t != nil {
			return count(okv(refobj.Undef(), t), false)
		}
		return okv(s.register(o), nil)
	case "defprop":
		redef := existed(op.T, op.N)
		return count(okv(w.DefineProperty(s.val(op.T), op.N, s.descValue(*op.D))), redef)
	case "defprops":
		redef := false
		for _, p := range op.P {
			redef = redef || existed(op.T, p.N)
		}
		return count(okv(w.DefineProperties(s.val(op.T), s.propsValue(op))), redef)
	case "assign":
		redef := existed(op.T, op.N)
		return count(okv(w.Assign(s.val(op.T).O, op.N, s.val(op.V))), redef)
	case "delete":
		b, t := w.DeleteOp(s.val(op.T).O, op.N)
		return okv(refobj.Bool(b), t)
	case "freeze":
		return count(okv(w.Freeze(s.val(op.T))), false)
	case "seal":
		return count(okv(w.Seal(s.val(op.T))), false)
	case "prevent":
		return count(okv(w.PreventExtensions(s.val(op.T))), false)
	case "forindel":
		visited := w.ForInDelete(s.val(op.T).O, s.val(op.T2).O, op.N)
		return "ok:'" + strings.Join(visited, ",")
	case "prim":
		v := s.val(op.V)
		var t *refobj.Throw
		var r refobj.Value
		switch op.N {
		case "getPrototypeOf":
			r, t = w.GetPrototypeOf(v)
		case "getOwnPropertyDescriptor":
			r, t = w.GetOwnPropertyDescriptor(v, "a")
		case "getOwnPropertyNames":
			_, t = w.GetOwnPropertyNames(v)
			r = refobj.ObjV(w.NewObject()) // an array the dumper does not know: "obj?"
		case "defineProperty":
			r, t = w.DefineProperty(v, "a", refobj.ObjV(w.NewObject()))
		case "defineProperties":
			r, t = w.DefineProperties(v, refobj.ObjV(w.NewObject()))
		case "seal":
			r, t = w.Seal(v)
		case "freeze":
			r, t = w.Freeze(v)
		case "preventExtensions":
			r, t = w.PreventExtensions(v)
		case "isSealed":
			var b bool
			b, t = w.IsSealed(v)
			r = refobj.Bool(b)
		case "isFrozen":
			var b bool
			b, t = w.IsFrozen(v)
			r = refobj.Bool(b)
		case "isExtensible":
			var b bool
			b, t = w.IsExtensible(v)
			r = refobj.Bool(b)
		case "keys":
			_, t = w.Keys(v)
			r = refobj.ObjV(w.NewObject())
		default:
			panic("bad prim fn " + op.N)
		}
		return count(okv(r, t), false)
	}
	panic("bad op kind " + op.K)
}

func (s *sim) propsValueIf(op Op) refobj.Value {
	if op.HasP || op.PO != "" {
		return s.propsValue(op)
	}
	return refobj.Undef()
}

// forInDelSpec judges the visited list of a forindel step against ES5.1
// 12.6.4 without assuming an order between prototype levels or a snapshot
// discipline: given the first visited name k1 (taken from the observation),
// every property that is enumerable-visible both before and after the
// deletion must be visited exactly once, a property that stopped being
// visible must not be visited unless it was k1, nothing else may be visited
// except a property that only became visible through the deletion (optional).
// It applies the deletion to the model and returns canonical renderings of
// the expected and the actual list.
func (s *sim) forInDelSpec(op Op, actual []string) (exp, act string) {
	w := s.w
	o, t2 := s.val(op.T).O, s.val(op.T2).O
	e0 := w.ForInSet(o)
	if len(e0) == 0 {
		return "visited:[]", "visited:[" + strings.Join(actual, ",") + "]"
	}
	in0 := map[string]bool{}
	for _, n := range e0 {
		in0[n] = true
	}
	w.DeleteOp(t2, op.N)
	in1 := map[string]bool{}
	for _, n := range w.ForInSet(o) {
		in1[n] = true
	}
	k1 := ""
	if len(actual) > 0 {
		k1 = actual[0]
	}
	var req []string
	for _, n := range e0 {
		if in1[n] || n == k1 {
			req = append(req, n)
		}
	}
	sort.Strings(req)
	var got []string
	for _, n := range actual {
		if in1[n] && !in0[n] {
			continue // optional
		}
		got = append(got, n)
	}
	sort.Strings(got)
	return "visited:[" + strings.Join(req, ",") + "]", "visited:[" + strings.Join(got, ",") + "]"
}

// obsLine is one rendered observation.
type obsLine struct {
	Key  string // "R", "L", "o1.a", "o1#keys", ..., "OL"
	Text string
}

func renderDesc(w *refobj.World, v refobj.Value) string {
	if v.Kind != refobj.Object {
		return "u"
	}
	var b strings.Builder
	b.WriteString("{")
	for _, f := range fields {
		if v.O.HasOwnProperty(f) {
			x, _ := w.Get(v.O, f)
			b.WriteString(f + ":" + rv(x) + " ")
		}
	}
	b.WriteString("}")
	return b.String()
}

func bs(b bool) string {
	if b {
		return "true"
	}
	return "false"
}

// observe renders the post-step observations in the dumper's order. The
// recover turns the modelled host crash (Quirks.WritableOnlyKeepsAccessor)
// into panicked=true.
func (s *sim) observe(res string) (lines []obsLine, panicked bool) {
	defer func() {
		if r := recover(); r != nil {
			if t, ok := r.(*refobj.Throw); ok && t.Class == "GoPanic" {
				lines, panicked = nil, true
				return
			}
			panic(r)
		}
	}()
	w := s.w
	w.NotesOff = true
	defer func() { w.NotesOff = false }()
	lines = append(lines, obsLine{"R", res}, obsLine{"L", renderLog(w.Log)})
	w.Log = nil
	for i, o := range s.objs {
		id := "o" + strconv.Itoa(i)
		ov := refobj.ObjV(o)
		for _, n := range names {
			g, _ := w.Get(o, n)
			d, _ := w.GetOwnPropertyDescriptor(ov, n)
			lines = append(lines, obsLine{id + "." + n, "get:" + rv(g) + ";desc:" + renderDesc(w, d) +
				";in:" + bs(w.In(n, o)) + ";own:" + bs(o.HasOwnProperty(n)) + ";pie:" + bs(o.PropertyIsEnumerable(n))})
		}
		ks, _ := w.Keys(ov)
		ns, _ := w.GetOwnPropertyNames(ov)
		lines = append(lines, obsLine{id + "#keys", strings.Join(ks, ",")})
		lines = append(lines, obsLine{id + "#names", strings.Join(ns, ",")})
		lines = append(lines, obsLine{id + "#forin", strings.Join(w.ForInSet(o), ",")})
		fr, _ := w.IsFrozen(ov)
		se, _ := w.IsSealed(ov)
		ex, _ := w.IsExtensible(ov)
		lines = append(lines, obsLine{id + "#flags", "frozen:" + bs(fr) + ",sealed:" + bs(se) + ",extensible:" + bs(ex)})
		p, _ := w.GetPrototypeOf(ov)
		lines = append(lines, obsLine{id + "#proto", rv(p)})
	}
	lines = append(lines, obsLine{"OL", renderLog(w.Log)})
	w.Log = nil
	return lines, false
}

// forInCanon renders an observed for-in list for comparison with the
// specification: the sorted multiset of visited names (a duplicate shows up
// twice) followed, per prototype level, by the visited names the model
// attributes to that level in their visiting order.  Order is thus compared
// only among own properties of a single object.
func (s *sim) forInCanon(o *refobj.Obj, visited []string) string {
	levels := s.w.ForInLevels(o)
	lvlOf := map[string]int{}
	for i, l := range levels {
		for _, n := range l {
			lvlOf[n] = i
		}
	}
	sorted := append([]string(nil), visited...)
	sort.Strings(sorted)
	var b strings.Builder
	b.WriteString("set:[" + strings.Join(sorted, ",") + "]")
	seen := map[string]bool{}
	per := make([][]string, len(levels))
	for _, n := range visited {
		if seen[n] {
			continue
		}
		seen[n] = true
		if l, ok := lvlOf[n]; ok {
			per[l] = append(per[l], n)
		}
	}
	for i, l := range per {
		if len(levels[i]) > 0 || len(l) > 0 {
			b.WriteString(" L" + strconv.Itoa(i) + ":[" + strings.Join(l, ",") + "]")
		}
	}
	return b.String()
}

func splitList(s string) []string {
	if s == "" {
		return nil
	}
	return strings.Split(s, ",")
}
