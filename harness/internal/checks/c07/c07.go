package c07

import (
	"encoding/json"
	"fmt"
	"strings"

	"github.com/robertkrimen/otto"

	"verif/internal/ox"
	"verif/internal/refobj"
	"verif/internal/run"
)

func init() {
	run.Register(&run.Check{
		ID: "C07",
		Rule: "a case is a history: 3-4 object creations (Object.create(null|proto[,map]), object initialisers with getters/setters, constructor-made instances) followed by 8-14 operations " +
			"(defineProperty / defineProperties / create-with-map with descriptors from the full field power set incl. contradictory, inherited-field and non-object descriptors, assignment, delete, freeze, seal, preventExtensions, for-in with deletion, Object.* on primitives) " +
			"over names {a,b,0,length}; after every step every observation of every object is compared with refobj. " +
			"A history is non-trivial when it contains at least one (re)definition of an already existing own property and at least one step rejected with TypeError; distinct by the full operation list",
		Assumptions: []string{
			"oracle: internal/refobj (ES5.1 8.10, 8.12.1-8.12.9, 15.2.3.2-15.2.3.14, 15.2.4.5/7, 11.1.5, 11.4.1, 11.8.7, 11.13.1, 13.2.2, 12.6.4), no otto code",
			"beyond ES5.1: own-property order (keys, getOwnPropertyNames, for-in within one object, walk order of a Properties map) is creation order; redefinition keeps the position, delete + re-add moves to the end (otto documents insertion order)",
			"for-in is compared as a set over the prototype chain plus the relative order of the own properties of each single object; order across prototype levels is never compared",
			"all code is non-strict: a failed [[Put]] / [[Delete]] is silent, Object.* functions throw",
			"Object.prototype has no property named a, b, 0, length and only non-enumerable properties",
		},
		Floor: func(tier string) int {
			if tier == "thorough" {
				return 30000
			}
			return 800
		},
		Cases: func(tier string, seed uint64) int {
			if tier == "thorough" {
				return 100000
			}
			return 3000
		},
		Exec:   func(c *run.Ctx, i int) { checkOne(c, generate(c.Rng, i)) },
		Replay: func(c *run.Ctx, raw json.RawMessage) { var in Input; mustUnmarshal(raw, &in); checkOne(c, in) },
	})
	registerMatchers()
}

func mustUnmarshal(raw json.RawMessage, v interface{}) {
	if err := json.Unmarshal(raw, v); err != nil {
		panic(err)
	}
}

func opSite(op Op) string {
	switch op.K {
	case "create":
		return "Object.create"
	case "literal":
		return "object initialiser"
	case "construct":
		return "new C()"
	case "defprop":
		return "Object.defineProperty"
	case "defprops":
		return "Object.defineProperties"
	case "assign":
		return "assignment"
	case "delete":
		return "delete"
	case "freeze":
		return "Object.freeze"
	case "seal":
		return "Object.seal"
	case "prevent":
		return "Object.preventExtensions"
	case "forindel":
		return "for-in with deletion"
	case "prim":
		return "Object." + op.N + "(primitive)"
	}
	return op.K
}

// lineSite names the observation that differs in a rendered line.
func lineSite(op Op, key, exp, act string) string {
	switch {
	case key == "R":
		return opSite(op)
	case key == "L":
		return "calls during " + opSite(op)
	case key == "OL":
		return "calls during [[Get]]"
	case strings.HasSuffix(key, "#keys"):
		return "Object.keys"
	case strings.HasSuffix(key, "#names"):
		return "Object.getOwnPropertyNames"
	case strings.HasSuffix(key, "#forin"):
		return "for-in"
	case strings.HasSuffix(key, "#flags"):
		return "isFrozen/isSealed/isExtensible"
	case strings.HasSuffix(key, "#proto"):
		return "Object.getPrototypeOf"
	}
	e, a := strings.Split(exp, ";"), strings.Split(act, ";")
	sites := []string{"[[Get]]", "Object.getOwnPropertyDescriptor", "in", "hasOwnProperty", "propertyIsEnumerable"}
	if len(e) == len(a) && len(e) == len(sites) {
		for i := range e {
			if e[i] != a[i] {
				return sites[i]
			}
		}
	}
	return "observation"
}

func parseDump(s string) []obsLine {
	var out []obsLine
	for _, l := range strings.Split(s, "\n") {
		i := strings.Index(l, "=")
		if i < 0 {
			out = append(out, obsLine{"?", l})
			continue
		}
		out = append(out, obsLine{l[:i], l[i+1:]})
	}
	return out
}

func visitedOf(r string) []string {
	if strings.HasPrefix(r, "ok:'") {
		return splitList(r[len("ok:'"):])
	}
	return nil
}

// stepVerdict is the comparison of one step's observations with the
// specification model and with the known-deviation model.
type stepVerdict struct {
	mismatch  []lineDiff
	explained bool // every mismatching line is exactly what the deviation model yields
}

type lineDiff struct {
	key, exp, act, detail string
}

// modelStep runs one resolved step from the shared pre-state p: on the
// specification model (in place) and on a fork with the deviation models q.
// actualR is the observed R line (needed by the for-in-with-deletion relation).
func modelStep(p *sim, op Op, q refobj.Quirks, actualR string, haveActual bool) (spec []obsLine, specRAct string, k *sim, dev []obsLine, devPanic bool) {
	k = p.fork(q)
	rk := k.apply(op)
	dev, devPanic = k.observe(rk)
	var rs string
	if op.K == "forindel" {
		if haveActual {
			rs, specRAct = p.forInDelSpec(op, visitedOf(actualR))
		} else {
			p.apply(op)
			rs = "visited:?"
		}
	} else {
		rs = p.apply(op)
	}
	spec, _ = p.observe(rs)
	return
}

func checkOne(c *run.Ctx, in Input) {
	c.Announce(in)
	vm := otto.New()
	if out := ox.Run(vm, prelude); out.Err != nil || out.Panic != nil {
		c.Inconclusive("prelude failed: " + out.String())
		return
	}
	p := newSim(refobj.Quirks{})
	reported := map[string]string{}
	notes := map[string]int{}
	stopped := false
	for k, raw := range in.Ops {
		op := resolveOp(raw, len(p.objs))
		prefix := Input{Ops: in.Ops[:k+1]}
		out := ox.Run(vm, jsStep(op))
		c.Eval(1)
		if out.Panic != nil {
			_, _, _, _, devPanic := modelStep(p, op, knownQuirks(), "", false)
			d := "the deviation model does not predict a crash"
			if devPanic {
				d = "predicted by the deviation model"
			}
			c.Fail("panic", "dump after "+opSite(op), prefix, "no Go panic", fmt.Sprint(out.Panic), d+" @ "+out.Stack)
			stopped = true
			break
		}
		if out.Err != nil || !out.Val.IsString() {
			c.Fail("mismatch", "dump after "+opSite(op), prefix, "the step script completes with a string", out.String(), "")
			stopped = true
			break
		}
		actual := parseDump(out.Val.String())
		actR := ""
		if len(actual) > 0 && actual[0].Key == "R" {
			actR = actual[0].Text
		}
		spec, specRAct, kd, dev, devPanic := modelStep(p, op, knownQuirks(), actR, true)
		for n, v := range p.w.Notes {
			notes[n] += v
			delete(p.w.Notes, n)
		}
		c.Feature("op:" + op.K)
		if strings.HasPrefix(actR, "throw:") {
			c.Feature("throws:" + opSite(op))
		}
		v := compareStep(p, op, spec, specRAct, actual, dev, devPanic)
		if len(v.mismatch) == 0 {
			for key := range reported {
				delete(reported, key)
			}
			continue
		}
		nrep := 0
		still := map[string]string{}
		for _, d := range v.mismatch {
			sig := d.exp + "\x00" + d.act
			still[d.key] = sig
			if reported[d.key] == sig {
				continue // the same observation persists from the previous step
			}
			if nrep < 8 {
				c.Fail("mismatch", lineSite(op, d.key, d.exp, d.act), prefix, d.key+"="+d.exp, d.key+"="+d.act, fmt.Sprintf("step %d (%s) %s", k, opSite(op), d.detail))
				nrep++
			}
		}
		reported = still
		if !v.explained {
			stopped = true
			break
		}
		// every disagreement is an instance of a modelled deviation: follow the
		// implementation so that the rest of the history stays observable
		kd.w.Q = refobj.Quirks{}
		kd.w.Notes = p.w.Notes
		p = kd
		c.Feature("steps on which a modelled (known) deviation is visible")
	}
	msg, checked := shapeCheck(vm)
	if msg != "" {
		c.Fail("mismatch", "property table shape", in, "propertyOrder is duplicate-free and equals the key set of property", msg, "")
	}
	c.FeatureN("shape: property tables read through reflection", checked)
	for n, v := range notes {
		c.FeatureN("model: "+n, v)
	}
	c.FeatureN("objects", len(p.objs))
	c.Feature(fmt.Sprintf("history length %d", len(in.Ops)))
	if stopped {
		c.Feature("history stopped at first unexplained divergence or crash")
	}
	c.Sample(in)
	if p.redefs > 0 && p.rejects > 0 {
		b, _ := json.Marshal(in)
		c.Nontrivial(string(b))
	}
}

// compareStep compares line by line. for-in lists and the result of a
// for-in-with-deletion step are compared through their canonical forms
// against the specification, and verbatim against the deviation model.
func compareStep(p *sim, op Op, spec []obsLine, specRAct string, actual []obsLine, dev []obsLine, devPanic bool) stepVerdict {
	var v stepVerdict
	devLine := func(i int, key string) (string, bool) {
		if devPanic || i >= len(dev) || dev[i].Key != key {
			return "", false
		}
		return dev[i].Text, true
	}
	if len(actual) != len(spec) {
		// a different number of objects: only R can be compared
		exp, act := "?", "?"
		if len(spec) > 0 {
			exp = spec[0].Text
		}
		if len(actual) > 0 {
			act = actual[0].Text
		}
		v.mismatch = append(v.mismatch, lineDiff{"R", exp, act, fmt.Sprintf("the dump has %d lines, the model %d", len(actual), len(spec))})
		d, ok := devLine(0, "R")
		v.explained = ok && len(dev) == len(actual) && d == act
		if v.explained {
			for i := range actual {
				if dev[i] != actual[i] {
					v.explained = false
				}
			}
		}
		return v
	}
	v.explained = true
	for i, a := range actual {
		s := spec[i]
		exp, act, detail := s.Text, a.Text, ""
		same := s.Key == a.Key && exp == act
		switch {
		case s.Key != a.Key:
			exp = s.Key + "=" + exp
		case a.Key == "R" && op.K == "forindel":
			same = exp == specRAct
			detail = "canonical form of the observed list: " + specRAct
		case strings.HasSuffix(a.Key, "#forin"):
			var idx int
			fmt.Sscanf(a.Key, "o%d#", &idx)
			if idx < len(p.objs) {
				e, g := p.forInCanon(p.objs[idx], splitList(exp)), p.forInCanon(p.objs[idx], splitList(act))
				same = e == g
				detail = "canonical: expected " + e + " observed " + g
			}
		}
		if same {
			continue
		}
		v.mismatch = append(v.mismatch, lineDiff{a.Key, exp, act, detail})
		if d, ok := devLine(i, a.Key); !ok || d != a.Text {
			v.explained = false
		}
	}
	return v
}
