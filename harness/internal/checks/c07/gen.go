package c07

import (
	"math"
	"strconv"

	"verif/internal/gen"
	"verif/internal/refobj"
)

var negZero = math.Copysign(0, -1)
var nan = math.NaN()

const maxObjects = 7

// generator state: the PRNG plus a specification-model replica of the
// history so far, used only to steer choices towards interesting states
// (existing properties, near-identical descriptors, read-only prototypes).
type genState struct {
	r   *gen.Rand
	s   *sim
	ops []Op
}

func (g *genState) pick(xs ...string) string { return xs[g.r.Intn(len(xs))] }

func (g *genState) objTok() Tok {
	if len(g.s.objs) == 0 {
		return "OP"
	}
	return "o" + strconv.Itoa(g.r.Intn(len(g.s.objs)))
}

func (g *genState) value() Tok {
	switch g.r.Intn(12) {
	case 0:
		return "u"
	case 1:
		return "null"
	case 2:
		return "true"
	case 3:
		return "0"
	case 4:
		return "-0"
	case 5:
		return "NaN"
	case 6:
		return "1"
	case 7:
		return "'s"
	case 8, 9:
		return g.objTok()
	case 10:
		return g.pick("false", "'", "G1", "S1")
	}
	return g.pick("0", "-0", "NaN", "1")
}

func (g *genState) boolish() Tok {
	switch g.r.Intn(10) {
	case 0, 1, 2:
		return "true"
	case 3, 4, 5:
		return "false"
	case 6:
		return "u"
	case 7:
		return g.pick("1", "'s", g.objTok(), "G1") // truthy non-boolean
	}
	return g.pick("0", "'", "null", "NaN", "-0") // falsy non-boolean
}

func (g *genState) accessorField(getter bool) Tok {
	switch n := g.r.Intn(20); {
	case n < 13:
		if getter {
			return g.pick("G1", "G2", "G1", "S1")
		}
		return g.pick("S1", "S2", "S1", "G1")
	case n < 17:
		return "u"
	}
	return g.pick("null", "1", g.objTok(), "'s", "false")
}

func (g *genState) name() string {
	return names[g.r.Weighted([]int{35, 25, 20, 20})]
}

// nameFor prefers names the target (or its chain) already has.
func (g *genState) nameFor(t Tok) string {
	v := g.s.val(resolveTok(t, len(g.s.objs)))
	if v.Kind == refobj.Object && g.r.Chance(3, 5) {
		var have []string
		for _, n := range names {
			if v.O.HasProperty(n) {
				have = append(have, n)
			}
		}
		if len(have) > 0 {
			return have[g.r.Intn(len(have))]
		}
	}
	return g.name()
}

func validTok(t string) bool {
	switch t {
	case "u", "null", "true", "false", "0", "-0", "NaN", "1", "G1", "G2", "S1", "S2", "'s", "'":
		return true
	}
	return len(t) >= 2 && t[0] == 'o' && t[1] >= '0' && t[1] <= '9'
}

func (g *genState) fieldValue(f string) Tok {
	switch f {
	case "value":
		return g.value()
	case "get":
		return g.accessorField(true)
	case "set":
		return g.accessorField(false)
	}
	return g.boolish()
}

// desc draws a descriptor; cur is the target's current own property (may be nil).
func (g *genState) desc(cur *refobj.Desc) Desc {
	r := g.r
	var own []Field
	add := func(f string, v Tok) { own = append(own, Field{f, v}) }
	w := []int{0, 20, 15, 10, 12, 3, 3}
	if cur != nil {
		w[0] = 40
	}
	switch r.Weighted(w) {
	case 0: // the current attributes with fields dropped and at most one changed
		type fv struct{ f, v string }
		var full []fv
		if cur.IsData() {
			full = append(full, fv{"value", rv(cur.Value)}, fv{"writable", bs(cur.Writable)})
		} else {
			full = append(full, fv{"get", rv(cur.Get)}, fv{"set", rv(cur.Set)})
		}
		full = append(full, fv{"enumerable", bs(cur.Enumerable)}, fv{"configurable", bs(cur.Configurable)})
		mutate := -1
		if r.Chance(3, 5) {
			mutate = r.Intn(len(full))
		}
		for i, x := range full {
			if i != mutate && r.Chance(2, 5) {
				continue
			}
			v := x.v
			if i == mutate {
				switch x.f {
				case "value":
					switch v {
					case "0":
						v = "-0"
					case "-0":
						v = "0"
					case "NaN":
						v = g.pick("NaN", "0")
					default:
						v = g.value()
					}
				case "get", "set":
					v = g.accessorField(x.f == "get")
				default:
					if v == "true" {
						v = g.pick("false", "false", "0", "u", "'")
					} else {
						v = g.pick("true", "true", "1", "'s")
					}
				}
			}
			if validTok(v) {
				add(x.f, v)
			}
		}
		if r.Chance(1, 12) { // sprinkle a field of the other kind
			add(g.pick("value", "writable", "get", "set"), "u")
		}
	case 1: // data shaped
		if r.Chance(4, 5) {
			add("value", g.value())
		}
		for _, f := range []string{"writable", "enumerable", "configurable"} {
			if r.Chance(1, 2) {
				add(f, g.boolish())
			}
		}
	case 2: // accessor shaped
		if r.Chance(3, 4) {
			add("get", g.accessorField(true))
		}
		if r.Chance(3, 5) {
			add("set", g.accessorField(false))
		}
		for _, f := range []string{"enumerable", "configurable"} {
			if r.Chance(1, 2) {
				add(f, g.boolish())
			}
		}
	case 3: // generic
		for _, f := range []string{"enumerable", "configurable"} {
			if r.Chance(2, 3) {
				add(f, g.boolish())
			}
		}
	case 4: // full power set, contradictions included
		for _, f := range fields {
			if r.Chance(2, 5) {
				add(f, g.fieldValue(f))
			}
		}
	case 5: // empty
	case 6: // not an object at all
		return Desc{Prim: g.pick("u", "null", "1", "'s", "true", "0")}
	}
	// shuffle the literal's field order (immaterial to 8.10.5, material to a
	// conversion that reads fields positionally)
	for i := len(own) - 1; i > 0; i-- {
		j := r.Intn(i + 1)
		own[i], own[j] = own[j], own[i]
	}
	d := Desc{Own: own}
	if r.Chance(1, 8) && len(own) > 1 {
		d.Rd = true
		return d
	}
	if r.Chance(1, 14) && len(own) > 0 {
		// move some fields to the descriptor's prototype; own fields may override
		k := r.Range(1, len(own))
		d.Inh = append([]Field(nil), own[:k]...)
		d.Own = append([]Field(nil), own[k:]...)
		if r.Chance(1, 3) {
			f := d.Inh[0].F
			d.Own = append(d.Own, Field{f, g.fieldValue(f)})
		}
	}
	return d
}

func (g *genState) curDesc(t Tok, n string) *refobj.Desc {
	v := g.s.val(resolveTok(t, len(g.s.objs)))
	if v.Kind != refobj.Object {
		return nil
	}
	return v.O.GetOwnProperty(n)
}

func (g *genState) propsMap(t Tok) []NamedDesc {
	n := g.r.Weighted([]int{1, 3, 5, 3})
	perm := g.r.Perm(len(names))
	var out []NamedDesc
	for i := 0; i < n; i++ {
		nm := names[perm[i]]
		out = append(out, NamedDesc{nm, g.desc(g.curDesc(t, nm))})
	}
	return out
}

func (g *genState) targetOrPrim() Tok {
	if g.r.Chance(1, 40) {
		return g.pick("1", "'s", "u", "null", "true")
	}
	return g.objTok()
}

func (g *genState) opCreate(forceNull bool) Op {
	r := g.r
	op := Op{K: "create"}
	switch n := r.Intn(20); {
	case forceNull || n < 4:
		op.Proto = "null"
	case n < 15:
		op.Proto = g.objTok()
	case n < 18:
		op.Proto = "OP"
	default:
		op.Proto = g.pick("u", "1", "'s", "true")
	}
	switch n := r.Intn(10); {
	case n < 5:
		op.HasP = true
		op.P = g.propsMap("")
	case n < 6:
		op.PO = g.pick(g.objTok(), g.objTok(), "u", "null", "1")
	}
	return op
}

func (g *genState) opLiteral() Op {
	r := g.r
	op := Op{K: "literal"}
	for _, i := range r.Perm(len(names)) {
		n := names[i]
		if !r.Chance(9, 20) {
			continue
		}
		switch k := r.Intn(20); {
		case k < 10:
			op.L = append(op.L, Lit{N: n, K: "value", V: g.value()})
			if r.Chance(1, 12) {
				op.L = append(op.L, Lit{N: n, K: "value", V: g.value()})
			}
		case k < 13:
			op.L = append(op.L, Lit{N: n, K: "get"})
		case k < 15:
			op.L = append(op.L, Lit{N: n, K: "set"})
		default:
			if r.Bool() {
				op.L = append(op.L, Lit{N: n, K: "get"}, Lit{N: n, K: "set"})
			} else {
				op.L = append(op.L, Lit{N: n, K: "set"}, Lit{N: n, K: "get"})
			}
		}
	}
	return op
}

func (g *genState) opConstruct() Op {
	r := g.r
	op := Op{K: "construct"}
	switch n := r.Intn(10); {
	case n < 3:
	case n < 8:
		op.Proto = g.objTok()
	case n < 9:
		op.Proto = g.pick("1", "null", "'s")
	default:
		op.Proto = "OP"
	}
	for i, n := 0, r.Intn(4); i < n; i++ {
		op.A = append(op.A, Asg{g.name(), g.value()})
	}
	return op
}

var primFns = []string{"getPrototypeOf", "getOwnPropertyDescriptor", "getOwnPropertyNames", "defineProperty", "defineProperties",
	"seal", "freeze", "preventExtensions", "isSealed", "isFrozen", "isExtensible", "keys"}

func (g *genState) next() Op {
	r := g.r
	w := []int{30, 18, 8, 8, 5, 3, 3, 3, 3, 4, 3, 2}
	if len(g.s.objs) >= maxObjects {
		w[4], w[5], w[6] = 0, 0, 0
	}
	switch r.Weighted(w) {
	case 0:
		t := g.targetOrPrim()
		n := g.nameFor(t)
		d := g.desc(g.curDesc(t, n))
		return Op{K: "defprop", T: t, N: n, D: &d}
	case 1:
		t := g.objTok()
		n := g.nameFor(t)
		v := g.value()
		if cur := g.curDesc(t, n); cur != nil && cur.IsData() && r.Chance(1, 5) && validTok(rv(cur.Value)) {
			v = rv(cur.Value)
		}
		return Op{K: "assign", T: t, N: n, V: v, Br: r.Bool()}
	case 2:
		t := g.objTok()
		return Op{K: "delete", T: t, N: g.nameFor(t), Br: r.Bool()}
	case 3:
		t := g.targetOrPrim()
		if r.Chance(1, 8) {
			return Op{K: "defprops", T: t, PO: g.pick(g.objTok(), g.objTok(), "u", "null", "1", "'s", "'")}
		}
		return Op{K: "defprops", T: t, P: g.propsMap(t)}
	case 4:
		return g.opCreate(false)
	case 5:
		return g.opLiteral()
	case 6:
		return g.opConstruct()
	case 7:
		return Op{K: "freeze", T: g.targetOrPrim()}
	case 8:
		return Op{K: "seal", T: g.targetOrPrim()}
	case 9:
		return Op{K: "prevent", T: g.targetOrPrim()}
	case 10:
		t := g.objTok()
		t2 := t
		if r.Chance(1, 3) {
			t2 = g.objTok()
		}
		return Op{K: "forindel", T: t, T2: t2, N: g.nameFor(t)}
	}
	return Op{K: "prim", N: primFns[r.Intn(len(primFns))], V: g.pick("1", "'s", "u", "null", "true", "0")}
}

func (g *genState) push(op Op) {
	g.ops = append(g.ops, op)
	rop := resolveOp(op, len(g.s.objs))
	g.s.apply(rop)
	g.s.w.Log = nil
}

// generate is a pure function of the PRNG: 3-4 creation steps (one of them
// Object.create(null)) followed by 8-14 steps of the operation alphabet.
func generate(r *gen.Rand, i int) Input {
	g := &genState{r: r, s: newSim(refobj.Quirks{})}
	nInit := r.Range(3, 4)
	nullAt := r.Intn(nInit)
	for k := 0; k < nInit; k++ {
		switch {
		case k == nullAt:
			op := g.opCreate(true)
			op.PO = ""
			if k == 0 { // the first step must not throw: later steps need a target
				op.HasP, op.P = false, nil
			}
			g.push(op)
		default:
			switch n := r.Intn(4); {
			case n == 0 || (k == 0 && n >= 2):
				g.push(g.opLiteral())
			case n == 1:
				g.push(g.opConstruct())
			default:
				g.push(g.opCreate(false))
			}
		}
	}
	for k, n := 0, r.Range(8, 14); k < n; k++ {
		g.push(g.next())
	}
	return Input{Ops: g.ops}
}
