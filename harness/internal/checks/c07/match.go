package c07

import (
	"os"
	"path/filepath"
	"strings"
	"sync"

	"verif/internal/refobj"
	"verif/internal/run"
)

// Known-finding matchers are deviation models, not input regions: the
// failing history prefix is re-run on the model with every recorded deviation
// switched on (that is what the implementation is known to do), and the
// finding X claims the failure only if
//
//	(1) the observed line is exactly the line that model yields, and
//	(2) from the same pre-state, the model without deviation X yields a
//	    different line (X is necessary for this observation), or X alone
//	    already yields that line (X is sufficient; covers two deviations that
//	    independently produce the same observation).
//
// An observation that no combination of recorded deviations reproduces is
// matched by nothing and is reported as a VIOLATION.
var quirkMatchers = map[string]func(q *refobj.Quirks){
	"c07.forin-noshadow":          func(q *refobj.Quirks) { q.ForInNoShadow = false },
	"c07.forin-liveorder":         func(q *refobj.Quirks) { q.ForInLiveOrder = false },
	"c07.defineproperties-eager":  func(q *refobj.Quirks) { q.DefinePropertiesEager = false },
	"c07.accessor-undef-generic":  func(q *refobj.Quirks) { q.AccessorBothUndefinedIsGeneric = false },
	"c07.names-of-primitive":      func(q *refobj.Quirks) { q.NamesOfPrimitive = false },
	"c07.generic-clears-writable": func(q *refobj.Quirks) { q.GenericRedefClearsWritable = false },
	"c07.writable-keeps-accessor": func(q *refobj.Quirks) { q.WritableOnlyKeepsAccessor = false },
}

// knownQuirks is the deviation model of the implementation as recorded in
// known_findings/C07.jsonl: the deviation named by a matcher is switched on
// iff a finding with status "open" uses that matcher. Marking a finding
// "fixed" therefore also removes its deviation from the model the check
// follows. (The findings live under the --root the harness was started with,
// default /verif; if the file cannot be read every modelled deviation except
// the for-in ones fixed in commit 47473cd is assumed.)
func knownQuirks() refobj.Quirks {
	knownOnce.Do(func() {
		known = refobj.AllQuirks()
		known.ForInNoShadow, known.ForInLiveOrder = false, false
		root := "/verif"
		for i, a := range os.Args {
			switch {
			case (a == "--root" || a == "-root") && i+1 < len(os.Args):
				root = os.Args[i+1]
			case strings.HasPrefix(a, "--root="):
				root = a[len("--root="):]
			case strings.HasPrefix(a, "-root="):
				root = a[len("-root="):]
			}
		}
		fs, err := run.LoadFindings(filepath.Join(root, "known_findings.jsonl"))
		if err != nil {
			return
		}
		open := map[string]bool{}
		n := 0
		for _, f := range fs {
			if f.Property == "C07" {
				n++
				if f.Status == "open" {
					open[f.Matcher] = true
				}
			}
		}
		if n == 0 {
			return
		}
		q := refobj.AllQuirks()
		for name, drop := range quirkMatchers {
			if !open[name] {
				drop(&q)
			}
		}
		known = q
	})
	return known
}

var (
	knownOnce sync.Once
	known     refobj.Quirks
)

func registerMatchers() {
	for name, drop := range quirkMatchers {
		drop := drop
		run.RegisterMatcher(name, func(f *run.Failure) bool { return matchQuirk(f, drop) })
	}
}

func matchQuirk(f *run.Failure, drop func(q *refobj.Quirks)) bool {
	in, ok := f.In.(Input)
	if !ok || len(in.Ops) == 0 {
		return false
	}
	// pre-state of the last step under the known-deviation model
	p := newSim(knownQuirks())
	for _, raw := range in.Ops[:len(in.Ops)-1] {
		// observing is part of the history: a modelled function used as a
		// getter may write the slot
		if _, crashed := p.observe(p.apply(resolveOp(raw, len(p.objs)))); crashed {
			return false
		}
	}
	op := resolveOp(in.Ops[len(in.Ops)-1], len(p.objs))
	step := func(q refobj.Quirks) ([]obsLine, bool) {
		k := p.fork(q)
		return k.observe(k.apply(op))
	}
	without := knownQuirks()
	drop(&without)
	all, allPanic := step(knownQuirks())
	wo, woPanic := step(without)
	if f.Kind == "panic" {
		return allPanic && !woPanic
	}
	if f.Kind != "mismatch" || allPanic {
		return false
	}
	i := strings.Index(f.Actual, "=")
	if i < 0 {
		return false
	}
	key, text := f.Actual[:i], f.Actual[i+1:]
	find := func(ls []obsLine) (string, bool) {
		for _, l := range ls {
			if l.Key == key {
				return l.Text, true
			}
		}
		return "", false
	}
	a, ok := find(all)
	if !ok || a != text {
		return false
	}
	if woPanic {
		return true
	}
	if b, ok := find(wo); !ok || b != text {
		return true
	}
	// two deviations can each produce the observation on their own; then
	// neither is necessary. X still claims it when X alone is sufficient.
	var only refobj.Quirks
	setOnly(&only, drop)
	on, onPanic := step(only)
	if onPanic {
		return false
	}
	c, ok := find(on)
	return ok && c == text
}

// setOnly switches on exactly the deviation that drop switches off.
func setOnly(q *refobj.Quirks, drop func(q *refobj.Quirks)) {
	all, without := knownQuirks(), knownQuirks()
	drop(&without)
	q.ForInNoShadow = all.ForInNoShadow != without.ForInNoShadow
	q.ForInLiveOrder = all.ForInLiveOrder != without.ForInLiveOrder
	q.DefinePropertiesEager = all.DefinePropertiesEager != without.DefinePropertiesEager
	q.AccessorBothUndefinedIsGeneric = all.AccessorBothUndefinedIsGeneric != without.AccessorBothUndefinedIsGeneric
	q.NamesOfPrimitive = all.NamesOfPrimitive != without.NamesOfPrimitive
	q.GenericRedefClearsWritable = all.GenericRedefClearsWritable != without.GenericRedefClearsWritable
	q.WritableOnlyKeepsAccessor = all.WritableOnlyKeepsAccessor != without.WritableOnlyKeepsAccessor
}
