package c07

import (
	"fmt"
	"reflect"
	"sort"
	"strings"

	"github.com/robertkrimen/otto"
)

// shapeCheck reads otto's internal property tables of the history's objects
// (global array O) through reflection and checks the structural invariant the
// JS-level observations depend on: object.propertyOrder has no duplicates and
// holds exactly the keys of object.property. It returns "" when the invariant
// holds or when the internal layout is not the expected one (then nothing is
// claimed).
func shapeCheck(vm *otto.Otto) (msg string, checked int) {
	defer func() {
		if r := recover(); r != nil {
			msg = ""
		}
	}()
	arr, err := vm.Get("O")
	if err != nil || !arr.IsObject() {
		return "", 0
	}
	ao := internalObject(reflect.ValueOf(arr))
	if !ao.IsValid() {
		return "", 0
	}
	props := ao.FieldByName("property")
	for i := 0; ; i++ {
		pv := props.MapIndex(reflect.ValueOf(fmt.Sprint(i)))
		if !pv.IsValid() {
			return "", checked
		}
		// property.value is an interface{} holding an otto.Value
		val := pv.FieldByName("value")
		if val.Kind() == reflect.Interface {
			val = val.Elem()
		}
		o := internalObject(val)
		if !o.IsValid() {
			continue
		}
		order := o.FieldByName("propertyOrder")
		table := o.FieldByName("property")
		var ord, keys []string
		seen := map[string]bool{}
		dup := false
		for j := 0; j < order.Len(); j++ {
			n := order.Index(j).String()
			if seen[n] {
				dup = true
			}
			seen[n] = true
			ord = append(ord, n)
		}
		for _, k := range table.MapKeys() {
			keys = append(keys, k.String())
		}
		sort.Strings(keys)
		sorted := append([]string(nil), ord...)
		sort.Strings(sorted)
		if dup || strings.Join(sorted, ",") != strings.Join(keys, ",") {
			return fmt.Sprintf("O[%d]: propertyOrder=%v property keys=%v", i, ord, keys), checked
		}
		checked++
	}
}

// internalObject extracts the *object struct behind an otto.Value given as a
// reflect.Value of the Value struct.
func internalObject(v reflect.Value) reflect.Value {
	if v.Kind() != reflect.Struct {
		return reflect.Value{}
	}
	f := v.FieldByName("value")
	if !f.IsValid() {
		return reflect.Value{}
	}
	if f.Kind() == reflect.Interface {
		f = f.Elem()
	}
	if f.Kind() != reflect.Ptr || f.IsNil() {
		return reflect.Value{}
	}
	e := f.Elem()
	if e.Kind() != reflect.Struct || !e.FieldByName("propertyOrder").IsValid() {
		return reflect.Value{}
	}
	return e
}
