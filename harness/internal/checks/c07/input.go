// Package c07 monitors otto's object property model (ES5.1 8.10, 8.12, 15.2.3,
// 15.2.4.5/7, 11.4.1, 11.8.7, 11.13.1, 12.6.4) against internal/refobj on
// generated histories of object-model operations.
package c07

import (
	"strconv"
	"strings"
)

// A value token names one ECMAScript value of the workload alphabet:
//
//	u null true false 0 -0 NaN 1   primitives
//	's  '                          the strings "s" and ""
//	o<k>                           the k-th object created by the history
//	OP                             Object.prototype (prototype position only)
//	G1 G2 S1 S2                    the four modelled functions
type Tok = string

// Field is one field of a descriptor object: name and value token.
type Field struct {
	F string `json:"f"`
	V Tok    `json:"v"`
}

// Desc is the Attributes argument of Object.defineProperty (or one value of a
// Properties map): either a non-object (Prim) or an object with own fields
// and, optionally, fields inherited from its prototype.
type Desc struct {
	Prim Tok     `json:"prim,omitempty"`
	Own  []Field `json:"own,omitempty"`
	Inh  []Field `json:"inh,omitempty"`
	// Rd: every own field is an accessor that logs "Rd:<field>" when read, so the order in which
	// ToPropertyDescriptor (8.10.5 steps 3-8) reads the fields, and where it stops, is observed.
	Rd bool `json:"rd,omitempty"`
}

// NamedDesc is one entry of a Properties map literal.
type NamedDesc struct {
	N string `json:"n"`
	D Desc   `json:"d"`
}

// Lit is one PropertyAssignment of an object initialiser.
type Lit struct {
	N string `json:"n"`
	K string `json:"k"` // value | get | set
	V Tok    `json:"v,omitempty"`
}

// Asg is one "this.n = v" of a constructor body.
type Asg struct {
	N string `json:"n"`
	V Tok    `json:"v"`
}

// Op is one step of a history.
//
//	create     O[new] = Object.create(Proto [, P | PO])
//	literal    O[new] = { L... }
//	construct  function C(){A...}; [C.prototype = Proto;] O[new] = new C()
//	defprop    Object.defineProperty(T, N, D)
//	defprops   Object.defineProperties(T, P | PO)
//	assign     T.N = V   /  T["N"] = V  (Br)
//	delete     delete T.N / delete T["N"]
//	freeze | seal | prevent
//	forindel   for (k in T) { record k; first iteration: delete T2[N] }
//	prim       Object.<N>(V, ...) with a non-object V
type Op struct {
	K     string      `json:"k"`
	T     Tok         `json:"t,omitempty"`
	T2    Tok         `json:"t2,omitempty"`
	N     string      `json:"n,omitempty"`
	Br    bool        `json:"br,omitempty"`
	V     Tok         `json:"v,omitempty"`
	D     *Desc       `json:"d,omitempty"`
	P     []NamedDesc `json:"p,omitempty"`
	HasP  bool        `json:"hasp,omitempty"`
	PO    Tok         `json:"po,omitempty"`
	Proto Tok         `json:"proto,omitempty"`
	L     []Lit       `json:"l,omitempty"`
	A     []Asg       `json:"a,omitempty"`
}

// Input is one self-contained history.
type Input struct {
	Ops []Op `json:"ops"`
}

var names = []string{"a", "b", "0", "length"}
var fields = []string{"value", "writable", "get", "set", "enumerable", "configurable"}

// resolveTok maps an object token onto an object that exists when the step
// runs (histories stay replayable after truncation / hand editing).
func resolveTok(t Tok, nobj int) Tok {
	if len(t) >= 2 && t[0] == 'o' && t[1] >= '0' && t[1] <= '9' {
		k, err := strconv.Atoi(t[1:])
		if err != nil || nobj == 0 {
			return "OP"
		}
		return "o" + strconv.Itoa(k%nobj)
	}
	return t
}

func resolveDesc(d Desc, nobj int) Desc {
	out := Desc{Prim: resolveTok(d.Prim, nobj), Rd: d.Rd}
	for _, f := range d.Own {
		out.Own = append(out.Own, Field{f.F, resolveTok(f.V, nobj)})
	}
	for _, f := range d.Inh {
		out.Inh = append(out.Inh, Field{f.F, resolveTok(f.V, nobj)})
	}
	return out
}

// resolveOp rewrites every object token of op against the current object count.
func resolveOp(op Op, nobj int) Op {
	r := op
	r.T, r.T2, r.V, r.PO, r.Proto = resolveTok(op.T, nobj), resolveTok(op.T2, nobj), resolveTok(op.V, nobj), resolveTok(op.PO, nobj), resolveTok(op.Proto, nobj)
	if op.D != nil {
		d := resolveDesc(*op.D, nobj)
		r.D = &d
	}
	r.P = nil
	for _, p := range op.P {
		r.P = append(r.P, NamedDesc{p.N, resolveDesc(p.D, nobj)})
	}
	r.L = nil
	for _, l := range op.L {
		r.L = append(r.L, Lit{l.N, l.K, resolveTok(l.V, nobj)})
	}
	r.A = nil
	for _, a := range op.A {
		r.A = append(r.A, Asg{a.N, resolveTok(a.V, nobj)})
	}
	return r
}

// ------------------------------------------------------------ JS emission

func jsTok(t Tok) string {
	switch t {
	case "u", "":
		return "undefined"
	case "null", "true", "false", "0", "1":
		return t
	case "-0":
		return "(-0)"
	case "NaN":
		return "(0/0)"
	case "OP":
		return "Object.prototype"
	case "G1", "G2", "S1", "S2":
		return t
	}
	if t[0] == '\'' {
		return `"` + t[1:] + `"`
	}
	if t[0] == 'o' {
		return "O[" + t[1:] + "]"
	}
	panic("bad token " + t)
}

func jsKey(n string) string {
	if n == "0" {
		return "0"
	}
	return n
}

func jsMember(n string, bracket bool) string {
	if n == "0" {
		if bracket {
			return `["0"]`
		}
		return "[0]"
	}
	if bracket {
		return `["` + n + `"]`
	}
	return "." + n
}

func jsFields(fs []Field) string {
	var parts []string
	for _, f := range fs {
		parts = append(parts, f.F+": "+jsTok(f.V))
	}
	return "{" + strings.Join(parts, ", ") + "}"
}

func jsDesc(d Desc) string {
	if d.Prim != "" {
		return jsTok(d.Prim)
	}
	if len(d.Inh) > 0 {
		return "__inh(" + jsFields(d.Inh) + ", " + jsFields(d.Own) + ")"
	}
	if d.Rd {
		return "__rd(" + jsFields(d.Own) + ")"
	}
	return jsFields(d.Own)
}

func jsProps(op Op) string {
	if op.PO != "" {
		return jsTok(op.PO)
	}
	var parts []string
	for _, p := range op.P {
		parts = append(parts, jsKey(p.N)+": "+jsDesc(p.D))
	}
	return "{" + strings.Join(parts, ", ") + "}"
}

// jsExpr renders the (already resolved) step as one JavaScript expression.
func jsExpr(op Op) string {
	switch op.K {
	case "create":
		if op.HasP || op.PO != "" {
			return "__new(Object.create(" + jsTok(op.Proto) + ", " + jsProps(op) + "))"
		}
		return "__new(Object.create(" + jsTok(op.Proto) + "))"
	case "literal":
		var parts []string
		for _, l := range op.L {
			switch l.K {
			case "get":
				parts = append(parts, "get "+jsKey(l.N)+`(){ return __LG(this, "`+l.N+`"); }`)
			case "set":
				parts = append(parts, "set "+jsKey(l.N)+`(v){ __LS(this, "`+l.N+`", v); }`)
			default:
				parts = append(parts, jsKey(l.N)+": "+jsTok(l.V))
			}
		}
		return "__new({" + strings.Join(parts, ", ") + "})"
	case "construct":
		var b strings.Builder
		b.WriteString("(function(){ function C(){ ")
		for _, a := range op.A {
			b.WriteString("this" + jsMember(a.N, false) + " = " + jsTok(a.V) + "; ")
		}
		b.WriteString("} ")
		if op.Proto != "" {
			b.WriteString("C.prototype = " + jsTok(op.Proto) + "; ")
		}
		b.WriteString("return __new(new C()); })()")
		return b.String()
	case "defprop":
		return "Object.defineProperty(" + jsTok(op.T) + `, "` + op.N + `", ` + jsDesc(*op.D) + ")"
	case "defprops":
		return "Object.defineProperties(" + jsTok(op.T) + ", " + jsProps(op) + ")"
	case "assign":
		return jsTok(op.T) + jsMember(op.N, op.Br) + " = " + jsTok(op.V)
	case "delete":
		return "delete " + jsTok(op.T) + jsMember(op.N, op.Br)
	case "freeze":
		return "Object.freeze(" + jsTok(op.T) + ")"
	case "seal":
		return "Object.seal(" + jsTok(op.T) + ")"
	case "prevent":
		return "Object.preventExtensions(" + jsTok(op.T) + ")"
	case "forindel":
		return "__fid(" + jsTok(op.T) + ", " + jsTok(op.T2) + `, "` + op.N + `")`
	case "prim":
		switch op.N {
		case "getOwnPropertyDescriptor":
			return "Object." + op.N + "(" + jsTok(op.V) + `, "a")`
		case "defineProperty":
			return "Object." + op.N + "(" + jsTok(op.V) + `, "a", {})`
		case "defineProperties":
			return "Object." + op.N + "(" + jsTok(op.V) + ", {})"
		}
		return "Object." + op.N + "(" + jsTok(op.V) + ")"
	}
	panic("bad op kind " + op.K)
}

// jsStep wraps the step expression: evaluate, classify the completion, dump.
func jsStep(op Op) string {
	return "var __r; try { __r = \"ok:\" + __v(" + jsExpr(op) + "); } catch (__e) { __r = \"throw:\" + __ec(__e); } __dump(__r)"
}

// prelude installs the modelled functions and the generic dumper. Every
// number is classified with ===, !== and 1/x so that the rendering does not
// depend on otto's number-to-string conversion of -0 / NaN.
const prelude = `
var O = [], __log = [], __slot;
var __hop = Object.prototype.hasOwnProperty, __pie = Object.prototype.propertyIsEnumerable;
var __NAMES = ["a", "b", "0", "length"];
var __FIELDS = ["value", "writable", "get", "set", "enumerable", "configurable"];
function __v(x) {
  var t = typeof x, i;
  if (x === undefined) return "u";
  if (x === null) return "null";
  if (t === "boolean") return x ? "true" : "false";
  if (t === "number") {
    if (x !== x) return "NaN";
    if (x === 0) return 1 / x < 0 ? "-0" : "0";
    if (x === 1) return "1";
    return "n" + x;
  }
  if (t === "string") return "'" + x;
  if (x === Object.prototype) return "OP";
  for (i = 0; i < O.length; i++) if (O[i] === x) return "o" + i;
  if (x === G1) return "G1";
  if (x === G2) return "G2";
  if (x === S1) return "S1";
  if (x === S2) return "S2";
  if (t === "function") return "fn";
  return "obj?";
}
function __args(a) { var s = "", i; for (i = 0; i < a.length; i++) s += (i ? "," : "") + __v(a[i]); return s; }
function G1() { __log.push("G1@" + __v(this) + "(" + __args(arguments) + ")"); return "g1"; }
function G2() { __log.push("G2@" + __v(this) + "(" + __args(arguments) + ")"); return __slot; }
function S1(v) { __log.push("S1@" + __v(this) + "(" + __args(arguments) + ")"); __slot = v; }
function S2(v) { __log.push("S2@" + __v(this) + "(" + __args(arguments) + ")"); }
function __LG(self, n) { __log.push("Lg:" + n + "@" + __v(self) + "()"); return "lg"; }
function __LS(self, n, v) { __log.push("Ls:" + n + "@" + __v(self) + "(" + __v(v) + ")"); }
function __new(o) { O[O.length] = o; return o; }
function __rd(o) { var d = {}, k; for (k in o) (function (k, v) { Object.defineProperty(d, k, {get: function () { __log.push("Rd:" + k + "@obj?()"); return v; }, enumerable: true, configurable: true}); })(k, o[k]); return d; }
function __inh(p, own) { var d = Object.create(p), k; for (k in own) d[k] = own[k]; return d; }
function __ec(e) { return (e instanceof TypeError) ? "TypeError" : "other(" + e + ")"; }
function __l(a) { var s = "", i; for (i = 0; i < a.length; i++) s += (i ? "," : "") + a[i]; return s; }
function __fid(o, t, n) {
  var ks = [], first = true, k;
  for (k in o) { ks.push(k); if (first) { first = false; delete t[n]; } }
  return __l(ks);
}
function __d(d) {
  if (d === undefined) return "u";
  var s = "{", i, f, k, known;
  for (i = 0; i < __FIELDS.length; i++) {
    f = __FIELDS[i];
    if (__hop.call(d, f)) s += f + ":" + __v(d[f]) + (__pie.call(d, f) ? "" : "(nonenum)") + " ";
  }
  for (k in d) {
    known = false;
    for (i = 0; i < __FIELDS.length; i++) if (__FIELDS[i] === k) known = true;
    if (!known) s += "extra:" + k + " ";
  }
  return s + "}";
}
function __dump(r) {
  var out = [], i, j, o, n, g, ks, k;
  out.push("R=" + r);
  out.push("L=" + __l(__log));
  __log = [];
  for (i = 0; i < O.length; i++) {
    o = O[i];
    for (j = 0; j < __NAMES.length; j++) {
      n = __NAMES[j];
      try { g = __v(o[n]); } catch (e) { g = "throw:" + __ec(e); }
      out.push("o" + i + "." + n + "=get:" + g + ";desc:" + __d(Object.getOwnPropertyDescriptor(o, n)) +
        ";in:" + (n in o) + ";own:" + __hop.call(o, n) + ";pie:" + __pie.call(o, n));
    }
    out.push("o" + i + "#keys=" + __l(Object.keys(o)));
    out.push("o" + i + "#names=" + __l(Object.getOwnPropertyNames(o)));
    ks = [];
    for (k in o) ks.push(k);
    out.push("o" + i + "#forin=" + __l(ks));
    out.push("o" + i + "#flags=frozen:" + Object.isFrozen(o) + ",sealed:" + Object.isSealed(o) + ",extensible:" + Object.isExtensible(o));
    out.push("o" + i + "#proto=" + __v(Object.getPrototypeOf(o)));
  }
  out.push("OL=" + __l(__log));
  __log = [];
  return out.join("\n");
}
`
