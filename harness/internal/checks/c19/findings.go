package c19

import (
	"strings"

	"verif/internal/run"
)

func registerMatchers() {
	// Deviation model: the RangeError raised for an invalid array length has
	// no message property of its own ... the in-script shape line is exactly
	// the expected one with the message fields of an absent message.
	run.RegisterMatcher("c19.arrayLengthNoMessage", func(f *run.Failure) bool {
		in, ok := f.In.(Input)
		if !ok || in.Kind != "class" {
			return false
		}
		switch in.Expr {
		case "new Array(-1)", "new Array(1.5)", "[].length = -1", "Array(4294967296)":
		default:
			return false
		}
		return f.Actual == "RangeError|true|true|undefined|false|true|false|[object Error]"
	})
	// Deviation model for the two call-site findings: the generator also
	// predicts the frames under "caller frame of an IIFE dropped" and "getter
	// read has no position"; a failing trace is attributed only if it equals
	// that prediction exactly.
	run.RegisterMatcher("c19.callSiteDeviations", func(f *run.Failure) bool {
		in, ok := f.In.(Input)
		if !ok || in.Kind != "trace" || f.Site != "trace:frames" || len(in.Dev) == 0 {
			return false
		}
		dev := in.Dev
		lim := in.Limit
		if lim < 0 {
			lim = 10
		}
		if lim > 0 && len(dev) > lim {
			dev = dev[:lim]
		}
		var kept []string
		for _, d := range dev {
			if d != "" { // "" = slot of a dropped caller frame
				kept = append(kept, d)
			}
		}
		return strings.Join(kept, " ; ") == f.Actual
	})
}
