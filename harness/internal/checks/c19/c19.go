// Package c19 monitors run-time errors: native error class and shape as seen
// by scripts, the text of the error returned by Run, the stack trace (frame
// labels and file:line:column of every call site, innermost first, up to the
// configured limit) and the position of syntax errors. The generator places
// every construct itself, so it knows the expected class and every position.
package c19

import (
	"encoding/json"
	"fmt"
	"regexp"
	"strings"

	"github.com/robertkrimen/otto"
	"github.com/robertkrimen/otto/parser"

	"verif/internal/gen"
	"verif/internal/ox"
	"verif/internal/run"
)

// Input is one self-contained case.
type Input struct {
	Kind  string   `json:"kind"` // class | trace | syntax
	Src   string   `json:"src"`
	Class string   `json:"class,omitempty"` // expected native error class
	Expr  string   `json:"expr,omitempty"`  // class cases: the raising expression
	File  string   `json:"file,omitempty"`  // trace: file name given to Compile ("" = Run(string))
	Limit int      `json:"limit,omitempty"` // trace limit (-1 = leave default)
	Want  []string `json:"want,omitempty"`  // trace: expected frame lines, innermost first (before applying the limit)
	Dev   []string `json:"dev,omitempty"`   // trace: frame lines under the known call-site deviations (findings only)
	Line  int      `json:"line,omitempty"`  // syntax: expected line
	Col   int      `json:"col,omitempty"`   // syntax: expected column
	Via   string   `json:"via,omitempty"`   // syntax: parse | run | eval | function
}

func init() {
	run.Register(&run.Check{
		ID:   "C19",
		Rule: "class cases: each of ~70 error-raising constructs (ES5 8.7, 11.2, 11.8.6-7, 15.1.2.1, 15.3.2.1, 15.4, 15.7.4, 15.12, 15.1.3, 15.2.3 ...) is executed inside generated nesting (function/method/constructor/callback/eval/getter) both caught in-script (name, instanceof chain, prototype identity, non-empty string message, String(e)) and uncaught (Run's error text = 'Name: message'); trace cases: chains of 1-12 frames of every call form with call sites at generated (line, column), raising construct at a known position, x trace limits x file names: every frame line is compared; syntax cases: one offending token at a generated (line, column) through ParseFile/Run/eval/Function. Non-trivial = trace with >= 3 frames, every class and syntax case; distinct by source text",
		Assumptions: []string{
			"call-site convention of this code base (pinned by error_test.go/function_stack_test.go): innermost frame = position of the raising construct (unresolvable identifier; base of a failed member access; callee of the new/call that built a thrown Error), outer frames = first character of the callee expression of the call in progress; label = the function's own name; natives '<native code>'; columns in bytes, lines by LF",
			"message texts are not compared (ES5 does not fix them): only non-emptiness and the Name: message composition",
			"positions inside eval/Function code are relative to that text and are not asserted; only the class and catchability are",
		},
		Floor: func(tier string) int {
			if tier == "thorough" {
				return 100000
			}
			return 2500
		},
		Cases: func(tier string, seed uint64) int {
			if tier == "thorough" {
				return 2000000
			}
			return 4000
		},
		Exec: func(c *run.Ctx, i int) { checkOne(c, generate(c.Rng, i)) },
		Replay: func(c *run.Ctx, raw json.RawMessage) {
			var in Input
			if err := json.Unmarshal(raw, &in); err != nil {
				panic(err)
			}
			checkOne(c, in)
		},
	})
	registerMatchers()
}

// ---------------------------------------------------------------- class cases

var classExprs = []struct{ expr, class string }{
	{"undefined()", "TypeError"}, {"o.nope()", "TypeError"}, {"(1)()", "TypeError"}, {"o.a()", "TypeError"}, {"'s'()", "TypeError"},
	{"null.x", "TypeError"}, {"undefined.x", "TypeError"}, {"null.x = 1", "TypeError"}, {"u.y.z", "TypeError"}, {"undefined[0]", "TypeError"},
	{"nope", "ReferenceError"}, {"nope + 1", "ReferenceError"}, {"nope.x", "ReferenceError"}, {"nope()", "ReferenceError"}, {"typeof nope.x", "ReferenceError"},
	{"new 5", "TypeError"}, {"new o", "TypeError"}, {"new Math.max()", "TypeError"},
	{"new Array(-1)", "RangeError"}, {"new Array(1.5)", "RangeError"}, {"[].length = -1", "RangeError"}, {"Array(4294967296)", "RangeError"},
	{"(1).toString(1)", "RangeError"}, {"(1).toString(37)", "RangeError"}, {"(1).toFixed(101)", "RangeError"}, {"(1).toFixed(-1)", "RangeError"}, {"(1).toPrecision(0)", "RangeError"}, {"(1).toExponential(-1)", "RangeError"},
	{"eval('1 +')", "SyntaxError"}, {"eval('var')", "SyntaxError"}, {"Function('a b')", "SyntaxError"}, {"new Function('(')", "SyntaxError"}, {"JSON.parse('{')", "SyntaxError"}, {"JSON.parse('')", "SyntaxError"}, {"new RegExp('(')", "SyntaxError"}, {"RegExp('[')", "SyntaxError"},
	{"1 instanceof 2", "TypeError"}, {"o instanceof o", "TypeError"}, {"o instanceof null", "TypeError"}, {"'a' in 1", "TypeError"}, {"'a' in 's'", "TypeError"}, {"1 in null", "TypeError"},
	{"(function(){ var a = []; a[0] = a; return JSON.stringify(a) })()", "TypeError"}, {"(function(){ var a = {}; a.b = {c: a}; return JSON.stringify(a) })()", "TypeError"},
	{"decodeURI('%')", "URIError"}, {"decodeURIComponent('%E0%A4%A')", "URIError"}, {"decodeURIComponent('%C0%80')", "URIError"},
	{"Object.defineProperty(1, 'a', {})", "TypeError"}, {"Object.create(1)", "TypeError"}, {"Object.getPrototypeOf(1)", "TypeError"}, {"Object.keys(null)", "TypeError"}, {"Object.defineProperty({}, 'a', {get: 1})", "TypeError"}, {"Object.defineProperty({}, 'a', {get: function(){}, value: 1})", "TypeError"},
	{"Function.prototype.call.call(1)", "TypeError"}, {"Function.prototype.bind.call({})", "TypeError"}, {"[].reduce(function(){})", "TypeError"}, {"[1].forEach(1)", "TypeError"}, {"[1].sort(1)", "TypeError"},
	{"Date.prototype.getTime.call({})", "TypeError"}, {"Number.prototype.valueOf.call('x')", "TypeError"}, {"Boolean.prototype.toString.call(1)", "TypeError"}, {"RegExp.prototype.exec.call({}, 'a')", "TypeError"}, {"new Date(NaN).toISOString()", "RangeError"},
	{"Object.freeze(1)", "TypeError"}, {"'x' instanceof String.prototype", "TypeError"}, {"({}).x.y", "TypeError"}, {"(function(){ 'x'.y.z })()", "TypeError"},
	// refused [[Put]] / [[Delete]] with Throw = true (15.4.4.x on frozen and sealed objects, 8.12.5, 8.12.7)
	{"Object.freeze([1,2]).push(3)", "TypeError"}, {"Object.freeze([1,2]).pop()", "TypeError"}, {"Object.freeze([1,2]).shift()", "TypeError"}, {"Object.freeze([1,2]).reverse()", "TypeError"},
	{"Array.prototype.push.call(Object.freeze({}), 1)", "TypeError"}, {"Object.seal([1]).unshift(0)", "TypeError"},
	// operators and statements that raise without a call or a member access
	{"o instanceof {}", "TypeError"}, {"(function(){ function F(){} F.prototype = 3; return o instanceof F })()", "TypeError"}, {"(function(){ with (undefined) {} })()", "TypeError"}, {"(function(){ with (null) {} })()", "TypeError"},
	{"({valueOf: function(){ return {} }, toString: function(){ return {} }}) + 1", "TypeError"}, {"String({toString: function(){ return {} }, valueOf: function(){ return [] }})", "TypeError"},
	{"throw new Error('')", "Error"}, {"throw new RangeError('')", "RangeError"}, {"throw TypeError('')", "TypeError"}, {"throw new Error({toString: function(){ return '' }})", "Error"},
	{"throw new EvalError('e')", "EvalError"}, {"throw new URIError('u')", "URIError"}, {"throw new SyntaxError('s')", "SyntaxError"}, {"throw new Error('plain')", "Error"}, {"throw new TypeError()", "TypeError"},
}

var wrappers = []string{
	"%s",
	"(function(){ %s })()",
	"(function named(){ return [1].map(function(){ %s }) })()",
	"({m: function(){ %s }}).m()",
	"new (function C(){ %s })()",
	"eval(%q)",
	"({get g(){ %s ; return 1 }}).g",
	"(function(){ with ({}) { L: for (;;) { %s ; break L } } })()",
	"(function(){ try { throw 0 } catch (ignored) { %s } })()",
	"(function(){ try { } finally { %s } })()",
	"[1].forEach(function(){ (function(){ %s }).call(null) })",
	"(function(){ return (function(){ %s }).apply(this, arguments) }).bind({})(1)",
}

func classCase(r *gen.Rand) Input {
	e := classExprs[r.Intn(len(classExprs))]
	stmt := e.expr
	if !strings.HasPrefix(stmt, "throw ") {
		stmt = "(" + stmt + ")"
	}
	w := wrappers[r.Intn(len(wrappers))]
	var body string
	if strings.Contains(w, "%q") {
		body = fmt.Sprintf(w, stmt)
	} else {
		body = fmt.Sprintf(w, stmt)
	}
	return Input{Kind: "class", Src: body, Class: e.class, Expr: e.expr}
}

const classPrelude = "var o = {a: 1}, u = {};\n"

func checkClass(c *run.Ctx, in Input) {
	// caught in script
	probe := classPrelude + "var R; try { " + in.Src + "; R = 'no error' } catch (e) { var m = e.message; R = (e instanceof Error) ? [e.name, e instanceof " + in.Class + ", Object.getPrototypeOf(e) === " + in.Class + ".prototype, typeof m, typeof m === 'string', String(e) === (m === '' || m === undefined ? e.name : e.name + ': ' + m), typeof m === 'string' && m.length > 0, Object.prototype.toString.call(e)].join('|') : 'non-error:' + typeof e } R"
	vm := otto.New()
	out := ox.Run(vm, probe)
	c.Eval(2)
	if out.Panic != nil {
		c.Fail("panic", "class:"+in.Expr, in, "value or error", fmt.Sprint(out.Panic), out.Stack)
		return
	}
	// the script itself asked for no message, or for the empty one: message is then the (inherited or own) empty string
	explicitNoMessage := in.Expr == "throw new TypeError()" || strings.Contains(in.Expr, "Error('')") || strings.Contains(in.Expr, "return '' }})")
	want := in.Class + "|true|true|string|true|true|true|[object Error]"
	if explicitNoMessage {
		want = in.Class + "|true|true|string|true|true|false|[object Error]"
	}
	got := ""
	if out.Err != nil {
		got = "probe failed: " + out.Err.Error()
	} else {
		got = out.Val.String()
	}
	if got != want {
		site := "class:" + in.Expr
		c.Fail("mismatch", site, in, "name|instanceof|prototype|typeof message|..|String(e)|message non-empty|class = "+want, got, probe)
	}
	// uncaught: Run returns 'Name: message'
	vm2 := otto.New()
	msgOut := ox.Run(vm2, classPrelude+"var M; try { "+in.Src+" } catch (e) { M = e.message } M")
	un := ox.Run(otto.New(), classPrelude+in.Src)
	if un.Panic != nil {
		c.Fail("panic", "uncaught:"+in.Expr, in, "error", fmt.Sprint(un.Panic), un.Stack)
		return
	}
	if un.Err == nil {
		c.Fail("mismatch", "uncaught:"+in.Expr, in, in.Class, "no error", "")
		return
	}
	if _, ok := un.Err.(*otto.Error); !ok {
		c.Fail("mismatch", "uncaught-type:"+in.Expr, in, "*otto.Error", fmt.Sprintf("%T: %v", un.Err, un.Err), "")
	} else if msgOut.Err == nil && msgOut.Val.IsString() {
		m := msgOut.Val.String()
		wantText := in.Class + ": " + m
		if m == "" {
			wantText = in.Class
		}
		if un.Err.Error() != wantText {
			c.Fail("mismatch", "uncaught-text:"+in.Expr, in, wantText, un.Err.Error(), "")
		}
	}
	c.Feature("class:" + in.Class)
	c.Nontrivial(in.Src)
}

// ---------------------------------------------------------------- trace cases

type frameKind int

const (
	fkDecl frameKind = iota
	fkAnon
	fkNamedExpr
	fkMethod
	fkCtor
	fkForEach
	fkCall
	fkApply
	fkBound
	fkIIFE         // the function is an immediately invoked function expression
	fkGetter       // the function is a getter, "called" by a property read
	fkCtorDot      // new ns.C()
	fkCtorBracket  // new ns['C']()
	fkDeepMethod   // ns.sub.C()
	fkEvalDirect   // eval("\n  f()"): the caller's frame points into the eval text
	fkEvalIndirect // ge("\n  f()") with var ge = eval: global code of the eval text plus the native eval frame
)

// traceCase builds a chain top -> f1 -> ... -> fn -> raise with known positions.
func traceCase(r *gen.Rand) Input {
	n := r.Range(1, 12)
	if r.Chance(2, 3) {
		n = r.Range(1, 5)
	}
	file := ""
	if r.Chance(1, 3) {
		file = []string{"app.js", "lib/util.js", "x"}[r.Intn(3)]
	}
	shown := file
	if shown == "" {
		shown = "<anonymous>"
	}
	var lines []string
	pad := func() string { return strings.Repeat(" ", r.Intn(7)) }
	addLine := func(s string) int { lines = append(lines, s); return len(lines) }
	for k := r.Intn(3); k > 0; k-- {
		addLine("")
	}
	kinds := make([]frameKind, n)
	names := make([]string, n)  // how the function is reached (variable name)
	labels := make([]string, n) // the function's own name ("" = anonymous)
	for i := range kinds {
		kinds[i] = frameKind(r.Intn(9))
		if r.Chance(1, 25) {
			kinds[i] = []frameKind{fkIIFE, fkGetter}[r.Intn(2)]
		} else if r.Chance(1, 4) {
			kinds[i] = []frameKind{fkCtorDot, fkCtorBracket, fkDeepMethod, fkEvalDirect, fkEvalIndirect}[r.Intn(5)]
			if (kinds[i] == fkEvalDirect || kinds[i] == fkEvalIndirect) && (i == 0 || file == "") {
				// positions in eval text are reported against the file "<anonymous>": keep them
				// apart from the program's own frames, and out of global code
				kinds[i] = fkCtorDot
			}
		}
		names[i] = fmt.Sprintf("f%d", i+1)
	}
	// frames[i] = the line describing function i+1 (innermost last)
	type site struct {
		line, col int
		file      string // "" = the program's file
	}
	callSites := make([]site, n+1)   // callSites[i] = where function i calls function i+1 (0 = top level)
	natives := make([][]string, n+1) // frames between i and i+1 (native mediators, eval code)
	// raising construct
	raiseKinds := []struct {
		pre, text, class string
		off              int  // column of the reported position within text
		noPos            bool // known deviation: the error has no position of its own
	}{
		{"", "nope_%d", "ReferenceError", 0, false},
		{"", "null.x", "TypeError", 0, false},
		{"throw new ", "Error('boom')", "Error", 0, false},
		{"throw new ", "RangeError('r')", "RangeError", 0, false},
		{"return ", "undefined_fn_%d()", "ReferenceError", 0, false},
		// errors of operators and statements (no call, no member access): the position is that of the expression
		{"return ", "'a' in 2", "TypeError", 0, false},
		{"return ", "Obj0 instanceof 2", "TypeError", 0, false},
		{"return ", "Obj0 instanceof Obj0", "TypeError", 0, false},
		{"return ", "Obj0 instanceof NoProto", "TypeError", 0, false},
		// [[HasInstance]] of a bound function is its target's (15.3.4.5.3); the bind calls are made here, not at
		// top level, because the deviation models below refer to the last call made in global code
		{"return ", "Obj0 instanceof NoProto.bind(null)", "TypeError", 0, false},
		{"return ", "Obj0 instanceof NoProto.bind(null).bind(Obj0, 1)", "TypeError", 0, false},
		{"", "with (undefined) {}", "TypeError", 6, false},
		{"", "with (null) { 1 }", "TypeError", 6, false},
		{"return ", "NoPrim + 1", "TypeError", 0, true},
	}
	rk := raiseKinds[r.Intn(len(raiseKinds))]
	raiseText := rk.text
	if strings.Contains(raiseText, "%d") {
		raiseText = fmt.Sprintf(raiseText, r.Intn(100))
	}
	// define functions from innermost to outermost so that each body can call the next by name
	var raiseSite, lastTopCall site
	argCall := make([]bool, n) // the call of function i carries an argument that is itself a call
	for i := range argCall {
		argCall[i] = r.Chance(1, 3)
	}
	invoke := func(i int, p string) (string, int) {
		// text that calls function i (0-based) and the column offset of the callee's first character within it
		nm := names[i]
		a := ""
		if argCall[i] {
			a = "idf(idf(0))"
		}
		switch kinds[i] {
		case fkMethod:
			return p + "o" + nm + ".m(" + a + ")", len(p)
		case fkCtor:
			return p + "new " + nm + "(" + a + ")", len(p) + 4
		case fkForEach:
			return p + "[1].forEach(" + nm + ")", len(p)
		case fkCall:
			return p + nm + ".call(null)", len(p)
		case fkApply:
			return p + nm + ".apply(null, [])", len(p)
		case fkBound:
			return p + "b" + nm + "()", len(p)
		case fkIIFE:
			return p + "(0, " + nm + ")()", len(p)
		case fkGetter:
			return p + "o" + nm + ".g", len(p)
		case fkCtorDot:
			return p + "new ns" + nm + ".C(" + a + ")", len(p) + 4
		case fkCtorBracket:
			return p + "new ns" + nm + "['C'](" + a + ")", len(p) + 4
		case fkDeepMethod:
			return p + "ns" + nm + ".sub.C(" + a + ")", len(p)
		case fkEvalDirect:
			return p + "eval(\"\\n  " + nm + "(" + a + ")\")", len(p)
		case fkEvalIndirect:
			return p + "ge(\"\\n  " + nm + "(" + a + ")\")", len(p)
		}
		return p + nm + "(" + a + ")", len(p)
	}
	addLine("function idf(x) { return x }")
	addLine("var Obj0 = {}; function NoProto() {} NoProto.prototype = 3; var NoPrim = {valueOf: function () { return {} }, toString: function () { return {} }};")
	addLine("var ge = eval;")
	for i := n - 1; i >= 0; i-- {
		nm := names[i]
		var bodyLines []string
		if i == n-1 {
			p := pad()
			bodyLines = append(bodyLines, p+rk.pre+raiseText+";")
		} else {
			p := pad()
			txt, off := invoke(i+1, p+"return ")
			bodyLines = append(bodyLines, txt+";")
			_ = off
		}
		var head string
		switch kinds[i] {
		case fkDecl, fkCtor, fkForEach, fkCall, fkApply, fkBound, fkCtorDot, fkCtorBracket, fkDeepMethod, fkEvalDirect, fkEvalIndirect:
			head = "function " + nm + "() {"
			labels[i] = nm
		case fkAnon:
			head = "var " + nm + " = function () {"
			labels[i] = ""
		case fkNamedExpr:
			head = "var " + nm + " = function own" + nm + "() {"
			labels[i] = "own" + nm
		case fkMethod:
			head = "var o" + nm + " = { m: function () {"
			labels[i] = ""
		case fkIIFE:
			head = "var " + nm + " = function () {"
			labels[i] = ""
		case fkGetter:
			head = "var o" + nm + " = { get g() {"
			labels[i] = ""
		}
		addLine(head)
		if r.Chance(1, 4) && !(i == n-1 && rk.noPos) && !(i+1 < n && kinds[i+1] == fkGetter) {
			// (not where a known deviation is modelled as "the frame shows the last call this function made":
			// an error of ToPrimitive has no position of its own, and a getter is entered by a property read)
			// an error raised in eval code (or in Function code) and caught in this same activation
			// leaves this frame's own file and position as they were
			addLine(pad() + []string{
				`try { eval("nope_ev") } catch (e0) {}`,
				`try { eval("\n\n   idf(null.x)") } catch (e0) {}`,
				`try { eval("throw new Error('in eval')") } catch (e0) {} finally { idf(1) }`,
				`try { ge("\n nope_ge") } catch (e0) {}`,
				`try { Function("\n\n return nope_fn")() } catch (e0) {}`,
				`try { eval("(") } catch (e0) {}`,
			}[r.Intn(6)])
		}
		for _, bl := range bodyLines {
			ln := addLine(bl)
			if i == n-1 {
				col := len(bl) - len(strings.TrimLeft(bl, " ")) + len(rk.pre) + 1 + rk.off
				raiseSite = site{line: ln, col: col}
			} else {
				// recompute callee offset
				p := bl[:len(bl)-len(strings.TrimLeft(bl, " "))]
				_, off := invoke(i+1, p+"return ")
				callSites[i+1] = site{line: ln, col: off + 1}
				if kinds[i+1] == fkEvalDirect {
					// a direct eval adds no frame; the caller's frame shows the position in the eval text
					callSites[i+1] = site{line: 2, col: 3, file: "<anonymous>"}
				}
			}
		}
		switch kinds[i] {
		case fkMethod, fkGetter:
			addLine("} };")
		case fkAnon, fkNamedExpr, fkIIFE:
			addLine("};")
		default:
			addLine("}")
		}
		switch kinds[i] {
		case fkCtorDot, fkCtorBracket, fkDeepMethod:
			addLine("var ns" + nm + " = { C: " + nm + ", sub: { C: " + nm + " } };")
		}
		if kinds[i] == fkBound {
			ln := addLine("var b" + nm + " = " + nm + ".bind(null);")
			lastTopCall = site{line: ln, col: len("var b"+nm+" = ") + 1}
		}
		for k := r.Intn(2); k > 0; k-- {
			addLine("")
		}
	}
	p := pad()
	txt, off := invoke(0, p)
	ln := addLine(txt + ";")
	callSites[0] = site{line: ln, col: off + 1}
	for i := 0; i < n; i++ {
		switch kinds[i] {
		case fkForEach:
			natives[i] = []string{"at forEach (<native code>)"}
		case fkCall:
			natives[i] = []string{"at call (<native code>)"}
		case fkApply:
			natives[i] = []string{"at apply (<native code>)"}
		case fkEvalIndirect:
			natives[i] = []string{"at <anonymous>:2:3", "at eval (<native code>)"}
		}
	}
	// expected frames, innermost first
	var want []string
	fr := func(label string, s site) string {
		f := shown
		if s.file != "" {
			f = s.file
		}
		loc := fmt.Sprintf("%s:%d:%d", f, s.line, s.col)
		if label == "" {
			return "at " + loc
		}
		return "at " + label + " (" + loc + ")"
	}
	want = append(want, fr(labels[n-1], raiseSite))
	dev := append([]string{}, want...)
	deviates := false
	if rk.noPos {
		// known deviation: a TypeError raised by ToPrimitive has no position; the frame shows the
		// function's last call site, and the innermost function here has made no call
		deviates = true
		if labels[n-1] == "" {
			dev[0] = "at <unknown>"
		} else {
			dev[0] = "at " + labels[n-1] + " (<unknown>)"
		}
	}
	for i := n - 1; i >= 0; i-- {
		want = append(want, natives[i]...)
		dev = append(dev, natives[i]...)
		label := ""
		if i > 0 {
			label = labels[i-1]
		}
		want = append(want, fr(label, callSites[i]))
		switch kinds[i] {
		case fkIIFE:
			// known deviation: the frame of the caller of a call whose callee is
			// not an identifier / member expression is dropped (after the trace
			// limit has been applied: "" keeps the slot)
			deviates = true
			dev = append(dev, "")
		case fkGetter:
			// known deviation: a getter's "call site" (the property read) has no position
			deviates = true
			if i == 0 && lastTopCall.line > 0 {
				// at top level the frame shows the stale offset of the last call made there
				dev = append(dev, fr("", lastTopCall))
			} else if label == "" {
				dev = append(dev, "at <unknown>")
			} else {
				dev = append(dev, "at "+label+" (<unknown>)")
			}
		default:
			dev = append(dev, fr(label, callSites[i]))
		}
	}
	if !deviates {
		dev = nil
	}
	limit := []int{-1, 0, 1, 2, 5, 10, 50}[r.Intn(7)]
	in := Input{Kind: "trace", Src: strings.Join(lines, "\n"), Class: rk.class, File: file, Limit: limit, Want: want, Dev: dev}
	if r.Chance(1, 3) {
		// the error is caught at top level, other errors with traces of their own
		// are raised and caught, then the first one is thrown again: it must still
		// carry the frames of the place where it was raised
		in.Src = "try {\n" + in.Src + "\n} catch ($e) {\n" +
			[]string{
				"  try { null.x } catch ($1) {}\n",
				"  try { (function deeper() { (function deepest() { undefinedFunction() })() })() } catch ($1) {}\n",
				"  try { [1].forEach(function cb() { new Array(-1) }) } catch ($1) {} try { eval('(') } catch ($2) {}\n",
				"  var $s = []; for (var $i = 0; $i < 3; $i++) { try { $s.x.y } catch ($1) { $s.push($1.stack) } }\n",
			}[r.Intn(4)] + "  throw $e\n}"
		in.Want = shiftLines(in.Want, shown)
		in.Dev = shiftLines(in.Dev, shown)
	}
	return in
}

var frameLocRe = regexp.MustCompile(`:(\d+):(\d+)\)?$`)

// shiftLines moves every frame position of the program one line down.
func shiftLines(frames []string, shown string) []string {
	if frames == nil {
		return nil
	}
	out := make([]string, len(frames))
	for i, f := range frames {
		out[i] = f
		if !strings.Contains(f, shown+":") {
			continue
		}
		m := frameLocRe.FindStringSubmatchIndex(f)
		if m == nil {
			continue
		}
		var ln int
		fmt.Sscanf(f[m[2]:m[3]], "%d", &ln)
		out[i] = f[:m[2]] + fmt.Sprint(ln+1) + f[m[3]:]
	}
	return out
}

var frameRe = regexp.MustCompile(`(?m)^\s+(at .*)$`)

func checkTrace(c *run.Ctx, in Input) {
	vm := otto.New()
	if in.Limit >= 0 {
		vm.SetStackTraceLimit(in.Limit)
	}
	var out ox.Outcome
	if in.File != "" {
		s, err := vm.Compile(in.File, in.Src)
		if err != nil {
			c.Fail("mismatch", "trace:compile", in, "program compiles", err.Error(), "")
			return
		}
		out = ox.Run(vm, s)
	} else {
		out = ox.Run(vm, in.Src)
	}
	c.Eval(1)
	if out.Panic != nil {
		c.Fail("panic", "trace", in, "error", fmt.Sprint(out.Panic), out.Stack)
		return
	}
	oe, ok := out.Err.(*otto.Error)
	if !ok {
		c.Fail("mismatch", "trace:error-type", in, "*otto.Error", fmt.Sprintf("%T %v", out.Err, out.Err), "")
		return
	}
	if cls := ox.ErrClass(oe); cls != in.Class {
		c.Fail("mismatch", "trace:class", in, in.Class, oe.Error(), "")
	}
	var got []string
	for _, m := range frameRe.FindAllStringSubmatch(oe.String(), -1) {
		got = append(got, m[1])
	}
	want := in.Want
	lim := in.Limit
	if lim < 0 {
		lim = 10
	}
	if lim > 0 && len(want) > lim {
		want = want[:lim]
	}
	if strings.Join(got, "\n") != strings.Join(want, "\n") {
		site := "trace:frames"
		c.Fail("mismatch", site, in, strings.Join(want, " ; "), strings.Join(got, " ; "), firstFrameDiff(want, got))
	}
	c.FeatureN("frames", len(want))
	c.Feature(fmt.Sprintf("limit:%d", in.Limit))
	if len(in.Want) >= 3 {
		c.Nontrivial(in.Src + fmt.Sprint(in.Limit, in.File))
	}
	if c.Index%401 == 0 {
		c.Sample(map[string]interface{}{"kind": "trace", "src": in.Src, "frames": want})
	}
}

func firstFrameDiff(w, g []string) string {
	for i := 0; i < len(w) || i < len(g); i++ {
		a, b := "", ""
		if i < len(w) {
			a = w[i]
		}
		if i < len(g) {
			b = g[i]
		}
		if a != b {
			return fmt.Sprintf("frame %d: expected %q got %q", i, a, b)
		}
	}
	return ""
}

// ---------------------------------------------------------------- syntax cases

func syntaxCase(r *gen.Rand) Input {
	nl := r.Range(1, 8)
	bad := r.Intn(nl)
	var lines []string
	var line, col int
	offenders := []struct{ before, tok, after string }{
		{"var x = ", ";", ""}, {"var x = ", "@", ";"}, {"x = (1 + ", ")", ";"}, {"f(1, ", ",", " 2);"}, {"var ", "1", "a = 2;"}, {"if (x) ", "else", " y;"}, {"x = [1, 2", ";", ""}, {"a b", "", ""}, {"var y = 3 ", "4", ";"}, {"x = {a: 1 }", "}", ";"}, {"function ", "(", ") {}"}, {"x = 'abc", "", ""},
		// a token that cannot be a property name (the parser consumes it before judging it)
		{"x = {a: 1, ", ",", " b: 2};"}, {"x = { ", "+", ": 1 };"}, {"x = {", "(", " };"}, {"x = {a: 1, ", ",", ""}, {"x = {get ", "(", ") {}};"},
	}
	o := offenders[r.Intn(len(offenders))]
	for i := 0; i < nl; i++ {
		p := strings.Repeat(" ", r.Intn(6))
		if i == bad {
			lines = append(lines, p+o.before+o.tok+o.after)
			line = i + 1
			col = len(p) + len(o.before) + 1
			switch o.before {
			case "a b":
				col = len(p) + 3
			case "x = 'abc":
				col = len(p) + 5
			}
		} else {
			lines = append(lines, p+fmt.Sprintf("var v%d = %d;", i, i))
		}
	}
	via := []string{"parse", "run", "eval", "function"}[r.Intn(4)]
	return Input{Kind: "syntax", Src: strings.Join(lines, "\n"), Line: line, Col: col, Via: via}
}

var posRe = regexp.MustCompile(`Line (\d+):(\d+)`)

func checkSyntax(c *run.Ctx, in Input) {
	c.Eval(1)
	want := fmt.Sprintf("%d:%d", in.Line, in.Col)
	switch in.Via {
	case "parse":
		var err error
		pv, st := run.Guard(func() { _, err = parser.ParseFile(nil, "", in.Src, 0) })
		if pv != nil {
			c.Fail("panic", "syntax:parse", in, "error list", fmt.Sprint(pv), st)
			return
		}
		el, ok := err.(*parser.ErrorList)
		if !ok || el == nil || len(*el) == 0 {
			c.Fail("mismatch", "syntax:parse", in, "syntax error at "+want, fmt.Sprint(err), "")
			return
		}
		p := (*el)[0].Position
		if got := fmt.Sprintf("%d:%d", p.Line, p.Column); got != want {
			c.Fail("mismatch", "syntax:position", in, want, got+" "+(*el)[0].Message, "")
		}
	case "run":
		out := ox.Run(otto.New(), in.Src)
		if out.Panic != nil {
			c.Fail("panic", "syntax:run", in, "error", fmt.Sprint(out.Panic), out.Stack)
			return
		}
		if out.Err == nil {
			c.Fail("mismatch", "syntax:run", in, "syntax error at "+want, "accepted", "")
			return
		}
		m := posRe.FindStringSubmatch(out.Err.Error())
		if m == nil || m[1]+":"+m[2] != want {
			c.Fail("mismatch", "syntax:run-position", in, "error text carrying Line "+want, out.Err.Error(), "")
		}
	default:
		call := "eval(S)"
		if in.Via == "function" {
			call = "Function(S)"
		}
		vm := otto.New()
		vm.Set("S", in.Src)
		out := ox.Run(vm, "var R; try { "+call+"; R = 'no error' } catch (e) { R = e.name + '|' + (e instanceof SyntaxError) + '|' + (typeof e.message) } R")
		if out.Panic != nil {
			c.Fail("panic", "syntax:"+in.Via, in, "catchable SyntaxError", fmt.Sprint(out.Panic), out.Stack)
			return
		}
		if out.Err != nil || out.Val.String() != "SyntaxError|true|string" {
			c.Fail("mismatch", "syntax:"+in.Via, in, "SyntaxError|true|string", out.String()+" "+fmt.Sprint(out.Val), "")
		}
	}
	c.Feature("syntax-via:" + in.Via)
	c.Nontrivial(in.Src + in.Via)
}

// customCase: the text of the error returned by Run is 'Name: message' of the
// thrown value as it is when thrown (name/message reassigned after construction).
func customCase(r *gen.Rand) Input {
	variants := []struct{ src, want string }{
		{"var e = new Error('first'); e.message = 'second'; throw e", "Error: second"},
		{"var e = new TypeError('first'); e.name = 'Custom'; throw e", "Custom: first"},
		{"var e = new RangeError('a'); e.name = 'N'; e.message = 'm'; throw e", "N: m"},
		{"function MyError(m){ this.message = m } MyError.prototype = new Error(); MyError.prototype.name = 'MyError'; throw new MyError('mine')", "MyError: mine"},
		{"var e = new Error('kept'); throw e", "Error: kept"},
	}
	v := variants[r.Intn(len(variants))]
	w := []string{"%s", "(function(){ %s })()", "[1].forEach(function(){ %s })"}[r.Intn(3)]
	return Input{Kind: "custom", Src: fmt.Sprintf(w, v.src), Class: v.want}
}

func checkCustom(c *run.Ctx, in Input) {
	out := ox.Run(otto.New(), in.Src)
	c.Eval(1)
	if out.Panic != nil {
		c.Fail("panic", "custom", in, "error", fmt.Sprint(out.Panic), out.Stack)
		return
	}
	got := "no error"
	if out.Err != nil {
		got = out.Err.Error()
	}
	if got != in.Class {
		c.Fail("mismatch", "uncaught-text:custom", in, in.Class, got, "")
	}
	c.Nontrivial(in.Src)
}

func generate(r *gen.Rand, i int) Input {
	if i%50 == 49 {
		return customCase(r)
	}
	switch i % 10 {
	case 0, 1, 2:
		return classCase(r)
	case 3:
		return syntaxCase(r)
	}
	return traceCase(r)
}

func checkOne(c *run.Ctx, in Input) {
	c.Announce(in)
	switch in.Kind {
	case "class":
		checkClass(c, in)
	case "trace":
		checkTrace(c, in)
	case "syntax":
		checkSyntax(c, in)
	case "custom":
		checkCustom(c, in)
	}
	c.Feature("kind:" + in.Kind)
}
