// Package c01 monitors program evaluation against the ES5.1 reference model
// (internal/refjs) over generated programs and all submission routes.
package c01

import (
	"encoding/json"
	"fmt"
	"regexp"
	"sort"
	"strings"
	"time"

	"github.com/robertkrimen/otto"
	"github.com/robertkrimen/otto/parser"

	"verif/internal/gt"
	"verif/internal/ox"
	"verif/internal/pgen"
	"verif/internal/refjs"
	"verif/internal/run"
)

// Input identifies a generated program; Src is carried for the reader (the
// tree is regenerated from Seed/Index because the oracle needs the tree).
type Input struct {
	Seed  uint64 `json:"seed"`
	Index int    `json:"index"`
	Route string `json:"route,omitempty"`
	Src   string `json:"src,omitempty"`
	// Lit is a hand-written witness: literal source with the ES5 expectation
	// spelled out (used by known_findings witnesses).
	Lit *Literal `json:"lit,omitempty"`
}

// Literal is a literal program with its expected observation.
type Literal struct {
	Src        string `json:"src"`
	Trace      string `json:"trace"`
	Completion string `json:"completion"`
	ErrClass   string `json:"error"`
}

var Routes = []string{"run-string", "compile-run", "parse-run", "eval", "script-reuse", "copy"}

func init() {
	run.Register(&run.Check{
		ID:   "C01",
		Rule: "programs are generated as syntax trees (scenario templates for each interaction the property names + grammar-directed random statements/expressions over the variables in scope), rendered to text for otto and interpreted directly by the ES5.1 reference model; each program runs through 6 routes (Run of text, Compile+Run, ParseFile+Run, eval, a Script run a second time on a second runtime, Copy of a used runtime); a program is non-trivial when the model trace has >= 3 host calls and it uses >= 2 of {closure/fn-var, this/call/apply/bind, try, labelled jump, switch, eval, with, arguments, new}; distinct by source text",
		Assumptions: []string{
			"oracle: internal/refjs (ES5.1 clauses 8-13 + the built-ins generated programs use), written from the specification, no otto code",
			"number-to-string digits inside the model come from strconv shortest formatting (independent big-number oracle is used by C06)",
			"own-property enumeration order is insertion order; prototype properties after own ones (de-facto order, beyond ES5)",
			"programs are terminating by construction (bounded loops, fuel counter in every generated function); a 20 s interrupt backstop makes a case inconclusive, never a violation",
		},
		Floor: func(tier string) int {
			if tier == "thorough" {
				return 20000
			}
			return 800
		},
		Cases: func(tier string, seed uint64) int {
			if tier == "thorough" {
				return 400000
			}
			return 2400
		},
		Exec: func(c *run.Ctx, i int) { checkOne(c, Input{Seed: c.Seed, Index: i}) },
		Replay: func(c *run.Ctx, raw json.RawMessage) {
			var in Input
			if err := json.Unmarshal(raw, &in); err != nil {
				panic(err)
			}
			checkOne(c, in)
		},
	})
	registerMatchers()
}

// Generate rebuilds the program of (seed, index).
func Generate(seed uint64, index int) (*gt.Program, *pgen.G) {
	g := pgen.NewG(newRand(seed, index))
	return g.Program(), g
}

var errNameRe = regexp.MustCompile(`^([A-Za-z]*Error)(: |$)`)

// Observed is what one execution showed.
type Observed struct {
	Trace      string
	Completion string
	ErrClass   string // "" none, Error name, or "non-error"
	Panic      string
	Timeout    bool
}

func (o Observed) String() string {
	return fmt.Sprintf("trace=[%s] completion=%s error=%s panic=%s", o.Trace, o.Completion, o.ErrClass, o.Panic)
}

func classify(err error) string {
	if err == nil {
		return ""
	}
	if m := errNameRe.FindStringSubmatch(err.Error()); m != nil {
		return m[1]
	}
	return "non-error"
}

type haltT struct{}

// runOtto executes fn on vm with a wall-clock interrupt backstop.
func runOtto(vm *otto.Otto, lg *ox.Logger, fn func() (otto.Value, error)) Observed {
	var ob Observed
	vm.Interrupt = make(chan func(), 1)
	done := make(chan struct{})
	go func() {
		select {
		case <-done:
		case <-time.After(20 * time.Second):
			vm.Interrupt <- func() { panic(haltT{}) }
		}
	}()
	var v otto.Value
	var err error
	pv, st := run.Guard(func() { v, err = fn() })
	close(done)
	ob.Trace = lg.Trace()
	if pv != nil {
		if _, ok := pv.(haltT); ok {
			ob.Timeout = true
			return ob
		}
		ob.Panic = fmt.Sprintf("%v @ %s", pv, st)
		return ob
	}
	if err != nil {
		ob.ErrClass = classify(err)
		return ob
	}
	ob.Completion = ox.Enc(v)
	return ob
}

func freshVM() (*otto.Otto, *ox.Logger) {
	vm := otto.New()
	lg := &ox.Logger{}
	lg.Install(vm, "log")
	return vm, lg
}

// RunRoute executes src through one route.
func RunRoute(route, src string) Observed {
	vm, lg := freshVM()
	switch route {
	case "run-string":
		return runOtto(vm, lg, func() (otto.Value, error) { return vm.Run(src) })
	case "compile-run":
		return runOtto(vm, lg, func() (otto.Value, error) {
			s, err := vm.Compile("", src)
			if err != nil {
				return otto.Value{}, fmt.Errorf("CompileError: %v", err)
			}
			return vm.Run(s)
		})
	case "parse-run":
		return runOtto(vm, lg, func() (otto.Value, error) {
			p, err := parser.ParseFile(nil, "", src, 0)
			if err != nil {
				return otto.Value{}, fmt.Errorf("ParseError: %v", err)
			}
			return vm.Run(p)
		})
	case "eval":
		return runOtto(vm, lg, func() (otto.Value, error) { return vm.Eval(src) })
	case "script-reuse":
		s, err := vm.Compile("", src)
		if err != nil {
			return Observed{ErrClass: "CompileError"}
		}
		runOtto(vm, lg, func() (otto.Value, error) { return vm.Run(s) })
		vm2, lg2 := freshVM()
		return runOtto(vm2, lg2, func() (otto.Value, error) { return vm2.Run(s) })
	case "copy":
		cp := vm.Copy()
		return runOtto(cp, lg, func() (otto.Value, error) { return cp.Run(src) })
	}
	panic("unknown route " + route)
}

func nontrivial(g *pgen.G, hostCalls int) bool {
	if hostCalls < 3 {
		return false
	}
	groups := map[string]bool{}
	for k := range g.Feat {
		switch {
		case strings.Contains(k, "closure") || k == "fn-var" || k == "fn-expr":
			groups["closure"] = true
		case strings.Contains(k, "this") || strings.HasPrefix(k, "call.") || strings.Contains(k, "call-apply"):
			groups["this"] = true
		case strings.Contains(k, "try") || k == "finally-abrupt":
			groups["try"] = true
		case strings.Contains(k, "label"):
			groups["label"] = true
		case strings.Contains(k, "switch"):
			groups["switch"] = true
		case strings.Contains(k, "eval"):
			groups["eval"] = true
		case strings.Contains(k, "with"):
			groups["with"] = true
		case strings.Contains(k, "arguments"):
			groups["arguments"] = true
		case k == "new" || strings.Contains(k, "constructor") || strings.Contains(k, "proto"):
			groups["new"] = true
		}
	}
	return len(groups) >= 2
}

func checkLiteral(c *run.Ctx, in Input) {
	want := Observed{Trace: in.Lit.Trace, Completion: in.Lit.Completion, ErrClass: in.Lit.ErrClass}
	for _, r := range Routes {
		if r == "rerun-same-runtime" {
			continue
		}
		got := RunRoute(r, in.Lit.Src)
		c.Eval(1)
		if got != want {
			rin := in
			rin.Route = r
			c.Fail("mismatch", "route:"+r, rin, want.String(), got.String(), firstDiff(want, got))
			return
		}
	}
}

func checkOne(c *run.Ctx, in Input) {
	if in.Lit != nil {
		checkLiteral(c, in)
		return
	}
	prog, g := Generate(in.Seed, in.Index)
	src, evals := gt.RenderStyle(prog, gt.Style{})
	in.Src = src
	c.Announce(in)

	exp := model(prog, evals, refjs.Deviations{})
	if strings.HasPrefix(exp.Aborted, "implementation-defined") {
		c.Skip(exp.Aborted)
		return
	}
	if exp.Aborted != "" {
		c.Inconclusive("reference model: " + exp.Aborted)
		return
	}
	want := Observed{Trace: strings.Join(exp.Log, " | "), Completion: exp.Completion}
	if exp.Thrown {
		want.Completion = ""
		want.ErrClass = exp.ErrClass
	}
	routes := Routes
	if in.Route != "" {
		routes = []string{in.Route}
	}
	for _, r := range routes {
		var got Observed
		if r == "rerun-same-runtime" {
			continue
		}
		got = RunRoute(r, src)
		c.Eval(1)
		c.Feature("route:" + r)
		if got.Timeout {
			c.Inconclusive("otto run exceeded the 20 s backstop on route " + r)
			continue
		}
		if got != want {
			rin := in
			rin.Route = r
			kind := "mismatch"
			if got.Panic != "" {
				kind = "panic"
			}
			c.Fail(kind, "route:"+r, rin, want.String(), got.String(), firstDiff(want, got))
			if in.Route == "" {
				break // the same defect shows on every route; report once
			}
		}
	}
	keys := make([]string, 0, len(g.Feat))
	for k, n := range g.Feat {
		keys = append(keys, k)
		c.FeatureN(k, n)
	}
	sort.Strings(keys)
	if exp.Thrown {
		c.Feature("uncaught:" + exp.ErrClass)
	}
	if nontrivial(g, len(exp.Log)) {
		c.Nontrivial(src)
	}
	if in.Index%97 == 0 {
		c.Sample(map[string]interface{}{"index": in.Index, "src": src, "expected_trace": want.Trace, "completion": want.Completion, "uncaught": want.ErrClass})
	}
}

func firstDiff(w, g Observed) string {
	if w.Trace != g.Trace {
		a, b := strings.Split(w.Trace, " | "), strings.Split(g.Trace, " | ")
		for i := 0; i < len(a) || i < len(b); i++ {
			var x, y string
			if i < len(a) {
				x = a[i]
			}
			if i < len(b) {
				y = b[i]
			}
			if x != y {
				return fmt.Sprintf("first trace difference at host call #%d: expected %q, otto %q", i, x, y)
			}
		}
	}
	if w.ErrClass != g.ErrClass {
		return "uncaught-exception class differs"
	}
	if w.Completion != g.Completion {
		return "completion value differs"
	}
	return ""
}

var gClass string

// globalClass asks otto for the [[Class]] of its global object (ES5 15.1: the
// value is implementation-dependent), so the model uses the same label.
func globalClass() string {
	if gClass == "" {
		vm := otto.New()
		v, err := vm.Run("this")
		if err != nil {
			return "global"
		}
		gClass = v.Class()
	}
	return gClass
}

// model runs the reference model, optionally with known deviations enabled.
func model(prog *gt.Program, evals map[string]*gt.Program, dev refjs.Deviations) refjs.Result {
	ref := refjs.New()
	ref.Dev = dev
	ref.Global.Class = globalClass()
	return ref.Run(prog, evals)
}

// expectedUnder renders what otto would show if it had exactly the given
// known deviations from ES5 and nothing else.
func expectedUnder(in Input, dev refjs.Deviations) string {
	prog, _ := Generate(in.Seed, in.Index)
	_, evals := gt.RenderStyle(prog, gt.Style{})
	exp := model(prog, evals, dev)
	if exp.Aborted != "" {
		return "aborted"
	}
	want := Observed{Trace: strings.Join(exp.Log, " | "), Completion: exp.Completion}
	if exp.Thrown {
		want.Completion = ""
		want.ErrClass = exp.ErrClass
	}
	return want.String()
}
