package c01

import "verif/internal/gen"

func newRand(seed uint64, index int) *gen.Rand { return gen.New(seed, "C01/program", index) }
