package c01

import (
	"verif/internal/refjs"
	"verif/internal/run"
)

// Each open C01 finding is a *deviation model*: the reference interpreter can
// be switched to reproduce exactly that defect. A failing generated program is
// attributed to the finding only if otto's observation equals the prediction
// of the model with that one deviation (or with all open deviations, when
// several meet in one program) - any other wrong answer stays a VIOLATION.
var devFlags = map[string]func(*refjs.Deviations){
	"c01.dev.boundPrototype": func(d *refjs.Deviations) { d.BoundHasPrototype = true },
}

func registerMatchers() {
	for name, set := range devFlags {
		set := set
		run.RegisterMatcher(name, func(f *run.Failure) bool {
			in, ok := f.In.(Input)
			if !ok || in.Lit != nil || f.Kind != "mismatch" {
				return false
			}
			var one refjs.Deviations
			set(&one)
			if expectedUnder(in, one) == f.Actual {
				return true
			}
			var all refjs.Deviations
			for _, s := range devFlags {
				s(&all)
			}
			return expectedUnder(in, all) == f.Actual
		})
	}
}
