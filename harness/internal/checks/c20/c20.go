// Package c20 monitors that distinct runtimes share no mutable state: the
// worker is built with the Go race detector, runs scripts concurrently on
// fresh runtimes, on copies of one template (copied concurrently), on runtimes
// sharing one compiled Script or one parsed Program, and checks (1) that the
// race detector stays silent, (2) that every runtime's trace equals its
// sequential baseline, (3) that a shared Script / Program is bit-for-bit
// unchanged by execution (reflective deep hash).
package c20

import (
	"encoding/json"
	"fmt"
	"hash/fnv"
	"os"
	"path/filepath"
	"reflect"
	"regexp"
	"sort"
	"strings"
	"sync"
	"sync/atomic"

	"github.com/robertkrimen/otto"
	"github.com/robertkrimen/otto/parser"
	_ "github.com/robertkrimen/otto/underscore"

	"verif/internal/gen"
	"verif/internal/gt"
	"verif/internal/ox"
	"verif/internal/pgen"
	"verif/internal/run"
)

// Input is one self-contained case.
type Input struct {
	Mode  string   `json:"mode"` // fresh | copy | script | program | compile
	N     int      `json:"n"`
	Progs []string `json:"progs"` // one program per goroutine (script/program modes use Progs[0] for all)
	Setup string   `json:"setup,omitempty"`
	Reps  int      `json:"reps"`
}

func init() {
	run.Register(&run.Check{
		ID:   "C20",
		Rule: "each case runs N in {2, 8, 32} goroutines x modes {fresh runtimes; copies of one template taken concurrently; one compiled Script shared by all; one parsed Program shared by all; concurrent Compile} x generated programs plus a built-in-heavy program touching every package-level datum (regexps, URI tables, number formatting, Date, JSON, sort, Function/eval, error traces, locale printer, underscore registry), repeated; the worker is a -race build: every new race report after a case is a violation, every runtime's host-call trace must equal the sequential baseline, and the deep hash of a shared Script/Program must not change. Non-trivial = cases in which >= 2 runtimes were observed active at the same time; distinct by (mode, N, programs)",
		Assumptions: []string{
			"the Go race detector reports only accesses that were executed; it is happens-before based, so overlap in time is not needed for detection, but overlap is measured and required for a case to count",
			"the harness's own shared state is synchronised (per-runtime loggers in a sync.Map, atomics for the activity counter)",
			"concurrent use of ONE runtime is outside the property",
		},
		Workers:      2,
		CaseTimeoutS: 600,
		Floor: func(tier string) int {
			if tier == "thorough" {
				return 400
			}
			return 20
		},
		Cases: func(tier string, seed uint64) int {
			if tier == "thorough" {
				return 1200
			}
			return 60
		},
		Exec: func(c *run.Ctx, i int) { checkOne(c, generate(c.Rng, i)) },
		Replay: func(c *run.Ctx, raw json.RawMessage) {
			var in Input
			if err := json.Unmarshal(raw, &in); err != nil {
				panic(err)
			}
			checkOne(c, in)
		},
	})
	registerMatchers()
}

const heavy = `
var r = [];
r.push(encodeURIComponent("a b&c/é😀"), decodeURIComponent("%E2%82%AC"), encodeURI("http://x/y z?q=1#f"), decodeURI("%41%2f"), escape("a b@é"), unescape("%u0041%20"));
r.push("aXbXc".replace(/X/g, function(m, i){ return i }), "a1b22".match(/\d+/g).join(), "a,b;c".split(/[,;]/).length, /^(\w+)\s(\w+)$/.exec("hello world")[2], "  t  ".trim(), "abc".toUpperCase());
r.push((1234.5678).toFixed(2), (0.000001234).toExponential(3), (255).toString(16), (1e21).toString(), parseInt("0x1f"), parseFloat("3.14e2"), Number(" 12 "), (12345.678).toLocaleString());
r.push(JSON.stringify({a: [1, {b: 2}], c: "x\u2028"}, null, 2).length, JSON.parse('{"k":[1,2,{"z":null}]}').k.length);
r.push(new Date(86400000).toISOString(), Date.UTC(2000, 1, 29), new Date(2001, 0, 1).getFullYear(), Date.parse("2000-01-01T00:00:00.000Z"));
r.push([5, 1, 4].sort().join(), [3, 1, 2].sort(function(a, b){ return b - a }).join(), [1, 2, 3].map(function(x){ return x * x }).reduce(function(a, b){ return a + b }));
r.push(Function("a", "b", "return a * b")(6, 7), eval("(function(){ return 1 + 1 })()"), typeof eval, new Function("return this")() === this);
try { null.x } catch (e) { r.push(e.name, String(e.stack).split("\n").length > 0) }
try { undefinedFunction() } catch (e) { r.push(e instanceof ReferenceError) }
r.push(Math.max(1, 2), Math.round(2.5), Math.pow(2, 10), isNaN("x"), Object.keys({a: 1, b: 2}).join(), Object.getOwnPropertyNames(Object.prototype).length > 5);
var o = {}; Object.defineProperty(o, "x", {get: function(){ return 1 }, configurable: true}); Object.defineProperty(o, "x", {value: 2}); r.push(o.x);
r.push(typeof _ === "function" ? _.map([1, 2], function(x){ return x + 1 }).join() : "no-underscore");
log(r.join("|"));
`

// syntaxHeavy executes every syntactic form whose evaluation keeps per-call or
// per-evaluation tables (parameter maps, hoisted declaration lists, labels,
// regexp literals, switch tables, eval / Function bodies), several times, so a
// table that lives in the shared compiled tree and is written to is both
// raced on and observable through the trace or the deep hash.
const syntaxHeavy = `
function exact(first, second){ var seen = [first, second].join(); delete arguments[0]; arguments[0] = "re"; arguments[1] = "w"; return seen + "/" + first + "/" + second + "/" + arguments.length }
function fewer(a, b, c){ delete arguments[1]; arguments[1] = 5; return [a, b, c].join() }
function more(a){ arguments[1] = 7; delete arguments[0]; return a + ":" + arguments.length }
function unmapped(a, a2){ "use strict"; arguments[0] = 9; return a }
function hoist(n){ if (n > 0) { var h = n; function inner(){ return h } } return typeof inner + typeof h }
function labels(n){ var s = 0; outer: for (var i = 0; i < n; i++) { inner: for (var j = 0; j < n; j++) { if (j == 2) continue outer; if (i == 3) break outer; s += i * j } } return s }
function sw(x){ switch (x) { case 1: return "one"; case "1": return "str"; default: return "def"; case 2: return "two" } }
function rx(str){ var re = /(a+)(b)?/g, out = []; var m; while ((m = re.exec(str))) { out.push(m[1].length + ":" + re.lastIndex) } return out.join() }
function tc(f){ try { return f() } catch (e) { return e.name } finally { tc.n = (tc.n || 0) + 1 } }
function getset(){ var o = { get g(){ return this._g || 0 }, set g(v){ this._g = v * 2 } }; o.g = 4; return o.g }
function withs(o){ with (o) { var r = typeof w; w = 1 } return r + o.w }
function evals(k){ var local = k; return eval("var viaEval = local + 1; viaEval * 2") + Function("q", "return q + 1")(k) }
function forinit(o){ var seen = []; for (var k = (seen.push("init"), "none") in o) seen.push(k); return seen.join() + ":" + k }
function closures(){ var fs = []; for (var i = 0; i < 3; i++) { fs.push((function(j){ return function(){ return j++ } })(i)) } return fs.map(function(f){ f(); return f() }).join() }
var out = [];
for (var round = 0; round < 3; round++) {
  out.push(exact("p", "q"), exact(1, 2), fewer(1), more(1, 2, 3), unmapped(1, 2), hoist(round), labels(5), sw(1), sw("1"), sw(3), rx("aab a aaab"), tc(function(){ null.x }), tc(function(){ return 1 }), getset(), withs({w: 0}), evals(round), closures(), forinit({}), forinit({p: 1, q: 2}));
  out.push([3, 1, 2].sort(function(a, b){ return a - b }).join(""), typeof exact.call, new exact(3, 4) instanceof exact, exact.apply(null, ["x", "y"]), exact.bind(null, "b1")("b2"));
}
log(out.join("|"));
`

// template / touch: the state every copy inherits and the statements every
// copy runs against it; anything still shared with the template (or with a
// sibling copy) is written by several goroutines and read back into the trace.
const template = `
var counter = (function(){ var n = 0; return { inc: function(){ return ++n }, get: function(){ return n } } })();
var tally = { n: 0, list: [] };
var bump = (function(k){ this.n += k; this.list.push(this.n); return this.n }).bind(tally, 100);
var boundArgs = (function(o){ o.hits = (o.hits || 0) + 1; return o.hits }).bind(null, { hits: 0 });
var acc = { _v: 1, get x(){ return this._v }, set x(v){ this._v = v } };
var argsFn = (function(a, b){ var ar = arguments; return { set: function(v){ a = v }, get: function(){ return ar[0] }, setArg: function(v){ ar[1] = v }, getB: function(){ return b }, del: function(i){ return delete ar[i] } } })(10, 20);
var withFn; with ({ w: 5 }) { withFn = function(){ return w++ } }
var evalScope = (function(){ eval("var ex = 41"); return { bump: function(){ return ++ex } } })();
var date = new Date(86400000), re = /a(b)?/g, err = new TypeError("te"), boxed = new String("boxed");
err.extra = { deep: [1, { x: 2 }] };
var proto = { inherited: 1 }, child = Object.create(proto);
var nested = { a: { b: { c: [1, 2, { d: 3 }] } } }, arr = [1, , 3], cyc = { name: "cyc" }; cyc.self = cyc;
var nfe = function fact(n){ fact.calls = (fact.calls || 0) + 1; return n <= 1 ? 1 : n * fact(n - 1) };
Array.prototype.extra = function(){ return this.length };
Math.custom = { k: 0 };
var goList = [];
`

var touches = []string{
	"log(counter.inc(), counter.inc(), counter.get());",
	"log(bump(), bump(), tally.n, tally.list.join());",
	"log(boundArgs(), boundArgs());",
	"acc.x = acc.x + 1; log(acc.x);",
	"argsFn.set(argsFn.get() + 1); argsFn.setArg('T'); log(argsFn.get(), argsFn.getB(), argsFn.del(0), argsFn.get());",
	"log(withFn(), withFn());",
	"log(evalScope.bump(), evalScope.bump());",
	"date.setTime(date.getTime() + 1); log(date.getTime());",
	"re.exec('ab ab'); log(re.lastIndex); re.exec('ab ab'); log(re.lastIndex);",
	"err.message += '!'; err.extra.deep[1].x++; log(err.message, err.extra.deep[1].x);",
	"boxed.prop = (boxed.prop || 0) + 1; log(boxed.prop);",
	"proto.inherited++; child.own = child.inherited; log(child.own, Object.keys(child).join());",
	"nested.a.b.c[2].d++; nested.a.b.c.push(nested.a.b.c.length); log(JSON.stringify(nested));",
	"arr.push(arr.length); arr[1] = 'f'; log(arr.join(), arr.extra());",
	"cyc.self.name += '+'; log(cyc.name);",
	"log(nfe(4), nfe.calls);",
	"Array.prototype.extra.count = (Array.prototype.extra.count || 0) + 1; log(Array.prototype.extra.count);",
	"Math.custom.k++; Object.prototype.polluted = (Object.prototype.polluted || 0) + 1; log(Math.custom.k, ({}).polluted);",
	"String.prototype.trim.tag = (String.prototype.trim.tag || 0) + 1; log(String.prototype.trim.tag);",
	"var added = (typeof added == 'number' ? added : 0) + 1; G2 = (typeof G2 == 'number' ? G2 : 0) + 1; log(added, G2);",
	"goList.push(goList.length); log(goList.join());",
	"Object.defineProperty(tally, 'n', {value: tally.n + 1, writable: true}); tally.tmp = 1; log(tally.n, delete tally.tmp, typeof tally.tmp);",
	// bridged Go functions and slices of the template: results are built in the calling runtime, the slice header is per runtime
	"if (typeof goEcho === 'function') { var ge = goEcho([1, 2]); Object.getPrototypeOf(ge).viaGo = (Object.getPrototypeOf(ge).viaGo || 0) + 1; log(Object.getPrototypeOf(ge) === Array.prototype, Array.prototype.viaGo, goAdd(2, 3)); try { goAdd('x', 1) } catch (e) { log(e instanceof TypeError || e instanceof RangeError) } }",
	"if (typeof goList === 'object') { goList.push(goList.length); goList.push(7); log(goList.length, goList.join()) }",
	"if (typeof goSpare === 'object') { goSpare.push(goSpare.length * 10 + 1); goSpare.length = goSpare.length + 2; goSpare.push(5); log(goSpare.length, goSpare.join()) }",
	"if (typeof goMap === 'object') { var ks = []; for (var k in goMap) ks.push(k); log(ks.join(), Object.keys(goMap).join(), Object.getOwnPropertyNames(goMap).join()) }",
	// objects the runtime creates itself take their prototype from an internal table: write through it
	"try { decodeURIComponent('%') } catch (e) { var p = Object.getPrototypeOf(e); p.tag = (p.tag || 0) + 1; log(e instanceof URIError, p.tag, URIError.prototype.tag) }",
	"try { eval('(') } catch (e) { var p = Object.getPrototypeOf(e); p.tag = (p.tag || 0) + 1; log(e instanceof SyntaxError, p.tag, SyntaxError.prototype.tag) }",
	"try { null.x } catch (e) { var p = Object.getPrototypeOf(e); p.tag = (p.tag || 0) + 1; log(e instanceof TypeError, p.tag, TypeError.prototype.tag) }",
	"try { undeclared$v } catch (e) { var p = Object.getPrototypeOf(e); p.tag = (p.tag || 0) + 1; log(e instanceof ReferenceError, p.tag, ReferenceError.prototype.tag) }",
	"try { new Array(-1) } catch (e) { var p = Object.getPrototypeOf(e); p.tag = (p.tag || 0) + 1; log(e instanceof RangeError, p.tag, RangeError.prototype.tag) }",
	"var mk = [[], {}, function(){}, /x/, new Date(0), Object('s'), Object(1), Object(true), new Error('e'), JSON.parse('[{}]')[0], (function(){ return arguments })(), 'a,b'.split(','), /a/.exec('a')]; for (var mi = 0; mi < mk.length; mi++) { var p = Object.getPrototypeOf(mk[mi]); p.made = (p.made || 0) + 1 } log(Object.prototype.made, Array.prototype.made, Function.prototype.made, RegExp.prototype.made, Date.prototype.made, String.prototype.made, Number.prototype.made, Boolean.prototype.made, Error.prototype.made);",
}

func touchProgram(r *gen.Rand) string {
	var b strings.Builder
	for _, i := range r.Perm(len(touches)) {
		if r.Chance(4, 5) {
			b.WriteString(touches[i] + "\n")
		}
	}
	for k := 0; k < 3; k++ {
		b.WriteString(touches[r.Intn(len(touches))] + "\n")
	}
	return b.String()
}

// underscoreHeavy drives the library that the registry hands to every runtime
// (shared source text, per-runtime evaluation).
const underscoreHeavy = `
var u = [];
u.push(_.map([1, 2, 3], function(x){ return x * 2 }).join(), _.reduce([1, 2, 3], function(a, b){ return a + b }, 0), _.filter([1, 2, 3, 4], function(x){ return x % 2 }).join());
u.push(_.uniq([1, 1, 2, 3, 3]).join(), _.sortBy([3, 1, 2], function(x){ return -x }).join(), _.keys({a: 1, b: 2}).join(), _.values({a: 1, b: 2}).join());
u.push(_.template("hello <%= name %>")({name: "w"}), _.isEqual({a: [1, {b: 2}]}, {a: [1, {b: 2}]}), _.range(4).join(), _.flatten([1, [2, [3]]]).join(), _.pluck([{n: 1}, {n: 2}], "n").join());
_.mixin({twice: function(x){ return x * 2 }}); u.push(_.twice(4), _.uniqueId("p"), _.uniqueId("p"), _.escape("<a&b>"), _.chain([1, 2, 3]).map(function(x){ return x + 1 }).value().join());
_.templateSettings.tag = (_.templateSettings.tag || 0) + 1; _.own = (_.own || 0) + 1; u.push(_.templateSettings.tag, _.own);
log(u.join("|"));
`

// heavyArgs is heavy with arguments that differ from goroutine to goroutine,
// so that a process-wide cache keyed (or wrongly not keyed) by an argument —
// locale, pattern, radix, digits — is read with one value after having been
// filled with another.
func heavyArgs(r *gen.Rand) string {
	tags := []string{"'de'", "'en-US'", "'fr'", "", "'ja'", "'de-CH'", "undefined", "'es'"}
	pats := []string{"/a+/g", "/A+/gi", "/(a)|(b)/", "/\\d+/", "/^$/m", "/[a-c]+/g", "/a{1,2}/"}
	var b strings.Builder
	b.WriteString("var hv = [];\n")
	dates := []string{"2000", "2001-02", "2002-02-03", "2003-02-03T04:05", "2004-02-03T04:05:06Z", "2005-02-03T04:05:06.789Z", "2006-02-03T04:05:06.789+01:30", "Thu, 03 Feb 2000 04:05:06 GMT", "02/03/2007", "2008/02/03 04:05:06", "Feb 3 2009", "3 Feb 2010 04:05", "not a date"}
	for k := 0; k < 7; k++ {
		switch r.Intn(7) {
		case 6:
			// texts in different formats, in a different order on every goroutine: a table of layouts
			// (or anything else that learns from the last text) must not be shared
			b.WriteString("hv.push(")
			for j, i := range r.Perm(len(dates))[:5] {
				if j > 0 {
					b.WriteString(", ")
				}
				b.WriteString(fmt.Sprintf("Date.parse(%q), new Date(%q).getTime()", dates[i], dates[i]))
			}
			b.WriteString(");\n")
		case 0:
			b.WriteString(fmt.Sprintf("hv.push((1234567.891).toLocaleString(%s), [1234.5, 0.25].toLocaleString(), new Date(0).toLocaleString().length > 0);\n", tags[r.Intn(len(tags))]))
		case 1:
			p := pats[r.Intn(len(pats))]
			b.WriteString(fmt.Sprintf("hv.push('aab AAB 12'.replace(%s, '[$&]'), %s.test('aab'), 'aab ab'.split(%s).length, new RegExp(%s.source, 'g').exec('xaab') + '');\n", p, p, p, p))
		case 2:
			b.WriteString(fmt.Sprintf("hv.push((255.5).toString(%d), (1e21).toString(%d), parseInt('zz', %d), (0.1).toFixed(%d), (12345.678).toPrecision(%d), (0.00001234).toExponential(%d));\n", r.Range(2, 36), r.Range(2, 36), r.Range(2, 36), r.Intn(20), r.Range(1, 20), r.Intn(20)))
		case 3:
			b.WriteString(fmt.Sprintf("hv.push(encodeURIComponent(String.fromCharCode(%d, %d) + 'a b'), escape(String.fromCharCode(%d)), decodeURIComponent('%%%02X'));\n", r.Range(32, 0x7ff), r.Range(0x800, 0xd7ff), r.Range(32, 0xffff), r.Range(0x20, 0x7e)))
		case 4:
			b.WriteString(fmt.Sprintf("hv.push(JSON.stringify({k: [%d, 'v%d', null]}, null, %d), JSON.parse('[%d, \"s\"]')[0], new Date(%d).toISOString(), Date.UTC(%d, %d));\n", r.Intn(1000), r.Intn(10), r.Intn(5), r.Intn(1000), r.Intn(2000000000)*1000, r.Range(1970, 2100), r.Intn(12)))
		default:
			b.WriteString(fmt.Sprintf("hv.push(typeof _ === 'function' ? _.template('<%%= a %%>-%d')({a: %d}) : '', 'Abc'.toLocaleUpperCase(), 'a'.localeCompare('b'), [3, 1, 2].sort(function(a, b){ return %s }).join());\n", r.Intn(100), r.Intn(100), []string{"a - b", "b - a", "0"}[r.Intn(3)]))
		}
	}
	b.WriteString("log(hv.join('|'));\n")
	return b.String()
}

func generate(r *gen.Rand, i int) Input {
	modes := []string{"fresh", "copy", "script", "program", "compile", "underscore"}
	in := Input{Mode: modes[i%len(modes)], N: []int{2, 8, 32}[r.Intn(3)], Reps: 2}
	np := in.N
	if in.Mode == "script" || in.Mode == "program" {
		np = 1
	}
	for k := 0; k < np; k++ {
		if in.Mode == "copy" {
			in.Progs = append(in.Progs, touchProgram(r)+heavy+heavyArgs(r))
			continue
		}
		if in.Mode == "underscore" {
			in.Progs = append(in.Progs, underscoreHeavy+heavy+heavyArgs(r))
			continue
		}
		if (in.Mode == "fresh" || in.Mode == "compile") && r.Chance(1, 2) {
			in.Progs = append(in.Progs, heavyArgs(r)+heavy)
			continue
		}
		if (in.Mode == "script" || in.Mode == "program") && r.Chance(1, 2) || r.Chance(1, 4) {
			in.Progs = append(in.Progs, syntaxHeavy)
			continue
		}
		if r.Chance(1, 3) {
			in.Progs = append(in.Progs, heavy)
			continue
		}
		g := pgen.NewG(r)
		p := g.Program()
		src, _ := gt.RenderStyle(p, gt.Style{})
		if r.Bool() {
			src += heavy
		}
		in.Progs = append(in.Progs, src)
	}
	if in.Mode == "copy" {
		g := pgen.NewG(r)
		src, _ := gt.RenderStyle(g.Program(), gt.Style{})
		in.Setup = template
		if r.Bool() {
			in.Setup += src
		}
	}
	return in
}

// ---------------------------------------------------------------- per-runtime logging

var loggers sync.Map // *otto.Otto -> *[]string
var active int32
var maxActive int32

func hostLog(call otto.FunctionCall) otto.Value {
	if cur := atomic.LoadInt32(&active); cur > atomic.LoadInt32(&maxActive) {
		atomic.StoreInt32(&maxActive, cur)
	}
	if l, ok := loggers.Load(call.Otto); ok {
		parts := make([]string, len(call.ArgumentList))
		for i, a := range call.ArgumentList {
			parts[i] = ox.Enc(a)
		}
		lp := l.(*[]string)
		*lp = append(*lp, strings.Join(parts, ","))
	}
	return otto.UndefinedValue()
}

func attach(vm *otto.Otto) *[]string {
	l := &[]string{}
	loggers.Store(vm, l)
	return l
}

type result struct {
	trace string
	out   string
}

func execute(vm *otto.Otto, l *[]string, src interface{}) result {
	if cur := atomic.AddInt32(&active, 1); cur > atomic.LoadInt32(&maxActive) {
		atomic.StoreInt32(&maxActive, cur)
	}
	out := ox.Run(vm, src)
	atomic.AddInt32(&active, -1)
	loggers.Delete(vm)
	return result{trace: strings.Join(*l, " | "), out: out.String()}
}

func newLogged() (*otto.Otto, *[]string) {
	vm := otto.New()
	vm.Set("log", hostLog)
	return vm, attach(vm)
}

// ---------------------------------------------------------------- deep hash

func deepHash(v interface{}) uint64 {
	h := fnv.New64a()
	seen := map[uintptr]int{}
	var walk func(v reflect.Value, depth int)
	w := func(s string) { h.Write([]byte(s)) }
	walk = func(v reflect.Value, depth int) {
		if depth > 10000 {
			return
		}
		switch v.Kind() {
		case reflect.Ptr:
			if v.IsNil() {
				w("nil;")
				return
			}
			p := v.Pointer()
			if n, ok := seen[p]; ok {
				w(fmt.Sprintf("ref%d;", n))
				return
			}
			seen[p] = len(seen)
			t := v.Type().String()
			if strings.HasPrefix(t, "*regexp.") || strings.HasPrefix(t, "*sync.") {
				w(t + ";")
				return
			}
			walk(v.Elem(), depth+1)
		case reflect.Interface:
			if v.IsNil() {
				w("nilif;")
				return
			}
			w(v.Elem().Type().String() + ":")
			walk(v.Elem(), depth+1)
		case reflect.Struct:
			w("{")
			for i := 0; i < v.NumField(); i++ {
				walk(v.Field(i), depth+1)
			}
			w("}")
		case reflect.Slice, reflect.Array:
			w(fmt.Sprintf("[%d:", v.Len()))
			for i := 0; i < v.Len(); i++ {
				walk(v.Index(i), depth+1)
			}
			w("]")
		case reflect.Map:
			keys := v.MapKeys()
			sort.Slice(keys, func(i, j int) bool { return fmt.Sprint(keys[i]) < fmt.Sprint(keys[j]) })
			w(fmt.Sprintf("map%d{", v.Len()))
			for _, k := range keys {
				w(fmt.Sprint(k) + "=>")
				walk(v.MapIndex(k), depth+1)
			}
			w("}")
		case reflect.String:
			w(fmt.Sprintf("%q;", v.String()))
		case reflect.Bool:
			w(fmt.Sprint(v.Bool(), ";"))
		case reflect.Int, reflect.Int8, reflect.Int16, reflect.Int32, reflect.Int64:
			w(fmt.Sprint(v.Int(), ";"))
		case reflect.Uint, reflect.Uint8, reflect.Uint16, reflect.Uint32, reflect.Uint64, reflect.Uintptr:
			w(fmt.Sprint(v.Uint(), ";"))
		case reflect.Float32, reflect.Float64:
			w(fmt.Sprint(v.Float(), ";"))
		case reflect.Func:
			w("func;")
		}
	}
	walk(reflect.ValueOf(v), 0)
	return h.Sum64()
}

// ---------------------------------------------------------------- race log

var raceRe = regexp.MustCompile(`(?s)WARNING: DATA RACE.*?==================`)

func raceLogPath() string {
	for _, kv := range strings.Fields(os.Getenv("GORACE")) {
		if strings.HasPrefix(kv, "log_path=") {
			return strings.TrimPrefix(kv, "log_path=") + "." + fmt.Sprint(os.Getpid())
		}
	}
	return ""
}

func raceLogSize() int64 {
	if p := raceLogPath(); p != "" {
		if st, err := os.Stat(p); err == nil {
			return st.Size()
		}
	}
	return 0
}

// newRaceReports returns the reports written since offset, summarised by the
// otto frames of the two stacks.
func newRaceReports(offset int64) []string {
	p := raceLogPath()
	if p == "" {
		return nil
	}
	b, err := os.ReadFile(p)
	if err != nil || int64(len(b)) <= offset {
		return nil
	}
	var out []string
	seen := map[string]bool{}
	fnRe := regexp.MustCompile(`(?m)^\s+(github\.com/robertkrimen/otto[^\s(]*)\(`)
	for _, rep := range raceRe.FindAllString(string(b[offset:]), -1) {
		var fs []string
		for _, m := range fnRe.FindAllStringSubmatch(rep, -1) {
			fs = append(fs, strings.TrimPrefix(m[1], "github.com/robertkrimen/otto"))
			if len(fs) >= 6 {
				break
			}
		}
		key := strings.Join(fs, " <- ")
		if !seen[key] {
			seen[key] = true
			out = append(out, key+"\n"+clip(rep, 1500))
		}
	}
	return out
}

func clip(s string, n int) string {
	if len(s) > n {
		return s[:n] + "…"
	}
	return s
}

// ---------------------------------------------------------------- the monitor

func checkOne(c *run.Ctx, in Input) {
	c.Announce(Input{Mode: in.Mode, N: in.N, Reps: in.Reps, Progs: []string{fmt.Sprintf("%d programs", len(in.Progs))}})
	if raceLogPath() == "" {
		c.Inconclusive("GORACE log_path is not set: the race detector's reports cannot be observed")
		return
	}
	prog := func(g int) string { return in.Progs[g%len(in.Progs)] }
	// sequential baseline on fresh runtimes (copy mode: on copies of a template built the same way)
	mkTemplate := func() *otto.Otto {
		t := otto.New()
		t.Set("log", hostLog)
		// bridged Go values: the wrappers otto makes for them are copied with the runtime
		t.Set("goEcho", func(x []int) []int { return x })
		t.Set("goAdd", func(a, b int) int { return a + b })
		t.Set("goList", []int{1, 2, 3})
		t.Set("goSpare", make([]int, 1, 64)) // spare capacity: an append does not reallocate
		t.Set("goMap", map[string]int{"a": 1, "b": 2, "c": 3, "d": 4, "e": 5, "f": 6, "g": 7})
		l := attach(t)
		execute(t, l, in.Setup)
		return t
	}
	base := make([]result, in.N)
	var script *otto.Script
	var program interface{}
	var h0 uint64
	switch in.Mode {
	case "script":
		vm := otto.New()
		s, err := vm.Compile("shared.js", prog(0))
		if err != nil {
			c.Inconclusive("shared program does not compile: " + err.Error())
			return
		}
		script = s
		h0 = deepHash(script)
	case "program":
		p, err := parser.ParseFile(nil, "shared.js", prog(0), 0)
		if err != nil {
			c.Inconclusive("shared program does not parse: " + err.Error())
			return
		}
		program = p
		h0 = deepHash(p)
	}
	source := func(g int) interface{} {
		switch in.Mode {
		case "script":
			return script
		case "program":
			return program
		}
		return prog(g)
	}
	var seqTemplate *otto.Otto
	if in.Mode == "copy" {
		seqTemplate = mkTemplate()
	}
	for g := 0; g < in.N; g++ {
		var vm *otto.Otto
		var l *[]string
		if in.Mode == "copy" {
			vm = seqTemplate.Copy()
			l = attach(vm)
		} else {
			vm, l = newLogged()
		}
		base[g] = execute(vm, l, source(g))
		if strings.Contains(base[g].out, "SyntaxError") && strings.Contains(base[g].out, "Line ") && base[g].trace == "" {
			c.Inconclusive("a generated program does not parse: " + clip(base[g].out, 200))
			return
		}
	}
	before := raceLogSize()
	atomic.StoreInt32(&maxActive, 0)
	mismatches := 0
	for rep := 0; rep < in.Reps; rep++ {
		var template *otto.Otto
		if in.Mode == "copy" {
			template = mkTemplate()
		}
		got := make([]result, in.N)
		var wg sync.WaitGroup
		start := make(chan struct{})
		// even repetitions: all runtimes are created (concurrently) first and then run
		// together; odd repetitions: creation of one overlaps execution of another
		var ready sync.WaitGroup
		if rep%2 == 0 {
			ready.Add(in.N)
		}
		barrier := func() {
			if rep%2 == 0 {
				ready.Done()
				ready.Wait()
			}
		}
		for g := 0; g < in.N; g++ {
			wg.Add(1)
			go func(g int) {
				defer wg.Done()
				<-start
				var vm *otto.Otto
				var l *[]string
				switch in.Mode {
				case "copy":
					vm = template.Copy() // copies are taken concurrently from one template
					l = attach(vm)
				case "compile":
					vm, l = newLogged()
					if s, err := vm.Compile(fmt.Sprintf("g%d.js", g), prog(g)); err == nil {
						barrier()
						got[g] = execute(vm, l, s)
						return
					}
				default:
					vm, l = newLogged()
				}
				barrier()
				got[g] = execute(vm, l, source(g))
			}(g)
		}
		close(start)
		wg.Wait()
		c.Eval(in.N)
		for g := 0; g < in.N; g++ {
			if got[g] != base[g] && mismatches < 3 {
				mismatches++
				c.Fail("mismatch", "trace:"+in.Mode, in, base[g].out+" ["+clip(base[g].trace, 600)+"]", got[g].out+" ["+clip(got[g].trace, 600)+"]", fmt.Sprintf("goroutine %d of %d, repetition %d: result under concurrency differs from the sequential baseline", g, in.N, rep))
			}
		}
	}
	if script != nil {
		if h := deepHash(script); h != h0 {
			c.Fail("mismatch", "script-modified", in, fmt.Sprintf("deep hash %x", h0), fmt.Sprintf("deep hash %x", h), "a compiled Script was modified by execution")
		}
	}
	if program != nil {
		if h := deepHash(program); h != h0 {
			c.Fail("mismatch", "program-modified", in, fmt.Sprintf("deep hash %x", h0), fmt.Sprintf("deep hash %x", h), "a parsed Program was modified by execution")
		}
	}
	reports := newRaceReports(before)
	c.Feature(fmt.Sprintf("race-log-read:new-reports=%d", len(reports)))
	for _, rep := range reports {
		head, _, _ := strings.Cut(rep, "\n")
		c.Fail("race", "race:"+firstFn(head), in, "no data race between distinct runtimes", head, rep)
	}
	ma := int(atomic.LoadInt32(&maxActive))
	c.Feature(fmt.Sprintf("mode:%s", in.Mode))
	c.Feature(fmt.Sprintf("n:%d", in.N))
	c.Feature(fmt.Sprintf("max-active:%d", ma))
	if ma >= 2 {
		h := gen.HashString(strings.Join(in.Progs, "\x00"))
		c.Nontrivial(fmt.Sprintf("%s|%d|%x", in.Mode, in.N, h))
	}
	if c.Index%7 == 0 {
		c.Sample(map[string]interface{}{"mode": in.Mode, "n": in.N, "reps": in.Reps, "max_runtimes_active_at_once": ma, "race_log": filepath.Base(raceLogPath())})
	}
}

func firstFn(s string) string {
	f, _, _ := strings.Cut(s, " <- ")
	if f == "" {
		return "?"
	}
	return f
}

func registerMatchers() {}
