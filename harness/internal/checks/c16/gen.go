package c16

import (
	"math"
	"math/big"
	"strconv"
	"strings"

	"verif/internal/gen"
	rb "verif/internal/refbridge"
)

// ArgCase: a Go function with the given parameter types is registered with
// Otto.Set and called from a script with the given JavaScript arguments.
type ArgCase struct {
	Params   []string `json:"params"`             // parameter type expressions ("ottoValue" = otto.Value)
	Variadic bool     `json:"variadic,omitempty"` // the last parameter is ...T (Params holds T)
	Style    string   `json:"style,omitempty"`    // "" reflective func | "fcall" func(otto.FunctionCall) otto.Value
	Args     []rb.JV  `json:"args"`
}

// CBCase: a Go function taking a callback func(In) Out is called with a
// JavaScript function; Go calls it back with Arg.
type CBCase struct {
	In   string `json:"in"`
	Out  string `json:"out,omitempty"` // "" = no result
	Arg  rb.GV  `json:"arg"`
	Body string `json:"body"` // echo | ret | throw:TypeError | throw:RangeError | throw:Error | throw:str
	Ret  *rb.JV `json:"ret,omitempty"`
}

// RetCase: a Go function returning the given values is called from a script.
type RetCase struct {
	Outs []rb.GV `json:"outs"`
	Err  string  `json:"err,omitempty"` // "" no error result | "nil" | message of a non-nil error
}

// Op is one step of a container history.
type Op struct {
	K   string `json:"k"`             // jsget jsset jsdel jsin jskeys jslen jssetlen jspush jspop jscall goset godel goappend
	Key string `json:"key,omitempty"` // index / key / field / method name
	V   *rb.JV `json:"v,omitempty"`   // JavaScript operand
	G   *rb.GV `json:"g,omitempty"`   // Go operand
}

// HistCase: a bridged container and a short history of operations on it.
type HistCase struct {
	C    rb.GV  `json:"c"`
	Pass string `json:"pass"` // value | ptr
	Ops  []Op   `json:"ops"`
}

// Input is one self-contained case.
type Input struct {
	Op    string     `json:"op"` // arg | goarg | cb | ret | hist
	Arg   *ArgCase   `json:"arg,omitempty"`
	GoArg *GoArgCase `json:"goarg,omitempty"`
	CB    *CBCase    `json:"cb,omitempty"`
	Ret   *RetCase   `json:"ret,omitempty"`
	Hist  *HistCase  `json:"hist,omitempty"`
	Shape *ShapeCase `json:"shape,omitempty"`
}

var numericTypes = []string{"int", "int8", "int16", "int32", "int64", "uint", "uint8", "uint16", "uint32", "uint64", "float32", "float64"}
var scalarParamTypes = []string{"int", "int8", "int16", "int32", "int64", "uint", "uint8", "uint16", "uint32", "uint64", "float32", "float64", "bool", "string", "any", "MyInt", "MyStr"}
var containerParamTypes = []string{
	"[]int", "[]int8", "[]uint8", "[]uint64", "[]float32", "[]float64", "[]string", "[]bool", "[]any", "[][]int",
	"[2]int", "[3]string", "map[string]int", "map[string]uint8", "map[string]string", "map[string]float64", "map[string]any", "map[string][]int",
	"*int", "*uint8", "*string", "*float64", "*S1", "*Inner", "*[]int", "S1", "Inner", "ottoValue",
}

func pow2(n int) float64 { return math.Ldexp(1, n) }

// boundaryNumber draws a JS number directed at the limits of numeric type t.
func boundaryNumber(r *gen.Rand, t string) float64 {
	lo, hi := rb.IntRange(t)
	if lo != nil && r.Chance(1, 2) {
		fl, _ := new(big.Float).SetInt(lo).Float64()
		fh, _ := new(big.Float).SetInt(hi).Float64()
		switch r.Intn(10) {
		case 0:
			return fh
		case 1:
			return fh + 1
		case 2:
			return fl
		case 3:
			return fl - 1
		case 4:
			return math.Nextafter(fh, math.Inf(1))
		case 5:
			return math.Nextafter(fl, math.Inf(-1))
		case 6:
			return math.Nextafter(fh, 0)
		case 7:
			return fh - 1
		case 8:
			return fl + 1
		}
		return fh / 2
	}
	switch r.Intn(7) {
	case 0:
		return []float64{0.5, -0.5, 1.5, -1.5, 2.5, -2.5, 0.1, -0.9, 0.9999999999999999, 1e-7, -1e-300}[r.Intn(11)]
	case 1:
		return []float64{255, 256, -129, -128, 127, 128, 65535, 65536, 32767, 32768, -32768, -32769}[r.Intn(12)]
	case 2:
		return []float64{pow2(31), pow2(31) - 1, -pow2(31), -pow2(31) - 1, pow2(32), pow2(32) - 1, pow2(53), pow2(53) + 2, -pow2(53) - 2, pow2(63), -pow2(63), pow2(63) - 1024, pow2(64), pow2(64) - 2048, -pow2(63) - 2048, pow2(63) + 2048}[r.Intn(16)]
	case 3:
		return []float64{math.NaN(), math.Inf(1), math.Inf(-1), 0, math.Copysign(0, -1), 1e300, -1e300, math.MaxFloat64, 5e-324}[r.Intn(9)]
	case 4:
		return []float64{16777216, 16777217, 3.4028234663852886e38, 3.4028235677973366e38, 1e39, -1e39, 1e-46, 1e-45, 1.401298464324817e-45, 1e-40, 0.1, 0.3, 1.1754943508222875e-38}[r.Intn(13)]
	case 5:
		return float64(r.Range(-300, 300))
	}
	return rb.GenFloat64(r)
}

func genObjArg(r *gen.Rand) rb.JV {
	switch r.Intn(12) {
	case 0:
		return rb.JObj(nil, nil)
	case 1:
		return rb.JArr()
	case 2:
		return rb.JArr(rb.JNum(5))
	case 3:
		return rb.JArr(rb.JNum(1), rb.JNum(2))
	case 4:
		return rb.JV{K: "func"}
	case 5:
		d := rb.JNum(0)
		d.K = "date"
		return d
	case 6:
		b := rb.JNum(float64(r.Range(-3, 300)))
		b.K = "boxnum"
		return b
	case 7:
		return rb.JV{K: "boxstr", S: []string{"12", "ab", ""}[r.Intn(3)]}
	case 8:
		return rb.JV{K: "boxbool", B: r.Bool()}
	case 9:
		return rb.JV{K: "regexp", S: "a"}
	case 10:
		return rb.JV{K: "error", S: "TypeError"}
	}
	return rb.JObj([]string{"a"}, []rb.JV{rb.JNum(1)})
}

// genScalarArg draws a JS value aimed at scalar Go type t.
func genScalarArg(r *gen.Rand, t string) rb.JV {
	switch r.Weighted([]int{60, 10, 6, 4, 6, 8, 6}) {
	case 0:
		switch {
		case rb.IsIntType(t) || rb.IsFloatType(t):
			return rb.JNum(boundaryNumber(r, t))
		case t == "string" || t == "MyStr":
			if r.Chance(2, 3) {
				return rb.JStr(rb.GenString(r))
			}
			return rb.JNum(boundaryNumber(r, "float64"))
		case t == "bool":
			if r.Bool() {
				return rb.JBool(r.Bool())
			}
			return rb.JNum(boundaryNumber(r, "int8"))
		}
		return genAnyArg(r, 2)
	case 1:
		return rb.JStr([]string{"12", "x", "", " 7 ", "1.5", "-3", "0x10", "1e3", "256", "-129", "Infinity", "abc", "true", "9007199254740993", "0", "-0", "1e400"}[r.Intn(17)])
	case 2:
		return rb.JNull()
	case 3:
		return rb.JUndef()
	case 4:
		return rb.JBool(r.Bool())
	case 5:
		return genObjArg(r)
	}
	return rb.JNum(boundaryNumber(r, numericTypes[r.Intn(len(numericTypes))]))
}

func genAnyArg(r *gen.Rand, depth int) rb.JV {
	if depth > 0 && r.Chance(1, 3) {
		n := r.Range(0, 3)
		e := make([]rb.JV, n)
		for i := range e {
			e[i] = genAnyArg(r, depth-1)
		}
		if r.Bool() {
			return rb.JArr(e...)
		}
		return rb.JObj(keysN(r, n), e)
	}
	switch r.Intn(8) {
	case 0:
		return rb.JNull()
	case 1:
		return rb.JUndef()
	case 2:
		return rb.JBool(r.Bool())
	case 3, 4:
		return rb.JStr(rb.GenString(r))
	case 5:
		return genObjArg(r)
	}
	return rb.JNum(boundaryNumber(r, numericTypes[r.Intn(len(numericTypes))]))
}

func keysN(r *gen.Rand, n int) []string {
	seen := map[string]bool{}
	var ks []string
	for len(ks) < n {
		k := rb.SafeKey(r)
		if seen[k] {
			k += strconv.Itoa(len(ks))
		}
		if !seen[k] {
			seen[k] = true
			ks = append(ks, k)
		}
	}
	return ks
}

var s1Keys = []string{"A", "A", "bee", "B", "Z", "w", "W", "Inner", "P", "F", "U8", "U64", "L", "M", "X", "n", "N", "H", "c", "Q"}

var s1FieldType = map[string]string{"A": "int", "bee": "string", "B": "string", "Z": "int", "w": "string", "W": "string", "Inner": "Inner", "P": "*Inner", "F": "float32", "U8": "uint8", "U64": "uint64", "L": "[]int", "M": "map[string]int", "X": "any", "n": "float64", "N": "float64", "H": "int", "c": "int", "Q": "int"}

// genArgFor draws a JS value aimed at Go type t.
func genArgFor(r *gen.Rand, t string, depth int) rb.JV {
	switch {
	case t == "ottoValue" || t == "any":
		return genAnyArg(r, 2)
	case t == "S1" || t == "Inner":
		if r.Chance(1, 6) {
			return genScalarArg(r, "int")
		}
		keys := s1Keys
		if t == "Inner" {
			keys = []string{"Z", "w", "W", "Q"}
		}
		n := r.Range(0, 4)
		seen := map[string]bool{}
		var ks []string
		var es []rb.JV
		for i := 0; i < n; i++ {
			k := keys[r.Intn(len(keys))]
			// the embedded struct as a whole and its promoted fields are not mixed in
			// one literal (their relative order would decide the result)
			promoted := k == "Z" || k == "w" || k == "W"
			if seen[k] || promoted && seen["Inner"] || k == "Inner" && (seen["Z"] || seen["w"] || seen["W"]) {
				continue
			}
			seen[k] = true
			ks = append(ks, k)
			if depth <= 0 {
				es = append(es, genScalarArg(r, "int"))
			} else {
				es = append(es, genArgFor(r, s1FieldType[k], depth-1))
			}
		}
		return rb.JObj(ks, es)
	case strings.HasPrefix(t, "*"):
		switch r.Intn(6) {
		case 0:
			return rb.JNull()
		case 1:
			return rb.JUndef()
		}
		return genArgFor(r, t[1:], depth)
	case strings.HasPrefix(t, "[]") || rb.ArrayLen(t) >= 0:
		et := rb.ElemExpr(t)
		if r.Chance(1, 7) {
			return genScalarArg(r, "int")
		}
		n := r.Range(0, 4)
		if al := rb.ArrayLen(t); al >= 0 && r.Chance(2, 3) {
			n = al
		}
		e := make([]rb.JV, n)
		for i := range e {
			if r.Chance(1, 12) {
				e[i] = rb.JV{K: "hole"}
			} else if r.Chance(3, 4) {
				e[i] = inRangeFor(r, et, depth-1)
			} else {
				e[i] = genArgFor(r, et, depth-1)
			}
		}
		j := rb.JArr(e...)
		for i := range e {
			if e[i].K == "hole" {
				return j
			}
		}
		switch r.Intn(8) {
		case 0:
			j.K = "args"
		case 1:
			j.K = "arraylike"
		case 2:
			if n > 0 {
				j.K = "getterarr"
			}
		}
		return j
	case strings.HasPrefix(t, "map[string]"):
		et := rb.ElemExpr(t)
		if r.Chance(1, 7) {
			return genScalarArg(r, "int")
		}
		if r.Chance(1, 10) {
			return rb.JArr(genArgFor(r, et, 0), genArgFor(r, et, 0))
		}
		n := r.Range(0, 3)
		e := make([]rb.JV, n)
		for i := range e {
			if r.Chance(3, 4) {
				e[i] = inRangeFor(r, et, depth-1)
			} else {
				e[i] = genArgFor(r, et, depth-1)
			}
		}
		return rb.JObj(keysN(r, n), e)
	}
	return genScalarArg(r, t)
}

// inRangeFor draws a value that type t can hold (so that containers are not
// dominated by failing elements).
func inRangeFor(r *gen.Rand, t string, depth int) rb.JV {
	switch {
	case rb.IsIntType(t):
		f, _ := new(big.Float).SetInt(rb.GenIntIn(r, t)).Float64()
		if math.Abs(f) >= pow2(53) {
			f = float64(r.Range(0, 100))
		}
		return rb.JNum(f)
	case rb.IsFloat32Type(t):
		return rb.JNum(rb.GenFloat32(r))
	case rb.IsFloatType(t):
		return rb.JNum(rb.GenFloat64(r))
	case t == "string" || t == "MyStr":
		return rb.JStr(rb.GenString(r))
	case t == "bool":
		return rb.JBool(r.Bool())
	}
	return genArgFor(r, t, depth)
}

func genArgCase(r *gen.Rand) ArgCase {
	var ac ArgCase
	pick := func() string {
		if r.Chance(3, 5) {
			return scalarParamTypes[r.Intn(len(scalarParamTypes))]
		}
		return containerParamTypes[r.Intn(len(containerParamTypes))]
	}
	switch r.Weighted([]int{60, 15, 15, 4, 6}) {
	case 0: // one parameter, one argument
		t := pick()
		ac.Params = []string{t}
		ac.Args = []rb.JV{genArgFor(r, t, 2)}
	case 1: // several parameters
		n := r.Range(2, 3)
		for i := 0; i < n; i++ {
			t := pick()
			ac.Params = append(ac.Params, t)
			if r.Chance(2, 3) {
				ac.Args = append(ac.Args, inRangeFor(r, t, 1))
			} else {
				ac.Args = append(ac.Args, genArgFor(r, t, 1))
			}
		}
	case 2: // variadic tail
		nfix := r.Range(0, 1)
		for i := 0; i < nfix; i++ {
			t := scalarParamTypes[r.Intn(len(scalarParamTypes))]
			ac.Params = append(ac.Params, t)
			ac.Args = append(ac.Args, inRangeFor(r, t, 1))
		}
		vt := []string{"int", "int8", "uint8", "float64", "string", "any", "bool", "uint64", "float32"}[r.Intn(9)]
		ac.Params = append(ac.Params, vt)
		ac.Variadic = true
		ntail := r.Range(0, 3)
		if r.Chance(1, 5) {
			// a single array in tail position
			ac.Args = append(ac.Args, genArgFor(r, "[]"+vt, 1))
		} else {
			for i := 0; i < ntail; i++ {
				if r.Chance(2, 3) {
					ac.Args = append(ac.Args, inRangeFor(r, vt, 1))
				} else {
					ac.Args = append(ac.Args, genScalarArg(r, vt))
				}
			}
		}
		if nfix > 0 && r.Chance(1, 10) {
			ac.Args = nil // too few
		}
	case 3: // arity mismatch
		n := r.Range(1, 3)
		for i := 0; i < n; i++ {
			t := scalarParamTypes[r.Intn(len(scalarParamTypes))]
			ac.Params = append(ac.Params, t)
			ac.Args = append(ac.Args, inRangeFor(r, t, 1))
		}
		if r.Bool() {
			ac.Args = ac.Args[:r.Intn(n)]
		} else {
			for k := r.Range(1, 2); k > 0; k-- {
				ac.Args = append(ac.Args, genAnyArg(r, 0))
			}
		}
	default: // FunctionCall style
		ac.Style = "fcall"
		n := r.Range(0, 3)
		for i := 0; i < n; i++ {
			ac.Args = append(ac.Args, genAnyArg(r, 1))
		}
	}
	return ac
}

func genCB(r *gen.Rand, gs func(*gen.Rand, string) rb.GV) CBCase {
	ins := []string{"int", "int8", "uint64", "float64", "float32", "string", "bool", "any", "[]int", "map[string]int", "S1"}
	outs := []string{"", "int", "int8", "uint8", "uint64", "float32", "float64", "string", "bool", "any", "[]int"}
	cb := CBCase{In: ins[r.Intn(len(ins))], Out: outs[r.Intn(len(outs))]}
	cb.Arg = gs(r, cb.In)
	switch r.Intn(8) {
	case 0:
		cb.Body = "throw:TypeError"
	case 1:
		cb.Body = "throw:RangeError"
	case 2:
		cb.Body = "throw:Error"
	case 3:
		cb.Body = "throw:str"
	case 4:
		cb.Body = "echo"
	default:
		cb.Body = "ret"
		t := cb.Out
		if t == "" {
			t = "any"
		}
		v := genArgFor(r, t, 1)
		if r.Chance(2, 3) {
			v = inRangeFor(r, t, 1)
		}
		cb.Ret = &v
	}
	return cb
}

// ---------------------------------------------------------------- histories

var histContainers = []string{
	"[]int", "[]int", "[]int8", "[]uint8", "[]uint64", "[]float64", "[]float32", "[]string", "[]bool", "[]any",
	"[]int16", "[]int32", "[]int64", "[]uint", "[]uint16", "[]uint32", "map[string]int32", "map[string]int64", "map[string]uint16", "[3]int16", "[2]uint32",
	"[3]int", "[3]int", "[2]string", "[3]uint8", "[2]float64",
	"map[string]int", "map[string]int", "map[string]uint8", "map[string]string", "map[string]float64", "map[string]any", "map[string]bool",
	"map[int]string", "map[int]int",
	"S1", "S1", "S1",
}

func genHist(r *gen.Rand, gv func(*gen.Rand, string, int) rb.GV) HistCase {
	t := histContainers[r.Intn(len(histContainers))]
	h := HistCase{Pass: "value"}
	h.C = gv(r, t, 1)
	if (h.C.Nil || len(h.C.E) == 0) && r.Chance(3, 4) && t != "S1" {
		// prefer non-empty containers
		h.C = gv(r, t, 1)
	}
	isArr := rb.ArrayLen(t) >= 0
	if (isArr || t == "S1") && r.Chance(3, 4) {
		h.Pass = "ptr"
	}
	n := r.Range(2, 10)
	ln := len(h.C.E)
	for i := 0; i < n; i++ {
		h.Ops = append(h.Ops, genOp(r, t, &ln, h.C))
	}
	return h
}

func idxKey(r *gen.Rand, ln int) string {
	switch r.Intn(8) {
	case 0:
		return strconv.Itoa(ln) // append position
	case 1:
		return strconv.Itoa(ln + r.Range(1, 3)) // beyond
	}
	if ln == 0 {
		return "0"
	}
	return strconv.Itoa(r.Intn(ln))
}

func mapKey(r *gen.Rand, t string, c rb.GV) string {
	if rb.KeyExpr(t) == "int" {
		switch r.Intn(6) {
		case 0:
			return "x"
		case 1:
			return "1.5"
		}
		if len(c.K) > 0 && r.Bool() {
			return c.K[r.Intn(len(c.K))]
		}
		return strconv.Itoa(r.Range(-3, 40))
	}
	if len(c.K) > 0 && r.Bool() {
		return c.K[r.Intn(len(c.K))]
	}
	return rb.SafeKey(r)
}

func genOp(r *gen.Rand, t string, ln *int, c rb.GV) Op {
	et := rb.ElemExpr(t)
	val := func(tt string) *rb.JV {
		var v rb.JV
		if r.Chance(3, 5) {
			v = inRangeFor(r, tt, 1)
		} else {
			v = genArgFor(r, tt, 1)
		}
		return &v
	}
	switch {
	case strings.HasPrefix(t, "[]") || rb.ArrayLen(t) >= 0:
		isSlice := strings.HasPrefix(t, "[]")
		switch r.Weighted([]int{30, 10, 6, 6, 4, 4, 6, 8, 4, 8}) {
		case 0:
			return Op{K: "jsset", Key: idxKey(r, *ln), V: val(et)}
		case 1:
			return Op{K: "jsget", Key: idxKey(r, *ln)}
		case 2:
			return Op{K: "jsdel", Key: idxKey(r, *ln)}
		case 3:
			return Op{K: "jsin", Key: idxKey(r, *ln)}
		case 4:
			return Op{K: "jskeys"}
		case 5:
			return Op{K: "jslen"}
		case 6:
			var nv rb.JV
			switch r.Intn(6) {
			case 0:
				nv = rb.JNum(-1)
			case 1:
				nv = rb.JNum(1.5)
			default:
				nv = rb.JNum(float64(r.Range(0, *ln+3)))
			}
			return Op{K: "jssetlen", V: &nv}
		case 7:
			if isSlice {
				*ln++
				return Op{K: "jspush", V: val(et)}
			}
			return Op{K: "jspush", V: val(et)}
		case 8:
			return Op{K: "jspop"}
		}
		g := genGoElem(r, et)
		return Op{K: "goset", Key: idxKey(r, *ln), G: &g}
	case strings.HasPrefix(t, "map["):
		switch r.Weighted([]int{30, 10, 10, 8, 5, 8, 5}) {
		case 0:
			return Op{K: "jsset", Key: mapKey(r, t, c), V: val(et)}
		case 1:
			return Op{K: "jsget", Key: mapKey(r, t, c)}
		case 2:
			return Op{K: "jsdel", Key: mapKey(r, t, c)}
		case 3:
			return Op{K: "jsin", Key: mapKey(r, t, c)}
		case 4:
			return Op{K: "jskeys"}
		case 5:
			g := genGoElem(r, et)
			k := mapKey(r, t, c)
			if rb.KeyExpr(t) == "int" {
				k = strconv.Itoa(r.Range(-3, 40))
			}
			return Op{K: "goset", Key: k, G: &g}
		}
		k := mapKey(r, t, c)
		if rb.KeyExpr(t) == "int" {
			k = strconv.Itoa(r.Range(-3, 40))
		}
		return Op{K: "godel", Key: k}
	}
	// struct S1
	switch r.Weighted([]int{30, 12, 4, 4, 4, 8, 6}) {
	case 0:
		k := s1Keys[r.Intn(len(s1Keys))]
		return Op{K: "jsset", Key: k, V: val(s1FieldType[k])}
	case 1:
		return Op{K: "jsget", Key: s1Keys[r.Intn(len(s1Keys))]}
	case 2:
		return Op{K: "jsdel", Key: s1Keys[r.Intn(len(s1Keys))]}
	case 3:
		return Op{K: "jsin", Key: s1Keys[r.Intn(len(s1Keys))]}
	case 4:
		return Op{K: "jskeys"}
	case 5:
		m := []string{"Get", "Inc", "Add"}[r.Intn(3)]
		op := Op{K: "jscall", Key: m}
		if m == "Add" {
			op.V = val("int8")
		}
		return op
	}
	g := rb.GInt("int", rb.GenIntIn(r, "int"))
	return Op{K: "goset", Key: "A", G: &g}
}

func genGoElem(r *gen.Rand, et string) rb.GV {
	switch {
	case rb.IsIntType(et):
		return rb.GInt(et, rb.GenIntIn(r, et))
	case rb.IsFloat32Type(et):
		return rb.GFloat(et, rb.GenFloat32(r))
	case rb.IsFloatType(et):
		return rb.GFloat(et, rb.GenFloat64(r))
	case et == "string":
		return rb.GStr(et, rb.GenString(r))
	case et == "bool":
		return rb.GBool(et, r.Bool())
	}
	// any
	switch r.Intn(5) {
	case 0:
		return rb.GNil()
	case 1:
		return rb.GStr("string", rb.GenString(r))
	case 2:
		return rb.GFloat("float64", rb.GenFloat64(r))
	case 3:
		return rb.GBool("bool", r.Bool())
	}
	return rb.GInt("int", rb.GenIntIn(r, "int"))
}
