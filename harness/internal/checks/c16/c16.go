// Package c16 monitors "exact or loud" for bridged Go functions and
// containers: a script calling a Go function gets either a TypeError /
// RangeError it can catch, or the callee receives exactly the Go value the
// argument denotes; return values come back as the Set-equivalent value;
// reads, writes and deletes on bridged slices, arrays, maps and structs act
// on the live Go object (checked against a shadow model after every step).
package c16

import (
	"encoding/json"
	"errors"
	"fmt"
	"reflect"
	"strconv"
	"strings"
	"unicode/utf16"

	"github.com/robertkrimen/otto"

	"verif/internal/gen"
	"verif/internal/ox"
	rb "verif/internal/refbridge"
	"verif/internal/run"
)

func init() {
	run.Register(&run.Check{
		ID:   "C16",
		Rule: "cases are (a) calls of Go functions built with reflect.FuncOf/MakeFunc for parameter lists drawn from {bool, string, 10 integer widths, float32/64, interface{}, named types, []T, [N]T, map[string]T, *T, struct S1/Inner, ...T, otto.Value, FunctionCall style} with JavaScript arguments directed at each width's limits (max, max+1, min-1, +-0.5, +-1.5, 2^31, 2^32, 2^53+2, 2^63, 2^64, NaN, infinities, numeric and non-numeric strings, null, undefined, booleans, arrays, array-likes, sparse arrays, objects), (a2) numbers that originate in Go (every integer kind at its width boundaries, uint/uint64 in [2^63, 2^64), floats), injected with Otto.Set or returned by a bridged function and routed unchanged by the script into a parameter of every numeric type, an element of a []T / map[string]T / *T / ...T parameter, a struct field, or a store into a bridged []T (expected value = the exact Go integer), (b) Go functions taking a func(T) U callback implemented by a JavaScript function, (c) Go functions returning one or several values (incl. (T, error)), (d) histories of <= 10 script/Go operations on bridged slices, arrays, maps and structs; a case is non-trivial when the callee was invoked or a script-visible error was observed (a, b), the results were compared (c), or at least two operations were applied and compared against the shadow (d); distinct by serialised input",
		Assumptions: []string{
			"'the Go value it denotes': for a JS Number and an integer type, the same mathematical integer if it is one and in range, else nothing (must fail); for float64 the same double; for float32 the correctly rounded float32 (Go representability rule) unless it overflows (must fail), an inexact result may also be refused; a JS string for a Go string is itself; a boolean for bool is itself; interface{} receives Export's documented normal form compared by value",
			"non-Number arguments for numeric parameters (numeric strings, null, booleans, objects): neither README nor the statement fixes whether they convert, so a loud failure is accepted, but if the call goes through the received value must equal ES5 ToNumber(v) exactly (in-language Number(v) for objects); undefined / non-numeric strings / NaN must fail for integer targets",
			"Number -> Go string: the received text must denote the same number; other kinds -> Go string are not asserted. Non-boolean -> bool: ES5 ToBoolean or loud",
			"arrays convert element-wise; array-likes (Arguments, {length:n,...}, functions, String objects) and Go array parameters may be refused, but if accepted every element must be the exact denotation of v[i] (missing elements are undefined)",
			"a failure is loud only if the script can catch it and it is an instance of TypeError or RangeError; an error that bypasses the script's try/catch, a thrown non-Error value or a Go panic is a violation",
			"containers: after every operation the Go object returned by Export, the contents seen by the script and the shadow copy must agree; element writes use the same denotation rules; out-of-range writes may be refused, ignored or grow the slice, deletes may be refused; what is required is that all three views stay equal",
		},
		Floor: func(tier string) int {
			if tier == "thorough" {
				return 400000
			}
			return 15000
		},
		Cases: func(tier string, seed uint64) int {
			if tier == "thorough" {
				return 10000000
			}
			return 60000
		},
		Exec:   func(c *run.Ctx, i int) { checkOne(c, generate(c.Rng, i)) },
		Replay: func(c *run.Ctx, raw json.RawMessage) { var in Input; mustUnmarshal(raw, &in); checkOne(c, in) },
	})
	registerMatchers()
}

func mustUnmarshal(raw json.RawMessage, v interface{}) {
	if err := json.Unmarshal(raw, v); err != nil {
		panic(err)
	}
}

// noNamedFloat32 replaces the named float32 type by float32: a value of a named
// float32 type panics on first use (finding KF-C15-named-float32-panic, owned
// by C15), which would mask everything this check wants to observe.
func noNamedFloat32(g *rb.GV) {
	if g.T == "MyF32" {
		g.T = "float32"
	}
	g.T = strings.ReplaceAll(g.T, "MyF32", "float32")
	for i := range g.E {
		noNamedFloat32(&g.E[i])
	}
}

func generate(r *gen.Rand, i int) Input {
	in := generate0(r, i)
	switch {
	case in.CB != nil:
		noNamedFloat32(&in.CB.Arg)
	case in.Ret != nil:
		for i := range in.Ret.Outs {
			noNamedFloat32(&in.Ret.Outs[i])
		}
	case in.Hist != nil:
		noNamedFloat32(&in.Hist.C)
		for i := range in.Hist.Ops {
			if in.Hist.Ops[i].G != nil {
				noNamedFloat32(in.Hist.Ops[i].G)
			}
		}
	}
	return in
}

func generate0(r *gen.Rand, i int) Input {
	if r.Chance(1, 30) {
		sh := genShape(r)
		return Input{Op: "shape", Shape: &sh}
	}
	switch r.Weighted([]int{52, 8, 8, 22, 10}) {
	case 4:
		g := genGoArg(r)
		return Input{Op: "goarg", GoArg: &g}
	case 0:
		a := genArgCase(r)
		return Input{Op: "arg", Arg: &a}
	case 1:
		cb := genCB(r, func(r *gen.Rand, t string) rb.GV { return rb.GenOfType(r, t, 1) })
		return Input{Op: "cb", CB: &cb}
	case 2:
		n := r.Weighted([]int{0, 5, 3, 1})
		rc := RetCase{}
		for k := 0; k < n; k++ {
			if r.Chance(1, 3) {
				rc.Outs = append(rc.Outs, rb.GenTyped(r, 1))
			} else if r.Chance(1, 6) {
				rc.Outs = append(rc.Outs, rb.GenOfType(r, []string{"S1", "*S1", "*int", "any"}[r.Intn(4)], 1))
			} else {
				rc.Outs = append(rc.Outs, rb.GenAnyScalar(r))
			}
		}
		switch r.Intn(4) {
		case 0:
			rc.Err = "nil"
		case 1:
			rc.Err = "boom"
		}
		return Input{Op: "ret", Ret: &rc}
	}
	h := genHist(r, rb.GenOfType)
	return Input{Op: "hist", Hist: &h}
}

// ---------------------------------------------------------------- runtime

const prologue = rb.Prologue + `
var __seen, __popped;
`

var (
	vm     *otto.Otto
	logger *ox.Logger
)

func theVM() *otto.Otto {
	if vm == nil {
		vm = otto.New()
		logger = &ox.Logger{}
		logger.Install(vm, "log")
		if _, err := vm.Run(prologue); err != nil {
			panic("c16 prologue: " + err.Error())
		}
	}
	return vm
}

func resetVM() { vm = nil }

func inputKey(in Input) string {
	b, _ := json.Marshal(in)
	return string(b)
}

func checkOne(c *run.Ctx, in Input) {
	c.Announce(in)
	k := &checker{c: c, in: in}
	var nontrivial bool
	pv, st := run.Guard(func() {
		switch in.Op {
		case "arg":
			nontrivial = k.checkArg(*in.Arg)
		case "goarg":
			nontrivial = k.checkGoArg(*in.GoArg)
		case "cb":
			nontrivial = k.checkCB(*in.CB)
		case "ret":
			nontrivial = k.checkRet(*in.Ret)
		case "hist":
			nontrivial = k.checkHist(*in.Hist)
		case "shape":
			nontrivial = k.checkShape(*in.Shape)
		}
	})
	if pv != nil {
		// a panic in harness code (otto panics are observed by ox.Run inside the checks)
		k.fails++
		c.Fail("panic", in.Op+":"+k.stage, in, "no Go panic", fmt.Sprint(pv), st)
		resetVM()
	}
	c.Feature("op:" + in.Op)
	c.Sample(in)
	if k.fails == 0 && nontrivial {
		c.Nontrivial(inputKey(in))
	}
}

type checker struct {
	c     *run.Ctx
	in    Input
	stage string
	fails int
}

func (k *checker) fail(kind, site, exp, act, detail string) {
	k.fails++
	k.c.Fail(kind, site, k.in, exp, act, detail)
}

// numberIn evaluates Number(v) on the runtime under test (used for objects only).
func (k *checker) numberIn(v rb.JV) float64 {
	out := ox.Run(theVM(), "Number("+v.Src()+")")
	if out.Panic != nil || out.Err != nil {
		return 0
	}
	f, _ := out.Val.ToFloat()
	return f
}

// attempt is the observed outcome of one script statement run under try/catch.
type attempt struct {
	thrown string // "" | TypeError | RangeError | Error:<name> | nonerror:...
	runErr error  // the error bypassed the script's try/catch
	panic  interface{}
	stack  string
	result string // ox.Enc of the completion value of the statement (when it did not throw)
}

func (a attempt) loud() bool { return a.thrown == "TypeError" || a.thrown == "RangeError" }

// bad describes an outcome that is never acceptable ("" if none).
func (a attempt) bad() (kind, what string) {
	switch {
	case a.panic != nil:
		return "panic", "Go panic escapes Run: " + fmt.Sprint(a.panic)
	case a.runErr != nil:
		return "mismatch", "uncatchable: the script's try/catch did not see it; Run returned " + a.runErr.Error()
	case a.thrown != "" && !a.loud():
		return "mismatch", "throws " + a.thrown
	}
	return "", ""
}

// try runs `expr` inside try/catch and classifies the outcome.
func (k *checker) try(expr string) attempt {
	v := theVM()
	logger.Events = nil
	out := ox.Run(v, `var __r, __t = ""; try { __r = (`+expr+`) } catch (e) { __t = __cls(e) } log(__t); log(__r)`)
	var a attempt
	if out.Panic != nil {
		a.panic, a.stack = out.Panic, out.Stack
		resetVM()
		return a
	}
	if out.Err != nil {
		a.runErr = out.Err
		// the same statement without try/catch: does the Go panic escape Run?
		if o2 := ox.Run(v, "("+expr+")"); o2.Panic != nil {
			// (otto unwound through its own defers: the runtime keeps working)
			a.runErr = fmt.Errorf("%v (without try/catch the same statement makes a Go panic escape Run: %v)", out.Err, o2.Panic)
		}
		return a
	}
	if len(logger.Events) == 2 {
		a.thrown, _ = unStr(logger.Events[0])
		a.result = logger.Events[1]
	} else {
		a.runErr = errors.New("harness: observations missing")
	}
	return a
}

// ---------------------------------------------------------------- (a) arguments

var ottoValueType = reflect.TypeOf(otto.Value{})

func paramType(t string) reflect.Type {
	if t == "ottoValue" {
		return ottoValueType
	}
	return rb.MustType(t)
}

type recorder struct {
	calls int
	got   []reflect.Value
}

func (k *checker) checkArg(ac ArgCase) bool {
	v := theVM()
	rec := &recorder{}
	if ac.Style == "fcall" {
		return k.checkFCall(ac)
	}
	in := make([]reflect.Type, len(ac.Params))
	for i, p := range ac.Params {
		in[i] = paramType(p)
	}
	if ac.Variadic {
		in[len(in)-1] = reflect.SliceOf(in[len(in)-1])
	}
	ft := reflect.FuncOf(in, nil, ac.Variadic)
	fn := reflect.MakeFunc(ft, func(args []reflect.Value) []reflect.Value {
		rec.calls++
		rec.got = append([]reflect.Value{}, args...)
		return nil
	})
	k.stage = "Set"
	if err := v.Set("__f", fn.Interface()); err != nil {
		k.fail("mismatch", "arg:Set", "function registered", err.Error(), "")
		return false
	}
	srcs := make([]string, len(ac.Args))
	for i, a := range ac.Args {
		srcs[i] = a.Src()
	}
	k.stage = "call"
	a := k.try("__f(" + strings.Join(srcs, ",") + ")")
	k.c.Eval(1)
	site := "call:multi"
	switch {
	case ac.Variadic:
		site = "call:variadic"
	case len(ac.Args) != len(ac.Params):
		site = "call:arity"
	case len(ac.Params) == 1:
		site = "call:" + ac.Params[0]
	}
	k.c.Feature("params:" + fmt.Sprint(len(ac.Params)))
	for _, p := range ac.Params {
		k.c.Feature("ptype:" + p)
	}
	if kind, what := a.bad(); kind != "" {
		k.fail(kind, site, "TypeError/RangeError visible to the script, or the exact value", what, a.stack)
		return false
	}
	// expectations
	nfix := len(ac.Params)
	if ac.Variadic {
		nfix--
	}
	arityOK := len(ac.Args) == len(ac.Params) && !ac.Variadic || ac.Variadic && len(ac.Args) >= nfix
	if !arityOK {
		k.c.Feature("arity:mismatch")
		if !a.loud() || rec.calls != 0 {
			k.fail("mismatch", site, fmt.Sprintf("arity mismatch reported (%d arguments for %d parameters)", len(ac.Args), len(ac.Params)), fmt.Sprintf("thrown=%q calls=%d", a.thrown, rec.calls), "")
		}
		return true
	}
	exps := make([]exp, len(ac.Args))
	overall := mustOK
	why := ""
	for i, arg := range ac.Args {
		t := ac.Params[len(ac.Params)-1]
		if i < nfix {
			t = ac.Params[i]
		}
		exps[i] = denote(t, arg, k.numberIn)
		overall = worst(overall, exps[i].m)
		if exps[i].m == unspecified {
			overall = worst(overall, okOrFail)
		}
		if exps[i].m == mustFail && why == "" {
			why = fmt.Sprintf("argument %d (%s): %s", i, t, exps[i].why)
		}
	}
	// a single array-like in variadic tail position may be spread
	var spread *exp
	if ac.Variadic && len(ac.Args) == len(ac.Params) {
		if _, ok := seqView(ac.Args[nfix]); ok {
			e := denote("[]"+ac.Params[nfix], ac.Args[nfix], k.numberIn)
			spread = &e
		}
	}
	k.c.Feature("expect:" + overall.String())
	if a.loud() {
		k.c.Feature("outcome:" + a.thrown)
		if rec.calls != 0 {
			k.fail("mismatch", site, "a failing call does not invoke the Go function", fmt.Sprintf("thrown=%s but the function ran %d time(s)", a.thrown, rec.calls), "")
			return true
		}
		okFail := overall != mustOK
		if spread != nil && spread.m != mustOK {
			okFail = true
		}
		if !okFail {
			k.fail("mismatch", site, "every argument denotes a value of its parameter type: the call succeeds", "spurious "+a.thrown, describeArgs(ac))
		}
		return true
	}
	k.c.Feature("outcome:accepted")
	if rec.calls != 1 {
		k.fail("mismatch", site, "the Go function runs exactly once", fmt.Sprintf("ran %d times without an error", rec.calls), "")
		return true
	}
	// accepted: every received parameter must be the exact denotation
	problems := k.judgeAccepted(ac, exps, rec.got, nfix)
	if problems != "" && spread != nil {
		// alternative reading: the single array(-like) was spread over the variadic tail
		tail := rec.got[nfix]
		alt := ""
		if spread.m == mustFail {
			alt = zfMark(*spread, tail) + "silent: spread argument " + fmt.Sprint(nfix) + " (..." + ac.Params[nfix] + ") " + spread.why + ", yet the function received " + rb.CanonValue(tail)
		} else if s := check(*spread, tail); s != "" {
			alt = zfMark(*spread, tail) + "wrong: spread argument " + fmt.Sprint(nfix) + " (..." + ac.Params[nfix] + "): " + s
		}
		for i := 0; i < nfix && alt == ""; i++ {
			if exps[i].m == mustFail || check(exps[i], rec.got[i]) != "" {
				alt = problems
			}
		}
		switch {
		case alt == "":
			problems = ""
		case tail.Len() != 1 || zeroFilled(*spread, tail):
			problems = alt
		}
	}
	if problems != "" {
		k.fail("mismatch", site, "exact or loud", problems, describeArgs(ac))
	}
	return true
}

// zfMark prefixes a failure text when the received value shows the known
// "array-like zero-filled" deviation.
func zfMark(e exp, got reflect.Value) string {
	if zeroFilled(e, got) {
		return "array-like zero-filled: "
	}
	return ""
}

func describeArgs(ac ArgCase) string {
	p := make([]string, len(ac.Args))
	for i, a := range ac.Args {
		p[i] = a.Src()
	}
	return "arguments: " + strings.Join(p, ", ")
}

func (k *checker) judgeAccepted(ac ArgCase, exps []exp, got []reflect.Value, nfix int) string {
	for i := range ac.Args {
		var g reflect.Value
		t := ac.Params[len(ac.Params)-1]
		if i < nfix {
			g = got[i]
			t = ac.Params[i]
		} else {
			tail := got[nfix]
			if i-nfix >= tail.Len() {
				return fmt.Sprintf("silent: variadic tail has %d elements for %d arguments", tail.Len(), len(ac.Args)-nfix)
			}
			g = tail.Index(i - nfix)
		}
		if exps[i].m == mustFail {
			return fmt.Sprintf("%ssilent: argument %d (%s) %s, yet the function received %s", zfMark(exps[i], g), i, t, exps[i].why, rb.CanonValue(g))
		}
		if t == "ottoValue" {
			val, _ := g.Interface().(otto.Value)
			if s := sameJSValue(val, ac.Args[i]); s != "" {
				return fmt.Sprintf("wrong: argument %d (otto.Value): %s", i, s)
			}
			continue
		}
		if s := check(exps[i], g); s != "" {
			return fmt.Sprintf("%swrong: argument %d (%s): %s", zfMark(exps[i], g), i, t, s)
		}
	}
	if ac.Variadic && got[nfix].Len() != len(ac.Args)-nfix {
		return fmt.Sprintf("wrong: variadic tail has %d elements for %d arguments", got[nfix].Len(), len(ac.Args)-nfix)
	}
	return ""
}

// sameJSValue compares a received otto.Value with the described JS value.
func sameJSValue(val otto.Value, j rb.JV) string {
	var want string
	switch j.K {
	case "undef":
		want = "undefined"
	case "null":
		want = "null"
	case "bool":
		want = "b:" + fmt.Sprint(j.B)
	case "num":
		want = "n:" + ox.Num(j.Num())
	case "str":
		want = "s:" + ox.Str(j.S)
	default:
		want = "o:" + j.Class()
	}
	if got := ox.Enc(val); got != want {
		return "want " + want + ", received " + got
	}
	return ""
}

// checkFCall: the func(otto.FunctionCall) otto.Value style receives the
// arguments as they are and returns a Value.
func (k *checker) checkFCall(ac ArgCase) bool {
	v := theVM()
	var got []otto.Value
	var extra otto.Value
	calls := 0
	v.Set("__f", func(call otto.FunctionCall) otto.Value {
		calls++
		got = append([]otto.Value{}, call.ArgumentList...)
		extra = call.Argument(len(call.ArgumentList))
		if len(call.ArgumentList) > 0 {
			return call.Argument(0)
		}
		return otto.UndefinedValue()
	})
	srcs := make([]string, len(ac.Args))
	for i, a := range ac.Args {
		srcs[i] = a.Src()
	}
	a := k.try("__desc(__f(" + strings.Join(srcs, ",") + "))")
	k.c.Eval(1)
	site := "call(FunctionCall)"
	if kind, what := a.bad(); kind != "" {
		k.fail(kind, site, "call succeeds", what, a.stack)
		return false
	}
	if a.thrown != "" || calls != 1 || len(got) != len(ac.Args) || !extra.IsUndefined() {
		k.fail("mismatch", site, fmt.Sprintf("one call with %d arguments", len(ac.Args)), fmt.Sprintf("thrown=%q calls=%d args=%d", a.thrown, calls, len(got)), "")
		return true
	}
	for i := range got {
		if s := sameJSValue(got[i], ac.Args[i]); s != "" {
			k.fail("mismatch", site, "arguments passed through unchanged", fmt.Sprintf("argument %d: %s", i, s), "")
		}
	}
	// the returned Value comes back as the same value
	first := "undefined"
	if len(ac.Args) > 0 {
		first = "__desc(" + ac.Args[0].Src() + ")"
	} else {
		first = "__desc(void 0)"
	}
	b := k.try(first)
	if b.result != a.result {
		k.fail("mismatch", site, b.result, a.result, "returned Value differs from the argument it was built from")
	}
	return true
}

// ---------------------------------------------------------------- (b) callbacks

func (k *checker) checkCB(cb CBCase) bool {
	v := theVM()
	inT := rb.MustType(cb.In)
	var outs []reflect.Type
	if cb.Out != "" {
		outs = []reflect.Type{rb.MustType(cb.Out)}
	}
	cbT := reflect.FuncOf([]reflect.Type{inT}, outs, false)
	ft := reflect.FuncOf([]reflect.Type{cbT}, nil, false)
	argv, err := rb.Build(cb.Arg)
	if err != nil {
		k.c.Inconclusive("build: " + err.Error())
		return false
	}
	if !argv.IsValid() {
		argv = reflect.Zero(inT)
	}
	var results []reflect.Value
	returned := false
	calls := 0
	fn := reflect.MakeFunc(ft, func(args []reflect.Value) []reflect.Value {
		calls++
		results = args[0].Call([]reflect.Value{argv}) // a panic propagates like in any Go callee
		returned = true
		return nil
	})
	if err := v.Set("__f", fn.Interface()); err != nil {
		k.fail("mismatch", "cb:Set", "function registered", err.Error(), "")
		return false
	}
	// what a script sees for the same Go value set directly (C15 relation)
	if err := v.Set("__s", argv.Interface()); err != nil {
		k.fail("mismatch", "cb:Set", "argument value can be set", err.Error(), "")
		return false
	}
	body := ""
	wantThrow := ""
	switch cb.Body {
	case "echo":
		body = "return a"
	case "ret":
		body = "return " + cb.Ret.Src()
	case "throw:TypeError":
		body, wantThrow = `throw new TypeError("cb")`, "TypeError"
	case "throw:RangeError":
		body, wantThrow = `throw new RangeError("cb")`, "RangeError"
	case "throw:Error":
		body, wantThrow = `throw new Error("cb")`, "Error:Error"
	case "throw:str":
		body, wantThrow = `throw "cb"`, "nonerror:string:cb"
	}
	k.stage = "call"
	site := "callback:result:" + cb.Out
	if strings.HasPrefix(cb.Body, "throw:") {
		site = "callback:throw"
	} else if cb.Out == "" {
		site = "callback:noresult"
	}
	v.Run(`__seen = "not called"`)
	a := k.try(`__f(function(a){ __seen = __desc(a) === __desc(__s) ? "same" : (__desc(a) + " vs " + __desc(__s)); ` + body + ` })`)
	k.c.Eval(1)
	k.c.Feature("cb-body:" + cb.Body)
	if a.panic != nil {
		k.fail("panic", site, "no Go panic", fmt.Sprint(a.panic), a.stack)
		return false
	}
	if a.runErr != nil {
		k.fail("mismatch", site, "exceptions raised in or around the callback are visible to the script", "uncatchable: the script's try/catch did not see it; Run returned "+a.runErr.Error(), "")
		return false
	}
	seen, _ := v.Get("__seen")
	if s := seen.String(); s != "same" && calls > 0 {
		k.fail("mismatch", site, "the callback receives the Set-equivalent of the Go argument", s, "")
	}
	if wantThrow != "" {
		if a.thrown != wantThrow {
			k.fail("mismatch", site, "the exception thrown by the callback reaches the script as "+wantThrow, "thrown="+a.thrown, "")
		}
		return true
	}
	if cb.Out == "" {
		if a.thrown != "" || !returned {
			k.fail("mismatch", site, "call completes", "thrown="+a.thrown, "")
		}
		return true
	}
	// result conversion: exact or loud
	var e exp
	if cb.Body == "echo" {
		// the echoed value is the bridged Go argument itself; only assert when types agree
		if cb.In != cb.Out {
			if kind, what := a.bad(); kind != "" {
				k.fail(kind, site, "exact or loud", what, "")
			}
			return true
		}
		e = exp{m: okOrFail, kind: "scalar", want: cb.Arg}
		if k := cb.Arg.Kind(); k == reflect.Slice || k == reflect.Map {
			// a nil container comes back empty: compare contents, not nil-ness
			e = exp{m: okOrFail, kind: "val", val: valCanonGV(cb.Arg)}
		}
		if cb.Arg.T == "nil" || cb.In == "any" {
			e = exp{m: unspecified, kind: "free"}
		}
	} else {
		e = denote(cb.Out, *cb.Ret, k.numberIn)
	}
	k.c.Feature("cb-expect:" + e.m.String())
	if kind, what := a.bad(); kind != "" {
		k.fail(kind, site, "exact or loud", what, "")
		return true
	}
	if a.loud() {
		if returned {
			k.fail("mismatch", site, "a failed result conversion does not hand a value to Go", "thrown="+a.thrown+" but Go received "+rb.CanonValue(results[0]), "")
		} else if e.m == mustOK {
			k.fail("mismatch", site, "the result denotes a "+cb.Out+": conversion succeeds", "spurious "+a.thrown, "")
		}
		return true
	}
	if !returned || len(results) != 1 {
		k.fail("mismatch", site, "callback result delivered", "no result and no error", "")
		return true
	}
	if e.m == mustFail {
		k.fail("mismatch", site, "exact or loud", zfMark(e, results[0])+"silent: result "+e.why+", yet Go received "+rb.CanonValue(results[0]), "")
	} else if s := check(e, results[0]); s != "" {
		k.fail("mismatch", site, "exact or loud", zfMark(e, results[0])+"wrong: "+s, "")
	}
	return true
}

// ---------------------------------------------------------------- (c) return values

func (k *checker) checkRet(rc RetCase) bool {
	v := theVM()
	var outs []reflect.Type
	var vals []reflect.Value
	var ifaces []interface{}
	anyT := rb.MustType("any")
	for _, g := range rc.Outs {
		bv, err := rb.Build(g)
		if err != nil {
			k.c.Inconclusive("build: " + err.Error())
			return false
		}
		if !bv.IsValid() {
			bv = reflect.Zero(anyT)
			outs = append(outs, anyT)
			ifaces = append(ifaces, nil)
		} else {
			outs = append(outs, bv.Type())
			ifaces = append(ifaces, bv.Interface())
		}
		vals = append(vals, bv)
	}
	errT := reflect.TypeOf((*error)(nil)).Elem()
	switch rc.Err {
	case "nil":
		outs = append(outs, errT)
		vals = append(vals, reflect.Zero(errT))
		ifaces = append(ifaces, nil)
	case "":
	default:
		e := errors.New(rc.Err)
		outs = append(outs, errT)
		vals = append(vals, reflect.ValueOf(&e).Elem())
		ifaces = append(ifaces, e)
	}
	ft := reflect.FuncOf(nil, outs, false)
	fn := reflect.MakeFunc(ft, func([]reflect.Value) []reflect.Value { return vals })
	if err := v.Set("__f", fn.Interface()); err != nil {
		k.fail("mismatch", "ret:Set", "function registered", err.Error(), "")
		return false
	}
	var equiv interface{}
	switch len(ifaces) {
	case 0:
		equiv = nil
	case 1:
		equiv = ifaces[0]
	default:
		equiv = ifaces
	}
	if err := v.Set("__s", equiv); err != nil {
		k.fail("mismatch", "ret:Set", "values can be set", err.Error(), "")
		return false
	}
	site := fmt.Sprintf("return(%d values)", len(outs))
	k.stage = "call"
	a := k.try("__desc(__f())")
	b := k.try("__desc(__s)")
	k.c.Eval(2)
	k.c.Feature(fmt.Sprintf("ret-values:%d", len(outs)))
	for _, x := range []attempt{a, b} {
		if kind, what := x.bad(); kind != "" {
			k.fail(kind, site, "call returns", what, x.stack)
			return false
		}
	}
	if a.thrown != "" || a.result != b.result {
		k.fail("mismatch", site, "same as Otto.Set of the returned value(s): "+b.result, "thrown="+a.thrown+" result="+a.result, "")
		return true
	}
	// independent: the result looks like the literal built from the description
	if rc.Err == "" || rc.Err == "nil" {
		lits := make([]string, 0, len(rc.Outs)+1)
		for _, g := range rc.Outs {
			lits = append(lits, rb.JSLit(g, true))
		}
		if rc.Err == "nil" {
			lits = append(lits, "null")
		}
		lit := "null"
		switch len(lits) {
		case 0:
		case 1:
			lit = lits[0]
		default:
			lit = "[" + strings.Join(lits, ",") + "]"
		}
		c := k.try("__eq(__f(), " + lit + ")")
		if c.result != "b:true" {
			k.fail("mismatch", site, "script sees "+lit, a.result, "thrown="+c.thrown)
		}
	}
	return true
}

// unStr decodes an ox.Enc string event ("s:\"...\"", UTF-16 units) back to UTF-8.
func unStr(ev string) (string, bool) {
	if !strings.HasPrefix(ev, `s:"`) || !strings.HasSuffix(ev, `"`) || len(ev) < 4 {
		return "", false
	}
	body := ev[3 : len(ev)-1]
	var units []uint16
	for i := 0; i < len(body); i++ {
		c := body[i]
		if c != '\\' {
			units = append(units, uint16(c))
			continue
		}
		if i+1 >= len(body) {
			return "", false
		}
		if body[i+1] == 'u' {
			if i+6 > len(body) {
				return "", false
			}
			v, err := strconv.ParseUint(body[i+2:i+6], 16, 16)
			if err != nil {
				return "", false
			}
			units = append(units, uint16(v))
			i += 5
			continue
		}
		units = append(units, uint16(body[i+1]))
		i++
	}
	return string(utf16.Decode(units)), true
}
