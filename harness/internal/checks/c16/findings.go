package c16

func registerMatchers() {}
