package c16

import (
	"math"
	"math/big"
	"regexp"
	"strconv"
	"strings"

	rb "verif/internal/refbridge"
	"verif/internal/run"
)

func inputOf(f *run.Failure) (Input, bool) {
	in, ok := f.In.(Input)
	return in, ok
}

var stepRe = regexp.MustCompile(`(?:after step |\[step )(\d+)`)

// failingOp returns the history step a failure text refers to.
func failingOp(f *run.Failure, in Input) (Op, bool) {
	if in.Hist == nil {
		return Op{}, false
	}
	m := stepRe.FindStringSubmatch(f.Actual)
	if m == nil {
		return Op{}, false
	}
	n, _ := strconv.Atoi(m[1])
	if n < 0 || n >= len(in.Hist.Ops) {
		return Op{}, false
	}
	return in.Hist.Ops[n], true
}

func elemType(in Input, op Op) string {
	t := in.Hist.C.T
	if t == "S1" {
		return s1FieldType[op.Key]
	}
	return rb.ElemExpr(t)
}

// numOfPrim is ToNumber for primitives; objects count as NaN-ish "unknown".
func numOfPrim(v rb.JV) (float64, bool) { return v.ToNumber() }

// anyJV reports whether pred holds for v or any nested element.
func anyJV(v rb.JV, pred func(rb.JV) bool) bool {
	if pred(v) {
		return true
	}
	for _, e := range v.E {
		if anyJV(e, pred) {
			return true
		}
	}
	return false
}

func inputJVs(in Input) []rb.JV {
	var out []rb.JV
	switch {
	case in.Arg != nil:
		out = append(out, in.Arg.Args...)
	case in.CB != nil && in.CB.Ret != nil:
		out = append(out, *in.CB.Ret)
	case in.Hist != nil:
		for _, op := range in.Hist.Ops {
			if op.V != nil {
				out = append(out, *op.V)
			}
		}
	}
	return out
}

func isStorePath(site string) bool {
	switch site {
	case "hist:slice:jsset", "hist:slice:jspush", "hist:array:jsset", "hist:map:jsset":
		return true
	}
	return false
}

func registerMatchers() {
	// toReflectValue rejects fractions with `frac > 0`: a negative fraction passes
	// and is truncated toward zero by the integer conversion that follows.
	run.RegisterMatcher("c16.storeNegativeFraction", func(f *run.Failure) bool {
		in, ok := inputOf(f)
		op, ok2 := failingOp(f, in)
		if !ok || !ok2 || !isStorePath(f.Site) || !strings.HasPrefix(f.Actual, "silent (") || op.V == nil {
			return false
		}
		n, prim := numOfPrim(*op.V)
		et := elemType(in, op)
		if !prim || !rb.IsIntType(et) || !(n < 0) || n == math.Trunc(n) || math.IsInf(n, 0) {
			return false
		}
		// what the defect stores: the truncated value (when it fits)
		return strings.Contains(f.Actual, "n:"+rb.FloatValueLabel(math.Trunc(n))) || math.Trunc(n) == 0
	})
	// the fraction test only looks at float-typed values: a numeric string with a
	// fraction ("1.5") reaches toIntegerFloat and is truncated.
	run.RegisterMatcher("c16.storeStringFraction", func(f *run.Failure) bool {
		in, ok := inputOf(f)
		op, ok2 := failingOp(f, in)
		if !ok || !ok2 || !isStorePath(f.Site) || !strings.HasPrefix(f.Actual, "silent (") || op.V == nil || op.V.K != "str" {
			return false
		}
		n := rb.StringToNumber(op.V.S)
		if !rb.IsIntType(elemType(in, op)) || n != n || math.IsInf(n, 0) || n == math.Trunc(n) {
			return false
		}
		return strings.Contains(f.Actual, "n:"+rb.FloatValueLabel(math.Trunc(n)+0))
	})
	// toIntegerFloat maps NaN to 0: undefined, non-numeric strings, objects and
	// NaN itself are stored as 0 in integer-typed elements.
	run.RegisterMatcher("c16.storeNaNAsZero", func(f *run.Failure) bool {
		in, ok := inputOf(f)
		if ok && in.GoArg != nil {
			// the same store with a NaN that originates in Go
			g := in.GoArg
			return g.Shape == "store" && rb.IsIntType(g.T) && rb.IsFloatType(g.Src.T) && g.Src.Float() != g.Src.Float() &&
				strings.HasPrefix(f.Actual, "silent: NaN denotes no ") && strings.HasSuffix(f.Actual, ":0")
		}
		op, ok2 := failingOp(f, in)
		if !ok || !ok2 || !isStorePath(f.Site) || !strings.HasPrefix(f.Actual, "silent (NaN denotes no ") || op.V == nil {
			return false
		}
		return rb.IsIntType(elemType(in, op))
	})
	// the range checks of the 64-bit cases compare with `>` against float64(MaxInt64)
	// = 2^63 (resp. 2^64): exactly 2^63 / 2^64 passes and the Go conversion wraps.
	run.RegisterMatcher("c16.storeWrapAtLimit", func(f *run.Failure) bool {
		in, ok := inputOf(f)
		op, ok2 := failingOp(f, in)
		if !ok || !ok2 || !isStorePath(f.Site) || !strings.HasPrefix(f.Actual, "silent (") || op.V == nil {
			return false
		}
		n, prim := numOfPrim(*op.V)
		if !prim {
			return false
		}
		switch elemType(in, op) {
		case "int", "int64":
			return n == 9223372036854775808.0
		case "uint", "uint64":
			return n == 18446744073709551616.0
		}
		return false
	})
	// goSliceObject.setValue / goArrayObject.setValue / goMapObject.toValue panic
	// with the plain Go error returned by toReflectValue; tryCatchEvaluate cannot
	// turn it into a JS value (its own conversion panics) and catchPanic re-panics
	// plain errors: the script cannot catch it, and without try/catch the Go
	// panic escapes Run.
	run.RegisterMatcher("c16.storePlainErrorPanic", func(f *run.Failure) bool {
		in, ok := inputOf(f)
		op, ok2 := failingOp(f, in)
		if !ok || !ok2 || !isStorePath(f.Site) || op.V == nil {
			return false
		}
		// (a refusal of a value that denotes an element is a different defect:
		// its text starts with "refused although ..." and is not matched here)
		return strings.HasPrefix(f.Actual, "uncatchable:") && strings.Contains(f.Actual, "missing runtime: {RangeError: ") && strings.Contains(f.Actual, "(errors.errorString)")
	})
	// the float32 case of toReflectValue refuses every magnitude above MaxFloat32,
	// also +-Infinity, which is a float32 (today the refusal additionally takes
	// the uncatchable plain-error path).
	run.RegisterMatcher("c16.storeFloat32InfinityRefused", func(f *run.Failure) bool {
		in, ok := inputOf(f)
		op, ok2 := failingOp(f, in)
		if !ok || !ok2 || !isStorePath(f.Site) || op.V == nil || op.V.K != "num" || !math.IsInf(op.V.Num(), 0) {
			return false
		}
		if !rb.IsFloat32Type(elemType(in, op)) {
			return false
		}
		return strings.HasPrefix(f.Actual, "refused although the value denotes a float32: uncatchable:") || strings.HasPrefix(f.Actual, "spurious RangeError")
	})
	// goMapObject.toKey panics with the strconv error for a property name that is
	// not a valid key of a non-string-keyed map (write and delete paths; the read
	// path ignores the error).
	run.RegisterMatcher("c16.mapKeyPlainErrorPanic", func(f *run.Failure) bool {
		in, ok := inputOf(f)
		op, ok2 := failingOp(f, in)
		if !ok || !ok2 || (f.Site != "hist:map:jsset" && f.Site != "hist:map:jsdel") {
			return false
		}
		if rb.KeyExpr(in.Hist.C.T) == "string" {
			return false
		}
		if _, err := strconv.ParseInt(op.Key, 0, 64); err == nil {
			return false
		}
		return strings.HasPrefix(f.Actual, "uncatchable:") && strings.Contains(f.Actual, "(strconv.NumError)")
	})
	// null / undefined stored into an interface{}-typed element: toReflectValue
	// returns reflect.ValueOf(nil) (invalid). Slices: reflect.Value.Set panics with
	// *reflect.ValueError (uncatchable / escaping panic). Maps: SetMapIndex with an
	// invalid value deletes the key instead of storing nil.
	run.RegisterMatcher("c16.storeNullIntoInterface", func(f *run.Failure) bool {
		in, ok := inputOf(f)
		op, ok2 := failingOp(f, in)
		if !ok || !ok2 || !isStorePath(f.Site) || op.V == nil || elemType(in, op) != "any" {
			return false
		}
		if op.V.K != "null" && op.V.K != "undef" {
			return false
		}
		return strings.Contains(f.Actual, "uncatchable:") && strings.Contains(f.Actual, "(reflect.ValueError)") ||
			strings.HasPrefix(f.Actual, "lost: key absent")
	})
	// a slice set by value is not addressable: every path that shrinks it
	// (length write, pop, shift, splice) calls reflect.Value.SetLen, whose panic
	// text is thrown to the script as a plain string.
	run.RegisterMatcher("c16.sliceShrinkRawPanic", func(f *run.Failure) bool {
		in, ok := inputOf(f)
		if !ok || in.Hist == nil || (f.Site != "hist:slice:jspop" && f.Site != "hist:slice:jssetlen") {
			return false
		}
		return strings.HasPrefix(f.Actual, "throws nonerror:string:reflect: reflect.Value.SetLen using unaddressable value")
	})
	// a struct set by value: goStructCanPut says yes, then reflect.Value.Set panics
	// and the panic text is thrown as a plain string.
	run.RegisterMatcher("c16.structValueWriteRawPanic", func(f *run.Failure) bool {
		in, ok := inputOf(f)
		op, ok2 := failingOp(f, in)
		if !ok || !ok2 || f.Site != "hist:struct:jsset" || in.Hist.Pass != "value" {
			return false
		}
		idx, _, _ := structField(s1Type, op.Key)
		return idx != nil && strings.HasPrefix(f.Actual, "throws nonerror:string:reflect: reflect.Value.Set using unaddressable value")
	})
	// writing to a nil Go map: reflect's "assignment to entry in nil map" panic text
	// is thrown as a plain string.
	run.RegisterMatcher("c16.nilMapWriteRawPanic", func(f *run.Failure) bool {
		in, ok := inputOf(f)
		if !ok || in.Hist == nil || f.Site != "hist:map:jsset" {
			return false
		}
		return strings.HasPrefix(f.Actual, "throws nonerror:string:assignment to entry in nil map")
	})
	// a parameter of a named string type receives a plain string reflect.Value:
	// reflect.Call panics and the text is thrown as a plain string.
	run.RegisterMatcher("c16.namedStringParamRawPanic", func(f *run.Failure) bool {
		in, ok := inputOf(f)
		if !ok || in.Arg == nil || !strings.HasPrefix(f.Site, "call:") {
			return false
		}
		has := false
		for _, p := range in.Arg.Params {
			if p == "MyStr" {
				has = true
			}
		}
		return has && (strings.HasPrefix(f.Actual, "throws nonerror:string:reflect: Call using string as type refbridge.MyStr") ||
			strings.HasPrefix(f.Actual, "throws nonerror:string:reflect: CallSlice using string as type refbridge.MyStr"))
	})
	// goSliceGetOwnProperty / goArrayGetOwnProperty return a property (value
	// undefined) for every array index, so `i in c` is true beyond the length.
	run.RegisterMatcher("c16.inBeyondLength", func(f *run.Failure) bool {
		in, ok := inputOf(f)
		if !ok || in.Hist == nil || (f.Site != "hist:slice:jsin" && f.Site != "hist:array:jsin") {
			return false
		}
		return strings.HasSuffix(f.Expected, "is false for length "+lastWord(f.Expected)) && strings.HasPrefix(f.Actual, "b:true")
	})
	// json:"-" field: fieldIndexByName skips it (so writes fall through to an
	// expando property) but getValue finds it by FieldByName (so reads show the Go
	// value and the expando is shadowed); enumeration then lists the name twice.
	run.RegisterMatcher("c16.dashFieldListedTwice", func(f *run.Failure) bool {
		in, ok := inputOf(f)
		if !ok || in.Hist == nil || f.Site != "hist:struct:jskeys" {
			return false
		}
		wrote := false
		for _, op := range in.Hist.Ops {
			if op.K == "jsset" && op.Key == "H" {
				wrote = true
			}
		}
		return wrote && strings.HasPrefix(f.Actual, `"H" listed 2 times`)
	})
	// convertCallParameter builds a slice of the right length but only copies own
	// data properties of real Arrays: array-likes, holes and accessor elements
	// arrive as zero values.
	run.RegisterMatcher("c16.arrayLikeZeroFilled", func(f *run.Failure) bool {
		in, ok := inputOf(f)
		if !ok || !strings.Contains(f.Actual, "array-like zero-filled") {
			return false
		}
		vs := inputJVs(in)
		if op, ok2 := failingOp(f, in); ok2 {
			if op.V == nil {
				return false
			}
			vs = []rb.JV{*op.V}
		}
		for _, v := range vs {
			if anyJV(v, notPlainArray) {
				return true
			}
		}
		return false
	})
	// convertNumeric converts a float64 through int64: integral values in
	// [2^63, 2^64) are refused for uint / uint64 targets ("loss of precision").
	run.RegisterMatcher("c16.uint64AboveInt64Refused", func(f *run.Failure) bool {
		in, ok := inputOf(f)
		if !ok || !strings.HasPrefix(f.Actual, "spurious RangeError") {
			return false
		}
		big := func(v rb.JV) bool {
			if v.K != "num" {
				return false
			}
			n := v.Num()
			return n >= 9223372036854775808.0 && n < 18446744073709551616.0
		}
		hasU := false
		var types []string
		switch {
		case in.Arg != nil:
			types = in.Arg.Params
		case in.CB != nil:
			types = []string{in.CB.Out}
		case in.Hist != nil:
			if op, ok2 := failingOp(f, in); ok2 {
				types = []string{elemType(in, op)}
				if op.V == nil || !anyJV(*op.V, big) {
					return false
				}
			}
		}
		for _, t := range types {
			if strings.Contains(t, "uint64") || t == "uint" || strings.HasSuffix(t, "]uint") || strings.HasSuffix(t, "S1") {
				hasU = true
			}
		}
		if !hasU {
			return false
		}
		for _, v := range inputJVs(in) {
			if anyJV(v, big) {
				return true
			}
		}
		return false
	})
	// the reflect.MakeFunc wrapper for func-typed parameters re-panics the *Error
	// returned by Value.Call; tryCatchEvaluate does not know *Error and its
	// fallback conversion panics: exceptions thrown inside a callback cannot be
	// caught by the script that called the Go function.
	run.RegisterMatcher("c16.callbackExceptionUncatchable", func(f *run.Failure) bool {
		in, ok := inputOf(f)
		if !ok || in.CB == nil || f.Site != "callback:throw" || !strings.HasPrefix(in.CB.Body, "throw:") {
			return false
		}
		return strings.HasPrefix(f.Actual, "uncatchable:") && strings.Contains(f.Actual, "invalid value (struct): missing runtime:") &&
			(strings.Contains(f.Actual, "(otto.Error)") || strings.Contains(f.Actual, "{cb} (errors.errorString)"))
	})
	// goSliceObject.setLength uses Value.ToInteger: a fractional length is
	// truncated (c.length = 1.5 sets 1) instead of being refused.
	run.RegisterMatcher("c16.lengthTruncated", func(f *run.Failure) bool {
		in, ok := inputOf(f)
		op, ok2 := failingOp(f, in)
		if !ok2 {
			// the length-write failure text carries no step; find the op by site
			if !ok || in.Hist == nil || f.Site != "hist:slice:jssetlen" {
				return false
			}
			for _, o := range in.Hist.Ops {
				if o.K == "jssetlen" && o.V != nil && o.V.Num() != math.Trunc(o.V.Num()) && strings.HasPrefix(f.Actual, strconv.Itoa(int(math.Trunc(o.V.Num())))+` thrown=""`) {
					return true
				}
			}
			return false
		}
		_ = op
		return false
	})
}

func init() {
	// toReflectValue converts for the 64-bit targets through float64
	// (toIntegerFloat): a Go-origin int64/uint64 beyond 2^53 stored into an
	// int/int64/uint/uint64 element is rounded to the nearest double, or refused
	// when that double is 2^63 (2^64) although the integer itself fits.
	run.RegisterMatcher("c16.storeGoIntegerThroughFloat", func(f *run.Failure) bool {
		in, ok := inputOf(f)
		if !ok || in.GoArg == nil || in.GoArg.Shape != "store" || !rb.IsIntType(in.GoArg.Src.T) {
			return false
		}
		g := in.GoArg
		switch g.T {
		case "int", "int64", "uint", "uint64":
		default:
			return false
		}
		i := g.Src.Int()
		if new(big.Int).Abs(i).Cmp(new(big.Int).Lsh(big.NewInt(1), 53)) <= 0 {
			return false
		}
		d := rb.NearestFloat64(new(big.Rat).SetInt(i))
		rounded := rb.RatOfFloat(d).Num()
		lo, hi := rb.IntRange(g.T)
		if rounded.Cmp(lo) < 0 || rounded.Cmp(hi) > 0 {
			return strings.HasPrefix(f.Actual, "spurious RangeError") || strings.HasPrefix(f.Actual, "refused although")
		}
		return strings.HasPrefix(f.Actual, "wrong: want "+g.T+":"+i.String()+", received "+g.T+":"+rounded.String())
	})
	// a parameter of type *interface{}: the converted value is boxed in a pointer
	// to its dynamic type (*float64, *int64 ...), reflect.Call panics and the text
	// is thrown as a plain string.
	run.RegisterMatcher("c16.ptrToInterfaceParamRawPanic", func(f *run.Failure) bool {
		in, ok := inputOf(f)
		return ok && in.GoArg != nil && in.GoArg.Shape == "ptr" && in.GoArg.T == "any" &&
			strings.HasPrefix(f.Actual, "throws nonerror:string:reflect: Call using *") && strings.HasSuffix(f.Actual, "as type *interface {}")
	})
}

func lastWord(s string) string {
	i := strings.LastIndexByte(s, ' ')
	return s[i+1:]
}
