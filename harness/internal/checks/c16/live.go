package c16

import (
	"fmt"
	"strconv"
	"strings"

	"github.com/robertkrimen/otto"

	"verif/internal/gen"
	"verif/internal/ox"
)

// live histories: a struct bridged by pointer whose members are reached through
// an embedded pointer, a pointer field, a slice, a map and a nested struct.
// Go and the script take turns: Go re-points or writes in place, the script
// reads and writes. The Go struct is the ground truth; after every step the
// script must read exactly what Go holds ("stay live"), and a script write
// either arrives in the Go struct or is refused loudly.
type shLive struct {
	*shBase
	Name  string
	P     *shP
	L     []int
	M     map[string]int
	Inner shS
}

var liveGo = []string{"B", "b", "P", "p", "L", "l", "M", "m", "I", "N"}
var liveJS = []string{"jb", "jp", "jl", "jm", "jn", "ja", "jq", "jv"}

func genLive(r *gen.Rand) string {
	var steps []string
	n := r.Range(4, 12)
	for i := 0; i < n; i++ {
		v := strconv.Itoa(r.Range(-50, 5000))
		switch r.Intn(5) {
		case 0, 1:
			steps = append(steps, liveGo[r.Intn(len(liveGo))]+v)
		case 2:
			steps = append(steps, liveJS[r.Intn(len(liveJS))]+v)
		default:
			steps = append(steps, "r")
		}
	}
	return strings.Join(append(steps, "r"), ",")
}

const liveRead = `[live.ID, live.Name, live.P.N, live.L[0], live.L.length, live.M.a, live.Inner.A, "ID" in live, typeof live.shBase].join("|")`

func (k *checker) checkLive(s ShapeCase) bool {
	vm := otto.New()
	live := &shLive{shBase: &shBase{ID: 1}, Name: "n0", P: &shP{N: 2}, L: []int{3, 4}, M: map[string]int{"a": 5}, Inner: shS{A: 6, B: "i"}}
	if err := vm.Set("live", live); err != nil {
		k.fail("mismatch", "shape:live:set", "Set succeeds", err.Error(), "")
		return false
	}
	// Go functions with pointer parameters: handed a member of the live struct, they work on that member
	vm.Set("bumpInner", func(p *shS, d int) int { p.A += d; return p.A })
	vm.Set("bumpP", func(p *shP, d int) int { p.N += d; return p.N })
	vm.Set("ls", []int{1, 2, 3})
	goView := func() string {
		// the embedded field itself is unexported (its type name is) and stays hidden; its exported members are promoted
		return fmt.Sprintf("%d|%s|%d|%d|%d|%d|%d|true|undefined", live.ID, live.Name, live.P.N, live.L[0], len(live.L), live.M["a"], live.Inner.A)
	}
	k.stage = "shape:live"
	var done []string
	for _, st := range strings.Split(s.Val, ",") {
		done = append(done, st)
		code := strings.TrimRight(st, "-0123456789")
		n, _ := strconv.Atoi(st[len(code):])
		js, want := "", ""
		wantN := 0
		switch code {
		case "r":
		case "B":
			live.shBase = &shBase{ID: n}
		case "b":
			live.shBase.ID = n
		case "P":
			live.P = &shP{N: n}
		case "p":
			live.P.N = n
		case "L":
			live.L = []int{n, n + 1, n + 2}
		case "l":
			live.L[0] = n
		case "M":
			live.M = map[string]int{"a": n, "b": 0}
		case "m":
			live.M["a"] = n
		case "I":
			live.Inner.A = n
		case "N":
			live.Name = "n" + strconv.Itoa(n)
		case "jb":
			js, want = fmt.Sprintf("live.ID = %d", n), "ID"
		case "jp":
			js, want = fmt.Sprintf("live.P.N = %d", n), "P"
		case "jl":
			js, want = fmt.Sprintf("live.L[0] = %d", n), "L"
		case "jm":
			js, want = fmt.Sprintf("live.M.a = %d", n), "M"
		case "jn":
			js, want = fmt.Sprintf("live.Name = 'j%d'", n), "N"
		case "ja":
			// a struct-valued field handed to a *T parameter denotes that field
			js, want = fmt.Sprintf("bumpInner(live.Inner, %d)", n), "A"
			wantN = live.Inner.A + n
		case "jq":
			js, want = fmt.Sprintf("bumpP(live.P, %d)", n), "P"
			wantN = live.P.N + n
		case "jv":
			// the stored value's conversion grows the same slice (len == cap: it is re-allocated): the
			// store still goes to element 0 of the slice as it is afterwards
			// (also on a slice bridged by value, where only the script can tell)
			js, want = fmt.Sprintf("live.L[0] = {valueOf: function(){ live.L.push(77); return %d }}; ls[0] = {valueOf: function(){ ls.push(77); return %d }}; if (ls[0] !== %d || ls[ls.length - 1] !== 77) throw new Error('store into the slice lost: ' + ls.join())", n, n, n), "L"
		}
		if code != "ja" && code != "jq" {
			wantN = n
		}
		hist := strings.Join(done, ",")
		if js != "" {
			out := ox.Run(vm, "try { "+js+"; 'ok' } catch (e) { (e instanceof TypeError || e instanceof RangeError) ? 'loud:' + e.name : 'other:' + (e && e.name) + ':' + e }")
			k.c.Eval(1)
			if out.Panic != nil {
				k.fail("panic", "shape:live:write", "ok or a TypeError/RangeError in the script", fmt.Sprint(out.Panic), out.Stack)
				return false
			}
			if out.Err != nil {
				k.fail("mismatch", "shape:live:write", "ok or a caught TypeError/RangeError", "Run error: "+out.Err.Error(), hist)
				return false
			}
			res, _ := out.Val.ToString()
			k.c.Feature("live-write:" + strings.SplitN(res, ":", 2)[0])
			if res == "ok" {
				var got interface{}
				var exp interface{} = wantN
				switch want {
				case "ID":
					got = live.shBase.ID
				case "P":
					got = live.P.N
				case "L":
					got = live.L[0]
				case "M":
					got = live.M["a"]
				case "N":
					got, exp = live.Name, "j"+strconv.Itoa(n)
				case "A":
					got = live.Inner.A
				}
				if got != exp {
					k.fail("mismatch", "shape:live:write", fmt.Sprintf("the write arrives in the Go struct (%v) or is refused loudly", exp), fmt.Sprintf("silent: Go holds %v after %s", got, js), hist)
					return false
				}
			} else if !strings.HasPrefix(res, "loud:") {
				k.fail("mismatch", "shape:live:write", "ok, or loud:TypeError / loud:RangeError", res, hist)
				return false
			}
		}
		out := ox.Run(vm, liveRead)
		k.c.Eval(1)
		if out.Panic != nil {
			k.fail("panic", "shape:live:read", "the members of the Go struct", fmt.Sprint(out.Panic), out.Stack)
			return false
		}
		if out.Err != nil {
			k.fail("mismatch", "shape:live:read", goView(), "Run error: "+out.Err.Error(), hist)
			return false
		}
		if got, _ := out.Val.ToString(); got != goView() {
			k.fail("mismatch", "shape:live:read", "what Go holds: "+goView(), got, hist)
			return false
		}
		k.c.Feature("live-step:" + code)
	}
	return true
}
