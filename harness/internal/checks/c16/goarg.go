package c16

import (
	"fmt"
	"math"
	"math/big"
	"reflect"

	"verif/internal/gen"
	rb "verif/internal/refbridge"
)

// GoArgCase: a number that originates in Go (so that it keeps its Go integer
// or float kind inside the runtime) is routed by a script, unchanged, into a
// bridged Go function / container: injected with Otto.Set or returned by
// another bridged function, then passed as a parameter of type T, as an
// element of a []T / map[string]T / ...T / *T parameter, as a field of a
// struct parameter, or stored into a bridged []T.
type GoArgCase struct {
	Src   rb.GV  `json:"src"`   // the Go-origin number
	Via   string `json:"via"`   // set | ret
	T     string `json:"t"`     // numeric target type (or "any")
	Shape string `json:"shape"` // param | slice | map | ptr | variadic | field | store
}

var goArgSrcTypes = []string{"int", "int8", "int16", "int32", "int64", "uint", "uint8", "uint16", "uint32", "uint64", "uint64", "uint", "int64", "float32", "float64", "MyInt", "MyU16"}

// field of S1 per target type (shape "field")
var s1FieldOfType = map[string]string{"int": "A", "uint8": "U8", "uint64": "U64", "float32": "F", "float64": "N"}

func genGoArg(r *gen.Rand) GoArgCase {
	g := GoArgCase{Via: []string{"set", "ret"}[r.Intn(2)]}
	g.Src = rb.GenScalar(r, goArgSrcTypes[r.Intn(len(goArgSrcTypes))])
	g.T = numericTypes[r.Intn(len(numericTypes))]
	if r.Chance(1, 12) {
		g.T = "any"
	}
	g.Shape = []string{"param", "param", "param", "slice", "map", "ptr", "variadic", "field", "store", "store"}[r.Intn(10)]
	if g.Shape == "field" {
		ts := []string{"int", "uint8", "uint64", "float32", "float64"}
		g.T = ts[r.Intn(len(ts))]
	}
	if g.Shape == "store" && g.T == "any" {
		g.T = "int64"
	}
	return g
}

// denoteGo is denote for a number with an exact Go-side value: integers are
// exact integers (not their double approximation).
func denoteGo(t string, src rb.GV) exp {
	if !rb.IsIntType(src.T) {
		// a Go float reaches the runtime as the same double
		return denote(t, rb.JNum(src.Float()), func(rb.JV) float64 { return math.NaN() })
	}
	i := src.Int()
	switch {
	case t == "any":
		return exp{m: mustOK, kind: "val", val: "n:" + i.String()}
	case rb.IsIntType(t):
		lo, hi := rb.IntRange(t)
		if i.Cmp(lo) < 0 || i.Cmp(hi) > 0 {
			return exp{m: mustFail, why: fmt.Sprintf("%s is outside %s", i, t)}
		}
		return exp{m: mustOK, kind: "scalar", want: rb.GInt(t, i)}
	case rb.IsFloat32Type(t):
		f := rb.NearestFloat32(new(big.Rat).SetInt(i))
		m := okOrFail
		if new(big.Rat).SetInt(i).Cmp(rb.RatOfFloat(float64(f))) == 0 {
			m = mustOK
		}
		return exp{m: m, kind: "scalar", want: rb.GFloat(t, float64(f))}
	case rb.IsFloatType(t):
		f := rb.NearestFloat64(new(big.Rat).SetInt(i))
		m := okOrFail
		if new(big.Rat).SetInt(i).Cmp(rb.RatOfFloat(f)) == 0 {
			m = mustOK
		}
		return exp{m: m, kind: "scalar", want: rb.GFloat(t, f)}
	}
	return exp{m: unspecified, kind: "free"}
}

func (k *checker) checkGoArg(g GoArgCase) bool {
	v := theVM()
	src, err := rb.Build(g.Src)
	if err != nil {
		k.c.Inconclusive("build: " + err.Error())
		return false
	}
	// the expression that yields the Go-origin number in the script
	xexpr := "__x"
	if g.Via == "ret" {
		ft := reflect.FuncOf(nil, []reflect.Type{src.Type()}, false)
		fn := reflect.MakeFunc(ft, func([]reflect.Value) []reflect.Value { return []reflect.Value{src} })
		if err := v.Set("__g", fn.Interface()); err != nil {
			k.fail("mismatch", "goarg:Set", "function registered", err.Error(), "")
			return false
		}
		xexpr = "__g()"
	} else if err := v.Set("__x", src.Interface()); err != nil {
		k.fail("mismatch", "goarg:Set", "value set", err.Error(), "")
		return false
	}
	e := denoteGo(g.T, g.Src)
	site := "goarg:" + g.Shape + ":" + g.T
	k.c.Feature("goarg-shape:" + g.Shape)
	k.c.Feature("goarg-src:" + g.Src.T + "->" + g.T)
	k.c.Feature("goarg-expect:" + e.m.String())
	desc := fmt.Sprintf("%s (via %s) -> %s as %s", rb.CanonGV(g.Src), g.Via, g.T, g.Shape)

	if g.Shape == "store" {
		st := rb.MustType("[]" + g.T)
		sl := reflect.MakeSlice(st, 1, 1)
		if err := v.Set("c", sl.Interface()); err != nil {
			k.fail("mismatch", "goarg:Set", "slice bridged", err.Error(), "")
			return false
		}
		a := k.try("c[0] = " + xexpr)
		k.c.Eval(1)
		if kind, what := a.bad(); kind != "" {
			pre := ""
			if e.m == mustOK {
				pre = "refused although the value denotes a " + g.T + ": "
			}
			k.fail(kind, site, "a TypeError/RangeError the script can catch, or the exact value is stored", pre+what, desc)
			return false
		}
		elem := sl.Index(0)
		switch {
		case a.loud():
			if e.m == mustOK {
				k.fail("mismatch", site, "the value denotes a "+g.T+": the store succeeds", "spurious "+a.thrown, desc)
			} else if !elem.IsZero() {
				k.fail("mismatch", site, "a failed store leaves the element unchanged", "stored "+rb.CanonValue(elem)+" and threw "+a.thrown, desc)
			}
		case e.m == mustFail:
			k.fail("mismatch", site, "exact or loud", "silent: "+e.why+", yet the element holds "+rb.CanonValue(elem), desc)
		default:
			if s := check(e, elem); s != "" {
				k.fail("mismatch", site, "exact or loud", "wrong: "+s, desc)
			}
		}
		return true
	}

	var pt reflect.Type
	variadic := false
	call := "__f(" + xexpr + ")"
	switch g.Shape {
	case "param":
		pt = rb.MustType(g.T)
	case "slice":
		pt = rb.MustType("[]" + g.T)
		call = "__f([" + xexpr + "])"
	case "map":
		pt = rb.MustType("map[string]" + g.T)
		call = "__f({a:" + xexpr + "})"
	case "ptr":
		pt = rb.MustType("*" + g.T)
	case "variadic":
		pt = rb.MustType("[]" + g.T)
		variadic = true
	case "field":
		pt = rb.MustType("S1")
		call = "__f({" + s1FieldOfType[g.T] + ":" + xexpr + "})"
	}
	rec := &recorder{}
	fn := reflect.MakeFunc(reflect.FuncOf([]reflect.Type{pt}, nil, variadic), func(args []reflect.Value) []reflect.Value {
		rec.calls++
		rec.got = append([]reflect.Value{}, args...)
		return nil
	})
	if err := v.Set("__f", fn.Interface()); err != nil {
		k.fail("mismatch", "goarg:Set", "function registered", err.Error(), "")
		return false
	}
	a := k.try(call)
	k.c.Eval(1)
	if kind, what := a.bad(); kind != "" {
		k.fail(kind, site, "TypeError/RangeError visible to the script, or the exact value", what, desc)
		return false
	}
	if a.loud() {
		if rec.calls != 0 {
			k.fail("mismatch", site, "a failing call does not invoke the Go function", fmt.Sprintf("thrown=%s but the function ran", a.thrown), desc)
		} else if e.m == mustOK {
			k.fail("mismatch", site, "the value denotes a "+g.T+": the call succeeds", "spurious "+a.thrown, desc)
		}
		return true
	}
	if rec.calls != 1 {
		k.fail("mismatch", site, "the Go function runs exactly once", fmt.Sprintf("ran %d times without an error", rec.calls), desc)
		return true
	}
	got := rec.got[0]
	ok := true
	switch g.Shape {
	case "slice", "variadic":
		if ok = got.Len() == 1; ok {
			got = got.Index(0)
		}
	case "map":
		got = got.MapIndex(reflect.ValueOf("a"))
		ok = got.IsValid()
	case "ptr":
		if ok = !got.IsNil(); ok {
			got = got.Elem()
		}
	case "field":
		got = got.FieldByName(s1FieldOfType[g.T])
	}
	switch {
	case !ok:
		k.fail("mismatch", site, "one element", "wrong: container shape "+rb.CanonValue(rec.got[0]), desc)
	case e.m == mustFail:
		k.fail("mismatch", site, "exact or loud", "silent: "+e.why+", yet the function received "+rb.CanonValue(got), desc)
	default:
		if s := check(e, got); s != "" {
			k.fail("mismatch", site, "exact or loud", "wrong: "+s, desc)
		}
	}
	return true
}
