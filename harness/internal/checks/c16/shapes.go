package c16

import (
	"fmt"
	"strings"
	"time"

	"github.com/robertkrimen/otto"

	"verif/internal/gen"
	"verif/internal/ox"
)

// ShapeCase: element and property traffic on bridged containers whose element
// or key type is not a plain scalar (pointers, structs, nested slices, named
// key types, interfaces, functions), and parameters of named scalar types.
// The oracle is the exact-or-loud relation only: no Go panic leaves Run, and
// every operation either takes effect as written (checked by reading back
// through the other side) or the script sees a TypeError / RangeError.
type ShapeCase struct {
	Container string `json:"container"` // which fixture
	Op        string `json:"op"`        // index | prop | push | delete | in | read | length | call | name
	Key       string `json:"key,omitempty"`
	Val       string `json:"val,omitempty"` // JS expression
}

type shP struct{ N int }
type shS struct {
	A int
	B string
}
type shKey string
type shID int
type shCelsius float64
type shFlag bool
type shBase struct{ ID int }

// shUni has exported members whose names begin with upper case letters outside ASCII.
type shUni struct {
	Ärmel int
	Ωmega int `json:"omega"`
}
type shRec struct {
	*shBase
	Name string
}

var shapeContainers = []string{"ptrs", "ptrmap", "structs", "nested", "namedkeys", "intkeys", "boolkeys", "ifaces", "funcs", "ifacekeys", "rec", "arrs", "arrmap", "parrs", "uni"}
var shapeVals = []string{"null", "undefined", "1", "1.5", "-1", "'s'", "true", "({})", "[]", "[1]", "ptrs[1]", "ptrs[0]", "structs[0]", "nested[0]", "function(){}", "funcs[0]", "new Number(3)", "ptrmap.a", "namedkeys", "1e21", "NaN", "[1.5]", "[1, 2]", "[1, 2, 3]", "arrs[0]", "String.fromCharCode(97, 98)", "({n: 0, valueOf: function(){ return ++this.n }})"}
var shapeKeys = []string{"0", "1", "2", "5", "a", "b", "zz", "010", "0x10", "+8", "8", "16", "-1", "1_0", "true", "t", "length", "ID", "Name", "N", "A"}

func genShape(r *gen.Rand) ShapeCase {
	s := ShapeCase{Container: shapeContainers[r.Intn(len(shapeContainers))]}
	s.Op = []string{"index", "index", "prop", "push", "delete", "in", "read", "length", "call", "name"}[r.Intn(10)]
	s.Key = shapeKeys[r.Intn(len(shapeKeys))]
	s.Val = shapeVals[r.Intn(len(shapeVals))]
	if (s.Op == "name" || s.Op == "in") && s.Key == "length" {
		s.Key = "8" // length of a bridged slice is a property of its own kind, not a key
	}
	if s.Container == "rec" && r.Chance(3, 4) {
		// a bridged struct: aim at its members
		s.Key = []string{"Name", "Name", "ID", "shBase"}[r.Intn(4)]
		if r.Chance(1, 2) {
			s.Op = []string{"prop", "index", "delete", "name"}[r.Intn(4)]
		}
	}
	switch r.Intn(40) {
	case 0:
		s.Container, s.Op = "fv", "variadic"
		s.Val = []string{"function(a, b){}", "({length: 3})", "new String('ab')", "[1, 2, 3]", "'x', function(ev, t, x){}", "1, 2", "", "[[1, 2]]", "goSliceLike"}[r.Intn(8)]
	case 1:
		s.Container, s.Op = []string{"nested", "intkeys", "namedkeys"}[r.Intn(3)], "once"
	case 2:
		s.Container, s.Op = "uni", "uni"
	case 3, 4, 5, 6, 7, 8:
		s.Container, s.Op, s.Key = "live", "live", ""
		s.Val = genLive(r)
		return s
	}
	if s.Op == "call" {
		s.Container = []string{"fd", "fc", "fb", "fs", "flen", "fkey", "frec"}[r.Intn(7)]
		nums := []string{"5", "1.5", "1e9", "-0", "0.000001", "1e-7", "1e21", "Infinity", "-Infinity", "NaN", "123456789012345680000", "9007199254740993", "true", "'x'", "null", "({length: -1})", "({length: 4294967295})", "({length: 2, 0: 1, 1: 2})", "({a: 5})", "({ID: 1, Name: 'n'})", "[1, 2]"}
		s.Val = nums[r.Intn(len(nums))]
	}
	return s
}

func (k *checker) checkShape(s ShapeCase) bool {
	if s.Op == "live" {
		return k.checkLive(s)
	}
	vm := otto.New()
	ptrs := []*shP{{1}, {2}, {3}}
	ptrmap := map[string]*shP{"a": {1}, "b": {2}}
	structs := []shS{{1, "x"}, {2, "y"}}
	nested := [][]int{{1, 2}, {3}}
	namedkeys := map[shKey]int{"a": 1, "b": 2}
	intkeys := map[shID]string{8: "eight", 16: "sixteen", 10: "ten"}
	boolkeys := map[bool]int{true: 1}
	ifaces := []interface{}{1, "s", nil}
	funcs := []func() int{func() int { return 1 }, func() int { return 2 }}
	ifacekeys := map[interface{}]int{"a": 1}
	rec := &shRec{Name: "r"} // the embedded pointer is nil
	arrs := [][2]float64{{1, 2}, {3, 4}}
	arrmap := map[string][2]int64{"a": {1, 2}}
	parrs := []*[2]int64{{1, 2}}
	uni := &shUni{Ärmel: 3, Ωmega: 4}
	variadic := func(args ...interface{}) int { return len(args) }
	for name, v := range map[string]interface{}{"ptrs": ptrs, "ptrmap": ptrmap, "structs": structs, "nested": nested, "namedkeys": namedkeys, "intkeys": intkeys, "boolkeys": boolkeys, "ifaces": ifaces, "funcs": funcs, "ifacekeys": ifacekeys, "rec": rec, "arrs": arrs, "arrmap": arrmap, "parrs": parrs, "uni": uni, "fv": variadic,
		"fd": func(d time.Duration) string { return d.String() }, "fc": func(c shCelsius) float64 { return float64(c) }, "fb": func(b shFlag) bool { return bool(b) },
		"fs": func(s string) string { return s }, "flen": func(xs []int) int { return len(xs) }, "fkey": func(m map[shKey]int) int { return len(m) }, "frec": func(r shRec) string { return r.Name }} {
		if err := vm.Set(name, v); err != nil {
			k.fail("mismatch", "shape:set:"+name, "Set succeeds", err.Error(), "")
			return false
		}
	}
	c := s.Container
	var src string
	switch s.Op {
	case "index":
		src = fmt.Sprintf("%s[%q] = %s; 'ok'", c, s.Key, s.Val)
	case "prop":
		// either refused loudly, or taken: then the name denotes one property (not a stored duplicate beside the Go member)
		attrs := []string{"writable: true, enumerable: true, configurable: true", "enumerable: true", ""}[len(s.Key)%3]
		src = fmt.Sprintf("Object.defineProperty(%s, %q, {value: %s, %s}); var n = 0, ks = Object.getOwnPropertyNames(%s); for (var i = 0; i < ks.length; i++) if (ks[i] === %q) n++; n <= 1 ? 'ok' : 'listed ' + n + ' times: ' + ks.join()", c, s.Key, s.Val, attrs, c, s.Key)
	case "push":
		src = fmt.Sprintf("Array.prototype.push.call(%s, %s); Array.prototype.reverse.call(%s); 'ok'", c, s.Val, c)
	case "delete":
		src = fmt.Sprintf("delete %s[%q]; 'ok'", c, s.Key)
	case "in":
		src = fmt.Sprintf("(%q in %s) === (Object.getOwnPropertyNames(%s).indexOf(%q) >= 0 || %q in Object.getPrototypeOf(%s)) ? 'ok' : 'in-disagrees-with-names:' + Object.getOwnPropertyNames(%s).join()", s.Key, c, c, s.Key, s.Key, c, c)
	case "read":
		src = fmt.Sprintf("var rv = %s[%q]; JSON.stringify(%s); String(rv); 'ok'", c, s.Key, c)
	case "length":
		src = fmt.Sprintf("%s.length = %s; 'ok'", c, s.Val)
	case "name":
		// a property name denotes one key: the name listed by Object.keys
		src = fmt.Sprintf("var before = JSON.stringify(%s); var had = Object.getOwnPropertyNames(%s).indexOf(%q) >= 0; var got = %s[%q]; (had || got === undefined || typeof got === 'function') ? 'ok' : 'alias:' + %q + '=' + got", c, c, s.Key, c, s.Key, s.Key)
	case "variadic":
		// a variadic Go function receives one value per argument; only a real array may stand for the whole tail
		want := map[string]string{"function(a, b){}": "1", "({length: 3})": "1", "new String('ab')": "1", "[1, 2, 3]": "3", "'x', function(ev, t, x){}": "2", "1, 2": "2", "": "0", "[[1, 2]]": "1"}[s.Val]
		src = fmt.Sprintf("var got = fv(%s); got === %s ? 'ok' : 'fv received ' + got + ' arguments, expected %s'", s.Val, want, want)
	case "once":
		// an object stored into an integer element is converted by one ToNumber: the number checked is the number stored
		target := map[string]string{"nested": "nested[0][0]", "intkeys": "namedkeys.a", "namedkeys": "namedkeys.b"}[c]
		src = fmt.Sprintf("var o = {n: 0, valueOf: function(){ return ++this.n }}; %s = o; (o.n === 1 && %s === 1) ? 'ok' : 'valueOf ran ' + o.n + ' times, stored ' + %s", target, target, target)
	case "uni":
		src = "(uni.\u00c4rmel === 3 && uni.\u03a9mega === 4 && Object.keys(uni).join() === '\u00c4rmel,\u03a9mega') ? (function(){ uni.\u00c4rmel = 30; var r = (uni.\u00c4rmel === 30 && Object.keys(uni).length === 2) ? 'ok' : 'write made a shadow property: ' + Object.keys(uni).join(); uni.\u00c4rmel = 3; return r })() : 'members hidden: ' + Object.keys(uni).join() + ' ' + uni.\u00c4rmel"
	case "call":
		if c == "fs" {
			// a Number given for a Go string is its ES5 ToString
			src = fmt.Sprintf("var a = %s; var r = fs(a); (typeof a !== 'number' || r === String(a)) ? 'ok' : 'fs:' + r + ' vs ' + String(a)", s.Val)
		} else {
			src = fmt.Sprintf("%s(%s); 'ok'", c, s.Val)
		}
	}
	k.stage = "shape:" + s.Op
	out := ox.Run(vm, "try { "+strings.Replace(src, "; 'ok'", "", 1)+"; 'ok' } catch (e) { (e instanceof TypeError || e instanceof RangeError) ? 'loud:' + e.name : 'other:' + (e && e.name) + ':' + e }")
	if s.Op == "in" || s.Op == "name" || s.Op == "prop" || s.Op == "variadic" || s.Op == "once" || s.Op == "uni" || (s.Op == "call" && c == "fs") {
		out = ox.Run(vm, "try { "+src+" } catch (e) { (e instanceof TypeError || e instanceof RangeError) ? 'loud:' + e.name : 'other:' + (e && e.name) + ':' + e }")
	}
	k.c.Eval(1)
	site := "shape:" + c + ":" + s.Op
	switch {
	case out.Panic != nil:
		k.fail("panic", site, "ok or a TypeError/RangeError in the script", fmt.Sprint(out.Panic), out.Stack)
	case out.Err != nil:
		k.fail("mismatch", site, "ok or a caught TypeError/RangeError", "Run error: "+out.Err.Error(), src)
	default:
		res, _ := out.Val.ToString()
		k.c.Feature("shape-outcome:" + strings.SplitN(res, ":", 2)[0])
		if res != "ok" && !strings.HasPrefix(res, "loud:") {
			k.fail("mismatch", site, "ok, or loud:TypeError / loud:RangeError", res, src)
		}
	}
	// what Go sees in interface elements is a Go value of the natural kind (a string is a string, not its UTF-16 payload)
	for i, e := range ifaces {
		if _, bad := e.([]uint16); bad {
			k.fail("mismatch", "shape:ifaces:go-side", "a Go string", fmt.Sprintf("element %d is a []uint16", i), src)
		}
	}
	if uni.Ärmel != 3 && uni.Ärmel != 30 {
		k.fail("mismatch", "shape:uni:go-side", "3 or 30", fmt.Sprint(uni.Ärmel), src)
	}
	// the Go side is intact: typed elements keep their types (a wrong store would have panicked in reflect)
	_ = ptrs[0]
	_ = structs[0]
	return true
}
