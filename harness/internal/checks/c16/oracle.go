package c16

import (
	"fmt"
	"math"
	"math/big"
	"reflect"
	"sort"
	"strings"

	rb "verif/internal/refbridge"
)

// mode says which outcomes of a conversion "JS value v -> Go type T" are
// acceptable under "exact or loud".
type mode int

const (
	mustOK      mode = iota // v denotes exactly one value of T; the conversion must succeed with it
	okOrFail                // the exact value, or a TypeError/RangeError visible to the script
	mustFail                // no value of T denotes v: only a loud failure is acceptable
	unspecified             // neither the documentation nor the statement fixes the result: only "no panic, no non-Error throw" is asserted
)

func (m mode) String() string {
	return [...]string{"must-convert", "exact-or-loud", "must-fail", "unspecified"}[m]
}

// exp is the expected denotation (a tree for containers).
type exp struct {
	m    mode
	kind string // scalar | val | numstr | seq | map | ptr | nil | struct | free
	want rb.GV  // scalar: the exact Go value (compared with Canon)
	val  string // val: expected ValCanon (interface{} targets)
	num  float64
	kids []exp
	keys []string // map keys / struct field names (Go names)
	why  string
	src  *rb.JV // seq: the JavaScript value the sequence is built from
}

func worst(a, b mode) mode {
	// mustFail dominates; then unspecified/okOrFail (both allow failure); mustOK only if all are.
	switch {
	case a == mustFail || b == mustFail:
		return mustFail
	case a == mustOK && b == mustOK:
		return mustOK
	}
	return okOrFail
}

// numberOf yields ToNumber(v): from the description for primitives, through
// the callback (in-language Number(v) on the runtime under test) for objects.
type numberOf func(v rb.JV) float64

func toNumber(v rb.JV, num numberOf) float64 {
	if n, ok := v.ToNumber(); ok {
		return n
	}
	return num(v)
}

// seqView lists the elements of an array-like value: v[0..length-1] with
// missing elements as undefined.
func seqView(v rb.JV) ([]rb.JV, bool) {
	switch v.K {
	case "arr":
		out := make([]rb.JV, len(v.E))
		for i, e := range v.E {
			if e.K == "hole" {
				out[i] = rb.JUndef()
			} else {
				out[i] = e
			}
		}
		return out, true
	case "getterarr", "args", "arraylike":
		return append([]rb.JV{}, v.E...), true
	case "func": // function(a,b){...}: length 2, no index properties
		return []rb.JV{rb.JUndef(), rb.JUndef()}, true
	case "boxstr":
		var out []rb.JV
		for _, r := range v.S {
			if r >= 0x10000 {
				return nil, false // surrogate halves: not expressible, skip
			}
			out = append(out, rb.JStr(string(r)))
		}
		return out, true
	}
	return nil, false
}

// plainDense reports whether v is an Array literal without holes/accessors.
func plainDense(v rb.JV) bool {
	if v.K != "arr" {
		return false
	}
	for _, e := range v.E {
		if e.K == "hole" {
			return false
		}
	}
	return true
}

func intOfFloat(n float64) *big.Int {
	return new(big.Int).Set(rb.RatOfFloat(n).Num())
}

// denote computes the expectation for converting v to the Go type named t.
func denote(t string, v rb.JV, num numberOf) exp {
	isNum := v.K == "num"
	switch {
	case t == "ottoValue":
		return exp{m: mustOK, kind: "free"}
	case rb.IsIntType(t):
		n := toNumber(v, num)
		if n != n || math.IsInf(n, 0) || n != math.Trunc(n) {
			return exp{m: mustFail, why: fmt.Sprintf("%s denotes no %s", rb.FloatValueLabel(n), t)}
		}
		i := intOfFloat(n)
		lo, hi := rb.IntRange(t)
		if i.Cmp(lo) < 0 || i.Cmp(hi) > 0 {
			return exp{m: mustFail, why: fmt.Sprintf("%s is outside %s", i, t)}
		}
		m := okOrFail
		if isNum {
			m = mustOK
		}
		return exp{m: m, kind: "scalar", want: rb.GInt(t, i)}
	case rb.IsFloat32Type(t):
		n := toNumber(v, num)
		r := rb.RoundFloat32(n)
		if n == n && !math.IsInf(n, 0) && math.IsInf(float64(r), 0) {
			return exp{m: mustFail, why: fmt.Sprintf("%v overflows float32", n)}
		}
		m := okOrFail
		if isNum && (n != n || float64(r) == n) {
			m = mustOK
		}
		return exp{m: m, kind: "scalar", want: rb.GFloat(t, float64(r))}
	case rb.IsFloatType(t):
		n := toNumber(v, num)
		m := okOrFail
		if isNum {
			m = mustOK
		}
		return exp{m: m, kind: "scalar", want: rb.GFloat(t, n)}
	case t == "string" || t == "MyStr":
		switch v.K {
		case "str":
			return exp{m: mustOK, kind: "scalar", want: rb.GStr(t, v.S)}
		case "num":
			if n := v.Num(); n == n && !math.IsInf(n, 0) {
				return exp{m: okOrFail, kind: "numstr", num: n}
			}
		}
		return exp{m: unspecified, kind: "free"}
	case t == "bool" || t == "MyBool":
		m := okOrFail
		if v.K == "bool" {
			m = mustOK
		}
		return exp{m: m, kind: "scalar", want: rb.GBool(t, v.ToBoolean())}
	case t == "any":
		if v.K == "undef" || jsonLikeU(v) {
			return exp{m: mustOK, kind: "val", val: v.ValCanon()}
		}
		return exp{m: unspecified, kind: "free"}
	case strings.HasPrefix(t, "*"):
		if v.K == "null" || v.K == "undef" {
			return exp{m: okOrFail, kind: "nil"}
		}
		k := denote(t[1:], v, num)
		return exp{m: k.m, kind: "ptr", kids: []exp{k}, why: k.why}
	case strings.HasPrefix(t, "[]") || rb.ArrayLen(t) >= 0:
		et := rb.ElemExpr(t)
		switch v.K {
		case "null", "undef":
			if rb.ArrayLen(t) >= 0 {
				return exp{m: unspecified, kind: "free"}
			}
			return exp{m: okOrFail, kind: "seq"}
		case "num", "bool":
			return exp{m: mustFail, why: v.K + " denotes no " + t}
		case "str":
			return exp{m: unspecified, kind: "free"}
		}
		el, ok := seqView(v)
		if !ok {
			if v.K == "obj" || v.K == "date" || v.K == "regexp" || v.K == "error" || v.K == "boxnum" || v.K == "boxbool" {
				return exp{m: mustFail, why: v.K + " object without length denotes no " + t}
			}
			return exp{m: unspecified, kind: "free"}
		}
		if n := rb.ArrayLen(t); n >= 0 && n != len(el) {
			return exp{m: mustFail, why: fmt.Sprintf("%d elements denote no %s", len(el), t)}
		}
		vv := v
		e := exp{m: mustOK, kind: "seq", src: &vv}
		for _, x := range el {
			k := denote(et, x, num)
			e.m = worst(e.m, k.m)
			if k.m == mustFail && e.why == "" {
				e.why = "element: " + k.why
			}
			e.kids = append(e.kids, k)
		}
		if e.m == mustOK && (!plainDense(v) || rb.ArrayLen(t) >= 0) {
			e.m = okOrFail // array-likes and Go arrays: accepting them is not promised
		}
		return e
	case strings.HasPrefix(t, "map[string]"):
		et := rb.ElemExpr(t)
		switch v.K {
		case "null", "undef":
			return exp{m: okOrFail, kind: "map"}
		case "num", "bool", "str":
			return exp{m: mustFail, why: v.K + " denotes no " + t}
		case "obj":
			e := exp{m: mustOK, kind: "map"}
			for i, key := range v.Keys {
				if v.E[i].K == "undef" && et == "any" {
					// undefined-valued property: key present with nil, or absent
					e.m = worst(e.m, okOrFail)
				}
				k := denote(et, v.E[i], num)
				e.m = worst(e.m, k.m)
				if k.m == mustFail && e.why == "" {
					e.why = "property " + key + ": " + k.why
				}
				e.keys = append(e.keys, key)
				e.kids = append(e.kids, k)
			}
			return e
		}
		return exp{m: unspecified, kind: "free"}
	case t == "S1" || t == "Inner":
		switch v.K {
		case "null", "undef":
			return exp{m: unspecified, kind: "free"}
		case "num", "bool", "str":
			return exp{m: mustFail, why: v.K + " denotes no struct"}
		case "obj":
			return denoteStruct(t, v, num)
		}
		return exp{m: unspecified, kind: "free"}
	}
	return exp{m: unspecified, kind: "free"}
}

func jsonLikeU(v rb.JV) bool {
	switch v.K {
	case "undef", "null", "bool", "str", "num":
		return true
	case "arr", "obj":
		for _, e := range v.E {
			if e.K == "hole" || !jsonLikeU(e) {
				return false
			}
		}
		return true
	}
	return false
}

// structField resolves a script-side property name to a Go field path of S1 /
// Inner by Go field name or json tag (promoted fields of the embedded struct
// included). The unexported field and unknown names resolve to nothing.
func structField(t reflect.Type, name string) ([]int, reflect.Type, string) {
	for i := 0; i < t.NumField(); i++ {
		f := t.Field(i)
		if f.PkgPath != "" && !f.Anonymous {
			continue
		}
		tag := strings.Split(f.Tag.Get("json"), ",")[0]
		if tag == "-" {
			if f.Name == name {
				return nil, nil, "dash"
			}
			continue
		}
		if f.Name == name || tag != "" && tag == name {
			return []int{i}, f.Type, ""
		}
		if f.Anonymous && f.Type.Kind() == reflect.Struct {
			if idx, ft, _ := structField(f.Type, name); idx != nil {
				return append([]int{i}, idx...), ft, ""
			}
		}
	}
	return nil, nil, "unknown"
}

func typeExpr(t reflect.Type) string {
	s := strings.ReplaceAll(t.String(), "refbridge.", "")
	return strings.ReplaceAll(s, "interface {}", "any")
}

// denoteStruct: each property is converted into the field it names (Go name or
// json tag); unmentioned fields stay zero. Unknown names, the unexported field
// and the json:"-" field make the result unspecified (a loud failure or
// ignoring them are both defensible) but never allow touching other fields.
func denoteStruct(t string, v rb.JV, num numberOf) exp {
	rt := rb.MustType(t)
	e := exp{m: mustOK, kind: "struct"}
	unknown := false
	for i, key := range v.Keys {
		idx, ft, why := structField(rt, key)
		if idx == nil {
			_ = why
			unknown = true
			continue
		}
		k := denote(typeExpr(ft), v.E[i], num)
		if k.m == mustFail {
			e.why = "field " + key + ": " + k.why
		}
		// a later property naming the same field (Go name and json tag) overrides the earlier one
		dup := false
		for q := range e.keys {
			if e.keys[q] == fmt.Sprint(idx) {
				if e.kids[q].m != mustOK {
					unknown = true // the overridden property may already have made the call fail
				}
				e.kids[q] = k
				dup = true
			}
		}
		if !dup {
			e.keys = append(e.keys, fmt.Sprint(idx))
			e.kids = append(e.kids, k)
		}
	}
	e.m = mustOK
	for _, k := range e.kids {
		e.m = worst(e.m, k.m)
	}
	if unknown {
		e.m = worst(e.m, okOrFail)
	}
	return e
}

// check compares a received Go value with the expectation; "" means exact.
func check(e exp, got reflect.Value) string {
	switch e.kind {
	case "free", "":
		return ""
	case "scalar":
		if w, g := rb.CanonGV(e.want), rb.CanonValue(got); w != g {
			return "want " + w + ", received " + g
		}
	case "val":
		var x interface{}
		if got.IsValid() && !(got.Kind() == reflect.Interface && got.IsNil()) {
			x = got.Interface()
		}
		if g := rb.ValCanon(x); g != e.val {
			return "want " + e.val + ", received " + g + " (" + rb.Canon(x) + ")"
		}
	case "numstr":
		if got.Kind() != reflect.String {
			return "want a string, received " + rb.CanonValue(got)
		}
		if d := rb.StringToNumber(got.String()); d != e.num {
			return fmt.Sprintf("want a string denoting %v, received %q", e.num, got.String())
		}
	case "nil":
		if !got.IsNil() {
			return "want nil pointer, received " + rb.CanonValue(got)
		}
	case "ptr":
		if got.Kind() != reflect.Ptr || got.IsNil() {
			return "want non-nil pointer, received " + rb.CanonValue(got)
		}
		return check(e.kids[0], got.Elem())
	case "seq":
		if got.Kind() != reflect.Slice && got.Kind() != reflect.Array {
			return "want a sequence, received " + rb.CanonValue(got)
		}
		if got.Len() != len(e.kids) {
			return fmt.Sprintf("want %d elements, received %s", len(e.kids), rb.CanonValue(got))
		}
		for i, k := range e.kids {
			if s := check(k, got.Index(i)); s != "" {
				return fmt.Sprintf("[%d]: %s", i, s)
			}
		}
	case "map":
		if got.Kind() != reflect.Map {
			return "want a map, received " + rb.CanonValue(got)
		}
		seen := map[string]bool{}
		for i, key := range e.keys {
			seen[key] = true
			mv := got.MapIndex(reflect.ValueOf(key))
			if !mv.IsValid() {
				if e.kids[i].kind == "val" && e.kids[i].val == "null" {
					continue
				}
				return "missing key " + key + " in " + rb.CanonValue(got)
			}
			if s := check(e.kids[i], mv); s != "" {
				return fmt.Sprintf("[%q]: %s", key, s)
			}
		}
		var extra []string
		for _, k := range got.MapKeys() {
			if !seen[k.String()] {
				extra = append(extra, k.String())
			}
		}
		if len(extra) > 0 {
			sort.Strings(extra)
			return fmt.Sprintf("unexpected keys %v in %s", extra, rb.CanonValue(got))
		}
	case "struct":
		if got.Kind() != reflect.Struct {
			return "want a struct, received " + rb.CanonValue(got)
		}
		// expected: zero struct with the named fields set
		want := reflect.New(got.Type()).Elem()
		touched := map[string]bool{}
		for i, key := range e.keys {
			idx := parseIdx(key)
			f := got.FieldByIndex(idx)
			if s := check(e.kids[i], f); s != "" {
				return fmt.Sprintf("field %s: %s", got.Type().FieldByIndex(idx).Name, s)
			}
			touched[key] = true
			// copy the checked field so that the remaining comparison sees it equal
			wf := want.FieldByIndex(idx)
			if wf.CanSet() {
				wf.Set(f)
			}
		}
		if w, g := rb.CanonValue(want), rb.CanonValue(got); w != g {
			return "fields not named by the script changed: want " + w + ", received " + g
		}
	}
	return ""
}

func parseIdx(s string) []int {
	s = strings.Trim(s, "[]")
	var out []int
	for _, p := range strings.Fields(s) {
		n := 0
		for _, c := range p {
			n = n*10 + int(c-'0')
		}
		out = append(out, n)
	}
	return out
}

// notPlainArray: array-like values convertCallParameter fills with zeros
// instead of converting element-wise (only own data properties of real Arrays
// are read): Arguments objects, {length:n,...}, functions, String objects,
// arrays with holes or accessor elements.
func notPlainArray(v rb.JV) bool {
	switch v.K {
	case "args", "arraylike", "getterarr", "func", "boxstr":
		return true
	case "arr":
		for _, e := range v.E {
			if e.K == "hole" {
				return true
			}
		}
	}
	return false
}

// zeroFilled recognises the known deviation "elements of an array-like / holes /
// accessor elements arrive as the zero value": it reports whether got contains,
// at a position built from such a value, zero values exactly where otto's
// convertCallParameter leaves them unset.
func zeroFilled(e exp, got reflect.Value) bool {
	if !got.IsValid() {
		return false
	}
	for got.Kind() == reflect.Interface && !got.IsNil() {
		got = got.Elem()
	}
	switch e.kind {
	case "seq":
		if got.Kind() != reflect.Slice && got.Kind() != reflect.Array || got.Len() != len(e.kids) {
			return false
		}
		if e.src != nil && notPlainArray(*e.src) {
			hit := false
			for i := range e.kids {
				z := true
				switch e.src.K {
				case "arr":
					z = e.src.E[i].K == "hole"
				case "getterarr":
					z = i == 0
				}
				if z {
					if !got.Index(i).IsZero() {
						return false
					}
					hit = true
				}
			}
			if hit {
				return true
			}
		}
		for i, k := range e.kids {
			if zeroFilled(k, got.Index(i)) {
				return true
			}
		}
	case "map":
		if got.Kind() != reflect.Map {
			return false
		}
		for i, key := range e.keys {
			if mv := got.MapIndex(reflect.ValueOf(key)); mv.IsValid() && zeroFilled(e.kids[i], mv) {
				return true
			}
		}
	case "ptr":
		if got.Kind() == reflect.Ptr && !got.IsNil() {
			return zeroFilled(e.kids[0], got.Elem())
		}
	case "struct":
		if got.Kind() != reflect.Struct {
			return false
		}
		for i, key := range e.keys {
			if zeroFilled(e.kids[i], got.FieldByIndex(parseIdx(key))) {
				return true
			}
		}
	}
	return false
}
