package c16

import (
	"fmt"
	"math/big"
	"reflect"
	"sort"
	"strconv"
	"strings"

	rb "verif/internal/refbridge"
)

// hstate is the state of one container history.
type hstate struct {
	k        *checker
	h        HistCase
	t, et    string
	kind     string // slice | array | map | struct
	shadow   rb.GV  // independent copy evolved by the statement's semantics
	orig     reflect.Value
	detached bool // the bridged slice was re-allocated: the Go-side header is stale
	writable bool
	expando  map[string]bool
	step     int
	opText   string
	note     string // prefix for never-acceptable outcomes of the next statement
}

func gvFromJV(v rb.JV) rb.GV {
	switch v.K {
	case "bool":
		return rb.GBool("bool", v.B)
	case "num":
		return rb.GFloat("float64", v.Num())
	case "str":
		return rb.GStr("string", v.S)
	case "arr":
		e := make([]rb.GV, len(v.E))
		for i := range e {
			e[i] = gvFromJV(v.E[i])
		}
		return rb.GSeq("[]any", e...)
	case "obj":
		var ks []string
		var es []rb.GV
		for i, key := range v.Keys {
			if v.E[i].K == "undef" {
				continue
			}
			ks = append(ks, key)
			es = append(es, gvFromJV(v.E[i]))
		}
		return rb.GMap("map[string]any", ks, es)
	}
	return rb.GNil()
}

func zeroGV(t string) rb.GV {
	if t == "any" {
		return rb.GNil()
	}
	return rb.GVOf(reflect.Zero(rb.MustType(t)))
}

func (s *hstate) live() (reflect.Value, bool) {
	cv, err := theVM().Get("c")
	if err != nil {
		return reflect.Value{}, false
	}
	e, _ := cv.Export()
	if e == nil {
		return reflect.Value{}, false
	}
	v := reflect.ValueOf(e)
	for v.Kind() == reflect.Ptr && !v.IsNil() {
		v = v.Elem()
	}
	return v, true
}

func valCanonGV(g rb.GV) string {
	v, err := rb.Build(g)
	if err != nil {
		return "!build: " + err.Error()
	}
	if !v.IsValid() {
		return "null"
	}
	return rb.ValCanon(v.Interface())
}

func (s *hstate) site(op Op) string { return "hist:" + s.kind + ":" + op.K }

// compare checks the three views after an operation. class is a prefix for
// the failure text ("silent", "lost", ...) chosen by the caller.
func (s *hstate) compare(op Op, class string) bool {
	k := s.k
	lv, ok := s.live()
	want := valCanonGV(s.shadow)
	if !ok {
		k.fail("mismatch", s.site(op), "container still bridged", "Export() returned nil", s.opText)
		return false
	}
	liveC := rb.ValCanon(lv.Interface())
	lit := rb.JSLit(s.shadow, true)
	a := k.try("__eq(c, " + lit + ")")
	if kind, what := a.bad(); kind != "" {
		k.fail(kind, s.site(op), "contents readable", what, s.opText)
		return false
	}
	scriptOK := a.result == "b:true"
	k.c.Eval(2)
	origOK := true
	origC := ""
	if s.kind == "slice" && !s.detached || s.kind == "map" || s.h.Pass == "ptr" {
		origC, origOK = s.origView(want)
	}
	if liveC == want && scriptOK && origOK {
		return true
	}
	desc := k.try("__desc(c)")
	act := fmt.Sprintf("%s: after step %d (%s): Go(Export)=%s script=%s", class, s.step, s.opText, liveC, desc.result)
	if !origOK {
		act += " Go(variable)=" + origC
	}
	k.fail("mismatch", s.site(op), "all views equal "+want, act, "")
	return false
}

func (k *checker) checkHist(h HistCase) bool {
	v := theVM()
	bv, err := rb.Build(h.C)
	if err != nil {
		k.c.Inconclusive("build: " + err.Error())
		return false
	}
	s := &hstate{k: k, h: h, t: h.C.T, et: rb.ElemExpr(h.C.T), shadow: rb.GVOf(bv), orig: bv, expando: map[string]bool{}}
	switch {
	case strings.HasPrefix(s.t, "[]"):
		s.kind, s.writable = "slice", true
	case rb.ArrayLen(s.t) >= 0:
		s.kind, s.writable = "array", h.Pass == "ptr"
	case strings.HasPrefix(s.t, "map["):
		s.kind, s.writable = "map", true
	default:
		s.kind, s.writable = "struct", h.Pass == "ptr"
	}
	var x interface{}
	if h.Pass == "ptr" {
		x = bv.Addr().Interface()
	} else {
		x = bv.Interface()
	}
	k.stage = "Set"
	if err := v.Set("c", x); err != nil {
		k.fail("mismatch", "hist:Set", "container bridged", err.Error(), "")
		return false
	}
	k.c.Feature("hist-container:" + s.kind + ":" + h.Pass)
	if !s.compare(Op{K: "init"}, "initial") {
		return false
	}
	done := 0
	for i, op := range h.Ops {
		s.step = i
		s.opText = opText(op)
		k.stage = "step " + strconv.Itoa(i) + " " + s.opText
		var ok bool
		switch s.kind {
		case "slice", "array":
			ok = s.seqOp(op)
		case "map":
			ok = s.mapOp(op)
		default:
			ok = s.structOp(op)
		}
		k.c.Feature("hist-op:" + s.kind + ":" + op.K)
		if !ok {
			// a disagreement was reported: resynchronise the shadow with the live
			// Go object so that the remaining operations are still observed
			if vm == nil || !s.resync() {
				return done >= 1
			}
			k.c.Feature("hist-resync")
			continue
		}
		done++
	}
	return done >= 2
}

// resync adopts the live contents as the new shadow; false if the views cannot
// be brought to agree (script and Go disagree with each other).
func (s *hstate) resync() bool {
	lv, ok := s.live()
	if !ok {
		return false
	}
	s.shadow = rb.GVOf(lv)
	if s.kind == "slice" && (lv.Len() != s.orig.Len() || lv.Len() > 0 && lv.Pointer() != s.orig.Pointer()) {
		s.detached = true
	}
	a := s.k.try("__eq(c, " + rb.JSLit(s.shadow, true) + ")")
	if kind, _ := a.bad(); kind != "" || a.result != "b:true" {
		return false
	}
	if s.kind == "slice" && !s.detached || s.kind == "map" || s.h.Pass == "ptr" {
		_, ok := s.origView(valCanonGV(s.shadow))
		return ok
	}
	return true
}

// origView renders the Go-side variable and compares it with the shadow. A
// slice header held by the Go side keeps its own length (it was passed by
// value), so only the elements both views have are compared.
func (s *hstate) origView(want string) (string, bool) {
	if s.kind != "slice" {
		c := rb.ValCanon(s.orig.Interface())
		return c, c == want
	}
	n := s.orig.Len()
	if len(s.shadow.E) < n {
		n = len(s.shadow.E)
	}
	pre := s.shadow
	pre.E = pre.E[:n]
	pre.Nil = false
	c := rb.ValCanon(s.orig.Slice(0, n).Interface())
	return c, c == valCanonGV(pre)
}

func opText(op Op) string {
	s := op.K
	if op.Key != "" {
		s += " " + op.Key
	}
	if op.V != nil {
		s += " " + op.V.Src()
	}
	if op.G != nil {
		s += " " + rb.CanonGV(*op.G)
	}
	return s
}

// observe runs a statement; returns the attempt and false if the outcome is
// never acceptable (already reported).
func (s *hstate) observe(op Op, expr string) (attempt, bool) {
	a := s.k.try(expr)
	s.k.c.Eval(1)
	note := s.note
	s.note = ""
	if kind, what := a.bad(); kind != "" {
		s.k.fail(kind, s.site(op), "a TypeError/RangeError the script can catch, or the operation takes effect", note+what+" [step "+strconv.Itoa(s.step)+": "+s.opText+"]", a.stack)
		return a, false
	}
	return a, true
}

func (s *hstate) jsLen(op Op) (int, bool) {
	a, ok := s.observe(op, "c.length")
	if !ok {
		return 0, false
	}
	if !strings.HasPrefix(a.result, "n:") {
		s.k.fail("mismatch", s.site(op), "numeric length", a.result, s.opText)
		return 0, false
	}
	n, err := strconv.Atoi(a.result[2:])
	if err != nil {
		s.k.fail("mismatch", s.site(op), "integer length", a.result, s.opText)
		return 0, false
	}
	return n, true
}

// stored computes the shadow element after an accepted write of v to a slot
// of type t whose live value is lv; it reports an inexact store.
func (s *hstate) stored(e exp, v rb.JV, lv reflect.Value) (rb.GV, string) {
	switch e.kind {
	case "scalar":
		return e.want, ""
	case "val":
		return gvFromJV(v), ""
	}
	if msg := check(e, lv); msg != "" {
		return rb.GVOf(lv), msg
	}
	return rb.GVOf(lv), ""
}

// ------------------------------------------------------------ slices and arrays

func (s *hstate) seqOp(op Op) bool {
	k := s.k
	L := len(s.shadow.E)
	isSlice := s.kind == "slice"
	idx := -1
	if op.Key != "" {
		idx, _ = strconv.Atoi(op.Key)
	}
	switch op.K {
	case "jsset", "jspush":
		e := denote(s.et, *op.V, k.numberIn)
		expr := "c[" + op.Key + "] = " + op.V.Src()
		if op.K == "jspush" {
			expr = "c.push(" + op.V.Src() + ")"
			idx = L
		}
		if e.m == mustOK && s.writable && (idx < L || isSlice && idx == L) {
			s.note = "refused although the value denotes a " + s.et + ": "
		}
		a, ok := s.observe(op, expr)
		if !ok {
			return false
		}
		n, ok := s.jsLen(op)
		if !ok {
			return false
		}
		class := "mismatch"
		switch {
		case a.loud():
			if e.m == mustOK && s.writable && (idx < L || isSlice && idx == L) {
				k.fail("mismatch", s.site(op), "the value denotes a "+s.et+": the write succeeds", "spurious "+a.thrown+" [step "+strconv.Itoa(s.step)+": "+s.opText+"]", "")
				return false
			}
			if n != L && !(op.K == "jspush" && n == L) {
				k.fail("mismatch", s.site(op), fmt.Sprintf("length %d after a failed write", L), fmt.Sprint(n), s.opText)
				return false
			}
		case !s.writable:
			// by-value array: the write is ignored
		case idx < L:
			if e.m == mustFail {
				class = "silent (" + e.why + ")"
				if lv, ok := s.live(); ok && lv.Len() > idx {
					class = zfMark(e, lv.Index(idx)) + class
				}
			} else {
				lv, _ := s.live()
				g, msg := s.stored(e, *op.V, lv.Index(idx))
				if msg != "" {
					k.fail("mismatch", s.site(op), "exact or loud", "wrong: "+msg+" [step "+strconv.Itoa(s.step)+": "+s.opText+"]", "")
					return false
				}
				s.shadow.E[idx] = g
			}
		default: // idx >= L
			switch {
			case n == L:
				// refused silently: nothing changes
			case isSlice && n == idx+1:
				s.detached = true
				for len(s.shadow.E) < idx {
					s.shadow.E = append(s.shadow.E, zeroGV(s.et))
				}
				if e.m == mustFail {
					class = "silent (" + e.why + ")"
					s.shadow.E = append(s.shadow.E, zeroGV(s.et))
				} else {
					lv, _ := s.live()
					var g rb.GV
					msg := "live slice shorter than its script length"
					if lv.Len() > idx {
						g, msg = s.stored(e, *op.V, lv.Index(idx))
					}
					if msg != "" {
						k.fail("mismatch", s.site(op), "exact or loud", "wrong: "+msg+" [step "+strconv.Itoa(s.step)+": "+s.opText+"]", "")
						return false
					}
					s.shadow.E = append(s.shadow.E, g)
				}
				s.shadow.Nil = false
			default:
				k.fail("mismatch", s.site(op), fmt.Sprintf("length %d or %d", L, idx+1), fmt.Sprint(n), s.opText)
				return false
			}
		}
		return s.compare(op, class)
	case "jsget":
		var want string
		if idx < L {
			want = "__eq(c[" + op.Key + "], " + rb.JSLit(s.shadow.E[idx], true) + ")"
		} else {
			want = "c[" + op.Key + "] === undefined"
		}
		a, ok := s.observe(op, want)
		if !ok {
			return false
		}
		if a.thrown != "" || a.result != "b:true" {
			d := k.try("__desc(c[" + op.Key + "])")
			k.fail("mismatch", s.site(op), want, d.result+" thrown="+a.thrown, s.opText)
			return false
		}
		return true
	case "jsdel":
		a, ok := s.observe(op, "delete c["+op.Key+"]")
		if !ok {
			return false
		}
		if a.result == "b:true" && idx < L && s.writable {
			s.shadow.E[idx] = zeroGV(s.et)
		}
		return s.compare(op, "delete")
	case "jsin":
		a, ok := s.observe(op, op.Key+" in c")
		if !ok {
			return false
		}
		if want := "b:" + fmt.Sprint(idx < L); a.result != want || a.thrown != "" {
			k.fail("mismatch", s.site(op), fmt.Sprintf("(%s in c) is %v for length %d", op.Key, idx < L, L), a.result+" thrown="+a.thrown, s.opText)
			return false
		}
		return true
	case "jskeys":
		a, ok := s.observe(op, "Object.keys(c).join(',')")
		if !ok {
			return false
		}
		var ks []string
		for i := 0; i < L; i++ {
			ks = append(ks, strconv.Itoa(i))
		}
		if want := "s:\"" + strings.Join(ks, ",") + "\""; a.result != want {
			k.fail("mismatch", s.site(op), want, a.result, s.opText)
			return false
		}
		return true
	case "jslen":
		n, ok := s.jsLen(op)
		if !ok {
			return false
		}
		if n != L {
			k.fail("mismatch", s.site(op), fmt.Sprint(L), fmt.Sprint(n), s.opText)
			return false
		}
		return true
	case "jssetlen":
		a, ok := s.observe(op, "c.length = "+op.V.Src())
		if !ok {
			return false
		}
		n, ok := s.jsLen(op)
		if !ok {
			return false
		}
		req := op.V.Num()
		switch {
		case n == L:
			// refused (loudly or not) or no change requested
		case isSlice && !a.loud() && req == float64(n) && n >= 0:
			if n < L {
				s.shadow.E = s.shadow.E[:n]
			} else {
				s.detached = true
				for len(s.shadow.E) < n {
					s.shadow.E = append(s.shadow.E, zeroGV(s.et))
				}
				s.shadow.Nil = false
			}
		default:
			k.fail("mismatch", s.site(op), fmt.Sprintf("length %d (refused) or %v (applied)", L, req), fmt.Sprintf("%d thrown=%q", n, a.thrown), s.opText)
			return false
		}
		return s.compare(op, "length write")
	case "jspop":
		want := "__popped === undefined"
		if L > 0 {
			want = "__eq(__popped, " + rb.JSLit(s.shadow.E[L-1], true) + ")"
		}
		a, ok := s.observe(op, "__popped = c.pop()")
		if !ok {
			return false
		}
		n, ok := s.jsLen(op)
		if !ok {
			return false
		}
		switch {
		case a.loud() && n == L:
			// ES5 15.4.4.6: pop deletes the last element before writing length; on a
			// writable Go array the delete has already reset the element when the
			// length write fails
			if !isSlice && s.writable && L > 0 {
				s.shadow.E[L-1] = zeroGV(s.et)
			}
		case !a.loud() && (L == 0 && n == 0 || isSlice && n == L-1):
			if w := k.try(want); w.result != "b:true" {
				k.fail("mismatch", s.site(op), want, k.try("__desc(__popped)").result, s.opText)
				return false
			}
			if L > 0 {
				s.shadow.E = s.shadow.E[:L-1]
			}
		case !a.loud() && !isSlice && n == L:
			// arrays cannot shrink; the generic pop (ES5 15.4.4.6) still deletes
			// the last element, which on a Go array resets it to the zero value
			if s.writable && L > 0 {
				s.shadow.E[L-1] = zeroGV(s.et)
			}
		default:
			k.fail("mismatch", s.site(op), fmt.Sprintf("pop: length %d->%d or a catchable error", L, L-1), fmt.Sprintf("length %d thrown=%q", n, a.thrown), s.opText)
			return false
		}
		return s.compare(op, "pop")
	case "goset":
		if !s.writable && s.kind == "array" || s.detached || idx >= s.orig.Len() || idx >= L {
			return true // not comparable: the Go-side variable is a different object
		}
		gv, err := rb.Build(*op.G)
		if err != nil {
			return true
		}
		dst := s.orig.Index(idx)
		if !gv.IsValid() {
			dst.Set(reflect.Zero(dst.Type()))
		} else {
			dst.Set(gv)
		}
		s.shadow.E[idx] = *op.G
		return s.compare(op, "Go-side write")
	}
	return true
}

// ------------------------------------------------------------ maps

func (s *hstate) keyOK(key string) bool {
	if rb.KeyExpr(s.t) == "string" {
		return true
	}
	n, ok := new(big.Int).SetString(key, 10)
	return ok && n.IsInt64() && n.String() == key
}

func (s *hstate) shadowIndex(key string) int {
	for i, k := range s.shadow.K {
		if k == key {
			return i
		}
	}
	return -1
}

func (s *hstate) shadowSet(key string, g rb.GV) {
	if i := s.shadowIndex(key); i >= 0 {
		s.shadow.E[i] = g
		return
	}
	s.shadow.K = append(s.shadow.K, key)
	s.shadow.E = append(s.shadow.E, g)
}

func (s *hstate) shadowDel(key string) {
	if i := s.shadowIndex(key); i >= 0 {
		s.shadow.K = append(s.shadow.K[:i], s.shadow.K[i+1:]...)
		s.shadow.E = append(s.shadow.E[:i], s.shadow.E[i+1:]...)
	}
}

func (s *hstate) goKey(key string) reflect.Value {
	kt := s.orig.Type().Key()
	kv := reflect.New(kt).Elem()
	if kt.Kind() == reflect.String {
		kv.SetString(key)
	} else {
		n, _ := strconv.ParseInt(key, 10, 64)
		kv.SetInt(n)
	}
	return kv
}

func (s *hstate) mapOp(op Op) bool {
	k := s.k
	ref := "c[" + rb.JSStr(op.Key) + "]"
	valid := s.keyOK(op.Key)
	switch op.K {
	case "jsset":
		e := denote(s.et, *op.V, k.numberIn)
		if e.m == mustOK && valid && !s.shadow.Nil {
			s.note = "refused although the value denotes a " + s.et + ": "
		}
		a, ok := s.observe(op, ref+" = "+op.V.Src())
		if !ok {
			return false
		}
		class := "mismatch"
		switch {
		case a.loud():
			if e.m == mustOK && valid && !s.shadow.Nil {
				k.fail("mismatch", s.site(op), "the value denotes a "+s.et+": the write succeeds", "spurious "+a.thrown+" [step "+strconv.Itoa(s.step)+": "+s.opText+"]", "")
				return false
			}
		case !valid:
			class = "invalid key"
		case s.shadow.Nil:
			class = "nil map" // a nil map cannot hold the entry: the write is ignored
		case e.m == mustFail:
			class = "silent (" + e.why + ")"
		default:
			lv, _ := s.live()
			mv := reflect.Value{}
			if lv.Kind() == reflect.Map {
				mv = lv.MapIndex(s.goKey(op.Key))
			}
			if !mv.IsValid() {
				k.fail("mismatch", s.site(op), "key stored", "lost: key absent from the Go map after an accepted write [step "+strconv.Itoa(s.step)+": "+s.opText+"]", "")
				return false
			}
			g, msg := s.stored(e, *op.V, mv)
			if msg != "" {
				k.fail("mismatch", s.site(op), "exact or loud", "wrong: "+msg+" [step "+strconv.Itoa(s.step)+": "+s.opText+"]", "")
				return false
			}
			s.shadowSet(op.Key, g)
			s.shadow.Nil = false
		}
		return s.compare(op, class)
	case "jsget":
		want := ref + " === undefined"
		if i := s.shadowIndex(op.Key); i >= 0 {
			want = "__eq(" + ref + ", " + rb.JSLit(s.shadow.E[i], true) + ")"
			if s.shadow.E[i].T == "nil" {
				want = ref + " == null"
			}
		}
		a, ok := s.observe(op, want)
		if !ok {
			return false
		}
		if a.thrown != "" || a.result != "b:true" {
			d := k.try("__desc(" + ref + ")")
			k.fail("mismatch", s.site(op), want, d.result+" thrown="+a.thrown, s.opText)
			return false
		}
		return true
	case "jsdel":
		a, ok := s.observe(op, "delete "+ref)
		if !ok {
			return false
		}
		if !a.loud() && a.result == "b:true" && valid {
			s.shadowDel(op.Key)
		}
		return s.compare(op, "delete")
	case "jsin":
		a, ok := s.observe(op, rb.JSStr(op.Key)+" in c")
		if !ok {
			return false
		}
		if want := "b:" + fmt.Sprint(s.shadowIndex(op.Key) >= 0); a.result != want || a.thrown != "" {
			k.fail("mismatch", s.site(op), want, a.result+" thrown="+a.thrown, s.opText)
			return false
		}
		return true
	case "jskeys":
		a, ok := s.observe(op, "JSON.stringify(Object.keys(c))")
		if !ok {
			return false
		}
		txt, _ := unStr(a.result)
		n, err := rb.ParseJSON(txt)
		if err != nil || n.Kind != 'a' {
			k.fail("mismatch", s.site(op), "key list", a.result, s.opText)
			return false
		}
		var got []string
		for _, e := range n.Arr {
			got = append(got, e.Str)
		}
		want := append([]string{}, s.shadow.K...)
		sort.Strings(got)
		sort.Strings(want)
		if strings.Join(got, "\x00") != strings.Join(want, "\x00") {
			k.fail("mismatch", s.site(op), fmt.Sprintf("%q", want), fmt.Sprintf("%q", got), s.opText)
			return false
		}
		return true
	case "goset":
		if s.shadow.Nil {
			return true
		}
		gv, err := rb.Build(*op.G)
		if err != nil {
			return true
		}
		if !gv.IsValid() {
			gv = reflect.Zero(s.orig.Type().Elem())
		}
		s.orig.SetMapIndex(s.goKey(op.Key), gv)
		s.shadowSet(op.Key, *op.G)
		return s.compare(op, "Go-side write")
	case "godel":
		if s.shadow.Nil {
			return true
		}
		s.orig.SetMapIndex(s.goKey(op.Key), reflect.Value{})
		s.shadowDel(op.Key)
		return s.compare(op, "Go-side delete")
	}
	return true
}

// ------------------------------------------------------------ structs

var s1Type = reflect.TypeOf(rb.S1{})

func (s *hstate) fieldGV(idx []int) *rb.GV {
	g := &s.shadow
	for _, i := range idx {
		g = &g.E[i]
	}
	return g
}

func (s *hstate) structOp(op Op) bool {
	k := s.k
	idx, ft, _ := structField(s1Type, op.Key)
	ref := "c[" + rb.JSStr(op.Key) + "]"
	switch op.K {
	case "jsset":
		a, ok := s.observe(op, ref+" = "+op.V.Src())
		if !ok {
			return false
		}
		if idx == nil {
			// unknown name, unexported field or json:"-": Go fields must not change
			if !a.loud() {
				s.expando[op.Key] = true
			}
			return s.compare(op, "write to "+op.Key)
		}
		e := denote(typeExpr(ft), *op.V, k.numberIn)
		class := "mismatch"
		switch {
		case a.loud():
			if e.m == mustOK && s.writable {
				k.fail("mismatch", s.site(op), "the value denotes a "+typeExpr(ft)+": the write succeeds", "spurious "+a.thrown+" [step "+strconv.Itoa(s.step)+": "+s.opText+"]", "")
				return false
			}
		case !s.writable:
			// struct passed by value: ignored
		case e.m == mustFail:
			class = "silent (" + e.why + ")"
			if lv, ok := s.live(); ok {
				class = zfMark(e, lv.FieldByIndex(idx)) + class
			}
		default:
			lv, _ := s.live()
			g, msg := s.stored(e, *op.V, lv.FieldByIndex(idx))
			if msg != "" {
				k.fail("mismatch", s.site(op), "exact or loud", zfMark(e, lv.FieldByIndex(idx))+"wrong: "+msg+" [step "+strconv.Itoa(s.step)+": "+s.opText+"]", "")
				return false
			}
			*s.fieldGV(idx) = g
		}
		return s.compare(op, class)
	case "jsget":
		if idx == nil {
			if op.Key == "c" && !s.expando["c"] {
				a, ok := s.observe(op, ref+" === undefined")
				if !ok {
					return false
				}
				if a.result != "b:true" {
					k.fail("mismatch", s.site(op), "unexported field hidden", a.result, s.opText)
					return false
				}
			}
			return true
		}
		want := "__eq(" + ref + ", " + rb.JSLit(*s.fieldGV(idx), true) + ")"
		a, ok := s.observe(op, want)
		if !ok {
			return false
		}
		if a.thrown != "" || a.result != "b:true" {
			d := k.try("__desc(" + ref + ")")
			k.fail("mismatch", s.site(op), want, d.result+" thrown="+a.thrown, s.opText)
			return false
		}
		return true
	case "jsdel":
		if _, ok := s.observe(op, "delete "+ref); !ok {
			return false
		}
		delete(s.expando, op.Key)
		return s.compare(op, "delete")
	case "jsin":
		a, ok := s.observe(op, rb.JSStr(op.Key)+" in c")
		if !ok {
			return false
		}
		if idx != nil && a.result != "b:true" {
			k.fail("mismatch", s.site(op), "field visible", a.result, s.opText)
			return false
		}
		return true
	case "jskeys":
		a, ok := s.observe(op, "Object.keys(c).join(',')")
		if !ok {
			return false
		}
		txt, _ := unStr(a.result)
		seen := map[string]int{}
		for _, key := range strings.Split(txt, ",") {
			seen[key]++
		}
		for key, n := range seen {
			if n > 1 {
				k.fail("mismatch", s.site(op), "each key listed once", fmt.Sprintf("%q listed %d times: %s", key, n, txt), s.opText)
				return false
			}
		}
		for _, f := range []string{"A", "B", "Inner", "P", "F", "U8", "U64", "L", "M", "X", "N"} {
			if seen[f] == 0 {
				k.fail("mismatch", s.site(op), "field "+f+" enumerated", txt, s.opText)
				return false
			}
		}
		return true
	case "jscall":
		aGV := s.fieldGV([]int{0})
		av := aGV.Int()
		switch op.Key {
		case "Get":
			a, ok := s.observe(op, "__eq(c.Get(), "+rb.JSLit(*aGV, true)+")")
			if !ok {
				return false
			}
			if a.result != "b:true" {
				k.fail("mismatch", s.site(op), "Get() returns field A", a.result+" thrown="+a.thrown, s.opText)
				return false
			}
		case "Inc":
			a, ok := s.observe(op, "c.Inc()")
			if !ok {
				return false
			}
			if s.h.Pass != "ptr" {
				if a.thrown != "TypeError" {
					k.fail("mismatch", s.site(op), "pointer-receiver method absent on a struct value (TypeError)", a.result+" thrown="+a.thrown, s.opText)
					return false
				}
				return true
			}
			if a.thrown == "" {
				*aGV = rb.GInt64("int", av.Int64()+1)
			}
			return s.compare(op, "method Inc")
		case "Add":
			e := denote("int8", *op.V, k.numberIn)
			a, ok := s.observe(op, "c.Add("+op.V.Src()+")")
			if !ok {
				return false
			}
			switch {
			case a.loud():
				if e.m == mustOK {
					k.fail("mismatch", s.site(op), "argument denotes an int8", "spurious "+a.thrown, s.opText)
					return false
				}
			case e.m == mustFail:
				k.fail("mismatch", s.site(op), "exact or loud", "silent: "+e.why+", method returned "+a.result+" [step "+strconv.Itoa(s.step)+": "+s.opText+"]", "")
				return false
			case e.kind == "scalar":
				want := rb.GInt64("int", av.Int64()+e.want.Int().Int64())
				b := k.try("__eq(c.Add(" + op.V.Src() + "), " + rb.JSLit(want, true) + ")")
				if b.result != "b:true" {
					k.fail("mismatch", s.site(op), "A + d", a.result, s.opText)
					return false
				}
			}
		}
		return true
	case "goset":
		if s.h.Pass != "ptr" {
			return true
		}
		gv, err := rb.Build(*op.G)
		if err != nil || !gv.IsValid() {
			return true
		}
		s.orig.Field(0).Set(gv)
		*s.fieldGV([]int{0}) = *op.G
		return s.compare(op, "Go-side write")
	}
	return true
}
