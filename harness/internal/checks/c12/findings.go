package c12

import (
	"fmt"
	"math"
	"os"
	"strings"

	"verif/internal/gen"
	"verif/internal/ox"
	"verif/internal/refdate"
	"verif/internal/run"
)

// Matchers for known_findings/C12.jsonl. Each is a deviation model (what the
// known defect yields for this very input) unless stated to be a region.

func registerMatchers() {
	run.RegisterMatcher("c12.timeclip", func(f *run.Failure) bool {
		r := matchTimeClip(f)
		if r && os.Getenv("C12_DEBUG") != "" {
			df, _ := os.OpenFile(os.Getenv("C12_DEBUG"), os.O_APPEND|os.O_CREATE|os.O_WRONLY, 0o644)
			defer df.Close()
			fmt.Fprintf(df, "DBG timeclip site=%s exp=%s act=%s in=%s\n", f.Site, f.Expected, f.Actual, f.Input)
		}
		return r
	})
	run.RegisterMatcher("c12.stickyNaN", matchStickyNaN)
	run.RegisterMatcher("c12.isoInvalidNoThrow", matchISOInvalidNoThrow)
	run.RegisterMatcher("c12.isoYearFormat", matchISOYearFormat)
	run.RegisterMatcher("c12.parseExpandedYear", matchParseExpandedYear)
	run.RegisterMatcher("c12.hour24", matchHour24)
	run.RegisterMatcher("c12.offsetMinute60", matchOffsetMinute60)
	run.RegisterMatcher("c12.fullYearOnInvalid", matchFullYearOnInvalid)
	run.RegisterMatcher("c12.twoDigitYearFraction", matchTwoDigitYearFraction)
	run.RegisterMatcher("c12.coercionShortcut", matchCoercionShortcut)
	run.RegisterMatcher("c12.hugeField", matchHugeField)
}

func input(f *run.Failure) (Input, bool) {
	switch v := f.In.(type) {
	case Input:
		return v, true
	case *Input:
		return *v, true
	}
	return Input{}, false
}

func stepOf(f *run.Failure) int {
	var k int
	d := f.Detail
	if i := strings.Index(d, "step="); i >= 0 {
		if _, err := fmt.Sscanf(d[i:], "step=%d", &k); err == nil {
			return k
		}
	}
	return -1
}

func finite(x float64) bool { return x == x && !math.IsInf(x, 0) }

const maxTime = 8.64e15

// exactLimit: beyond this otto's own float64 division in epochToTime starts to
// round (value/1000 loses the .999), so its internal time.Time is no longer a
// simple function of the number; the time-clip matcher is a region there.
const exactLimit = 1e17

func outOfRange(x float64) bool { return finite(x) && math.Abs(x) > maxTime }

// unclippedInt is ToInteger(x)+0 for finite |x| < 2^63.
func unclippedInt(x float64) float64 { return refdate.ToInteger(x) + 0 }

// exactDate is day*msPerDay+time in exact integer arithmetic, rounded once
// (what an implementation computing in int64 milliseconds yields).
func exactDate(day, time float64) (float64, bool) {
	if !finite(day) || !finite(time) || math.Abs(day) > 1e11 || math.Abs(time) > 4e18 {
		return 0, false
	}
	return float64(int64(day)*86400000 + int64(time)), true
}

// specState replays the ES5 model up to (not including) step k.
func specState(in Input, k int) float64 {
	cur := refdate.TimeClip(float64(in.T))
	for j := 0; j < k && j < len(in.Steps); j++ {
		cur = setOracle(cur, in.Steps[j])
	}
	return cur
}

// everInvalid reports whether the date has been invalid at some point before
// step k (initial value or the result of an earlier step is NaN in the ES5
// model). The isNaN flag of otto's dateObject is set in exactly those
// situations (non-finite initial value, setter without or with a non-finite
// argument; with the time-clip fix also an out-of-range result) and is never
// cleared again (KF-C12-setTime-on-invalid).
func everInvalid(in Input, k int) bool {
	cur := refdate.TimeClip(float64(in.T))
	if cur != cur {
		return true
	}
	for j := 0; j < k && j < len(in.Steps); j++ {
		cur = setOracle(cur, in.Steps[j])
		if cur != cur {
			return true
		}
	}
	return false
}

// looksValid: the observed output is that of a valid date (no NaN, no
// "Invalid Date", no null, no exception).
func looksValid(actual string) bool {
	return !strings.Contains(actual, "NaN") && !strings.Contains(actual, "Invalid Date") && actual != "null" && !strings.Contains(actual, "throw:") && !strings.Contains(actual, "I")
}

func pair(x float64) string { return "n:" + ox.Num(x) + ",n:" + ox.Num(x) }

func goISO(t float64) string {
	y := refdate.YearFromTime(t)
	ys := fmt.Sprintf("%04d", int64(y)) // Go's "2006": sign, then at least four digits
	if y < 0 {
		ys = fmt.Sprintf("-%04d", int64(-y))
	}
	return fmt.Sprintf("%s-%02d-%02dT%02d:%02d:%02d.%03dZ", ys, int(refdate.MonthFromTime(t))+1, int(refdate.DateFromTime(t)),
		int(refdate.HourFromTime(t)), int(refdate.MinFromTime(t)), int(refdate.SecFromTime(t)), int(refdate.MsFromTime(t)))
}

// KF-C12-timeclip: TimeClip (15.9.1.14) is never applied. Deviation model:
// the operation yields the value it hands to TimeClip.
func matchTimeClip(f *run.Failure) bool {
	in, ok := input(f)
	if !ok || f.Kind != "mismatch" {
		return false
	}
	switch in.Op {
	case "acc":
		T := float64(in.T)
		if !outOfRange(T) {
			return false
		}
		if math.Abs(T) > exactLimit {
			// region (finite |t| > 1e17): the date is treated as a valid one
			return looksValid(f.Actual)
		}
		t := unclippedInt(T)
		for _, a := range accessors {
			if a.name == f.Site {
				return f.Actual == "n:"+ox.Num(a.f(t)+0)
			}
		}
		switch f.Site {
		case "toISOString", "toJSON":
			// Go's year layout, or the expanded form once KF-C12-iso-year-format is fixed
			return f.Actual == "s:"+ox.Str(goISO(t)) || f.Actual == "s:"+ox.Str(refdate.ISO(t))
		case "formatters":
			return f.Actual == "s:"+ox.Str(strings.Repeat("S", len(formatters)))
		}
	case "prim":
		T := float64(in.T)
		if !outOfRange(T) || (in.S != "num-obj" && in.S != "numstr-obj") {
			return false
		}
		if math.Abs(T) >= 9.2e18 {
			return true // region: int64 conversion overflow is platform-defined
		}
		return f.Actual == "n:"+ox.Num(unclippedInt(T))
	case "utc", "ctor":
		if strings.HasSuffix(f.Site, ":coercion") || hasHuge(in.Args) {
			return false
		}
		raw, ok := exactDate(utcParts(floats(in.Args)))
		return ok && math.Abs(raw) > maxTime && f.Actual == "n:"+ox.Num(raw)
	case "set":
		k := stepOf(f)
		if k < 0 || k >= len(in.Steps) || strings.HasSuffix(f.Site, ":coercion") {
			return false
		}
		st := in.Steps[k]
		if st.Method != "setTime" && hasHuge(st.Args) {
			return false
		}
		cur := specState(in, k)
		if k == 0 && outOfRange(float64(in.T)) {
			// the unclipped initial value is what the object really holds
			if math.Abs(float64(in.T)) > exactLimit {
				return looksValid(f.Actual) // region
			}
			cur = unclippedInt(float64(in.T))
		}
		if st.Method == "setTime" {
			if len(st.Args) == 0 || !outOfRange(float64(st.Args[0])) {
				return false
			}
			a := float64(st.Args[0])
			if math.Abs(a) >= 9.2e18 {
				return true // region: int64 conversion overflow
			}
			return f.Actual == pair(unclippedInt(a))
		}
		if cur != cur && !usesZeroForNaN(st.Method) {
			return false
		}
		raw, ok := exactDate(setParts(cur, st))
		if !ok {
			return false
		}
		if math.Abs(raw) <= maxTime && !(k == 0 && outOfRange(float64(in.T))) {
			return false
		}
		return f.Actual == pair(raw)
	}
	return false
}

// KF-C12-setTime-on-invalid: dateObject.Set never clears isNaN, so setTime on
// an invalid date returns the new value but the object stays invalid.
func matchStickyNaN(f *run.Failure) bool {
	in, ok := input(f)
	if !ok || in.Op != "set" || f.Site != "setTime" {
		return false
	}
	k := stepOf(f)
	if k < 0 || k >= len(in.Steps) || len(in.Steps[k].Args) == 0 || !everInvalid(in, k) {
		return false
	}
	a := float64(in.Steps[k].Args[0])
	if !finite(a) || math.Abs(a) >= 9.2e18 {
		return false
	}
	return f.Actual == "n:"+ox.Num(unclippedInt(a))+",n:NaN"
}

// KF-C12-toISOString-invalid: "Invalid Date" instead of a RangeError.
func matchISOInvalidNoThrow(f *run.Failure) bool {
	in, ok := input(f)
	if !ok || in.Op != "acc" || f.Site != "toISOString" {
		return false
	}
	t := refdate.TimeClip(float64(in.T))
	return t != t && f.Actual == `s:"Invalid Date"`
}

// KF-C12-iso-year-format: years outside 0..9999 are printed with Go's "2006"
// verb instead of the six-digit expanded form.
func matchISOYearFormat(f *run.Failure) bool {
	in, ok := input(f)
	if !ok || in.Op != "acc" || (f.Site != "toISOString" && f.Site != "toJSON") {
		return false
	}
	t := refdate.TimeClip(float64(in.T))
	if t != t {
		return false
	}
	if y := refdate.YearFromTime(t); y >= 0 && y <= 9999 {
		return false
	}
	return f.Actual == "s:"+ox.Str(goISO(t))
}

func isoTextOf(f *run.Failure, in Input) string {
	switch in.Op {
	case "iso":
		return in.S
	case "acc":
		if f.Site == "Date.parse(iso)" || f.Site == "new Date(iso)" {
			if t := refdate.TimeClip(float64(in.T)); t == t {
				return refdate.ISO(t)
			}
		}
	case "prim":
		if in.S == "str-obj" || in.S == "valueof-str" || in.S == "tostring-only" {
			if t := refdate.TimeClip(float64(in.T)); t == t {
				return refdate.ISO(t)
			}
		}
	}
	return ""
}

// KF-C12-parse-expanded-year: Date.parse gives NaN for every legal string
// with a +-YYYYYY year.
func matchParseExpandedYear(f *run.Failure) bool {
	in, ok := input(f)
	if !ok {
		return false
	}
	s := isoTextOf(f, in)
	if s == "" || (s[0] != '+' && s[0] != '-') {
		return false
	}
	return f.Actual == "n:NaN" && f.Expected != "n:NaN"
}

// KF-C12-parse-hour-24: the legal end-of-day form T24:00[:00[.000]] gives NaN.
func matchHour24(f *run.Failure) bool {
	in, ok := input(f)
	if !ok || in.Op != "iso" || !strings.Contains(in.S, "T24:00") {
		return false
	}
	return f.Actual == "n:NaN" && f.Expected != "n:NaN"
}

// KF-C12-fullyear-on-invalid: set[UTC]FullYear / setYear on an invalid date
// must start from t = +0 (15.9.5.40/41, B.2.5); otto returns NaN.
func matchFullYearOnInvalid(f *run.Failure) bool {
	in, ok := input(f)
	if !ok || in.Op != "set" || !usesZeroForNaN(f.Site) {
		return false
	}
	k := stepOf(f)
	if k < 0 || k >= len(in.Steps) || !everInvalid(in, k) {
		return false
	}
	return f.Actual == "n:NaN,n:NaN" && f.Expected != f.Actual
}

// KF-C12-two-digit-year-fraction: the 0..99 window is tested on the
// unconverted number instead of ToInteger(year) (15.9.3.1 step 8, 15.9.4.3).
func matchTwoDigitYearFraction(f *run.Failure) bool {
	in, ok := input(f)
	if !ok || (in.Op != "utc" && in.Op != "ctor") || strings.HasSuffix(f.Site, ":coercion") || len(in.Args) < 2 || hasHuge(in.Args) {
		return false
	}
	y := float64(in.Args[0])
	if !finite(y) {
		return false
	}
	iy := refdate.ToInteger(y)
	if !(iy >= 0 && iy <= 99) || (y >= 0 && y <= 99) {
		return false
	}
	a := floats(in.Args)
	_, time := utcParts(a) // the time part does not depend on the year
	get := func(i int, def float64) float64 {
		if i < len(a) {
			return a[i]
		}
		return def
	}
	day := refdate.MakeDay(iy, get(1, math.NaN()), get(2, 1)) // no +1900
	raw, ok := exactDate(day, time)
	return ok && f.Actual == "n:"+ox.Num(raw)
}

func firstNonFinite(a []gen.F, n int) int {
	for i := 0; i < n && i < len(a); i++ {
		if !finite(float64(a[i])) {
			return i
		}
	}
	return -1
}

// KF-C12-coercion-shortcut: argument conversion stops at the first non-finite
// value (and does not happen at all in a setter on an invalid date).
func matchCoercionShortcut(f *run.Failure) bool {
	in, ok := input(f)
	if !ok || in.Wrap != "obj" || !strings.HasSuffix(f.Site, ":coercion") {
		return false
	}
	switch in.Op {
	case "utc", "ctor":
		j := firstNonFinite(in.Args, 7)
		return j >= 0 && j < len(in.Args)-1 && f.Actual == seq(j+1)
	case "set":
		k := stepOf(f)
		if k < 0 || k >= len(in.Steps) {
			return false
		}
		st := in.Steps[k]
		s := setterByName(st.Method)
		if s == nil || st.Method == "setTime" {
			return false
		}
		n := len(st.Args)
		if n > s.max {
			n = s.max
		}
		if everInvalid(in, k) && n > 0 && f.Actual == seq(0) {
			return true
		}
		j := firstNonFinite(st.Args, n)
		return j >= 0 && j < n-1 && f.Actual == seq(j+1)
	}
	return false
}

// KF-C12-huge-field (region): a field beyond +-2e8 overflows Go int /
// time.Time arithmetic; the result is then unrelated to the field values.
func matchHugeField(f *run.Failure) bool {
	in, ok := input(f)
	if !ok || strings.HasSuffix(f.Site, ":coercion") {
		return false
	}
	switch in.Op {
	case "utc", "ctor":
		return hasHuge(in.Args)
	case "set":
		k := stepOf(f)
		return k >= 0 && k < len(in.Steps) && in.Steps[k].Method != "setTime" && hasHuge(in.Steps[k].Args)
	}
	return false
}

// KF-C12-parse-offset-minute-60: a time zone offset of the form +-HH:60 is
// accepted (Go's parser allows 60 on purpose) and read as HH hours 60 minutes.
func matchOffsetMinute60(f *run.Failure) bool {
	in, ok := input(f)
	if !ok || in.Op != "iso" || len(in.S) < 7 || !strings.HasSuffix(in.S, ":60") {
		return false
	}
	off := in.S[len(in.S)-6:]
	if off[0] != '+' && off[0] != '-' {
		return false
	}
	hh := int(off[1]-'0')*10 + int(off[2]-'0')
	if hh > 24 {
		return false
	}
	base, rec := refdate.ParseISO(in.S[:len(in.S)-6] + "Z")
	if !rec || base != base {
		return false
	}
	delta := float64(hh*60+60) * refdate.MsPerMinute
	if off[0] == '+' {
		delta = -delta
	}
	return f.Expected == "n:NaN" && f.Actual == "n:"+ox.Num(base+delta)
}
