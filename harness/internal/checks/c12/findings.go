package c12

func registerMatchers() {}
