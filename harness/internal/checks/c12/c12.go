// Package c12 monitors Date against the ES5 15.9.1 time-value algebra.
package c12

import (
	"encoding/json"
	"fmt"
	"math"
	"strings"

	"github.com/robertkrimen/otto"

	"verif/internal/gen"
	"verif/internal/ox"
	"verif/internal/refdate"
	"verif/internal/run"
)

// Step is one setter call.
type Step struct {
	Method string  `json:"m"`
	Args   []gen.F `json:"a"`
}

// Input is one self-contained case.
type Input struct {
	Op    string  `json:"op"` // acc | utc | ctor | set
	T     gen.F   `json:"t"`
	Args  []gen.F `json:"args,omitempty"`
	Steps []Step  `json:"steps,omitempty"`
}

func init() {
	run.Register(&run.Check{
		ID:   "C12",
		Rule: "cases are (operation, time value / field tuple / setter history) drawn from boundary-directed generators (era, year, month, leap-day boundaries +-1ms, range limits, fractional and non-finite values, field overflow); a case is non-trivial when the oracle result is a finite time value (or the case is an invalid-date propagation case) and it is distinct by (operation, era class, boundary kind, exact input)",
		Assumptions: []string{
			"TZ=UTC for the multi-argument constructor; local-time accessors and Date.parse of non-ISO text are out of scope",
			"oracle: internal/refdate (ES5.1 15.9.1 formulas in exact float64 integer arithmetic, no package time)",
			"Date.UTC with fewer than two arguments is implementation-dependent (15.9.4.3) and is not generated",
		},
		Floor: func(tier string) int {
			if tier == "thorough" {
				return 200000
			}
			return 5000
		},
		Cases: func(tier string, seed uint64) int {
			if tier == "thorough" {
				return 3000000
			}
			return 60000
		},
		Exec:   func(c *run.Ctx, i int) { checkOne(c, generate(c.Rng, i)) },
		Replay: func(c *run.Ctx, raw json.RawMessage) { var in Input; mustUnmarshal(raw, &in); checkOne(c, in) },
	})
	registerMatchers()
}

func mustUnmarshal(raw json.RawMessage, v interface{}) {
	if err := json.Unmarshal(raw, v); err != nil {
		panic(err)
	}
}

// ------------------------------------------------------------ generators

var interestingYears = []float64{-271821, -271820, -200000, -100000, -10000, -9999, -2000, -401, -400, -101, -100, -5, -4, -1, 0, 1, 4, 99, 100, 400, 999, 1000,
	1582, 1600, 1601, 1699, 1700, 1800, 1899, 1900, 1901, 1904, 1968, 1969, 1970, 1971, 1972, 1999, 2000, 2001, 2004, 2037, 2038, 2100, 2400, 9999, 10000, 100000, 200000, 275759, 275760}

func genTime(r *gen.Rand) (float64, string) {
	switch r.Intn(12) {
	case 0: // uniform in range
		return math.Trunc((r.Float64()*2 - 1) * 8.64e15), "uniform"
	case 1: // near epoch
		return float64(r.Range(-200000000, 200000000))*1000 + float64(r.Range(-1000, 1000)), "near-epoch"
	case 2, 3: // +-1ms around a year boundary
		y := interestingYears[r.Intn(len(interestingYears))]
		if r.Chance(1, 3) {
			y = float64(r.Range(-271821, 275760))
		}
		t := refdate.TimeFromYear(y) + float64(r.Range(-2, 2))
		return t, "year-boundary"
	case 4, 5: // month boundaries and leap days
		y := interestingYears[r.Intn(len(interestingYears))]
		if r.Chance(1, 2) {
			y = float64(r.Range(1890, 2110))
		}
		m := float64(r.Intn(12))
		d := 1.0
		if r.Chance(1, 3) {
			m, d = 1, float64(r.Range(28, 30)) // Feb 28..Mar 1/2
		}
		t := refdate.MakeDate(refdate.MakeDay(y, m, d), float64(r.Range(-2, 2)))
		return t, "month-boundary"
	case 6: // range limits
		lim := []float64{8.64e15, -8.64e15, 8.64e15 + 1, -8.64e15 - 1, 8.64e15 - 1, -8.64e15 + 1, 8.64e15 + 2, 9e15, -9e15, 1e16, 1e17, -1e17, 1e21, 1e300}
		return lim[r.Intn(len(lim))], "range-limit"
	case 7: // non-finite and zeros
		sp := []float64{math.NaN(), math.Inf(1), math.Inf(-1), 0, math.Copysign(0, -1)}
		return sp[r.Intn(len(sp))], "special"
	case 8: // fractional
		base := float64(r.Range(-100000, 100000))
		fr := []float64{0.1, 0.5, 0.9, 0.999}
		t := base + fr[r.Intn(len(fr))]
		if r.Bool() {
			t = -t
		}
		return t, "fractional"
	case 9: // negative small (ms handling of negative epochs)
		return -float64(r.Range(1, 100000)), "negative-small"
	case 10: // day boundaries
		return float64(r.Range(-100000000, 100000000))*refdate.MsPerDay + float64(r.Range(-1, 1)), "day-boundary"
	}
	// hour/minute/second boundaries
	u := []float64{refdate.MsPerHour, refdate.MsPerMinute, refdate.MsPerSecond}[r.Intn(3)]
	return float64(r.Range(-2000000000, 2000000000))*u + float64(r.Range(-1, 1)), "unit-boundary"
}

func genField(r *gen.Rand, pos int) float64 {
	switch r.Intn(14) {
	case 0:
		return math.NaN()
	case 1:
		if r.Bool() {
			return math.Inf(1)
		}
		return math.Inf(-1)
	case 2:
		return float64(r.Range(-1000000, 1000000))
	case 3:
		return float64(r.Range(-1000, 1000)) + []float64{0.5, 0.9, -0.5, 0.1}[r.Intn(4)]
	case 4:
		return math.Copysign(0, -1)
	case 5:
		return float64(r.Range(-40, 40))
	}
	switch pos {
	case 0: // year
		switch r.Intn(4) {
		case 0:
			return float64(r.Range(-2, 101)) // two-digit window edges
		case 1:
			return interestingYears[r.Intn(len(interestingYears))]
		}
		return float64(r.Range(1890, 2110))
	case 1:
		return float64(r.Range(-14, 25))
	case 2:
		return float64(r.Range(-3, 33))
	case 3:
		return float64(r.Range(-2, 26))
	case 4, 5:
		return float64(r.Range(-2, 62))
	}
	return float64(r.Range(-2, 1002))
}

var setters = []struct {
	name string
	max  int
}{
	{"setUTCMilliseconds", 1}, {"setUTCSeconds", 2}, {"setUTCMinutes", 3}, {"setUTCHours", 4},
	{"setUTCDate", 1}, {"setUTCMonth", 2}, {"setUTCFullYear", 3}, {"setTime", 1},
}

func setterFieldPos(name string, i int) int {
	switch name {
	case "setUTCMilliseconds":
		return 6
	case "setUTCSeconds":
		return 5 + i
	case "setUTCMinutes":
		return 4 + i
	case "setUTCHours":
		return 3 + i
	case "setUTCDate":
		return 2
	case "setUTCMonth":
		return 1 + i
	case "setUTCFullYear":
		return i
	}
	return 0
}

func generate(r *gen.Rand, i int) Input {
	switch r.Intn(10) {
	case 0, 1, 2, 3:
		t, _ := genTime(r)
		return Input{Op: "acc", T: gen.F(t)}
	case 4, 5, 6:
		n := r.Range(2, 7)
		args := make([]gen.F, n)
		for k := range args {
			args[k] = gen.F(genField(r, k))
		}
		op := "utc"
		if r.Chance(1, 3) {
			op = "ctor"
		}
		return Input{Op: op, Args: args}
	}
	t, _ := genTime(r)
	if r.Chance(1, 6) {
		t = math.NaN()
	}
	n := r.Range(1, 4)
	steps := make([]Step, n)
	for k := range steps {
		s := setters[r.Intn(len(setters))]
		na := r.Range(0, s.max)
		if r.Chance(3, 4) && na == 0 {
			na = 1
		}
		st := Step{Method: s.name}
		for a := 0; a < na; a++ {
			if s.name == "setTime" {
				tv, _ := genTime(r)
				st.Args = append(st.Args, gen.F(tv))
			} else {
				st.Args = append(st.Args, gen.F(genField(r, setterFieldPos(s.name, a))))
			}
		}
		steps[k] = st
	}
	return Input{Op: "set", T: gen.F(t), Steps: steps}
}

// ------------------------------------------------------------ oracle

func utcOracle(a []float64) float64 {
	get := func(i int, def float64) float64 {
		if i < len(a) {
			return a[i]
		}
		return def
	}
	y, m := get(0, math.NaN()), get(1, math.NaN())
	dt, h, mi, s, ms := get(2, 1), get(3, 0), get(4, 0), get(5, 0), get(6, 0)
	yr := y
	if y == y {
		if iy := refdate.ToInteger(y); iy >= 0 && iy <= 99 {
			yr = 1900 + iy
		}
	}
	return refdate.TimeClip(refdate.MakeDate(refdate.MakeDay(yr, m, dt), refdate.MakeTime(h, mi, s, ms)))
}

func setOracle(t float64, st Step) float64 {
	arg := func(i int, def float64) float64 {
		if i < len(st.Args) {
			return float64(st.Args[i])
		}
		return def
	}
	nan := math.NaN()
	switch st.Method {
	case "setTime":
		return refdate.TimeClip(arg(0, nan))
	case "setUTCMilliseconds":
		time := refdate.MakeTime(refdate.HourFromTime(t), refdate.MinFromTime(t), refdate.SecFromTime(t), arg(0, nan))
		return refdate.TimeClip(refdate.MakeDate(refdate.Day(t), time))
	case "setUTCSeconds":
		ms := arg(1, refdate.MsFromTime(t))
		return refdate.TimeClip(refdate.MakeDate(refdate.Day(t), refdate.MakeTime(refdate.HourFromTime(t), refdate.MinFromTime(t), arg(0, nan), ms)))
	case "setUTCMinutes":
		s := arg(1, refdate.SecFromTime(t))
		ms := arg(2, refdate.MsFromTime(t))
		return refdate.TimeClip(refdate.MakeDate(refdate.Day(t), refdate.MakeTime(refdate.HourFromTime(t), arg(0, nan), s, ms)))
	case "setUTCHours":
		m := arg(1, refdate.MinFromTime(t))
		s := arg(2, refdate.SecFromTime(t))
		ms := arg(3, refdate.MsFromTime(t))
		return refdate.TimeClip(refdate.MakeDate(refdate.Day(t), refdate.MakeTime(arg(0, nan), m, s, ms)))
	case "setUTCDate":
		nd := refdate.MakeDate(refdate.MakeDay(refdate.YearFromTime(t), refdate.MonthFromTime(t), arg(0, nan)), refdate.TimeWithinDay(t))
		return refdate.TimeClip(nd)
	case "setUTCMonth":
		dt := arg(1, refdate.DateFromTime(t))
		nd := refdate.MakeDate(refdate.MakeDay(refdate.YearFromTime(t), arg(0, nan), dt), refdate.TimeWithinDay(t))
		return refdate.TimeClip(nd)
	case "setUTCFullYear":
		if t != t {
			t = 0
		}
		m := arg(1, refdate.MonthFromTime(t))
		dt := arg(2, refdate.DateFromTime(t))
		nd := refdate.MakeDate(refdate.MakeDay(arg(0, nan), m, dt), refdate.TimeWithinDay(t))
		return refdate.TimeClip(nd)
	}
	panic("unknown setter " + st.Method)
}

// NaN time values make every Day/..FromTime NaN; the formulas above then give
// NaN through MakeTime/MakeDay's finiteness test because NaN propagates.

// ------------------------------------------------------------ driving otto

var vm *otto.Otto
var logger *ox.Logger

func theVM() *otto.Otto {
	if vm == nil {
		vm = otto.New()
		logger = &ox.Logger{}
		logger.Install(vm, "log")
	}
	return vm
}

func eraClass(t float64) string {
	if t != t {
		return "invalid"
	}
	y := refdate.YearFromTime(t)
	switch {
	case y < 0:
		return "<0"
	case y < 1970:
		return "0-1969"
	case y <= 9999:
		return "1970-9999"
	}
	return ">9999"
}

var accessors = []struct {
	name string
	f    func(float64) float64
}{
	{"getTime", func(t float64) float64 { return t }},
	{"valueOf", func(t float64) float64 { return t }},
	{"getUTCFullYear", refdate.YearFromTime},
	{"getUTCMonth", refdate.MonthFromTime},
	{"getUTCDate", refdate.DateFromTime},
	{"getUTCDay", refdate.WeekDay},
	{"getUTCHours", refdate.HourFromTime},
	{"getUTCMinutes", refdate.MinFromTime},
	{"getUTCSeconds", refdate.SecFromTime},
	{"getUTCMilliseconds", refdate.MsFromTime},
}

func setArgs(v *otto.Otto, prefix string, a []gen.F) string {
	names := make([]string, len(a))
	for i, x := range a {
		names[i] = fmt.Sprintf("%s%d", prefix, i)
		v.Set(names[i], float64(x))
	}
	return strings.Join(names, ",")
}

func checkOne(c *run.Ctx, in Input) {
	v := theVM()
	logger.Events = nil
	c.Announce(in)
	fail := func(site, exp, act string) {
		c.Fail("mismatch", site, in, exp, act, "")
	}
	runJS := func(src string) (ox.Outcome, bool) {
		out := ox.Run(v, src)
		if out.Panic != nil {
			c.Fail("panic", "Date:"+in.Op, in, "no Go panic", fmt.Sprint(out.Panic), out.Stack)
			vm = nil
			return out, false
		}
		return out, true
	}
	switch in.Op {
	case "acc":
		t := refdate.TimeClip(float64(in.T))
		v.Set("t", float64(in.T))
		var calls []string
		for _, a := range accessors {
			calls = append(calls, "d."+a.name+"()")
		}
		src := "var d=new Date(t); log(" + strings.Join(calls, ",") + ");" +
			"var iso; try{iso=d.toISOString()}catch(e){iso='throw:'+e.name}; var j=d.toJSON(); log(iso, j, typeof iso==='string'&&iso.slice(0,6)!=='throw:'?Date.parse(iso):-1);"
		out, ok := runJS(src)
		if !ok {
			return
		}
		if out.Err != nil || len(logger.Events) != 2 {
			fail("Date:acc", "script completes", fmt.Sprint(out.Err))
			return
		}
		got := strings.Split(logger.Events[0], ",")
		c.Eval(len(accessors) + 3)
		for k, a := range accessors {
			exp := math.NaN()
			if t == t {
				exp = a.f(t) + 0
			}
			if e := "n:" + ox.Num(exp); got[k] != e {
				fail(a.name, e, got[k])
			}
		}
		g2 := strings.Split(logger.Events[1], ",")
		if t != t {
			if g2[0] != `s:"throw:RangeError"` {
				fail("toISOString", `RangeError (15.9.5.43)`, g2[0])
			}
			if g2[1] != "null" {
				fail("toJSON", "null", g2[1])
			}
		} else {
			iso := refdate.ISO(t)
			if e := "s:" + ox.Str(iso); g2[0] != e {
				fail("toISOString", e, g2[0])
			} else if e := "n:" + ox.Num(t); g2[2] != e {
				fail("Date.parse(toISOString)", e, g2[2])
			}
			if e := "s:" + ox.Str(iso); g2[1] != e {
				fail("toJSON", e, g2[1])
			}
		}
		c.Sample(in)
		c.Feature("op:acc")
		c.Feature("era:" + eraClass(t))
		c.Nontrivial(fmt.Sprintf("acc|%s|%v", eraClass(t), float64(in.T)))
	case "utc", "ctor":
		a := make([]float64, len(in.Args))
		for i, x := range in.Args {
			a[i] = float64(x)
		}
		exp := utcOracle(a)
		names := setArgs(v, "a", in.Args)
		src := "log(Date.UTC(" + names + "))"
		site := "Date.UTC"
		if in.Op == "ctor" {
			src = "log(new Date(" + names + ").getTime())"
			site = "new Date(fields)"
		}
		out, ok := runJS(src)
		if !ok {
			return
		}
		c.Eval(1)
		if out.Err != nil || len(logger.Events) != 1 {
			fail(site, "n:"+ox.Num(exp), "throw:"+fmt.Sprint(out.Err))
			return
		}
		if e := "n:" + ox.Num(exp); logger.Events[0] != e {
			fail(site, e, logger.Events[0])
		}
		c.Sample(in)
		c.Feature("op:" + in.Op)
		c.Feature(fmt.Sprintf("nargs:%d", len(a)))
		c.Feature("era:" + eraClass(exp))
		if exp == exp {
			c.Nontrivial(fmt.Sprintf("%s|%s|%v", in.Op, eraClass(exp), a))
		}
	case "set":
		t := refdate.TimeClip(float64(in.T))
		v.Set("t", float64(in.T))
		var b strings.Builder
		b.WriteString("var d=new Date(t);")
		for k, st := range in.Steps {
			names := setArgs(v, fmt.Sprintf("s%d_", k), st.Args)
			fmt.Fprintf(&b, "var r=d.%s(%s); log(r, d.getTime());", st.Method, names)
		}
		out, ok := runJS(b.String())
		if !ok {
			return
		}
		if out.Err != nil || len(logger.Events) != len(in.Steps) {
			fail("Date:set", "script completes", fmt.Sprint(out.Err))
			return
		}
		cur := t
		finite := 0
		for k, st := range in.Steps {
			cur = setOracle(cur, st)
			c.Eval(1)
			e := "n:" + ox.Num(cur) + ",n:" + ox.Num(cur)
			if logger.Events[k] != e {
				fail(st.Method, e, logger.Events[k]+fmt.Sprintf(" (step %d)", k))
				break
			}
			if cur == cur {
				finite++
			}
			c.Feature("setter:" + st.Method)
		}
		c.Sample(in)
		c.Feature("op:set")
		if finite > 0 || t != t {
			b, _ := json.Marshal(in)
			c.Nontrivial("set|" + eraClass(cur) + "|" + string(b))
		}
	}
}
