// Package c12 monitors Date against the ES5 15.9.1 time-value algebra.
package c12

import (
	"encoding/json"
	"fmt"
	"math"
	"os"
	"strings"
	"time"
	_ "time/tzdata" // host zones must load offline

	"github.com/robertkrimen/otto"

	"verif/internal/gen"
	"verif/internal/ox"
	"verif/internal/refdate"
	"verif/internal/run"
)

// Step is one setter call.
type Step struct {
	Method string  `json:"m"`
	Args   []gen.F `json:"a"`
}

// Input is one self-contained case.
type Input struct {
	// Op: acc (accessors/formatters of new Date(t)), utc (Date.UTC(args)),
	// ctor (new Date(args), TZ=UTC), set (setter history on new Date(t)),
	// iso (Date.parse / new Date of a 15.9.1.15 string S), prim (new Date(v)
	// for a single non-number v described by S and T).
	Op    string  `json:"op"`
	T     gen.F   `json:"t"`
	Args  []gen.F `json:"args,omitempty"`
	Steps []Step  `json:"steps,omitempty"`
	// Wrap "obj": every argument is passed as an object whose valueOf records
	// its index (ToNumber order / completeness is then observed as well).
	Wrap string `json:"wrap,omitempty"`
	S    string `json:"s,omitempty"`
	// Zone: the host's local time zone during the case ("" = UTC). Only set for
	// operations ES5.1 defines independently of the local zone (acc: UTC accessors, ISO
	// formatting and parsing, the 15.9.4.2 round trips; utc; iso).
	Zone string `json:"zone,omitempty"`
}

// hostZones: offsets east and west, half- and quarter-hour offsets, DST on both hemispheres,
// zones whose tz name is numeric (no abbreviation), zones whose pre-1900 local mean time differs
// from the modern offset, a zone whose rules after 2037 differ from the 400-year-earlier year.
var hostZones = []string{"Europe/London", "America/New_York", "Africa/Casablanca", "Asia/Kathmandu", "Africa/Abidjan", "Atlantic/Reykjavik",
	"Australia/Lord_Howe", "Pacific/Apia", "Asia/Tehran", "America/St_Johns", "Pacific/Chatham", "fixed:+01:00", "fixed:-09:30"}

func loadZone(name string) *time.Location {
	if strings.HasPrefix(name, "fixed:") {
		var h, m int
		fmt.Sscanf(name[7:], "%d:%d", &h, &m)
		off := h*3600 + m*60
		if name[6] == '-' {
			off = -off
		}
		return time.FixedZone("", off)
	}
	loc, err := time.LoadLocation(name)
	if err != nil {
		panic(err)
	}
	return loc
}

func init() {
	run.Register(&run.Check{
		ID:   "C12",
		Rule: "cases are (operation, time value / field tuple / setter history / ISO text) drawn from boundary-directed generators (era, year, month, leap-day boundaries +-1ms, range limits, fractional and non-finite values, field overflow, two-digit years, every 15.9.1.15 format variant); a case is non-trivial when the oracle result is a finite time value (or the case is an invalid-date propagation case) and it is distinct by (operation, era class, exact input)",
		Assumptions: []string{
			"TZ=UTC (set by ./check and the driver): LocalTZA=0 and DaylightSavingTA=0, so local accessors/setters and the multi-argument constructor must agree with the UTC formulas; a quarter of the acc/utc/iso cases run with time.Local set to one of 13 other host zones (everything ES5.1 defines independently of the local zone must not change: UTC accessors, toISOString, Date.UTC, Date.parse of ISO texts, and the 15.9.4.2 text round trips, the latter under a non-UTC zone only for years 1972..2037)",
			"oracle: internal/refdate (ES5.1 15.9.1 formulas in exact float64 integer arithmetic, no package time; its own unit tests check it against hand-derived constants, an independent day-by-day calendar walk and an integer civil-from-days algorithm over the whole range)",
			"Date.UTC with fewer than two arguments is implementation-dependent (15.9.4.3) and is not generated",
			"toString/toDateString/toTimeString/toLocale*String/toUTCString contents are implementation-dependent (15.9.5.2-7, 15.9.5.42); only 'is \"Invalid Date\" exactly when the time value is NaN' is checked for them",
			"Date.parse is only given strings of the 15.9.1.15 format (15.9.4.2 allows implementation-specific fallbacks for anything else); day-of-month beyond the month's length is not generated",
			"field tuples keep |field| <= 2e8 outside the 'huge' class so that every IEEE operation of MakeTime/MakeDay/MakeDate is exact whenever the result is in range",
		},
		Floor: func(tier string) int {
			if tier == "thorough" {
				return 1000000
			}
			return 40000
		},
		Cases: func(tier string, seed uint64) int {
			if tier == "thorough" {
				return 40000000
			}
			return 300000
		},
		Exec:   func(c *run.Ctx, i int) { checkOne(c, generate(c.Rng, i)) },
		Replay: func(c *run.Ctx, raw json.RawMessage) { var in Input; mustUnmarshal(raw, &in); checkOne(c, in) },
	})
	registerMatchers()
}

func mustUnmarshal(raw json.RawMessage, v interface{}) {
	if err := json.Unmarshal(raw, v); err != nil {
		panic(err)
	}
}

// ------------------------------------------------------------ generators

var interestingYears = []float64{-271821, -271820, -200000, -100000, -10000, -9999, -2000, -401, -400, -101, -100, -5, -4, -1, 0, 1, 4, 99, 100, 400, 999, 1000,
	1582, 1600, 1601, 1699, 1700, 1800, 1899, 1900, 1901, 1904, 1968, 1969, 1970, 1971, 1972, 1999, 2000, 2001, 2004, 2037, 2038, 2100, 2400, 9999, 10000, 100000, 200000, 275759, 275760}

func genTime(r *gen.Rand) (float64, string) {
	switch r.Intn(13) {
	case 0: // uniform in range
		return math.Trunc((r.Float64()*2 - 1) * 8.64e15), "uniform"
	case 1: // near epoch
		return float64(r.Range(-200000000, 200000000))*1000 + float64(r.Range(-1000, 1000)), "near-epoch"
	case 2, 3: // +-1ms around a year boundary
		y := interestingYears[r.Intn(len(interestingYears))]
		if r.Chance(1, 3) {
			y = float64(r.Range(-271821, 275760))
		}
		t := refdate.TimeFromYear(y) + float64(r.Range(-2, 2))
		return t, "year-boundary"
	case 4, 5: // month boundaries and leap days
		y := interestingYears[r.Intn(len(interestingYears))]
		if r.Chance(1, 2) {
			y = float64(r.Range(1890, 2110))
		}
		m := float64(r.Intn(12))
		d := 1.0
		if r.Chance(1, 3) {
			m, d = 1, float64(r.Range(28, 30)) // Feb 28..Mar 1/2
		}
		t := refdate.MakeDate(refdate.MakeDay(y, m, d), float64(r.Range(-2, 2)))
		return t, "month-boundary"
	case 6: // range limits
		lim := []float64{8.64e15, -8.64e15, 8.64e15 + 1, -8.64e15 - 1, 8.64e15 - 1, -8.64e15 + 1, 8.64e15 + 2, 9e15, -9e15, 1e16, 1e17, -1e17, 1e21, 1e300,
			8.64e15 + 0.5, -8.64e15 - 0.5, 9007199254740992, 9.3e18, -9.3e18, math.MaxFloat64}
		return lim[r.Intn(len(lim))], "range-limit"
	case 7: // non-finite and zeros
		sp := []float64{math.NaN(), math.Inf(1), math.Inf(-1), 0, math.Copysign(0, -1)}
		return sp[r.Intn(len(sp))], "special"
	case 8: // fractional
		base := float64(r.Range(-100000, 100000))
		fr := []float64{0.1, 0.5, 0.9, 0.999}
		t := base + fr[r.Intn(len(fr))]
		if r.Bool() {
			t = -t
		}
		return t, "fractional"
	case 9: // negative small (ms handling of negative epochs)
		return -float64(r.Range(1, 100000)), "negative-small"
	case 10: // day boundaries
		return float64(r.Range(-100000000, 100000000))*refdate.MsPerDay + float64(r.Range(-1, 1)), "day-boundary"
	case 11: // large fractional / tiny
		v := []float64{1e-300, -1e-300, 5e-324, 0.9999999999999999, -0.9999999999999999, 4503599627370495.5, -4503599627370495.5, 86399999.99999999, -86400000.00000001}
		return v[r.Intn(len(v))], "fraction-edge"
	}
	// hour/minute/second boundaries
	u := []float64{refdate.MsPerHour, refdate.MsPerMinute, refdate.MsPerSecond}[r.Intn(3)]
	return float64(r.Range(-2000000000, 2000000000))*u + float64(r.Range(-1, 1)), "unit-boundary"
}

// genTimeValid is genTime restricted to values that are valid after TimeClip
// most of the time (setter histories would otherwise mostly sit on NaN).
func genTimeValid(r *gen.Rand) float64 {
	for k := 0; k < 4; k++ {
		t, _ := genTime(r)
		if v := refdate.TimeClip(t); v == v {
			return t
		}
	}
	return float64(r.Range(-1000000, 1000000))
}

// HugeLimit: fields of larger magnitude overflow otto's int / time.Time
// arithmetic (finding KF-C12-huge-field); the generator keeps them in a class
// of their own.
const HugeLimit = 2e8

var hugeVals = []float64{2.5e8, 3e8, 1e9, 1e10, 9.3e12, 1e13, 1e15, 8.64e15, 1e16, 9007199254740992, 1e19, 9223372036854775808, 18446744073709551616, 1e21, 1e300}

func genField(r *gen.Rand, pos int) float64 {
	switch r.Intn(16) {
	case 0:
		return math.NaN()
	case 1:
		if r.Bool() {
			return math.Inf(1)
		}
		return math.Inf(-1)
	case 2:
		return float64(r.Range(-1000000, 1000000))
	case 3:
		return float64(r.Range(-1000, 1000)) + []float64{0.5, 0.9, -0.5, 0.1}[r.Intn(4)]
	case 4:
		return math.Copysign(0, -1)
	case 5:
		return float64(r.Range(-40, 40))
	case 6:
		if r.Chance(1, 3) { // big but within every implementation's integer range
			return float64(r.Range(-200000000, 200000000))
		}
	case 7:
		if pos == 0 && r.Chance(1, 2) { // fractional years around the two-digit window
			return []float64{-0.5, -0.9, -1e-9, 0.5, 99.5, 99.9, 99.99999, 100.5, -1.5, 1e-9}[r.Intn(10)]
		}
	}
	switch pos {
	case 0: // year
		switch r.Intn(4) {
		case 0:
			return float64(r.Range(-2, 101)) // two-digit window edges
		case 1:
			return interestingYears[r.Intn(len(interestingYears))]
		}
		return float64(r.Range(1890, 2110))
	case 1:
		return float64(r.Range(-14, 25))
	case 2:
		return float64(r.Range(-3, 33))
	case 3:
		return float64(r.Range(-2, 26))
	case 4, 5:
		return float64(r.Range(-2, 62))
	}
	return float64(r.Range(-2, 1002))
}

type setter struct {
	name string
	max  int
	pos  int // field position of the first argument (0 year .. 6 ms)
}

var setters = []setter{
	{"setUTCMilliseconds", 1, 6}, {"setUTCSeconds", 2, 5}, {"setUTCMinutes", 3, 4}, {"setUTCHours", 4, 3},
	{"setUTCDate", 1, 2}, {"setUTCMonth", 2, 1}, {"setUTCFullYear", 3, 0}, {"setTime", 1, -1},
	{"setMilliseconds", 1, 6}, {"setSeconds", 2, 5}, {"setMinutes", 3, 4}, {"setHours", 4, 3},
	{"setDate", 1, 2}, {"setMonth", 2, 1}, {"setFullYear", 3, 0}, {"setYear", 1, 0},
}

func setterByName(name string) *setter {
	for i := range setters {
		if setters[i].name == name {
			return &setters[i]
		}
	}
	return nil
}

func hasHuge(a []gen.F) bool {
	for _, x := range a {
		f := float64(x)
		if f == f && !math.IsInf(f, 0) && math.Abs(f) > HugeLimit {
			return true
		}
	}
	return false
}

func generate(r *gen.Rand, i int) Input {
	in := generate0(r, i)
	if (in.Op == "acc" || in.Op == "utc" || in.Op == "iso") && r.Chance(1, 4) {
		in.Zone = hostZones[r.Intn(len(hostZones))]
	}
	return in
}

func generate0(r *gen.Rand, i int) Input {
	switch r.Intn(20) {
	case 0, 1, 2, 3, 4, 5:
		t, _ := genTime(r)
		return Input{Op: "acc", T: gen.F(t)}
	case 6, 7, 8, 9, 10:
		n := r.Range(2, 7)
		args := make([]gen.F, n)
		for k := range args {
			args[k] = gen.F(genField(r, k))
		}
		if r.Chance(1, 25) { // exactly one huge field
			h := hugeVals[r.Intn(len(hugeVals))]
			if r.Bool() {
				h = -h
			}
			args[r.Intn(n)] = gen.F(h)
		}
		in := Input{Op: "utc", Args: args}
		if r.Chance(1, 3) {
			in.Op = "ctor"
		}
		if r.Chance(1, 8) {
			in.Wrap = "obj"
		}
		return in
	case 11, 12:
		if r.Chance(1, 12) {
			// the layout toUTCString prints, with a year no time value has (15.9.1.1: +-100,000,000 days):
			// "dates containing illegal element values ... shall cause Date.parse to return NaN" (15.9.4.2)
			years := []string{"275761", "300000", "1000000", "292277026597", "292277026596", "99999999999999999999", "9223372036854775807", "9223372036854775808", "-271822", "-300000", "-292277022400", "-99999999999999999999", "18446744073709551616", "4294967296000"}
			return Input{Op: "far", S: []string{"Thu", "Mon", "Sat"}[r.Intn(3)] + ", 01 Jan " + years[r.Intn(len(years))] + " 00:00:00 " + []string{"GMT", "UTC", "+0000"}[r.Intn(3)]}
		}
		return Input{Op: "iso", S: genISO(r)}
	case 13:
		return genPrim(r)
	}
	t := genTimeValid(r)
	if r.Chance(1, 8) {
		t, _ = genTime(r)
	}
	if r.Chance(1, 8) {
		t = math.NaN()
	}
	n := r.Range(1, 4)
	steps := make([]Step, n)
	local := r.Chance(1, 3)
	for k := range steps {
		s := setters[r.Intn(8)]
		if local {
			s = setters[r.Intn(len(setters))]
		}
		na := r.Range(0, s.max)
		if r.Chance(3, 4) && na == 0 {
			na = 1
		}
		st := Step{Method: s.name}
		for a := 0; a < na; a++ {
			if s.name == "setTime" {
				tv := genTimeValid(r)
				if r.Chance(1, 6) {
					tv, _ = genTime(r)
				}
				st.Args = append(st.Args, gen.F(tv))
			} else {
				st.Args = append(st.Args, gen.F(genField(r, s.pos+a)))
			}
		}
		if s.name != "setTime" && na > 0 && r.Chance(1, 40) {
			h := hugeVals[r.Intn(len(hugeVals))]
			if r.Bool() {
				h = -h
			}
			st.Args[r.Intn(na)] = gen.F(h)
		}
		steps[k] = st
	}
	in := Input{Op: "set", T: gen.F(t), Steps: steps}
	if r.Chance(1, 8) {
		in.Wrap = "obj"
	} else if r.Chance(1, 8) {
		// the conversion of an argument sets the time of the same object: 15.9.5.28-41 read the
		// time value first and store the result computed from it, whatever the conversion did
		in.Wrap = "mut"
	}
	return in
}

// genISO emits a string of the 15.9.1.15 format: mostly legal instances in
// every format variant, sometimes with one element pushed out of its range.
func genISO(r *gen.Rand) string {
	var y float64
	switch r.Intn(4) {
	case 0:
		y = interestingYears[r.Intn(len(interestingYears))]
	case 1:
		y = float64(r.Range(-271821, 275760))
	default:
		y = float64(r.Range(0, 9999))
	}
	var b strings.Builder
	switch {
	case y < 0:
		fmt.Fprintf(&b, "-%06d", int64(-y))
	case y > 9999 || r.Chance(1, 12):
		fmt.Fprintf(&b, "+%06d", int64(y))
	default:
		fmt.Fprintf(&b, "%04d", int64(y))
	}
	leap := refdate.DaysInYear(y) == 366
	mlen := []int{31, 28, 31, 30, 31, 30, 31, 31, 30, 31, 30, 31}
	if leap {
		mlen[1] = 29
	}
	bad := -1
	if r.Chance(1, 6) {
		bad = r.Intn(7)
	}
	dateForm := r.Intn(3) // 0: YYYY, 1: YYYY-MM, 2: YYYY-MM-DD
	if dateForm >= 1 {
		m := r.Range(1, 12)
		if r.Chance(1, 3) {
			m = 2
		}
		mm := m
		if bad == 0 {
			mm = []int{0, 13, 99}[r.Intn(3)]
		}
		fmt.Fprintf(&b, "-%02d", mm)
		if dateForm == 2 {
			d := r.Range(1, mlen[m-1])
			if r.Chance(1, 3) {
				d = mlen[m-1]
			}
			if bad == 1 {
				d = []int{0, 32, 99}[r.Intn(3)]
			}
			fmt.Fprintf(&b, "-%02d", d)
		}
	}
	timeForm := r.Intn(4) // 0: none, 1: HH:mm, 2: HH:mm:ss, 3: HH:mm:ss.sss
	if timeForm >= 1 {
		h, mi, s, ms := r.Range(0, 23), r.Range(0, 59), r.Range(0, 59), r.Range(0, 999)
		if r.Chance(1, 4) {
			h, mi, s, ms = []int{0, 23}[r.Intn(2)], []int{0, 59}[r.Intn(2)], []int{0, 59}[r.Intn(2)], []int{0, 999}[r.Intn(2)]
		}
		if r.Chance(1, 10) { // end-of-day form
			h, mi, s, ms = 24, 0, 0, 0
		}
		switch bad {
		case 2:
			h = []int{25, 99}[r.Intn(2)]
		case 3:
			mi = []int{60, 99}[r.Intn(2)]
		case 4:
			if h == 24 {
				mi = 1
			} else {
				s = []int{60, 99}[r.Intn(2)]
			}
		}
		fmt.Fprintf(&b, "T%02d:%02d", h, mi)
		if timeForm >= 2 {
			fmt.Fprintf(&b, ":%02d", s)
		}
		if timeForm == 3 {
			fmt.Fprintf(&b, ".%03d", ms)
		}
		switch r.Intn(4) {
		case 0:
			b.WriteString("Z")
		case 1:
			oh, om := r.Range(0, 23), []int{0, 30, 45, 59, 1}[r.Intn(5)]
			if bad == 5 {
				oh = []int{25, 99}[r.Intn(2)] // 24 is left out: see refdate.ParseISO
			}
			if bad == 6 {
				om = []int{60, 99}[r.Intn(2)]
			}
			fmt.Fprintf(&b, "%s%02d:%02d", []string{"+", "-"}[r.Intn(2)], oh, om)
		}
	}
	return b.String()
}

var primKinds = []string{"num-obj", "str-obj", "valueof-str", "tostring-only", "bool", "null", "undef", "date", "numstr-obj"}

func genPrim(r *gen.Rand) Input {
	k := primKinds[r.Intn(len(primKinds))]
	t, _ := genTime(r)
	switch k {
	case "str-obj", "valueof-str", "tostring-only":
		t = refdate.TimeClip(genTimeValid(r))
		if t != t {
			t = 0
		}
	case "date":
		// ms = 0, year 0..9999 (15.9.4.2 round trip through toString)
		t = math.Floor(r.Float64()*(253402300800000+62167219200000)/1000)*1000 - 62167219200000
		if r.Chance(1, 3) {
			t = refdate.TimeFromYear(float64(r.Range(0, 9999))) + float64(r.Range(0, 1))*1000
		}
	case "bool":
		t = float64(r.Intn(2))
	}
	return Input{Op: "prim", S: k, T: gen.F(t)}
}

// ------------------------------------------------------------ oracle

func floats(a []gen.F) []float64 {
	o := make([]float64, len(a))
	for i, x := range a {
		o[i] = float64(x)
	}
	return o
}

// utcParts is 15.9.4.3 steps 1-8: the (day, time) pair handed to MakeDate.
func utcParts(a []float64) (day, time float64) {
	get := func(i int, def float64) float64 {
		if i < len(a) {
			return a[i]
		}
		return def
	}
	y, m := get(0, math.NaN()), get(1, math.NaN())
	dt, h, mi, s, ms := get(2, 1), get(3, 0), get(4, 0), get(5, 0), get(6, 0)
	yr := y
	if y == y {
		if iy := refdate.ToInteger(y); iy >= 0 && iy <= 99 {
			yr = 1900 + iy
		}
	}
	return refdate.MakeDay(yr, m, dt), refdate.MakeTime(h, mi, s, ms)
}

func utcOracle(a []float64) float64 {
	return refdate.TimeClip(refdate.MakeDate(utcParts(a)))
}

// setParts is the (day, time) pair a setter hands to MakeDate (15.9.5.28-41,
// B.2.5) with LocalTime = UTC = identity; t must be finite (or NaN for the
// full-year setters, which then use +0).
func setParts(t float64, st Step) (day, time float64) {
	arg := func(i int, def float64) float64 {
		if i < len(st.Args) {
			return float64(st.Args[i])
		}
		return def
	}
	nan := math.NaN()
	switch st.Method {
	case "setUTCMilliseconds", "setMilliseconds":
		return refdate.Day(t), refdate.MakeTime(refdate.HourFromTime(t), refdate.MinFromTime(t), refdate.SecFromTime(t), arg(0, nan))
	case "setUTCSeconds", "setSeconds":
		ms := arg(1, refdate.MsFromTime(t))
		return refdate.Day(t), refdate.MakeTime(refdate.HourFromTime(t), refdate.MinFromTime(t), arg(0, nan), ms)
	case "setUTCMinutes", "setMinutes":
		s := arg(1, refdate.SecFromTime(t))
		ms := arg(2, refdate.MsFromTime(t))
		return refdate.Day(t), refdate.MakeTime(refdate.HourFromTime(t), arg(0, nan), s, ms)
	case "setUTCHours", "setHours":
		m := arg(1, refdate.MinFromTime(t))
		s := arg(2, refdate.SecFromTime(t))
		ms := arg(3, refdate.MsFromTime(t))
		return refdate.Day(t), refdate.MakeTime(arg(0, nan), m, s, ms)
	case "setUTCDate", "setDate":
		return refdate.MakeDay(refdate.YearFromTime(t), refdate.MonthFromTime(t), arg(0, nan)), refdate.TimeWithinDay(t)
	case "setUTCMonth", "setMonth":
		dt := arg(1, refdate.DateFromTime(t))
		return refdate.MakeDay(refdate.YearFromTime(t), arg(0, nan), dt), refdate.TimeWithinDay(t)
	case "setUTCFullYear", "setFullYear":
		if t != t {
			t = 0 // 15.9.5.40/41 step 1
		}
		m := arg(1, refdate.MonthFromTime(t))
		dt := arg(2, refdate.DateFromTime(t))
		return refdate.MakeDay(arg(0, nan), m, dt), refdate.TimeWithinDay(t)
	case "setYear": // B.2.5
		if t != t {
			t = 0
		}
		y := arg(0, nan)
		if y != y {
			return nan, nan
		}
		if iy := refdate.ToInteger(y); iy >= 0 && iy <= 99 {
			y = iy + 1900
		}
		return refdate.MakeDay(y, refdate.MonthFromTime(t), refdate.DateFromTime(t)), refdate.TimeWithinDay(t)
	}
	panic("unknown setter " + st.Method)
}

func usesZeroForNaN(m string) bool {
	return m == "setUTCFullYear" || m == "setFullYear" || m == "setYear"
}

// A NaN time value makes every ...FromTime NaN, which MakeTime/MakeDay turn
// into NaN through their finiteness test; refdate's accessors are only defined
// on finite t, so that propagation is made explicit here.
func setOracle(t float64, st Step) float64 {
	if st.Method == "setTime" {
		if len(st.Args) == 0 {
			return math.NaN()
		}
		return refdate.TimeClip(float64(st.Args[0]))
	}
	if t != t && !usesZeroForNaN(st.Method) {
		return math.NaN()
	}
	return refdate.TimeClip(refdate.MakeDate(setParts(t, st)))
}

// ------------------------------------------------------------ driving otto

var vm *otto.Otto
var logger *ox.Logger

const prelude = `var tr=[], d; function W(i,v){return {valueOf:function(){tr.push(i);return v}}}
function WM(i,v){return {valueOf:function(){tr.push(i);if(d&&i===0)d.setTime(86400000*(1+tr.length));return v}}}
function cls(s){return typeof s!=='string'?'?':(s==='Invalid Date'?'I':'S')}`

func theVM() *otto.Otto {
	if vm == nil {
		vm = otto.New()
		logger = &ox.Logger{}
		logger.Install(vm, "log")
		if _, err := vm.Run(prelude); err != nil {
			panic(err)
		}
	}
	return vm
}

func eraClass(t float64) string {
	if t != t {
		return "invalid"
	}
	y := refdate.YearFromTime(t)
	switch {
	case y < 0:
		return "<0"
	case y < 1970:
		return "0-1969"
	case y <= 9999:
		return "1970-9999"
	}
	return ">9999"
}

type accessor struct {
	name string
	f    func(float64) float64
}

var accessors = []accessor{
	{"getTime", func(t float64) float64 { return t }},
	{"valueOf", func(t float64) float64 { return t }},
	{"getUTCFullYear", refdate.YearFromTime},
	{"getUTCMonth", refdate.MonthFromTime},
	{"getUTCDate", refdate.DateFromTime},
	{"getUTCDay", refdate.WeekDay},
	{"getUTCHours", refdate.HourFromTime},
	{"getUTCMinutes", refdate.MinFromTime},
	{"getUTCSeconds", refdate.SecFromTime},
	{"getUTCMilliseconds", refdate.MsFromTime},
	// local time = UTC under TZ=UTC
	{"getFullYear", refdate.YearFromTime},
	{"getMonth", refdate.MonthFromTime},
	{"getDate", refdate.DateFromTime},
	{"getDay", refdate.WeekDay},
	{"getHours", refdate.HourFromTime},
	{"getMinutes", refdate.MinFromTime},
	{"getSeconds", refdate.SecFromTime},
	{"getMilliseconds", refdate.MsFromTime},
	{"getYear", func(t float64) float64 { return refdate.YearFromTime(t) - 1900 }}, // B.2.4
	{"getTimezoneOffset", func(t float64) float64 { return 0 }},                    // (t - LocalTime(t)) / msPerMinute
}

var formatters = []string{"toString", "toDateString", "toTimeString", "toLocaleString", "toLocaleDateString", "toLocaleTimeString", "toUTCString", "toGMTString"}

// wrapFn is the JS helper that wraps arguments in the current case (W, or WM whose valueOf also sets the time of d).
var wrapFn = "W"

func argList(v *otto.Otto, prefix string, a []gen.F, wrap bool) string {
	names := make([]string, len(a))
	for i, x := range a {
		n := fmt.Sprintf("%s%d", prefix, i)
		v.Set(n, float64(x))
		if wrap {
			n = fmt.Sprintf("%s(%d,%s)", wrapFn, i, n)
		}
		names[i] = n
	}
	return strings.Join(names, ",")
}

func seq(n int) string {
	var b strings.Builder
	for i := 0; i < n; i++ {
		b.WriteByte(byte('0' + i))
	}
	return "s:" + ox.Str(b.String())
}

func checkOne(c *run.Ctx, in Input) {
	if os.Getenv("TZ") != "UTC" {
		c.Inconclusive("TZ is not UTC")
		return
	}
	v := theVM()
	logger.Events = nil
	c.Announce(in)
	if in.Zone != "" {
		time.Local = loadZone(in.Zone)
		defer func() { time.Local = time.UTC }()
		c.Feature("host-zone:" + in.Zone)
	} else {
		c.Feature("host-zone:UTC")
	}
	fail := func(site, exp, act, detail string) {
		c.Fail("mismatch", site, in, exp, act, detail)
	}
	runJS := func(src string) (ox.Outcome, bool) {
		out := ox.Run(v, src)
		if out.Panic != nil {
			c.Fail("panic", "Date:"+in.Op, in, "no Go panic", fmt.Sprint(out.Panic), out.Stack)
			vm = nil
			return out, false
		}
		return out, true
	}
	wrap := in.Wrap == "obj" || in.Wrap == "mut"
	wrapFn = "W"
	if in.Wrap == "mut" {
		wrapFn = "WM"
	}
	switch in.Op {
	case "acc":
		t := refdate.TimeClip(float64(in.T))
		v.Set("t", float64(in.T))
		var calls []string
		for _, a := range accessors {
			calls = append(calls, "d."+a.name+"()")
		}
		var fm []string
		for _, f := range formatters {
			fm = append(fm, "cls(d."+f+"())")
		}
		src := "var d=new Date(t); log(" + strings.Join(calls, ",") + ");" +
			"var iso; try{iso=d.toISOString()}catch(e){iso='throw:'+e.name}; var j; try{j=d.toJSON()}catch(e){j='throw:'+e.name}; log(iso, j);" +
			"log(" + strings.Join(fm, "+") + ");"
		if t == t {
			v.Set("isoRef", refdate.ISO(t))
			src += "log(Date.parse(isoRef), new Date(isoRef).getTime());"
			// 15.9.4.2: Date.parse(x.toString()) and Date.parse(x.toUTCString()) are x.valueOf() when
			// the milliseconds are zero; 15.9.3.2: new Date(dateObject) goes through the same text
			src += "var d0=new Date(Math.floor(d.getTime()/1000)*1000); log(Date.parse(d0.toString()), Date.parse(d0.toUTCString()), new Date(d0).getTime());"
		}
		// 15.9.2.1: Date() is the text of (new Date()).toString() (the clock may tick in between)
		src += "var n1=new Date().toString(), fn=Date(), n2=new Date().toString(); log(fn===n1||fn===n2, fn, n1);"
		out, ok := runJS(src)
		if !ok {
			return
		}
		want := 4
		if t == t {
			want = 6
		}
		if out.Err != nil || len(logger.Events) != want {
			fail("Date:acc", "script completes", fmt.Sprint(out.Err), "")
			return
		}
		got := strings.Split(logger.Events[0], ",")
		c.Eval(len(accessors) + 2 + len(formatters))
		for k, a := range accessors {
			if in.Zone != "" && k >= 10 {
				break // local accessors depend on the zone
			}
			exp := math.NaN()
			if t == t {
				exp = a.f(t) + 0
			}
			if e := "n:" + ox.Num(exp); got[k] != e {
				fail(a.name, e, got[k], "")
			}
		}
		g2 := strings.Split(logger.Events[1], ",")
		if t != t {
			if g2[0] != `s:"throw:RangeError"` {
				fail("toISOString", `s:"throw:RangeError"`, g2[0], "15.9.5.43")
			}
			if g2[1] != "null" {
				fail("toJSON", "null", g2[1], "15.9.5.44")
			}
			if e := "s:" + ox.Str(strings.Repeat("I", len(formatters))); logger.Events[2] != e {
				fail("formatters", e, logger.Events[2], strings.Join(formatters, ","))
			}
			c.Feature("acc:invalid-date")
		} else {
			iso := refdate.ISO(t)
			e := "s:" + ox.Str(iso)
			if g2[0] != e {
				fail("toISOString", e, g2[0], "")
			}
			if g2[1] != e {
				fail("toJSON", e, g2[1], "")
			}
			if e := "s:" + ox.Str(strings.Repeat("S", len(formatters))); logger.Events[2] != e {
				fail("formatters", e, logger.Events[2], strings.Join(formatters, ","))
			}
			g3 := strings.Split(logger.Events[3], ",")
			c.Eval(2)
			if e := "n:" + ox.Num(t); g3[0] != e {
				fail("Date.parse(iso)", e, g3[0], iso)
			}
			if e := "n:" + ox.Num(t); g3[1] != e {
				fail("new Date(iso)", e, g3[1], iso)
			}
			if iso[0] == '+' || iso[0] == '-' {
				c.Feature("acc:expanded-year-iso")
			}
			// text round trips: over the whole range under UTC; under another host zone only where the
			// zone's abbreviations are unambiguous in the tz database (years 1972..2037)
			if y := refdate.YearFromTime(t); in.Zone == "" || (y >= 1972 && y <= 2037) {
				t0 := math.Floor(t/1000)*1000 + 0
				g4 := strings.Split(logger.Events[4], ",")
				c.Eval(3)
				for k, site := range []string{"Date.parse(toString())", "Date.parse(toUTCString())", "new Date(dateObject)"} {
					if e := "n:" + ox.Num(t0); g4[k] != e {
						fail(site, e, g4[k], "15.9.4.2 / 15.9.3.2; t="+ox.Num(t0))
					}
				}
				c.Feature("acc:text-round-trip")
			}
		}
		if last := logger.Events[len(logger.Events)-1]; !strings.HasPrefix(last, "b:true") && !strings.HasPrefix(last, "true") {
			fail("Date()", "the text of (new Date()).toString() (15.9.2.1)", last, "")
		}
		c.Sample(in)
		c.Feature("op:acc")
		c.Feature("era:" + eraClass(t))
		if ft := float64(in.T); ft != math.Trunc(ft) {
			c.Feature("acc:fractional-t")
		}
		c.Nontrivial(fmt.Sprintf("acc|%s|%v", eraClass(t), float64(in.T)))
	case "utc", "ctor":
		a := floats(in.Args)
		exp := utcOracle(a)
		names := argList(v, "a", in.Args, wrap)
		src := "tr.length=0; var r=Date.UTC(" + names + "); log(r, tr.join(''))"
		site := "Date.UTC"
		if in.Op == "ctor" {
			src = "tr.length=0; var r=new Date(" + names + ").getTime(); log(r, tr.join(''))"
			site = "new Date(fields)"
		}
		out, ok := runJS(src)
		if !ok {
			return
		}
		c.Eval(1)
		if out.Err != nil || len(logger.Events) != 1 {
			fail(site, "n:"+ox.Num(exp), "throw:"+fmt.Sprint(out.Err), "")
			return
		}
		g := strings.SplitN(logger.Events[0], ",", 2)
		if e := "n:" + ox.Num(exp); g[0] != e {
			fail(site, e, g[0], "")
		}
		if wrap {
			// 15.9.3.1 / 15.9.4.3: ToNumber of every supplied argument, in order.
			if e := seq(len(a)); g[1] != e {
				fail(site+":coercion", e, g[1], "")
			}
			c.Feature("wrap:obj")
		}
		c.Sample(in)
		c.Feature("op:" + in.Op)
		c.Feature(fmt.Sprintf("nargs:%d", len(a)))
		c.Feature("era:" + eraClass(exp))
		if hasHuge(in.Args) {
			c.Feature("fields:huge(region KF-C12-huge-field)")
		} else {
			c.Feature("fields:within-2e8")
		}
		if exp == exp {
			c.Nontrivial(fmt.Sprintf("%s|%s|%v", in.Op, eraClass(exp), a))
		}
	case "set":
		t := refdate.TimeClip(float64(in.T))
		v.Set("t", float64(in.T))
		var b strings.Builder
		b.WriteString("var d=new Date(t);")
		for k, st := range in.Steps {
			names := argList(v, fmt.Sprintf("s%d_", k), st.Args, wrap)
			fmt.Fprintf(&b, "tr.length=0; var r=d.%s(%s); log(r, d.getTime(), tr.join(''));", st.Method, names)
		}
		out, ok := runJS(b.String())
		if !ok {
			return
		}
		if out.Err != nil || len(logger.Events) != len(in.Steps) {
			fail("Date:set", "script completes", fmt.Sprint(out.Err), "")
			return
		}
		cur := t
		finite := 0
		for k, st := range in.Steps {
			cur = setOracle(cur, st)
			c.Eval(1)
			g := strings.SplitN(logger.Events[k], ",", 3)
			e := "n:" + ox.Num(cur) + ",n:" + ox.Num(cur)
			detail := fmt.Sprintf("step=%d", k)
			bad := false
			if g[0]+","+g[1] != e {
				fail(st.Method, e, g[0]+","+g[1], detail)
				bad = true
			}
			if wrap {
				n := len(st.Args)
				if s := setterByName(st.Method); n > s.max {
					n = s.max
				}
				if e := seq(n); g[2] != e {
					fail(st.Method+":coercion", e, g[2], detail)
					bad = true
				}
			}
			if bad {
				// the real object has left the model's trajectory
				break
			}
			if cur == cur {
				finite++
			}
			c.Feature("setter:" + st.Method)
			if st.Method != "setTime" && hasHuge(st.Args) {
				c.Feature("fields:huge(region KF-C12-huge-field)")
			}
		}
		if wrap {
			c.Feature("wrap:obj")
		}
		c.Sample(in)
		c.Feature("op:set")
		if finite > 0 || t != t {
			b, _ := json.Marshal(in)
			c.Nontrivial("set|" + eraClass(cur) + "|" + string(b))
		}
	case "iso":
		exp, rec := refdate.ParseISO(in.S)
		if !rec {
			c.Note("iso:not-of-the-format(skipped)")
			return
		}
		v.Set("s", in.S)
		out, ok := runJS("log(Date.parse(s), new Date(s).getTime())")
		if !ok {
			return
		}
		c.Eval(2)
		if out.Err != nil || len(logger.Events) != 1 {
			fail("Date.parse(iso)", "n:"+ox.Num(exp), "throw:"+fmt.Sprint(out.Err), in.S)
			return
		}
		g := strings.Split(logger.Events[0], ",")
		e := "n:" + ox.Num(exp)
		if g[0] != e {
			fail("Date.parse(iso)", e, g[0], in.S)
		}
		if g[1] != e {
			fail("new Date(iso)", e, g[1], in.S)
		}
		c.Sample(in)
		c.Feature("op:iso")
		for _, f := range isoShape(in.S) {
			c.Feature(f)
		}
		if exp == exp {
			c.Feature("iso:legal")
			c.Nontrivial("iso|" + in.S)
		} else {
			c.Feature("iso:illegal-element-or-out-of-range")
		}
	case "far":
		v.Set("s", in.S)
		out, ok := runJS("log(Date.parse(s), new Date(s).getTime())")
		if !ok {
			return
		}
		c.Eval(2)
		if out.Err != nil || len(logger.Events) != 1 {
			fail("Date.parse(far year)", "n:NaN", "throw:"+fmt.Sprint(out.Err), in.S)
			return
		}
		if logger.Events[0] != "n:NaN,n:NaN" {
			fail("Date.parse(far year)", "n:NaN,n:NaN", logger.Events[0], in.S)
		}
		c.Sample(in)
		c.Feature("op:far-year-text")
		c.Nontrivial("far|" + in.S)
	case "prim":
		t := float64(in.T)
		exp := refdate.TimeClip(t)
		v.Set("t", t)
		v.Set("isoRef", "")
		if exp == exp {
			v.Set("isoRef", refdate.ISO(exp))
		}
		var arg string
		switch in.S {
		case "num-obj": // ToPrimitive -> valueOf -> number
			arg = "{valueOf:function(){return t}, toString:function(){return '1970'}}"
		case "numstr-obj": // valueOf not primitive -> toString gives a number: still the number path
			arg = "{valueOf:function(){return {}}, toString:function(){return t}}"
		case "str-obj": // valueOf not primitive -> toString -> string -> parse
			arg = "{valueOf:function(){return {}}, toString:function(){return isoRef}}"
		case "valueof-str":
			arg = "{valueOf:function(){return isoRef}, toString:function(){return 5}}"
		case "tostring-only":
			arg = "{toString:function(){return isoRef}}" // Object.prototype.valueOf returns the object itself
		case "bool":
			arg = "(t===1)"
		case "null":
			arg, exp = "null", 0
		case "undef":
			arg, exp = "undefined", math.NaN()
		case "date": // 15.9.3.2 step 1: ToPrimitive(Date object) = its toString(); 15.9.4.2 round trip (to the second)
			arg = "new Date(t)"
			if exp == exp {
				exp = math.Floor(exp/1000) * 1000
			}
		default:
			panic("unknown prim kind " + in.S)
		}
		out, ok := runJS("log(new Date(" + arg + ").getTime())")
		if !ok {
			return
		}
		c.Eval(1)
		site := "new Date(value):" + in.S
		if out.Err != nil || len(logger.Events) != 1 {
			fail(site, "n:"+ox.Num(exp), "throw:"+fmt.Sprint(out.Err), "")
			return
		}
		if e := "n:" + ox.Num(exp); logger.Events[0] != e {
			fail(site, e, logger.Events[0], "")
		}
		c.Sample(in)
		c.Feature("op:prim")
		c.Feature("prim:" + in.S)
		if exp == exp {
			c.Nontrivial(fmt.Sprintf("prim|%s|%v", in.S, t))
		}
	default:
		panic("unknown op " + in.Op)
	}
}

// isoShape names the format variant of a 15.9.1.15 string: year form, date
// form, time form, zone form.
func isoShape(s string) []string {
	i := 4
	year := "iso-year:YYYY"
	if s[0] == '+' || s[0] == '-' {
		year, i = "iso-year:±YYYYYY", 7
	}
	rest := s[i:]
	d, tm := rest, ""
	if k := strings.IndexByte(rest, 'T'); k >= 0 {
		d, tm = rest[:k], rest[k:]
	}
	out := []string{year, "iso-date:" + []string{"year-only", "-MM", "-MM-DD"}[len(d)/3]}
	if tm == "" {
		return append(out, "iso-time:none")
	}
	z := "iso-zone:none"
	switch {
	case strings.HasSuffix(tm, "Z"):
		z, tm = "iso-zone:Z", tm[:len(tm)-1]
	case len(tm) > 6 && (tm[len(tm)-6] == '+' || tm[len(tm)-6] == '-'):
		z, tm = "iso-zone:±HH:mm", tm[:len(tm)-6]
	}
	if strings.HasPrefix(tm, "T24") {
		out = append(out, "iso-time:hour-24")
	}
	return append(out, "iso-time:"+map[int]string{6: "THH:mm", 9: "THH:mm:ss", 13: "THH:mm:ss.sss"}[len(tm)], z)
}
