// Package c04 monitors parser totality and well-formedness: any byte string
// parses to a tree or an error list without panicking; constructively invalid
// programs are rejected and have no effect on a runtime; every node of an
// accepted tree has a sane source span and ast.Walk visits it exactly once.
package c04

import (
	"encoding/json"
	"fmt"
	"reflect"
	"sort"
	"strings"
	"time"

	"github.com/robertkrimen/otto"
	"github.com/robertkrimen/otto/ast"
	"github.com/robertkrimen/otto/file"
	"github.com/robertkrimen/otto/parser"

	"verif/internal/gen"
	"verif/internal/gt"
	"verif/internal/litfuzz"
	"verif/internal/ox"
	"verif/internal/pgen"
	"verif/internal/run"
)

// Input is one self-contained case: the exact source bytes (as a Go string,
// JSON-escaped; invalid UTF-8 is carried in Hex instead).
type Input struct {
	Kind       string   `json:"kind"` // bytes | truncation | token-mutation | invalid | nesting | valid
	Src        string   `json:"src,omitempty"`
	Hex        string   `json:"hex,omitempty"`
	Mode       int      `json:"mode"`
	Invalid    string   `json:"invalid,omitempty"` // the inserted invalid construct, for invalid kind
	Params     string   `json:"params,omitempty"`  // parsefunction kind: the two texts handed to parser.ParseFunction
	Body       string   `json:"body,omitempty"`
	Closes     bool     `json:"closes,omitempty"`      // parsefunction: the texts close the function early (must be rejected)
	WellFormed bool     `json:"well_formed,omitempty"` // parsefunction: both texts are complete (must be accepted)
	Srcs       []string `json:"srcs,omitempty"`        // fileset kind: sources parsed one after the other into one file.FileSet
}

func (in Input) source() string {
	if in.Hex != "" {
		b := make([]byte, len(in.Hex)/2)
		fmt.Sscanf(in.Hex, "%x", &b)
		return string(b)
	}
	return in.Src
}

func mk(kind, src string, mode int) Input {
	in := Input{Kind: kind, Mode: mode}
	if b, err := json.Marshal(src); err == nil {
		var back string
		if json.Unmarshal(b, &back) == nil && back == src {
			in.Src = src
			return in
		}
	}
	in.Hex = fmt.Sprintf("%x", src)
	return in
}

func init() {
	run.Register(&run.Check{
		ID:   "C04",
		Rule: "inputs: random bytes / token soup (incl. invalid UTF-8, NUL, lone backslashes), every-prefix truncations and single-token delete/insert/swap/duplicate mutations of generated valid programs, valid programs with one constructively invalid construct inserted (early errors of ES5: illegal break/continue/return, unknown/duplicate labels, invalid assignment targets, try without handler, duplicate default, unterminated tokens, bad regexps, reserved words as identifiers, accessor/data property clashes...), nesting bombs; 3 parser modes; non-trivial = input reached error recovery with >=1 statement parsed, or accepted tree with >=5 nodes, or invalid-construct case; distinct by input hash",
		Assumptions: []string{
			"invalidity is asserted only for constructed mutations (each inserted construct is invalid at top level whatever precedes it); for arbitrary junk only totality, position sanity and tree well-formedness are checked",
			"a per-input 20 s wall-clock backstop inside the worker marks a case inconclusive; the driver's watchdog (hang) confirms alone before reporting",
			"source size <= 64 KB, nesting <= 1000 (labelled-block nesting <= 400: the parser's duplicate-label error recovery is super-linear, ~O(n^2.5); observed, not judged)",
		},
		Floor: func(tier string) int {
			if tier == "thorough" {
				return 300000
			}
			return 10000
		},
		Cases: func(tier string, seed uint64) int {
			if tier == "thorough" {
				return 250000
			}
			return 6000
		},
		Exec: exec,
		Replay: func(c *run.Ctx, raw json.RawMessage) {
			var in Input
			if err := json.Unmarshal(raw, &in); err != nil {
				panic(err)
			}
			checkOne(c, in)
		},
	})
	registerMatchers()
}

// ---------------------------------------------------------------- workload

var invalidSnippets = []string{
	"break;", "continue;", "return 1;", "return;", "L: { continue L; }", "while (1) { break M; }", "while (1) { continue M; }", "L: L: ;", "L: { L: ; }", "L: while (1) { L: ; }",
	"M: if (x) continue M;", "function f() { break; }", "function f() { L: (function () { break L; }); }", "while (1) (function () { break; });", "switch (1) { case 1: continue; }",
	"1 = x;", "1++;", "++1;", "--'a';", "(a + b) = 1;", "a + b = 1;", "(a, b) = 1;", "this = 1;", "null = 1;", "true++;", "for (1 in o) ;", "for (a + b in o) ;", "for (var a, b in o) ;", "for (x = a ? b : c in o;;) ;", "for (a ? b : c in o;;) ;", "for (var v = a ? b : c in o;;) ;", "for (x = a || b in o;;) ;", "for (x = function(){} in o;;) ;", "for (x = y = 1 in o;;) ;", "for (var v = a, w = b in o;;) ;", "x = typeof = 1;",
	"try {}", "try {} catch {}", "try {} catch () {}", "try x; catch (e) {}", "; catch (e) {}", "; finally {}", "switch (1) { default: default: }", "switch (1) { case: }", "switch (1) { x }", "case 1:", "default:", "; else ;", "if (1) else ;",
	"\"unterminated", "'unterminated", "\"line\nbreak\"", "/* unterminated", "/unterminated", "x = /a", "x = /(/;", "x = /[/;", "x = /a**/;", "x = /a{2,1}/;", "x = /[b-a]/;", "x = /?/;", "x = /)/;", "x = /(?<n>a)/;", "x = /a/gg;", "x = /a/x;",
	"var if = 1;", "var class;", "var enum;", "var new;", "if: ;", "function f(new) {}", "function if() {}", "function () {}", "function f( {}", "function f(a,) {}", "var 1;", "var;", "var a = ;", "var a b;",
	"({a 1});", "({a:1 b:2});", "({a:});", "({,});", "({get a(x) {}});", "({set a() {}});", "({set a(x, y) {}});", "({a: 1, get a() {}});", "({get a() {}, a: 1});", "({get a() {}, get a() {}});", "({set a(v) {}, set a(v) {}});",
	"[1 2];", "f(1 2);", "f(,);", "a.b.;", "a..b;", "a.1;", "a.;", "new;", "x = ;", "x = 1 +;", "x = * 2;", "a ? b;", "a ? b : ;", "(;", ");", "(a;", "a);", "{", "}", "[;", "];", "a[;", "a[1;",
	"throw\n1;", "throw;", "do ; while", "while () ;", "while (1", "for (;;", "for (;) ;", "for (a;b) ;", "if () ;", "if (1", "with () ;", "with;",
	"a &^ b;", "a &^= 1;", "3in x;", "3x;", "0x;", "0xg;", "1e;", "1e+;", "08.5x;", "1.2.3;", "@;", "#;", "a # b;", "\\u00zz;", "\\u0030a;", "a\\u0020b;", "\"\\u12\";", "'\\x1';", "\"\\u{61}\"x;", "x = 'a' 'b';", "x = 1 2;", "a b;", "a => b;", "`t`;", "let x y;", "a ** ;",
	"({+: 1});", "({;: 1});", "({=: 1});", "({get +() {}});", "({1e: 1});", "({0x: 1});", "({\\: 1});",
	"a: { for (;;) { continue a; } }", "a: if (1) for (;;) continue a;", "a: try { for (;;) continue a; } finally {}", "a: switch (1) { case 1: while (1) continue a; }", "a: b: { for (;;) continue b; }",
	"var\u0085a = 1;", "x\u0085= 1;", "x = a.b\u00b7c;", "x = a.\u2118;",
	"(a): b;", "((a)): for (;;) break a;", "x = /[\\\n]/;", "x = /[a\\\r\nb]/g;", "x = /a\\\n/;",
	"x = /[", "x = /[a", "x = /a[\\", "x = /[^", "f(a,);", "new f(a,);", "f(a,,b);",
	// 7.9.1: a semicolon is inserted only before an offending token that follows a line break, or before }
	"do ; while (0) x;", "do x++; while (x < 5) y = 2;", "if (a) do ; while (0) else b;",
	"x = function (a a) {};", "x = function f(", "x = {", "x = [", "x = (", "debugger x;", "delete;", "typeof;", "void;", "x = new new;", "in x;", "instanceof x;", ", x;", "? x : y;", ": x;", "x = a ?? ;",
}

// contextInvalid builds an early error whose invalidity depends on parser
// state that an earlier, completed construct must not leave behind (12.7, 12.8,
// 12.9, 12.12: break/continue/return/labels are judged against the *enclosing*
// statements of the same function only), or a reserved word spelled with a
// unicode escape in a binding position (7.6: an escape does not change which
// IdentifierName it is; 7.6.1: a ReservedWord is not an Identifier).
func contextInvalid(r *gen.Rand) string {
	if r.Chance(1, 5) {
		// 7.8.3: the character after a NumericLiteral must not be an IdentifierStart or a digit
		num := []string{"1", "0", "12", "1.5", ".5", "5.", "1e3", "1E3", "1e+3", "2e-2", "1.5e3", ".5e1", "5.e1", "0x1f", "0XA", "1e30", "0.0", "017"}[r.Intn(18)]
		follow := []string{"in", "instanceof", "x", "$", "_", "\\u0061", "in\n", "e", "px", "n"}[r.Intn(10)]
		if strings.HasPrefix(num, "0x") || strings.HasPrefix(num, "0X") {
			follow = []string{"in", "instanceof", "x", "$", "_", "g", "px"}[r.Intn(7)] // a-f would continue the hex literal
		}
		if follow == "e" && !strings.ContainsAny(num, "eExX") {
			follow = "ex" // "1e" alone is an unfinished exponent, an error as well, but of another kind
		}
		return fmt.Sprintf([]string{"x = %s%s {};", "%s%s y;", "var q = %s%s Number;", "f(%s%s);"}[r.Intn(4)], num, follow)
	}
	if r.Chance(1, 3) {
		words := []string{"break", "case", "catch", "continue", "debugger", "default", "delete", "do", "else", "finally", "for", "function", "if", "in", "instanceof", "new", "return", "switch", "this", "throw", "try", "typeof", "var", "void", "while", "with",
			"class", "const", "enum", "export", "extends", "import", "super", "null", "true", "false"}
		w := words[r.Intn(len(words))]
		i := r.Intn(len(w))
		esc := w[:i] + fmt.Sprintf("\\u%04x", w[i]) + w[i+1:]
		if r.Chance(1, 4) {
			esc = w[:i] + fmt.Sprintf("\\u%04X", w[i]) + w[i+1:]
		}
		tpl := []string{"var %s = 1;", "%s = 5;", "function %s() {}", "function f(%s) {}", "try {} catch (%s) {}", "%s: ;", "x = function %s() {};", "for (var %s in o) ;", "var a, %s;", "%s++;"}[r.Intn(10)]
		return fmt.Sprintf(tpl, esc)
	}
	prefixes := []string{"switch (x) {}", "switch (x) { case 1: break; default: }", "while (0) {}", "for (;;) { break; }", "do {} while (0);", "for (k in o) { continue; }", "function f() { return 1; }", "(function () { return; });",
		"L: while (0) { continue L; }", "L: { break L; }", "L: ;", "try {} finally {}", "with (o) {}", "if (x) {} else {}", "x = function () { while (0) { break; } };", "var g = { get a() { return 1; } };", "L: switch (x) { case 1: break L; }", "M: for (;;) { L: for (;;) { continue M; } }"}
	pre := prefixes[r.Intn(len(prefixes))]
	bad := []string{"break;", "continue;", "break L;", "continue L;", "return;", "return 1;"}[r.Intn(6)]
	isReturn := strings.HasPrefix(bad, "return")
	body := pre + " " + bad
	if r.Chance(1, 4) {
		body = pre + " if (y) { " + bad + " }"
	}
	switch w := r.Intn(8); {
	case w == 0:
		return "{ " + body + " }"
	case w == 1:
		return "if (y) { " + body + " }"
	case w == 2 && !isReturn:
		return "function w() { " + body + " }"
	case w == 3:
		return "try { " + body + " } catch (e) {}"
	case w == 4 && !isReturn:
		return "while (0) { (function () { " + body + " }); }"
	case w == 5 && !isReturn:
		return "L: while (0) { x = function () { " + pre + " " + []string{"break L;", "continue L;"}[r.Intn(2)] + " }; }"
	case w == 6 && !isReturn:
		return "switch (x) { case 1: (function () { " + body + " }); }"
	}
	return body
}

var validSnippets = []string{
	"for (;;) { break; }", "for (;;) break;", "for (; $fuel < 0;) ;", "for (;; $fuel++) break;", "for (var vs1;;) break;", "for (vs2 in {}) ;",
	"va: for (;;) { continue va; }", "va: vb: while (1) { if (1) break va; continue vb; }", "va: do { continue va; } while (0);", "va: for (vs3 in {a: 1}) { continue va; }", "va: { vb: for (;;) { break va; } }",
	"vs4 = /[/]/.test('/');", "vs5 = {if: 1, class: 2, null: 3, true: 4}.if;", "vs6 = [,].length + [1,,].length;", "if (0) ; else ;", "vs7 = 1 /* c\n c */ + 2;", "switch (1) {}", "try {} catch (vs8) {} finally {}",
	"vs9\u00a0=\ufeff1;", "vs10 = 'a\\\nb';", "do ; while (0) vs11 = 1;", "vs12 = function () {}\n(1);",
}

var vm *otto.Otto
var lg *ox.Logger

func theVM() *otto.Otto {
	if vm == nil {
		vm = otto.New()
		lg = &ox.Logger{}
		lg.Install(vm, "log")
	}
	return vm
}

func validProgram(r *gen.Rand) (*gt.Program, string) {
	g := pgen.NewG(r)
	g.NoEval = r.Bool()
	p := g.Program()
	src, _ := gt.RenderStyle(p, gt.Style{})
	return p, src
}

var soup = []string{"a", "b", "1", "0x", "'", "\"", "/", "/*", "*/", "//", "\n", "\r", " ", "{", "}", "(", ")", "[", "]", ";", ",", ".", "+", "++", "-", "=", "==", "=>", "?", ":", "!", "~", "&&", "||", "&^", "<<", ">>>", "in", "new", "function", "var", "if", "else", "for", "while", "do", "try", "catch", "finally", "switch", "case", "default", "break", "continue", "return", "throw", "with", "this", "null", "typeof", "delete", "void", "instanceof", "get", "set", "\\", "\\u", "\\u0041", "\u2028", "\ufeff", "\x00", "\xff", "\xc3", "é", "😀", "/a/g", "1e", ".5", "5.", "L:", "debugger", "class", "enum", "`", "@", "#"}

func exec(c *run.Ctx, i int) {
	r := c.Rng
	mode := []int{0, int(parser.StoreComments), int(parser.IgnoreRegExpErrors)}[r.Intn(3)]
	switch k := r.Intn(24); {
	case k < 3: // random bytes
		n := r.Range(0, 400)
		b := make([]byte, n)
		for j := range b {
			switch r.Intn(4) {
			case 0:
				b[j] = byte(r.Intn(256))
			default:
				b[j] = " \t\n\r(){}[];,.+-*/%=<>!&|^~?:'\"\\0123456789abcxyzEe_$/"[r.Intn(52)]
			}
		}
		checkOne(c, mk("bytes", string(b), mode))
	case k < 6: // token soup
		n := r.Range(1, 60)
		var sb strings.Builder
		for j := 0; j < n; j++ {
			sb.WriteString(soup[r.Intn(len(soup))])
			if r.Bool() {
				sb.WriteByte(' ')
			}
		}
		checkOne(c, mk("bytes", sb.String(), mode))
	case k < 9: // truncations of a valid program
		_, src := validProgram(r)
		if len(src) > 1500 {
			src = src[:1500]
		}
		step := 1
		if !c.Thorough() {
			step = 1 + len(src)/120
		}
		for cut := r.Intn(step); cut < len(src); cut += step {
			checkOne(c, mk("truncation", src[:cut], mode))
		}
	case k < 13: // token mutations
		p, _ := validProgram(r)
		toks := gt.Tokens(p)
		if len(toks) > 400 {
			toks = toks[:400]
		}
		for m := 0; m < 12; m++ {
			t := append([]string{}, toks...)
			j := r.Intn(len(t))
			switch r.Intn(5) {
			case 0:
				t = append(t[:j], t[j+1:]...)
			case 1:
				t = append(t[:j], append([]string{soup[r.Intn(len(soup))]}, t[j:]...)...)
			case 2:
				k2 := r.Intn(len(t))
				t[j], t[k2] = t[k2], t[j]
			case 3:
				t = append(t[:j], append([]string{t[j]}, t[j:]...)...)
			default:
				t[j] = soup[r.Intn(len(soup))]
			}
			checkOne(c, mk("token-mutation", strings.Join(t, " "), mode))
		}
	case k < 17: // constructive invalidity
		_, src := validProgram(r)
		if len(src) > 3000 {
			src = "log('pre');\nvar pre = 1;"
		}
		s := invalidSnippets[r.Intn(len(invalidSnippets))]
		if r.Chance(1, 3) {
			s = contextInvalid(r)
		}
		in := mk("invalid", src+"\n"+s, mode)
		if r.Bool() {
			in = mk("invalid", s+"\n"+src, mode)
			// a snippet that opens an unterminated token would swallow the rest either way
		}
		in.Invalid = s
		checkOne(c, in)
	case k == 23: // several sources parsed into one file.FileSet (bases other than 1)
		in := Input{Kind: "fileset", Mode: mode}
		for n := r.Range(2, 4); n > 0; n-- {
			_, src := validProgram(r)
			if len(src) > 1200 {
				src = "var x = 1;\n  f(x)"
			}
			if r.Chance(1, 6) {
				src = []string{"", "// only a comment", "\n\n", "x", ";"}[r.Intn(5)]
			}
			in.Srcs = append(in.Srcs, src)
		}
		checkFileSet(c, in)
		return
	case k == 22: // parser.ParseFunction: parameter and body texts (the Function constructor's path)
		for m := 0; m < 20; m++ {
			checkParseFunction(c, genParseFunction(r))
		}
		return
	case k >= 20: // literal internals: escape and pattern fragments inside string / regexp / numeric literals
		for m := 0; m < 25; m++ {
			checkOne(c, mk("literal", litfuzz.Source(r), mode))
		}
	case k < 18: // nesting bombs
		depth := []int{10, 100, 400, 1000}[r.Intn(4)]
		open := []string{"(", "[", "{", "a?", "!", "-", "f(", "[[", "{a:", "function(){", "if(1)", "new "}[r.Intn(12)]
		if open == "{a:" && depth > 400 {
			// duplicate-label recovery is super-linear (3000 levels take ~1 min
			// unloaded): observed, bounded here, not judged by wall-clock
			depth = 400
		}
		src := strings.Repeat(open, depth)
		if r.Bool() {
			closer := map[string]string{"(": ")", "[": "]", "{": "}", "f(": ")", "[[": "]]", "{a:": "}", "function(){": "}"}[open]
			src += "1" + strings.Repeat(closer, depth)
		}
		checkOne(c, mk("nesting", src, mode))
	default: // valid programs: must be accepted, tree well-formed
		_, src := validProgram(r)
		if r.Bool() {
			// forms the program generator does not produce
			src += "\n" + validSnippets[r.Intn(len(validSnippets))]
		}
		checkOne(c, mk("valid", src, mode))
	}
}

// ---------------------------------------------------------------- monitors

type res struct {
	prog *ast.Program
	err  error
	pv   interface{}
	st   string
	done bool
}

func parse(src string, mode int) res {
	ch := make(chan res, 1)
	go func() {
		var r res
		r.pv, r.st = run.Guard(func() { r.prog, r.err = parser.ParseFile(nil, "", src, parser.Mode(mode)) })
		r.done = true
		ch <- r
	}()
	select {
	case r := <-ch:
		return r
	case <-time.After(20 * time.Second):
		return res{}
	}
}

// genParseFunction draws the two texts of parser.ParseFunction. "closes" cases
// end the function early and continue with something else: they are complete
// programs once wrapped, but neither text is a FormalParameterList / FunctionBody
// (15.3.2.1), so they must be rejected.
func genParseFunction(r *gen.Rand) Input {
	in := Input{Kind: "parsefunction"}
	params := []string{"", "a", "a, b", "a,b,c", " a ", "a /* c */, b", "\\u0061", "a\n", "a, b // c", "a // c\n, b", "a /* c */"}
	bodies := []string{"", "return a", "return a + b;", "var x = 1; return x", "if (a) { return 1 } return 2", "// c", "/* c */ return 1", "return function(){ return a }", "x: for(;;) break x"}
	switch r.Intn(4) {
	case 0: // well-formed
		in.Params, in.Body = params[r.Intn(len(params))], bodies[r.Intn(len(bodies))]
		in.WellFormed = true
	case 1: // early close in the body
		in.Params = params[r.Intn(len(params))]
		pre := bodies[r.Intn(len(bodies))]
		if strings.HasPrefix(pre, "//") {
			pre += "\n" // an early close inside a line comment closes nothing
		}
		in.Body = pre + []string{"}); (function(){", "}), (function(){", "} + function(){", "}; x = function(){", "})(1); (function(){", "}).call(this), (function(){", "}\n);\n(function(){", "}) /* */ , (function(){"}[r.Intn(8)] + bodies[r.Intn(len(bodies))]
		in.Closes = true
	case 2: // early close in the parameters
		in.Params = []string{"a){}), (function(b", "){}); (function(", "a){} + function(", "a) { return 1 }), (function(b", "a, b){}); (function(c", "/*", "a /*", "a, /* b"}[r.Intn(8)]
		in.Body = bodies[r.Intn(len(bodies))]
		if strings.HasSuffix(in.Params, "/*") || strings.HasSuffix(in.Params, "/* b") {
			in.Body = "*/){" + in.Body // the comment opened in the parameters would swallow the glue
		}
		in.Closes = true
	default: // junk: totality only
		in.Params = []string{"", "a", "a,", ",", "a b", "1", "a = 1", "...a", "{a}", "(", ")", "/*", "//", "a\\", "\u2028"}[r.Intn(15)]
		in.Body = litfuzz.Source(r)
		if r.Bool() {
			in.Body = []string{"}", "{", "})", "({", "*/", "/*", "return", "return }", "\\", "'", "}}}}", "});"}[r.Intn(12)]
		}
	}
	return in
}

func checkParseFunction(c *run.Ctx, in Input) {
	c.Announce(in)
	c.Eval(1)
	c.Feature("kind:parsefunction")
	var fn *ast.FunctionLiteral
	var err error
	if pv, st := run.Guard(func() { fn, err = parser.ParseFunction(in.Params, in.Body) }); pv != nil {
		c.Fail("panic", "parser.ParseFunction", in, "function literal or error", fmt.Sprint(pv), st)
		return
	}
	switch {
	case err == nil && fn == nil:
		c.Fail("mismatch", "parser.ParseFunction", in, "a function literal", "nil literal and nil error", "")
	case err == nil && in.Closes:
		c.Fail("mismatch", "parsefunction-accepts-early-close", in, "SyntaxError: the texts are not a FormalParameterList and a FunctionBody (15.3.2.1)", "accepted", "")
	case err != nil && in.WellFormed:
		c.Fail("mismatch", "parsefunction-rejects-valid", in, "a function literal", "rejected: "+err.Error(), "")
	case err != nil:
		c.Feature("parsefunction:rejected")
	default:
		c.Feature("parsefunction:accepted")
	}
	// the same texts through the Function constructor of a runtime: an error or a function, never a Go panic
	v := theVM()
	v.Set("$p", in.Params)
	v.Set("$b", in.Body)
	out := ox.Run(v, "typeof Function($p, $b)")
	if out.Panic != nil {
		c.Fail("panic", "Function(params, body)", in, "function or SyntaxError", fmt.Sprint(out.Panic), out.Stack)
		vm = nil
	} else if in.Closes && out.Err == nil {
		c.Fail("mismatch", "function-constructor-accepts-early-close", in, "SyntaxError", out.Val.String(), "")
	}
	c.Nontrivial("pf|" + in.Params + "|" + in.Body)
}

// checkFileSet parses several sources into one FileSet: every program must
// carry the file it was parsed from (name, source, the base the set assigned),
// its nodes' spans must lie inside that file, and looking a node up through the
// set must give the same file and the same position as through the file.
func checkFileSet(c *run.Ctx, in Input) {
	c.Announce(in)
	c.Feature("kind:fileset")
	fs := &file.FileSet{}
	next := 1
	for i, src := range in.Srcs {
		name := fmt.Sprintf("f%d.js", i)
		var prog *ast.Program
		var err error
		if pv, st := run.Guard(func() { prog, err = parser.ParseFile(fs, name, src, parser.Mode(in.Mode)) }); pv != nil {
			c.Fail("panic", "parser.ParseFile", in, "tree or error list", fmt.Sprint(pv), st)
			return
		}
		c.Eval(1)
		base := next
		next = base + len(src) + 1
		if err != nil || prog == nil {
			continue
		}
		one := Input{Kind: "fileset", Mode: in.Mode, Srcs: in.Srcs, Src: fmt.Sprintf("file %d of %d", i, len(in.Srcs))}
		if prog.File == nil || prog.File.Base() != base || prog.File.Name() != name || prog.File.Source() != src {
			got := "nil File"
			if prog.File != nil {
				got = fmt.Sprintf("base %d name %q source length %d", prog.File.Base(), prog.File.Name(), len(prog.File.Source()))
			}
			c.Fail("mismatch", "fileset-program-file", one, fmt.Sprintf("base %d name %q source length %d", base, name, len(src)), got, "")
			continue
		}
		checkTree(c, one, src, prog)
		bad := 0
		ast.Walk(posVisitor(func(n ast.Node) {
			if bad > 0 {
				return
			}
			i0 := n.Idx0()
			want := prog.File.Position(i0)
			var got *file.Position
			var f *file.File
			if pv, _ := run.Guard(func() { got, f = fs.Position(i0), fs.File(i0) }); pv != nil {
				bad++
				c.Fail("panic", "fileset-position", one, "position", fmt.Sprint(pv), "")
				return
			}
			if int(i0) >= base+len(src) {
				return // end-of-file index: no character there
			}
			same := f != nil && f.Name() == name && f.Base() == base && f.Source() == src
			if !same || (want == nil) != (got == nil) || (want != nil && *want != *got) {
				bad++
				c.Fail("mismatch", "fileset-position", one, fmt.Sprintf("%v in %s", want, name), fmt.Sprintf("%v (file found: %v)", got, same), fmt.Sprintf("node %T at index %d", n, i0))
			}
		}), prog)
	}
	c.Nontrivial("fileset|" + strings.Join(in.Srcs, "\x00"))
}

type posVisitor func(n ast.Node)

func (v posVisitor) Enter(n ast.Node) ast.Visitor {
	if n != nil && !reflect.ValueOf(n).IsNil() {
		v(n)
	}
	return v
}
func (v posVisitor) Exit(n ast.Node) {}

func checkOne(c *run.Ctx, in Input) {
	if in.Kind == "fileset" {
		checkFileSet(c, in)
		return
	}
	if in.Kind == "parsefunction" {
		checkParseFunction(c, in)
		return
	}
	src := in.source()
	c.Announce(in)
	c.Eval(1)
	c.Feature("kind:" + in.Kind)
	r := parse(src, in.Mode)
	if !r.done {
		// still running after the backstop: let the driver's watchdog decide
		// (the goroutine keeps the worker busy; block here so the case is the culprit)
		time.Sleep(400 * time.Second)
		c.Inconclusive("parser exceeded the 20 s backstop")
		return
	}
	if r.pv != nil {
		c.Fail("panic", "parser.ParseFile", in, "tree or error list", fmt.Sprint(r.pv), r.st)
		return
	}
	nontrivial := false
	if r.err != nil {
		c.Feature("outcome:rejected")
		checkPositions(c, in, src, r.err)
		if r.prog != nil && len(r.prog.Body) > 0 {
			nontrivial = true
		}
	} else {
		c.Feature("outcome:accepted")
		if in.Kind == "invalid" {
			c.Fail("mismatch", "accepts-invalid", in, "SyntaxError (ES5 early error): "+in.Invalid, "accepted", "")
		}
		if r.prog == nil {
			c.Fail("mismatch", "parser.ParseFile", in, "a program", "nil program and nil error", "")
			return
		}
		n := checkTree(c, in, src, r.prog)
		if n >= 5 {
			nontrivial = true
		}
		// an accepted text can be compiled (the tree is converted, nothing runs)
		if pv, st := run.Guard(func() { _, _ = theVM().Compile("", src) }); pv != nil {
			c.Fail("panic", "Compile(accepted source)", in, "a Script or an error", fmt.Sprint(pv), st)
		}
	}
	if in.Kind == "invalid" || in.Kind == "valid" {
		nontrivial = true
		checkRuntime(c, in, src, r.err != nil)
	}
	if in.Kind == "valid" && r.err != nil {
		c.Fail("mismatch", "rejects-valid", in, "accepted", "rejected: "+r.err.Error(), "")
	}
	if nontrivial {
		c.Nontrivial(src)
	}
	if c.Index%499 == 0 {
		s := src
		if len(s) > 300 {
			s = s[:300] + "…"
		}
		c.Sample(map[string]interface{}{"kind": in.Kind, "src": s, "rejected": r.err != nil})
	}
}

// checkPositions: every reported error position lies inside the input.
func checkPositions(c *run.Ctx, in Input, src string, err error) {
	pel, ok := err.(*parser.ErrorList)
	if !ok || pel == nil {
		c.Fail("mismatch", "error-type", in, "*parser.ErrorList", fmt.Sprintf("%T", err), "")
		return
	}
	el := *pel
	// upper bound on the number of lines: every 7.3 line terminator counts
	lines := 1 + strings.Count(src, "\n") + strings.Count(src, "\r") + strings.Count(src, "\u2028") + strings.Count(src, "\u2029")
	for _, e := range el {
		p := e.Position
		if p.Line < 1 || p.Line > lines+1 || p.Column < 0 || p.Column > len(src)+2 || p.Offset < 0 || p.Offset > len(src)+1 {
			c.Fail("mismatch", "error-position", in, fmt.Sprintf("position within %d lines / %d bytes", lines, len(src)), fmt.Sprintf("line %d column %d offset %d: %s", p.Line, p.Column, p.Offset, e.Message), "")
			return
		}
	}
}

var nodeIface = reflect.TypeOf((*ast.Node)(nil)).Elem()

func isNilNode(n ast.Node) bool {
	if n == nil {
		return true
	}
	v := reflect.ValueOf(n)
	return v.Kind() == reflect.Ptr && v.IsNil()
}

// childrenOf discovers child nodes by reflection, independently of ast.Walk.
func childrenOf(n ast.Node) []ast.Node {
	var out []ast.Node
	v := reflect.ValueOf(n)
	if v.Kind() == reflect.Ptr {
		v = v.Elem()
	}
	if v.Kind() != reflect.Struct {
		return nil
	}
	t := v.Type()
	var add func(f reflect.Value)
	add = func(f reflect.Value) {
		switch f.Kind() {
		case reflect.Interface, reflect.Ptr:
			if f.IsNil() {
				return
			}
			if f.Type().Implements(nodeIface) || (f.Kind() == reflect.Interface && f.Elem().Type().Implements(nodeIface)) {
				if nn, ok := f.Interface().(ast.Node); ok && !isNilNode(nn) {
					out = append(out, nn)
				}
			} else if f.Kind() == reflect.Ptr && f.Elem().Kind() == reflect.Struct {
				// a helper struct that is not itself a node (e.g. *ParameterList)
				e := f.Elem()
				for i := 0; i < e.NumField(); i++ {
					add(e.Field(i))
				}
			}
		case reflect.Slice:
			for i := 0; i < f.Len(); i++ {
				add(f.Index(i))
			}
		case reflect.Struct:
			if f.Type().Name() == "Property" {
				add(f.FieldByName("Value"))
			}
		}
	}
	for i := 0; i < v.NumField(); i++ {
		name := t.Field(i).Name
		if name == "DeclarationList" || name == "Comments" || name == "File" {
			continue
		}
		add(v.Field(i))
	}
	return out
}

type walkRec struct {
	enter map[ast.Node]int
	exit  map[ast.Node]int
	stack []ast.Node
	bad   string
}

func (w *walkRec) Enter(n ast.Node) ast.Visitor {
	if isNilNode(n) {
		if w.bad == "" {
			w.bad = fmt.Sprintf("Enter called with nil node (%T)", n)
		}
		return w
	}
	w.enter[n]++
	w.stack = append(w.stack, n)
	return w
}

func (w *walkRec) Exit(n ast.Node) {
	if isNilNode(n) {
		if w.bad == "" {
			w.bad = fmt.Sprintf("Exit called with nil node (%T)", n)
		}
		return
	}
	w.exit[n]++
	if len(w.stack) == 0 || w.stack[len(w.stack)-1] != n {
		if w.bad == "" {
			w.bad = fmt.Sprintf("Exit(%T) does not match the innermost Enter", n)
		}
		return
	}
	w.stack = w.stack[:len(w.stack)-1]
}

// checkTree verifies spans and the Walk event stream; returns the node count.
func checkTree(c *run.Ctx, in Input, src string, prog *ast.Program) int {
	base := file.Idx(1)
	if prog.File != nil {
		base = file.Idx(prog.File.Base())
	}
	end := base + file.Idx(len(src))
	count := 0
	reported := map[string]bool{}
	report := func(site, exp, act string) {
		if !reported[site] {
			reported[site] = true
			c.Fail("mismatch", site, in, exp, act, "")
		}
	}
	seen := map[ast.Node]bool{}
	var visit func(n ast.Node, p0, p1 file.Idx, depth int)
	visit = func(n ast.Node, p0, p1 file.Idx, depth int) {
		if seen[n] || depth > 5000 {
			return
		}
		seen[n] = true
		count++
		switch n.(type) {
		case *ast.BadExpression, *ast.BadStatement:
			// the parser's recovery placeholder: only legitimate next to a reported error
			report("bad-node-in-accepted-tree", "no Bad* node when ParseFile reports no error", fmt.Sprintf("%T", n))
		}
		var i0, i1 file.Idx
		pv, st := run.Guard(func() { i0, i1 = n.Idx0(), n.Idx1() })
		if pv != nil {
			report("span-panic", "Idx0/Idx1 return", fmt.Sprintf("%T: %v @ %s", n, pv, st))
			i0, i1 = p0, p1
		} else {
			switch {
			case i0 > i1:
				report("span-order", "Idx0 <= Idx1", fmt.Sprintf("%T: [%d,%d)", n, i0, i1))
			case i0 < base || i1 > end+1:
				report("span-outside-file", fmt.Sprintf("within [%d,%d]", base, end), fmt.Sprintf("%T: [%d,%d)", n, i0, i1))
			case depth > 0 && (i0 < p0 || i1 > p1):
				report("span-outside-parent", fmt.Sprintf("within parent [%d,%d)", p0, p1), fmt.Sprintf("%T: [%d,%d)", n, i0, i1))
			}
		}
		for _, ch := range childrenOf(n) {
			visit(ch, i0, i1, depth+1)
		}
	}
	visit(prog, base, end+1, 0)

	w := &walkRec{enter: map[ast.Node]int{}, exit: map[ast.Node]int{}}
	pv, st := run.Guard(func() { ast.Walk(w, prog) })
	if pv != nil {
		report("walk-panic", "Walk returns", fmt.Sprintf("%v @ %s", pv, st))
		return count
	}
	if w.bad != "" {
		report("walk-stream", "well-nested Enter/Exit over non-nil nodes", w.bad)
	}
	if len(w.stack) != 0 {
		report("walk-stream", "every Enter matched by an Exit", fmt.Sprintf("%d unmatched", len(w.stack)))
	}
	var missing, twice []string
	for n := range seen {
		switch w.enter[n] {
		case 1:
		case 0:
			missing = append(missing, fmt.Sprintf("%T", n))
		default:
			twice = append(twice, fmt.Sprintf("%T", n))
		}
	}
	for n := range w.enter {
		if !seen[n] {
			twice = append(twice, fmt.Sprintf("%T(not a reflective child)", n))
		}
	}
	sort.Strings(missing)
	sort.Strings(twice)
	if len(missing) > 0 {
		report("walk-missing:"+missing[0], "every non-nil node visited once", "not visited: "+strings.Join(uniq(missing), ","))
	}
	if len(twice) > 0 {
		report("walk-twice:"+twice[0], "every non-nil node visited once", "visited more than once / unknown: "+strings.Join(uniq(twice), ","))
	}
	c.FeatureN("nodes", count)
	return count
}

func uniq(xs []string) []string {
	var out []string
	for i, x := range xs {
		if i == 0 || xs[i-1] != x {
			out = append(out, x)
		}
	}
	return out
}

// checkRuntime: a rejected source has no effect on a runtime asked to run it
// (no host call, global object unchanged); an accepted one must not be
// reported as a SyntaxError by Run.
func checkRuntime(c *run.Ctx, in Input, src string, rejected bool) {
	v := theVM()
	lg.Events = nil
	snap := func() string {
		out := ox.Run(v, "Object.getOwnPropertyNames(this).sort().join()")
		if out.Err != nil || out.Panic != nil {
			return "snapshot-failed"
		}
		return out.Val.String()
	}
	if !rejected {
		return
	}
	before := snap()
	lg.Events = nil
	out := ox.Run(v, src)
	if out.Panic != nil {
		c.Fail("panic", "Run(rejected source)", in, "error", fmt.Sprint(out.Panic), out.Stack)
		vm = nil
		return
	}
	events := len(lg.Events)
	after := snap()
	if out.Err == nil {
		c.Fail("mismatch", "run-accepts-rejected", in, "Run returns the parse error", "Run succeeded", "")
		vm = nil
		return
	}
	if events != 0 || before != after {
		c.Fail("mismatch", "rejected-has-effects", in, "no host call, global object unchanged", fmt.Sprintf("%d host calls; globals before=%q after=%q", events, clipS(before), clipS(after)), "")
		vm = nil
	}
	c.Feature("runtime-rejection-checked")
}

func clipS(s string) string {
	if len(s) > 200 {
		return s[len(s)-200:]
	}
	return s
}
