package c04

import "verif/internal/run"

// Open C04 findings are identified by the exact invalid construct that is
// accepted (an input-region matcher on the inserted construct only): any other
// accepted-invalid construct, and every other failure kind, stays a VIOLATION.
var acceptedConstructs = map[string][]string{
	"c04.accepts.setterArity":       {"({set a() {}});"},
	"c04.accepts.missingComma":      {"({a:1 b:2});"},
	"c04.accepts.argsTrailingComma": {"f(a,);", "new f(a,);"},
	"c04.accepts.regexpFlags":       {"x = /a/x;", "x = /a/gg;"},
	"c04.accepts.regexpGroup":       {"x = /(?<n>a)/;"},
	"c04.accepts.doWhileSemicolon":  {"do ; while (0) x;", "do x++; while (x < 5) y = 2;", "if (a) do ; while (0) else b;"},
}

func registerMatchers() {
	for name, list := range acceptedConstructs {
		list := list
		run.RegisterMatcher(name, func(f *run.Failure) bool {
			in, ok := f.In.(Input)
			if !ok || f.Site != "accepts-invalid" {
				return false
			}
			for _, s := range list {
				if in.Invalid == s {
					return true
				}
			}
			return false
		})
	}
}
