package c09

import (
	"fmt"
	"strconv"
	"strings"

	"verif/internal/ox"
	"verif/internal/refstr"
)

// prelude is evaluated once per VM. U reads a string back as its length plus
// its code units (charCodeAt loop); show logs a value type-faithfully through
// two channels: the code-unit readback and the raw value (which the host
// logger converts through otto's Go string export).
const prelude = `
var T=[];
function U(s){var a=[],i;for(i=0;i<s.length;i++)a.push(s.charCodeAt(i));return s.length+"["+a.join(",")+"]";}
function show(v){
  var t=typeof v,i,p,c;
  if(t==="string"){log("s",U(v),v);return;}
  if(t==="object"&&v!==null){
    c=Object.prototype.toString.call(v);
    if(c==="[object Array]"){p=[];for(i=0;i<v.length;i++){p.push(typeof v[i]==="string"?U(v[i]):"!"+typeof v[i]);}
      log("a",v.length,p.join("|"));for(i=0;i<v.length;i++)log("e",v[i]);return;}
    if(c==="[object String]"){log("S",typeof v,typeof v.valueOf(),U(v.valueOf()),U(v.toString()),v.length,v.valueOf());return;}
    log("o",c);return;
  }
  log("v",v);
}
function E(x){return (x instanceof TypeError)?"TypeError":(x instanceof RangeError)?"RangeError":(x instanceof Error)?"Error:"+x.name:"nonerror";}
`

// jsString renders code units as a JavaScript expression using the given route.
func jsString(s []uint16, route string) string {
	switch route {
	case "fcc":
		parts := make([]string, len(s))
		for i, u := range s {
			parts[i] = strconv.Itoa(int(u))
		}
		return "String.fromCharCode.apply(null,[" + strings.Join(parts, ",") + "])"
	case "cat":
		// concatenation of chunks that never split a surrogate pair:
		// alternately literals and fromCharCode results.
		if len(s) == 0 {
			return `(""+"")`
		}
		var parts []string
		for i := 0; i < len(s); {
			j := i + 1
			if s[i] >= 0xD800 && s[i] <= 0xDBFF && j < len(s) && s[j] >= 0xDC00 && s[j] <= 0xDFFF {
				j++
			}
			if len(parts)%2 == 0 {
				parts = append(parts, jsLiteral(s[i:j]))
			} else {
				nums := make([]string, j-i)
				for k := i; k < j; k++ {
					nums[k-i] = strconv.Itoa(int(s[k]))
				}
				parts = append(parts, "String.fromCharCode("+strings.Join(nums, ",")+")")
			}
			i = j
		}
		return "(" + strings.Join(parts, "+") + ")"
	}
	if route == "esc" {
		return ox.JSUnits(s)
	}
	return jsLiteral(s)
}

// jsLiteral renders a string literal in which well-formed surrogate pairs are
// written as the raw (UTF-8) source character and every other unit outside
// printable ASCII as a \uXXXX escape.
func jsLiteral(s []uint16) string {
	var b strings.Builder
	b.WriteByte('"')
	for i := 0; i < len(s); i++ {
		c := s[i]
		switch {
		case c >= 0xD800 && c <= 0xDBFF && i+1 < len(s) && s[i+1] >= 0xDC00 && s[i+1] <= 0xDFFF:
			b.WriteRune(0x10000 + (rune(c)-0xD800)<<10 + (rune(s[i+1]) - 0xDC00))
			i++
		case c == '"' || c == '\\':
			b.WriteByte('\\')
			b.WriteByte(byte(c))
		case c >= 0x20 && c < 0x7f:
			b.WriteByte(byte(c))
		default:
			fmt.Fprintf(&b, "\\u%04X", c)
		}
	}
	b.WriteByte('"')
	return b.String()
}

// jsVal renders a value description as a JavaScript expression.
func jsVal(v *refstr.Val) string {
	switch v.K {
	case "undef":
		return "undefined"
	case "null":
		return "null"
	case "bool":
		return strconv.FormatBool(v.B)
	case "num":
		return ox.JSNum(float64(v.N))
	case "str":
		return jsString(v.S, v.R)
	case "sobj":
		return "new String(" + jsString(v.S, v.R) + ")"
	case "nobj":
		return "new Number(" + ox.JSNum(float64(v.N)) + ")"
	case "bobj":
		return "new Boolean(" + strconv.FormatBool(v.B) + ")"
	case "arr":
		parts := make([]string, len(v.A))
		for i := range v.A {
			parts[i] = jsVal(&v.A[i])
		}
		return "[" + strings.Join(parts, ",") + "]"
	case "obj":
		var props []string
		if v.NoTS {
			props = append(props, "toString:null")
		} else if v.TS != nil {
			props = append(props, fmt.Sprintf("toString:function(){T.push(\"o%d.toString\");return %s}", v.ID, jsVal(v.TS)))
		}
		if v.VO != nil {
			props = append(props, fmt.Sprintf("valueOf:function(){T.push(\"o%d.valueOf\");return %s}", v.ID, jsVal(v.VO)))
		}
		return "({" + strings.Join(props, ",") + "})"
	}
	panic("jsVal: unknown kind " + v.K)
}

func jsArgs(args []refstr.Val) string {
	parts := make([]string, len(args))
	for i := range args {
		parts[i] = jsVal(&args[i])
	}
	return strings.Join(parts, ",")
}

// callExpr renders the method invocation for the chosen route.
func callExpr(method, via string, this *refstr.Val, args []refstr.Val) string {
	a := jsArgs(args)
	switch via {
	case "call":
		if a != "" {
			a = "," + a
		}
		return "String.prototype." + method + ".call(" + jsVal(this) + a + ")"
	case "apply":
		return "String.prototype." + method + ".apply(" + jsVal(this) + ",[" + a + "])"
	}
	call := "(" + jsVal(this) + ")." + method + "(" + a + ")"
	if this.K == "str" && method != "toString" && method != "valueOf" && allPrimitive(args) {
		// 11.2.3 step 6.a.i: the this value of the call is the primitive itself, and ToString of a primitive
		// string consults nothing: overriding String.prototype.toString / valueOf must not be observable
		return `(function(){var T=String.prototype.toString,V=String.prototype.valueOf;String.prototype.toString=function(){return "zzz"};String.prototype.valueOf=function(){return "yyy"};try{return ` + call + `}finally{String.prototype.toString=T;String.prototype.valueOf=V}})()`
	}
	return call
}

func allPrimitive(args []refstr.Val) bool {
	for i := range args {
		switch args[i].K {
		case "str", "num", "undef", "null", "bool":
		default:
			return false
		}
	}
	return true
}
