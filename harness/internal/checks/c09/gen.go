package c09

import (
	"math"
	"unicode/utf16"

	"verif/internal/gen"
	"verif/internal/refstr"
)

type V = refstr.Val

// Input is one self-contained case.
type Input struct {
	// Op: a String.prototype method name, or fromCharCode | String |
	// newString | index | props | lcmp
	Op string `json:"op"`
	// Via: member | call | apply for methods; "desc" (index) adds the property
	// descriptor observation; "define" (props) adds the defineProperty attempt
	Via  string `json:"via,omitempty"`
	This V      `json:"this"`
	Args []V    `json:"args,omitempty"`
}

// ------------------------------------------------------------ strings

var (
	asciiUnits = []uint16{'a', 'A', 'b'}
	bmpUnits   = []uint16{0xE9, 0xDF, 0x130, 0x0000, 0xFFFF}
	astral     = [][]uint16{{0xD800, 0xDC00}, {0xD83D, 0xDE00}}
	loneUnits  = []uint16{0xD800, 0xDC00}
)

func genLen(r *gen.Rand) int {
	switch r.Intn(12) {
	case 0:
		return 0
	case 1:
		return 1
	}
	return r.Range(2, 8)
}

// genUnits returns a string of at most 8 units and its class.
func genUnits(r *gen.Rand) ([]uint16, string) {
	cls := []string{"ascii", "bmp", "astral", "lone", "fffd"}[r.Weighted([]int{46, 26, 20, 4, 4})]
	n := genLen(r)
	s := []uint16{}
	special := false
	for len(s) < n {
		k := r.Intn(10)
		switch {
		case cls == "ascii" || k < 4:
			s = append(s, asciiUnits[r.Intn(len(asciiUnits))])
		case cls == "bmp" || k < 6:
			s = append(s, bmpUnits[r.Intn(len(bmpUnits))])
		case cls == "astral":
			if len(s)+2 <= n {
				s = append(s, astral[r.Intn(2)]...)
				special = true
			} else {
				s = append(s, 'b')
			}
		case cls == "lone":
			if k < 8 {
				s = append(s, loneUnits[r.Intn(2)])
				special = true
			} else if len(s)+2 <= n {
				s = append(s, astral[r.Intn(2)]...)
			} else {
				s = append(s, 'a')
			}
		case cls == "fffd":
			s = append(s, 0xFFFD)
			special = true
		}
	}
	_ = special
	return s, classOf(s)
}

// classOf classifies a unit string: empty | ascii | bmp | astral (well-formed
// with a pair) | lone | fffd (contains U+FFFD, well-formed).
func classOf(s []uint16) string {
	if len(s) == 0 {
		return "empty"
	}
	if !refstr.WellFormed(s) {
		return "lone"
	}
	cls := "ascii"
	for _, u := range s {
		switch {
		case u == 0xFFFD:
			return "fffd"
		case u >= 0xD800 && u <= 0xDFFF:
			cls = "astral"
		case u >= 0x80 && cls == "ascii":
			cls = "bmp"
		}
	}
	return cls
}

// route picks how a string is built in JavaScript: lit (literal; surrogate
// pairs as raw UTF-8 source characters, everything else as \uXXXX escapes),
// esc (literal with every unit escaped, pairs as two escapes), fcc
// (String.fromCharCode.apply), cat (concatenation of literal and
// fromCharCode chunks).
func route(r *gen.Rand) string {
	return []string{"lit", "esc", "fcc", "cat"}[r.Weighted([]int{20, 1, 16, 8})]
}

// canonPairs: canonically equivalent spellings (precomposed / decomposed, singleton, Hangul, reordered marks).
var canonPairs = [][2]string{{"\u00e9", "e\u0301"}, {"\u212b", "\u00c5"}, {"\u00c5", "A\u030a"}, {"\uac00", "\u1100\u1161"}, {"\u1e69", "s\u0323\u0307"},
	{"s\u0323\u0307", "s\u0307\u0323"}, {"\u00f1", "n\u0303"}, {"\u2126", "\u03a9"}}

func strVal(r *gen.Rand, s []uint16) V { return V{K: "str", S: s, R: route(r)} }

func asciiVal(s string) V { return V{K: "str", S: refstr.ASCII(s), R: "lit"} }

func numVal(x float64) V { return V{K: "num", N: gen.F(x)} }

// ------------------------------------------------------------ receivers

var stringableNums = []float64{0, 1, 5, 12, -7, 123, 1.5, -0.5, 4294967296, 9007199254740991}

func genStringableNum(r *gen.Rand) float64 {
	switch r.Intn(8) {
	case 0:
		return math.NaN()
	case 1:
		return math.Inf(1)
	case 2:
		return math.Inf(-1)
	case 3:
		return math.Copysign(0, -1)
	}
	return stringableNums[r.Intn(len(stringableNums))]
}

var nextID int

func newID() int { nextID++; return nextID }

// genStringish returns a non-string value whose ToString is computable by the
// model, for use as receiver / search string / separator / concat argument.
func genStringish(r *gen.Rand, s []uint16) V {
	switch r.Intn(14) {
	case 0, 1:
		return numVal(genStringableNum(r))
	case 2:
		return V{K: "bool", B: r.Bool()}
	case 3, 4:
		return V{K: "sobj", S: s, R: route(r)}
	case 5, 6:
		ts := strVal(r, s)
		return V{K: "obj", ID: newID(), TS: &ts}
	case 7: // valueOf only: ToString ignores it ("[object Object]")
		vo := strVal(r, s)
		return V{K: "obj", ID: newID(), VO: &vo}
	case 8: // toString not callable: falls to valueOf
		vo := strVal(r, s)
		return V{K: "obj", ID: newID(), NoTS: true, VO: &vo}
	case 9: // toString returns an object -> valueOf
		vo := strVal(r, s)
		return V{K: "obj", ID: newID(), TS: &V{K: "arr"}, VO: &vo}
	case 10:
		n := r.Intn(3)
		a := make([]V, n)
		for i := range a {
			switch r.Intn(4) {
			case 0:
				a[i] = numVal(float64(r.Range(0, 12)))
			case 1:
				a[i] = V{K: "null"}
			default:
				a[i] = asciiVal(string(rune('a' + r.Intn(2))))
			}
		}
		return V{K: "arr", A: a}
	case 11:
		if r.Bool() {
			return V{K: "nobj", N: gen.F(genStringableNum(r))}
		}
		return V{K: "bobj", B: r.Bool()}
	case 12: // number-returning toString
		return V{K: "obj", ID: newID(), TS: &V{K: "num", N: gen.F(float64(r.Range(0, 99)))}}
	}
	if r.Bool() {
		return V{K: "null"}
	}
	return V{K: "undef"}
}

func genThis(r *gen.Rand) (V, string) {
	s, _ := genUnits(r)
	switch k := r.Intn(100); {
	case k < 68:
		return strVal(r, s), "member"
	case k < 74:
		return V{K: "sobj", S: s, R: route(r)}, "member"
	case k < 76:
		return V{K: "undef"}, "call"
	case k < 78:
		return V{K: "null"}, "call"
	case k < 79: // both conversions return objects: TypeError
		return V{K: "obj", ID: newID(), TS: &V{K: "arr"}, VO: &V{K: "arr"}}, "member"
	}
	v := genStringish(r, s)
	for v.K == "undef" || v.K == "null" {
		v = genStringish(r, s)
	}
	return v, "member"
}

func genVia(r *gen.Rand, this *V) string {
	if this.K == "undef" || this.K == "null" {
		if r.Bool() {
			return "call"
		}
		return "apply"
	}
	if this.K != "str" && this.K != "sobj" {
		// only strings inherit from String.prototype; everything else must be
		// passed as an explicit this value
		if r.Chance(3, 5) {
			return "call"
		}
		return "apply"
	}
	return []string{"member", "call", "apply"}[r.Weighted([]int{12, 4, 3})]
}

// ------------------------------------------------------------ positions

var posStrings = []string{"1", "x", " 2 ", "0x1", "", "-1", "Infinity", "-Infinity", "1e1", "2.9", "+3", "1px"}

// genPos returns a position argument for a string of n units. The bool is
// false when the argument is to be omitted.
func genPos(r *gen.Rand, n int) (V, bool) {
	fn := float64(n)
	switch k := r.Intn(40); {
	case k == 0:
		return V{}, false
	case k == 1:
		return V{K: "undef"}, true
	case k == 2:
		return V{K: "null"}, true
	case k == 3:
		return numVal(math.Inf(-1)), true
	case k == 4:
		return numVal(math.Inf(1)), true
	case k == 5:
		return numVal(math.NaN()), true
	case k == 6:
		return numVal([]float64{-7, -1, -0.5, math.Copysign(0, -1), 0.5, 0.9, 1.5, -1.5}[r.Intn(8)]), true
	case k == 7:
		return numVal([]float64{1 << 31, 1<<31 - 1, -(1 << 31), -(1 << 31) - 1, 1 << 32, 1<<32 + 1, 1<<32 - 1, -(1 << 32), 1<<32 + 2}[r.Intn(9)]), true
	case k == 8:
		return numVal([]float64{1 << 53, math.Ldexp(1, 63), math.Ldexp(1, 63) + 2048, 1e19, -1e19, 1e30, -1e30, -math.Ldexp(1, 63), math.Ldexp(1, 63) - 1024, math.Ldexp(1, 64)}[r.Intn(10)]), true
	case k == 9:
		return asciiVal(posStrings[r.Intn(len(posStrings))]), true
	case k == 10:
		return V{K: "bool", B: r.Bool()}, true
	case k == 11: // object with valueOf
		vo := numVal(float64(r.Range(-1, n+1)))
		return V{K: "obj", ID: newID(), VO: &vo}, true
	case k == 12: // object with toString only (ToNumber: inherited valueOf returns the object, then toString)
		ts := asciiVal([]string{"1", "2", "x", "-1"}[r.Intn(4)])
		return V{K: "obj", ID: newID(), TS: &ts}, true
	case k == 13:
		switch r.Intn(4) {
		case 0:
			return V{K: "sobj", S: refstr.ASCII("1"), R: "lit"}, true
		case 1:
			return V{K: "arr", A: []V{numVal(float64(r.Range(0, n)))}}, true
		case 2:
			return V{K: "arr"}, true
		}
		return V{K: "nobj", N: gen.F(float64(r.Range(0, n)))}, true
	case k < 20: // boundary: len-1, len, len+1
		return numVal(fn + float64(r.Range(-1, 1))), true
	case k < 24: // negative in range
		return numVal(-float64(r.Range(1, n+1))), true
	case k < 27: // fractional in range
		return numVal(float64(r.Range(0, n)) + []float64{0.5, 0.9, 0.1}[r.Intn(3)]), true
	}
	return numVal(float64(r.Range(0, n+1))), true
}

func posClass(v *V, present bool, n int) string {
	if !present {
		return "omitted"
	}
	if v.K != "num" {
		return v.K
	}
	x := float64(v.N)
	switch {
	case x != x:
		return "NaN"
	case math.IsInf(x, 0):
		return "inf"
	case x != math.Trunc(x):
		return "frac"
	case x < 0 && x >= -float64(n):
		return "neg-in"
	case x < 0:
		return "neg-out"
	case x == 0 && math.Signbit(x):
		return "-0"
	case x < float64(n):
		return "in"
	case x == float64(n):
		return "len"
	case x <= float64(n)+1:
		return "len+1"
	case x >= 1<<31:
		return "huge"
	}
	return "beyond"
}

// ------------------------------------------------------------ search strings

func genSearch(r *gen.Rand, subj []uint16) V {
	var s []uint16
	switch k := r.Intn(20); {
	case k < 11 && len(subj) > 0: // a substring of the subject
		i := r.Intn(len(subj))
		j := r.Range(i+1, len(subj))
		if j > i+3 {
			j = i + r.Range(1, 3)
		}
		s = append([]uint16{}, subj[i:j]...)
		// do not cut through a surrogate pair unless the subject is already
		// ill-formed or with small probability (the result is then a lone
		// surrogate search string)
		if !refstr.WellFormed(s) && refstr.WellFormed(subj) && !r.Chance(1, 6) {
			s = append([]uint16{}, subj[i:i+1]...)
			if !refstr.WellFormed(s) {
				s = []uint16{'a'}
			}
		}
	case k < 13:
		s = []uint16{}
	case k < 17:
		all := append(append([]uint16{}, asciiUnits...), bmpUnits...)
		s = []uint16{all[r.Intn(len(all))]}
	case k < 18:
		s = append([]uint16{}, astral[r.Intn(2)]...)
	default:
		s, _ = genUnits(r)
		if len(s) > 3 {
			s = s[:3]
			if !refstr.WellFormed(s) {
				s = s[:2]
			}
		}
	}
	if r.Chance(1, 12) {
		return genStringish(r, s)
	}
	return strVal(r, s)
}

// ------------------------------------------------------------ per-op generators

var wsUnits = []uint16{0x09, 0x0A, 0x0B, 0x0C, 0x0D, 0x20, 0xA0, 0x1680, 0x2000, 0x2001, 0x2005, 0x200A, 0x2028, 0x2029, 0x202F, 0x205F, 0x3000, 0xFEFF}
var nearWsUnits = []uint16{0x85, 0x200B, 0x200C, 0x200D, 0x2060, 0x180E, 0x1F, 0x08, 0x0E, 0x1C, 0x2027, 0x202A, 0x202E, 0x2030, 0x205E, 0x2060, 0x3001, 0x2FFF, 0xFEFE, 0xFFFE, 0x00A1, 0x009F, 0x167F, 0x1681, 0x1FFF, 0x200E}

func genTrimSubject(r *gen.Rand) []uint16 {
	var s []uint16
	pick := func() uint16 {
		switch k := r.Intn(10); {
		case k < 6:
			return wsUnits[r.Intn(len(wsUnits))]
		case k < 8:
			return nearWsUnits[r.Intn(len(nearWsUnits))]
		}
		return asciiUnits[r.Intn(len(asciiUnits))]
	}
	for n := r.Intn(4); n > 0; n-- {
		s = append(s, pick())
	}
	for n := r.Intn(4); n > 0; n-- {
		switch r.Intn(4) {
		case 0:
			s = append(s, wsUnits[r.Intn(len(wsUnits))])
		case 1:
			s = append(s, astral[1]...)
		default:
			s = append(s, asciiUnits[r.Intn(len(asciiUnits))])
		}
	}
	for n := r.Intn(4); n > 0; n-- {
		s = append(s, pick())
	}
	return s
}

func genCaseSubject(r *gen.Rand, upper bool) []uint16 {
	var s []uint16
	pairs := refstr.CasePairs(upper)
	other := refstr.CasePairs(!upper)
	special := refstr.CaseSpecial(upper)
	for n := r.Range(1, 6); n > 0; n-- {
		switch k := r.Intn(20); {
		case k < 8:
			s = append(s, pairs[2*r.Intn(len(pairs)/2)])
		case k < 11:
			s = append(s, other[2*r.Intn(len(other)/2)])
		case k < 12:
			s = append(s, special[r.Intn(len(special))])
		case k < 15:
			s = append(s, asciiUnits[r.Intn(len(asciiUnits))])
		case k < 17:
			s = append(s, bmpUnits[r.Intn(len(bmpUnits))])
		case k < 18:
			s = append(s, uint16(r.Intn(0xD800))) // any BMP unit below the surrogates
		case k < 19:
			s = append(s, uint16(0xE000+r.Intn(0x2000)))
		case r.Bool():
			s = append(s, astral[r.Intn(2)]...)
		default:
			s = append(s, astralCased[r.Intn(len(astralCased))]...)
		}
	}
	return s
}

// astralCased: supplementary letters with a simple case mapping (Deseret, Osage, Adlam, Warang Citi
// capitals and small letters). ES5.1 15.5.4.16/18 works on code units and transfers surrogates unchanged.
var astralCased = [][]uint16{{0xD801, 0xDC00}, {0xD801, 0xDC28}, {0xD801, 0xDCB0}, {0xD801, 0xDCD8}, {0xD83A, 0xDD00}, {0xD83A, 0xDD22}, {0xD806, 0xDCA0}, {0xD806, 0xDCC0}}

var indexKeys = []string{"01", "+1", "-0", "1.0", "1e0", " 1", "0x1", "00", "length", "1 ", "-1", "4294967295", "4294967296", "2147483648", "1.5", "NaN", "Infinity", "", "undefined"}

var methodWeights = []struct {
	name string
	w    int
}{
	{"charAt", 8}, {"charCodeAt", 8}, {"indexOf", 10}, {"lastIndexOf", 10}, {"slice", 9}, {"substring", 9}, {"substr", 9},
	{"split", 10}, {"concat", 5}, {"trim", 4}, {"toLowerCase", 4}, {"toUpperCase", 4}, {"localeCompare", 4},
	{"toString", 1}, {"valueOf", 1}, {"fromCharCode", 5}, {"String", 2}, {"newString", 2}, {"index", 6}, {"props", 2},
}

func generate(r *gen.Rand, i int) Input {
	nextID = 0
	w := make([]int, len(methodWeights))
	for k, m := range methodWeights {
		w[k] = m.w
	}
	op := methodWeights[r.Weighted(w)].name
	in := Input{Op: op}
	switch op {
	case "fromCharCode":
		in.Via = []string{"member", "apply"}[r.Intn(2)]
		for n := r.Intn(5); n > 0; n-- {
			var a V
			switch k := r.Intn(16); {
			case k < 5:
				a = numVal(float64(r.Intn(0x10000)))
			case k < 7:
				a = numVal([]float64{-1, -65535, -65536, -65537, 65536, 65537, 65536 + 65, 131071, 131072, -0.5, 65.9, -65.9, 65535.9, 0.9}[r.Intn(14)])
			case k < 8:
				a = numVal([]float64{math.NaN(), math.Inf(1), math.Inf(-1), math.Copysign(0, -1)}[r.Intn(4)])
			case k < 10:
				a = numVal([]float64{1 << 31, 1<<32 + 97, -(1 << 31) - 1, 1<<53 - 1, 1<<53 + 2, math.Ldexp(1, 63), math.Ldexp(1, 63) + 4096, -math.Ldexp(1, 63) - 4096, math.Ldexp(1, 64) + 8192, 1e19, 1e21, -1e21, 1e300}[r.Intn(13)])
			case k < 11:
				a = numVal([]float64{0xD800, 0xDBFF, 0xDC00, 0xDFFF, 0xFFFD, 0xFFFE, 0xFFFF, 0, 0x80, 0x7F, 0xFF, 0x100}[r.Intn(12)])
			case k < 12:
				a = asciiVal([]string{"65", "0x41", "x", "", " 97 ", "1e2", "-1"}[r.Intn(7)])
			case k < 13:
				a = []V{{K: "undef"}, {K: "null"}, {K: "bool", B: true}, {K: "bool"}}[r.Intn(4)]
			case k < 14:
				vo := numVal(float64(r.Intn(0x10000)))
				a = V{K: "obj", ID: newID(), VO: &vo}
			default: // a surrogate pair given as two arguments
				p := astral[r.Intn(2)]
				in.Args = append(in.Args, numVal(float64(p[0])))
				a = numVal(float64(p[1]))
			}
			in.Args = append(in.Args, a)
		}
		return in
	case "String", "newString":
		if r.Chance(1, 8) {
			return in // no argument
		}
		s, _ := genUnits(r)
		if r.Chance(1, 2) {
			in.Args = []V{strVal(r, s)}
		} else {
			in.Args = []V{genStringish(r, s)}
		}
		if r.Chance(1, 10) {
			in.Args = append(in.Args, asciiVal("ignored"))
		}
		return in
	case "index":
		s, _ := genUnits(r)
		if r.Chance(1, 3) {
			in.This = V{K: "sobj", S: s, R: route(r)}
		} else {
			in.This = strVal(r, s)
		}
		switch k := r.Intn(10); {
		case k < 5:
			in.Args = []V{numVal(float64(r.Range(0, len(s)+1)))}
		case k < 6:
			in.Args = []V{numVal([]float64{-1, math.Copysign(0, -1), 1.5, math.NaN(), 4294967295, 4294967296, 2147483648, math.Inf(1)}[r.Intn(8)])}
		case k < 8:
			in.Args = []V{asciiVal(indexKeys[r.Intn(len(indexKeys))])}
		default:
			d, _ := refstr.NumberToString(float64(r.Range(0, len(s)+1)))
			in.Args = []V{asciiVal(d)}
		}
		if r.Chance(1, 4) {
			in.Via = "desc" // also observe the property descriptor
		}
		return in
	case "props":
		s, _ := genUnits(r)
		in.This = V{K: "sobj", S: s, R: route(r)}
		in.Args = []V{numVal(float64(r.Range(0, len(s)+1)))}
		if r.Chance(1, 3) {
			in.Via = "define" // also attempt Object.defineProperty on the index
		}
		return in
	}
	// String.prototype methods
	in.This, _ = genThis(r)
	if (op == "charAt" || op == "charCodeAt") && r.Chance(1, 2) {
		// keep most charAt/charCodeAt cases on String receivers reached by
		// member access (every other receiver is one known finding)
		s, _ := genUnits(r)
		in.This = strVal(r, s)
		if r.Chance(1, 4) {
			in.This.K = "sobj"
		}
		in.Via = "member"
		if in.This.K == "sobj" {
			in.Via = []string{"member", "call", "apply"}[r.Intn(3)]
		}
	} else {
		in.Via = genVia(r, &in.This)
	}
	subj, err := refstr.ToString(&in.This, nil)
	if err != nil {
		subj = nil
	}
	n := len(subj)
	addPos := func() bool {
		p, ok := genPos(r, n)
		if ok {
			in.Args = append(in.Args, p)
		}
		return ok
	}
	switch op {
	case "charAt", "charCodeAt":
		addPos()
		if r.Chance(1, 20) {
			in.Args = append(in.Args, numVal(1)) // surplus argument
		}
	case "indexOf", "lastIndexOf":
		if r.Chance(1, 25) {
			break // no arguments: searches "undefined"
		}
		in.Args = append(in.Args, genSearch(r, subj))
		addPos()
	case "slice", "substring", "substr":
		if addPos() {
			addPos()
		}
	case "split":
		if r.Chance(1, 12) {
			break
		}
		switch k := r.Intn(10); {
		case k < 1:
			in.Args = append(in.Args, V{K: "undef"})
		case k < 3:
			in.Args = append(in.Args, strVal(r, []uint16{}))
		default:
			in.Args = append(in.Args, genSearch(r, subj))
		}
		switch k := r.Intn(12); {
		case k < 5: // omitted
		case k < 6:
			in.Args = append(in.Args, V{K: "undef"})
		case k < 9:
			in.Args = append(in.Args, numVal(float64(r.Range(0, 4))))
		case k < 10:
			in.Args = append(in.Args, numVal([]float64{-1, 4294967295, 4294967296, 4294967297, 4294967298, -4294967295, math.NaN(), math.Inf(1), 1.9, 0.5, -0.5, 2147483648, math.Ldexp(1, 53), -4294967294}[r.Intn(14)]))
		case k < 11:
			in.Args = append(in.Args, []V{{K: "null"}, asciiVal("2"), asciiVal("x"), {K: "bool", B: true}, asciiVal("")}[r.Intn(5)])
		default:
			vo := numVal(float64(r.Range(0, 3)))
			in.Args = append(in.Args, V{K: "obj", ID: newID(), VO: &vo})
		}
	case "concat":
		for k := r.Intn(4); k > 0; k-- {
			s, _ := genUnits(r)
			if len(s) > 3 {
				s = s[:3]
				if !refstr.WellFormed(s) && refstr.WellFormed(s[:2]) {
					s = s[:2]
				}
			}
			if r.Chance(1, 3) {
				in.Args = append(in.Args, genStringish(r, s))
			} else {
				in.Args = append(in.Args, strVal(r, s))
			}
		}
	case "trim":
		if in.This.K == "str" || in.This.K == "sobj" {
			if !r.Chance(1, 6) {
				in.This.S = genTrimSubject(r)
			}
		}
	case "toLowerCase", "toUpperCase":
		if in.This.K == "str" || in.This.K == "sobj" {
			if !r.Chance(1, 6) {
				in.This.S = genCaseSubject(r, op == "toUpperCase")
			}
		}
	case "localeCompare":
		switch k := r.Intn(10); {
		case k < 3 && subj != nil: // identical
			in.Args = []V{strVal(r, append([]uint16{}, subj...))}
		case k < 6 && subj != nil && len(subj) > 0: // one unit changed / prefix
			o := append([]uint16{}, subj...)
			if r.Bool() {
				o = o[:len(o)-1]
			} else {
				j := r.Intn(len(o))
				switch {
				case o[j] == 'a' || o[j] == 'b':
					o[j] -= 32 // differs only in case
				case o[j] == 'A':
					o[j] += 32
				case o[j] < 0xD800:
					o[j]++
				}
			}
			in.Args = []V{strVal(r, o)}
		case k < 7:
			// canonically equivalent, different code units (15.5.4.9: must compare as 0)
			if in.This.K == "str" || in.This.K == "sobj" {
				pair := canonPairs[r.Intn(len(canonPairs))]
				if r.Bool() {
					pair[0], pair[1] = pair[1], pair[0]
				}
				pre, post := refstr.ASCII([]string{"", "a", "xy"}[r.Intn(3)]), refstr.ASCII([]string{"", "b", "z "}[r.Intn(3)])
				in.This.S = append(append(append([]uint16{}, pre...), utf16.Encode([]rune(pair[0]))...), post...)
				in.Args = []V{strVal(r, append(append(append([]uint16{}, pre...), utf16.Encode([]rune(pair[1]))...), post...))}
			}
		default:
			in.Args = []V{genSearch(r, subj)}
		}
	case "toString", "valueOf":
	}
	return in
}
