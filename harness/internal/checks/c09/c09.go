// Package c09 monitors String.prototype methods, String.fromCharCode, the
// String constructor and String object indexing against ES5.1 15.5 with
// UTF-16 code-unit semantics (reference model: internal/refstr).
package c09

import (
	"encoding/json"
	"fmt"
	"strconv"
	"strings"
	"unicode/utf16"

	"github.com/robertkrimen/otto"
	"golang.org/x/text/unicode/norm"

	"verif/internal/ox"
	"verif/internal/refstr"
	"verif/internal/run"
)

func init() {
	run.Register(&run.Check{
		ID:   "C09",
		Rule: "a case is one call of a String method / String.fromCharCode / String constructor / String indexing with a generated receiver (primitive string built by literal, fromCharCode or concatenation; String object; number; boolean; object with toString/valueOf; array; null/undefined) and boundary-directed arguments; it is non-trivial when the ES5.1 model determines the complete outcome (result code units or thrown class, plus the order of user-visible conversions) and the case is distinct by its exact input",
		Assumptions: []string{
			"oracle: internal/refstr, ES5.1 15.5 / B.2.3 algorithms over []uint16, conversions 8.12.8/9.x in spec step order; no use of package strings/unicode/utf16",
			"case mapping oracle: simple one-to-one mappings of the Unicode Character Database taken from CPython's unicodedata (UCD " + refstr.CaseTableUCD + "), not from Go's package unicode which otto delegates to; code points with SpecialCasing.txt entries (sharp s, U+0130, final sigma, U+0149, ligatures ...) and supplementary-plane letters are generated but their result is not asserted",
			"white space for trim = 7.2 WhiteSpace + 7.3 LineTerminator; U+180E and U+200B (category Zs only in some Unicode versions) are generated but not asserted",
			"localeCompare: only '0 iff canonically equivalent (equal NFD forms; identical code units when a string has an unpaired surrogate)', a non-zero finite number otherwise, and antisymmetry of the sign are asserted (collation order is implementation-defined, 15.5.4.9)",
			"B.2.3 substr does not call CheckObjectCoercible in ES5.1: null/undefined receivers of substr are generated but not asserted",
			"Number->String of receivers/arguments is restricted to NaN, infinities, zeros, integers < 2^53 and n+0.5; String->Number to literals the model converts exactly (<= 15 significant digits)",
			"non-strict code only; RegExp separators/search values belong to C10",
		},
		Floor: func(tier string) int {
			if tier == "thorough" {
				return 400000
			}
			return 20000
		},
		Cases: func(tier string, seed uint64) int {
			if tier == "thorough" {
				return 24000000
			}
			return 250000
		},
		Exec:   func(c *run.Ctx, i int) { checkOne(c, generate(c.Rng, i)) },
		Replay: func(c *run.Ctx, raw json.RawMessage) { var in Input; mustUnmarshal(raw, &in); checkOne(c, in) },
	})
	registerMatchers()
}

func mustUnmarshal(raw json.RawMessage, v interface{}) {
	if err := json.Unmarshal(raw, v); err != nil {
		panic(err)
	}
}

// ------------------------------------------------------------ outcome rendering

// Outcome is what a case is expected to produce, as the list of host-logger
// events the observation script emits.
type Outcome struct {
	Events []string
	// Alt: alternative acceptable event lists (localeCompare orientation).
	Alt [][]string
	// Asserted=false: only the first token of the first event (result type),
	// the throw class and the trace are compared.
	Asserted bool
}

func evStr(s string) string { return "s:" + ox.Str(s) }

// unitsReadback is what U(s) yields for a string with these code units.
func unitsReadback(u []uint16) string {
	parts := make([]string, len(u))
	for i, c := range u {
		parts[i] = strconv.Itoa(int(c))
	}
	return strconv.Itoa(len(u)) + "[" + strings.Join(parts, ",") + "]"
}

func showString(u []uint16) string {
	return evStr("s") + "," + evStr(unitsReadback(u)) + ",s:" + ox.Units(u)
}

func showNumber(x float64) string { return evStr("v") + ",n:" + ox.Num(x) }

func showArray(a [][]uint16) []string {
	parts := make([]string, len(a))
	for i, e := range a {
		parts[i] = unitsReadback(e)
	}
	ev := []string{evStr("a") + ",n:" + strconv.Itoa(len(a)) + "," + evStr(strings.Join(parts, "|"))}
	for _, e := range a {
		ev = append(ev, evStr("e")+",s:"+ox.Units(e))
	}
	return ev
}

func showStringObject(u []uint16) string {
	return strings.Join([]string{evStr("S"), evStr("object"), evStr("string"), evStr(unitsReadback(u)), evStr(unitsReadback(u)), "n:" + strconv.Itoa(len(u)), "s:" + ox.Units(u)}, ",")
}

func showResult(r *refstr.Result) []string {
	switch r.Kind {
	case "str":
		return []string{showString(r.S)}
	case "num":
		return []string{showNumber(r.N)}
	case "arr":
		return showArray(r.A)
	}
	panic("showResult")
}

func throwEvent(class string) string { return evStr("x") + "," + evStr(class) }

func traceEvent(tr []string) string { return evStr("t") + "," + evStr(strings.Join(tr, ";")) }

func boolEv(b bool) string { return "b:" + strconv.FormatBool(b) }

// ------------------------------------------------------------ the model side

// expected computes the ES5.1 outcome of a case. ok=false: outside the model
// (generator bug; reported as inconclusive, never as pass).
func expected(in *Input) (out Outcome, ok bool, why string) {
	tr := &refstr.Trace{}
	out.Asserted = true
	fail := func(err error) (Outcome, bool, string) {
		if th, isThrow := err.(*refstr.Throw); isThrow {
			out.Events = []string{throwEvent(th.Class), traceEvent(tr.Events)}
			return out, true, ""
		}
		return out, false, err.Error()
	}
	switch in.Op {
	case "fromCharCode":
		s, err := refstr.FromCharCodeCall(in.Args, tr)
		if err != nil {
			return fail(err)
		}
		out.Events = []string{showString(s), traceEvent(tr.Events)}
		return out, true, ""
	case "String", "newString":
		s, err := refstr.StringFunction(in.Args, tr)
		if err != nil {
			return fail(err)
		}
		if in.Op == "String" {
			out.Events = []string{showString(s), traceEvent(tr.Events)}
		} else {
			out.Events = []string{showStringObject(s), traceEvent(tr.Events)}
		}
		return out, true, ""
	case "index":
		return expectedIndex(in)
	case "props":
		return expectedProps(in)
	case "localeCompare":
		r, err := refstr.Call(in.Op, &in.This, in.Args, tr)
		if err != nil {
			return fail(err)
		}
		lc := func(zero, neg, pos bool) string {
			return evStr("lc") + "," + evStr("number") + "," + boolEv(zero) + "," + boolEv(neg) + "," + boolEv(pos)
		}
		rv := func(zero, neg, pos bool) string {
			return evStr("rv") + "," + boolEv(zero) + "," + boolEv(neg) + "," + boolEv(pos)
		}
		t := traceEvent(tr.Events)
		if r.N == 0 || canonicallyEquivalent(in) {
			out.Events = []string{lc(true, false, false), t, rv(true, false, false)}
		} else {
			out.Events = []string{lc(false, true, false), t, rv(false, false, true)}
			out.Alt = [][]string{{lc(false, false, true), t, rv(false, true, false)}}
		}
		return out, true, ""
	}
	if in.Op == "substr" && (in.This.K == "undef" || in.This.K == "null") {
		// B.2.3 has no CheckObjectCoercible step; later editions added it.
		out.Asserted = false
		out.Events = nil
		return out, true, ""
	}
	r, err := refstr.Call(in.Op, &in.This, in.Args, tr)
	if err != nil {
		return fail(err)
	}
	out.Asserted = r.Asserted
	out.Events = append(showResult(r), traceEvent(tr.Events))
	return out, true, ""
}

func keyName(k *refstr.Val) ([]uint16, bool) {
	switch k.K {
	case "str":
		return k.S, true
	case "num":
		s, ok := refstr.NumberToString(float64(k.N))
		return refstr.ASCII(s), ok
	}
	return nil, false
}

// expectedIndex: 15.5.5.2 [[GetOwnProperty]] of String objects, and 8.7.1
// GetValue on a primitive string base (which uses ToObject(base).[[Get]]).
func expectedIndex(in *Input) (out Outcome, ok bool, why string) {
	out.Asserted = true
	if len(in.Args) != 1 {
		return out, false, "index needs one key"
	}
	p, okk := keyName(&in.Args[0])
	if !okk {
		return out, false, "key not stringable"
	}
	s := in.This.S
	idx, canon := refstr.IsCanonicalIndex(p)
	switch {
	case canon && idx < len(s):
		out.Events = []string{showString(s[idx : idx+1]),
			evStr("h") + "," + boolEv(true) + "," + boolEv(true),
			// 15.5.5.2 step 9: {[[Value]]: resultStr, [[Enumerable]]: true, [[Writable]]: false, [[Configurable]]: false}
			evStr("d") + "," + boolEv(true) + "," + boolEv(false) + "," + boolEv(true) + "," + boolEv(false)}
	case string(utf16ASCII(p)) == "length":
		out.Events = []string{showNumber(float64(len(s))),
			evStr("h") + "," + boolEv(true) + "," + boolEv(true),
			// 15.5.5.1: { [[Writable]]: false, [[Enumerable]]: false, [[Configurable]]: false }
			evStr("d") + "," + boolEv(true) + "," + boolEv(false) + "," + boolEv(false) + "," + boolEv(false)}
	default:
		out.Events = []string{evStr("v") + ",undefined", evStr("h") + "," + boolEv(false) + "," + boolEv(false), evStr("d")}
	}
	if in.Via != "desc" {
		out.Events = out.Events[:2]
	}
	return out, true, ""
}

func utf16ASCII(p []uint16) []byte {
	b := make([]byte, len(p))
	for i, u := range p {
		if u > 0x7f {
			b[i] = '?'
		} else {
			b[i] = byte(u)
		}
	}
	return b
}

// expectedProps: 15.5.5 properties of String instances under [[Put]],
// [[Delete]] and [[DefineOwnProperty]] (8.12.5, 8.12.7, 8.12.9) in
// non-strict code.
func expectedProps(in *Input) (out Outcome, ok bool, why string) {
	out.Asserted = true
	s := in.This.S
	i := int(float64(in.Args[0].N))
	keys := make([]string, len(s))
	for k := range s {
		keys[k] = strconv.Itoa(k)
	}
	names := append(append([]string{}, keys...), "length")
	inRange := i < len(s)
	ev := []string{
		evStr("p") + ",n:" + strconv.Itoa(len(s)) + "," + evStr(strings.Join(keys, ",")) + "," + evStr(strings.Join(names, ",")),
	}
	if inRange {
		ev = append(ev,
			evStr("w")+","+showString(s[i:i+1]), // write ignored
			evStr("l")+",n:"+strconv.Itoa(len(s)),
			evStr("del")+","+boolEv(false)+","+showString(s[i:i+1]),
			evStr("dp")+","+evStr("TypeError")+","+showString(s[i:i+1]))
	} else {
		ev = append(ev,
			evStr("w")+","+showString([]uint16{'x'}), // ordinary extensible object
			evStr("l")+",n:"+strconv.Itoa(len(s)),
			evStr("del")+","+boolEv(true)+","+evStr("v")+",undefined,undefined",
			evStr("dp")+","+evStr("nothrow")+","+showString([]uint16{'z', 'z'}))
	}
	if in.Via != "define" {
		ev = ev[:len(ev)-1]
	}
	out.Events = ev
	return out, true, ""
}

// ------------------------------------------------------------ driving otto

var vm *otto.Otto
var logger *ox.Logger

func theVM() *otto.Otto {
	if vm == nil {
		vm = otto.New()
		logger = &ox.Logger{}
		logger.Install(vm, "log")
		if _, err := vm.Run(prelude); err != nil {
			panic(err)
		}
	}
	return vm
}

// showInline is show(v) as an expression list usable inside log(...): the
// same three fields as show's string branch, for values known to be strings
// or undefined.
const showInline = `(typeof %[1]s==="string"?"s":"v"),(typeof %[1]s==="string"?U(%[1]s):%[1]s),(typeof %[1]s==="string"?%[1]s:undefined)`

// script renders the observation program of a case.
func script(in *Input) string {
	var b strings.Builder
	b.WriteString("T.length=0;")
	wrap := func(expr string) {
		b.WriteString("(function(){var r;try{r=" + expr + "}catch(x){log(\"x\",E(x));return}show(r)})();log(\"t\",T.join(\";\"));")
	}
	switch in.Op {
	case "fromCharCode":
		if in.Via == "apply" {
			wrap("String.fromCharCode.apply(null,[" + jsArgs(in.Args) + "])")
		} else {
			wrap("String.fromCharCode(" + jsArgs(in.Args) + ")")
		}
	case "String":
		wrap("String(" + jsArgs(in.Args) + ")")
	case "newString":
		wrap("new String(" + jsArgs(in.Args) + ")")
	case "index":
		b.WriteString("var S=" + jsVal(&in.This) + ",K=" + jsVal(&in.Args[0]) + ";var v=S[K];show(v);")
		b.WriteString("log(\"h\",Object.prototype.hasOwnProperty.call(S,K),(K in Object(S)));")
		if in.Via == "desc" {
			b.WriteString("var d=Object.getOwnPropertyDescriptor(Object(S),K);if(d)log(\"d\",d.value===v,d.writable,d.enumerable,d.configurable);else log(\"d\");")
		}
	case "props":
		i := strconv.Itoa(int(float64(in.Args[0].N)))
		b.WriteString("var S=" + jsVal(&in.This) + ",i=" + i + ",v;")
		b.WriteString("log(\"p\",S.length,Object.keys(S).join(\",\"),Object.getOwnPropertyNames(S).sort().join(\",\"));")
		b.WriteString("S[i]=\"x\";v=S[i];log(\"w\"," + fmt.Sprintf(showInline, "v") + ");")
		b.WriteString("S.length=1;log(\"l\",S.length);")
		b.WriteString("var dl=delete S[i];v=S[i];log(\"del\",dl," + fmt.Sprintf(showInline, "v") + ");")
		if in.Via == "define" {
			b.WriteString("var dr;try{Object.defineProperty(S,String(i),{value:\"zz\"});dr=\"nothrow\"}catch(x){dr=E(x)}v=S[i];log(\"dp\",dr," + fmt.Sprintf(showInline, "v") + ");")
		}
	case "localeCompare":
		b.WriteString("(function(){var r;try{r=" + callExpr(in.Op, in.Via, &in.This, in.Args) + "}catch(x){log(\"x\",E(x));return}log(\"lc\",typeof r,r===0,r<0,r>0)})();log(\"t\",T.join(\";\"));")
		// reverse direction on the already-converted strings
		a, errA := refstr.ToString(&in.This, nil)
		arg := refstr.Val{K: "undef"}
		if len(in.Args) > 0 {
			arg = in.Args[0]
		}
		bb, errB := refstr.ToString(&arg, nil)
		if errA == nil && errB == nil && refstr.CheckObjectCoercible(&in.This) == nil {
			b.WriteString("var q=" + jsString(bb, "lit") + ".localeCompare(" + jsString(a, "lit") + ");log(\"rv\",q===0,q<0,q>0);")
		}
	default:
		wrap(callExpr(in.Op, in.Via, &in.This, in.Args))
	}
	return b.String()
}

// bareExpr is the expression under test without a try/catch wrapper.
func bareExpr(in *Input) string {
	switch in.Op {
	case "fromCharCode":
		if in.Via == "apply" {
			return "String.fromCharCode.apply(null,[" + jsArgs(in.Args) + "])"
		}
		return "String.fromCharCode(" + jsArgs(in.Args) + ")"
	case "String":
		return "String(" + jsArgs(in.Args) + ")"
	case "newString":
		return "new String(" + jsArgs(in.Args) + ")"
	case "index", "props":
		return ""
	}
	return callExpr(in.Op, in.Via, &in.This, in.Args)
}

func site(in *Input) string {
	switch in.Op {
	case "fromCharCode":
		return "String.fromCharCode"
	case "String":
		return "String()"
	case "newString":
		return "new String()"
	case "index":
		return "String[[GetOwnProperty]]"
	case "props":
		return "String instance properties"
	}
	return "String.prototype." + in.Op
}

func firstToken(ev string) string {
	if i := strings.IndexByte(ev, ','); i >= 0 {
		return ev[:i]
	}
	return ev
}

// agree compares observed events with the expected outcome.
func agree(exp *Outcome, got []string) bool {
	same := func(want []string) bool {
		if !exp.Asserted {
			// compare type token of the result (or the throw) and the trace
			if len(want) == 0 {
				return true
			}
			if len(got) == 0 {
				return false
			}
			if firstToken(want[0]) != firstToken(got[0]) {
				return false
			}
			if firstToken(want[0]) == evStr("x") && want[0] != got[0] {
				return false
			}
			return want[len(want)-1] == got[len(got)-1]
		}
		if len(want) != len(got) {
			return false
		}
		for i := range want {
			if want[i] != got[i] {
				return false
			}
		}
		return true
	}
	if same(exp.Events) {
		return true
	}
	for _, a := range exp.Alt {
		if same(a) {
			return true
		}
	}
	return false
}

func join(ev []string) string { return strings.Join(ev, " | ") }

func recvClass(v *refstr.Val) string {
	if v.K == "obj" {
		switch {
		case v.NoTS:
			return "obj:toString=null"
		case v.TS != nil && v.VO != nil:
			return "obj:both"
		case v.TS != nil:
			return "obj:toString"
		case v.VO != nil:
			return "obj:valueOf"
		}
		return "obj:plain"
	}
	return v.K
}

func checkOne(c *run.Ctx, in Input) {
	v := theVM()
	logger.Events = nil
	c.Announce(in)
	st := site(&in)
	exp, ok, why := expected(&in)
	if !ok {
		c.Inconclusive("model does not cover generated case: " + why)
		return
	}
	src := script(&in)
	out := ox.Run(v, src)
	c.Eval(1)
	deviated := false
	// A Go run-time panic raised inside a try block is caught by otto's
	// try/catch as a non-Error value. Re-run the bare expression to observe
	// whether the panic escapes Run when no handler is present.
	// (runtime.Error values that are structs surface instead as a TypeError
	// "invalid value (struct): missing runtime: runtime error: ..." from Run.)
	if out.Panic == nil && ((out.Err == nil && len(logger.Events) > 0 && logger.Events[0] == evStr("x")+","+evStr("nonerror")) ||
		(out.Err != nil && strings.Contains(out.Err.Error(), "runtime error"))) {
		if bare := bareExpr(&in); bare != "" {
			caught := join(logger.Events)
			if out.Err != nil {
				caught = out.Err.Error()
			}
			out = ox.Run(v, "T.length=0;"+bare)
			if out.Panic == nil {
				out.Err = fmt.Errorf("try/catch caught a non-Error value (%s) but the bare expression gave %s", caught, out.String())
			}
		}
	}
	switch {
	case out.Panic != nil:
		c.Fail("panic", st, in, join(exp.Events), "PANIC:"+fmt.Sprint(out.Panic), out.Stack)
		vm = nil
		deviated = true
	case out.Err != nil:
		c.Fail("mismatch", st, in, join(exp.Events), "script error: "+out.Err.Error()+" after "+join(logger.Events), src)
		deviated = true
	case !agree(&exp, logger.Events):
		c.Fail("mismatch", st, in, join(exp.Events), join(logger.Events), src)
		deviated = true
	}
	// evidence
	c.Sample(in)
	c.Feature("op:" + in.Op)
	if in.Via != "" {
		c.Feature("via:" + in.Via)
	}
	if deviated {
		c.Feature("case:deviating(any finding)")
	} else {
		c.Feature("case:agrees")
	}
	if !exp.Asserted {
		c.Feature("asserted:type+trace only")
	}
	if len(exp.Events) > 0 && firstToken(exp.Events[0]) == evStr("x") {
		c.Feature("outcome:throw")
	}
	switch in.Op {
	case "fromCharCode", "String", "newString":
		c.Feature(fmt.Sprintf("nargs:%d", len(in.Args)))
		for i := range in.Args {
			c.Feature("arg:" + recvClass(&in.Args[i]))
		}
	case "index", "props":
		c.Feature("recv:" + recvClass(&in.This))
		c.Feature("str:" + classOf(in.This.S))
		c.Feature("key:" + in.Args[0].K)
	default:
		c.Feature("recv:" + recvClass(&in.This))
		subj, err := refstr.ToString(&in.This, nil)
		if err == nil {
			c.Feature("str:" + classOf(subj))
			c.Feature(fmt.Sprintf("len:%d", min(len(subj), 9)))
		}
		if in.This.K == "str" || in.This.K == "sobj" {
			c.Feature("route:" + in.This.R)
		}
		switch in.Op {
		case "charAt", "charCodeAt":
			c.Feature("pos:" + posClass(argp(in.Args, 0), len(in.Args) > 0, len(subj)))
		case "indexOf", "lastIndexOf":
			c.Feature("pos:" + posClass(argp(in.Args, 1), len(in.Args) > 1, len(subj)))
			if len(in.Args) > 0 {
				if ss, err := refstr.ToString(&in.Args[0], nil); err == nil {
					c.Feature("search:" + classOf(ss))
				}
			}
		case "slice", "substring", "substr":
			c.Feature("pos:" + posClass(argp(in.Args, 0), len(in.Args) > 0, len(subj)))
			c.Feature("pos2:" + posClass(argp(in.Args, 1), len(in.Args) > 1, len(subj)))
		case "split":
			c.Feature(fmt.Sprintf("split-nargs:%d", len(in.Args)))
		}
	}
	if exp.Asserted {
		b, _ := json.Marshal(in)
		c.Nontrivial(string(b))
	}
}

func argp(a []refstr.Val, i int) *refstr.Val {
	if i < len(a) {
		return &a[i]
	}
	return &refstr.Val{K: "undef"}
}

// canonicallyEquivalent: 15.5.4.9 requires 0 for strings "that are considered canonically
// equivalent by the Unicode standard", i.e. with equal canonical decompositions (NFD).
func canonicallyEquivalent(in *Input) bool {
	a, errA := refstr.ToString(&in.This, nil)
	arg := refstr.Val{K: "undef"}
	if len(in.Args) > 0 {
		arg = in.Args[0]
	}
	b, errB := refstr.ToString(&arg, nil)
	if errA != nil || errB != nil {
		return false
	}
	wellFormed := func(u []uint16) bool {
		for i := 0; i < len(u); i++ {
			switch {
			case u[i]&0xFC00 == 0xD800 && i+1 < len(u) && u[i+1]&0xFC00 == 0xDC00:
				i++
			case u[i]&0xF800 == 0xD800:
				return false
			}
		}
		return true
	}
	if !wellFormed(a) || !wellFormed(b) {
		return false // unpaired surrogates have no decomposition: only identical sequences are equal
	}
	sa, sb := string(utf16.Decode(a)), string(utf16.Decode(b))
	return norm.NFD.String(sa) == norm.NFD.String(sb)
}
