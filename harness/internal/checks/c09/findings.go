package c09

import "verif/internal/run"

// registerMatchers binds every known finding to its deviation model (see
// devmodel.go). All matchers are of the form "otto's output is exactly what
// the known defects produce, and this defect is necessary for it".
func registerMatchers() {
	for name, fl := range map[string]flags{
		"c09.lone-surrogate":       fLone,
		"c09.literal-escaped-pair": fEsc,
		"c09.fffd-sentinel":        fFFFD,
		"c09.surrogate-half":       fHalf,
		"c09.charat-receiver":      fCharAtRecv,
		"c09.call-undefined-this":  fCallUndef,
		"c09.rune-index":           fRune,
		"c09.substr-overflow":      fSubstrOvf,
		"c09.indexof-byte":         fIdxByte,
		"c09.lastindexof-byte":     fLastByte,
		"c09.lastindexof-nan":      fLastNaN,
		"c09.lastindexof-neginf":   fLastNegInf,
		"c09.lastindexof-overflow": fLastOvf,
		"c09.lastindexof-empty":    fLastEmpty,
		"c09.split-rune":           fSplitRune,
		"c09.split-limit0":         fSplitLim0,
		"c09.touint16-overflow":    fU16Big,
		"c09.index-noncanonical":   fIdxNonCanon,
		"c09.index-nonenumerable":  fIdxEnum,
		"c09.index-defineproperty": fDpNoThrow,
		"c09.astral-case-mapping":  fAstralCase,
	} {
		run.RegisterMatcher(name, defectMatcher(fl))
	}
}
