package c09

// Deviation models. This file is NOT part of the oracle: it describes, defect
// by defect, what the known defects of otto's String implementation yield, so
// that a failing generated case can be attributed to a known finding only
// when otto's actual output is exactly what that defect produces (and differs
// from what the implementation would produce without the defect). It is free
// to use Go's strings/utf8/utf16 packages because it emulates an
// implementation that uses them.

import (
	"math"
	"strconv"
	"strings"
	"sync"
	"unicode"
	"unicode/utf16"
	"unicode/utf8"

	"github.com/robertkrimen/otto"
	"golang.org/x/text/unicode/norm"

	"verif/internal/ox"
	"verif/internal/refstr"
	"verif/internal/run"
)

type flags uint32

const (
	fLone        flags = 1 << iota // lone surrogates become U+FFFD whenever a string is converted to otto's Go string
	fEsc                           // "😀" in a literal: each escape is decoded separately to U+FFFD
	fFFFD                          // stringAt uses utf8.RuneError as "out of range": charAt/charCodeAt/[i] of U+FFFD
	fHalf                          // charAt/[i] of one half of a surrogate pair: string(rune(half)) == U+FFFD
	fCharAtRecv                    // charAt/charCodeAt use this.object().stringValue(): nil for anything but a String object
	fCallUndef                     // Function.prototype.call/apply replace an undefined this by the global object
	fRune                          // slice/substring/substr index []rune
	fSubstrOvf                     // substr: start+length overflows int64 -> negative slice bound
	fIdxByte                       // indexOf: position applied to the UTF-8 bytes
	fLastByte                      // lastIndexOf: position applied to the UTF-8 bytes
	fLastNaN                       // lastIndexOf: NaN position treated as 0
	fLastNegInf                    // lastIndexOf: -Infinity treated as +Infinity
	fLastOvf                       // lastIndexOf: start+len(search) overflows int
	fLastEmpty                     // lastIndexOf on "" does not convert the position argument
	fSplitRune                     // split(""): per code point
	fSplitLim0                     // split: limit 0 returns before ToString(separator)
	fU16Big                        // ToUint16 via int64 conversion: |x| >= 2^63 -> 0
	fIdxNonCanon                   // "01", "+1", "-0" accepted as string indices
	fIdxEnum                       // index properties reported non-enumerable
	fDpNoThrow                     // defineProperty on an index property succeeds and shadows it
	fAstralCase                    // toLowerCase/toUpperCase map supplementary code points (ES2015 behaviour) instead of passing surrogates through
	fAll         flags = 1<<iota - 1
)

// ------------------------------------------------------------ helpers

func isHigh(u uint16) bool { return u >= 0xD800 && u <= 0xDBFF }
func isLow(u uint16) bool  { return u >= 0xDC00 && u <= 0xDFFF }

// sanitize applies the lossy conversions of a string value entering otto.
func sanitize(s []uint16, routeName string, f flags) []uint16 {
	out := make([]uint16, 0, len(s))
	for i := 0; i < len(s); i++ {
		u := s[i]
		switch {
		case isHigh(u) && i+1 < len(s) && isLow(s[i+1]):
			if routeName == "esc" && f&fEsc != 0 {
				out = append(out, 0xFFFD, 0xFFFD)
			} else {
				out = append(out, u, s[i+1])
			}
			i++
		case isHigh(u) || isLow(u):
			if f&fLone != 0 {
				out = append(out, 0xFFFD)
			} else {
				out = append(out, u)
			}
		default:
			out = append(out, u)
		}
	}
	return out
}

func transformVal(v *refstr.Val, f flags) refstr.Val {
	o := *v
	if v.S != nil {
		o.S = sanitize(v.S, v.R, f)
	}
	if v.A != nil {
		o.A = make([]refstr.Val, len(v.A))
		for i := range v.A {
			o.A[i] = transformVal(&v.A[i], f)
		}
	}
	if v.TS != nil {
		t := transformVal(v.TS, f)
		o.TS = &t
	}
	if v.VO != nil {
		t := transformVal(v.VO, f)
		o.VO = &t
	}
	return o
}

func goString(u []uint16) string { return string(utf16.Decode(u)) }
func units(s string) []uint16    { return utf16.Encode([]rune(s)) }

// ottoInt64 is Value.number().int64: ToInteger saturated to int64, NaN -> 0.
func ottoInt64(x float64) int64 {
	switch {
	case x != x:
		return 0
	case x >= math.MaxInt64:
		return math.MaxInt64
	case x <= math.MinInt64:
		return math.MinInt64
	}
	return int64(x)
}

// quirk rendering: the read-back loop uses charCodeAt, which reports NaN for U+FFFD.
func unitsReadbackQ(u []uint16, f flags) string {
	u = sanitize(u, "", f) // results are built through Go strings too
	parts := make([]string, len(u))
	for i, c := range u {
		if c == 0xFFFD && f&fFFFD != 0 {
			parts[i] = "NaN"
		} else {
			parts[i] = strconv.Itoa(int(c))
		}
	}
	return strconv.Itoa(len(u)) + "[" + strings.Join(parts, ",") + "]"
}

func goSide(u []uint16, f flags) string {
	if f&fLone == 0 {
		return "s:" + ox.Units(u)
	}
	// the host logger exports through otto's Go string: lone surrogates -> U+FFFD
	return "s:" + ox.Units(units(goString(u)))
}

func showStringQ(u []uint16, f flags) string {
	return evStr("s") + "," + evStr(unitsReadbackQ(u, f)) + "," + goSide(u, f)
}

func showArrayQ(a [][]uint16, f flags) []string {
	parts := make([]string, len(a))
	for i, e := range a {
		parts[i] = unitsReadbackQ(e, f)
	}
	ev := []string{evStr("a") + ",n:" + strconv.Itoa(len(a)) + "," + evStr(strings.Join(parts, "|"))}
	for _, e := range a {
		ev = append(ev, evStr("e")+","+goSide(e, f))
	}
	return ev
}

func showResultQ(r *refstr.Result, f flags) []string {
	switch r.Kind {
	case "str":
		return []string{showStringQ(r.S, f)}
	case "num":
		return []string{showNumber(r.N)}
	}
	return showArrayQ(r.A, f)
}

// ------------------------------------------------------------ the model

type modelOut struct {
	events   []string
	panicked bool
}

var globalObjectString = refstr.ASCII("[object environment]")

// model computes what otto yields for a case when exactly the defects in f
// are present. ok=false: not modelled.
func model(in *Input, f flags) (out modelOut, ok bool) {
	tr := &refstr.Trace{}
	thrown := func(err error) (modelOut, bool) {
		if th, is := err.(*refstr.Throw); is {
			return modelOut{events: []string{throwEvent(th.Class), traceEvent(tr.Events)}}, true
		}
		return modelOut{}, false
	}
	done := func(ev ...string) (modelOut, bool) {
		return modelOut{events: append(ev, traceEvent(tr.Events))}, true
	}
	args := make([]refstr.Val, len(in.Args))
	for i := range in.Args {
		args[i] = transformVal(&in.Args[i], f)
	}
	this := transformVal(&in.This, f)
	switch in.Op {
	case "fromCharCode":
		u := make([]uint16, len(args))
		for i := range args {
			n, err := refstr.ToNumber(&args[i], tr)
			if err != nil {
				return thrown(err)
			}
			u[i] = refstr.ToUint16(n)
			if f&fU16Big != 0 && (n >= math.MaxInt64 || n < math.MinInt64) && !math.IsInf(n, 0) {
				u[i] = 0
			}
		}
		return done(showStringQ(sanitize(u, "", f), f))
	case "String", "newString":
		s, err := refstr.StringFunction(args, tr)
		if err != nil {
			return thrown(err)
		}
		if in.Op == "String" {
			return done(showStringQ(s, f))
		}
		rb := unitsReadbackQ(s, f)
		return done(strings.Join([]string{evStr("S"), evStr("object"), evStr("string"), evStr(rb), evStr(rb), "n:" + strconv.Itoa(len(s)), goSide(s, f)}, ","))
	case "index":
		return modelIndex(in, &this, args, f)
	case "props":
		return modelProps(in, &this, args, f)
	}
	// String.prototype methods
	globalThis := false
	if this.K == "undef" && in.Via != "member" && f&fCallUndef != 0 && in.Op != "toString" && in.Op != "valueOf" {
		this = refstr.Val{K: "str", S: globalObjectString}
		globalThis = true
	}
	switch in.Op {
	case "substr":
		// no CheckObjectCoercible (as in ES5.1 B.2.3): ToString(this)
		switch this.K {
		case "undef":
			this = refstr.Val{K: "str", S: refstr.ASCII("undefined")}
		case "null":
			this = refstr.Val{K: "str", S: refstr.ASCII("null")}
		}
	case "localeCompare":
		// byte-wise comparison of the NFD forms of the (lossily converted) Go strings
		if err := refstr.CheckObjectCoercible(&this); err != nil {
			return thrown(err)
		}
		a, err := refstr.ToString(&this, tr)
		if err != nil {
			return thrown(err)
		}
		uarg := refstr.Val{K: "undef"}
		if len(args) > 0 {
			uarg = args[0]
		}
		b, err := refstr.ToString(&uarg, tr)
		if err != nil {
			return thrown(err)
		}
		c := strings.Compare(norm.NFD.String(goString(a)), norm.NFD.String(goString(b)))
		ev := []string{evStr("lc") + "," + evStr("number") + "," + boolEv(c == 0) + "," + boolEv(c < 0) + "," + boolEv(c > 0), traceEvent(tr.Events)}
		if !globalThis {
			// the reverse observation is made on the model-converted strings of the original input
			oa, e1 := refstr.ToString(&in.This, nil)
			ob := refstr.ASCII("undefined")
			var e2 error
			if len(in.Args) > 0 {
				ob, e2 = refstr.ToString(&in.Args[0], nil)
			}
			if e1 != nil || e2 != nil {
				return modelOut{}, false
			}
			c2 := strings.Compare(norm.NFD.String(goString(sanitize(ob, "lit", f))), norm.NFD.String(goString(sanitize(oa, "lit", f))))
			ev = append(ev, evStr("rv")+","+boolEv(c2 == 0)+","+boolEv(c2 < 0)+","+boolEv(c2 > 0))
		}
		return modelOut{events: ev}, true
	case "toString", "valueOf":
		r, err := refstr.Call(in.Op, &this, args, tr)
		if err != nil {
			return thrown(err)
		}
		return done(showResultQ(r, f)...)
	}
	if err := refstr.CheckObjectCoercible(&this); err != nil {
		return thrown(err)
	}
	arg := func(i int) *refstr.Val {
		if i < len(args) {
			return &args[i]
		}
		return &refstr.Val{K: "undef"}
	}
	argUndef := func(i int) bool { return i >= len(args) || args[i].K == "undef" }

	// The byte-offset defects are modelled through Go strings, which cannot
	// hold a lone surrogate: when one is still present (fLone off) those
	// defects are modelled as absent.
	if in.Op == "indexOf" || in.Op == "lastIndexOf" {
		s0, e0 := refstr.ToString(&this, nil)
		t0, e1 := refstr.ToString(arg(0), nil)
		if e0 == nil && e1 == nil && (!refstr.WellFormed(s0) || !refstr.WellFormed(t0)) {
			f &^= fIdxByte | fLastByte
		}
	}
	switch in.Op {
	case "charAt", "charCodeAt":
		isStringObj := this.K == "sobj" || (this.K == "str" && in.Via == "member" && !globalThis)
		none := func() (modelOut, bool) {
			if in.Op == "charAt" {
				return done(showStringQ(nil, f))
			}
			return done(showNumber(math.NaN()))
		}
		if !isStringObj && f&fCharAtRecv != 0 {
			// the receiver is never converted; the position is
			pos, err := refstr.ToNumber(arg(0), tr)
			if err != nil {
				return thrown(err)
			}
			primitive := !globalThis && (this.K == "str" || this.K == "num" || this.K == "bool")
			if primitive || ottoInt64(pos) >= 0 {
				return modelOut{panicked: true}, true
			}
			return none()
		}
		s, err := refstr.ToString(&this, tr)
		if err != nil {
			return thrown(err)
		}
		pos, err := refstr.ToNumber(arg(0), tr)
		if err != nil {
			return thrown(err)
		}
		idx := ottoInt64(pos)
		if idx < 0 || idx >= int64(len(s)) {
			return none()
		}
		u := s[idx]
		if u == 0xFFFD && f&fFFFD != 0 {
			return none()
		}
		if in.Op == "charCodeAt" {
			return done(showNumber(float64(u)))
		}
		if (isHigh(u) || isLow(u)) && f&fHalf != 0 {
			u = 0xFFFD
		}
		return done(showStringQ([]uint16{u}, f))
	case "indexOf":
		if f&fIdxByte == 0 {
			break
		}
		s, err := refstr.ToString(&this, tr)
		if err != nil {
			return thrown(err)
		}
		t, err := refstr.ToString(arg(0), tr)
		if err != nil {
			return thrown(err)
		}
		value, target := goString(s), goString(t)
		indexRune := func(s, sub string) int {
			if i := strings.Index(s, sub); i >= 0 {
				return len(units(s[:i]))
			}
			return -1
		}
		if len(args) < 2 {
			return done(showNumber(float64(indexRune(value, target))))
		}
		p, err := refstr.ToNumber(arg(1), tr)
		if err != nil {
			return thrown(err)
		}
		start := refstr.ToInteger(p) + 0
		if start < 0 {
			start = 0
		} else if start >= float64(len(value)) {
			if target == "" {
				return done(showNumber(float64(len(value))))
			}
			return done(showNumber(-1))
		}
		index := indexRune(value[int(start):], target)
		if index >= 0 {
			index += int(start)
		}
		return done(showNumber(float64(index)))
	case "lastIndexOf":
		if f&(fLastByte|fLastNaN|fLastNegInf|fLastOvf|fLastEmpty) == 0 {
			break
		}
		s, err := refstr.ToString(&this, tr)
		if err != nil {
			return thrown(err)
		}
		t, err := refstr.ToString(arg(0), tr)
		if err != nil {
			return thrown(err)
		}
		full := func() (modelOut, bool) {
			return done(showNumber(refstr.LastIndexOf(s, t, math.NaN())))
		}
		if argUndef(1) {
			return full()
		}
		// lengths and slicing in bytes or in units
		length, tlen := len(s), len(t)
		if f&fLastByte != 0 {
			length, tlen = len(goString(s)), len(goString(t))
		}
		if length == 0 && f&fLastEmpty != 0 {
			return full()
		}
		p, err := refstr.ToNumber(arg(1), tr)
		if err != nil {
			return thrown(err)
		}
		if math.IsInf(p, 1) || (math.IsInf(p, -1) && f&fLastNegInf != 0) {
			return full()
		}
		if p != p && f&fLastNaN == 0 {
			return full()
		}
		st := ottoInt64(p)
		if st < 0 {
			st = 0
		}
		var end int64
		if f&fLastOvf != 0 {
			end = int64(uint64(st) + uint64(tlen)) // wraps
			if end < 0 {
				return modelOut{panicked: true}, true
			}
		} else {
			end = st + int64(tlen)
			if end < 0 {
				end = math.MaxInt64
			}
		}
		if end > int64(length) {
			end = int64(length)
		}
		if f&fLastByte != 0 {
			value, target := goString(s), goString(t)
			r := -1
			if i := strings.LastIndex(value[:end], target); i >= 0 {
				r = len(units(value[:i]))
			}
			return done(showNumber(float64(r)))
		}
		return done(showNumber(refstr.LastIndexOf(s[:end], t, math.NaN())))
	case "slice", "substring", "substr":
		if f&(fRune|fSubstrOvf) == 0 {
			break
		}
		s, err := refstr.ToString(&this, tr)
		if err != nil {
			return thrown(err)
		}
		a0, err := refstr.ToNumber(arg(0), tr)
		if err != nil {
			return thrown(err)
		}
		undef := argUndef(1)
		a1 := math.NaN()
		if !undef {
			if a1, err = refstr.ToNumber(arg(1), tr); err != nil {
				return thrown(err)
			}
		}
		// element boundaries: runes or units
		var elems [][]uint16
		for i := 0; i < len(s); i++ {
			if f&fRune != 0 && isHigh(s[i]) && i+1 < len(s) && isLow(s[i+1]) {
				elems = append(elems, s[i:i+2])
				i++
			} else {
				elems = append(elems, s[i:i+1])
			}
		}
		idx := make([]uint16, len(elems))
		for i := range idx {
			idx[i] = uint16(i)
		}
		var sel []uint16
		switch in.Op {
		case "slice":
			sel = refstr.Slice(idx, a0, a1, undef)
		case "substring":
			sel = refstr.Substring(idx, a0, a1, undef)
		default:
			if f&fSubstrOvf != 0 && !undef {
				size := int64(len(elems))
				start := ottoInt64(a0)
				if start < 0 {
					start += size
					if start < 0 {
						start = 0
					}
				} else if start > size {
					start = size
				}
				length := ottoInt64(a1)
				if start < size && length > 0 && start > 0 && length > math.MaxInt64-start {
					return modelOut{panicked: true}, true
				}
			}
			sel = refstr.Substr(idx, a0, a1, undef)
		}
		var r []uint16
		for _, k := range sel {
			r = append(r, elems[k]...)
		}
		return done(showStringQ(r, f))
	case "split":
		if f&(fSplitRune|fSplitLim0) == 0 {
			break
		}
		s, err := refstr.ToString(&this, tr)
		if err != nil {
			return thrown(err)
		}
		limUndef := argUndef(1)
		lim := 0.0
		if !limUndef {
			if lim, err = refstr.ToNumber(arg(1), tr); err != nil {
				return thrown(err)
			}
			if f&fSplitLim0 != 0 && refstr.ToUint32(lim) == 0 {
				return done(showArrayQ(nil, f)...)
			}
		}
		sepUndef := argUndef(0)
		sep, err := refstr.ToString(arg(0), tr)
		if err != nil {
			return thrown(err)
		}
		if f&fSplitRune != 0 && !sepUndef && len(sep) == 0 {
			// split between code points: compute on an index string
			var elems [][]uint16
			for i := 0; i < len(s); i++ {
				if isHigh(s[i]) && i+1 < len(s) && isLow(s[i+1]) {
					elems = append(elems, s[i:i+2])
					i++
				} else {
					elems = append(elems, s[i:i+1])
				}
			}
			idx := make([]uint16, len(elems))
			for i := range idx {
				idx[i] = uint16(i)
			}
			parts := refstr.Split(idx, false, nil, limUndef, lim)
			res := make([][]uint16, len(parts))
			for i, p := range parts {
				for _, k := range p {
					res[i] = append(res[i], elems[k]...)
				}
			}
			return done(showArrayQ(res, f)...)
		}
		return done(showArrayQ(refstr.Split(s, sepUndef, sep, limUndef, lim), f)...)
	}
	// everything else behaves as the specification on the transformed input
	r, err := refstr.Call(in.Op, &this, args, tr)
	if err != nil {
		return thrown(err)
	}
	if !r.Asserted {
		return modelOut{}, false
	}
	if f&fAstralCase != 0 && r.Kind == "str" {
		switch in.Op {
		case "toLowerCase", "toLocaleLowerCase":
			r.S = mapAstral(r.S, unicode.ToLower)
		case "toUpperCase", "toLocaleUpperCase":
			r.S = mapAstral(r.S, unicode.ToUpper)
		}
	}
	return done(showResultQ(r, f)...)
}

// mapAstral applies a simple case mapping to the supplementary code points of s
// (15.5.4.16 transfers surrogate code units unchanged; Go's strings.ToLower/ToUpper
// map every code point).
func mapAstral(s []uint16, f func(rune) rune) []uint16 {
	out := make([]uint16, 0, len(s))
	for i := 0; i < len(s); i++ {
		if isHigh(s[i]) && i+1 < len(s) && isLow(s[i+1]) {
			r1, r2 := utf16.EncodeRune(f(utf16.DecodeRune(rune(s[i]), rune(s[i+1]))))
			out = append(out, uint16(r1), uint16(r2))
			i++
			continue
		}
		out = append(out, s[i])
	}
	return out
}

// parseIntIndex is otto's stringToArrayIndex: strconv.ParseInt(name, 10, 64),
// 0 <= index < 2^32-1.
func parseIntIndex(name []uint16, f flags) (int, bool) {
	if f&fIdxNonCanon == 0 {
		return refstr.IsCanonicalIndex(name)
	}
	n, err := strconv.ParseInt(string(utf16ASCII(name)), 10, 64)
	if err != nil || n < 0 || n >= 1<<32-1 {
		return 0, false
	}
	return int(n), true
}

func modelIndex(in *Input, this *refstr.Val, args []refstr.Val, f flags) (modelOut, bool) {
	m, ok := modelIndex1(in, this, args, f)
	if ok && in.Via != "desc" {
		m.events = m.events[:2]
	}
	return m, ok
}

func modelIndex1(in *Input, this *refstr.Val, args []refstr.Val, f flags) (modelOut, bool) {
	p, okk := keyName(&args[0])
	if !okk {
		return modelOut{}, false
	}
	s := this.S
	enum := f&fIdxEnum == 0
	idx, isIdx := parseIntIndex(p, f)
	absent := modelOut{events: []string{evStr("v") + ",undefined", evStr("h") + "," + boolEv(false) + "," + boolEv(false), evStr("d")}}
	switch {
	case isIdx && idx < len(s):
		u := s[idx]
		if u == 0xFFFD && f&fFFFD != 0 {
			return absent, true
		}
		if (isHigh(u) || isLow(u)) && f&fHalf != 0 {
			u = 0xFFFD
		}
		return modelOut{events: []string{showStringQ([]uint16{u}, f),
			evStr("h") + "," + boolEv(true) + "," + boolEv(true),
			evStr("d") + "," + boolEv(true) + "," + boolEv(false) + "," + boolEv(enum) + "," + boolEv(false)}}, true
	case string(utf16ASCII(p)) == "length":
		return modelOut{events: []string{showNumber(float64(len(s))),
			evStr("h") + "," + boolEv(true) + "," + boolEv(true),
			evStr("d") + "," + boolEv(true) + "," + boolEv(false) + "," + boolEv(false) + "," + boolEv(false)}}, true
	}
	return absent, true
}

func modelProps(in *Input, this *refstr.Val, args []refstr.Val, f flags) (modelOut, bool) {
	m, ok := modelProps1(in, this, args, f)
	if ok && in.Via != "define" {
		m.events = m.events[:len(m.events)-1]
	}
	return m, ok
}

func modelProps1(in *Input, this *refstr.Val, args []refstr.Val, f flags) (modelOut, bool) {
	s := this.S
	i := int(float64(args[0].N))
	keys := make([]string, len(s))
	for k := range s {
		keys[k] = strconv.Itoa(k)
	}
	names := append(append([]string{}, keys...), "length")
	ev := []string{evStr("p") + ",n:" + strconv.Itoa(len(s)) + "," + evStr(strings.Join(keys, ",")) + "," + evStr(strings.Join(names, ","))}
	undefInline := evStr("v") + ",undefined,undefined"
	// visible: what S[i] reads for an in-range index
	visible := func() (string, bool) {
		u := s[i]
		if u == 0xFFFD && f&fFFFD != 0 {
			return undefInline, false
		}
		if (isHigh(u) || isLow(u)) && f&fHalf != 0 {
			u = 0xFFFD
		}
		return showStringQ([]uint16{u}, f), true
	}
	// getOwnPropertyNames filters through [[GetOwnProperty]], which misses U+FFFD units
	if f&fFFFD != 0 {
		names = names[:0]
		for k := range s {
			if s[k] != 0xFFFD {
				names = append(names, keys[k])
			}
		}
		names = append(names, "length")
		ev[0] = evStr("p") + ",n:" + strconv.Itoa(len(s)) + "," + evStr(strings.Join(keys, ",")) + "," + evStr(strings.Join(names, ","))
	}
	present := false
	cur := ""
	if i < len(s) {
		cur, present = visible()
	}
	if present {
		dp := evStr("dp") + "," + evStr("TypeError") + "," + cur
		if f&fDpNoThrow != 0 {
			dp = evStr("dp") + "," + evStr("nothrow") + "," + showStringQ([]uint16{'z', 'z'}, f)
		}
		ev = append(ev, evStr("w")+","+cur, evStr("l")+",n:"+strconv.Itoa(len(s)), evStr("del")+","+boolEv(false)+","+cur, dp)
	} else {
		ev = append(ev, evStr("w")+","+showStringQ([]uint16{'x'}, f), evStr("l")+",n:"+strconv.Itoa(len(s)),
			evStr("del")+","+boolEv(true)+","+undefInline, evStr("dp")+","+evStr("nothrow")+","+showStringQ([]uint16{'z', 'z'}, f))
	}
	return modelOut{events: ev}, true
}

// ------------------------------------------------------------ matchers

func (m modelOut) render() string {
	if m.panicked {
		return "PANIC"
	}
	return join(m.events)
}

func actualOf(fl *run.Failure) string {
	if fl.Kind == "panic" {
		return "PANIC"
	}
	return fl.Actual
}

// removalOrder: the lossy-representation defects are tried first, so that a
// failure explained by a specific defect alone is attributed to it.
var removalOrder = []flags{fLone, fEsc, fFFFD, fHalf, fCallUndef, fCharAtRecv, fIdxEnum, fDpNoThrow, fIdxNonCanon, fU16Big,
	fAstralCase, fSplitLim0, fSplitRune, fLastEmpty, fLastNegInf, fLastNaN, fLastByte, fLastOvf, fIdxByte, fSubstrOvf, fRune}

// probes decide, once per process, which of the known defects are present in
// the tree under test (each is the essence of the finding's witness). The
// deviation model is built from the present defects only, so that after a
// fix is applied the remaining findings keep matching exactly what they
// predict and nothing else. A probe that errors or panics counts as present.
var probes = []struct {
	flag flags
	js   string // evaluates to true when the defect is present
}{
	{fLone, `String.fromCharCode(0xD800,0x61).charCodeAt(0)!==0xD800`},
	{fEsc, `"\uD83D\uDE00".charCodeAt(1)!==0xDE00`},
	{fFFFD, `"\uFFFD".charCodeAt(0)!==0xFFFD`},
	{fHalf, "\"\U0001F600\".charAt(0).charCodeAt(0)!==0xD83D"},
	{fCharAtRecv, `String.prototype.charAt.call("abc",1)!=="b"`},
	{fCallUndef, `(function(){try{String.prototype.trim.call(undefined);return true}catch(e){return false}})()`},
	{fRune, "\"\U0001F600a\".slice(2)!==\"a\""},
	{fSubstrOvf, `"abc".substr(1,Infinity)!=="bc"`},
	{fIdxByte, `"\u00E9a".indexOf("a",1)!==1`},
	{fLastByte, `"\u00E9\u00E9".lastIndexOf("\u00E9",1)!==1`},
	{fLastNaN, `"abc".lastIndexOf("c",NaN)!==2`},
	{fLastNegInf, `"abc".lastIndexOf("c",-Infinity)!==-1`},
	{fLastOvf, `"abc".lastIndexOf("c",1e19)!==2`},
	{fLastEmpty, `(function(){var n=0;"".lastIndexOf("a",{valueOf:function(){n++;return 0}});return n===0})()`},
	{fSplitRune, "\"\U0001F600\".split(\"\").length!==2"},
	{fSplitLim0, `(function(){var n=0;"abc".split({toString:function(){n++;return "b"}},0);return n===0})()`},
	{fU16Big, `String.fromCharCode(9223372036854779904).charCodeAt(0)!==4096`},
	{fIdxNonCanon, `"abc"["01"]!==undefined`},
	{fIdxEnum, `!Object.getOwnPropertyDescriptor(new String("abc"),"1").enumerable`},
	{fDpNoThrow, `(function(){try{Object.defineProperty(new String("abc"),"1",{value:"zz"});return true}catch(e){return false}})()`},
	{fAstralCase, "\"\U00010400\".toLowerCase()!==\"\U00010400\""},
}

var (
	presentOnce sync.Once
	present     flags
)

func presentFlags() flags {
	presentOnce.Do(func() {
		for _, p := range probes {
			out := ox.Run(otto.New(), p.js)
			if out.Panic != nil || out.Err != nil {
				present |= p.flag
				continue
			}
			if b, err := out.Val.ToBoolean(); err != nil || b {
				present |= p.flag
			}
		}
	})
	return present
}

// explainingSet returns a minimal set of known defects that reproduces otto's
// actual output exactly: starting from all known defects present in this
// tree (which together must reproduce it), defects are removed one at a time
// while the prediction still equals the observation. ok=false when the known
// defects do not predict the observation (the failure is then something new).
func explainingSet(in *Input, actual string) (flags, bool) {
	base := presentFlags()
	full, ok := model(in, base)
	if !ok || full.render() != actual {
		return 0, false
	}
	cur := base
	for _, fl := range removalOrder {
		if cur&fl == 0 {
			continue
		}
		m, ok := model(in, cur&^fl)
		if ok && m.render() == actual {
			cur &^= fl
		}
	}
	return cur, cur != 0
}

// defectMatcher: the failure is an instance of the defect iff the defect is a
// member of the minimal explaining set of the observation.
func defectMatcher(flag flags) run.Matcher {
	return func(fl *run.Failure) bool {
		in, ok := fl.In.(Input)
		if !ok {
			return false
		}
		set, ok := explainingSet(&in, actualOf(fl))
		return ok && set&flag != 0
	}
}

var _ = utf8.RuneError
