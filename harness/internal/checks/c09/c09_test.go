package c09

import (
	"testing"

	"verif/internal/gen"
)

// The deviation model with no defect switched on must coincide with the
// oracle on every generated case (otherwise a matcher could "explain" a
// failure with an artefact of the emulation).
func TestModelWithoutDefectsIsTheSpec(t *testing.T) {
	n, compared := 60000, 0
	for i := 0; i < n; i++ {
		in := generate(gen.New(7, "C09", i), i)
		exp, ok, why := expected(&in)
		if !ok {
			t.Fatalf("case %d: generator produced a case outside the model: %s %+v", i, why, in)
		}
		if !exp.Asserted || in.Op == "localeCompare" {
			continue
		}
		m, ok := model(&in, 0)
		if !ok {
			t.Fatalf("case %d: deviation model does not cover %+v", i, in)
		}
		if m.panicked || m.render() != join(exp.Events) {
			t.Fatalf("case %d %+v:\n spec  %s\n model %s", i, in, join(exp.Events), m.render())
		}
		compared++
	}
	if compared < n/2 {
		t.Fatalf("only %d cases compared", compared)
	}
}

// Every defect flag must be able to change at least one prediction
// (otherwise its finding could never match anything).
func TestEveryDefectFlagIsObservable(t *testing.T) {
	seen := map[flags]bool{}
	for i := 0; i < 120000 && len(seen) < len(probes); i++ {
		in := generate(gen.New(11, "C09", i), i)
		// (the surrogate-half defect is subsumed by the lone-surrogate one and
		// only shows once that is removed, as explainingSet does first)
		for _, base := range []flags{fAll, fAll &^ fLone} {
			full, ok := model(&in, base)
			if !ok {
				continue
			}
			for _, p := range probes {
				if seen[p.flag] || base&p.flag == 0 {
					continue
				}
				if m, ok := model(&in, base&^p.flag); ok && m.render() != full.render() {
					seen[p.flag] = true
				}
			}
		}
	}
	for _, p := range probes {
		if !seen[p.flag] {
			t.Errorf("defect flag %#x never changes a prediction", p.flag)
		}
	}
}
