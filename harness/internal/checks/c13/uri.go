package c13

import (
	"fmt"
	"strconv"
	"strings"

	"verif/internal/gen"
	"verif/internal/ox"
	"verif/internal/refuri"
	"verif/internal/run"
)

var uriFns = []string{"encodeURI", "encodeURIComponent", "decodeURI", "decodeURIComponent", "escape", "unescape"}

// model applies the reference function.
func model(fn string, u []uint16) ([]uint16, error) {
	switch fn {
	case "encodeURI":
		return refuri.EncodeURI(u)
	case "encodeURIComponent":
		return refuri.EncodeURIComponent(u)
	case "decodeURI":
		return refuri.DecodeURI(u)
	case "decodeURIComponent":
		return refuri.DecodeURIComponent(u)
	case "escape":
		return refuri.Escape(u), nil
	case "unescape":
		return refuri.Unescape(u), nil
	}
	panic("unknown uri function " + fn)
}

func inverseOf(fn string) string {
	switch fn {
	case "encodeURI":
		return "decodeURI"
	case "encodeURIComponent":
		return "decodeURIComponent"
	case "escape":
		return "unescape"
	}
	return ""
}

func ascii(s string) []uint16 {
	o := make([]uint16, len(s))
	for i := 0; i < len(s); i++ {
		o[i] = uint16(s[i])
	}
	return o
}

const hexU = "0123456789ABCDEF"
const hexL = "0123456789abcdef"

func pct(b byte, digits string) []uint16 {
	return []uint16{'%', uint16(digits[b>>4]), uint16(digits[b&15])}
}

// unitCase is the entry of the per-code-unit table for (fn, u); variant
// selects the input form (0..2), -1 draws it from the case PRNG.
func unitCase(fn string, u uint16, variant int, r *gen.Rand) Input {
	in := Input{Op: "uri", Fn: fn}
	if variant < 0 {
		variant = r.Intn(3)
	}
	pairOf := func() []uint16 {
		switch {
		case u >= 0xD800 && u <= 0xDBFF:
			return []uint16{u, 0xDC00 + (u & 0x3FF)}
		case u >= 0xDC00 && u <= 0xDFFF:
			return []uint16{0xD800 + (u & 0x3FF), u}
		}
		return []uint16{u}
	}
	switch fn {
	case "encodeURI", "encodeURIComponent", "escape":
		in.U = []uint16{u}
		if variant == 1 {
			in.U = pairOf()
		}
	case "decodeURI", "decodeURIComponent":
		switch variant {
		case 0:
			in.U = []uint16{u}
		case 1:
			in.U, _ = refuri.EncodeURIComponent(pairOf())
			if u&1 == 1 {
				in.U = lowerHex(in.U)
			}
		default: // an arbitrary pair of byte escapes
			in.U = append(pct(byte(u>>8), hexU), pct(byte(u), hexU)...)
		}
	case "unescape":
		switch variant {
		case 0:
			in.U = []uint16{u}
		case 1:
			d := hexU
			if u&1 == 1 {
				d = hexL
			}
			in.U = []uint16{'%', 'u', uint16(d[u>>12]), uint16(d[(u>>8)&15]), uint16(d[(u>>4)&15]), uint16(d[u&15])}
		default:
			in.U = refuri.Escape(pairOf())
			in.U = append(in.U, '%', 'u', uint16(hexU[u>>12]), uint16(hexU[(u>>8)&15]), uint16(hexU[(u>>4)&15])) // truncated %u
		}
	}
	return in
}

func lowerHex(u []uint16) []uint16 {
	o := make([]uint16, len(u))
	for i, c := range u {
		if c >= 'A' && c <= 'F' {
			c += 'a' - 'A'
		}
		o[i] = c
	}
	return o
}

const asciiInteresting = ";/?:@&=+$,#-_.!~*'()%% \"<>[\\]^`{|}azAZ09\x00\x1f\x7f"

func genUnits(r *gen.Rand, allowLone bool) []uint16 {
	n := r.Range(0, 10)
	var u []uint16
	for len(u) < n {
		switch r.Intn(12) {
		case 0, 1, 2, 3:
			u = append(u, uint16(asciiInteresting[r.Intn(len(asciiInteresting))]))
		case 4:
			u = append(u, uint16(r.Range(0, 127)))
		case 5, 6:
			u = append(u, uint16(r.Range(0x80, 0xFF)))
		case 7:
			u = append(u, []uint16{0x100, 0x7FF, 0x800, 0x20AC, 0xD7FF, 0xE000, 0xFFFD, 0xFFFE, 0xFFFF, 0x2028, 0xFEFF}[r.Intn(11)])
		case 8:
			c := uint16(r.Range(0x100, 0xFFFF))
			if c >= 0xD800 && c <= 0xDFFF {
				c = 0x4E2D
			}
			u = append(u, c)
		case 9, 10:
			cp := []int{0x10000, 0x10FFFF, 0x1F600, 0x10001, 0xFFFFF, 0x100000}[r.Intn(6)]
			if r.Bool() {
				cp = r.Range(0x10000, 0x10FFFF)
			}
			cp -= 0x10000
			u = append(u, uint16(0xD800+(cp>>10)), uint16(0xDC00+(cp&0x3FF)))
		case 11:
			if allowLone {
				c := uint16(r.Range(0xD800, 0xDFFF))
				if r.Bool() { // the edges of the two surrogate ranges
					c = []uint16{0xD800, 0xDBFF, 0xDC00, 0xDFFF}[r.Intn(4)]
				}
				u = append(u, c)
			} else {
				u = append(u, 'x')
			}
		}
	}
	return u
}

// badSequences are escape sequences 15.1.3 Decode must reject.
var badSequences = []string{
	"%C0%80", "%C1%BF", "%E0%80%80", "%E0%9F%BF", "%F0%80%80%80", "%F0%8F%BF%BF", // overlong
	"%ED%A0%80", "%ED%BF%BF", "%ED%A0%BD%ED%B8%80", // UTF-8 encoded surrogates (CESU-8)
	"%F4%90%80%80", "%F5%80%80%80", "%F7%BF%BF%BF", // beyond U+10FFFF
	"%F8%88%80%80%80", "%FC%84%80%80%80%80", "%FE", "%FF", // five / six byte forms
	"%80", "%BF", "%C3", "%C3%28", "%E2%82", "%E2%28%A1", "%F0%9F%98", "%F0%28%8C%BC", // stray / missing continuation
	"%", "%4", "%G0", "%0G", "%u0041", "%%", "% 41",
}

func genURI(r *gen.Rand) Input {
	fn := uriFns[r.Intn(len(uriFns))]
	in := Input{Op: "uri", Fn: fn}
	lone := r.Chance(1, 25)
	switch fn {
	case "encodeURI", "encodeURIComponent", "escape":
		in.U = genUnits(r, lone)
		return in
	}
	// decoders: start from a valid encoding of a well-formed string ...
	base := genUnits(r, false)
	switch r.Intn(4) {
	case 0:
		in.U, _ = refuri.EncodeURI(base)
	case 1, 2:
		in.U, _ = refuri.EncodeURIComponent(base)
		if r.Chance(1, 3) { // everything escaped, also what need not be
			in.U = nil
			for _, c := range base {
				if c < 0x80 {
					in.U = append(in.U, pct(byte(c), hexU)...)
				} else {
					e, _ := refuri.EncodeURIComponent([]uint16{c})
					if e == nil {
						e = []uint16{'x'}
					}
					in.U = append(in.U, e...)
				}
			}
			// surrogate pairs were split above; redo them properly
			if !refuri.WellFormed(base) || containsSurrogate(base) {
				in.U, _ = refuri.EncodeURIComponent(base)
			}
		}
	default:
		in.U = refuri.Escape(base)
	}
	if r.Chance(1, 4) {
		in.U = lowerHex(in.U)
	}
	// ... and mutate it
	for m := r.Intn(3); m > 0 && len(in.U) > 0; m-- {
		p := r.Intn(len(in.U))
		switch r.Intn(8) {
		case 0: // flip a character to something else
			in.U[p] = uint16("0189afAFgGzZ%u+ "[r.Intn(16)])
		case 1: // delete
			in.U = append(in.U[:p:p], in.U[p+1:]...)
		case 2: // truncate
			in.U = in.U[:p]
		case 3: // insert a percent sign
			in.U = append(in.U[:p:p], append([]uint16{'%'}, in.U[p:]...)...)
		case 4, 5: // splice a sequence that must be rejected (or kept literally by unescape)
			in.U = append(in.U[:p:p], append(ascii(badSequences[r.Intn(len(badSequences))]), in.U[p:]...)...)
		case 6: // %uXXXX form
			c := r.Range(0, 0xFFFF)
			form := []string{"%%u%04X", "%%u%04x", "%%U%04X", "%%u%03X"}[r.Intn(4)] // only a lower-case u followed by four digits is an escape
			in.U = append(in.U[:p:p], append(ascii(fmt.Sprintf(form, c)), in.U[p:]...)...)
		case 7: // raw non-ASCII next to escapes
			in.U = append(in.U[:p:p], append([]uint16{[]uint16{0xE9, 0x20AC, 0xFFFD, 0x80}[r.Intn(4)]}, in.U[p:]...)...)
		}
	}
	if lone && len(in.U) > 0 {
		in.U[r.Intn(len(in.U))] = uint16(r.Range(0xD800, 0xDFFF))
	}
	return in
}

func containsSurrogate(u []uint16) bool {
	for _, c := range u {
		if c >= 0xD800 && c <= 0xDFFF {
			return true
		}
	}
	return false
}

func fromCharCode(u []uint16) string {
	var b strings.Builder
	b.WriteString("String.fromCharCode(")
	for i, c := range u {
		if i > 0 {
			b.WriteByte(',')
		}
		b.WriteString(strconv.Itoa(int(c)))
	}
	b.WriteString(")")
	return b.String()
}

func contentClass(u []uint16) string {
	cls := "empty"
	rank := map[string]int{"empty": 0, "ascii": 1, "latin1": 2, "bmp": 3, "astral": 4, "unpaired-surrogate": 5}
	up := func(s string) {
		if rank[s] > rank[cls] {
			cls = s
		}
	}
	for i := 0; i < len(u); i++ {
		c := u[i]
		switch {
		case c < 0x80:
			up("ascii")
		case c < 0x100:
			up("latin1")
		case c >= 0xD800 && c <= 0xDBFF && i+1 < len(u) && u[i+1] >= 0xDC00 && u[i+1] <= 0xDFFF:
			up("astral")
			i++
		case c >= 0xD800 && c <= 0xDFFF:
			up("unpaired-surrogate")
		default:
			up("bmp")
		}
	}
	return cls
}

// observe runs `expr` (which may throw) and returns either the result's code
// units or the name of the thrown error.
func observe(c *run.Ctx, in Input, site, expr string) (u []uint16, thrown string, ok bool) {
	captured = captured[:0]
	if !runJS(c, in, site, "try{cap(true,"+expr+")}catch(e){cap(false,e&&e.name)}", 2) {
		return nil, "", false
	}
	good, _ := captured[0].ToBoolean()
	if !good {
		s, _ := captured[1].ToString()
		return nil, s, true
	}
	u, isStr := units(captured[1])
	if !isStr {
		mismatch(c, in, site, "a String", ox.Enc(captured[1]), expr)
		return nil, "", false
	}
	return u, "", true
}

func render(u []uint16, thrown string) string {
	if thrown != "" {
		return "throw:" + thrown
	}
	return ox.Units(u)
}

func sameUnits(a, b []uint16) bool {
	if len(a) != len(b) {
		return false
	}
	for i := range a {
		if a[i] != b[i] {
			return false
		}
	}
	return true
}

func checkURI(c *run.Ctx, in Input) {
	exp, err := model(in.Fn, in.U)
	expThrown := ""
	if err != nil {
		expThrown = "URIError"
	}
	if _, e := vm.Run("var S=" + fromCharCode(in.U)); e != nil {
		panic(e)
	}
	got, thrown, ok := observe(c, in, in.Fn, in.Fn+"(S)")
	if !ok {
		return
	}
	c.Eval(1)
	if thrown != expThrown || (thrown == "" && !sameUnits(got, exp)) {
		mismatch(c, in, in.Fn, render(exp, expThrown), render(got, thrown), "input "+ox.Units(in.U))
	}
	// inverse law on what the real encoder produced
	if inv := inverseOf(in.Fn); inv != "" && err == nil {
		back, thrown2, ok := observe(c, in, inv+"("+in.Fn+"(s))", inv+"("+in.Fn+"(S))")
		if ok {
			c.Eval(1)
			if thrown2 != "" || !sameUnits(back, in.U) {
				mismatch(c, in, inv+"("+in.Fn+"(s))", ox.Units(in.U), render(back, thrown2), "round trip")
			}
			c.Feature("law:" + inv + "(" + in.Fn + "(s))=s")
		}
	}
	c.Sample(in)
	c.Feature("op:uri:" + in.Fn)
	c.Feature("content:" + contentClass(in.U))
	if expThrown != "" {
		c.Feature("uri:expected-URIError")
	} else {
		c.Feature("uri:expected-string")
	}
	c.Nontrivial("uri|" + in.Fn + "|" + ox.Units(in.U))
}
