package c13

import (
	"encoding/json"
	"fmt"
	"math"
	"os"
	"sort"
	"strings"

	"github.com/robertkrimen/otto"

	"verif/internal/gen"
	"verif/internal/ox"
	"verif/internal/refmath"
	"verif/internal/run"
)

const eps = 2.220446049250313e-16 // 2^-52

func finite(x float64) bool { return x == x && !math.IsInf(x, 0) }

// normal: finite, non-zero and not subnormal.
func normal(x float64) bool { return finite(x) && math.Abs(x) >= 2.2250738585072014e-308 }

// near: a and b agree within `ulps` units in the last place or within absTol.
func near(a, b, ulps, absTol float64) bool {
	if a != a || b != b {
		return a != a && b != b
	}
	if refmath.UlpDiff(a, b) <= ulps {
		return true
	}
	return finite(a) && finite(b) && math.Abs(a-b) <= absTol
}

func mismatch(c *run.Ctx, in Input, site, exp, act, detail string) {
	if dbg := os.Getenv("C13_DEBUG"); dbg != "" { // triage aid: every disagreement, one line each
		if f, err := os.OpenFile(dbg, os.O_APPEND|os.O_CREATE|os.O_WRONLY, 0o644); err == nil {
			b, _ := json.Marshal(in)
			fmt.Fprintf(f, "%s\t%s\t%s\t%s\t%s\n", site, exp, act, detail, b)
			f.Close()
		}
	}
	c.Fail("mismatch", site, in, exp, act, detail)
}

// expect compares one result with a 15.8.2 expectation. It returns the number
// and whether the expectation was Generic (then nothing has been compared).
func expect(c *run.Ctx, in Input, site string, w refmath.Want, v otto.Value) (float64, bool) {
	r, ok := num(v)
	if !ok {
		mismatch(c, in, site, "a Number", ox.Enc(v), w.Why)
		return math.NaN(), false
	}
	switch w.Kind {
	case refmath.Exactly:
		if !refmath.Same(r, w.V) {
			mismatch(c, in, site, ox.Num(w.V), ox.Num(r), w.Why)
		}
		c.Feature("cell:exact")
	case refmath.Approx:
		if refmath.UlpDiff(r, w.V) > 1 {
			mismatch(c, in, site, "~"+ox.Num(w.V), ox.Num(r), w.Why)
		}
		c.Feature("cell:approx-constant")
	default:
		c.Feature("cell:generic")
		return r, true
	}
	return r, false
}

// ------------------------------------------------------------------- m1

func call1(fn, arg string) string { return "Math." + fn + "(" + arg + ")" }

func checkM1(c *run.Ctx, in Input) {
	x := float64(in.X)
	vm.Set("P", []float64{x, -x, x * x})
	var calls []string
	for _, f := range unaryFns {
		calls = append(calls, call1(f, "P[0]"))
	}
	for _, f := range unaryFns {
		calls = append(calls, call1(f, "P[1]"))
	}
	calls = append(calls,
		"Math.exp(Math.log(P[0]))", "Math.log(Math.exp(P[0]))", "Math.sin(Math.asin(P[0]))", "Math.cos(Math.acos(P[0]))", "Math.tan(Math.atan(P[0]))",
		"Math.sqrt(P[2])", "Math.pow(P[0],2)", "Math.pow(P[0],0.5)", "Math.pow(P[0],-1)", "Math.pow(P[0],1)", "Math.pow(P[0],3)",
		"Math.atan2(P[0],1)", "Math.atan2(P[0],-1)", "Math.atan2(Math.sin(P[0]),Math.cos(P[0]))", "Math.exp(P[0]-1)",
		// functions otto ships beyond 15.8.2, tied to the ES5 ones by their defining relations
		"Math.log10(P[0])", "Math.log2(P[0])", "Math.cosh(P[0])", "Math.sinh(P[0])", "Math.cosh(P[1])", "Math.sinh(P[1])", "Math.expm1(P[0])")
	if !runJS(c, in, "Math:m1", "cap("+strings.Join(calls, ",")+")", len(calls)) {
		return
	}
	c.Eval(len(calls))
	n := len(unaryFns)
	R := map[string]float64{}  // f(x)
	RN := map[string]float64{} // f(-x)
	G := map[string]bool{}     // generic at x
	for k, f := range unaryFns {
		var g bool
		R[f], g = expect(c, in, "Math."+f, refmath.Unary(f, x), captured[k])
		G[f] = g
		RN[f], _ = expect(c, in, "Math."+f, refmath.Unary(f, -x), captured[n+k])
	}
	extra := make([]float64, len(calls)-2*n)
	for k := range extra {
		v, ok := num(captured[2*n+k])
		if !ok {
			mismatch(c, in, "Math:m1", "a Number", ox.Enc(captured[2*n+k]), calls[2*n+k])
			return
		}
		extra[k] = v
	}
	rel := func(site, what string, ok bool, a, b float64) {
		c.Feature("relation:" + what)
		if !ok {
			mismatch(c, in, site, what, fmt.Sprintf("%s vs %s", ox.Num(a), ox.Num(b)), "relation")
		}
	}
	ax := math.Abs(x)
	extraExpM1 := extra[14]
	// --- range, sign, symmetry of the implementation-dependent results
	for _, f := range unaryFns {
		if !G[f] {
			continue
		}
		r, rn := R[f], RN[f]
		site := "Math." + f
		if r != r {
			mismatch(c, in, site, "a number (argument inside the domain)", "NaN", "generic")
			continue
		}
		switch f {
		case "acos":
			rel(site, "0 <= acos(x) <= pi", r >= 0 && r <= refmath.Pi, r, refmath.Pi)
			rel(site, "acos(-x) = pi - acos(x)", near(rn, refmath.Pi-r, 4, 4*eps), rn, refmath.Pi-r)
			rel(site, "acos(x) < pi/2 iff x > 0", (x > 0) == (r < refmath.PiOver2) || near(r, refmath.PiOver2, 2, 0), r, x)
		case "asin":
			rel(site, "asin keeps the sign, |asin x| <= pi/2", math.Signbit(r) == math.Signbit(x) && math.Abs(r) <= refmath.PiOver2, r, x)
			rel(site, "asin odd", near(rn, -r, 1, 0), rn, -r)
			rel(site, "|asin x| >= |x|", math.Abs(r) >= ax || near(math.Abs(r), ax, 2, 0), r, x)
		case "atan":
			rel(site, "atan keeps the sign, |atan x| <= pi/2", math.Signbit(r) == math.Signbit(x) && math.Abs(r) <= refmath.PiOver2, r, x)
			rel(site, "atan odd", near(rn, -r, 1, 0), rn, -r)
			rel(site, "|atan x| <= |x|", math.Abs(r) <= ax || near(math.Abs(r), ax, 2, 0), r, x)
		case "cos":
			rel(site, "|cos x| <= 1", math.Abs(r) <= 1, r, 1)
			rel(site, "cos even", near(rn, r, 1, 0), rn, r)
			if ax < 1e-8 {
				rel(site, "cos x = 1 for tiny x", near(r, 1, 1, 0), r, 1)
			}
		case "sin":
			rel(site, "|sin x| <= 1", math.Abs(r) <= 1, r, 1)
			rel(site, "sin odd", near(rn, -r, 1, 0), rn, -r)
			if ax < 3.14 {
				rel(site, "sin keeps the sign on (-pi, pi)", math.Signbit(r) == math.Signbit(x), r, x)
				rel(site, "|sin x| <= |x|", math.Abs(r) <= ax || near(math.Abs(r), ax, 2, 0), r, x)
			}
		case "tan":
			rel(site, "tan odd", near(rn, -r, 1, 0), rn, -r)
			if ax < 1.57 {
				rel(site, "tan keeps the sign on (-pi/2, pi/2)", math.Signbit(r) == math.Signbit(x), r, x)
				rel(site, "|tan x| >= |x|", math.Abs(r) >= ax || near(math.Abs(r), ax, 2, 0), r, x)
			}
		case "exp":
			rel(site, "exp x >= 0", r >= 0, r, 0)
			rel(site, "exp x >= 1 iff x >= 0", (x > 0 && r >= 1) || (x < 0 && r <= 1), r, x)
			if ax < 1e-17 {
				rel(site, "exp x = 1 for tiny x", near(r, 1, 1, 0), r, 1)
			}
			if normal(r) && normal(rn) {
				rel(site, "exp(x) * exp(-x) = 1", near(r*rn, 1, 8, 0), r*rn, 1)
			}
			// e^x is representable exactly when x <= ln(largest double) = 709.78271289338397...
			// and rounds to a non-zero (denormal) number down to ln(2^-1075) = -745.13321910194122...
			if x <= 709.782712893384 {
				rel(site, "exp x is finite for x <= ln(MAX_VALUE)", finite(r), r, x)
			}
			if x >= -745.1332191019411 {
				rel(site, "exp x > 0 for x >= ln(MIN_VALUE/2)", r > 0, r, x)
			}
			if x > 1 {
				// one factor e taken out: e^x = e * e^(x-1) (x-1 is exact for x > 1)
				rel(site, "exp x = e * exp(x-1)", near(r, math.E*extraExpM1, 16, 0) || !finite(extraExpM1*math.E), r, math.E*extraExpM1)
			}
		case "log":
			rel(site, "log x > 0 iff x > 1", (x > 1 && r > 0) || (x < 1 && r < 0), r, x)
			rel(site, "log x <= x - 1", r <= x-1 || near(r, x-1, 4, 4*eps), r, x-1)
		case "sqrt":
			rel(site, "sqrt x >= 0", r >= 0, r, 0)
			if normal(x) {
				rel(site, "sqrt(x)^2 = x", near(r*r, x, 4, 0), r*r, x)
			}
			rel(site, "sqrt x between 1 and x", (x >= 1 && r <= x && r >= 1) || (x < 1 && r >= x && r <= 1), r, x)
		}
	}
	// --- identities between functions
	if finite(x) && x != 0 {
		s, co, t := R["sin"], R["cos"], R["tan"]
		rel("Math.sin", "sin^2 + cos^2 = 1", near(s*s+co*co, 1, 6, 0), s*s+co*co, 1)
		if co != 0 && finite(t) {
			// 64 ulp: the library's tan drops the x^3/3 term below |x| = 1e-7 (a
			// quality matter, not a 15.8.2 violation); a wrong function is off by far more
			rel("Math.tan", "tan = sin / cos", near(t, s/co, 64, 0), t, s/co)
		}
	}
	if x > 0 && finite(x) {
		l := R["log"]
		// (relative form: x * tolerance would overflow for x near the largest double)
		rel("Math.exp", "exp(log x) = x", math.Abs(extra[0]/x-1) <= (4+math.Abs(l))*2*eps || (x < 1e-300 && math.Abs(extra[0]-x) <= x*(4+math.Abs(l))*2*eps+1e-323), extra[0], x)
		if !normal(x) {
			// ln is increasing and ln(2^-1022) = -708.39641853226...
			rel("Math.log", "log x < log(2^-1022) for subnormal x", l < -708.396418532264, l, -708.396418532264)
		}
	}
	if finite(x) && ax < 700 {
		rel("Math.log", "log(exp x) = x", math.Abs(extra[1]-x) <= (1+ax)*4*eps, extra[1], x)
	}
	if ax <= 1 {
		rel("Math.asin", "sin(asin x) = x", math.Abs(extra[2]-x) <= 4*eps, extra[2], x)
		rel("Math.acos", "cos(acos x) = x", math.Abs(extra[3]-x) <= 4*eps, extra[3], x)
	}
	if ax <= 1000 {
		rel("Math.atan", "tan(atan x) = x", math.Abs(extra[4]-x) <= (1+x*x)*4*eps+ax*4*eps, extra[4], x)
	}
	if x2 := x * x; normal(x2) {
		rel("Math.sqrt", "sqrt(x*x) = |x|", near(extra[5], ax, 2, 0), extra[5], ax)
		rel("Math.pow", "pow(x,2) = x*x", near(extra[6], x2, 2, 0), extra[6], x2)
		if x3 := x2 * x; normal(x3) {
			rel("Math.pow", "pow(x,3) = x*x*x", near(extra[10], x3, 4, 0), extra[10], x3)
		}
	}
	if x > 0 && finite(x) {
		rel("Math.pow", "pow(x,0.5) = sqrt x", near(extra[7], R["sqrt"], 2, 0), extra[7], R["sqrt"])
	}
	if normal(x) && normal(1/x) {
		rel("Math.pow", "pow(x,-1) = 1/x", near(extra[8], 1/x, 2, 0), extra[8], 1/x)
	}
	if x == x {
		rel("Math.pow", "pow(x,1) = x", near(extra[9], x, 1, 0), extra[9], x)
	}
	if finite(x) && x != 0 {
		a := R["atan"]
		rel("Math.atan2", "atan2(x,1) = atan x", near(extra[11], a, 2, 0), extra[11], a)
		want := refmath.Pi - a
		if x < 0 {
			want = -refmath.Pi - a
		}
		rel("Math.atan2", "atan2(x,-1) = +-pi - atan x", near(extra[12], want, 4, 8*eps), extra[12], want)
		if ax < 3.14 {
			rel("Math.atan2", "atan2(sin x, cos x) = x", math.Abs(extra[13]-x) <= 8*eps, extra[13], x)
		}
	}
	// --- extension functions (not in ES5.1 15.8.2; checked only against their definitions in terms
	// of exp and log, with a tolerance that catches a wrong function, not a coarse one)
	if x > 0 && finite(x) {
		l := R["log"]
		tol := 64*eps*math.Abs(l) + 1e-13
		rel("Math.log10", "log10 x = log x / LN10", math.Abs(extra[15]-l/math.Ln10) <= tol, extra[15], l/math.Ln10)
		rel("Math.log2", "log2 x = log x / LN2", math.Abs(extra[16]-l/math.Ln2) <= tol, extra[16], l/math.Ln2)
	}
	if finite(x) {
		ch, sh, chn, shn := extra[17], extra[18], extra[19], extra[20]
		rel("Math.cosh", "cosh even, sinh odd", near(ch, chn, 1, 0) && near(sh, -shn, 1, 0), ch, chn)
		rel("Math.cosh", "cosh x >= 1, sinh keeps the sign", ch >= 1 && (x == 0 || math.Signbit(sh) == math.Signbit(x)), ch, sh)
		switch {
		case ax <= 700:
			e, en := R["exp"], RN["exp"]
			rel("Math.cosh", "cosh x = (e^x + e^-x) / 2", near(ch, (e+en)/2, 64, 0), ch, (e+en)/2)
			if ax > 1e-3 {
				rel("Math.sinh", "sinh x = (e^x - e^-x) / 2", near(sh, (e-en)/2, 1e5, 0), sh, (e-en)/2)
			}
		case ax <= 710.4758600739439:
			// e^|x| / 2 = e^(|x|/2) * e^(|x|/2) / 2 is representable up to |x| = ln(2 * MAX_VALUE)
			rel("Math.cosh", "cosh x is finite for |x| <= ln(2 MAX_VALUE)", finite(ch) && finite(sh), ch, sh)
		}
	}
	if x == x {
		// expm1 x = e^x - 1: never above e^x, finite wherever e^x is, equal to e^x once the 1 is below half an ulp
		em, e := extra[21], R["exp"]
		// (two library routines: a last-digit difference either way is not a wrong function)
		rel("Math.expm1", "expm1 x <= exp x (to 2 ulp)", em <= e || near(em, e, 2, 0), em, e)
		if x > 40 {
			rel("Math.expm1", "expm1 x = exp x for x > 40", near(em, e, 2, 0), em, e)
		}
		if ax < 1e-8 {
			rel("Math.expm1", "expm1 x = x + x^2/2 for tiny x", near(em, x+x*x/2, 4, 1e-300), em, x+x*x/2)
		}
	}
	c.Sample(in)
	c.Feature("op:m1")
	c.Feature("x:" + classOf(x))
	c.Nontrivial("m1|" + ox.Num(x))
}

func classOf(x float64) string {
	switch {
	case x != x:
		return "NaN"
	case math.IsInf(x, 0):
		return "infinite"
	case x == 0:
		return "zero"
	case !normal(x):
		return "subnormal"
	case math.Abs(x) < 1:
		return "|x|<1"
	case math.Abs(x) == 1:
		return "|x|=1"
	case x != math.Trunc(x):
		return "non-integer"
	case math.Abs(x) < 9007199254740992:
		return "integer<2^53"
	}
	return "integer>=2^53"
}

// ------------------------------------------------------------------- m2

// exactIntPow returns x^y computed exactly when x and y are small integers
// and every intermediate product stays below 2^53.
func exactIntPow(x, y float64) (float64, bool) {
	if !refmath.IsInteger(x) || !refmath.IsInteger(y) || y < 0 || y > 64 || math.Abs(x) > 4096 {
		return 0, false
	}
	r := 1.0
	for i := 0; i < int(y); i++ {
		r *= x
		if math.Abs(r) >= 9007199254740992 {
			return 0, false
		}
	}
	return r, true
}

func checkM2(c *run.Ctx, in Input) {
	x, y := float64(in.X), float64(in.Y)
	site := "Math." + in.Fn
	a0, a1 := "P[0]", "P[1]"
	if in.Wrap {
		a0, a1 = "W(0,P[0])", "W(1,P[1])"
	}
	main := "Math." + in.Fn + "(" + a0 + "," + a1 + ")"
	var src string
	if in.Fn == "atan2" {
		// atan2(y, x): the Input's X is the first argument (y of the spec)
		vm.Set("P", []float64{x, y, x / y, -x, -y})
		src = "tr.length=0; cap(" + main + ", tr.join(''), Math.atan(P[2]), Math.atan2(P[3],P[1]), Math.atan2(P[0],P[4]))"
	} else {
		vm.Set("P", []float64{x, y, -y})
		src = "tr.length=0; cap(" + main + ", tr.join(''), Math.exp(P[1]*Math.log(P[0])), Math.pow(P[0],P[2]), Math.log(P[0]))"
	}
	if !runJS(c, in, site, src, 5) {
		return
	}
	c.Eval(4)
	var w refmath.Want
	if in.Fn == "atan2" {
		w = refmath.Atan2(x, y)
	} else {
		w = refmath.Pow(x, y)
	}
	r, generic := expect(c, in, site, w, captured[0])
	if in.Wrap {
		// 15.8.2: ToNumber is applied to each argument, left to right
		if tr, _ := captured[1].ToString(); tr != "01" {
			mismatch(c, in, site+":coercion", `"01"`, fmt.Sprintf("%q", tr), "each argument converted once, in order")
		}
		c.Feature("wrap:obj")
	}
	rel := func(what string, ok bool, a, b float64) {
		c.Feature("relation:" + what)
		if !ok {
			mismatch(c, in, site, what, fmt.Sprintf("%s vs %s", ox.Num(a), ox.Num(b)), "relation")
		}
	}
	ex := make([]float64, 3)
	for k := range ex {
		ex[k], _ = num(captured[2+k])
	}
	if generic && r != r {
		mismatch(c, in, site, "a number (arguments inside the domain)", "NaN", "generic")
		generic = false
	}
	if generic && in.Fn == "atan2" {
		yy, xx := x, y // spec names
		rel("atan2 keeps the sign of y, |r| <= pi", math.Signbit(r) == math.Signbit(yy) && math.Abs(r) <= refmath.Pi, r, yy)
		if xx > 0 {
			rel("x>0: |atan2| <= pi/2", math.Abs(r) <= refmath.PiOver2, r, refmath.PiOver2)
		} else {
			rel("x<0: |atan2| >= pi/2", math.Abs(r) >= refmath.PiOver2, r, refmath.PiOver2)
		}
		if q := yy / xx; normal(q) || q == 0 {
			want := ex[0]
			if xx < 0 {
				want += math.Copysign(refmath.Pi, yy)
			}
			rel("atan2(y,x) = atan(y/x) (+-pi)", near(r, want, 4, 8*eps), r, want)
		}
		rel("atan2(-y,x) = -atan2(y,x)", near(ex[1], -r, 1, 0), ex[1], -r)
		want := math.Copysign(refmath.Pi, yy) - r
		rel("atan2(y,-x) = +-pi - atan2(y,x)", near(ex[2], want, 4, 8*eps), ex[2], want)
	}
	if generic && in.Fn == "pow" {
		if x > 0 {
			rel("x>0: pow >= 0", r >= 0, r, 0)
			rel("pow(x,y) >= 1 iff (x-1)*y >= 0", ((x > 1) == (y > 0) && r >= 1) || ((x > 1) != (y > 0) && r <= 1) || x == 1, r, 1)
		} else {
			// x < 0 and y an integer: the sign follows the parity of y
			neg := refmath.IsOddInteger(y)
			rel("x<0: sign of pow follows the parity of y", r == 0 || math.IsInf(r, 0) || (r < 0) == neg, r, y)
			if r == 0 || math.IsInf(r, 0) {
				rel("x<0: signed zero / infinity follows the parity of y", math.Signbit(r) == neg, r, y)
			}
		}
		if v, ok := exactIntPow(x, y); ok {
			rel("small integer power is exact", near(r, v, 1, 0), r, v)
			c.Feature("pow:exact-integer")
		}
		if x == 2 && refmath.IsInteger(y) && y >= -1074 && y <= 1023 {
			rel("pow(2,n) = 2^n", near(r, math.Ldexp(1, int(y)), 1, 0), r, math.Ldexp(1, int(y)))
			c.Feature("pow:power-of-two")
		}
		if x > 0 && normal(r) && finite(x) {
			yl := y * ex[2]
			tol := (8 + math.Abs(y) + math.Abs(yl)) * 4 * eps
			if tol < 1e-3 && normal(ex[0]) {
				rel("pow(x,y) = exp(y*log x)", math.Abs(r-ex[0]) <= math.Abs(r)*tol, r, ex[0])
			}
			if tol < 1e-3 && normal(ex[1]) {
				rel("pow(x,y)*pow(x,-y) = 1", math.Abs(r*ex[1]-1) <= 2*tol, r*ex[1], 1)
			}
		}
	}
	c.Sample(in)
	c.Feature("op:m2:" + in.Fn)
	c.Nontrivial("m2|" + in.Fn + "|" + ox.Num(x) + "|" + ox.Num(y))
}

// ------------------------------------------------------------------- mono

type monoFn struct {
	fn     string
	lo, hi float64
	dir    int  // +1 non-decreasing, -1 non-increasing
	exact  bool // the function is defined exactly: no slack
}

var monoFns = []monoFn{
	{"exp", -745, 709, 1, false}, {"log", 5e-324, 1.7976931348623157e308, 1, false}, {"sqrt", 0, 1.7976931348623157e308, 1, false},
	{"atan", -1e300, 1e300, 1, false}, {"asin", -1, 1, 1, false}, {"acos", -1, 1, -1, false},
	{"sin", -1.5707963267948966, 1.5707963267948966, 1, false}, {"cos", 0, 3.141592653589793, -1, false}, {"tan", -1.5707963267948966, 1.5707963267948966, 1, false},
	{"ceil", -1e16, 1e16, 1, true}, {"floor", -1e16, 1e16, 1, true}, {"round", -1e16, 1e16, 1, true}, {"abs", 0, 1e300, 1, true},
}

func genMono(r *gen.Rand) Input {
	m := monoFns[r.Intn(len(monoFns))]
	pick := func() float64 {
		switch r.Intn(4) {
		case 0: // a boundary value inside the domain
			for k := 0; k < 8; k++ {
				b := boundary[r.Intn(len(boundary))]
				if b >= m.lo && b <= m.hi {
					return b
				}
			}
		case 1: // log-uniform magnitude
			v := math.Ldexp(r.Float64()+0.5, r.Range(-40, 40))
			if r.Bool() {
				v = -v
			}
			if v >= m.lo && v <= m.hi {
				return v
			}
		case 2: // around halves (ceil/floor/round)
			v := float64(r.Range(-50, 50)) + []float64{0, 0.5, 0.49999999999999994, 0.5000000000000001, -0.5}[r.Intn(5)]
			if v >= m.lo && v <= m.hi {
				return v
			}
		}
		lo, hi := math.Max(m.lo, -1e3), math.Min(m.hi, 1e3)
		return lo + r.Float64()*(hi-lo)
	}
	p := []float64{pick(), pick(), pick()}
	if r.Chance(1, 3) { // close neighbours
		p[1] = math.Nextafter(p[0], inf)
		p[2] = math.Nextafter(p[1], inf)
		if p[2] > m.hi {
			p = []float64{pick(), pick(), pick()}
		}
	}
	sort.Float64s(p)
	return Input{Op: "mono", Fn: m.fn, Pts: []gen.F{gen.F(p[0]), gen.F(p[1]), gen.F(p[2])}}
}

func checkMono(c *run.Ctx, in Input) {
	var m *monoFn
	for k := range monoFns {
		if monoFns[k].fn == in.Fn {
			m = &monoFns[k]
		}
	}
	if m == nil || len(in.Pts) != 3 {
		panic("bad mono input")
	}
	p := []float64{float64(in.Pts[0]), float64(in.Pts[1]), float64(in.Pts[2])}
	vm.Set("P", p)
	site := "Math." + in.Fn
	if !runJS(c, in, site, fmt.Sprintf("cap(Math.%[1]s(P[0]),Math.%[1]s(P[1]),Math.%[1]s(P[2]))", in.Fn), 3) {
		return
	}
	c.Eval(3)
	var f [3]float64
	for k := range f {
		var ok bool
		if f[k], ok = num(captured[k]); !ok || f[k] != f[k] {
			mismatch(c, in, site, "a number", ox.Enc(captured[k]), "monotone domain")
			return
		}
		// the special cells still apply
		if w := refmath.Unary(in.Fn, p[k]); w.Kind == refmath.Exactly && !refmath.Same(f[k], w.V) {
			mismatch(c, in, site, ox.Num(w.V), ox.Num(f[k]), w.Why)
		}
	}
	for k := 0; k < 2; k++ {
		a, b := f[k], f[k+1]
		if m.dir < 0 {
			a, b = b, a
		}
		ok := a <= b
		if !ok && !m.exact {
			ok = refmath.UlpDiff(a, b) <= 1 // an approximation may wobble by one ulp
		}
		if !ok {
			mismatch(c, in, site, fmt.Sprintf("monotone (%+d) on %s < %s", m.dir, ox.Num(p[k]), ox.Num(p[k+1])), ox.Num(f[k])+" , "+ox.Num(f[k+1]), "monotonicity")
		}
	}
	c.Sample(in)
	c.Feature("op:mono:" + in.Fn)
	c.Nontrivial(fmt.Sprintf("mono|%s|%v", in.Fn, p))
}

// ------------------------------------------------------------------- mm / co

// argSrc renders a typed argument; Go-side numbers travel through the bridged
// array A so that no decimal literal is involved.
func argSrc(a Arg, i int) string {
	switch a.K {
	case "num", "bool":
		if a.K == "bool" {
			if float64(a.V) != 0 {
				return "true"
			}
			return "false"
		}
		return fmt.Sprintf("A[%d]", i)
	case "obj":
		return fmt.Sprintf("W(%d,A[%d])", i, i)
	case "str":
		return ox.JSStr(a.S)
	case "undef":
		return "undefined"
	case "null":
		return "null"
	case "arr":
		return a.S
	}
	panic("unknown arg kind " + a.K)
}

func setArgs(args []Arg) (src []string, vals []float64, trace string) {
	a := make([]float64, len(args))
	for i, x := range args {
		a[i] = float64(x.V)
		vals = append(vals, toNumber(x))
		src = append(src, argSrc(x, i))
		if x.K == "obj" {
			trace += fmt.Sprint(i)
		}
	}
	vm.Set("A", a)
	return
}

func checkMM(c *run.Ctx, in Input) {
	src, vals, trace := setArgs(in.Args)
	site := "Math." + in.Fn
	if !runJS(c, in, site, "tr.length=0; cap(Math."+in.Fn+"("+strings.Join(src, ",")+"), tr.join(''))", 2) {
		return
	}
	c.Eval(1)
	want := refmath.Max(vals)
	if in.Fn == "min" {
		want = refmath.Min(vals)
	}
	if r, ok := num(captured[0]); !ok || !refmath.Same(r, want) {
		mismatch(c, in, site, ox.Num(want), ox.Enc(captured[0]), "15.8.2.11/12")
	}
	if tr, _ := captured[1].ToString(); tr != trace {
		mismatch(c, in, site+":coercion", fmt.Sprintf("%q", trace), fmt.Sprintf("%q", tr), "ToNumber of every argument, in order")
	}
	c.Sample(in)
	c.Feature("op:mm:" + in.Fn)
	c.Feature(fmt.Sprintf("mm:nargs=%d", len(in.Args)))
	for _, a := range in.Args {
		c.Feature("argkind:" + a.K)
	}
	c.Nontrivial(fmt.Sprintf("mm|%s|%v", in.Fn, in.Args))
}

func checkCo(c *run.Ctx, in Input) {
	src, vals, trace := setArgs(in.Args)
	v := math.NaN() // a missing argument is undefined
	if len(vals) > 0 {
		v = vals[0]
	}
	if len(in.Args) > 1 && in.Args[1].K == "obj" {
		// only the declared parameter is converted
		trace = strings.Replace(trace, "1", "", 1)
	}
	callee := "Math." + in.Fn
	if in.Fn == "isNaN" || in.Fn == "isFinite" {
		callee = in.Fn
	}
	vm.Set("V", []float64{v})
	js := "tr.length=0; cap(" + callee + "(" + strings.Join(src, ",") + "), tr.join('')"
	if callee != in.Fn {
		js += ", " + callee + "(V[0])"
	}
	js += ")"
	want := 2
	if callee != in.Fn {
		want = 3
	}
	if !runJS(c, in, callee, js, want) {
		return
	}
	c.Eval(1)
	switch in.Fn {
	case "isNaN", "isFinite":
		exp := v != v
		if in.Fn == "isFinite" {
			exp = finite(v)
		}
		if e := "b:" + fmt.Sprint(exp); ox.Enc(captured[0]) != e {
			mismatch(c, in, callee, e, ox.Enc(captured[0]), "15.1.2.4/5: ToNumber then test")
		}
	default:
		// f(arg) must be f(ToNumber(arg)); the latter is checked against the tables
		r, ok := num(captured[0])
		r2, _ := num(captured[2])
		if !ok || !refmath.Same(r, r2) {
			mismatch(c, in, callee, ox.Num(r2)+" (= f(ToNumber(arg)))", ox.Enc(captured[0]), "15.8.2: ToNumber is applied to the argument")
		}
		if w := refmath.Unary(in.Fn, v); w.Kind == refmath.Exactly && ok && !refmath.Same(r, w.V) {
			mismatch(c, in, callee, ox.Num(w.V), ox.Num(r), w.Why)
		}
	}
	if tr, _ := captured[1].ToString(); tr != trace {
		mismatch(c, in, callee+":coercion", fmt.Sprintf("%q", trace), fmt.Sprintf("%q", tr), "valueOf called exactly once on the first argument only")
	}
	c.Sample(in)
	c.Feature("op:co:" + in.Fn)
	for _, a := range in.Args {
		c.Feature("argkind:" + a.K)
	}
	if len(in.Args) == 0 {
		c.Feature("argkind:(none)")
	}
	c.Nontrivial(fmt.Sprintf("co|%s|%v", in.Fn, in.Args))
}

// ------------------------------------------------------------------- fixed

type fixedCase struct {
	src  string
	num  float64
	ulps float64 // allowed distance for numbers (0 = exact, signed zero aware)
	str  string  // expected string (when isStr)
	kind string  // num | str | bool:true | range01 | throw:<Name>
}

func fx(src string, v float64, ulps float64) fixedCase {
	return fixedCase{src: src, num: v, ulps: ulps, kind: "num"}
}

var fixedList = []fixedCase{
	// 15.8.1: "the Number value for" each constant is its correctly rounded double
	fx("Math.E", 2.718281828459045, 0), fx("Math.LN10", 2.302585092994046, 0), fx("Math.LN2", 0.6931471805599453, 0),
	fx("Math.LOG2E", 1.4426950408889634, 0), fx("Math.LOG10E", 0.4342944819032518, 0), fx("Math.PI", 3.141592653589793, 0),
	fx("Math.SQRT1_2", 0.7071067811865476, 0), fx("Math.SQRT2", 1.4142135623730951, 0),
	// textbook values (within 2 ulp of the correctly rounded result)
	fx("Math.sin(Math.PI/2)", 1, 2), fx("Math.sin(Math.PI/6)", 0.49999999999999994, 2), fx("Math.cos(Math.PI)", -1, 2), fx("Math.cos(Math.PI/3)", 0.5000000000000001, 2),
	fx("Math.tan(Math.PI/4)", 0.9999999999999999, 2), fx("Math.exp(1)", 2.718281828459045, 2), fx("Math.exp(-1)", 0.36787944117144233, 2),
	fx("Math.log(Math.E)", 1, 2), fx("Math.log(10)", 2.302585092994046, 2), fx("Math.log(2)", 0.6931471805599453, 2), fx("Math.log(0.5)", -0.6931471805599453, 2),
	fx("Math.sqrt(2)", 1.4142135623730951, 1), fx("Math.sqrt(0.5)", 0.7071067811865476, 1), fx("Math.sqrt(4)", 2, 0), fx("Math.sqrt(1e300)", 1e150, 1), fx("Math.sqrt(6.25)", 2.5, 0),
	fx("Math.atan(1)", 0.7853981633974483, 2), fx("Math.asin(1)", 1.5707963267948966, 2), fx("Math.asin(0.5)", 0.5235987755982989, 2), fx("Math.asin(-1)", -1.5707963267948966, 2),
	fx("Math.acos(-1)", 3.141592653589793, 2), fx("Math.acos(0)", 1.5707963267948966, 2), fx("Math.acos(0.5)", 1.0471975511965979, 2),
	fx("Math.atan2(1,1)", 0.7853981633974483, 2), fx("Math.atan2(1,-1)", 2.356194490192345, 2), fx("Math.atan2(-1,-1)", -2.356194490192345, 2), fx("Math.atan2(-1,1)", -0.7853981633974483, 2),
	fx("Math.pow(2,10)", 1024, 0), fx("Math.pow(2,0.5)", 1.4142135623730951, 2), fx("Math.pow(10,2)", 100, 0), fx("Math.pow(10,-2)", 0.01, 2), fx("Math.pow(2,-1074)", 5e-324, 0),
	fx("Math.pow(2,1023)", 8.98846567431158e307, 0), fx("Math.pow(2,1024)", math.Inf(1), 0), fx("Math.pow(10,309)", math.Inf(1), 0),
	fx("Math.pow(4,0.5)", 2, 1), fx("Math.pow(27,1/3)", 3, 2), fx("Math.pow(0.5,2)", 0.25, 0), fx("Math.pow(-2,3)", -8, 0), fx("Math.pow(-2,2)", 4, 0), fx("Math.pow(-8,1/3)", math.NaN(), 0),
	fx("Math.pow(7,-0)", 1, 0), fx("Math.exp(710)", math.Inf(1), 0), fx("Math.exp(-746)", 0, 0),
	fx("Math.floor(-0.5)", -1, 0), fx("Math.ceil(-0.5)", math.Copysign(0, -1), 0), fx("Math.round(-0.5)", math.Copysign(0, -1), 0), fx("Math.round(2.5)", 3, 0), fx("Math.round(-2.5)", -2, 0),
	fx("Math.round(0.49999999999999994)", 0, 0), fx("Math.abs(-0)", 0, 0),
	fx("Math.max()", math.Inf(-1), 0), fx("Math.min()", math.Inf(1), 0), fx("Math.max(1,2,3)", 3, 0), fx("Math.min(1,2,3)", 1, 0),
	// no argument at all: ToNumber(undefined) = NaN
	fx("Math.abs()", math.NaN(), 0), fx("Math.sqrt()", math.NaN(), 0), fx("Math.pow(2)", math.NaN(), 0), fx("Math.pow()", math.NaN(), 0), fx("Math.atan2(1)", math.NaN(), 0), fx("Math.round()", math.NaN(), 0),
	fx("Math.floor(null)", 0, 0), fx("Math.ceil('1.2')", 2, 0), fx("Math.round(true)", 1, 0),
	{src: "Math.random()", kind: "range01"},
	// ToString of the argument (15.1.3.x step 1, B.2.1/B.2.2 step 1)
	{src: "encodeURI(123)", str: "123", kind: "str"}, {src: "encodeURIComponent(true)", str: "true", kind: "str"}, {src: "encodeURI()", str: "undefined", kind: "str"},
	{src: "decodeURI(null)", str: "null", kind: "str"}, {src: "decodeURIComponent()", str: "undefined", kind: "str"}, {src: "escape(1.5)", str: "1.5", kind: "str"},
	{src: "unescape()", str: "undefined", kind: "str"}, {src: "escape()", str: "undefined", kind: "str"},
	{src: "encodeURI({toString:function(){return 'a b'}})", str: "a%20b", kind: "str"}, {src: "decodeURI({toString:function(){return '%41'}})", str: "A", kind: "str"},
	{src: "escape({toString:function(){return 'a b'}})", str: "a%20b", kind: "str"}, {src: "unescape({toString:function(){return '%41'}})", str: "A", kind: "str"},
	{src: "encodeURIComponent('')", str: "", kind: "str"}, {src: "decodeURIComponent('')", str: "", kind: "str"}, {src: "escape('')", str: "", kind: "str"}, {src: "unescape('')", str: "", kind: "str"},
	{src: "decodeURI('%')", kind: "throw:URIError"}, {src: "decodeURIComponent('%E4%A')", kind: "throw:URIError"}, {src: "encodeURI(String.fromCharCode(0xD800))", kind: "throw:URIError"},
	{src: "typeof isNaN", str: "function", kind: "str"},
}

func checkFixed(c *run.Ctx, in Input) {
	if in.N < 0 || in.N >= len(fixedList) {
		panic("fixed index out of range")
	}
	f := fixedList[in.N]
	site := "fixed:" + f.src
	n := 1
	if f.kind == "range01" {
		n = 500
	}
	for k := 0; k < n; k++ {
		captured = captured[:0]
		var err error
		pv, st := run.Guard(func() { _, err = vm.Run("cap(" + f.src + ")") })
		c.Eval(1)
		if pv != nil {
			c.Fail("panic", site, in, "no Go panic", fmt.Sprint(pv), st)
			vm = nil
			return
		}
		if strings.HasPrefix(f.kind, "throw:") {
			if err == nil || ox.ErrClass(err) != f.kind[6:] {
				mismatch(c, in, site, f.kind, fmt.Sprint(err), "")
			}
			continue
		}
		if err != nil || len(captured) != 1 {
			mismatch(c, in, site, "a value", "throw:"+fmt.Sprint(err), "")
			return
		}
		switch f.kind {
		case "num":
			r, ok := num(captured[0])
			good := ok && (refmath.Same(r, f.num) || (f.ulps > 0 && refmath.UlpDiff(r, f.num) <= f.ulps))
			if !good {
				mismatch(c, in, site, ox.Num(f.num), ox.Enc(captured[0]), fmt.Sprintf("within %v ulp", f.ulps))
			}
		case "str":
			if e := "s:" + ox.Str(f.str); ox.Enc(captured[0]) != e {
				mismatch(c, in, site, e, ox.Enc(captured[0]), "")
			}
		case "range01":
			if r, ok := num(captured[0]); !ok || !(r >= 0 && r < 1) {
				mismatch(c, in, site, "0 <= r < 1 (15.8.2.14)", ox.Enc(captured[0]), "")
			}
		}
	}
	c.Feature("op:fixed")
	c.Nontrivial("fixed|" + f.src)
}
