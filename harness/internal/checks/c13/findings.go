package c13

import (
	"math"
	"math/bits"
	"strings"

	"verif/internal/ox"
	"verif/internal/refmath"
	"verif/internal/refuri"
	"verif/internal/run"
)

// Matchers for known_findings/C13.jsonl. The Math ones are deviation models
// (the value the known defect yields for this input) except where a relation
// failed (then a narrow input region). The string ones share one construction:
// the reference algorithm with a set of known-defect switches; a failure is
// attributed to defect X when X belongs to the smallest set of switches that
// reproduces the observed output.

func registerMatchers() {
	run.RegisterMatcher("c13.roundFloorHalf", matchRound)
	run.RegisterMatcher("c13.powOneNaN", matchPowOneNaN)
	run.RegisterMatcher("c13.atan2Underflow", matchAtan2Underflow)
	run.RegisterMatcher("c13.logSubnormal", matchLogSubnormal)
	run.RegisterMatcher("c13.nanShortcut", matchNaNShortcut)
	run.RegisterMatcher("c13.escapeAtSign", func(f *run.Failure) bool { return matchString(f, fEscAt) })
	run.RegisterMatcher("c13.escapeAstral", func(f *run.Failure) bool { return matchString(f, fEscAstral) })
	run.RegisterMatcher("c13.unescapeSurrogate", func(f *run.Failure) bool { return matchString(f, fUnescSurr) })
	run.RegisterMatcher("c13.unescapeNonASCII", func(f *run.Failure) bool { return matchString(f, fUnescBytes) })
	run.RegisterMatcher("c13.loneSurrogate", func(f *run.Failure) bool { return matchString(f, fLone) })
}

func input(f *run.Failure) (Input, bool) {
	switch v := f.In.(type) {
	case Input:
		return v, true
	case *Input:
		return *v, true
	}
	return Input{}, false
}

// ------------------------------------------------------------------ Math

// ottoRound is floor(x + 0.5) in double arithmetic with the sign of x on a
// zero result: what builtinMathRound computes.
func ottoRound(x float64) float64 {
	v := math.Floor(x + 0.5)
	if v == 0 {
		v = math.Copysign(0, x)
	}
	return v
}

func roundPoints(in Input) []float64 {
	switch in.Op {
	case "m1":
		return []float64{float64(in.X), -float64(in.X)}
	case "mono":
		var p []float64
		for _, v := range in.Pts {
			p = append(p, float64(v))
		}
		return p
	case "co":
		if len(in.Args) > 0 {
			return []float64{toNumber(in.Args[0])}
		}
	case "fixed":
		if in.N >= 0 && in.N < len(fixedList) && fixedList[in.N].src == "Math.round(0.49999999999999994)" {
			return []float64{0.49999999999999994}
		}
	}
	return nil
}

// KF-C13-round-floor-half: Math.round(x) computed as floor(x+0.5): the
// addition rounds (0.49999999999999994 + 0.5 = 1; odd integers >= 2^52 move to
// the next even one).
func matchRound(f *run.Failure) bool {
	in, ok := input(f)
	if !ok || !(f.Site == "Math.round" || strings.HasPrefix(f.Site, "fixed:Math.round(")) || (in.Op != "fixed" && in.Fn != "" && in.Fn != "round") {
		return false
	}
	strip := func(s string) string { return strings.TrimPrefix(s, "n:") }
	for _, p := range roundPoints(in) {
		dev, exact := ottoRound(p), refmath.Round(p)
		if refmath.Same(dev, exact) {
			continue
		}
		if strip(f.Actual) == ox.Num(dev) && strings.HasPrefix(strip(f.Expected), ox.Num(exact)) {
			return true
		}
	}
	return false
}

// KF-C13-pow-one-nan: Math.pow(1, NaN) is 1 (Go's Pow(1, y) = 1 for every y);
// 15.8.2.13 first bullet: y NaN -> NaN.
func matchPowOneNaN(f *run.Failure) bool {
	in, ok := input(f)
	return ok && in.Op == "m2" && in.Fn == "pow" && f.Site == "Math.pow" && float64(in.X) == 1 && float64(in.Y) != float64(in.Y) && f.Actual == "1" && f.Expected == "NaN"
}

// underflowPoint: y<0, x<0 and the quotient y/x underflows to zero; there
// Math.atan2 returns +pi instead of ~ -pi.
func underflowPoint(y, x float64) bool {
	return y < 0 && x < 0 && finite(y) && finite(x) && y/x == 0
}

// KF-C13-atan2-underflow-quadrant (region): one of the evaluated points
// (y,x), (-y,x), (y,-x) is an underflow point.
func matchAtan2Underflow(f *run.Failure) bool {
	in, ok := input(f)
	if !ok || f.Site != "Math.atan2" {
		return false
	}
	switch in.Op {
	case "m2":
		if in.Fn != "atan2" {
			return false
		}
		y, x := float64(in.X), float64(in.Y)
		return underflowPoint(y, x) || underflowPoint(-y, x) || underflowPoint(y, -x)
	case "m1":
		// atan2(x,-1): only for negative subnormal-scale x
		return underflowPoint(float64(in.X), -1)
	}
	return false
}

func subnormal(x float64) bool { return x != 0 && math.Abs(x) < 2.2250738585072014e-308 }

// KF-C13-log-subnormal (region): Math.log of a subnormal argument is off by
// tens of units (the exponent of the denormal is not normalised), and
// Math.pow inherits it for subnormal bases with a fractional exponent.
func matchLogSubnormal(f *run.Failure) bool {
	in, ok := input(f)
	if !ok || f.Detail != "relation" {
		return false
	}
	switch in.Op {
	case "m1":
		x := float64(in.X)
		return x > 0 && subnormal(x) && (f.Site == "Math.log" || f.Site == "Math.exp") && strings.Contains(f.Expected, "log")
	case "m2":
		x, y := float64(in.X), float64(in.Y)
		return in.Fn == "pow" && f.Site == "Math.pow" && x > 0 && subnormal(x) && !refmath.IsInteger(y) && (strings.Contains(f.Expected, "exp(y*log x)") || strings.Contains(f.Expected, "pow(x,-y)"))
	case "mono":
		return in.Fn == "log" && len(in.Pts) == 3 && subnormal(float64(in.Pts[0]))
	}
	return false
}

// KF-C13-nan-shortcut: max/min/atan2 return at the first NaN argument without
// converting the remaining ones.
func matchNaNShortcut(f *run.Failure) bool {
	in, ok := input(f)
	if !ok || !strings.HasSuffix(f.Site, ":coercion") {
		return false
	}
	switch in.Op {
	case "mm":
		if len(in.Args) < 2 {
			return false
		}
		j := -1
		for i, a := range in.Args {
			if v := toNumber(a); v != v {
				j = i
				break
			}
		}
		if j < 0 || j == len(in.Args)-1 {
			return false
		}
		tr := ""
		for i, a := range in.Args[:j+1] {
			if a.K == "obj" {
				tr += string(rune('0' + i))
			}
		}
		return f.Actual == `"`+tr+`"`
	case "m2":
		return in.Fn == "atan2" && in.Wrap && float64(in.X) != float64(in.X) && f.Actual == `"0"`
	}
	return false
}

// ---------------------------------------------------------------- strings

type flag uint

const (
	fLone       flag = 1 << iota // every function but encodeURI*: an unpaired surrogate in the input (or result) is U+FFFD
	fEscAt                       // escape: '@' is escaped (%40)
	fEscAstral                   // escape: a surrogate pair yields only %u<high>
	fUnescSurr                   // unescape: a surrogate from %uXXXX becomes U+FFFD
	fUnescBytes                  // unescape: a literal non-ASCII character becomes its UTF-8 bytes, one character each
	allFlags    = fEscAt | fEscAstral | fUnescSurr | fUnescBytes | fLone
)

func isHigh(c uint16) bool { return c >= 0xD800 && c <= 0xDBFF }
func isLow(c uint16) bool  { return c >= 0xDC00 && c <= 0xDFFF }

// replaceLone substitutes U+FFFD for unpaired surrogates.
func replaceLone(u []uint16) []uint16 {
	o := make([]uint16, 0, len(u))
	for i := 0; i < len(u); i++ {
		c := u[i]
		switch {
		case isHigh(c) && i+1 < len(u) && isLow(u[i+1]):
			o = append(o, c, u[i+1])
			i++
		case isHigh(c) || isLow(c):
			o = append(o, 0xFFFD)
		default:
			o = append(o, c)
		}
	}
	return o
}

func devEscape(u []uint16, fl flag) []uint16 {
	if fl&fLone != 0 {
		u = replaceLone(u)
	}
	var r []uint16
	for i := 0; i < len(u); i++ {
		c := u[i]
		switch {
		case c == '@' && fl&fEscAt != 0:
			r = append(r, '%', '4', '0')
		case fl&fEscAstral != 0 && isHigh(c) && i+1 < len(u) && isLow(u[i+1]):
			r = append(r, refuri.Escape([]uint16{c})...)
			i++
		default:
			r = append(r, refuri.Escape([]uint16{c})...)
		}
	}
	return r
}

func utf8Of(cp uint32) []uint16 {
	switch {
	case cp < 0x80:
		return []uint16{uint16(cp)}
	case cp < 0x800:
		return []uint16{uint16(0xC0 | cp>>6), uint16(0x80 | cp&0x3F)}
	case cp < 0x10000:
		return []uint16{uint16(0xE0 | cp>>12), uint16(0x80 | (cp>>6)&0x3F), uint16(0x80 | cp&0x3F)}
	}
	return []uint16{uint16(0xF0 | cp>>18), uint16(0x80 | (cp>>12)&0x3F), uint16(0x80 | (cp>>6)&0x3F), uint16(0x80 | cp&0x3F)}
}

func hexv(c uint16) (uint16, bool) {
	switch {
	case c >= '0' && c <= '9':
		return c - '0', true
	case c >= 'a' && c <= 'f':
		return c - 'a' + 10, true
	case c >= 'A' && c <= 'F':
		return c - 'A' + 10, true
	}
	return 0, false
}

func devUnescape(u []uint16, fl flag) []uint16 {
	if fl&fLone != 0 {
		u = replaceLone(u)
	}
	n := len(u)
	var r []uint16
	for k := 0; k < n; k++ {
		c := u[k]
		if c == '%' {
			if k <= n-6 && u[k+1] == 'u' {
				var v uint16
				ok := true
				for i := 2; i <= 5; i++ {
					h, isHex := hexv(u[k+i])
					ok = ok && isHex
					v = v<<4 | h
				}
				if ok {
					if fl&fUnescSurr != 0 && (isHigh(v) || isLow(v)) {
						v = 0xFFFD
					}
					r = append(r, v)
					k += 5
					continue
				}
			}
			if k <= n-3 {
				h, ok1 := hexv(u[k+1])
				l, ok2 := hexv(u[k+2])
				if ok1 && ok2 {
					r = append(r, h<<4|l)
					k += 2
					continue
				}
			}
			r = append(r, c)
			continue
		}
		if c >= 0x80 && fl&fUnescBytes != 0 {
			cp := uint32(c)
			if isHigh(c) && k+1 < n && isLow(u[k+1]) {
				cp = (uint32(c)-0xD800)<<10 + (uint32(u[k+1]) - 0xDC00) + 0x10000
				k++
			}
			r = append(r, utf8Of(cp)...)
			continue
		}
		r = append(r, c)
	}
	return r
}

// devModel is the reference algorithm of fn with the given defects switched on.
func devModel(fn string, u []uint16, fl flag) ([]uint16, error) {
	switch fn {
	case "escape":
		return devEscape(u, fl), nil
	case "unescape":
		return devUnescape(u, fl), nil
	case "decodeURI", "decodeURIComponent":
		if fl&fLone != 0 {
			u = replaceLone(u)
		}
		return model(fn, u)
	}
	return model(fn, u)
}

// outcome renders (units, error) like checkURI does. A result read back from
// otto never holds an unpaired surrogate (Go strings cannot), so the deviant
// output is compared after the same substitution when fLone is on.
func outcome(u []uint16, err error, fl flag) string {
	if err != nil {
		return "throw:URIError"
	}
	if fl&fLone != 0 {
		u = replaceLone(u)
	}
	return ox.Units(u)
}

func matchString(f *run.Failure, x flag) bool {
	in, ok := input(f)
	if !ok || in.Op != "uri" {
		return false
	}
	inv := inverseOf(in.Fn)
	roundTrip := inv != "" && f.Site == inv+"("+in.Fn+"(s))"
	if !roundTrip && f.Site != in.Fn {
		return false
	}
	eval := func(fl flag) string {
		u, err := devModel(in.Fn, in.U, fl)
		if !roundTrip || err != nil {
			return outcome(u, err, fl)
		}
		u, err = devModel(inv, u, fl)
		return outcome(u, err, fl)
	}
	// The explanation of a failure is the first subset, by (size, value), that
	// reproduces the observed output; it is minimal, so every member is needed.
	for size := 1; size <= 5; size++ {
		for s := flag(1); s <= allFlags; s++ {
			if bits.OnesCount(uint(s)) == size && eval(s) == f.Actual {
				return s&x != 0
			}
		}
	}
	return false
}
